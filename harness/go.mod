module verif/harness

go 1.24.0

require (
	github.com/Masterminds/semver/v3 v3.3.0
	github.com/evanphx/json-patch v5.9.11+incompatible
	github.com/google/gnostic-models v0.6.9
	golang.org/x/crypto v0.37.0
	google.golang.org/protobuf v1.36.4
	helm.sh/helm/v4 v4.0.0
	k8s.io/api v0.32.3
	k8s.io/apimachinery v0.32.3
	k8s.io/cli-runtime v0.32.3
	k8s.io/client-go v0.32.3
	k8s.io/kubectl v0.32.3
	sigs.k8s.io/yaml v1.4.0
)

require (
	dario.cat/mergo v1.0.1 // indirect
	github.com/BurntSushi/toml v1.5.0 // indirect
	github.com/MakeNowJust/heredoc v1.0.0 // indirect
	github.com/Masterminds/goutils v1.1.1 // indirect
	github.com/Masterminds/sprig/v3 v3.3.0 // indirect
	github.com/Masterminds/squirrel v1.5.4 // indirect
	github.com/Masterminds/vcs v1.13.3 // indirect
	github.com/asaskevich/govalidator v0.0.0-20230301143203-a9d515a09cc2 // indirect
	github.com/blang/semver/v4 v4.0.0 // indirect
	github.com/chai2010/gettext-go v1.0.2 // indirect
	github.com/cpuguy83/go-md2man/v2 v2.0.6 // indirect
	github.com/cyphar/filepath-securejoin v0.4.1 // indirect
	github.com/davecgh/go-spew v1.1.2-0.20180830191138-d8f796af33cc // indirect
	github.com/emicklei/go-restful/v3 v3.12.1 // indirect
	github.com/evanphx/json-patch/v5 v5.9.11 // indirect
	github.com/exponent-io/jsonpath v0.0.0-20210407135951-1de76d718b3f // indirect
	github.com/fatih/color v1.13.0 // indirect
	github.com/fluxcd/cli-utils v0.36.0-flux.12 // indirect
	github.com/fxamacker/cbor/v2 v2.7.0 // indirect
	github.com/go-errors/errors v1.5.1 // indirect
	github.com/go-gorp/gorp/v3 v3.1.0 // indirect
	github.com/go-logr/logr v1.4.2 // indirect
	github.com/go-openapi/jsonpointer v0.21.0 // indirect
	github.com/go-openapi/jsonreference v0.21.0 // indirect
	github.com/go-openapi/swag v0.23.0 // indirect
	github.com/gobwas/glob v0.2.3 // indirect
	github.com/gofrs/flock v0.12.1 // indirect
	github.com/gogo/protobuf v1.3.2 // indirect
	github.com/golang/protobuf v1.5.4 // indirect
	github.com/google/btree v1.1.3 // indirect
	github.com/google/go-cmp v0.6.0 // indirect
	github.com/google/gofuzz v1.2.0 // indirect
	github.com/google/shlex v0.0.0-20191202100458-e7afc7fbc510 // indirect
	github.com/google/uuid v1.6.0 // indirect
	github.com/gorilla/websocket v1.5.3 // indirect
	github.com/gosuri/uitable v0.0.4 // indirect
	github.com/gregjones/httpcache v0.0.0-20190611155906-901d90724c79 // indirect
	github.com/hashicorp/errwrap v1.1.0 // indirect
	github.com/hashicorp/go-multierror v1.1.1 // indirect
	github.com/huandu/xstrings v1.5.0 // indirect
	github.com/jmoiron/sqlx v1.4.0 // indirect
	github.com/josharian/intern v1.0.0 // indirect
	github.com/json-iterator/go v1.1.12 // indirect
	github.com/lann/builder v0.0.0-20180802200727-47ae307949d0 // indirect
	github.com/lann/ps v0.0.0-20150810152359-62de8c46ede0 // indirect
	github.com/lib/pq v1.10.9 // indirect
	github.com/liggitt/tabwriter v0.0.0-20181228230101-89fcab3d43de // indirect
	github.com/mailru/easyjson v0.9.0 // indirect
	github.com/mattn/go-colorable v0.1.13 // indirect
	github.com/mattn/go-isatty v0.0.17 // indirect
	github.com/mattn/go-runewidth v0.0.9 // indirect
	github.com/mitchellh/copystructure v1.2.0 // indirect
	github.com/mitchellh/go-wordwrap v1.0.1 // indirect
	github.com/mitchellh/reflectwalk v1.0.2 // indirect
	github.com/moby/spdystream v0.5.0 // indirect
	github.com/moby/term v0.5.2 // indirect
	github.com/modern-go/concurrent v0.0.0-20180306012644-bacd9c7ef1dd // indirect
	github.com/modern-go/reflect2 v1.0.2 // indirect
	github.com/monochromegane/go-gitignore v0.0.0-20200626010858-205db1a8cc00 // indirect
	github.com/munnerz/goautoneg v0.0.0-20191010083416-a7dc8b61c822 // indirect
	github.com/mxk/go-flowrate v0.0.0-20140419014527-cca7078d478f // indirect
	github.com/opencontainers/go-digest v1.0.0 // indirect
	github.com/opencontainers/image-spec v1.1.1 // indirect
	github.com/peterbourgon/diskv v2.0.1+incompatible // indirect
	github.com/pkg/errors v0.9.1 // indirect
	github.com/pmezard/go-difflib v1.0.1-0.20181226105442-5d4384ee4fb2 // indirect
	github.com/rubenv/sql-migrate v1.8.0 // indirect
	github.com/russross/blackfriday/v2 v2.1.0 // indirect
	github.com/santhosh-tekuri/jsonschema/v6 v6.0.1 // indirect
	github.com/shopspring/decimal v1.4.0 // indirect
	github.com/spf13/cast v1.7.0 // indirect
	github.com/spf13/cobra v1.9.1 // indirect
	github.com/spf13/pflag v1.0.6 // indirect
	github.com/stretchr/testify v1.10.0 // indirect
	github.com/x448/float16 v0.8.4 // indirect
	github.com/xlab/treeprint v1.2.0 // indirect
	golang.org/x/net v0.38.0 // indirect
	golang.org/x/oauth2 v0.28.0 // indirect
	golang.org/x/sync v0.13.0 // indirect
	golang.org/x/sys v0.32.0 // indirect
	golang.org/x/term v0.31.0 // indirect
	golang.org/x/text v0.24.0 // indirect
	golang.org/x/time v0.9.0 // indirect
	gopkg.in/evanphx/json-patch.v4 v4.12.0 // indirect
	gopkg.in/inf.v0 v0.9.1 // indirect
	gopkg.in/yaml.v3 v3.0.1 // indirect
	k8s.io/apiextensions-apiserver v0.32.3 // indirect
	k8s.io/apiserver v0.32.3 // indirect
	k8s.io/component-base v0.32.3 // indirect
	k8s.io/klog/v2 v2.130.1 // indirect
	k8s.io/kube-openapi v0.0.0-20241212222426-2c72e554b1e7 // indirect
	k8s.io/utils v0.0.0-20241210054802-24370beab758 // indirect
	oras.land/oras-go/v2 v2.5.0 // indirect
	sigs.k8s.io/controller-runtime v0.20.4 // indirect
	sigs.k8s.io/json v0.0.0-20241014173422-cfa47c3a1cc8 // indirect
	sigs.k8s.io/kustomize/api v0.18.0 // indirect
	sigs.k8s.io/kustomize/kyaml v0.19.0 // indirect
	sigs.k8s.io/structured-merge-diff/v4 v4.5.0 // indirect
)

replace helm.sh/helm/v4 => /repo
