package main

import (
	"bytes"
	"fmt"
	"strings"
	"time"

	"helm.sh/helm/v4/pkg/kube"
	"helm.sh/helm/v4/pkg/storage/driver"
)

// barrier: kube.Client.Create on resource lists of several kinds over the simulated API server, every create
// held in flight by the harness and released one at a time in a random order; the observed sequence of
// arrivals and completions is validated against the Lean model of batchPerform (Helm.Barrier.accepts).
func init() { subs["barrier"] = corrBarrier }

var barrierKinds = [][2]string{{"v1", "ConfigMap"}, {"v1", "Secret"}, {"v1", "Service"}, {"v1", "ServiceAccount"}, {"apps/v1", "Deployment"}, {"apps/v1", "DaemonSet"}, {"apps/v1", "StatefulSet"}, {"batch/v1", "Job"}, {"batch/v1", "CronJob"}, {"v1", "PersistentVolumeClaim"}}

func corrBarrier(seed uint64, n int, tier string, out string, replay string) {
	m := StartModel()
	defer m.Close()
	rep := NewReport("C08", "barrier", seed, "case = a list of 2-9 resources in runs of 1-3 of the same kind (kinds of the same and of different API groups; a kind may come back later in the list), created by the real kube.Client.Create through the simulated API server; the harness holds every create request in flight and releases them one at a time in a random order once no further request arrives; the sequence of arrivals (loop iterations up to that resource) and completions is validated against the Lean model of batchPerform; monitor: the requests in flight at any moment are of one kind; non-trivial = at least two kinds; distinct = hash of the kind list and the release order")
	for _, id := range caseSeq("barrier", seed, n) {
		barrierCase(m, rep, NewRng(id.Seed, uint64(id.Index)), id.Seed, id.Index)
	}
	rep.Write(out, m)
}

func barrierCase(m *Model, rep *Report, r *Rng, seed uint64, idx int) {
	var kinds [][2]string
	for len(kinds) < 2+r.Intn(8) {
		k := Pick(r, barrierKinds)
		if len(kinds) > 0 && r.Chance(25) {
			k = kinds[r.Intn(len(kinds))] // a kind comes back
		}
		for i := 1 + r.Intn(3); i > 0 && len(kinds) < 9; i-- {
			kinds = append(kinds, k)
		}
	}
	var doc bytes.Buffer
	var ks []any
	distinct := map[string]bool{}
	for i, k := range kinds {
		fmt.Fprintf(&doc, "---\napiVersion: %s\nkind: %s\nmetadata:\n  name: o%d\n  namespace: default\n", k[0], k[1], i)
		ks = append(ks, k[1])
		distinct[k[1]] = true
	}
	w := newSimWorld(driver.NewMemory())
	defer w.close()
	arrive := make(chan int, 16)
	release := make([]chan struct{}, len(kinds))
	for i := range release {
		release[i] = make(chan struct{})
	}
	w.api.hold = func(path, name string) {
		var j int
		if _, err := fmt.Sscanf(name, "o%d", &j); err != nil || j < 0 || j >= len(release) {
			return
		}
		arrive <- j
		<-release[j]
	}
	client := &kube.Client{Factory: simFactory{w.tf}}
	res, err := client.Build(strings.NewReader(doc.String()), false)
	cs := map[string]any{"kinds": ks}
	if err != nil || len(res) != len(kinds) {
		rep.H("build-failed")
		return
	}
	done := make(chan error, 1)
	go func() {
		_, cerr := client.Create(res)
		done <- cerr
	}()
	var trace []any
	var order []any
	next := 0
	inflight := map[int]bool{}
	mixed := ""
	finished := false
	var cerr error
	deadline := time.After(20 * time.Second)
	for !finished || len(inflight) > 0 {
		select {
		case j := <-arrive:
			for next <= j {
				trace = append(trace, map[string]any{"spawn": true})
				next++
			}
			inflight[j] = true
			for a := range inflight {
				if kinds[a][1] != kinds[j][1] && mixed == "" {
					mixed = fmt.Sprintf("creates of %s o%d and %s o%d were in flight together", kinds[a][1], a, kinds[j][1], j)
				}
			}
		case cerr = <-done:
			finished = true
		case <-time.After(12 * time.Millisecond):
			if len(inflight) > 0 {
				var keys []int
				for a := range inflight {
					keys = append(keys, a)
				}
				// map iteration order is random: choose by the case's own generator over the sorted keys
				for a := 0; a < len(keys); a++ {
					for b := a + 1; b < len(keys); b++ {
						if keys[b] < keys[a] {
							keys[a], keys[b] = keys[b], keys[a]
						}
					}
				}
				j := Pick(r, keys)
				trace = append(trace, map[string]any{"finish": j})
				order = append(order, j)
				delete(inflight, j)
				close(release[j])
			}
		case <-deadline:
			rep.Issue(Issue{Kind: "monitor", Fingerprint: "C08:barrier:hang", What: "kube.Client.Create did not finish within 20 s", Case: cs, Seed: seed, Index: idx})
			for j := range release {
				if inflight[j] {
					close(release[j])
				}
			}
			return
		}
	}
	cs["released"] = order
	rep.Count(cs, len(distinct) >= 2)
	rep.Sample(cs)
	rep.Traces++
	rep.H(fmt.Sprintf("kinds:%d", len(distinct)))
	if cerr != nil {
		rep.H("create-error")
	}
	if mixed != "" {
		rep.Issue(Issue{Kind: "monitor", Fingerprint: "C08:barrier:mixed-kinds-in-flight", What: mixed, Case: cs, Seed: seed, Index: idx})
	}
	mr := m.Query(map[string]any{"op": "barrierAccepts", "kinds": ks, "trace": orEmptyAny(trace)})
	if mr["accepts"] != true {
		rep.Issue(Issue{Kind: "disagreement", Fingerprint: "C08:model:barrier", What: "the observed sequence of create arrivals and completions is not a run of the model of batchPerform (a create of the next kind started while one of the previous kind was unfinished)", Case: cs, Model: mr, Impl: trace, Seed: seed, Index: idx})
	}
	if next != len(kinds) && cerr == nil {
		rep.Issue(Issue{Kind: "monitor", Fingerprint: "C08:barrier:lost", What: fmt.Sprintf("only %d of %d resources were created", next, len(kinds)), Case: cs, Seed: seed, Index: idx})
	}
}
