package main

import (
	"encoding/json"
	"fmt"
	"helm.sh/helm/v4/pkg/action"
	"helm.sh/helm/v4/pkg/storage/driver"
	"os"
	"path/filepath"
	"sort"
	"strings"

	chart "helm.sh/helm/v4/pkg/chart/v2"
	"helm.sh/helm/v4/pkg/chart/v2/loader"
	chartutil "helm.sh/helm/v4/pkg/chart/v2/util"
	"helm.sh/helm/v4/pkg/engine"
)

func init() { subs["deps"] = corrDeps }

type genDep struct {
	Name       string     `json:"name"`
	Alias      string     `json:"alias"`
	Conditions [][]string `json:"conditions"`
	Tags       []string   `json:"tags"`
	condRaw    string
}

type genDChart struct {
	Name     string         `json:"name"`
	Values   map[string]any `json:"values"`
	MetaDeps []*genDep      `json:"metaDeps"`
	Subs     []*genDChart   `json:"subs"`
}

var condPaths = []string{"s.enabled", "t.enabled", "u.enabled", "a.enabled", "en", "feature.on", "global.on", "x.y.z"}
var tagNames = []string{"front", "back", "db"}

func genCondVal(r *Rng) any {
	switch r.Intn(6) {
	case 0, 1:
		return true
	case 2, 3:
		return false
	case 4:
		return "true"
	default:
		return float64(1)
	}
}

func setAtPath(m map[string]any, path string, v any) {
	parts := strings.Split(path, ".")
	cur := m
	for i, p := range parts {
		if i == len(parts)-1 {
			cur[p] = v
			return
		}
		nx, ok := cur[p].(map[string]any)
		if !ok {
			nx = map[string]any{}
			cur[p] = nx
		}
		cur = nx
	}
}

func genDTree(r *Rng, depth int, name string) *genDChart {
	c := &genDChart{Name: name, Values: map[string]any{}, MetaDeps: []*genDep{}, Subs: []*genDChart{}}
	// a few plain defaults, sometimes globals (nested, to reach the sharing of global tables)
	for i := r.Intn(3); i > 0; i-- {
		c.Values[Pick(r, valKeys)] = genScalar(r)
	}
	if r.Chance(45) {
		g := map[string]any{}
		for i := 1 + r.Intn(2); i > 0; i-- {
			switch r.Intn(3) {
			case 0:
				g[Pick(r, valKeys)] = "g-" + name
			case 1:
				setAtPath(g, Pick(r, []string{"a.b", "a.c", "b.b"}), "g-"+name)
			default:
				setAtPath(g, Pick(r, []string{"a.b.c", "a.b.d", "a.e.c"}), "g-"+name)
			}
		}
		c.Values["global"] = g
	}
	if depth >= 3 {
		return c
	}
	nsub := r.Intn(3)
	if depth == 0 {
		nsub = 1 + r.Intn(3)
	}
	names := []string{"s", "t", "u"}
	used := map[string]bool{}
	for i := 0; i < nsub; i++ {
		sn := Pick(r, names)
		if used[sn] {
			continue
		}
		used[sn] = true
		c.Subs = append(c.Subs, genDTree(r, depth+1, sn))
		if r.Chance(15) {
			continue // a chart in charts/ that Chart.yaml does not list
		}
		nrep := 1
		if r.Chance(20) {
			nrep = 2 // the same chart listed twice under different aliases
		}
		for j := 0; j < nrep; j++ {
			d := &genDep{Name: sn, Conditions: [][]string{}, Tags: []string{}}
			if nrep == 2 || r.Chance(25) {
				d.Alias = fmt.Sprintf("%s%c", sn, 'a'+rune(j))
			}
			if r.Chance(60) {
				var cs []string
				for k := 1 + r.Intn(2); k > 0; k-- {
					cs = append(cs, Pick(r, condPaths))
				}
				d.condRaw = strings.Join(cs, ",")
				if r.Chance(10) {
					d.condRaw = " " + d.condRaw + ", "
				}
				for _, x := range strings.Split(strings.TrimSpace(d.condRaw), ",") {
					if len(x) > 0 {
						d.Conditions = append(d.Conditions, strings.Split(x, "."))
					}
				}
			}
			if r.Chance(50) {
				for k := 1 + r.Intn(2); k > 0; k-- {
					d.Tags = append(d.Tags, Pick(r, tagNames))
				}
			}
			c.MetaDeps = append(c.MetaDeps, d)
		}
	}
	// defaults that decide conditions / tags
	for _, d := range c.MetaDeps {
		for _, cp := range d.Conditions {
			if r.Chance(40) {
				setAtPath(c.Values, strings.Join(cp, "."), genCondVal(r))
			}
		}
		if len(d.Tags) > 0 && r.Chance(40) {
			setAtPath(c.Values, "tags."+Pick(r, d.Tags), genCondVal(r))
		}
		// a section for the subchart under its (alias) name
		if r.Chance(40) {
			n := d.Name
			if d.Alias != "" {
				n = d.Alias
			}
			sec, _ := c.Values[n].(map[string]any)
			if sec == nil {
				sec = map[string]any{}
			}
			sec[Pick(r, valKeys)] = "from-" + name
			c.Values[n] = sec
		}
	}
	return c
}

func genPlainRepeat(r *Rng) (*genDChart, map[string]any) {
	root := &genDChart{Name: "p", Values: map[string]any{}, MetaDeps: []*genDep{}, Subs: []*genDChart{}}
	s := &genDChart{Name: "s", Values: map[string]any{"x": "s"}, MetaDeps: []*genDep{}, Subs: []*genDChart{}}
	leaves := []string{"t", "u", "w"}[:2+r.Intn(2)]
	for _, ln := range leaves {
		s.Subs = append(s.Subs, &genDChart{Name: ln, Values: map[string]any{"x": "leaf-" + ln}, MetaDeps: []*genDep{}, Subs: []*genDChart{}})
		d := &genDep{Name: ln, Conditions: [][]string{}, Tags: []string{}}
		if r.Chance(85) {
			d.condRaw = ln + ".enabled"
			d.Conditions = [][]string{{ln, "enabled"}}
			if r.Chance(50) {
				setAtPath(s.Values, ln+".enabled", r.Bool())
			}
		}
		s.MetaDeps = append(s.MetaDeps, d)
	}
	root.Subs = []*genDChart{s}
	vals := map[string]any{}
	for j := 0; j < 2+r.Intn(2); j++ {
		alias := fmt.Sprintf("s%c", 'a'+rune(j))
		root.MetaDeps = append(root.MetaDeps, &genDep{Name: "s", Alias: alias, Conditions: [][]string{}, Tags: []string{}})
		for _, ln := range leaves {
			switch r.Intn(4) {
			case 0:
				setAtPath(vals, alias+"."+ln+".enabled", r.Bool())
			case 1:
				setAtPath(root.Values, alias+"."+ln+".enabled", r.Bool())
			}
		}
	}
	return root, vals
}

func (g *genDChart) real() *chart.Chart {
	c := &chart.Chart{Metadata: &chart.Metadata{Name: g.Name, Version: "0.1.0", APIVersion: "v2"}, Values: deepCopyMap(g.Values)}
	for _, d := range g.MetaDeps {
		c.Metadata.Dependencies = append(c.Metadata.Dependencies, &chart.Dependency{Name: d.Name, Alias: d.Alias, Condition: d.condRaw, Tags: append([]string{}, d.Tags...), Version: "0.1.0", Repository: "file://x"})
	}
	c.Templates = []*chart.File{{Name: "templates/probe.yaml", Data: []byte("probe: {{ toJson .Values }}\n")}}
	for _, s := range g.Subs {
		c.AddDependency(s.real())
	}
	return c
}

func treeJSON(c *chart.Chart) map[string]any {
	md := []any{}
	for _, d := range c.Metadata.Dependencies {
		md = append(md, d.Name)
	}
	ss := []any{}
	for _, s := range c.Dependencies() {
		ss = append(ss, treeJSON(s))
	}
	return map[string]any{"name": c.Name(), "metaDeps": md, "subs": ss}
}

// sharedSubcharts: the same chart listed under two aliases and having subcharts of its own
// (the aliased copies share their dependency objects in the implementation).
func hasRepeatWithSubs(g *genDChart) bool {
	cnt := map[string]int{}
	for _, d := range g.MetaDeps {
		cnt[d.Name]++
	}
	for _, s := range g.Subs {
		if cnt[s.Name] > 1 && len(s.Subs) > 0 {
			return true
		}
		if hasRepeatWithSubs(s) {
			return true
		}
	}
	return false
}

// repeatShape: how the subtree of a repeated chart looks (the ways in which the copies of a repeated chart are
// known to interfere): its own dependencies carry aliases, are themselves repeated, or have dependencies of
// their own; "plain" when none of these holds.
func repeatShape(g *genDChart) string {
	cnt := map[string]int{}
	for _, d := range g.MetaDeps {
		cnt[d.Name]++
	}
	out := ""
	for _, s := range g.Subs {
		if cnt[s.Name] > 1 && len(s.Subs) > 0 {
			sh := ""
			sub := map[string]int{}
			for _, d := range s.MetaDeps {
				if d.Alias != "" {
					sh += "alias,"
					break
				}
			}
			for _, d := range s.MetaDeps {
				sub[d.Name]++
				if sub[d.Name] > 1 {
					sh += "repeat,"
					break
				}
			}
			for _, ss := range s.Subs {
				if len(ss.Subs) > 0 {
					sh += "deep,"
					break
				}
			}
			if sh == "" {
				sh = "plain,"
			}
			out += sh
		}
		out += repeatShape(s)
	}
	return out
}

func hasRepeat(g *genDChart) bool {
	cnt := map[string]int{}
	for _, d := range g.MetaDeps {
		cnt[d.Name]++
		if cnt[d.Name] > 1 {
			return true
		}
	}
	for _, s := range g.Subs {
		if hasRepeat(s) {
			return true
		}
	}
	return false
}

func corrDeps(seed uint64, n int, tier string, out string, replay string) {
	m := StartModel()
	defer m.Close()
	rep := NewReport("C11", "deps", seed, "case = dependency tree (depth<=3; charts s/t/u, aliases, the same chart listed twice, unlisted charts; every eighth case a chart listed two or three times under aliases whose own plain dependencies sit behind conditions decided per copy) with conditions (1-2 comma-separated paths) and tags decided by booleans / non-booleans / nothing in chart defaults and user values, nested global tables set at different levels, parent sections under (alias) names; ProcessDependencies + ToRenderValues + engine.Render compared with the model; for every fourth alias-free tree a real install over the simulated API server with a CRD in every chart (the CRDs created = those of the enabled tree); pruned tree, coalesced values, and the .Values each chart's probe template sees; non-trivial = at least one condition or tag is decided; distinct = hash of chart tree and values")
	for i := 0; i < n; i++ {
		r := NewRng(seed, uint64(i))
		if i%8 == 5 {
			// targeted stream: a chart listed two or three times under aliases whose own dependencies are plain
			// (listed, no aliases, leaves), each behind a condition decided per copy
			g, vals := genPlainRepeat(r)
			rep.H("plain-repeat-case")
			depsCase(m, rep, g, vals, true, seed, i)
			continue
		}
		g := genDTree(r, 0, "p")
		vals := map[string]any{}
		// user values deciding some conditions / tags, and sections
		var walk func(c *genDChart, prefix string)
		decided := false
		walk = func(c *genDChart, prefix string) {
			for _, d := range c.MetaDeps {
				for _, cp := range d.Conditions {
					if r.Chance(35) {
						setAtPath(vals, prefix+strings.Join(cp, "."), genCondVal(r))
						decided = true
					}
				}
				if len(d.Tags) > 0 && r.Chance(30) && prefix == "" {
					setAtPath(vals, "tags."+Pick(r, d.Tags), genCondVal(r))
					decided = true
				}
			}
			for _, s := range c.Subs {
				walk(s, prefix+s.Name+".")
			}
		}
		walk(g, "")
		if r.Chance(30) {
			setAtPath(vals, "global."+Pick(r, []string{"a.b.c", "a.b", "e"}), "g-user")
		}
		depsCase(m, rep, g, vals, decided || len(g.MetaDeps) > 0, seed, i)
	}
	rep.Write(out, m)
}

func depsCase(m *Model, rep *Report, g *genDChart, vals map[string]any, nontrivial bool, seed uint64, idx int) {
	cs := map[string]any{"chart": g, "vals": vals}
	rep.Count(cs, nontrivial)
	rep.Sample(cs)
	c := g.real()
	v := deepCopyMap(vals)
	var err error
	if p := safely(func() { err = chartutil.ProcessDependencies(c, v) }); p != "" {
		rep.Issue(Issue{Kind: "monitor", Fingerprint: "C20:panic:ProcessDependencies", What: p, Case: cs, Seed: seed, Index: idx})
		return
	}
	want := m.Query(map[string]any{"op": "processDeps", "chart": g, "vals": vals})
	if err != nil {
		rep.H("process-error")
		if _, ok := want["err"]; !ok {
			rep.Issue(Issue{Kind: "disagreement", Fingerprint: "C11:process-error", What: "ProcessDependencies failed, model did not: " + err.Error(), Case: cs, Model: want, Seed: seed, Index: idx})
		}
		return
	}
	got := treeJSON(c)
	if !jsonEqual(got, want["ok"]) {
		fp := "C11:enabled-tree"
		if sh := repeatShape(g); strings.Contains(sh, "alias") || strings.Contains(sh, "repeat") || strings.Contains(sh, "deep") {
			// the copies of a repeated chart share their dependency records and subchart objects: the copies are
			// known to interfere when those records are renamed (aliases), looked up by name more than once
			// (repeats) or processed themselves (dependencies of their own).  A repeated chart whose own
			// dependencies are plain is handled correctly on the unchanged tree and is not excused.
			fp = "C11:enabled-tree:repeated-dependency-with-subcharts"
		}
		rep.Issue(Issue{Kind: "disagreement", Fingerprint: fp, What: "the tree of enabled dependencies after ProcessDependencies differs from the model", Case: cs, Model: want["ok"], Impl: got, Seed: seed, Index: idx})
		rep.H("tree-disagree")
		return
	}
	rep.H("tree-ok")
	if hasRepeat(g) {
		rep.H("has-repeated-dependency")
	}
	// "a disabled dependency contributes no ... CRDs": a real install of the tree, every chart carrying a CRD of its
	// own (trees without aliases and repeats, so that a chart's place in the tree names it)
	if idx%4 == 0 && !hasRepeat(g) && !hasAlias(g) {
		depsCRDInstall(rep, g, vals, want["ok"], cs, seed, idx)
	}
	// values
	var rv chartutil.Values
	if p := safely(func() {
		rv, err = chartutil.ToRenderValues(c, v, chartutil.ReleaseOptions{Name: "r", Namespace: "ns"}, nil)
	}); p != "" {
		rep.Issue(Issue{Kind: "monitor", Fingerprint: "C20:panic:ToRenderValues", What: p, Case: cs, Seed: seed, Index: idx})
		return
	}
	if err != nil {
		rep.H("values-error")
		if _, ok := want["valuesErr"]; !ok {
			rep.Issue(Issue{Kind: "disagreement", Fingerprint: "C11:values-error", What: "ToRenderValues failed, model did not: " + err.Error(), Case: cs, Model: want, Seed: seed, Index: idx})
		}
		return
	}
	gotVals := rv["Values"]
	if !jsonEqual(gotVals, want["values"]) {
		fp := "C11:values"
		if nestedGlobalsD(g, vals) {
			fp = "C11:globals-leak"
		}
		rep.Issue(Issue{Kind: "disagreement", Fingerprint: fp, What: "coalesced values of the pruned tree differ from the model", Case: cs, Model: want["values"], Impl: gotVals, Seed: seed, Index: idx})
		rep.H("values-disagree")
		return
	}
	rep.H("values-ok")
	// `helm lint` computes the same values: the root chart gets a schema that allows exactly the top-level keys the
	// library path arrives at (nothing about their contents); lint must not find any other key there -- a disabled
	// dependency's section, or an aliased dependency's section under its original name (trees without a chart listed twice: those carry the known alias-copy findings)
	if idx%3 == 2 && !hasRepeat(g) {
		lintSeesSameKeys(rep, g, vals, gotVals, cs, seed, idx)
	}
	// what each chart's templates see, and which charts contribute templates at all
	var files map[string]string
	if p := safely(func() { files, err = engine.Render(c, rv) }); p != "" || err != nil {
		rep.H("render-error")
		return
	}
	expect := map[string]any{}
	var walk func(t map[string]any, prefix string, vals any)
	walk = func(t map[string]any, prefix string, vals any) {
		expect[prefix+t["name"].(string)+"/templates/probe.yaml"] = vals
		vm, _ := vals.(map[string]any)
		for _, s := range t["subs"].([]any) {
			sm := s.(map[string]any)
			walk(sm, prefix+t["name"].(string)+"/charts/", vm[sm["name"].(string)])
		}
	}
	wt := deepCopy(want["ok"]).(map[string]any)
	walk(wt, "", deepCopy(want["values"]))
	seen := map[string]any{}
	for k, f := range files {
		var pv any
		if err := json.Unmarshal([]byte(strings.TrimPrefix(strings.TrimSpace(f), "probe: ")), &pv); err != nil {
			continue
		}
		seen[k] = pv
	}
	ks1, ks2 := sortedKeys(expect), sortedKeys(seen)
	if len(ks1) != len(ks2) {
		// fewer (or more) rendered template sets than enabled charts: something is lost or duplicated
		fp := "C11:rendered-count"
		if hasRepeatWithSubs(g) {
			fp = "C11:rendered-count:aliased-subchart-paths"
		}
		rep.Issue(Issue{Kind: "monitor", Fingerprint: fp, What: "number of charts contributing templates differs from the enabled tree (template path collision)", Case: cs, Model: ks1, Impl: ks2, Seed: seed, Index: idx})
		return
	}
	if canon(ks1) != canon(ks2) {
		// same number, different path names: descendants of an aliased chart keep the original
		// name in their template path (cosmetic; counted, not an alarm). Compare by content.
		rep.H("alias-path-naming-differs")
		var e1, e2 []string
		for _, k := range ks1 {
			e1 = append(e1, canon(deepCopy(expect[k])))
		}
		for _, k := range ks2 {
			e2 = append(e2, canon(deepCopy(seen[k])))
		}
		sort.Strings(e1)
		sort.Strings(e2)
		if canon(e1) != canon(e2) {
			rep.Issue(Issue{Kind: "monitor", Fingerprint: "C11:scope", What: "the .Values seen by the charts' templates differ from the model's scoped values (compared as a multiset)", Case: cs, Model: e1, Impl: e2, Seed: seed, Index: idx})
			return
		}
	} else {
		for _, k := range ks1 {
			if !jsonEqual(expect[k], seen[k]) {
				rep.Issue(Issue{Kind: "monitor", Fingerprint: "C11:scope", What: "the .Values seen by " + k + " differ from the model's scoped values", Case: cs, Model: expect[k], Impl: seen[k], Seed: seed, Index: idx})
				return
			}
		}
	}
	rep.Traces++
	rep.H("render-ok")
}

func nestedGlobalsD(g *genDChart, vals map[string]any) bool {
	var conv func(c *genDChart) *genChart
	conv = func(c *genDChart) *genChart {
		o := &genChart{Name: c.Name, Values: c.Values}
		for _, s := range c.Subs {
			o.Deps = append(o.Deps, conv(s))
		}
		return o
	}
	return nestedGlobals(conv(g), vals)
}

func hasAlias(g *genDChart) bool {
	for _, d := range g.MetaDeps {
		if d.Alias != "" {
			return true
		}
	}
	for _, s := range g.Subs {
		if hasAlias(s) {
			return true
		}
	}
	return false
}

// realCRD: the chart tree with one CRD file per chart (named after the chart's place in the tree) and a
// ConfigMap template
func (g *genDChart) realCRD(path string) *chart.Chart {
	c := &chart.Chart{Metadata: &chart.Metadata{Name: g.Name, Version: "0.1.0", APIVersion: "v2"}, Values: deepCopyMap(g.Values)}
	for _, d := range g.MetaDeps {
		c.Metadata.Dependencies = append(c.Metadata.Dependencies, &chart.Dependency{Name: d.Name, Alias: d.Alias, Condition: d.condRaw, Tags: append([]string{}, d.Tags...), Version: "0.1.0", Repository: "file://x"})
	}
	me := path + g.Name
	c.Templates = []*chart.File{{Name: "templates/cm.yaml", Data: []byte("apiVersion: v1\nkind: ConfigMap\nmetadata:\n  name: cm-" + me + "\n")}}
	c.Files = []*chart.File{{Name: "crds/crd.yaml", Data: []byte(fmt.Sprintf(crdDoc, "k"+me+"s", "K"+me, "k"+me+"s"))}}
	for _, s := range g.Subs {
		c.AddDependency(s.realCRD(me + "-"))
	}
	return c
}

func depsCRDInstall(rep *Report, g *genDChart, vals map[string]any, tree any, cs map[string]any, seed uint64, idx int) {
	w := newSimWorld(driver.NewMemory())
	defer w.close()
	in := action.NewInstall(w.cfg())
	in.ReleaseName, in.Namespace, in.DisableOpenAPIValidation = "r", "default", true
	safely(func() { in.Run(g.realCRD(""), deepCopyMap(vals)) })
	// the CRDs that reached the cluster
	got := map[string]bool{}
	w.api.mu.Lock()
	for _, ev := range w.api.trace {
		if i := strings.Index(ev, "customresourcedefinitions/"); i >= 0 && strings.HasPrefix(ev, "POST ") {
			got[strings.TrimSuffix(ev[i+len("customresourcedefinitions/"):], ".example.com")] = true
		}
	}
	w.api.mu.Unlock()
	// the CRDs of the enabled tree (the model's)
	want := map[string]bool{}
	var walk func(t map[string]any, path string)
	walk = func(t map[string]any, path string) {
		me := path + t["name"].(string)
		want["k"+me+"s"] = true
		for _, s := range t["subs"].([]any) {
			walk(s.(map[string]any), me+"-")
		}
	}
	if tm, ok := tree.(map[string]any); ok {
		walk(tm, "")
	}
	rep.H("crd-install")
	var extra, missing []string
	for k := range got {
		if !want[k] {
			extra = append(extra, k)
		}
	}
	for k := range want {
		if !got[k] {
			missing = append(missing, k)
		}
	}
	sort.Strings(extra)
	sort.Strings(missing)
	if len(extra) > 0 {
		rep.Issue(Issue{Kind: "monitor", Fingerprint: "C11:disabled-crds-installed", What: fmt.Sprintf("install created the CRDs of disabled dependencies: %v", extra), Case: cs, Model: sortedKeys(want), Impl: sortedKeys(got), Seed: seed, Index: idx})
	}
	if len(missing) > 0 {
		rep.Issue(Issue{Kind: "monitor", Fingerprint: "C11:enabled-crds-missing", What: fmt.Sprintf("install did not create the CRDs of enabled charts: %v", missing), Case: cs, Model: sortedKeys(want), Impl: sortedKeys(got), Seed: seed, Index: idx})
	}
}

func lintSeesSameKeys(rep *Report, g *genDChart, vals map[string]any, finalVals any, cs map[string]any, seed uint64, idx int) {
	fv, ok := finalVals.(chartutil.Values)
	var keys map[string]any
	if ok {
		keys = map[string]any(fv)
	} else if m, ok := finalVals.(map[string]any); ok {
		keys = m
	} else {
		return
	}
	props := map[string]any{}
	for k := range keys {
		props[k] = map[string]any{}
	}
	schema, _ := json.Marshal(map[string]any{"$schema": "http://json-schema.org/draft-07/schema#", "type": "object", "additionalProperties": false, "properties": props})
	c := withValuesRaw(g.real())
	c.Schema = schema
	dir, err := os.MkdirTemp("", "corr-deps-lint")
	if err != nil {
		return
	}
	defer os.RemoveAll(dir)
	if err := chartutil.SaveDir(c, dir); err != nil {
		rep.H("lint:savedir-error")
		return
	}
	var res *action.LintResult
	if p := safely(func() { res = action.NewLint().Run([]string{filepath.Join(dir, c.Name())}, deepCopyMap(vals)) }); p != "" {
		rep.Issue(Issue{Kind: "monitor", Fingerprint: "C20:panic:Lint", What: p, Case: cs, Seed: seed, Index: idx})
		return
	}
	rep.H("lint:run")
	for _, msg := range res.Messages {
		if t := msg.Error(); strings.Contains(t, "dditional propert") {
			var diskKeys []string
			if lc, err := loader.LoadDir(filepath.Join(dir, c.Name())); err == nil {
				uv := deepCopyMap(vals)
				if chartutil.ProcessDependencies(lc, uv) == nil {
					lc.Schema = nil
					if rv, err := chartutil.ToRenderValues(lc, uv, chartutil.ReleaseOptions{Name: "r", Namespace: "ns"}, nil); err == nil {
						diskKeys = sortedKeys(map[string]any(rv["Values"].(chartutil.Values)))
					}
				}
			}
			_ = diskKeys
			rep.Issue(Issue{Kind: "monitor", Impl: diskKeys, Fingerprint: "C11:lint-sees-other-values", What: "helm lint validates / renders the root chart with top-level value keys the install path does not have (a disabled dependency's defaults, or a dependency under its un-aliased name): " + trunc(t, 300), Case: cs, Model: sortedKeys(keys), Seed: seed, Index: idx})
			return
		}
	}
}
