package main

import (
	"fmt"
	"sort"
	"strings"

	"k8s.io/client-go/kubernetes/fake"

	"helm.sh/helm/v4/pkg/action"
	chart "helm.sh/helm/v4/pkg/chart/v2"
	release "helm.sh/helm/v4/pkg/release/v1"
	"helm.sh/helm/v4/pkg/storage/driver"
)

func init() { subs["actions"] = corrActions }

// ---------- chart family ----------

func cmYAML(name string, data map[string]string, annos map[string]string) string {
	var b strings.Builder
	b.WriteString("apiVersion: v1\nkind: ConfigMap\nmetadata:\n  name: " + name + "\n")
	if len(annos) > 0 {
		b.WriteString("  annotations:\n")
		for _, k := range sortedKeys(annos) {
			fmt.Fprintf(&b, "    %s: %q\n", k, annos[k])
		}
	}
	if len(data) > 0 {
		b.WriteString("data:\n")
		for _, k := range sortedKeys(data) {
			fmt.Fprintf(&b, "  %s: %q\n", k, data[k])
		}
	}
	return b.String()
}

var hookEventsAll = []string{"pre-install", "post-install", "pre-upgrade", "post-upgrade", "pre-rollback", "post-rollback", "pre-delete", "post-delete"}

// actChart: version v of the test chart. withFail adds a resource the simulated server rejects.
func actChart(v int, withFail bool, hooks bool) *chart.Chart {
	c := &chart.Chart{Metadata: &chart.Metadata{APIVersion: "v2", Name: "app", Version: fmt.Sprintf("0.0.%d", v)}}
	add := func(name, body string) {
		c.Templates = append(c.Templates, &chart.File{Name: "templates/" + name + ".yaml", Data: []byte(body)})
	}
	add("cm-a", cmYAML("cm-a", map[string]string{"v": fmt.Sprint(v)}, nil))
	// the same resource names in every version: the ledger-level model abstracts the cluster to
	// phase outcomes, so the histories must not depend on which objects exist (C02/C07 vary them)
	add("cm-b", cmYAML("cm-b", map[string]string{"parity": fmt.Sprint(v % 2)}, nil))
	add("secret-s", "apiVersion: v1\nkind: Secret\nmetadata:\n  name: secret-s\nstringData:\n  p: \"pw"+fmt.Sprint(v%3)+"\"\n")
	if withFail {
		add("zz-fail", cmYAML("zz-fail", map[string]string{"x": "y"}, nil))
	}
	if hooks {
		for _, ev := range hookEventsAll {
			add("hook-"+ev, cmYAML("hook-"+ev, map[string]string{"v": fmt.Sprint(v)}, map[string]string{"helm.sh/hook": ev}))
		}
	}
	return c
}

func payloadOf(r *release.Release) int {
	var v int
	if r.Chart != nil && r.Chart.Metadata != nil {
		fmt.Sscanf(r.Chart.Metadata.Version, "0.0.%d", &v)
	}
	return v
}

// ---------- operations ----------

type opFaults struct {
	Pre       string   `json:"pre"`
	PreHook   string   `json:"preHook"`
	Resources string   `json:"resources"`
	Wait      string   `json:"wait"`
	PostHook  string   `json:"postHook"`
	Cleanup   string   `json:"cleanup"`
	Delete    string   `json:"delete"`
	St        []string `json:"st"`
}

type actOp struct {
	Kind          string   `json:"kind"` // install upgrade rollback uninstall
	Payload       int      `json:"payload"`
	Replace       bool     `json:"replace"`
	Atomic        bool     `json:"atomic"`
	CleanupOnFail bool     `json:"cleanupOnFail"`
	DryRun        bool     `json:"dryRun"`
	DisableHooks  bool     `json:"disableHooks"`
	KeepHistory   bool     `json:"keepHistory"`
	MaxHistory    int      `json:"maxHistory"`
	Version       int      `json:"version"`
	HookCreate    bool     `json:"hookCreate"` // a failing hook fails at its creation (rejected by the API server) instead of never becoming ready
	F             opFaults `json:"f"`
	Nested        opFaults `json:"nested"`
}

func dec(r *Rng, pFail, pCrash int) string {
	k := r.Intn(100)
	if k < pFail {
		return "fail"
	}
	if k < pFail+pCrash {
		return "crash"
	}
	return ""
}

type modelRec struct {
	Rev     int    `json:"rev"`
	Status  string `json:"status"`
	Payload int    `json:"payload"`
}

func genActOp(r *Rng, ledger []modelRec, nextPayload int, faultLevel int) actOp {
	op := actOp{Payload: nextPayload}
	empty := len(ledger) == 0
	lastStatus := ""
	maxRev := 0
	for _, x := range ledger {
		if x.Rev > maxRev {
			maxRev, lastStatus = x.Rev, x.Status
		}
	}
	k := r.Intn(100)
	switch {
	case empty || (k < 12 && (lastStatus == "uninstalled" || lastStatus == "failed")):
		op.Kind = "install"
		op.Replace = !empty || r.Chance(20)
	case k < 20:
		op.Kind = "install" // mostly refused: name in use
		op.Replace = r.Chance(60)
	case k < 65:
		op.Kind = "upgrade"
	case k < 83:
		op.Kind = "rollback"
		if r.Chance(60) && maxRev > 0 {
			op.Version = 1 + r.Intn(maxRev)
		}
	default:
		op.Kind = "uninstall"
		op.KeepHistory = r.Chance(50)
	}
	op.Atomic = r.Chance(25)
	op.CleanupOnFail = r.Chance(25)
	op.DryRun = r.Chance(8)
	op.DisableHooks = r.Chance(20)
	if r.Chance(40) {
		op.MaxHistory = 1 + r.Intn(4)
	}
	if faultLevel > 0 && op.Kind == "uninstall" {
		// uninstall: WaitForDelete is not a fault point of the harness; resources phase = the delete
		defer func() {}()
	}
	if faultLevel > 0 {
		pf, pc := 7*faultLevel, 2*faultLevel
		op.F = opFaults{Pre: dec(r, 2, 1), PreHook: dec(r, pf, pc), Resources: dec(r, pf, pc), Wait: dec(r, pf, pc), PostHook: dec(r, pf, pc), Delete: dec(r, pf, pc)}
		for i := 0; i < 8; i++ {
			op.F.St = append(op.F.St, dec(r, 5*faultLevel, 2*faultLevel))
		}
		op.Nested = opFaults{PreHook: dec(r, pf, 0), Wait: dec(r, pf, 0), PostHook: dec(r, pf, 0)}
		if op.Kind == "uninstall" {
			op.F.Wait, op.F.Resources = "", ""
		}
		if op.Kind == "install" {
			op.Nested.Wait = "" // the nested operation of an atomic install is an uninstall
		}
		op.HookCreate = op.Payload%3 == 0 // no extra random draw: the streams of earlier runs stay as they were
	}
	return op
}

func fJSON(f opFaults) map[string]any {
	d := func(s string) string {
		if s == "" {
			return "ok"
		}
		return s
	}
	st := []any{}
	for _, s := range f.St {
		st = append(st, d(s))
	}
	return map[string]any{"pre": d(f.Pre), "preHook": d(f.PreHook), "resources": d(f.Resources), "wait": d(f.Wait), "postHook": d(f.PostHook), "cleanup": d(f.Cleanup), "delete": d(f.Delete), "st": st}
}

// runActOp executes the operation on the real code (a fresh Configuration = a fresh process).
func runActOp(w *simWorld, op actOp) (err error, panicked string) {
	w.revive()
	w.decs = append([]string{}, op.F.St...)
	// reachability: main op, then the nested one
	w.reachable = op.F.Pre
	w.wplan.mainWait, w.wplan.nestedWait, w.wplan.resources = op.F.Wait, op.Nested.Wait, op.F.Resources
	evs := map[string][2]string{"install": {"hook-pre-install", "hook-post-install"}, "upgrade": {"hook-pre-upgrade", "hook-post-upgrade"}, "rollback": {"hook-pre-rollback", "hook-post-rollback"}, "uninstall": {"hook-pre-delete", "hook-post-delete"}}
	hookFault := func(name, d string) {
		if d == "fail" && op.HookCreate {
			w.api.mu.Lock()
			w.api.reject["POST namespaces/default/configmaps/"+name] = true
			w.api.mu.Unlock()
			return
		}
		w.wplan.hookFail[name] = d
	}
	if op.F.PreHook != "" {
		hookFault(evs[op.Kind][0], op.F.PreHook)
	}
	if op.F.PostHook != "" {
		hookFault(evs[op.Kind][1], op.F.PostHook)
	}
	nestedKind := map[string]string{"install": "uninstall", "upgrade": "rollback"}[op.Kind]
	if nestedKind != "" {
		if op.Nested.PreHook != "" {
			hookFault(evs[nestedKind][0], op.Nested.PreHook)
		}
		if op.Nested.PostHook != "" {
			hookFault(evs[nestedKind][1], op.Nested.PostHook)
		}
	}
	w.api.mu.Lock()
	if op.F.Delete == "crash" && op.Kind == "uninstall" {
		w.api.crashOn["DELETE namespaces/default/configmaps/cm-a"] = true
	}
	if op.F.Delete == "fail" && op.Kind == "uninstall" {
		w.api.reject["DELETE namespaces/default/configmaps/cm-a"] = true
	}
	w.api.mu.Unlock()
	cfg := w.cfg()
	ch := actChart(op.Payload, false, true)
	panicked = safely(func() {
		switch op.Kind {
		case "install":
			in := action.NewInstall(cfg)
			in.ReleaseName, in.Namespace, in.DisableOpenAPIValidation = "app", "default", true
			in.Replace, in.Atomic, in.DryRun, in.DisableHooks = op.Replace, op.Atomic, op.DryRun, op.DisableHooks
			_, err = in.Run(ch, map[string]any{"v": op.Payload})
		case "upgrade":
			up := action.NewUpgrade(cfg)
			up.Namespace, up.DisableOpenAPIValidation = "default", true
			up.Atomic, up.CleanupOnFail, up.DryRun, up.DisableHooks, up.MaxHistory = op.Atomic, op.CleanupOnFail, op.DryRun, op.DisableHooks, op.MaxHistory
			_, err = up.Run("app", ch, map[string]any{"v": op.Payload})
		case "rollback":
			rb := action.NewRollback(cfg)
			rb.Version, rb.DryRun, rb.DisableHooks, rb.CleanupOnFail, rb.MaxHistory = op.Version, op.DryRun, op.DisableHooks, op.CleanupOnFail, op.MaxHistory
			err = rb.Run("app")
		case "uninstall":
			un := action.NewUninstall(cfg)
			un.KeepHistory, un.DryRun, un.DisableHooks = op.KeepHistory, op.DryRun, op.DisableHooks
			_, err = un.Run("app")
		}
	})
	return
}

func implLedger(w *simWorld) []modelRec {
	rs, _ := w.inner.List(func(*release.Release) bool { return true })
	var out []modelRec
	for _, r := range rs {
		out = append(out, modelRec{Rev: r.Version, Status: strings.TrimPrefix(statusName(r.Info.Status), "Helm.Ledger.Status."), Payload: payloadOf(r)})
	}
	sort.Slice(out, func(i, j int) bool { return out[i].Rev < out[j].Rev })
	return out
}

func ledgerJSON(l []modelRec) []any {
	out := []any{}
	for _, r := range l {
		out = append(out, map[string]any{"rev": r.Rev, "status": r.Status, "payload": r.Payload})
	}
	return out
}

func parseLedger(v any) []modelRec {
	var out []modelRec
	l, _ := v.([]any)
	for _, x := range l {
		m := x.(map[string]any)
		out = append(out, modelRec{Rev: int(m["rev"].(float64)), Status: m["status"].(string), Payload: int(m["payload"].(float64))})
	}
	sort.Slice(out, func(i, j int) bool { return out[i].Rev < out[j].Rev })
	return out
}

// ---------- property monitors on a ledger ----------

func ledgerViolations(before, after []modelRec) []string {
	var v []string
	seen := map[int]bool{}
	dep := 0
	for _, r := range after {
		if seen[r.Rev] {
			v = append(v, fmt.Sprintf("duplicate revision %d", r.Rev))
		}
		seen[r.Rev] = true
		if r.Status == "deployed" {
			dep++
		}
	}
	if dep > 1 {
		v = append(v, fmt.Sprintf("%d revisions are marked deployed", dep))
	}
	// new revisions are exactly max+1
	maxBefore := 0
	inBefore := map[int]bool{}
	for _, r := range before {
		inBefore[r.Rev] = true
		if r.Rev > maxBefore {
			maxBefore = r.Rev
		}
	}
	var fresh []int
	for _, r := range after {
		if !inBefore[r.Rev] {
			fresh = append(fresh, r.Rev)
		}
	}
	sort.Ints(fresh)
	for i, f := range fresh {
		if f != maxBefore+1+i {
			v = append(v, fmt.Sprintf("new revision %d is not %d (highest existing + 1)", f, maxBefore+1+i))
		}
	}
	return v
}

func corrActions(seed uint64, n int, tier string, out string, replay string) {
	m := StartModel()
	defer m.Close()
	rep := NewReport("C01", "actions", seed, "case = history of 3-8 install/upgrade/rollback/uninstall operations on one release name with random flags (replace, atomic, cleanup-on-fail, keep-history, max-history, no-hooks, dry-run, rollback target) and a fault plan per operation (each cluster phase and each storage write: ok / fail / crash = process death with everything frozen), run through the real action package over the Secret, ConfigMap or memory driver and the simulated API server; in addition the flag matrix: every combination of atomic / cleanup-on-fail / keep-history / no-hooks with every single cluster-side fault, each as the last operation of a short healthy history; after every operation the stored ledger (revision, status, chart), the outcome and the sequence of storage writes are compared with the Lean ledger model, and the ledger invariants are monitored on the implementation's records; non-trivial = history with at least 3 operations that changed the ledger; distinct = hash of the history")
	ids := caseSeq("actions", seed, n)
	if replayFile == "" {
		// the flag matrix: every combination of atomic / cleanup-on-fail / keep-history / no-hooks with every single
		// cluster-side fault (a failing hook failing at creation or at readiness), each on a short healthy history
		for k := range actMatrix() {
			ids = append(ids, caseID{Seed: seed, Index: matrixBase + k})
		}
	}
	for _, id := range ids {
		i, seed := id.Index, id.Seed
		r := NewRng(seed, uint64(i))
		if i >= matrixBase {
			runHistoryMatrix(m, rep, r, i-matrixBase, seed, i)
			continue
		}
		faultLevel := []int{0, 1, 1, 2}[i%4]
		backend := []string{"secrets", "configmaps", "memory"}[i%3]
		if backend == "memory" {
			faultLevel = 0 // the memory driver hands out shared pointers: faults are exercised on the object drivers
		}
		if i%16 == 15 {
			// a long chain: revisions pass 9 -> 10 -> 11 under a history limit (pruning must go by revision
			// number, and the object drivers list records in name order)
			runHistoryLong(m, rep, r, []string{"secrets", "configmaps", "memory"}[(i/16)%3], seed, i)
			continue
		}
		runHistory(m, rep, r, backend, faultLevel, 3+r.Intn(6), seed, i)
	}
	rep.Write(out, m)
}

func newBackend(name string) driver.Driver {
	switch name {
	case "secrets":
		return driver.NewSecrets(fake.NewSimpleClientset().CoreV1().Secrets("default"))
	case "configmaps":
		return driver.NewConfigMaps(fake.NewSimpleClientset().CoreV1().ConfigMaps("default"))
	}
	d := driver.NewMemory()
	d.SetNamespace("default")
	return d
}

const matrixBase = 1 << 20

// actMatrix: the probe operations of the flag matrix
func actMatrix() []actOp {
	var out []actOp
	bools := []bool{false, true}
	fault := func(op actOp, f string) actOp {
		switch f {
		case "preHook":
			op.F.PreHook = "fail"
		case "resources":
			op.F.Resources = "fail"
		case "wait":
			op.F.Wait = "fail"
		case "postHook":
			op.F.PostHook = "fail"
		case "delete":
			op.F.Delete = "fail"
		}
		return op
	}
	for _, f := range []string{"none", "preHook", "resources", "wait", "postHook"} {
		for _, nh := range bools {
			for _, hc := range bools {
				for _, a := range bools {
					for _, c := range bools {
						out = append(out, fault(actOp{Kind: "upgrade", Atomic: a, CleanupOnFail: c, DisableHooks: nh, HookCreate: hc}, f))
					}
					out = append(out, fault(actOp{Kind: "install", Atomic: a, DisableHooks: nh, HookCreate: hc}, f))
					out = append(out, fault(actOp{Kind: "rollback", CleanupOnFail: a, DisableHooks: nh, HookCreate: hc}, f))
				}
			}
		}
	}
	for _, f := range []string{"none", "preHook", "delete", "postHook"} {
		for _, nh := range bools {
			for _, hc := range bools {
				for _, kh := range bools {
					out = append(out, fault(actOp{Kind: "uninstall", KeepHistory: kh, DisableHooks: nh, HookCreate: hc}, f))
				}
			}
		}
	}
	return out
}

// runHistoryMatrix: install, upgrade (both healthy, hooks on), then the probe operation (an install probe runs on
// the empty history)
func runHistoryMatrix(m *Model, rep *Report, r *Rng, k int, seed uint64, idx int) {
	mx := actMatrix()
	if k >= len(mx) {
		return
	}
	probe := mx[k]
	nops := 3
	if probe.Kind == "install" {
		nops = 1
	}
	longPlan = func(j int, op *actOp) {
		pl := op.Payload
		switch {
		case j == nops-1:
			*op = probe
		case j == 0:
			*op = actOp{Kind: "install"}
		default:
			*op = actOp{Kind: "upgrade"}
		}
		op.Payload = pl
	}
	defer func() { longPlan = nil }()
	rep.H("matrix:" + probe.Kind)
	runHistory(m, rep, r, []string{"secrets", "configmaps"}[k%2], 0, nops, seed, idx)
}

// longPlan: when set, operation k of the history is overridden (long fault-free chains under a limit)
var longPlan func(k int, op *actOp)

func runHistoryLong(m *Model, rep *Report, r *Rng, backend string, seed uint64, idx int) {
	limit := 2 + r.Intn(3)
	longPlan = func(k int, op *actOp) {
		*op = actOp{Kind: "upgrade", Payload: op.Payload, MaxHistory: limit, DisableHooks: true}
		if k == 0 {
			op.Kind = "install"
		} else if r.Chance(12) {
			op.Kind = "rollback"
		}
	}
	defer func() { longPlan = nil }()
	runHistory(m, rep, r, backend, 0, 12+r.Intn(4), seed, idx)
}

func runHistory(m *Model, rep *Report, r *Rng, backend string, faultLevel, nops int, seed uint64, idx int) {
	w := newSimWorld(newBackend(backend))
	defer w.close()
	var ledger []modelRec
	var hist []actOp
	changed := 0
	payload := 1
	for k := 0; k < nops; k++ {
		op := genActOp(r, ledger, payload, faultLevel)
		if longPlan != nil {
			longPlan(k, &op)
		}
		payload++
		hist = append(hist, op)
		before := implLedger(w)
		w.api.mu.Lock()
		t0 := len(w.api.trace)
		w.api.mu.Unlock()
		err, pan := runActOp(w, op)
		after := implLedger(w)
		cs := map[string]any{"backend": backend, "history": hist}
		// C12: with hooks disabled no hook object is created or deleted -- by the operation or by the
		// uninstall / rollback it runs on failure (--atomic)
		// C01: every revision carries chart, values and manifest of one and the same source (a rollback copies all
		// three from its target): the user value v was set to the chart's payload number when the revision was made
		if rs, lerr := w.inner.List(func(*release.Release) bool { return true }); lerr == nil {
			for _, rr := range rs {
				if v, ok := rr.Config["v"]; ok && fmt.Sprint(v) != fmt.Sprint(payloadOf(rr)) {
					rep.Issue(Issue{Kind: "monitor", Fingerprint: "C01:revision-content-mixed:" + op.Kind, What: fmt.Sprintf("revision %d carries chart %d but the values of %v", rr.Version, payloadOf(rr), v), Case: cs, Seed: seed, Index: idx})
					break
				}
			}
		}
		// C12: a failed pre-hook gates the operation: none of the release's own resources is created, changed or
		// deleted (without --atomic, whose rollback / uninstall legitimately touches them)
		if op.F.PreHook == "fail" && !op.DisableHooks && !op.Atomic && !op.DryRun && op.F.Pre == "" {
			w.api.mu.Lock()
			for _, ev := range w.api.trace[t0:] {
				if !strings.Contains(ev, "/hook-") && !strings.HasPrefix(ev, "GET ") && (strings.HasPrefix(ev, "POST ") || strings.HasPrefix(ev, "PUT ") || strings.HasPrefix(ev, "PATCH ") || strings.HasPrefix(ev, "DELETE ")) {
					rep.Issue(Issue{Kind: "monitor", Fingerprint: "C12:prehook-failed-but-resources-touched:" + op.Kind, What: "the pre-hook of the operation failed and yet it sent " + ev, Case: cs, Seed: seed, Index: idx})
					break
				}
			}
			w.api.mu.Unlock()
		}
		if op.DisableHooks {
			w.api.mu.Lock()
			for _, ev := range w.api.trace[t0:] {
				if strings.Contains(ev, "/hook-") {
					rep.Issue(Issue{Kind: "monitor", Fingerprint: "C12:hooks-disabled-but-run:" + op.Kind, What: "the operation ran with hooks disabled and yet sent " + ev, Case: cs, Seed: seed, Index: idx})
					break
				}
			}
			w.api.mu.Unlock()
		}
		if pan != "" {
			rep.Issue(Issue{Kind: "monitor", Fingerprint: "C20:panic:action:" + op.Kind, What: pan, Case: cs, Seed: seed, Index: idx})
			return
		}
		mr := m.Query(map[string]any{"op": "ledgerOp", "kind": op.Kind, "flags": map[string]any{"replace": op.Replace, "atomic": op.Atomic, "cleanupOnFail": op.CleanupOnFail, "dryRun": op.DryRun, "disableHooks": op.DisableHooks, "keepHistory": op.KeepHistory, "maxHistory": op.MaxHistory, "version": op.Version, "nHooks": 1},
			"f": fJSON(op.F), "nested": fJSON(op.Nested), "payload": op.Payload, "ledger": ledgerJSON(ledger)})
		want := parseLedger(mr["ledger"])
		outcome, _ := mr["outcome"].(string)
		rep.H(op.Kind + ":" + outcome)
		if canon(after) != canon(want) {
			rep.Issue(Issue{Kind: "disagreement", Fingerprint: "C01:model:ledger:" + op.Kind, What: fmt.Sprintf("stored records after %s differ from the model (impl err=%v, model %s)", op.Kind, err, outcome), Case: cs, Model: want, Impl: after, Seed: seed, Index: idx})
			return
		}
		if outcome != "crashed" && (err == nil) != (outcome == "success") {
			rep.Issue(Issue{Kind: "disagreement", Fingerprint: "C01:model:outcome:" + op.Kind, What: fmt.Sprintf("%s returned err=%v, model outcome %s", op.Kind, err, outcome), Case: cs, Seed: seed, Index: idx})
			return
		}
		mw, _ := mr["writes"].([]any)
		if canon(orEmptyS(w.writes)) != canon(mw) {
			rep.Issue(Issue{Kind: "disagreement", Fingerprint: "C01:model:writes:" + op.Kind, What: "sequence of storage writes differs from the model", Case: cs, Model: mw, Impl: w.writes, Seed: seed, Index: idx})
			return
		}
		// the property, on the implementation's records
		for _, viol := range ledgerViolations(before, after) {
			fp := "C01:ledger:" + strings.Fields(viol)[0]
			if strings.Contains(viol, "marked deployed") {
				fp = classifyTwoDeployed(op, before)
			}
			rep.Issue(Issue{Kind: "monitor", Fingerprint: fp, What: viol + " after " + op.Kind, Case: cs, Impl: after, Seed: seed, Index: idx})
		}
		if err == nil && !op.DryRun && outcome == "success" {
			for _, viol := range successViolations(op, before, after) {
				fp := "C01:success:" + strings.Fields(viol)[0]
				if storageFaulted(op) {
					fp = "C01:success-with-storage-write-failure"
				} else if op.Kind == "install" && op.Replace && strings.Contains(viol, "still deployed") {
					fp = "C01:two-deployed:install-replace-over-deployed"
				} else if deployedCount(before) > 1 && strings.Contains(viol, "still deployed") {
					fp = "C01:two-deployed:inherited"
				}
				rep.Issue(Issue{Kind: "monitor", Fingerprint: fp, What: viol + " after successful " + op.Kind, Case: cs, Impl: after, Seed: seed, Index: idx})
			}
		}
		// history limit (upgrade / rollback carry their own limit)
		if op.MaxHistory > 0 && (op.Kind == "upgrade" || op.Kind == "rollback") && len(after) > len(before)-0 && outcome != "crashed" && !storageFaulted(op) {
			if msg := limitViolation(op.MaxHistory, before, after); msg != "" {
				fp := "C01:history-limit"
				if op.Atomic && op.Kind == "upgrade" && err != nil {
					fp = "C01:atomic-exceeds-limit"
				}
				rep.Issue(Issue{Kind: "monitor", Fingerprint: fp, What: msg + " after " + op.Kind, Case: cs, Impl: after, Seed: seed, Index: idx})
			}
		}
		// C03: a single cluster-side fault is contained
		if outcome == "error" && clusterFaultOnly(op) && deployedCount(before) <= 1 && !op.DryRun && len(w.writes) > 0 {
			for _, viol := range containmentViolations(op, before, after) {
				rep.Issue(Issue{Kind: "monitor", Fingerprint: viol[0], What: viol[1] + " after failed " + op.Kind, Case: cs, Impl: after, Seed: seed, Index: idx})
			}
			rep.H("C03:checked:" + op.Kind)
		}
		if canon(before) != canon(after) {
			changed++
		}
		ledger = after
		if op.DryRun && (canon(before) != canon(after) || len(w.writes) > 0) {
			rep.Issue(Issue{Kind: "monitor", Fingerprint: "C06:dry-run-storage-write", What: "a dry-run " + op.Kind + " wrote to release storage", Case: cs, Impl: w.writes, Seed: seed, Index: idx})
		}
		rep.Traces++
	}
	rep.Count(hist, changed >= 3)
	if idx < 2 {
		rep.Sample(map[string]any{"backend": backend, "history": hist, "final": ledger})
	}
}

// limitViolation: at most N records; N+1 only when the revision deployed at pruning time would
// otherwise have been removed (i.e. it is not among the N-1 newest records the prune keeps).
func limitViolation(n int, before, after []modelRec) string {
	if len(after) <= n {
		return ""
	}
	if len(after) == n+1 {
		atRisk := false
		for i, r := range before {
			if r.Status == "deployed" && i < len(before)-(n-1) {
				atRisk = true
			}
		}
		if atRisk {
			return ""
		}
	}
	return fmt.Sprintf("history has %d records with a limit of %d although the deployed revision was not at risk of being pruned", len(after), n)
}

// clusterFaultOnly: exactly the C03 quantifier -- cluster-side faults (no storage fault, no crash)
func clusterFaultOnly(op actOp) bool {
	if storageFaulted(op) {
		return false
	}
	n := 0
	for _, d := range []string{op.F.Pre, op.F.PreHook, op.F.Resources, op.F.Wait, op.F.PostHook, op.F.Delete} {
		if d == "crash" {
			return false
		}
		if d == "fail" {
			n++
		}
	}
	for _, d := range []string{op.Nested.PreHook, op.Nested.Wait, op.Nested.PostHook} {
		if d != "" && op.Atomic {
			return false // a second fault inside the restoring operation is outside "single fault"
		}
	}
	return n >= 1
}

// containmentViolations: [fingerprint, message] pairs
func containmentViolations(op actOp, before, after []modelRec) [][2]string {
	var v [][2]string
	inBefore := map[int]modelRec{}
	maxBefore := 0
	var depBefore *modelRec
	for i, r := range before {
		inBefore[r.Rev] = r
		if r.Rev > maxBefore {
			maxBefore = r.Rev
		}
		if r.Status == "deployed" {
			depBefore = &before[i]
		}
	}
	var created []modelRec
	for _, r := range after {
		if _, ok := inBefore[r.Rev]; !ok {
			created = append(created, r)
		}
	}
	switch op.Kind {
	case "install", "upgrade":
		if op.Atomic {
			if op.Kind == "install" {
				if len(after) != 0 {
					v = append(v, [2]string{"C03:atomic-install-leaves-history", "records remain"})
				}
				return v
			}
			// atomic upgrade: a new deployed revision carrying the last good revision's content
			if len(created) == 0 {
				return v // failed before anything was recorded
			}
			top := created[len(created)-1]
			good := -1
			for _, r := range before {
				if (r.Status == "deployed" || r.Status == "superseded") && r.Rev > good {
					good = r.Rev
				}
			}
			if good < 0 {
				return v
			}
			if top.Status != "deployed" || top.Payload != inBefore[good].Payload {
				v = append(v, [2]string{"C03:atomic-upgrade-not-restored", fmt.Sprintf("newest revision %d is %s with chart %d; last good revision %d has chart %d", top.Rev, top.Status, top.Payload, good, inBefore[good].Payload)})
			}
			return v
		}
		for _, r := range created {
			if r.Status != "failed" {
				v = append(v, [2]string{"C03:not-marked-failed:" + op.Kind, fmt.Sprintf("revision %d created by the operation is %s, not failed", r.Rev, r.Status)})
			}
		}
		if depBefore != nil {
			for _, r := range after {
				if r.Rev == depBefore.Rev && r.Status != "deployed" {
					v = append(v, [2]string{"C03:deployed-lost:" + op.Kind, fmt.Sprintf("previously deployed revision %d is now %s", r.Rev, r.Status)})
				}
			}
		}
	case "rollback":
		for _, r := range created {
			if r.Status != "failed" {
				fp := "C03:not-marked-failed:rollback"
				if op.F.PreHook == "fail" || op.F.PostHook == "fail" {
					fp = "C03:rollback-hook-failure-leaves-pending"
				}
				v = append(v, [2]string{fp, fmt.Sprintf("revision %d created by the rollback is %s, not failed", r.Rev, r.Status)})
			}
		}
	}
	return v
}

func orEmptyS(x []string) []any {
	out := []any{}
	for _, s := range x {
		out = append(out, s)
	}
	return out
}

func deployedCount(l []modelRec) int {
	n := 0
	for _, r := range l {
		if r.Status == "deployed" {
			n++
		}
	}
	return n
}

func storageFaulted(op actOp) bool {
	for _, s := range op.F.St {
		if s != "" {
			return true
		}
	}
	return false
}

func classifyTwoDeployed(op actOp, before []modelRec) string {
	if deployedCount(before) > 1 {
		return "C01:two-deployed:inherited"
	}
	if op.Kind == "install" && op.Replace {
		return "C01:two-deployed:install-replace-over-deployed"
	}
	if storageFaulted(op) {
		return "C01:two-deployed:supersede-write-failed"
	}
	for _, r := range before {
		_ = r
	}
	if deployedCount(before) > 1 {
		return "C01:two-deployed:inherited"
	}
	return "C01:two-deployed"
}

// successViolations: what must hold after an operation that reported success.
func successViolations(op actOp, before, after []modelRec) []string {
	var v []string
	maxBefore, maxAfter := 0, 0
	for _, r := range before {
		if r.Rev > maxBefore {
			maxBefore = r.Rev
		}
	}
	var top modelRec
	for _, r := range after {
		if r.Rev > maxAfter {
			maxAfter, top = r.Rev, r
		}
	}
	switch op.Kind {
	case "install", "upgrade", "rollback":
		if maxAfter <= maxBefore {
			v = append(v, "created no new revision")
			return v
		}
		if top.Status != "deployed" {
			v = append(v, fmt.Sprintf("created revision %d is %s, not deployed", top.Rev, top.Status))
		}
		for _, r := range after {
			if r.Rev != top.Rev && r.Status == "deployed" {
				v = append(v, fmt.Sprintf("earlier revision %d is still deployed", r.Rev))
			}
		}
		if op.Kind == "rollback" {
			target := op.Version
			if target == 0 {
				target = maxBefore - 1
			}
			for _, r := range before {
				if r.Rev == target && r.Payload != top.Payload {
					v = append(v, fmt.Sprintf("rollback revision carries chart %d, target revision %d has %d", top.Payload, target, r.Payload))
				}
			}
		}
		if op.MaxHistory > 0 && op.Kind != "install" && len(after) > op.MaxHistory+1 {
			v = append(v, fmt.Sprintf("history has %d records with a limit of %d", len(after), op.MaxHistory))
		}
	case "uninstall":
		if !op.KeepHistory && len(after) > 0 {
			v = append(v, "records remain after uninstall without keep-history")
		}
	}
	return v
}
