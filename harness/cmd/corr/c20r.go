package main

import (
	"context"
	"encoding/json"
	"fmt"
	"os"
	"os/exec"
	"path/filepath"
	"regexp"
	"strconv"
	"strings"
	"time"

	chart "helm.sh/helm/v4/pkg/chart/v2"
	chartutil "helm.sh/helm/v4/pkg/chart/v2/util"
	"helm.sh/helm/v4/pkg/engine"
)

// recursion: random call graphs of named templates (include) and value texts (tpl), acyclic or with one
// back edge, rendered by the real engine and by the Lean model of the recursion guard (Helm.Recursion).
func init() { subs["recursion"] = corrRecursion }

const recMax = 1000 // recursionMaxNums as regenerated (Helm.Gen.recursionMaxNums is checked against 1000 by a theorem)

type recCase struct {
	N      int     `json:"n"`
	IsTpl  []bool  `json:"isTpl"`
	Bodies [][]int `json:"bodies"`
	Cyclic bool    `json:"cyclic"`
}

func genRec(r *Rng) recCase {
	n := 2 + r.Intn(6)
	c := recCase{N: n, IsTpl: make([]bool, n), Bodies: make([][]int, n)}
	tplPct := Pick(r, []int{20, 50, 85})
	for i := 1; i < n; i++ {
		c.IsTpl[i] = r.Chance(tplPct)
	}
	for i := 0; i < n-1; i++ {
		k := r.Intn(3)
		if i == 0 && k == 0 {
			k = 1
		}
		for ; k > 0; k-- {
			c.Bodies[i] = append(c.Bodies[i], i+1+r.Intn(n-1-i))
		}
	}
	if r.Chance(45) {
		b := r.Intn(n)
		a := r.Intn(b + 1)
		pos := r.Intn(len(c.Bodies[b]) + 1)
		body := append([]int{}, c.Bodies[b][:pos]...)
		body = append(body, a)
		c.Bodies[b] = append(body, c.Bodies[b][pos:]...)
		c.Cyclic = true
	}
	return c
}

func (c recCase) text(i int) string {
	var b strings.Builder
	fmt.Fprintf(&b, "[%d", i)
	for _, j := range c.Bodies[i] {
		if c.IsTpl[j] {
			fmt.Fprintf(&b, "{{ tpl .Values.v%d . }}", j)
		} else {
			fmt.Fprintf(&b, "{{ include \"t%d\" . }}", j)
		}
	}
	b.WriteString("]")
	return b.String()
}

func (c recCase) probe() fatalProbe {
	var defs strings.Builder
	vals := map[string]any{}
	for i := 0; i < c.N; i++ {
		if c.IsTpl[i] {
			vals[fmt.Sprintf("v%d", i)] = c.text(i)
		} else {
			fmt.Fprintf(&defs, "{{- define \"t%d\" -}}%s{{- end -}}\n", i, c.text(i))
		}
	}
	return fatalProbe{Name: "recursion", Templates: map[string]string{"templates/_defs.tpl": defs.String(), "templates/root.yaml": `out: '{{ include "t0" . }}'`}, Values: vals}
}

var recNode = regexp.MustCompile(`\[(\d+)`)
var recName = regexp.MustCompile(`nested reference name: t(\d+)`)

// classify the engine's answer like the model's: ok+trace | err+counter | other
func recClassify(out map[string]string, errs string) map[string]any {
	if errs == "" {
		var tr []any
		for _, m := range recNode.FindAllStringSubmatch(out["p/templates/root.yaml"], -1) {
			v, _ := strconv.Atoi(m[1])
			tr = append(tr, float64(v))
		}
		return map[string]any{"res": "ok", "trace": orEmptyAny(tr)}
	}
	if strings.Contains(errs, "too deeply nested tpl calls") {
		return map[string]any{"res": "err", "ctr": float64(0)}
	}
	if m := recName.FindStringSubmatch(errs); m != nil {
		v, _ := strconv.Atoi(m[1])
		return map[string]any{"res": "err", "ctr": float64(v + 1)}
	}
	return map[string]any{"res": "other", "err": trunc(errs, 200)}
}

func corrRecursion(seed uint64, n int, tier string, out string, replay string) {
	m := StartModel()
	defer m.Close()
	rep := NewReport("C20", "recursion", seed, "case = a chart whose templates form a call graph of 2-7 nodes (named templates called with include, value texts called with tpl; forward edges, in 45% of the cases one back edge, self loops included); the real engine renders it (cases with a back edge in a child process, because a runaway recursion is a fatal error) and the outcome -- the order in which the nodes were entered, or which counter refused -- is compared with the Lean model of the recursion guard; monitor: the process does not die; non-trivial = at least 3 nodes entered or a refusal; distinct = hash of the graph")
	tmp, _ := os.MkdirTemp("", "corr-recursion")
	defer os.RemoveAll(tmp)
	self, _ := os.Executable()
	for _, id := range caseSeq("recursion", seed, n) {
		r := NewRng(id.Seed, uint64(id.Index))
		c := genRec(r)
		p := c.probe()
		ctr := make([]any, c.N)
		bodies := make([]any, c.N)
		tpls := make([]any, c.N)
		for i := 0; i < c.N; i++ {
			ctr[i] = i + 1
			if c.IsTpl[i] {
				ctr[i] = 0
			}
			b := []any{}
			for _, j := range c.Bodies[i] {
				b = append(b, j)
			}
			bodies[i] = b
			tpls[i] = c.IsTpl[i]
		}
		mr := m.Query(map[string]any{"op": "recursion", "bodies": bodies, "ctr": ctr, "isTpl": tpls, "max": recMax, "shared": true, "root": 0})
		var impl map[string]any
		died := ""
		if c.Cyclic {
			f := filepath.Join(tmp, fmt.Sprintf("rec-%d.json", id.Index))
			b, _ := json.Marshal(p)
			os.WriteFile(f, b, 0o644)
			ctx, cancel := context.WithTimeout(context.Background(), 180*time.Second)
			cmd := exec.CommandContext(ctx, self, "crashchild", "-replay", f)
			cmd.Env = append(os.Environ(), "CRASHCHILD_STACK_MB=768")
			outb, err := cmd.CombinedOutput()
			cancel()
			os.Remove(f)
			i := strings.Index(string(outb), "RESULT ")
			if err != nil || i < 0 {
				tail := string(outb)
				if k := strings.Index(tail, "fatal error"); k >= 0 {
					tail = tail[k:]
				}
				died = fmt.Sprint(err) + ": " + trunc(tail, 160)
			} else {
				var res struct {
					Out map[string]string `json:"out"`
					Err string            `json:"err"`
				}
				json.Unmarshal([]byte(strings.TrimSpace(string(outb)[i+len("RESULT "):])), &res)
				impl = recClassify(res.Out, res.Err)
			}
		} else {
			ch := &chart.Chart{Metadata: &chart.Metadata{APIVersion: "v2", Name: "p", Version: "0.1.0"}}
			for _, name := range sortedKeys(p.Templates) {
				ch.Templates = append(ch.Templates, &chart.File{Name: name, Data: []byte(p.Templates[name])})
			}
			vals, err := chartutil.ToRenderValues(ch, p.Values, chartutil.ReleaseOptions{Name: "r", Namespace: "n"}, nil)
			var rendered map[string]string
			if err == nil {
				rendered, err = engine.Render(ch, vals)
			}
			es := ""
			if err != nil {
				es = err.Error()
			}
			impl = recClassify(rendered, es)
		}
		cs := map[string]any{"graph": c, "templates": p.Templates, "values": p.Values}
		entered := 0
		if tr, ok := mr["trace"].([]any); ok {
			entered = len(tr)
		}
		rep.Count(c, entered >= 3 || mr["res"] != "ok")
		rep.H(fmt.Sprintf("model:%v", mr["res"]))
		rep.H(fmt.Sprintf("cyclic:%v", c.Cyclic))
		if mr["res"] == "err" {
			rep.H(fmt.Sprintf("refused-by:%v", map[bool]string{true: "tpl", false: "include"}[mr["ctr"] == float64(0)]))
		}
		rep.Sample(cs)
		if died != "" {
			rep.Issue(Issue{Kind: "monitor", Fingerprint: "C20:fatal:recursion", What: "rendering did not return: the process died (" + died + ")", Case: cs, Model: mr, Seed: id.Seed, Index: id.Index})
			continue
		}
		if canon(impl) != canon(mr) {
			rep.Issue(Issue{Kind: "disagreement", Fingerprint: "C20:model:recursion", What: "the engine and the model of the recursion guard disagree on the outcome of a render", Case: cs, Model: mr, Impl: impl, Seed: id.Seed, Index: id.Index})
		}
	}
	rep.Write(out, m)
}
