package main

import (
	"fmt"
	"os"
	"strings"
	"sync"
	"time"

	"helm.sh/helm/v4/pkg/action"
	chartutil "helm.sh/helm/v4/pkg/chart/v2/util"
	"helm.sh/helm/v4/pkg/kube"
	release "helm.sh/helm/v4/pkg/release/v1"
	"helm.sh/helm/v4/pkg/storage"
	"helm.sh/helm/v4/pkg/storage/driver"
)

func init() { subs["conc"] = corrConc }

// ---- an imposed schedule over the gated calls of concurrently running operations ----

type scheduler struct {
	mu       sync.Mutex
	cond     *sync.Cond
	order    []int
	pos      int
	finished map[int]bool
	nprocs   int
	rr       int
	busy     bool // a gated call is executing: a step is the whole call, not its start
}

func newScheduler(order []int, n int) *scheduler {
	s := &scheduler{order: order, finished: map[int]bool{}, nprocs: n}
	s.cond = sync.NewCond(&s.mu)
	return s
}

// whose turn is it?  finished operations are skipped; after the schedule the turns go round-robin
func (s *scheduler) current() int {
	for s.pos < len(s.order) && (s.finished[s.order[s.pos]] || s.order[s.pos] >= s.nprocs) {
		s.pos++
	}
	if s.pos < len(s.order) {
		return s.order[s.pos]
	}
	for k := 0; k < s.nprocs; k++ {
		id := (s.rr + k) % s.nprocs
		if !s.finished[id] {
			return id
		}
	}
	return -1
}

// gate blocks operation id until the schedule gives it the next step
func (s *scheduler) gate(id int) {
	s.mu.Lock()
	defer s.mu.Unlock()
	for s.busy || s.current() != id {
		s.cond.Wait()
	}
	s.busy = true
	if s.pos < len(s.order) {
		s.pos++
	} else {
		s.rr = (id + 1) % s.nprocs
	}
	s.cond.Broadcast()
}

// release: the gated call has returned
func (s *scheduler) release() {
	s.mu.Lock()
	s.busy = false
	s.cond.Broadcast()
	s.mu.Unlock()
}

func (s *scheduler) finish(id int) {
	s.mu.Lock()
	s.finished[id] = true
	s.cond.Broadcast()
	s.mu.Unlock()
}

// schedDriver gates the storage calls of one operation
type schedDriver struct {
	driver.Driver
	id      int
	s       *scheduler
	created *[]string // keys this operation created (guarded by mu)
	mu      *sync.Mutex
}

func (d schedDriver) Create(k string, r *release.Release) error {
	d.s.gate(d.id)
	defer d.s.release()
	err := d.Driver.Create(k, r)
	if os.Getenv("CORR_DEBUG") != "" {
		fmt.Fprintf(os.Stderr, "op%d Create %s err=%v\n", d.id, k, err)
	}
	if err == nil {
		d.mu.Lock()
		*d.created = append(*d.created, k)
		d.mu.Unlock()
	}
	return err
}
func (d schedDriver) Update(k string, r *release.Release) error {
	d.s.gate(d.id)
	defer d.s.release()
	err := d.Driver.Update(k, r)
	if os.Getenv("CORR_DEBUG") != "" {
		fmt.Fprintf(os.Stderr, "op%d Update %s status=%s err=%v\n", d.id, k, r.Info.Status, err)
	}
	return err
}
func (d schedDriver) Delete(k string) (*release.Release, error) {
	r, err := d.Driver.Delete(k)
	if os.Getenv("CORR_DEBUG") != "" {
		fmt.Fprintf(os.Stderr, "op%d Delete %s err=%v\n", d.id, k, err)
	}
	return r, err
}
func (d schedDriver) Query(q map[string]string) ([]*release.Release, error) {
	d.s.gate(d.id)
	defer d.s.release()
	rs, err := d.Driver.Query(q)
	if os.Getenv("CORR_DEBUG") != "" {
		var l []string
		for _, x := range rs {
			l = append(l, fmt.Sprintf("v%d=%s", x.Version, x.Info.Status))
		}
		fmt.Fprintf(os.Stderr, "op%d Query %v -> %v err=%v\n", d.id, q, l, err)
	}
	return rs, err
}

// schedKube gates the cluster mutation of one operation and remembers that it happened
type schedKube struct {
	simKube
	id      int
	s       *scheduler
	touched *bool
}

func (k schedKube) Create(rs kube.ResourceList) (*kube.Result, error) {
	k.s.gate(k.id)
	defer k.s.release()
	*k.touched = true
	return k.simKube.Create(rs)
}
func (k schedKube) Update(orig, target kube.ResourceList, force bool) (*kube.Result, error) {
	k.s.gate(k.id)
	defer k.s.release()
	*k.touched = true
	return k.simKube.Update(orig, target, force)
}

type concCase struct {
	Backend  string   `json:"backend"`
	History  string   `json:"history"` // empty deployed upgraded failed-on-top
	Kinds    []string `json:"kinds"`
	Force    []bool   `json:"force"` // per operation: the force flag (no influence on the protocol)
	Schedule []int    `json:"schedule"`
	// SameContent: every operation deploys the same chart with the same values (two CI jobs for one commit): the
	// records they try to create are byte-identical
	SameContent bool `json:"sameContent,omitempty"`
	// MaxHistory: the history limit the upgrades run with (not in the Lean model: judged by the monitors only)
	MaxHistory int `json:"maxHistory,omitempty"`
}

func concPayload(c concCase, i int) int {
	if c.SameContent {
		return 10
	}
	return 10 * (i + 1)
}

func corrConc(seed uint64, n int, tier string, out string, replay string) {
	m := StartModel()
	defer m.Close()
	rep := NewReport("C09", "conc", seed, "case = 2 or 3 install/upgrade operations (every fifth case one of them an `install --replace`, judged by the monitors only) on one release name run in their own goroutines through the real action package over shared memory or Secret storage and the simulated API server, from an empty, a deployed, an upgraded, or a failed-on-top history; every storage call (Query, Create, Update) and the cluster mutation of each operation waits at a gate, and a generated schedule decides which operation takes the next step (the property's granularity); the outcome of each operation, whether it touched resources, which revision it created and the stored history at quiescence are compared with the Lean interleaving model run on the same schedule, and the property is monitored on the implementation: one creator per revision, losers with an already-exists / in-progress / name-in-use error and no resource touched, well-formed history with at most one deployed revision; in the thorough tier all 924 interleavings of every pair are enumerated; non-trivial = the schedule switches between operations at least twice; distinct = hash of the case")
	ids := caseSeq("conc", seed, n)
	for _, id := range ids {
		r := NewRng(id.Seed, uint64(id.Index))
		c := concCase{Backend: []string{"memory", "secrets"}[id.Index%2], History: Pick(r, []string{"empty", "deployed", "deployed", "upgraded", "failed-on-top"})}
		np := 2
		if r.Chance(30) {
			np = 3
		}
		for i := 0; i < np; i++ {
			c.Kinds = append(c.Kinds, Pick(r, []string{"install", "upgrade", "upgrade"}))
			c.Force = append(c.Force, r.Chance(30))
		}
		// every fifth case one party is `install --replace` (not in the Lean model: such cases are judged by the
		// property monitors only; not on a failed-on-top history, where --replace legitimately proceeds and the
		// known C01 finding about replace over a deployed revision would show)
		if id.Index%5 == 4 && c.History != "failed-on-top" {
			c.Kinds[id.Index/5%np] = "install-replace"
		}
		c.SameContent = id.Index%3 == 1
		if id.Index%7 == 5 {
			c.MaxHistory = 1 + id.Index/7%2
			// on the Secret driver only: the memory driver hands out the stored objects themselves (recorded finding),
			// and under a limit a pruning operation then sees half-updated records (status changed in place, the
			// label index not yet) -- cascades of that finding, not new information
			c.Backend = "secrets"
		}
		// a random interleaving of 6 steps each
		left := make([]int, np)
		for i := range left {
			left[i] = 6
		}
		for {
			var avail []int
			for i, l := range left {
				if l > 0 {
					avail = append(avail, i)
				}
			}
			if len(avail) == 0 {
				break
			}
			// favour staying on the same operation a little: bursts
			pick := Pick(r, avail)
			if len(c.Schedule) > 0 && r.Chance(35) && left[c.Schedule[len(c.Schedule)-1]] > 0 {
				pick = c.Schedule[len(c.Schedule)-1]
			}
			c.Schedule = append(c.Schedule, pick)
			left[pick]--
		}
		concRun(m, rep, c, id.Seed, id.Index)
		if id.Index%15 == 3 {
			pendingOnTopCase(rep, NewRng(id.Seed, uint64(id.Index)+1<<33), id.Seed, id.Index)
		}
	}
	if tier == "thorough" && replayFile == "" {
		// every interleaving of every pair, on every history
		idx := 1 << 20
		for _, h := range []string{"empty", "deployed", "upgraded", "failed-on-top"} {
			for _, ks := range [][]string{{"install", "install"}, {"install", "upgrade"}, {"upgrade", "install"}, {"upgrade", "upgrade"}} {
				for _, s := range interleavings2(6, 6) {
					concRun(m, rep, concCase{Backend: []string{"memory", "secrets"}[idx%2], History: h, Kinds: ks, Force: []bool{idx%3 == 0, idx%5 == 0}, Schedule: s}, seed, idx)
					idx++
				}
			}
		}
	}
	rep.Write(out, m)
}

func interleavings2(a, b int) [][]int {
	if a == 0 && b == 0 {
		return [][]int{{}}
	}
	var out [][]int
	if a > 0 {
		for _, s := range interleavings2(a-1, b) {
			out = append(out, append([]int{0}, s...))
		}
	}
	if b > 0 {
		for _, s := range interleavings2(a, b-1) {
			out = append(out, append([]int{1}, s...))
		}
	}
	return out
}

func concRun(m *Model, rep *Report, c concCase, seed uint64, idx int) {
	w := newSimWorld(newBackend(c.Backend))
	defer w.close()
	// history prefix (sequential, ungated)
	prefix := func(kind string, version int, fail bool) error {
		w.revive()
		if fail {
			w.wplan.resources = "fail"
		}
		cfg := w.cfg()
		var err error
		if kind == "install" {
			in := action.NewInstall(cfg)
			in.ReleaseName, in.Namespace, in.DisableOpenAPIValidation = "app", "default", true
			_, err = in.Run(actChart(version, false, false), map[string]any{})
		} else {
			up := action.NewUpgrade(cfg)
			up.Namespace, up.DisableOpenAPIValidation = "default", true
			_, err = up.Run("app", actChart(version, false, false), map[string]any{})
		}
		return err
	}
	switch c.History {
	case "deployed":
		prefix("install", 1, false)
	case "upgraded":
		prefix("install", 1, false)
		prefix("upgrade", 2, false)
	case "failed-on-top":
		prefix("install", 1, false)
		prefix("upgrade", 2, true)
	}
	w.revive()
	before := implLedger(w)
	np := len(c.Kinds)
	s := newScheduler(c.Schedule, np)
	errs := make([]error, np)
	touched := make([]bool, np)
	created := make([][]string, np)
	var cmu sync.Mutex
	var wg sync.WaitGroup
	done := make(chan struct{})
	for i := 0; i < np; i++ {
		wg.Add(1)
		go func(i int) {
			defer wg.Done()
			defer s.finish(i)
			frozen, reach := new(bool), new(string)
			plan := &waitPlan{hookFail: map[string]string{}}
			sk := simKube{Client: &kube.Client{Factory: simFactory{w.tf}}, w: scriptWaiter{plan: plan, frozen: frozen}, reachable: reach, frozen: frozen}
			cfg := &action.Configuration{
				RESTClientGetter: simGetter{w.tf},
				Releases:         storage.Init(schedDriver{Driver: w.inner, id: i, s: s, created: &created[i], mu: &cmu}),
				KubeClient:       schedKube{simKube: sk, id: i, s: s, touched: &touched[i]},
				Capabilities:     chartutil.DefaultCapabilities,
			}
			if p := safely(func() {
				if c.Kinds[i] == "install" || c.Kinds[i] == "install-replace" {
					in := action.NewInstall(cfg)
					in.ReleaseName, in.Namespace, in.DisableOpenAPIValidation = "app", "default", true
					in.Force = i < len(c.Force) && c.Force[i]
					in.Replace = c.Kinds[i] == "install-replace"
					_, errs[i] = in.Run(actChart(concPayload(c, i), false, false), map[string]any{})
				} else {
					up := action.NewUpgrade(cfg)
					up.Namespace, up.DisableOpenAPIValidation = "default", true
					up.Force = i < len(c.Force) && c.Force[i]
					up.MaxHistory = c.MaxHistory
					_, errs[i] = up.Run("app", actChart(concPayload(c, i), false, false), map[string]any{})
				}
			}); p != "" {
				errs[i] = fmt.Errorf("panic: %s", p)
			}
		}(i)
	}
	go func() { wg.Wait(); close(done) }()
	select {
	case <-done:
	case <-time.After(30 * time.Second):
		rep.Issue(Issue{Kind: "monitor", Fingerprint: "C09:deadlock", What: "the concurrent operations did not all return within 30 s", Case: c, Seed: seed, Index: idx})
		return
	}
	after := implLedger(w)
	switches := 0
	for i := 1; i < len(c.Schedule); i++ {
		if c.Schedule[i] != c.Schedule[i-1] {
			switches++
		}
	}
	rep.Count(c, switches >= 2)
	if idx < 2 {
		rep.Sample(c)
	}
	// ---- the model on the same schedule ----
	var procs []any
	for i, k := range c.Kinds {
		procs = append(procs, map[string]any{"kind": k, "payload": concPayload(c, i)})
	}
	sch := []any{}
	for _, x := range c.Schedule {
		sch = append(sch, x)
	}
	// after the schedule the harness goes round-robin: give the model the same tail
	for k := 0; k < 8; k++ {
		for i := 0; i < np; i++ {
			sch = append(sch, i)
		}
	}
	modelled := true
	for _, k := range c.Kinds {
		modelled = modelled && k != "install-replace"
	}
	modelled = modelled && c.MaxHistory == 0
	var mr map[string]any
	var want []modelRec
	if modelled {
		mr = m.Query(map[string]any{"op": "concRun", "ledger": ledgerJSON(before), "procs": procs, "schedule": sch})
		want = parseLedger(mr["ledger"])
	} else {
		rep.H("replace-party")
	}
	outcomes := ""
	for i := range c.Kinds {
		outcomes += map[bool]string{true: "W", false: "L"}[errs[i] == nil]
	}
	rep.H(c.History + ":" + strings.Join(c.Kinds, "+") + ":" + outcomes)
	// The memory driver hands out the stored objects themselves: an operation that sets a status on its
	// release object has changed what the others read before it calls Update, so the step boundaries of
	// the model do not exist there.  The model is compared on the serialising backend; on memory the
	// property monitors below (and the race detector, thorough tier) judge.
	compare := c.Backend != "memory" && modelled
	if compare && canon(after) != canon(want) {
		rep.Issue(Issue{Kind: "disagreement", Fingerprint: "C09:model:ledger", What: "the stored history at quiescence differs from the model run on the same schedule", Case: c, Model: want, Impl: after, Seed: seed, Index: idx})
		return
	}
	mprocs, _ := mr["procs"].([]any)
	for i, pj := range mprocs {
		if !compare {
			break
		}
		p := pj.(map[string]any)
		if (p["outcome"] == "ok") != (errs[i] == nil) {
			rep.Issue(Issue{Kind: "disagreement", Fingerprint: "C09:model:outcome", What: fmt.Sprintf("operation %d (%s): err=%v, model outcome %v", i, c.Kinds[i], errs[i], p["outcome"]), Case: c, Seed: seed, Index: idx})
			return
		}
		if p["touched"] != touched[i] {
			rep.Issue(Issue{Kind: "disagreement", Fingerprint: "C09:model:touched", What: fmt.Sprintf("operation %d (%s): touched resources=%v, model %v", i, c.Kinds[i], touched[i], p["touched"]), Case: c, Seed: seed, Index: idx})
			return
		}
	}
	if compare {
		rep.Traces++
	}
	// ---- the property, on the implementation ----
	creators := map[string]int{}
	for i := range created {
		for _, k := range created[i] {
			creators[k]++
		}
	}
	for k, cnt := range creators {
		if cnt > 1 {
			rep.Issue(Issue{Kind: "monitor", Fingerprint: "C09:two-creators", What: fmt.Sprintf("%d operations created the record %s", cnt, k), Case: c, Seed: seed, Index: idx})
		}
	}
	// under a history limit: did an operation create a revision number the starting history already held (the record
	// was pruned by a concurrent operation and its number used again)?
	reused := ""
	if c.MaxHistory > 0 {
		for i := range created {
			for _, k := range created[i] {
				for _, b := range before {
					if strings.HasSuffix(k, fmt.Sprintf(".v%d", b.Rev)) {
						reused = k
					}
				}
			}
		}
	}
	for i, e := range errs {
		if e == nil {
			continue
		}
		msg := e.Error()
		okMsg := strings.Contains(msg, "already exists") || strings.Contains(msg, "in progress") || strings.Contains(msg, "cannot re-use a name") || strings.Contains(msg, "cannot reuse a name") || strings.Contains(msg, "has no deployed releases")
		if !okMsg && c.MaxHistory > 0 && strings.Contains(msg, "not found") && !touched[i] && len(created[i]) == 0 {
			// two operations prune the same old record: the slower one's delete fails and it gives up before creating anything
			rep.Issue(Issue{Kind: "monitor", Fingerprint: "C09:history-limit:loser-not-found", What: fmt.Sprintf("operation %d (%s) lost with a not-found error from pruning instead of already-exists / in-progress: %s", i, c.Kinds[i], trunc(msg, 160)), Case: c, Seed: seed, Index: idx})
		} else if !okMsg && reused != "" {
			// a consequence of the recorded finding: the operation that re-created a pruned revision number had its own
			// record pruned in turn and its final update found nothing
			rep.Issue(Issue{Kind: "monitor", Fingerprint: "C09:history-limit:pruned-revision-reused", What: fmt.Sprintf("operation %d (%s) failed late with %q after %s (in the starting history) had been pruned and created again", i, c.Kinds[i], trunc(msg, 120), reused), Case: c, Seed: seed, Index: idx})
			continue
		} else if !okMsg {
			rep.Issue(Issue{Kind: "monitor", Fingerprint: "C09:unexpected-error", What: fmt.Sprintf("operation %d (%s) failed with: %s", i, c.Kinds[i], trunc(msg, 200)), Case: c, Seed: seed, Index: idx})
		}
		if touched[i] || len(created[i]) > 0 {
			rep.Issue(Issue{Kind: "monitor", Fingerprint: "C09:loser-touched", What: fmt.Sprintf("operation %d (%s) failed (%s) but had created a record or touched release resources", i, c.Kinds[i], trunc(msg, 120)), Case: c, Seed: seed, Index: idx})
		}
	}
	for _, v := range ledgerViolations(before, after) {
		if strings.Contains(v, "marked deployed") || strings.Contains(v, "duplicate") || strings.Contains(v, "pending") {
			fp := "C09:history:" + strings.Fields(v)[0]
			if reused != "" {
				fp = "C09:history-limit:pruned-revision-reused"
				v += " (" + reused + " was in the starting history, was pruned by one operation and created again by another)"
			}
			rep.Issue(Issue{Kind: "monitor", Fingerprint: fp, What: v + " at quiescence", Case: c, Impl: after, Seed: seed, Index: idx})
		}
	}
	for _, r := range after {
		if strings.HasPrefix(r.Status, "pending") {
			fp := "C09:history:pending"
			if reused != "" {
				fp = "C09:history-limit:pruned-revision-reused"
			}
			rep.Issue(Issue{Kind: "monitor", Fingerprint: fp, What: fmt.Sprintf("revision %d is still %s at quiescence", r.Rev, r.Status), Case: c, Impl: after, Seed: seed, Index: idx})
		}
	}
}

// pendingOnTopCase: an operation that is in flight (or died in flight) shows as a pending record on top of the
// history -- pending-install, pending-upgrade or pending-rollback (the rollback may be the one an atomic upgrade
// runs).  An upgrade that starts now is the loser: it fails with the in-progress error, creates no revision and
// touches no resource.
func pendingOnTopCase(rep *Report, r *Rng, seed uint64, idx int) {
	backend := []string{"memory", "secrets"}[idx%2]
	w := newSimWorld(newBackend(backend))
	defer w.close()
	in := action.NewInstall(w.cfg())
	in.ReleaseName, in.Namespace, in.DisableOpenAPIValidation = "app", "default", true
	if _, err := in.Run(actChart(1, false, false), map[string]any{}); err != nil {
		return
	}
	status := Pick(r, []release.Status{release.StatusPendingInstall, release.StatusPendingUpgrade, release.StatusPendingRollback, release.StatusPendingRollback})
	cs := map[string]any{"scenario": "pending-on-top", "backend": backend, "status": string(status)}
	rep.Count(cs, true)
	st := storage.Init(w.inner)
	v1, err := st.Get("app", 1)
	if err != nil {
		return
	}
	cp := *v1
	info := *v1.Info
	cp.Info = &info
	cp.Version = 2
	cp.Info.Status = status
	cp.Info.Description = "in flight"
	if status == release.StatusPendingInstall {
		// an install in flight has no deployed predecessor
		st.Delete("app", 1)
		cp.Version = 1
	}
	if err := st.Create(&cp); err != nil {
		return
	}
	w.revive()
	before := canon(implLedger(w))
	logFrom := len(w.api.log)
	up := action.NewUpgrade(w.cfg())
	up.Namespace, up.DisableOpenAPIValidation, up.Force = "default", true, r.Chance(30)
	_, uerr := up.Run("app", actChart(3, false, false), map[string]any{})
	muts := w.api.mutations(logFrom)
	rep.H(fmt.Sprintf("pending-on-top:%s:err=%v", status, uerr != nil))
	if uerr == nil || !strings.Contains(uerr.Error(), "in progress") {
		rep.Issue(Issue{Kind: "monitor", Fingerprint: "C09:pending-on-top:not-refused:" + string(status), What: fmt.Sprintf("an upgrade started while the newest record is %s did not fail with the in-progress error: %v", status, uerr), Case: cs, Impl: implLedger(w), Seed: seed, Index: idx})
	}
	if len(muts) > 0 || canon(implLedger(w)) != before {
		rep.Issue(Issue{Kind: "monitor", Fingerprint: "C09:pending-on-top:loser-touched:" + string(status), What: fmt.Sprintf("an upgrade started while the newest record is %s changed the cluster or the history", status), Case: cs, Model: before, Impl: map[string]any{"requests": muts, "history": implLedger(w)}, Seed: seed, Index: idx})
	}
}
