package main

import (
	"archive/tar"
	"bytes"
	"compress/gzip"
	"fmt"
	"io"
	"os"
	"path/filepath"
	"sort"
	"strings"

	"helm.sh/helm/v4/pkg/action"
	"helm.sh/helm/v4/pkg/chart/v2/loader"
	"helm.sh/helm/v4/pkg/ignore"
)

func init() { subs["ignore"] = corrIgnore }

var ignFiles = []string{"notes.bak", "secret.txt", "keep.txt", "abc", "a.c", "README.md", "docs/a.md", "docs/deep/y.bak", "docs/secret.txt",
	"templates/x.yaml", "templates/.hidden", "templates/sub/.dot", "templates/sub/t.yaml", "sub/b.yaml", "sub/secret.txt", "sub/docs/z.md",
	"files/data.bin", "files/x.bak", ".gitignore", ".git/config", ".git/objects/aa", "docs", "über/ü.txt", "top.txt", "sub/top.txt"}

var ignRules = []string{"docs/", "*.bak", "secret.txt", "/top.txt", "sub/*.yaml", "a?c", "*.md", ".git/", ".git", "sub/", "templates/sub/", "files/*",
	"!keep.txt", "!docs/", "# comment", "", "  *.txt  ", "/docs", "docs/deep/", "sub/docs", "*/secret.txt", "?bc", ".*", "*", "über/", "/sub/b.yaml", "templates/.?*", "**/x", "docs/**"}

func corrIgnore(seed uint64, n int, tier string, out string, replay string) {
	m := StartModel()
	defer m.Close()
	rep := NewReport("C15", "ignore", seed, "case = a chart directory with 4-14 files out of a pool (nested directories, dot-files, unicode names, a file named like a directory rule) and a .helmignore of 0-6 lines over the documented syntax (literal names, *.ext, dir/, /rooted, a/b structural, ?, negation, comments, blank lines, surrounding blanks, rarely `**`; sometimes CRLF line ends or a BOM); ignore.Parse + Rules.Ignore on every entry, loader.LoadDir, and action.Package + reading the archive back are compared with the Lean model (which entries are ignored, which files are loaded / packaged); monitor: no file the rules ignore (per Rules.Ignore itself) and no file below an ignored directory appears in the package; non-trivial = at least 2 effective rules and one ignored entry; distinct = hash of the case")
	tmp, _ := os.MkdirTemp("", "corr-ignore")
	defer os.RemoveAll(tmp)
	for _, id := range caseSeq("ignore", seed, n) {
		ignoreCase(m, rep, NewRng(id.Seed, uint64(id.Index)), tmp, id.Seed, id.Index)
	}
	rep.Write(out, m)
}

func ignoreCase(m *Model, rep *Report, r *Rng, tmp string, seed uint64, idx int) {
	dir := filepath.Join(tmp, fmt.Sprintf("c%d", idx), "mychart")
	defer os.RemoveAll(filepath.Dir(dir))
	os.MkdirAll(dir, 0o755)
	files := map[string]bool{"Chart.yaml": true}
	for i := 4 + r.Intn(11); i > 0; i-- {
		f := Pick(r, ignFiles)
		if f == "docs" && (files["docs/a.md"] || files["docs/deep/y.bak"] || files["docs/secret.txt"]) {
			continue
		}
		if strings.HasPrefix(f, "docs/") && files["docs"] {
			continue
		}
		files[f] = true
	}
	var lines []string
	for i := r.Intn(7); i > 0; i-- {
		l := Pick(r, ignRules)
		if strings.Contains(l, "**") && !r.Chance(15) {
			continue
		}
		if (l == "*" || strings.HasPrefix(l, "!")) && !r.Chance(35) {
			continue // these usually hide Chart.yaml itself
		}
		lines = append(lines, l)
	}
	sep := "\n"
	if r.Chance(10) {
		sep = "\r\n"
	}
	content := strings.Join(lines, sep)
	if len(lines) > 0 && r.Chance(70) {
		content += sep
	}
	if r.Chance(8) {
		content = "\xef\xbb\xbf" + content
	}
	hasIgnoreFile := len(lines) > 0 || r.Chance(30)
	if hasIgnoreFile {
		files[".helmignore"] = true
	}
	for f := range files {
		p := filepath.Join(dir, filepath.FromSlash(f))
		os.MkdirAll(filepath.Dir(p), 0o755)
		data := "k: v\n"
		switch f {
		case "Chart.yaml":
			data = "apiVersion: v2\nname: mychart\nversion: 0.1.0\n"
		case ".helmignore":
			data = content
		}
		os.WriteFile(p, []byte(data), 0o644)
	}
	// every entry (files and the directories above them)
	type entry struct {
		Path  string `json:"path"`
		IsDir bool   `json:"isDir"`
	}
	seen := map[string]bool{}
	var entries []entry
	for f := range files {
		parts := strings.Split(f, "/")
		for i := 1; i < len(parts); i++ {
			d := strings.Join(parts[:i], "/")
			if !seen[d] {
				seen[d] = true
				entries = append(entries, entry{d, true})
			}
		}
		entries = append(entries, entry{f, false})
	}
	sort.Slice(entries, func(i, j int) bool { return entries[i].Path < entries[j].Path })
	cs := map[string]any{"helmignore": content, "files": sortedKeys(files)}
	var modelLines []any
	if hasIgnoreFile {
		// bufio.ScanLines: split at \n, drop a trailing \r; the BOM is trimmed from the first line
		c := strings.TrimPrefix(content, "\xef\xbb\xbf")
		for _, l := range strings.Split(c, "\n") {
			modelLines = append(modelLines, strings.TrimSuffix(l, "\r"))
		}
	}
	var ents []any
	for _, e := range entries {
		ents = append(ents, map[string]any{"path": e.Path, "isDir": e.IsDir})
	}
	mr := m.Query(map[string]any{"op": "ignoreOp", "lines": orEmptyAny(modelLines), "entries": ents})
	modelBad, _ := mr["bad"].(bool)
	// 1. ignore.Parse + Rules.Ignore
	rules, perr := ignore.Parse(strings.NewReader(content))
	if !hasIgnoreFile {
		rules, perr = ignore.Empty(), nil
	}
	if (perr != nil) != modelBad {
		rep.Issue(Issue{Kind: "disagreement", Fingerprint: "C15:model:ignore-parse", What: fmt.Sprintf("ignore.Parse error=%v, model rejects=%v", perr, modelBad), Case: cs, Seed: seed, Index: idx})
		return
	}
	effective, ignoredAny := 0, false
	for _, l := range lines {
		if t := strings.TrimSpace(l); t != "" && !strings.HasPrefix(t, "#") {
			effective++
		}
	}
	var implIgnored map[string]bool
	if perr == nil {
		rules.AddDefaults()
		implIgnored = map[string]bool{}
		mi := mr["ignored"].([]any)
		for i, e := range entries {
			fi, serr := os.Stat(filepath.Join(dir, filepath.FromSlash(e.Path)))
			if serr != nil {
				continue
			}
			got := rules.Ignore(e.Path, fi)
			implIgnored[e.Path] = got
			ignoredAny = ignoredAny || got
			if got != mi[i].(bool) {
				rep.Issue(Issue{Kind: "disagreement", Fingerprint: "C15:model:ignore", What: fmt.Sprintf("Rules.Ignore(%q, dir=%v) = %v, model says %v", e.Path, e.IsDir, got, mi[i]), Case: cs, Seed: seed, Index: idx})
				return
			}
		}
	}
	rep.Count(cs, effective >= 2 && ignoredAny)
	if idx < 2 {
		rep.Sample(cs)
	}
	// 2. LoadDir
	c, lerr := loader.LoadDir(dir)
	if lerr != nil && !modelBad {
		// the rules may hide Chart.yaml itself: then the directory is not a chart any more
		hidden := true
		for _, x := range mr["loaded"].([]any) {
			hidden = hidden && x.(string) != "Chart.yaml"
		}
		if hidden && strings.Contains(lerr.Error(), "Chart.yaml file is missing") {
			rep.H("chart-yaml-ignored")
			return
		}
	}
	if (lerr != nil) != modelBad {
		rep.Issue(Issue{Kind: "disagreement", Fingerprint: "C15:model:loaddir-outcome", What: fmt.Sprintf("LoadDir error=%v, model rejects the rules=%v", lerr, modelBad), Case: cs, Seed: seed, Index: idx})
		return
	}
	if lerr != nil {
		rep.H("rules-rejected")
		return
	}
	var got []string
	for _, f := range c.Raw {
		got = append(got, f.Name)
	}
	sort.Strings(got)
	var want []string
	for _, x := range mr["loaded"].([]any) {
		want = append(want, x.(string))
	}
	sort.Strings(want)
	rep.H("loaddir")
	if canon(got) != canon(want) {
		rep.Issue(Issue{Kind: "disagreement", Fingerprint: "C15:model:loaddir", What: "the files LoadDir loaded differ from the model", Case: cs, Model: want, Impl: got, Seed: seed, Index: idx})
		return
	}
	// 3. package and read the archive back
	pk := action.NewPackage()
	pk.Destination = filepath.Dir(dir)
	archive, perr2 := pk.Run(dir, nil)
	if perr2 != nil {
		rep.H("package-error")
		return
	}
	names, aerr := tgzNames(archive)
	if aerr != nil {
		rep.Issue(Issue{Kind: "harness", Fingerprint: "C15:archive-unreadable", What: aerr.Error(), Case: cs, Seed: seed, Index: idx})
		return
	}
	rep.H("package")
	for _, nme := range names {
		rel := strings.TrimPrefix(nme, "mychart/")
		// the property, judged with the implementation's own Rules.Ignore
		bad := implIgnored[rel]
		parts := strings.Split(rel, "/")
		for i := 1; i < len(parts); i++ {
			bad = bad || implIgnored[strings.Join(parts[:i], "/")]
		}
		if bad {
			rep.Issue(Issue{Kind: "monitor", Fingerprint: "C15:ignored-file-packaged", What: rel + " is excluded by .helmignore but is in the packaged archive", Case: cs, Impl: names, Seed: seed, Index: idx})
		}
	}
	// and against the model: the archive holds the loaded files (Chart.yaml is rewritten, .helmignore is a plain file)
	var relNames []string
	for _, nme := range names {
		relNames = append(relNames, strings.TrimPrefix(nme, "mychart/"))
	}
	sort.Strings(relNames)
	if canon(relNames) != canon(want) {
		rep.Issue(Issue{Kind: "disagreement", Fingerprint: "C15:model:package-names", What: "the files in the packaged archive differ from the model's loaded set", Case: cs, Model: want, Impl: relNames, Seed: seed, Index: idx})
	}
	rep.Traces++
}

func tgzNames(path string) ([]string, error) {
	b, err := os.ReadFile(path)
	if err != nil {
		return nil, err
	}
	gz, err := gzip.NewReader(bytes.NewReader(b))
	if err != nil {
		return nil, err
	}
	tr := tar.NewReader(gz)
	var out []string
	for {
		h, err := tr.Next()
		if err == io.EOF {
			break
		}
		if err != nil {
			return nil, err
		}
		out = append(out, h.Name)
	}
	return out, nil
}
