package main

import (
	"fmt"
	"io"
	"net/http"
	"net/http/httptest"
	"os"
	"path/filepath"
	"regexp"
	"strings"
	"sync"

	"github.com/Masterminds/semver/v3"
	"sigs.k8s.io/yaml"

	"helm.sh/helm/v4/pkg/downloader"
	"helm.sh/helm/v4/pkg/getter"
)

// resolveCase: "dependency resolution locks each dependency to the highest indexed version satisfying its
// range": the index of the case is the cached index of a configured repository, a parent chart depends on the
// chart with a version range, downloader.Manager.Update resolves (internal/resolver), downloads and writes
// Chart.lock; the locked version is compared with the model's resolvePick over the loaded entries.

var (
	resolveSrvOnce sync.Once
	resolveSrv     *httptest.Server
	resolveTgz     []byte
	resolveMu      sync.Mutex
	resolveReqs    []string // paths requested since the last reset
	resolveIndex   string   // what /index.yaml answers (the repository of a dependency that is not in repositories.yaml)
)

func resolveServer() *httptest.Server {
	resolveSrvOnce.Do(func() {
		resolveTgz, _ = mkTarGz([]tarEntry{{Name: "foo/Chart.yaml", Body: []byte("apiVersion: v2\nname: foo\nversion: 1.0.0\n")}})
		resolveSrv = httptest.NewServer(http.HandlerFunc(func(w http.ResponseWriter, r *http.Request) {
			resolveMu.Lock()
			resolveReqs = append(resolveReqs, r.URL.Path)
			index := resolveIndex
			resolveMu.Unlock()
			if strings.HasSuffix(r.URL.Path, ".tgz") {
				w.Write(resolveTgz)
				return
			}
			if r.URL.Path == "/index.yaml" && index != "" {
				io.WriteString(w, index)
				return
			}
			http.NotFound(w, r)
		}))
		// one connection per request: thousands of Manager.Update calls each bring their own transport, and idle
		// keep-alive connections would pile up until the process runs out of descriptors
		resolveSrv.Config.SetKeepAlivesEnabled(false)
		idxBase = resolveSrv.URL
	})
	return resolveSrv
}

var plainVersion = regexp.MustCompile(`^[0-9A-Za-z.-]+$`)

var resolveRanges = []string{"^1.0.0", "~1.2", ">=1.0.0 <2.0.0", ">1.0.0-0", "*", "1.x", ">=2.0.0-alpha", "<1.0.0", "^2.0.0-0", "=1.0.1", "!=2.0.0", ">= 1.2, < 3.0.0-0", "~2.0.0-rc", "1.0.0", "2.0.0-rc.1", "v1.5.0", "bogus constraint", ">=0.0.0-0", "<=2.0.0-rc.9", ">10"}

func resolveCase(m *Model, rep *Report, r *Rng, dir string, es []idxEntry, loaded []any, content string, seed uint64, idx int) {
	srv := resolveServer()
	if !strings.Contains(content, srv.URL) && strings.Contains(content, "urls:") {
		return // generated before the server existed (first case of a run)
	}
	root := filepath.Join(dir, fmt.Sprintf("resolve-%d", idx))
	defer os.RemoveAll(root)
	cache := filepath.Join(root, "cache")
	chartDir := filepath.Join(root, "parent")
	os.MkdirAll(cache, 0o755)
	os.MkdirAll(chartDir, 0o755)
	cfg := filepath.Join(root, "repositories.yaml")
	// every other resolve case the dependency's repository is not in repositories.yaml: the manager fetches the index from
	// the URL itself (`helm dependency update` on a chart naming a repository that was never `helm repo add`ed)
	unregistered := (idx/3)%2 == 0
	resolveMu.Lock()
	resolveReqs, resolveIndex = nil, ""
	if unregistered {
		resolveIndex = content
	}
	resolveMu.Unlock()
	if unregistered {
		os.WriteFile(cfg, []byte("apiVersion: v1\nrepositories: []\n"), 0o644)
	} else {
		os.WriteFile(cfg, []byte("apiVersion: v1\nrepositories:\n- name: r\n  url: "+srv.URL+"\n"), 0o644)
		os.WriteFile(filepath.Join(cache, "r-index.yaml"), []byte(content), 0o644)
	}
	rng := Pick(r, resolveRanges)
	os.WriteFile(filepath.Join(chartDir, "Chart.yaml"), []byte(fmt.Sprintf("apiVersion: v2\nname: parent\nversion: 0.1.0\ndependencies:\n- name: foo\n  version: %q\n  repository: %s\n", rng, srv.URL)), 0o644)
	man := &downloader.Manager{Out: io.Discard, ChartPath: chartDir, SkipUpdate: !unregistered, RepositoryConfig: cfg, RepositoryCache: cache,
		Getters: getter.Providers{getter.Provider{Schemes: []string{"http"}, New: getter.NewHTTPGetter}}}
	var uerr error
	if p := safely(func() { uerr = man.Update() }); p != "" {
		rep.Issue(Issue{Kind: "monitor", Fingerprint: "C20:panic:Manager.Update", What: p, Case: map[string]any{"index": content, "range": rng}, Seed: seed, Index: idx})
		return
	}
	got := "err"
	if uerr == nil {
		var lock struct {
			Dependencies []struct {
				Name    string `json:"name"`
				Version string `json:"version"`
			} `json:"dependencies"`
		}
		b, _ := os.ReadFile(filepath.Join(chartDir, "Chart.lock"))
		yaml.Unmarshal(b, &lock)
		if len(lock.Dependencies) == 1 {
			got = "version " + lock.Dependencies[0].Version
		} else {
			got = "no-lock"
		}
	}
	c, cerr := semver.NewConstraint(rng)
	var ents []any
	want := "err"
	for _, id := range loaded {
		if id == nil {
			continue
		}
		e := es[id.(int)]
		sat := false
		if v, err := semver.NewVersion(e.version); err == nil && cerr == nil {
			sat = c.Check(v)
		}
		ents = append(ents, map[string]any{"id": id, "version": e.version, "ver": verJSON(e.version), "valid": true, "hasURL": !e.noURL, "sat": sat})
	}
	mr := m.Query(map[string]any{"op": "resolvePick", "vs": orEmpty(ents)})
	if mr["res"] != "err" && cerr == nil {
		var i int
		fmt.Sscan(mr["res"].(string), &i)
		// the lock records the version as the semver library spells the entry's own string back (v.Original())
		want = "version " + es[i].version
	}
	rep.H("resolve:" + map[bool]string{true: "locked", false: "error"}[uerr == nil] + map[bool]string{true: ":unregistered-repo", false: ""}[unregistered])
	// what was downloaded into charts/ is the entry that was locked
	if uerr == nil && strings.HasPrefix(got, "version ") && plainVersion.MatchString(strings.TrimPrefix(got, "version ")) {
		resolveMu.Lock()
		var tgz []string
		for _, q := range resolveReqs {
			if strings.HasSuffix(q, ".tgz") {
				tgz = append(tgz, q)
			}
		}
		resolveMu.Unlock()
		wantPath := "/foo-" + strings.TrimPrefix(got, "version ") + ".tgz"
		if len(tgz) != 1 || tgz[0] != wantPath {
			rep.Issue(Issue{Kind: "monitor", Fingerprint: "C18:lock-download-differ", What: fmt.Sprintf("Chart.lock says %s for range %q but the archive(s) downloaded into charts/ are %v", got, rng, tgz), Case: map[string]any{"index": content, "range": rng, "unregistered": unregistered}, Model: wantPath, Impl: tgz, Seed: seed, Index: idx})
		}
	}
	if got != want {
		rep.Issue(Issue{Kind: "disagreement", Fingerprint: "C18:model:resolve", What: fmt.Sprintf("Manager.Update locked %q for range %q, model: %q (%v)", got, rng, want, uerr), Case: map[string]any{"index": content, "range": rng}, Model: mr, Impl: got, Seed: seed, Index: idx})
	}
}
