package main

import (
	"encoding/json"
	"fmt"
	"os"
	"path/filepath"
	"regexp"
	"strings"

	"helm.sh/helm/v4/pkg/action"
	chart "helm.sh/helm/v4/pkg/chart/v2"
	"helm.sh/helm/v4/pkg/chart/v2/loader"
	chartutil "helm.sh/helm/v4/pkg/chart/v2/util"
	"helm.sh/helm/v4/pkg/lint"
	release "helm.sh/helm/v4/pkg/release/v1"
	"helm.sh/helm/v4/pkg/storage"
	"helm.sh/helm/v4/pkg/storage/driver"
)

func init() { subs["schema"] = corrSchema }

var schemaKeys = []string{"a", "b", "c", "d"}

func genSchema(r *Rng, depth int) map[string]any {
	s := map[string]any{}
	ty := "object"
	if depth > 0 {
		ty = Pick(r, []string{"object", "string", "integer", "number", "boolean", "array", "null", ""})
	}
	if ty != "" {
		s["type"] = ty
	}
	if ty == "object" || (ty == "" && r.Chance(40)) {
		props := map[string]any{}
		for i := r.Intn(3); i > 0 && depth < 3; i-- {
			props[Pick(r, schemaKeys)] = genSchema(r, depth+1)
		}
		if len(props) > 0 {
			s["properties"] = props
		}
		if r.Chance(30) {
			s["required"] = []any{Pick(r, schemaKeys)}
		}
		if r.Chance(20) {
			s["additionalProperties"] = false
		}
	}
	if (ty == "integer" || ty == "number") && r.Chance(50) {
		s["minimum"] = r.Intn(3)
		if r.Chance(50) {
			s["maximum"] = 2 + r.Intn(3)
		}
	}
	if depth > 0 && r.Chance(15) {
		s["enum"] = []any{Pick(r, []any{"s0", "s1", 1, true, nil}), Pick(r, []any{"s2", 2, false})}
		delete(s, "type")
	}
	return s
}

func genSchemaVal(r *Rng, depth int) any {
	switch k := r.Intn(10); {
	case k < 3 && depth < 3:
		m := map[string]any{}
		for i := r.Intn(4); i > 0; i-- {
			m[Pick(r, schemaKeys)] = genSchemaVal(r, depth+1)
		}
		return m
	case k == 3:
		return "s" + fmt.Sprint(r.Intn(3))
	case k == 4:
		return float64(r.Intn(5))
	case k == 5:
		return 1.5
	case k == 6:
		return r.Bool()
	case k == 7:
		return []any{"x"}
	case k == 8:
		return nil
	default:
		return float64(-1)
	}
}

type genSChart struct {
	Name   string         `json:"name"`
	Schema map[string]any `json:"schema"`
	Deps   []*genSChart   `json:"deps"`
	values map[string]any
}

func genSTree(r *Rng, depth int, name string) *genSChart {
	c := &genSChart{Name: name, Deps: []*genSChart{}, values: map[string]any{}}
	if r.Chance(60) {
		c.Schema = genSchema(r, 0)
	}
	for i := r.Intn(3); i > 0; i-- {
		c.values[Pick(r, schemaKeys)] = genSchemaVal(r, 1)
	}
	if depth < 2 {
		for i, n := range []string{"suba", "subb"} {
			if r.Chance(45 - 10*i) {
				c.Deps = append(c.Deps, genSTree(r, depth+1, n))
			}
		}
	}
	return c
}

func (g *genSChart) real() *chart.Chart {
	c := &chart.Chart{Metadata: &chart.Metadata{APIVersion: "v2", Name: g.Name, Version: "0.1.0"}, Values: deepCopyMap(g.values)}
	if g.Schema != nil {
		c.Schema, _ = json.Marshal(g.Schema)
	}
	c.Templates = []*chart.File{{Name: "templates/cm.yaml", Data: []byte("apiVersion: v1\nkind: ConfigMap\nmetadata:\n  name: " + g.Name + "\n")}}
	for _, d := range g.Deps {
		c.AddDependency(d.real())
	}
	return c
}

var chartLine = regexp.MustCompile(`(?m)^([a-z]+):$`)

func corrSchema(seed uint64, n int, tier string, out string, replay string) {
	m := StartModel()
	defer m.Close()
	rep := NewReport("C14", "schema", seed, "case = chart tree (root + up to two levels of subcharts) with schemas from a generated family (type, required, enum, integer bounds, nested properties, additionalProperties:false) at any level, defaults and user values (given as a map or through --set) landing at any level; (a) single schema vs value: santhosh-tekuri verdict vs the Lean evaluator; (b) ValidateAgainstSchema on the coalesced values: the chart names in the error vs the model; (c) the gate in ToRenderValuesWithSchemaValidation with and without skip, a client-only dry-run install and an install against a recording store (nothing stored on rejection), lint, and (every third case) an upgrade over the simulated API server from a schema-less edition of the chart with the values arriving by carry-over / --reuse-values / --reset-then-reuse-values / --reset-values / given again: an accepted upgrade's recorded chart and config satisfy the schemas, a rejected one stores and sends nothing; non-trivial = at least one schema present; distinct = hash of chart tree and values")
	tmp, _ := os.MkdirTemp("", "corr-schema")
	defer os.RemoveAll(tmp)
	for i := 0; i < n; i++ {
		r := NewRng(seed, uint64(i))
		// (a) evaluator vs library on a single schema
		sch := genSchema(r, 0)
		val := map[string]any{}
		for j := r.Intn(4); j > 0; j-- {
			val[Pick(r, schemaKeys)] = genSchemaVal(r, 1)
		}
		sb, _ := json.Marshal(sch)
		var verr error
		if p := safely(func() { verr = chartutil.ValidateAgainstSingleSchema(val, sb) }); p != "" {
			rep.Issue(Issue{Kind: "monitor", Fingerprint: "C20:panic:ValidateAgainstSingleSchema", What: p, Case: map[string]any{"schema": sch, "value": val}, Seed: seed, Index: i})
		}
		w := m.Query(map[string]any{"op": "schemaValidate", "schema": sch, "value": val})
		rep.H("single:" + map[bool]string{true: "valid", false: "invalid"}[verr == nil])
		if w["valid"] != (verr == nil) {
			rep.Issue(Issue{Kind: "disagreement", Fingerprint: "C14:model:evaluator", What: fmt.Sprintf("library says valid=%v (%v), Lean evaluator says %v", verr == nil, verr, w["valid"]), Case: map[string]any{"schema": sch, "value": val}, Seed: seed, Index: i})
		}
		// (b)+(c) chart tree
		g := genSTree(r, 0, "root")
		user := map[string]any{}
		for j := r.Intn(3); j > 0; j-- {
			setAtPath(user, Pick(r, []string{"a", "b", "suba.a", "suba.b", "subb.c", "suba.suba.a", "d"}), genSchemaVal(r, 2))
		}
		if i%10 == 0 {
			// targeted lint stream (lint runs on every fifth case): a typed (sometimes required) top-level key with a
			// valid default, removed by the user with an explicit null
			k := schemaKeys[(i/10)%len(schemaKeys)]
			root := map[string]any{"type": "object", "properties": map[string]any{k: map[string]any{"type": "string"}}}
			if (i/10)%3 == 0 {
				root["required"] = []any{k}
			}
			g.Schema = root
			g.values[k] = "s0"
			user = map[string]any{k: nil}
			rep.H("lint-null-override-case")
		}
		schemaTreeCase(m, rep, r, tmp, g, user, seed, i)
	}
	rep.Write(out, m)
}

func anySchema(g *genSChart) bool {
	if g.Schema != nil {
		return true
	}
	for _, d := range g.Deps {
		if anySchema(d) {
			return true
		}
	}
	return false
}

func schemaTreeCase(m *Model, rep *Report, r *Rng, tmp string, g *genSChart, user map[string]any, seed uint64, idx int) {
	cs := map[string]any{"chart": g, "defaults": defaultsOf(g), "user": user}
	rep.Count(cs, anySchema(g))
	rep.Sample(cs)
	c := g.real()
	vals, err := chartutil.CoalesceValues(c, deepCopyMap(user))
	if err != nil {
		rep.H("coalesce-error")
		return
	}
	var verr error
	if p := safely(func() { verr = chartutil.ValidateAgainstSchema(c, vals) }); p != "" {
		rep.Issue(Issue{Kind: "monitor", Fingerprint: "C20:panic:ValidateAgainstSchema", What: p, Case: cs, Seed: seed, Index: idx})
		return
	}
	want := m.Query(map[string]any{"op": "schemaGate", "chart": g, "vals": map[string]any(vals), "skip": false})
	var named []any
	if verr != nil {
		for _, mm := range chartLine.FindAllStringSubmatch(verr.Error(), -1) {
			named = append(named, mm[1])
		}
	}
	rep.H("tree:" + map[bool]string{true: "pass", false: "reject"}[verr == nil])
	if !jsonEqual(orEmpty(named), want["failing"]) {
		rep.Issue(Issue{Kind: "disagreement", Fingerprint: "C14:model:failing", What: "charts named by ValidateAgainstSchema differ from the model: " + fmt.Sprint(verr), Case: cs, Model: want, Impl: named, Seed: seed, Index: idx})
		return
	}
	shouldFail := len(want["failing"].([]any)) > 0
	// gate with / without skip
	for _, skip := range []bool{false, true} {
		_, gerr := chartutil.ToRenderValuesWithSchemaValidation(g.real(), deepCopyMap(user), chartutil.ReleaseOptions{Name: "r", Namespace: "ns"}, nil, skip)
		if (gerr != nil) != (shouldFail && !skip) {
			rep.Issue(Issue{Kind: "monitor", Fingerprint: "C14:gate", What: fmt.Sprintf("ToRenderValuesWithSchemaValidation(skip=%v) error=%v but the schemas %s", skip, gerr, map[bool]string{true: "reject", false: "accept"}[shouldFail]), Case: cs, Seed: seed, Index: idx})
		}
		if gerr != nil && shouldFail {
			for _, n := range want["failing"].([]any) {
				if !strings.Contains(gerr.Error(), n.(string)+":") {
					rep.Issue(Issue{Kind: "monitor", Fingerprint: "C14:error-names-chart", What: "the error does not name the failing chart " + n.(string), Case: cs, Impl: gerr.Error(), Seed: seed, Index: idx})
				}
			}
		}
	}
	// install (dry-run client-only, and against a recording store): rejected => nothing stored
	mem := driver.NewMemory()
	cfg := &action.Configuration{Releases: storage.Init(mem), Capabilities: chartutil.DefaultCapabilities}
	in := action.NewInstall(cfg)
	in.ReleaseName, in.Namespace, in.DryRun, in.ClientOnly = "r", "default", true, true
	var ierr error
	safely(func() { _, ierr = in.Run(g.real(), deepCopyMap(user)) })
	if (ierr != nil) != shouldFail {
		rep.Issue(Issue{Kind: "monitor", Fingerprint: "C14:install-gate", What: fmt.Sprintf("install error=%v but the schemas %s", ierr, map[bool]string{true: "reject", false: "accept"}[shouldFail]), Case: cs, Seed: seed, Index: idx})
	}
	if rs, _ := mem.List(nil2true); len(rs) > 0 {
		rep.Issue(Issue{Kind: "monitor", Fingerprint: "C14:stored", What: "a dry-run install wrote to release storage", Case: cs, Seed: seed, Index: idx})
	}
	// upgrade: from a schema-less edition of the same chart to this one, values arriving by every carry-over mode
	if idx%3 == 1 {
		schemaUpgradeCase(rep, NewRng(seed^0x14c, uint64(idx)), g, user, shouldFail, cs, seed, idx)
	}
	// --set arrival path: the same user values via strvals must give the same verdict (scalars only)
	// lint
	if idx%5 == 0 {
		dir := filepath.Join(tmp, fmt.Sprintf("l-%d", idx))
		if err := chartutil.SaveDir(withValuesRaw(g.real()), dir); err == nil {
			var msgs []string
			safely(func() {
				l := lint.RunAll(filepath.Join(dir, "root"), deepCopyMap(user), "default")
				for _, mm := range l.Messages {
					if mm.Severity >= 3 { // ErrorSev
						msgs = append(msgs, mm.Error())
					}
				}
			})
			joined := strings.Join(msgs, "\n")
			lintSchemaFail := strings.Contains(joined, "values don't meet the specifications of the schema") || strings.Contains(joined, "[ERROR] values.yaml:")
			rep.H("lint:" + map[bool]string{true: "reject", false: "pass"}[lintSchemaFail])
			// what lint's own two value pipelines give, computed with the library calls it is written from:
			// (A) the values rule: the root schema on CoalesceTables(overrides, values.yaml); (B) the templates
			// rule: full validation of CoalesceValues(chart, overrides) coalesced once more.  Lint's verdict must be
			// exactly that; where that differs from the property's verdict it is the known double-coalescing finding.
			oracle, oerr := lintOracle(filepath.Join(dir, "root"), user)
			if oerr == nil && oracle != lintSchemaFail {
				rep.Issue(Issue{Kind: "monitor", Fingerprint: "C14:lint-pipeline", What: fmt.Sprintf("lint schema error=%v but its value pipelines (values rule: CoalesceTables of the overrides over values.yaml; templates rule: CoalesceValues then validation) give %v", lintSchemaFail, oracle), Case: cs, Impl: trunc(joined, 500), Seed: seed, Index: idx})
			}
			if lintSchemaFail != shouldFail {
				fp := "C14:lint-gate"
				if (hasNullDefault(g) || hasNullValue(user)) && (oerr != nil || oracle == lintSchemaFail) {
					// one root cause: lint coalesces twice, so a null (in the defaults or given by the
					// user to remove a default) is resolved a second time against the chart defaults
					fp = "C14:lint-null-default"
				}
				rep.Issue(Issue{Kind: "monitor", Fingerprint: fp, What: fmt.Sprintf("lint schema error=%v but the schemas %s", lintSchemaFail, map[bool]string{true: "reject", false: "accept"}[shouldFail]), Case: cs, Impl: trunc(joined, 500), Seed: seed, Index: idx})
			}
		}
		os.RemoveAll(dir)
	}
	rep.Traces++
}

func hasNullValue(v any) bool {
	switch x := v.(type) {
	case nil:
		return true
	case map[string]any:
		for _, y := range x {
			if hasNullValue(y) {
				return true
			}
		}
	case []any:
		for _, y := range x {
			if hasNullValue(y) {
				return true
			}
		}
	}
	return false
}

func hasNullDefault(g *genSChart) bool {
	var nullIn func(v any) bool
	nullIn = func(v any) bool {
		switch x := v.(type) {
		case nil:
			return true
		case map[string]any:
			for _, y := range x {
				if nullIn(y) {
					return true
				}
			}
		}
		return false
	}
	if nullIn(map[string]any(g.values)) {
		return true
	}
	for _, d := range g.Deps {
		if hasNullDefault(d) {
			return true
		}
	}
	return false
}

func nil2true(_ *release.Release) bool { return true }

func defaultsOf(g *genSChart) map[string]any {
	o := map[string]any{"values": g.values}
	var ds []any
	for _, d := range g.Deps {
		ds = append(ds, defaultsOf(d))
	}
	o["deps"] = ds
	return o
}

// withValuesRaw: SaveDir writes values only from the raw file
func withValuesRaw(c *chart.Chart) *chart.Chart {
	b, _ := json.Marshal(c.Values)
	c.Raw = append(c.Raw, &chart.File{Name: "values.yaml", Data: b})
	for _, d := range c.Dependencies() {
		withValuesRaw(d)
	}
	return c
}

func stripSchemas(c *chart.Chart) {
	c.Schema = nil
	for _, d := range c.Dependencies() {
		stripSchemas(d)
	}
}

// schemaUpgradeCase: install an edition of the chart without schemas (so that any values are accepted), then
// upgrade to the chart with its schemas, the values arriving by one of the carry-over modes.  What an accepted
// upgrade recorded must satisfy the schemas (validated on exactly the chart and config of the new revision); a
// rejected one stores nothing and sends nothing; in the modes where the final values are the install's
// (no flags, or the same values given again) the verdict is the one of the install path.
func schemaUpgradeCase(rep *Report, r *Rng, g *genSChart, user map[string]any, shouldFail bool, cs map[string]any, seed uint64, idx int) {
	w := newSimWorld(driver.NewMemory())
	defer w.close()
	old := g.real()
	stripSchemas(old)
	old.Metadata.Version = "0.0.9"
	in := action.NewInstall(w.cfg())
	in.ReleaseName, in.Namespace = "r", "default"
	var ierr error
	if p := safely(func() { _, ierr = in.Run(old, deepCopyMap(user)) }); p != "" || ierr != nil {
		rep.H("upgrade:install-failed")
		return
	}
	mode := Pick(r, []string{"carry", "carry", "reuse", "reset-then-reuse", "reset", "explicit"})
	dry := r.Chance(20)
	w.revive()
	up := action.NewUpgrade(w.cfg())
	up.Namespace = "default"
	up.DryRun = dry
	vals := map[string]any{}
	switch mode {
	case "reuse":
		up.ReuseValues = true
	case "reset-then-reuse":
		up.ResetThenReuseValues = true
	case "reset":
		up.ResetValues = true
	case "explicit":
		vals = deepCopyMap(user)
	}
	w.api.mu.Lock()
	t0 := len(w.api.trace)
	w.api.mu.Unlock()
	w0 := len(w.writes)
	var rel *release.Release
	var uerr error
	if p := safely(func() { rel, uerr = up.Run("r", g.real(), vals) }); p != "" {
		rep.Issue(Issue{Kind: "monitor", Fingerprint: "C20:panic:Upgrade.Run", What: p, Case: cs, Seed: seed, Index: idx})
		return
	}
	schemaErr := uerr != nil && strings.Contains(uerr.Error(), "values don't meet the specifications of the schema")
	rep.H("upgrade:" + mode + ":" + map[bool]string{true: "rejected", false: "accepted"}[schemaErr])
	ucs := map[string]any{"chart": cs["chart"], "defaults": cs["defaults"], "user": user, "upgrade-mode": mode, "dry-run": dry}
	w.api.mu.Lock()
	sent := append([]string{}, w.api.trace[t0:]...)
	w.api.mu.Unlock()
	stored := append([]string{}, w.writes[w0:]...)
	if uerr != nil && !schemaErr {
		rep.H("upgrade:other-error")
		return
	}
	if schemaErr || dry {
		if len(sent) > 0 || len(stored) > 0 {
			rep.Issue(Issue{Kind: "monitor", Fingerprint: "C14:upgrade-rejected-but-acted", What: fmt.Sprintf("an upgrade that was rejected by the schema (or was a dry run) sent %v and stored %v", sent, stored), Case: ucs, Seed: seed, Index: idx})
		}
	}
	if (mode == "carry" || mode == "explicit") && schemaErr != shouldFail {
		rep.Issue(Issue{Kind: "monitor", Fingerprint: "C14:upgrade-gate", What: fmt.Sprintf("upgrade (%s) schema error=%v but the schemas %s the same values on install", mode, schemaErr, map[bool]string{true: "reject", false: "accept"}[shouldFail]), Case: ucs, Impl: fmt.Sprint(uerr), Seed: seed, Index: idx})
	}
	if uerr == nil && rel != nil {
		// what was accepted: validate exactly the chart and config of the new revision
		fin, err := chartutil.CoalesceValues(rel.Chart, deepCopyMap(rel.Config))
		if err == nil {
			if verr := chartutil.ValidateAgainstSchema(rel.Chart, fin); verr != nil {
				rep.Issue(Issue{Kind: "monitor", Fingerprint: "C14:upgrade-accepted-violating-values", What: fmt.Sprintf("upgrade (%s, dry-run=%v) was accepted although the values of the new revision violate the schemas: %v", mode, dry, trunc(verr.Error(), 300)), Case: ucs, Seed: seed, Index: idx})
			}
		}
	}
}

// lintOracle: does lint's schema checking reject, according to the two pipelines it is built from?
func lintOracle(chartDir string, user map[string]any) (bool, error) {
	fail := false
	// (A) rules.ValuesWithOverrides
	if rootVals, err := chartutil.ReadValuesFile(filepath.Join(chartDir, "values.yaml")); err == nil {
		if schema, err := os.ReadFile(filepath.Join(chartDir, "values.schema.json")); err == nil && len(schema) > 0 {
			cv := chartutil.CoalesceTables(make(map[string]any), deepCopyMap(user))
			cv = chartutil.CoalesceTables(cv, rootVals)
			if chartutil.ValidateAgainstSingleSchema(cv, schema) != nil {
				fail = true
			}
		}
	}
	// (B) rules.Templates
	if _, err := os.Stat(filepath.Join(chartDir, "templates")); err == nil {
		lc, err := loader.LoadDir(chartDir)
		if err != nil {
			return false, err
		}
		if err := chartutil.ProcessDependencies(lc, deepCopyMap(user)); err != nil {
			return false, err
		}
		c1, err := chartutil.CoalesceValues(lc, deepCopyMap(user))
		if err != nil {
			return false, err
		}
		if _, err := chartutil.ToRenderValuesWithSchemaValidation(lc, c1, chartutil.ReleaseOptions{Name: "test-release", Namespace: "default"}, nil, false); err != nil {
			fail = true
		}
	}
	return fail, nil
}
