package main

import (
	"archive/tar"
	"bytes"
	"compress/gzip"
	"crypto/sha256"
	"fmt"
	"io"
	"io/fs"
	"net/http"
	"net/http/httptest"
	"os"
	"path"
	"path/filepath"
	"sort"
	"strings"

	"helm.sh/helm/v4/pkg/chart/v2/loader"
	chartutil "helm.sh/helm/v4/pkg/chart/v2/util"
	"helm.sh/helm/v4/pkg/downloader"
	"helm.sh/helm/v4/pkg/getter"
	"helm.sh/helm/v4/pkg/plugin/installer"
)

func init() { subs["paths"] = corrPaths }

var pathAtoms = []string{"a", "b", "c.txt", ".", "..", "", "...", "..a", "a..", "Chart.yaml", "templates", "C:", "c:", "x:y", " ", "é", "..\\", "\\", "a\\b", "%2e%2e"}

func genPathName(r *Rng) string {
	n := 1 + r.Intn(5)
	var parts []string
	for i := 0; i < n; i++ {
		parts = append(parts, Pick(r, pathAtoms))
	}
	sep := "/"
	if r.Chance(20) {
		sep = "\\"
	}
	s := strings.Join(parts, sep)
	if r.Chance(10) {
		s = "/" + s
	}
	if r.Chance(10) {
		s = strings.Replace(s, "/", "//", 1)
	}
	return s
}

type tarEntry struct {
	Name     string
	Body     []byte
	Typeflag byte
	Linkname string
	Size     int64 // declared size when != len(Body) is wanted: not used (tar writer enforces)
}

func mkTarGz(es []tarEntry) ([]byte, error) {
	var buf bytes.Buffer
	gz := gzip.NewWriter(&buf)
	tw := tar.NewWriter(gz)
	for _, e := range es {
		tf := e.Typeflag
		if tf == 0 {
			tf = tar.TypeReg
		}
		h := &tar.Header{Name: e.Name, Mode: 0o644, Size: int64(len(e.Body)), Typeflag: tf, Linkname: e.Linkname, Format: tar.FormatPAX}
		carries := tf == tar.TypeReg || tf == tar.TypeCont || tf == 'Z' // archive/tar reads a body for every flag that is not header-only
		if !carries {
			h.Size = 0
		}
		if err := tw.WriteHeader(h); err != nil {
			return nil, err
		}
		if carries {
			if _, err := tw.Write(e.Body); err != nil {
				return nil, err
			}
		}
	}
	tw.Close()
	gz.Close()
	return buf.Bytes(), nil
}

func snapshot(root string) map[string]string {
	out := map[string]string{}
	filepath.WalkDir(root, func(p string, d fs.DirEntry, err error) error {
		if err != nil {
			return nil
		}
		rel, _ := filepath.Rel(root, p)
		info, err := os.Lstat(p)
		if err != nil {
			return nil
		}
		switch {
		case info.Mode()&os.ModeSymlink != 0:
			t, _ := os.Readlink(p)
			out[rel] = "symlink:" + t
		case info.IsDir():
			out[rel] = "dir"
		default:
			b, _ := os.ReadFile(p)
			out[rel] = fmt.Sprintf("file:%x", sha256.Sum256(b))
		}
		return nil
	})
	return out
}

// outsideChanges lists entries that differ between two snapshots and are not under `allowed/`.
func outsideChanges(before, after map[string]string, allowed string) []string {
	var ch []string
	keys := map[string]bool{}
	for k := range before {
		keys[k] = true
	}
	for k := range after {
		keys[k] = true
	}
	for k := range keys {
		if before[k] != after[k] && k != allowed && !strings.HasPrefix(k, allowed+string(filepath.Separator)) {
			ch = append(ch, k)
		}
	}
	sort.Strings(ch)
	return ch
}

func corrPaths(seed uint64, n int, tier string, out string, replay string) {
	m := StartModel()
	defer m.Close()
	rep := NewReport("C16", "paths", seed, "case = (a) arbitrary strings through path.Clean vs the Lean pathClean; (b) tar entry names built from adversarial atoms (.., ., empty, drive prefixes, backslashes, absolute, Chart.yaml) through loader.LoadArchiveFiles vs the Lean name normaliser; (c) the same archives and symlink/hardlink entries through chartutil.Expand and the plugin TarGzExtractor into a sandbox with pre-planted symlinks, with a before/after snapshot of everything outside the destination; (d) size sequences around the per-file and total limits (limits lowered through the exported variables, the model told the same numbers); (f) ChartDownloader.DownloadTo of chart URLs whose last segment carries percent-encoded separators and dots, with a before/after snapshot of everything outside the destination; (e) Manager.Update on a chart with a symlink planted at Chart.lock / requirements.lock in four shapes (relative target with .., absolute target, local-looking target through a directory link that leaves the chart, target inside the chart); non-trivial = name has a '..', '.', empty, absolute, drive or backslash component; distinct = hash of the case")
	tmp, _ := os.MkdirTemp("", "corr-paths")
	defer os.RemoveAll(tmp)
	for i := 0; i < n; i++ {
		r := NewRng(seed, uint64(i))
		name := genPathName(r)
		nontrivial := strings.Contains(name, "..") || strings.Contains(name, "\\") || strings.HasPrefix(name, "/") || strings.Contains(name, ":") || strings.Contains(name, "//") || strings.Contains(name, "/./")
		rep.Count(map[string]any{"name": name}, nontrivial)
		if i < 3 {
			rep.Sample(map[string]any{"name": name})
		}
		// (a) path.Clean
		if got, want := path.Clean(name), m.Query(map[string]any{"op": "pathClean", "s": name})["out"]; got != want {
			rep.Issue(Issue{Kind: "disagreement", Fingerprint: "C16:model:pathClean", What: "path.Clean differs from model", Case: map[string]any{"s": name}, Model: want, Impl: got, Seed: seed, Index: i})
		}
		rep.H("clean")
		// (b) LoadArchiveFiles
		full := "c/" + name
		if r.Chance(15) {
			full = name // entry not under a top directory
		}
		if strings.HasSuffix(full, "/") || strings.Contains(full, "\x00") || full == "" {
			rep.H("name-skipped")
		} else {
			pathsArchiveCase(m, rep, r, tmp, full, seed, i)
		}
		// (c') plugin extractor names
		pluginCase(m, rep, r, tmp, name, seed, i)
	}
	for i := 0; i < n/10+3; i++ {
		sizesCase(m, rep, NewRng(seed^0x51, uint64(i)), seed, i)
	}
	for i := 0; i < 8; i++ {
		lockCase(rep, tmp, i%2 == 1, i/2, seed, i)
	}
	downloadCases(rep, tmp, seed)
	rep.Write(out, m)
}

func pathsArchiveCase(m *Model, rep *Report, r *Rng, tmp, full string, seed uint64, idx int) {
	// the chart's own name (the directory Expand unpacks into) is input as well: harmless entry names, hostile Chart.yaml
	chartName := "c"
	if r.Chance(25) {
		chartName = Pick(r, []string{"..", ".", "../x", "a/../../x", "/abs", "outside", "c/..", "..\\x", "x"})
	}
	data, err := mkTarGz([]tarEntry{{Name: full, Body: []byte("x")}, {Name: "c/Chart.yaml", Body: []byte("apiVersion: v2\nname: \"" + strings.ReplaceAll(chartName, "\\", "\\\\") + "\"\nversion: 0.1.0\n")}, {Name: "c/values.yaml", Body: []byte("a: 1\n")}})
	if err != nil {
		rep.H("tar-writer-rejects")
		return
	}
	var files []*loader.BufferedFile
	if p := safely(func() { files, err = loader.LoadArchiveFiles(bytes.NewReader(data)) }); p != "" {
		rep.Issue(Issue{Kind: "monitor", Fingerprint: "C20:panic:LoadArchiveFiles", What: p, Case: map[string]any{"name": full}, Seed: seed, Index: idx})
		return
	}
	want := m.Query(map[string]any{"op": "normName", "name": full})
	got := map[string]any{}
	if err != nil {
		got["err"] = true
	} else {
		got["ok"] = files[0].Name
	}
	rep.H("archive:" + map[bool]string{true: "rejected", false: "accepted"}[err != nil])
	if (err != nil) != (want["err"] != nil) || (err == nil && want["ok"] != files[0].Name) {
		rep.Issue(Issue{Kind: "disagreement", Fingerprint: "C16:model:normName", What: "LoadArchiveFiles name handling differs from model: " + fmt.Sprint(err), Case: map[string]any{"name": full}, Model: want, Impl: got, Seed: seed, Index: idx})
		return
	}
	// monitor on the implementation: every exposed name is a clean relative path
	if err == nil {
		for _, f := range files {
			n := f.Name
			bad := n == "" || n == "." || strings.HasPrefix(n, "/") || path.Clean(n) != n
			for _, c := range strings.Split(n, "/") {
				bad = bad || c == ".."
			}
			if bad {
				rep.Issue(Issue{Kind: "monitor", Fingerprint: "C16:unclean-name", What: "loaded chart exposes a file name that is not a clean relative path: " + n, Case: map[string]any{"name": full}, Seed: seed, Index: idx})
			}
		}
	}
	// (c) Expand into a sandbox with planted symlinks
	root := filepath.Join(tmp, fmt.Sprintf("sb-%d", idx))
	dest := filepath.Join(root, "dest")
	os.MkdirAll(filepath.Join(root, "outside"), 0o755)
	os.MkdirAll(filepath.Join(dest, "c"), 0o755)
	os.WriteFile(filepath.Join(root, "outside", "victim"), []byte("precious"), 0o644)
	if r.Chance(50) {
		// symlinks already present in the destination, pointing out of it
		os.Symlink("../../outside", filepath.Join(dest, "c", "a"))
		os.Symlink("../../outside/victim", filepath.Join(dest, "c", "c.txt"))
		os.Symlink("../outside", filepath.Join(dest, "templates"))
	}
	before := snapshot(root)
	if p := safely(func() { err = chartutil.Expand(dest, bytes.NewReader(data)) }); p != "" {
		rep.Issue(Issue{Kind: "monitor", Fingerprint: "C20:panic:Expand", What: p, Case: map[string]any{"name": full}, Seed: seed, Index: idx})
	}
	after := snapshot(root)
	if ch := outsideChanges(before, after, "dest"); len(ch) > 0 {
		rep.Issue(Issue{Kind: "monitor", Fingerprint: "C16:escape:Expand", What: "chartutil.Expand changed something outside its destination: " + strings.Join(ch, ","), Case: map[string]any{"name": full, "chartName": chartName, "before": before, "after": after}, Seed: seed, Index: idx})
	}
	rep.H("expand")
	if chartName != "c" {
		rep.H("expand:odd-chart-name")
	}
	rep.Traces++
	os.RemoveAll(root)
}

func pluginCase(m *Model, rep *Report, r *Rng, tmp, name string, seed uint64, idx int) {
	if name == "" || strings.Contains(name, "\x00") {
		return
	}
	es := []tarEntry{{Name: name, Body: []byte("x")}}
	if r.Chance(20) {
		es = []tarEntry{{Name: "lnk", Typeflag: tar.TypeSymlink, Linkname: "../outside"}, {Name: "lnk/" + name, Body: []byte("x")}}
	}
	data, err := mkTarGz(es)
	if err != nil {
		return
	}
	root := filepath.Join(tmp, fmt.Sprintf("pl-%d", idx))
	dest := filepath.Join(root, "dest")
	os.MkdirAll(filepath.Join(root, "outside"), 0o755)
	os.MkdirAll(dest, 0o755)
	os.WriteFile(filepath.Join(root, "outside", "victim"), []byte("precious"), 0o644)
	if r.Chance(50) {
		os.Symlink("../outside", filepath.Join(dest, "a"))
		os.Symlink("../outside/victim", filepath.Join(dest, "c.txt"))
	}
	before := snapshot(root)
	ex := &installer.TarGzExtractor{}
	if p := safely(func() { err = ex.Extract(bytes.NewBuffer(data), dest) }); p != "" {
		rep.Issue(Issue{Kind: "monitor", Fingerprint: "C20:panic:Extract", What: p, Case: map[string]any{"name": name}, Seed: seed, Index: idx})
	}
	after := snapshot(root)
	if ch := outsideChanges(before, after, "dest"); len(ch) > 0 {
		rep.Issue(Issue{Kind: "monitor", Fingerprint: "C16:escape:Extract", What: "plugin TarGzExtractor changed something outside its destination: " + strings.Join(ch, ","), Case: map[string]any{"entries": es, "before": before, "after": after}, Seed: seed, Index: idx})
	}
	// lexical decision vs model (single plain entry only)
	if len(es) == 1 {
		want := m.Query(map[string]any{"op": "cleanJoin", "dest": name})
		lexRejected := err != nil && (strings.Contains(err.Error(), "which is illegal"))
		if (want["err"] != nil) != lexRejected {
			rep.Issue(Issue{Kind: "disagreement", Fingerprint: "C16:model:cleanJoin", What: "cleanJoin's lexical decision differs from model: " + fmt.Sprint(err), Case: map[string]any{"dest": name}, Model: want, Impl: fmt.Sprint(err), Seed: seed, Index: idx})
		}
		rep.H("plugin:" + map[bool]string{true: "rejected", false: "accepted"}[lexRejected])
	}
	os.RemoveAll(root)
}

func sizesCase(m *Model, rep *Report, r *Rng, seed uint64, idx int) {
	// lower the limits (exported variables) so that archives around them are cheap; the real
	// constants are regenerated facts checked in Props/C16
	oldC, oldF := loader.MaxDecompressedChartSize, loader.MaxDecompressedFileSize
	defer func() { loader.MaxDecompressedChartSize, loader.MaxDecompressedFileSize = oldC, oldF }()
	maxChart, maxFile := int64(2000+r.Intn(500)), int64(600+r.Intn(200))
	loader.MaxDecompressedChartSize, loader.MaxDecompressedFileSize = maxChart, maxFile
	var es []tarEntry
	var sizes []any
	nf := 1 + r.Intn(6)
	for i := 0; i < nf; i++ {
		sz := r.Intn(int(maxFile) + 50)
		switch r.Intn(8) {
		case 0:
			sz = int(maxFile)
		case 1:
			sz = int(maxFile) + 1
		case 2:
			sz = 0
		}
		// the entry's type flag: a regular file, or (rarely) another flag whose entries carry data all the same
		// (contiguous file '7', a vendor flag 'Z'): the limits are about bytes, not about the flag
		tf := Pick(r, []byte{0, 0, 0, 0, 0, 0, tar.TypeCont, 'Z'})
		if tf != 0 {
			rep.H("sizes:data-carrying-flag")
		}
		es = append(es, tarEntry{Name: fmt.Sprintf("c/f%d", i), Body: bytes.Repeat([]byte("z"), sz), Typeflag: tf})
		sizes = append(sizes, sz)
	}
	if r.Chance(30) {
		// make the total land exactly on / one under / one over the chart limit
		tot := 0
		for _, s := range sizes {
			tot += s.(int)
		}
		adj := int(maxChart) - tot + Pick(r, []int{-1, 0, 1})
		if adj >= 0 && adj <= int(maxFile) {
			es = append(es, tarEntry{Name: "c/last", Body: bytes.Repeat([]byte("z"), adj)})
			sizes = append(sizes, adj)
		}
	}
	data, _ := mkTarGz(es)
	cr := &countingReader{r: bytes.NewReader(data)}
	var files []*loader.BufferedFile
	var err error
	if p := safely(func() { files, err = loader.LoadArchiveFiles(cr) }); p != "" {
		rep.Issue(Issue{Kind: "monitor", Fingerprint: "C20:panic:LoadArchiveFiles", What: p, Case: map[string]any{"sizes": sizes}, Seed: seed, Index: idx})
		return
	}
	_ = files
	want := m.Query(map[string]any{"op": "sizeLoop", "sizes": sizes, "maxFile": maxFile, "maxChart": maxChart})
	cs := map[string]any{"sizes": sizes, "maxFile": maxFile, "maxChart": maxChart}
	rep.Count(cs, true)
	rep.H("sizes:" + map[bool]string{true: "rejected", false: "accepted"}[err != nil])
	if (err != nil) != (want["accepted"] != true) {
		rep.Issue(Issue{Kind: "disagreement", Fingerprint: "C16:model:sizes", What: "size-limit decision differs from model: " + fmt.Sprint(err), Case: cs, Model: want, Impl: fmt.Sprint(err), Seed: seed, Index: idx})
	}
	// monitor: accepted => every file within the per-file limit and the total within the chart limit
	if err == nil {
		tot := int64(0)
		for _, s := range sizes {
			tot += int64(s.(int))
			if int64(s.(int)) > maxFile {
				rep.Issue(Issue{Kind: "monitor", Fingerprint: "C16:size-limit", What: "file above the per-file limit accepted", Case: cs, Seed: seed, Index: idx})
			}
		}
		if tot > maxChart {
			rep.Issue(Issue{Kind: "monitor", Fingerprint: "C16:size-limit", What: "archive above the total limit accepted", Case: cs, Seed: seed, Index: idx})
		}
	}
}

type countingReader struct {
	r io.Reader
	n int64
}

func (c *countingReader) Read(p []byte) (int, error) {
	n, err := c.r.Read(p)
	c.n += int64(n)
	return n, err
}

// lockCase: Manager.Update must not write through a symlink planted at the lock file's path.
func lockCase(rep *Report, tmp string, legacy bool, shape int, seed uint64, idx int) {
	root := filepath.Join(tmp, fmt.Sprintf("lock-%d", idx))
	chartDir := filepath.Join(root, "parent")
	os.MkdirAll(filepath.Join(root, "dep"), 0o755)
	os.MkdirAll(chartDir, 0o755)
	os.MkdirAll(filepath.Join(root, "outside"), 0o755)
	victim := filepath.Join(root, "outside", "victim")
	precious := "digest: stale\ngenerated: \"2020-01-01T00:00:00Z\"\ndependencies: []\n# precious\n"
	os.WriteFile(victim, []byte(precious), 0o644)
	os.WriteFile(filepath.Join(root, "dep", "Chart.yaml"), []byte("apiVersion: v2\nname: dep\nversion: 0.1.0\n"), 0o644)
	lockName := "Chart.lock"
	if legacy {
		os.WriteFile(filepath.Join(chartDir, "Chart.yaml"), []byte("apiVersion: v1\nname: parent\nversion: 0.1.0\n"), 0o644)
		os.WriteFile(filepath.Join(chartDir, "requirements.yaml"), []byte("dependencies:\n- name: dep\n  version: 0.1.0\n  repository: file://../dep\n"), 0o644)
		lockName = "requirements.lock"
	} else {
		os.WriteFile(filepath.Join(chartDir, "Chart.yaml"), []byte("apiVersion: v2\nname: parent\nversion: 0.1.0\ndependencies:\n- name: dep\n  version: 0.1.0\n  repository: file://../dep\n"), 0o644)
	}
	shapeName := "relative-dotdot"
	switch shape {
	case 0: // relative target leaving the chart
		os.Symlink("../outside/victim", filepath.Join(chartDir, lockName))
	case 1: // absolute target
		shapeName = "absolute"
		os.Symlink(victim, filepath.Join(chartDir, lockName))
	case 2: // a local-looking target whose directory component is itself a link out of the chart
		shapeName = "local-through-dir-link"
		os.Symlink("../outside", filepath.Join(chartDir, "locks"))
		os.Symlink("locks/victim", filepath.Join(chartDir, lockName))
	default: // a link that stays inside the chart: still "through a symlink planted at the lock file's path"
		shapeName = "in-chart"
		victim = filepath.Join(chartDir, "other.lock")
		os.WriteFile(victim, []byte(precious), 0o644)
		os.Symlink("other.lock", filepath.Join(chartDir, lockName))
	}
	repoCfg := filepath.Join(root, "repositories.yaml")
	os.WriteFile(repoCfg, []byte("apiVersion: v1\nrepositories: []\n"), 0o644)
	before := snapshot(root)
	man := &downloader.Manager{Out: io.Discard, ChartPath: chartDir, SkipUpdate: true, RepositoryConfig: repoCfg, RepositoryCache: filepath.Join(root, "cache"), Getters: getter.Providers{}}
	var err error
	if p := safely(func() { err = man.Update() }); p != "" {
		rep.Issue(Issue{Kind: "monitor", Fingerprint: "C20:panic:Manager.Update", What: p, Seed: seed, Index: idx})
	}
	after := snapshot(root)
	rep.Count(map[string]any{"lock": lockName, "shape": shapeName}, true)
	rep.H("lock:" + lockName + ":" + shapeName + ":" + map[bool]string{true: "error", false: "ok"}[err != nil])
	if err != nil && os.Getenv("VERIF_DEBUG") != "" {
		fmt.Fprintln(os.Stderr, "lockCase:", err)
	}
	b, _ := os.ReadFile(victim)
	if string(b) != precious {
		rep.Issue(Issue{Kind: "monitor", Fingerprint: "C16:lock-symlink", What: "Manager.Update wrote the lock file through a symlink planted at " + lockName + " (" + shapeName + "): the file the link leads to was overwritten", Case: map[string]any{"lock": lockName, "shape": shapeName, "changes": outsideChanges(before, after, "parent")}, Seed: seed, Index: idx})
	}
	os.RemoveAll(root)
}

// downloadCases: a chart download writes only inside its destination directory, whatever the last segment of the
// chart URL looks like (the URL comes from a repository index, i.e. from the repository).
func downloadCases(rep *Report, tmp string, seed uint64) {
	tgz, _ := mkTarGz([]tarEntry{{Name: "c/Chart.yaml", Body: []byte("apiVersion: v2\nname: c\nversion: 0.1.0\n")}})
	srv := httptest.NewServer(http.HandlerFunc(func(w http.ResponseWriter, r *http.Request) {
		if strings.HasSuffix(r.URL.Path, ".prov") {
			http.NotFound(w, r)
			return
		}
		w.Write(tgz)
	}))
	defer srv.Close()
	names := []string{"c-0.1.0.tgz", "..%2F..%2Fescaped.tgz", "..%2Fvictim.txt", "%2e%2e%2fescaped2.tgz", "a%2Fb.tgz", "%2Ftmp%2Fabs-escape.tgz", "..%5C..%5Cback.tgz", "c-0.1.0.tgz?x=..%2F..%2Fq", "sub/..%2F..%2F..%2Fdeep.tgz", "%2E%2E", "c%20space.tgz"}
	for i, name := range names {
		root := filepath.Join(tmp, fmt.Sprintf("dl-%d", i))
		dest := filepath.Join(root, "work", "dest")
		os.MkdirAll(dest, 0o755)
		os.WriteFile(filepath.Join(root, "work", "victim.txt"), []byte("precious"), 0o644)
		os.WriteFile(filepath.Join(root, "victim.txt"), []byte("precious"), 0o644)
		cfg := filepath.Join(root, "repositories.yaml")
		os.WriteFile(cfg, []byte("apiVersion: v1\nrepositories: []\n"), 0o644)
		before := snapshot(root)
		var err error
		if p := safely(func() {
			cd := downloader.ChartDownloader{Out: io.Discard, Verify: downloader.VerifyNever, Getters: getter.Providers{{Schemes: []string{"http"}, New: getter.NewHTTPGetter}}, RepositoryConfig: cfg, RepositoryCache: filepath.Join(root, "work", "dest", "cache")}
			_, _, err = cd.DownloadTo(srv.URL+"/charts/"+name, "", dest)
		}); p != "" {
			rep.Issue(Issue{Kind: "monitor", Fingerprint: "C20:panic:DownloadTo", What: p, Case: map[string]any{"name": name}, Seed: seed, Index: 2000 + i})
		}
		after := snapshot(root)
		rep.Count(map[string]any{"download": name}, true)
		rep.H("download:" + map[bool]string{true: "error", false: "ok"}[err != nil])
		if ch := outsideChanges(before, after, filepath.Join("work", "dest")); len(ch) > 0 {
			rep.Issue(Issue{Kind: "monitor", Fingerprint: "C16:escape:DownloadTo", What: fmt.Sprintf("downloading %q into a directory changed files outside it: %v", name, ch), Case: map[string]any{"name": name, "changes": ch}, Seed: seed, Index: 2000 + i})
		}
		os.RemoveAll(root)
	}
}
