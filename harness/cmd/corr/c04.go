package main

import (
	"context"
	"encoding/json"
	"fmt"
	"os"
	"os/exec"
	"path/filepath"
	"reflect"
	"strings"
	"time"

	chart "helm.sh/helm/v4/pkg/chart/v2"
	"helm.sh/helm/v4/pkg/chart/v2/loader"
	chartutil "helm.sh/helm/v4/pkg/chart/v2/util"
	"helm.sh/helm/v4/pkg/cli/values"
	"helm.sh/helm/v4/pkg/getter"
	"helm.sh/helm/v4/pkg/strvals"
)

func init() {
	subs["values"] = corrValues
	subs["strvals"] = corrStrvals
}

// ---------- generators ----------

var valKeys = []string{"a", "b", "c", "d", "e", "g"}

func genScalar(r *Rng) any {
	switch r.Intn(9) {
	case 0:
		return nil
	case 1:
		return r.Bool()
	case 2:
		return float64(r.Intn(5))
	case 3:
		return "s" + fmt.Sprint(r.Intn(4))
	case 4:
		return 1.5
	case 5:
		return []any{float64(r.Intn(3)), "x"}
	case 6:
		return map[string]any{}
	case 7:
		return ""
	default:
		return []any{}
	}
}

func genTree(r *Rng, depth int, keys []string) map[string]any {
	m := map[string]any{}
	n := r.Intn(4)
	if depth == 0 {
		n = 1 + r.Intn(4)
	}
	for i := 0; i < n; i++ {
		k := Pick(r, keys)
		if depth < 4 && r.Chance(40) {
			m[k] = genTree(r, depth+1, valKeys)
		} else {
			m[k] = genScalar(r)
		}
	}
	return m
}

func deepCopy(v any) any {
	b, _ := json.Marshal(v)
	var o any
	json.Unmarshal(b, &o)
	return o
}
func deepCopyMap(v map[string]any) map[string]any {
	if v == nil {
		return nil
	}
	return deepCopy(v).(map[string]any)
}

// jsonEqual compares through a JSON round trip (ints vs floats, key order are immaterial).
func jsonEqual(a, b any) bool {
	return reflect.DeepEqual(deepCopy(a), deepCopy(b))
}

type genChart struct {
	Name   string         `json:"name"`
	Values map[string]any `json:"values"`
	Deps   []*genChart    `json:"deps"`
}

func genChartTree(r *Rng, depth int, name string) *genChart {
	c := &genChart{Name: name, Deps: []*genChart{}}
	keys := append([]string{}, valKeys...)
	var subNames []string
	if depth < 3 {
		n := r.Intn(3)
		if depth == 0 {
			n = 1 + r.Intn(2)
		}
		for i := 0; i < n; i++ {
			sn := Pick(r, []string{"s", "t", "u"})
			dup := false
			for _, x := range subNames {
				dup = dup || x == sn
			}
			if dup {
				continue
			}
			subNames = append(subNames, sn)
			c.Deps = append(c.Deps, genChartTree(r, depth+1, sn))
		}
	}
	keys = append(keys, subNames...)
	if r.Chance(60) {
		keys = append(keys, "global", "global")
	}
	c.Values = genTree(r, 0, keys)
	for _, sn := range subNames {
		if v, ok := c.Values[sn]; ok {
			if _, isMap := v.(map[string]any); !isMap && r.Chance(85) {
				c.Values[sn] = genTree(r, 1, valKeys)
			}
		}
	}
	if g, ok := c.Values["global"]; ok && r.Chance(85) {
		if _, isMap := g.(map[string]any); !isMap {
			c.Values["global"] = genTree(r, 1, valKeys)
		}
	}
	return c
}

func (g *genChart) real() *chart.Chart {
	c := &chart.Chart{Metadata: &chart.Metadata{Name: g.Name, Version: "0.1.0", APIVersion: "v2"}, Values: deepCopyMap(g.Values)}
	for _, d := range g.Deps {
		c.AddDependency(d.real())
	}
	return c
}

func chartValuesSnapshot(c *chart.Chart) any {
	out := map[string]any{"values": deepCopy(c.Values)}
	var ds []any
	for _, d := range c.Dependencies() {
		ds = append(ds, chartValuesSnapshot(d))
	}
	out["deps"] = ds
	return out
}

// ---------- values ----------

func corrValues(seed uint64, n int, tier string, out string, replay string) {
	m := StartModel()
	defer m.Close()
	rep := NewReport("C04", "values", seed, "case = (a) two random trees (depth<=5, keys from a 6-letter alphabet so paths collide; nulls, empty maps, lists, scalars of every JSON kind) through MergeMaps / CoalesceTables / MergeTables, (b) a chart tree (<=3 subchart levels, globals, subchart sections) with user values through CoalesceValues / MergeValues, (c) value-flag mixtures through Options.MergeValues (files on disk), and for every fortieth of them the same sources as flags of the real `helm template` command line in a child process (what the probe template sees as .Values vs the library calls); results compared with the model as canonical JSON and inputs snapshotted before/after for non-mutation; non-trivial = some key path collides between the sources; distinct = hash of the inputs")
	tmp, _ := os.MkdirTemp("", "corr-values")
	defer os.RemoveAll(tmp)
	for i := 0; i < n; i++ {
		r := NewRng(seed, uint64(i))
		switch i % 3 {
		case 0:
			valuesCaseMaps(m, rep, r, seed, i)
		case 1:
			valuesCaseChart(m, rep, r, seed, i)
		case 2:
			valuesCaseFlags(m, rep, r, seed, i, tmp)
		}
	}
	rep.Write(out, m)
}

func collide(a, b map[string]any) bool {
	for k := range a {
		if _, ok := b[k]; ok {
			return true
		}
	}
	return false
}

func valuesCaseMaps(m *Model, rep *Report, r *Rng, seed uint64, idx int) {
	a := genTree(r, 0, valKeys)
	b := genTree(r, 0, valKeys)
	cs := map[string]any{"a": a, "b": b}
	rep.Count(cs, collide(a, b))
	rep.Sample(cs)
	a0, b0 := deepCopyMap(a), deepCopyMap(b)
	// MergeMaps
	var got map[string]any
	if p := safely(func() { got = loader.MergeMaps(a, b) }); p != "" {
		rep.Issue(Issue{Kind: "monitor", Fingerprint: "C20:panic:MergeMaps", What: p, Case: cs, Seed: seed, Index: idx})
		return
	}
	want := m.Query(map[string]any{"op": "mergeMaps", "a": a0, "b": b0})
	if !jsonEqual(got, want) {
		rep.Issue(Issue{Kind: "disagreement", Fingerprint: "C04:mergeMaps", What: "MergeMaps differs from model", Case: cs, Model: want, Impl: got, Seed: seed, Index: idx})
	}
	if !jsonEqual(a, a0) || !jsonEqual(b, b0) {
		rep.Issue(Issue{Kind: "monitor", Fingerprint: "C04:mutation:MergeMaps", What: "MergeMaps modified an input map", Case: cs, Impl: map[string]any{"a": a, "b": b}, Seed: seed, Index: idx})
	}
	rep.H("mergeMaps")
	// CoalesceTables / MergeTables (dst is modified in place by contract; src must not be)
	for _, merge := range []bool{false, true} {
		dst, src := deepCopyMap(a0), deepCopyMap(b0)
		var res map[string]any
		p := safely(func() {
			if merge {
				res = chartutil.MergeTables(dst, src)
			} else {
				res = chartutil.CoalesceTables(dst, src)
			}
		})
		if p != "" {
			rep.Issue(Issue{Kind: "monitor", Fingerprint: "C20:panic:CoalesceTables", What: p, Case: cs, Seed: seed, Index: idx})
			return
		}
		want := m.Query(map[string]any{"op": "coalesceTables", "dst": a0, "src": b0, "merge": merge})
		if !jsonEqual(res, want) {
			rep.Issue(Issue{Kind: "disagreement", Fingerprint: fmt.Sprintf("C04:coalesceTables:merge=%v", merge), What: "CoalesceTables/MergeTables differs from model", Case: map[string]any{"dst": a0, "src": b0, "merge": merge}, Model: want, Impl: res, Seed: seed, Index: idx})
		}
		if !jsonEqual(src, b0) {
			rep.Issue(Issue{Kind: "monitor", Fingerprint: "C04:mutation:CoalesceTables-src", What: "CoalesceTables modified its source map", Case: map[string]any{"dst": a0, "src": b0, "merge": merge}, Impl: src, Seed: seed, Index: idx})
		}
	}
	rep.H("coalesceTables")
}

func valuesCaseChart(m *Model, rep *Report, r *Rng, seed uint64, idx int) {
	g := genChartTree(r, 0, "p")
	keys := append([]string{}, valKeys...)
	for _, d := range g.Deps {
		keys = append(keys, d.Name, d.Name)
	}
	keys = append(keys, "global")
	vals := genTree(r, 0, keys)
	for _, d := range g.Deps {
		if v, ok := vals[d.Name]; ok {
			if _, isMap := v.(map[string]any); !isMap && r.Chance(85) {
				sub := genTree(r, 1, append([]string{"global", "s", "t"}, valKeys...))
				vals[d.Name] = sub
			}
		}
	}
	cs := map[string]any{"chart": g, "vals": vals}
	rep.Count(cs, len(g.Deps) > 0)
	rep.Sample(cs)
	for _, merge := range []bool{false, true} {
		c := g.real()
		before := chartValuesSnapshot(c)
		v := deepCopyMap(vals)
		var res chartutil.Values
		var err error
		p := safely(func() {
			if merge {
				res, err = chartutil.MergeValues(c, v)
			} else {
				res, err = chartutil.CoalesceValues(c, v)
			}
		})
		if p != "" {
			rep.Issue(Issue{Kind: "monitor", Fingerprint: "C20:panic:CoalesceValues", What: p, Case: cs, Seed: seed, Index: idx})
			return
		}
		want := m.Query(map[string]any{"op": "coalesceValues", "chart": g, "vals": vals, "merge": merge})
		if err != nil {
			rep.H("coalesce-error")
			if _, ok := want["err"]; !ok {
				rep.Issue(Issue{Kind: "disagreement", Fingerprint: "C04:coalesceValues:error", What: "CoalesceValues failed, model did not: " + err.Error(), Case: cs, Model: want, Seed: seed, Index: idx})
			}
			continue
		}
		if w, ok := want["ok"]; !ok || !jsonEqual(map[string]any(res), w) {
			fp := fmt.Sprintf("C04:coalesceValues:merge=%v", merge)
			// known class: nested global tables are shared between parent and subcharts (C11 leak)
			if nestedGlobals(g, vals) {
				fp = "C11:globals-leak"
			}
			rep.Issue(Issue{Kind: "disagreement", Fingerprint: fp, What: "CoalesceValues/MergeValues differs from model", Case: map[string]any{"chart": g, "vals": vals, "merge": merge}, Model: want, Impl: res, Seed: seed, Index: idx})
			rep.H("coalesce-disagree")
			continue
		}
		rep.H("coalesce-ok")
		if !jsonEqual(chartValuesSnapshot(c), before) {
			rep.Issue(Issue{Kind: "monitor", Fingerprint: "C04:mutation:chart-defaults", What: "CoalesceValues/MergeValues modified a chart's stored defaults", Case: cs, Seed: seed, Index: idx})
		}
		if !jsonEqual(v, vals) {
			rep.Issue(Issue{Kind: "monitor", Fingerprint: "C04:mutation:caller-values", What: "CoalesceValues/MergeValues modified the caller's value map", Case: cs, Impl: v, Seed: seed, Index: idx})
		}
	}
}

// nestedGlobals: some `global` table (in user values or in any chart's defaults) contains a
// table nested at depth >= 2 -- the shape on which the shallow copy in coalesceGlobals leaks.
func nestedGlobals(g *genChart, vals map[string]any) bool {
	has := func(m map[string]any) bool {
		gl, ok := m["global"].(map[string]any)
		if !ok {
			return false
		}
		for _, v := range gl {
			if t, ok := v.(map[string]any); ok {
				for _, w := range t {
					if _, ok := w.(map[string]any); ok {
						return true
					}
				}
			}
		}
		return false
	}
	var walkVals func(m map[string]any, d int) bool
	walkVals = func(m map[string]any, d int) bool {
		if has(m) {
			return true
		}
		if d > 3 {
			return false
		}
		for _, v := range m {
			if t, ok := v.(map[string]any); ok && walkVals(t, d+1) {
				return true
			}
		}
		return false
	}
	var walk func(c *genChart) bool
	walk = func(c *genChart) bool {
		if walkVals(c.Values, 0) {
			return true
		}
		for _, d := range c.Deps {
			if walk(d) {
				return true
			}
		}
		return false
	}
	return walk(g) || walkVals(vals, 0)
}

// ---------- strvals ----------

var svKeyChars = []rune{'a', 'b', 'c', 'a', 'b', '.', ',', '=', '[', ']', '\\', '{', '}', ' ', '-', 'é', '0'}

func genKeySeg(r *Rng) string {
	n := 1 + r.Intn(3)
	var b []rune
	for i := 0; i < n; i++ {
		if r.Chance(75) {
			b = append(b, Pick(r, []rune{'a', 'b', 'c'}))
		} else {
			b = append(b, Pick(r, svKeyChars))
		}
	}
	return string(b)
}

func escapeSV(s string, literal bool) string {
	if literal {
		return s
	}
	var b strings.Builder
	for _, c := range s {
		switch c {
		case '.', ',', '=', '[', ']', '\\', '{', '}':
			b.WriteByte('\\')
		}
		b.WriteRune(c)
	}
	return b.String()
}

var svValues = []string{"v", "1", "0", "007", "-5", "+7", "true", "TRUE", "False", "null", "Null", "", "1.5", "9223372036854775807", "9223372036854775808", "a b", "x,y", "a=b", "{x}", "falſe", "1e3", "0x10", "-0", "--1", "é"}

func genSetExpr(r *Rng, literal bool) string {
	var parts []string
	n := 1
	if !literal && r.Chance(30) {
		n = 2 + r.Intn(2)
	}
	for i := 0; i < n; i++ {
		var b strings.Builder
		segs := 1 + r.Intn(3)
		for j := 0; j < segs; j++ {
			if j > 0 {
				b.WriteByte('.')
			}
			seg := genKeySeg(r)
			if literal {
				seg = strings.NewReplacer(".", "", "=", "", "[", "").Replace(seg)
				if seg == "" {
					seg = "k"
				}
			}
			b.WriteString(escapeSV(seg, literal))
			for r.Chance(20) {
				fmt.Fprintf(&b, "[%d]", Pick(r, []int{0, 1, 2, 3, 0, 1, -1, 65536, 65537}))
				if r.Chance(60) {
					break
				}
			}
		}
		b.WriteByte('=')
		if !literal && r.Chance(15) {
			b.WriteByte('{')
			k := r.Intn(4)
			for j := 0; j < k; j++ {
				if j > 0 {
					b.WriteByte(',')
				}
				b.WriteString(escapeSV(Pick(r, svValues), false))
			}
			if r.Chance(90) {
				b.WriteByte('}')
			}
		} else {
			b.WriteString(escapeSV(Pick(r, svValues), literal))
		}
		parts = append(parts, b.String())
	}
	if !literal && r.Chance(8) {
		// a value missing at the very end of the input, below a list index: the parser returns io.EOF
		// through listItem, whose error paths leave in-place writes to existing elements visible
		var b strings.Builder
		b.WriteString(Pick(r, []string{"a", "b", "c"}))
		fmt.Fprintf(&b, "[%d]", r.Intn(5))
		if r.Chance(35) {
			fmt.Fprintf(&b, "[%d]", r.Intn(3))
		}
		for j := 1 + r.Intn(2); j > 0; j-- {
			b.WriteString("." + Pick(r, []string{"a", "x", "k"}))
			if r.Chance(20) {
				fmt.Fprintf(&b, "[%d]", r.Intn(3))
			}
		}
		b.WriteByte('=')
		parts = append(parts, b.String())
	}
	return strings.Join(parts, ",")
}

func mutateSV(r *Rng, s string) string {
	b := []rune(s)
	n := 1 + r.Intn(3)
	for i := 0; i < n; i++ {
		p := r.Intn(len(b) + 1)
		switch r.Intn(3) {
		case 0:
			b = append(b[:p], append([]rune{Pick(r, svKeyChars)}, b[p:]...)...)
		case 1:
			if p < len(b) {
				b = append(b[:p], b[p+1:]...)
			}
		case 2:
			if p < len(b) {
				b[p] = Pick(r, svKeyChars)
			}
		}
	}
	return string(b)
}

func genDest(r *Rng) map[string]any {
	if r.Chance(40) {
		return map[string]any{}
	}
	d := genTree(r, 0, []string{"a", "b", "c", "ab"})
	if r.Chance(35) {
		d[Pick(r, []string{"a", "b", "c"})] = []any{"l0", map[string]any{"a": "in"}, []any{"n", map[string]any{"k": "v"}}, nil, []any{}}
	}
	return d
}

func parseReal(mode, s string, dest map[string]any, files map[string]string) (err error) {
	switch mode {
	case "typed":
		return strvals.ParseInto(s, dest)
	case "string":
		return strvals.ParseIntoString(s, dest)
	case "literal":
		return strvals.ParseLiteralInto(s, dest)
	default:
		return strvals.ParseIntoFile(s, dest, func(rs []rune) (any, error) {
			c, ok := files[string(rs)]
			if !ok {
				return nil, fmt.Errorf("no such file")
			}
			return c, nil
		})
	}
}

func corrStrvals(seed uint64, n int, tier string, out string, replay string) {
	m := StartModel()
	defer m.Close()
	rep := NewReport("C04", "strvals", seed, "case = (mode in typed/string/literal/file, set expression, destination map); expressions come from the documented grammar (escaped key segments over an alphabet containing every special rune, list indexes incl. -1/65536/65537, brace lists, typed literals) and, for a third of the cases, from rune-level mutation of such expressions; ParseInto/ParseIntoString/ParseLiteralInto/ParseIntoFile compared with the model (error class; data when ok); non-trivial = destination non-empty or expression has >1 segment; distinct = hash of the case")
	for i := 0; i < n; i++ {
		r := NewRng(seed, uint64(i))
		mode := Pick(r, []string{"typed", "typed", "string", "literal", "file"})
		s := genSetExpr(r, mode == "literal")
		if r.Chance(33) {
			s = mutateSV(r, s)
		}
		dest := genDest(r)
		strvalsCase(m, rep, mode, s, dest, seed, i)
	}
	// the statement of theorem set_roundtrip against the real parser: arbitrary segments and
	// values, rendered by the Lean `pathExpr`, must give the Lean `setPath` result
	for i := 0; i < n/3; i++ {
		r := NewRng(seed^0x5e7, uint64(i))
		mode := Pick(r, []string{"typed", "string"})
		nseg := 1 + r.Intn(4)
		if r.Chance(3) {
			nseg = 31
		}
		var ks []any
		for j := 0; j < nseg; j++ {
			ks = append(ks, genKeySeg(r))
		}
		v := Pick(r, svValues)
		if r.Chance(30) {
			v = genKeySeg(r) + genKeySeg(r)
		}
		dest := map[string]any{}
		if r.Chance(50) {
			// a destination compatible with the path: maps along a prefix, plus bystanders
			cur := dest
			for j := 0; j < r.Intn(nseg); j++ {
				nm := map[string]any{"bystander": float64(j)}
				cur[ks[j].(string)] = nm
				cur["other"+fmt.Sprint(j)] = "o"
				cur = nm
			}
		}
		pr := m.Query(map[string]any{"op": "pathExpr", "mode": mode, "ks": ks, "v": v, "dest": dest})
		expr, _ := pr["expr"].(string)
		d := deepCopyMap(dest)
		cs := map[string]any{"mode": mode, "ks": ks, "v": v, "dest": dest, "expr": expr}
		rep.Count(cs, nseg > 1)
		var err error
		if p := safely(func() { err = parseReal(mode, expr, d, nil) }); p != "" {
			rep.Issue(Issue{Kind: "monitor", Fingerprint: "C04:panic:strvals", What: p, Case: cs, Seed: seed, Index: i})
			continue
		}
		rep.H("roundtrip:" + mode)
		if err != nil || !jsonEqual(d, pr["expected"]) {
			rep.Issue(Issue{Kind: "monitor", Fingerprint: "C04:set-roundtrip", What: fmt.Sprintf("parsing the escaped rendering of (path, value) does not store the value at the path (err=%v)", err), Case: cs, Model: pr["expected"], Impl: d, Seed: seed, Index: i})
		}
	}
	// corpus of past/known interesting expressions
	for i, s := range []string{"a[0].b.=", "a.b", "a=", "a", "a,", "=x", ".a=1", "a..b=1", "a[", "a[x]=1", "a[0]", "a[0]x=1", "a[0][1]=x", "a[1].b=1,a[0]=z", "a={", "a={}", "a={},b=1", "a\\", "a=\\", "a=1,", "a.b.c.d.e.f.g.h.i.j.k.l.m.n.o.p.q.r.s.t.u.v.w.x.y.z.a.b.c.d=1", "a.b.c.d.e.f.g.h.i.j.k.l.m.n.o.p.q.r.s.t.u.v.w.x.y.z.a.b.c.d.e=1"} {
		for _, mode := range []string{"typed", "string", "literal"} {
			for _, dest := range []map[string]any{{}, {"a": "scalar"}, {"a": map[string]any{"b": map[string]any{"c": 1.0}}}, {"a": []any{"x", map[string]any{"b": "y"}}}} {
				strvalsCase(m, rep, mode, s, dest, seed, -1-i)
			}
		}
	}
	rep.Write(out, m)
}

func strvalsCase(m *Model, rep *Report, mode, s string, dest map[string]any, seed uint64, idx int) {
	files := map[string]string{}
	if mode == "file" {
		// every right-hand side names an existing file
		for _, v := range svValues {
			files[v] = "content-of(" + v + ")"
		}
	}
	cs := map[string]any{"mode": mode, "s": s, "dest": dest}
	rep.Count(cs, len(dest) > 0 || strings.Contains(s, "."))
	rep.Sample(cs)
	d := deepCopyMap(dest)
	var err error
	if p := safely(func() { err = parseReal(mode, s, d, files) }); p != "" {
		rep.Issue(Issue{Kind: "monitor", Fingerprint: "C20:panic:strvals", What: "strvals parser panicked: " + p, Case: cs, Seed: seed, Index: idx})
		rep.Issue(Issue{Kind: "monitor", Fingerprint: "C04:panic:strvals", What: "strvals parser panicked: " + p, Case: cs, Seed: seed, Index: idx})
		return
	}
	if mode == "file" && err != nil && strings.Contains(err.Error(), "no such file") {
		rep.H("file-missing-skipped")
		return
	}
	q := map[string]any{"op": "strvals", "mode": mode, "s": s, "dest": dest}
	if mode == "file" {
		fc := map[string]any{}
		for k, v := range files {
			fc[k] = v
		}
		q["fileContents"] = fc
	}
	want := m.Query(q)
	ie := "ok"
	if err != nil {
		ie = "err"
	}
	rep.H(mode + ":" + ie)
	if want["err"] != ie {
		rep.Issue(Issue{Kind: "disagreement", Fingerprint: "C04:strvals:errclass:" + mode, What: fmt.Sprintf("parser outcome %s, model %v (%v)", ie, want["err"], err), Case: cs, Model: want, Impl: d, Seed: seed, Index: idx})
		return
	}
	if err == nil && !jsonEqual(d, want["data"]) {
		rep.Issue(Issue{Kind: "disagreement", Fingerprint: "C04:strvals:data:" + mode, What: "parsed data differs from model", Case: cs, Model: want["data"], Impl: d, Seed: seed, Index: idx})
	}
}

// ---------- Options.MergeValues ----------

func valuesCaseFlags(m *Model, rep *Report, r *Rng, seed uint64, idx int, tmp string) {
	opts := values.Options{}
	q := map[string]any{"op": "mergeValues"}
	var files, jsons []any
	nf := r.Intn(4)
	for i := 0; i < nf; i++ {
		t := genTree(r, 0, valKeys)
		b, _ := json.Marshal(t)
		p := filepath.Join(tmp, fmt.Sprintf("v-%d-%d.yaml", idx, i))
		os.WriteFile(p, b, 0o644)
		opts.ValueFiles = append(opts.ValueFiles, p)
		files = append(files, t)
	}
	if nf >= 2 && r.Chance(30) {
		// a file named again later on the command line (-f base -f env -f base): it is merged again, last
		k := r.Intn(nf - 1)
		opts.ValueFiles = append(opts.ValueFiles, opts.ValueFiles[k])
		files = append(files, files[k])
		rep.H("flags:file-repeated")
	}
	if r.Chance(30) {
		t := genTree(r, 0, valKeys)
		b, _ := json.Marshal(t)
		opts.JSONValues = append(opts.JSONValues, " "+string(b))
		jsons = append(jsons, t)
	}
	simple := func() string {
		segs := 1 + r.Intn(3)
		var ks []string
		for j := 0; j < segs; j++ {
			ks = append(ks, Pick(r, valKeys))
		}
		return strings.Join(ks, ".")
	}
	var set, setString, setFile, setLiteral []any
	fc := map[string]any{}
	for i := r.Intn(3); i > 0; i-- {
		e := simple() + "=" + Pick(r, []string{"1", "true", "null", "x", "007", "{a,b}"})
		opts.Values = append(opts.Values, e)
		set = append(set, e)
	}
	for i := r.Intn(2); i > 0; i-- {
		e := simple() + "=" + Pick(r, []string{"1", "true", "null", "x"})
		opts.StringValues = append(opts.StringValues, e)
		setString = append(setString, e)
	}
	for i := r.Intn(2); i > 0; i-- {
		p := filepath.Join(tmp, fmt.Sprintf("f-%d-%d.txt", idx, i))
		content := fmt.Sprintf("file content %d", r.Intn(3))
		os.WriteFile(p, []byte(content), 0o644)
		e := simple() + "=" + p
		opts.FileValues = append(opts.FileValues, e)
		setFile = append(setFile, e)
		fc[p] = content
	}
	for i := r.Intn(2); i > 0; i-- {
		k := simple()
		if r.Chance(35) {
			// a list element: the literal changes that element (and what it must create to reach it), nothing else
			k += Pick(r, []string{"[0]", "[1]", "[2]", "[1].x", "[0][1]"})
		}
		e := k + "=" + Pick(r, []string{"lit,eral", "a=b", "null", "{x}"})
		opts.LiteralValues = append(opts.LiteralValues, e)
		setLiteral = append(setLiteral, e)
	}
	q["files"], q["json"], q["set"], q["setString"], q["setFile"], q["setLiteral"], q["fileContents"] = orEmpty(files), orEmpty(jsons), orEmpty(set), orEmpty(setString), orEmpty(setFile), orEmpty(setLiteral), fc
	cs := map[string]any{"files": files, "json": jsons, "set": set, "setString": setString, "setFile": setFile, "setLiteral": setLiteral}
	families := 0
	for _, x := range [][]any{files, jsons, set, setString, setFile, setLiteral} {
		if len(x) > 0 {
			families++
		}
	}
	rep.Count(cs, families >= 2)
	rep.Sample(cs)
	var got map[string]any
	var err error
	if p := safely(func() { got, err = opts.MergeValues(getter.Providers{}) }); p != "" {
		rep.Issue(Issue{Kind: "monitor", Fingerprint: "C20:panic:MergeValues", What: p, Case: cs, Seed: seed, Index: idx})
		return
	}
	want := m.Query(q)
	for _, f := range opts.ValueFiles {
		os.Remove(f)
	}
	if err != nil {
		rep.H("flags-error")
		if _, ok := want["err"]; !ok {
			rep.Issue(Issue{Kind: "disagreement", Fingerprint: "C04:mergeValues:error", What: "Options.MergeValues failed, model did not: " + err.Error(), Case: cs, Model: want, Seed: seed, Index: idx})
		}
		return
	}
	rep.H(fmt.Sprintf("flags-ok:families=%d", families))
	if w, ok := want["ok"]; !ok || !jsonEqual(got, w) {
		rep.Issue(Issue{Kind: "disagreement", Fingerprint: "C04:mergeValues", What: "Options.MergeValues differs from model (precedence of value flags)", Case: cs, Model: want, Impl: got, Seed: seed, Index: idx})
		return
	}
	// the command line: the same sources as flags of the real `helm template` (child process); what a template
	// sees as .Values must be what the library calls above give (the flag-to-option wiring of pkg/cmd)
	if idx%40 == 0 {
		valuesCLI(rep, &opts, jsons, files, got, cs, tmp, seed, idx)
	}
}

func valuesCLI(rep *Report, opts *values.Options, jsons, files []any, merged map[string]any, cs map[string]any, tmp string, seed uint64, idx int) {
	dir := filepath.Join(tmp, fmt.Sprintf("cli-%d", idx))
	chartDir := filepath.Join(dir, "probe")
	os.MkdirAll(filepath.Join(chartDir, "templates"), 0o755)
	defer os.RemoveAll(dir)
	os.WriteFile(filepath.Join(chartDir, "Chart.yaml"), []byte("apiVersion: v2\nname: probe\nversion: 0.1.0\n"), 0o644)
	os.WriteFile(filepath.Join(chartDir, "templates", "probe.yaml"), []byte("probe: |\n  {{ toJson .Values }}\n"), 0o644)
	args := []string{"template", "rel", chartDir}
	for i, f := range files { // the value files were removed after the library call: write them again
		b, _ := json.Marshal(f)
		p := filepath.Join(dir, fmt.Sprintf("v-%d.yaml", i))
		os.WriteFile(p, b, 0o644)
		args = append(args, "-f", p)
	}
	for _, j := range opts.JSONValues {
		args = append(args, "--set-json", j)
	}
	for _, e := range opts.Values {
		args = append(args, "--set", e)
	}
	for _, e := range opts.StringValues {
		args = append(args, "--set-string", e)
	}
	for _, e := range opts.FileValues {
		args = append(args, "--set-file", e)
	}
	for _, e := range opts.LiteralValues {
		args = append(args, "--set-literal", e)
	}
	// expected: the library path on the merged values
	ch := &chart.Chart{Metadata: &chart.Metadata{APIVersion: "v2", Name: "probe", Version: "0.1.0"}}
	rv, err := chartutil.ToRenderValues(ch, deepCopyMap(merged), chartutil.ReleaseOptions{Name: "rel", Namespace: "default"}, nil)
	if err != nil {
		rep.H("cli:skip")
		return
	}
	self, _ := os.Executable()
	ab, _ := json.Marshal(args)
	ctx, cancel := context.WithTimeout(context.Background(), 60*time.Second)
	defer cancel()
	cmd := exec.CommandContext(ctx, self, "helmcli")
	home := filepath.Join(dir, "home")
	os.MkdirAll(home, 0o755)
	cmd.Env = []string{"PATH=" + os.Getenv("PATH"), "HOME=" + home, "KUBECONFIG=" + filepath.Join(home, "none"), "HELM_NAMESPACE=default", "HELM_CACHE_HOME=" + filepath.Join(home, "cache"),
		"HELM_CONFIG_HOME=" + filepath.Join(home, "config"), "HELM_DATA_HOME=" + filepath.Join(home, "data"), "CORR_HELM_ARGS=" + string(ab), "CORR_HELM_STDOUT=1"}
	ob, _ := cmd.CombinedOutput()
	outp := string(ob)
	rep.H("cli:run")
	i := strings.Index(outp, "probe: |\n")
	if i < 0 {
		rep.Issue(Issue{Kind: "monitor", Fingerprint: "C04:cli:no-output", What: "helm template with the value flags printed no probe document: " + trunc(outp, 300), Case: cs, Impl: args, Seed: seed, Index: idx})
		return
	}
	line := strings.TrimSpace(strings.SplitN(outp[i+len("probe: |\n"):], "\n", 2)[0])
	var seen any
	if err := json.Unmarshal([]byte(line), &seen); err != nil {
		rep.Issue(Issue{Kind: "monitor", Fingerprint: "C04:cli:no-output", What: "probe line is not JSON: " + trunc(line, 200), Case: cs, Impl: args, Seed: seed, Index: idx})
		return
	}
	if !jsonEqual(seen, map[string]any(rv["Values"].(chartutil.Values))) {
		rep.Issue(Issue{Kind: "monitor", Fingerprint: "C04:cli:values-differ", What: "the values a template sees under `helm template` with these flags differ from Options.MergeValues + ToRenderValues on the same sources", Case: cs, Model: rv["Values"], Impl: seen, Seed: seed, Index: idx})
	}
}

func orEmpty(x []any) []any {
	if x == nil {
		return []any{}
	}
	return x
}
