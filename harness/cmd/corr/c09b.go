package main

import (
	"fmt"
	"os"
	"os/exec"
	"path/filepath"
	"strings"
	"sync"

	release "helm.sh/helm/v4/pkg/release/v1"
	"helm.sh/helm/v4/pkg/storage"
)

func init() { subs["storagerace"] = corrStorageRace }

// corrStorageRace drives one storage backend from several goroutines.  It finds nothing by itself:
// it is meant to be run from a binary built with -race, whose reports the runner collects.
// mode "own": every goroutine passes freshly built release objects and only reads what it gets back.
// mode "action": like the actions, a goroutine changes the status of the object it got and updates it.
func corrStorageRace(seed uint64, n int, tier string, out string, replay string) {
	rep := NewReport("C09", "storagerace", seed, "case = 6 goroutines x 40 calls (Create / Get / Update / Query / List / History / Deployed / Delete through pkg/storage) on one shared memory, Secret or ConfigMap backend; mode own = every goroutine passes fresh release objects and only reads results; mode action = results are modified and written back as the actions do; meaningful only under the Go race detector (the runner builds this harness with -race and collects the reports); non-trivial = always; distinct = backend x mode x seed")
	only := os.Getenv("VERIF_RACE_CASE") // backend:mode
	for i := 0; i < n; i++ {
		backend := []string{"memory", "secrets", "configmaps"}[i%3]
		mode := []string{"own", "action"}[(i/3)%2]
		if only != "" && only != backend+":"+mode {
			continue
		}
		st := storage.Init(newBackend(backend))
		var wg sync.WaitGroup
		for g := 0; g < 6; g++ {
			wg.Add(1)
			go func(g int) {
				defer wg.Done()
				r := NewRng(seed+uint64(i), uint64(g))
				for k := 0; k < 40; k++ {
					name := Pick(r, []string{"a", "b"})
					ver := 1 + r.Intn(4)
					mk := func(s release.Status) *release.Release {
						return &release.Release{Name: name, Namespace: "default", Version: ver, Info: &release.Info{Status: s}}
					}
					safely(func() {
						switch r.Intn(8) {
						case 0, 1:
							st.Create(mk(release.StatusPendingUpgrade))
						case 2:
							if mode == "action" {
								if rel, err := st.Get(name, ver); err == nil {
									rel.Info.Status = release.StatusDeployed
									st.Update(rel)
								}
							} else {
								st.Update(mk(release.StatusDeployed))
							}
						case 3:
							if rel, err := st.Get(name, ver); err == nil {
								_ = rel.Info.Status
							}
						case 4:
							if rs, err := st.History(name); err == nil {
								for _, x := range rs {
									_ = x.Info.Status
								}
							}
						case 5:
							st.Deployed(name)
						case 6:
							st.ListReleases()
						case 7:
							st.Delete(name, ver)
						}
					})
				}
			}(g)
		}
		wg.Wait()
		rep.Count(fmt.Sprintf("%s/%s/%d", backend, mode, i), true)
		rep.H(backend + ":" + mode)
	}
	rep.Write(out, nil)
}

func init() { subs["racecheck"] = corrRaceCheck }

// corrRaceCheck runs the storagerace sub-command of the race-detector build (../.build/corr-race,
// built by the runner) once per backend and mode and turns the detector's
// reports into issues.  Without that binary it records that the detector was not run.
func corrRaceCheck(seed uint64, n int, tier string, out string, replay string) {
	rep := NewReport("C09", "racecheck", seed, "case = one run of the storagerace workload (6 goroutines x 40 storage calls x n rounds) under the Go race detector per backend (memory, secrets, configmaps) and mode (own objects / modify-and-write-back as the actions do); every detector report is an issue; this is testing, not proof; non-trivial = the detector ran; distinct = backend x mode")
	bin, _ := filepath.Abs("../.build/corr-race")
	if _, err := os.Stat(bin); err != nil {
		rep.H("race-detector-not-run")
		rep.Write(out, nil)
		return
	}
	tmp, _ := os.MkdirTemp("", "corr-race")
	defer os.RemoveAll(tmp)
	for _, backend := range []string{"memory", "secrets", "configmaps"} {
		for _, mode := range []string{"own", "action"} {
			logp := filepath.Join(tmp, backend+"-"+mode)
			cmd := exec.Command(bin, "storagerace", "-n", fmt.Sprint(6*n), "-seed", fmt.Sprint(seed), "-out", filepath.Join(tmp, "r.json"))
			cmd.Env = append(os.Environ(), "VERIF_RACE_CASE="+backend+":"+mode, "GORACE=log_path="+logp+" halt_on_error=0")
			cmd.Run()
			races := 0
			first := ""
			matches, _ := filepath.Glob(logp + ".*")
			for _, f := range matches {
				b, _ := os.ReadFile(f)
				races += strings.Count(string(b), "WARNING: DATA RACE")
				if first == "" && races > 0 {
					first = trunc(string(b), 1500)
				}
			}
			rep.Count(backend+":"+mode, true)
			rep.H(fmt.Sprintf("%s:%s:races=%v", backend, mode, races > 0))
			if races > 0 {
				rep.Issue(Issue{Kind: "monitor", Fingerprint: "C09:race:" + backend + ":" + mode, What: fmt.Sprintf("the race detector reported %d data race(s) on the %s backend (%s mode)", races, backend, mode), Case: map[string]any{"backend": backend, "mode": mode}, Impl: first, Seed: seed})
			}
		}
	}
	rep.Write(out, nil)
}
