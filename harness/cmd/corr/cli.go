package main

import (
	"bytes"
	"context"
	"encoding/json"
	"fmt"
	"io"
	"net/http"
	"net/http/httptest"
	"os"
	"os/exec"
	"path/filepath"
	"sort"
	"strings"
	"sync"
	"time"

	openapi_v2 "github.com/google/gnostic-models/openapiv2"
	"google.golang.org/protobuf/proto"
	"k8s.io/client-go/kubernetes/scheme"
)

// flagcli / templatecli: the command-line wiring of the flags.  The real helm commands (pkg/cmd, as cmd/helm runs
// them) are executed in a child process each against a *stateful* simulated API server reached through
// HELM_KUBEAPISERVER: the object store of simapi.go behind an HTTP listener, with discovery and label-selected
// lists added, which also holds the release storage (Secrets).
//
// flagcli: `helm install NAME CHART F` (with --replace when the name has a kept, uninstalled history) and
// `helm upgrade --install NAME CHART F` are the same operation; for every flag set F of a table (atomic + one
// rejected create, schema-violating values, dry-run spellings, --no-hooks, --labels, --take-ownership over a
// foreign object, --skip-schema-validation, plain) both are run from the same starting state and must end in the
// same state (release records with status, objects) with the same outcome; and the end state is compared with
// what the property demands for that flag set.
func init() {
	subs["flagcli"] = corrFlagCLI
	subs["templatecli"] = corrTemplateCLI
}

// cliWorld: simAPI as an HTTP server.
type cliWorld struct {
	api    *simAPI
	frozen bool
	srv    *httptest.Server
}

func newCLIWorld() *cliWorld {
	w := &cliWorld{}
	w.api = newSimAPI(&w.frozen)
	w.srv = httptest.NewServer(http.HandlerFunc(w.serve))
	return w
}

func selectorMatches(sel string, labels map[string]any) (bool, bool) {
	if sel == "" {
		return true, true
	}
	for _, term := range strings.Split(sel, ",") {
		term = strings.TrimSpace(term)
		switch {
		case strings.Contains(term, "!="):
			kv := strings.SplitN(term, "!=", 2)
			if fmt.Sprint(labels[kv[0]]) == kv[1] {
				return false, true
			}
		case strings.Contains(term, "=="):
			kv := strings.SplitN(term, "==", 2)
			if v, ok := labels[kv[0]]; !ok || fmt.Sprint(v) != kv[1] {
				return false, true
			}
		case strings.Contains(term, "=") && !strings.Contains(term, " "):
			kv := strings.SplitN(term, "=", 2)
			if v, ok := labels[kv[0]]; !ok || fmt.Sprint(v) != kv[1] {
				return false, true
			}
		default:
			return false, false // a selector form this server does not implement
		}
	}
	return true, true
}

var listKinds = map[string]string{"secrets": "SecretList", "configmaps": "ConfigMapList", "namespaces": "NamespaceList"}

func (w *cliWorld) serve(rw http.ResponseWriter, r *http.Request) {
	p := r.URL.Path
	rw.Header().Set("Content-Type", "application/json")
	switch {
	case r.Method == "GET" && p == "/version":
		fmt.Fprint(rw, `{"major":"1","minor":"32","gitVersion":"v1.32.0"}`)
		return
	case r.Method == "GET" && p == "/api":
		fmt.Fprint(rw, `{"kind":"APIVersions","versions":["v1"]}`)
		return
	case r.Method == "GET" && p == "/apis":
		fmt.Fprint(rw, `{"kind":"APIGroupList","apiVersion":"v1","groups":[]}`)
		return
	case r.Method == "GET" && p == "/api/v1":
		fmt.Fprint(rw, `{"kind":"APIResourceList","groupVersion":"v1","resources":[{"name":"configmaps","singularName":"configmap","namespaced":true,"kind":"ConfigMap","verbs":["create","delete","get","list","patch","update","watch"]},{"name":"secrets","singularName":"secret","namespaced":true,"kind":"Secret","verbs":["create","delete","get","list","patch","update","watch"]},{"name":"namespaces","singularName":"namespace","namespaced":false,"kind":"Namespace","verbs":["create","delete","get","list","patch","update","watch"]}]}`)
		return
	}
	if r.Method == "GET" && p == "/openapi/v2" {
		// an OpenAPI document without definitions: the client-side validation finds no schema for any kind and
		// lets the object through (hooks are validated whatever --disable-openapi-validation says)
		doc, err := openapi_v2.ParseDocument([]byte(`{"swagger":"2.0","info":{"title":"sim","version":"v1"},"paths":{}}`))
		if err == nil {
			if pb, err := proto.Marshal(doc); err == nil {
				rw.Header().Set("Content-Type", "application/octet-stream")
				rw.Write(pb)
				return
			}
		}
		rw.WriteHeader(500)
		return
	}
	segs := strings.Split(strings.Trim(p, "/"), "/")
	// api/v1/namespaces/<ns>/<resource> : a collection
	if r.Method == "GET" && len(segs) == 5 && segs[0] == "api" && segs[2] == "namespaces" {
		kind, ok := listKinds[segs[4]]
		if !ok {
			rw.WriteHeader(404)
			fmt.Fprint(rw, `{"kind":"Status","apiVersion":"v1","status":"Failure","reason":"NotFound","code":404}`)
			return
		}
		prefix := strings.Trim(p, "/") + "/"
		w.api.mu.Lock()
		w.api.log = append(w.api.log, simReq{Method: "GET", Path: strings.Trim(p, "/")})
		var keys []string
		for k := range w.api.objs {
			if strings.HasPrefix(k, prefix) {
				keys = append(keys, k)
			}
		}
		sort.Strings(keys)
		items := []any{}
		bad := false
		for _, k := range keys {
			o := w.api.objs[k]
			md, _ := o["metadata"].(map[string]any)
			lb, _ := md["labels"].(map[string]any)
			m, understood := selectorMatches(r.URL.Query().Get("labelSelector"), lb)
			if !understood {
				bad = true
			}
			if m {
				items = append(items, o)
			}
		}
		w.api.mu.Unlock()
		if bad {
			rw.WriteHeader(400)
			fmt.Fprint(rw, `{"kind":"Status","apiVersion":"v1","status":"Failure","reason":"BadRequest","code":400,"message":"selector form not implemented by the simulated server"}`)
			return
		}
		json.NewEncoder(rw).Encode(map[string]any{"kind": kind, "apiVersion": "v1", "metadata": map[string]any{}, "items": items})
		return
	}
	if strings.Contains(r.Header.Get("Content-Type"), "protobuf") && r.Body != nil {
		// the typed clients (release records) speak protobuf: store the JSON form
		var raw bytes.Buffer
		raw.ReadFrom(r.Body)
		obj, gvk, err := scheme.Codecs.UniversalDeserializer().Decode(raw.Bytes(), nil, nil)
		if err != nil {
			rw.WriteHeader(400)
			fmt.Fprintf(rw, `{"kind":"Status","apiVersion":"v1","status":"Failure","reason":"BadRequest","code":400,"message":%q}`, err.Error())
			return
		}
		jb, _ := json.Marshal(obj)
		var m map[string]any
		json.Unmarshal(jb, &m)
		if gvk != nil && m != nil {
			m["kind"], m["apiVersion"] = gvk.Kind, gvk.GroupVersion().String()
			jb, _ = json.Marshal(m)
		}
		r.Body = io.NopCloser(bytes.NewReader(jb))
		r.Header.Set("Content-Type", "application/json")
	}
	resp, err := w.api.rt(r)
	if err != nil {
		rw.WriteHeader(503)
		return
	}
	defer resp.Body.Close()
	rw.WriteHeader(resp.StatusCode)
	var b bytes.Buffer
	b.ReadFrom(resp.Body)
	rw.Write(b.Bytes())
}

// state: release records (name.vN=status + user labels) and the other objects with their data.
func (w *cliWorld) state() []string {
	w.api.mu.Lock()
	defer w.api.mu.Unlock()
	var out []string
	for k, o := range w.api.objs {
		md, _ := o["metadata"].(map[string]any)
		lb, _ := md["labels"].(map[string]any)
		name := fmt.Sprint(md["name"])
		if strings.HasPrefix(name, "sh.helm.release.v1.") {
			s := "record " + strings.TrimPrefix(name, "sh.helm.release.v1.") + "=" + fmt.Sprint(lb["status"])
			var user []string
			for lk, lv := range lb {
				switch lk {
				case "name", "owner", "status", "version", "modifiedAt", "createdAt":
				default:
					user = append(user, lk+"="+fmt.Sprint(lv))
				}
			}
			sort.Strings(user)
			if len(user) > 0 {
				s += " labels " + strings.Join(user, ",")
			}
			out = append(out, s)
			continue
		}
		d, _ := json.Marshal(o["data"])
		owner := "foreign"
		if lb["app.kubernetes.io/managed-by"] == "Helm" {
			owner = "helm"
		}
		out = append(out, "object "+k[strings.Index(k, "namespaces/"):]+" data="+string(d)+" "+owner)
	}
	sort.Strings(out)
	return out
}

func (w *cliWorld) close() { w.srv.Close() }

// helmCLI runs one helm command line in a child process against the world (or against no cluster when w is nil).
func helmCLI(w *cliWorld, home string, args []string, stdout bool) (outp string, returned bool, failed bool) {
	self, _ := os.Executable()
	os.MkdirAll(home, 0o755)
	ab, _ := json.Marshal(args)
	ctx, cancel := context.WithTimeout(context.Background(), 90*time.Second)
	defer cancel()
	cmd := exec.CommandContext(ctx, self, "helmcli")
	cmd.Env = []string{"PATH=" + os.Getenv("PATH"), "HOME=" + home, "KUBECONFIG=" + filepath.Join(home, "no-kubeconfig"), "HELM_NAMESPACE=default",
		"HELM_CACHE_HOME=" + filepath.Join(home, "cache"), "HELM_CONFIG_HOME=" + filepath.Join(home, "config"), "HELM_DATA_HOME=" + filepath.Join(home, "data"), "CORR_HELM_ARGS=" + string(ab)}
	if w != nil {
		cmd.Env = append(cmd.Env, "HELM_KUBEAPISERVER="+w.srv.URL)
	}
	if stdout {
		cmd.Env = append(cmd.Env, "CORR_HELM_STDOUT=1")
	}
	ob, _ := cmd.CombinedOutput()
	outp = string(ob)
	return outp, strings.Contains(outp, "HELMCLI done"), strings.Contains(outp, "HELMCLI done err=true")
}

func writeTree(root string, files map[string]string) {
	for p, c := range files {
		os.MkdirAll(filepath.Dir(filepath.Join(root, p)), 0o755)
		os.WriteFile(filepath.Join(root, p), []byte(c), 0o644)
	}
}

func cliCM(name, extra string) string {
	return "apiVersion: v1\nkind: ConfigMap\nmetadata:\n  name: {{ .Release.Name }}-" + name + "\n" + extra + "data:\n  replicas: {{ .Values.replicas | quote }}\n"
}

type flagCase struct {
	Name        string   `json:"name"`
	Flags       []string `json:"flags"`
	Reject      string   `json:"reject,omitempty"`      // substring of "METHOD path/name" the server answers with 500
	Foreign     bool     `json:"foreign,omitempty"`     // an object of the manifest's name exists and belongs to nobody
	ForeignName string   `json:"foreignName,omitempty"` // which one (default rel-aa)
	AnyOutcome  bool     `json:"anyOutcome,omitempty"`  // the command may refuse the spelling or accept it: only the end state is judged
	// expectations on the end state (over and above install == upgrade --install)
	WantErr     bool              `json:"wantErr"`
	Unchanged   bool              `json:"unchanged,omitempty"`   // the world is as it was before the command
	Nothing     bool              `json:"nothing,omitempty"`     // no record of the release and none of its objects
	WantObjects []string          `json:"wantObjects,omitempty"` // suffixes of objects that must exist
	NoObjects   []string          `json:"noObjects,omitempty"`   // suffixes of objects that must not exist
	WantRecords []string          `json:"wantRecords,omitempty"` // the release records at the end, exactly
	WantData    map[string]string `json:"wantData,omitempty"`    // object suffix -> its data at the end
	Prop        string            `json:"prop"`
}

func corrFlagCLI(seed uint64, n int, tier string, out string, replay string) {
	prop := os.Getenv("VERIF_PROP")
	if prop == "" {
		prop = "C03"
	}
	rep := NewReport(prop, "flagcli", seed, "case = a flag set of a table (atomic + one rejected create; schema-violating --set; --skip-schema-validation; --dry-run bare/=client/=server and in mixed-case spellings (refused or honoured, never executed); --no-hooks; --labels; --take-ownership over a foreign object; plain) x a starting history (none; installed then uninstalled with --keep-history) x the two spellings of the operation (`helm install [--replace]`, `helm upgrade --install`), each run as the real helm command in a child process against a stateful simulated API server that also holds the release records (Secrets); monitors: both spellings end in the same state with the same outcome, and the end state is the one the property demands (atomic failure: no record and no object of the manifest (hook objects stay, by their delete policy); schema violation: error and nothing created; dry run: world unchanged; no-hooks: hook object absent; ...); non-trivial = every case; distinct = flag set x history x spelling")
	tmp, _ := os.MkdirTemp("", "corr-flagcli")
	defer os.RemoveAll(tmp)
	chartDir := filepath.Join(tmp, "demo")
	writeTree(chartDir, map[string]string{
		"Chart.yaml":          "apiVersion: v2\nname: demo\nversion: 0.1.0\n",
		"values.yaml":         "replicas: 1\n",
		"values.schema.json":  `{"$schema":"http://json-schema.org/draft-07/schema#","type":"object","properties":{"replicas":{"type":"integer","minimum":0}}}`,
		"templates/aa.yaml":   cliCM("aa", ""),
		"templates/zz.yaml":   cliCM("zz", ""),
		"templates/hook.yaml": cliCM("hook", "  annotations:\n    \"helm.sh/hook\": pre-install\n"),
	})
	chart2 := filepath.Join(tmp, "v2", "demo")
	writeTree(chart2, map[string]string{
		"Chart.yaml":         "apiVersion: v2\nname: demo\nversion: 0.2.0\n",
		"values.yaml":        "replicas: 2\n",
		"values.schema.json": `{"$schema":"http://json-schema.org/draft-07/schema#","type":"object","properties":{"replicas":{"type":"integer","minimum":0}}}`,
		"templates/aa.yaml":  cliCM("aa", ""),
		"templates/new.yaml": cliCM("new", ""),
		"templates/zz.yaml":  cliCM("zz", ""),
	})
	base := []string{"--disable-openapi-validation", "--wait=legacy", "--timeout=20s"}
	cases := []flagCase{
		{Name: "plain", Prop: "C03", WantObjects: []string{"rel-aa", "rel-zz", "rel-hook"}},
		{Name: "atomic-create-rejected", Flags: []string{"--atomic"}, Reject: "POST api/v1/namespaces/default/configmaps/rel-zz", WantErr: true, Nothing: true, Prop: "C03"},
		{Name: "atomic-hook-rejected", Flags: []string{"--atomic"}, Reject: "POST api/v1/namespaces/default/configmaps/rel-hook", WantErr: true, Nothing: true, Prop: "C03"},
		{Name: "create-rejected", Reject: "POST api/v1/namespaces/default/configmaps/rel-zz", WantErr: true, Prop: "C03"},
		{Name: "schema-violated", Flags: []string{"--set", "replicas=-3"}, WantErr: true, NoObjects: []string{"rel-aa", "rel-zz", "rel-hook"}, Prop: "C14"},
		{Name: "schema-violated-type", Flags: []string{"--set-string", "replicas=many", "--atomic"}, WantErr: true, NoObjects: []string{"rel-aa", "rel-zz", "rel-hook"}, Prop: "C14"},
		{Name: "schema-skipped", Flags: []string{"--set", "replicas=-3", "--skip-schema-validation"}, WantObjects: []string{"rel-aa", "rel-zz"}, Prop: "C14"},
		{Name: "dry-run", Flags: []string{"--dry-run"}, Unchanged: true, Prop: "C06"},
		{Name: "dry-run-client", Flags: []string{"--dry-run=client"}, Unchanged: true, Prop: "C06"},
		{Name: "dry-run-server", Flags: []string{"--dry-run=server"}, Unchanged: true, Prop: "C06"},
		{Name: "dry-run-atomic", Flags: []string{"--dry-run", "--atomic"}, Unchanged: true, Prop: "C06"},
		{Name: "dry-run-True", Flags: []string{"--dry-run=True"}, Unchanged: true, AnyOutcome: true, Prop: "C06"},
		{Name: "dry-run-Server", Flags: []string{"--dry-run=Server", "--create-namespace"}, Unchanged: true, AnyOutcome: true, Prop: "C06"},
		{Name: "dry-run-CLIENT", Flags: []string{"--dry-run=CLIENT"}, Unchanged: true, AnyOutcome: true, Prop: "C06"},
		{Name: "no-hooks", Flags: []string{"--no-hooks"}, WantObjects: []string{"rel-aa", "rel-zz"}, NoObjects: []string{"rel-hook"}, Prop: "C12"},
		{Name: "labels", Flags: []string{"--labels", "team=x"}, WantObjects: []string{"rel-aa"}, Prop: "C10"},
		{Name: "foreign-object", Foreign: true, WantErr: true, Prop: "C07"},
		{Name: "foreign-object-take-ownership", Foreign: true, Flags: []string{"--take-ownership"}, WantObjects: []string{"rel-aa", "rel-zz"}, Prop: "C07"},
	}
	type run struct {
		c       flagCase
		hist    string
		spell   string
		outp    string
		before  []string
		after   []string
		ret     bool
		failed  bool
		prepErr string
	}
	var runs []*run
	for _, c := range cases {
		for _, h := range []string{"none", "uninstalled"} {
			for _, sp := range []string{"install", "upgrade-install"} {
				runs = append(runs, &run{c: c, hist: h, spell: sp})
			}
		}
	}
	// upgrades of an installed release (one spelling: `helm upgrade`), in pairs without / with --wait-for-jobs
	upCases := []flagCase{
		{Name: "upgrade-plain", Prop: "C03", WantObjects: []string{"rel-aa", "rel-zz", "rel-new"}, WantRecords: []string{"rel.v1=superseded", "rel.v2=deployed"}},
		{Name: "upgrade-create-rejected", Reject: "POST api/v1/namespaces/default/configmaps/rel-new", WantErr: true, Prop: "C03", WantRecords: []string{"rel.v1=deployed", "rel.v2=failed"}},
		{Name: "upgrade-atomic-create-rejected", Flags: []string{"--atomic"}, Reject: "POST api/v1/namespaces/default/configmaps/rel-new", WantErr: true, Prop: "C03", NoObjects: []string{"rel-new"},
			WantRecords: []string{"rel.v1=superseded", "rel.v2=failed", "rel.v3=deployed"}, WantData: map[string]string{"rel-aa": `{"replicas":"1"}`, "rel-zz": `{"replicas":"1"}`}},
		{Name: "upgrade-atomic-patch-rejected", Flags: []string{"--atomic"}, Reject: "PATCH api/v1/namespaces/default/configmaps/rel-zz", WantErr: true, Prop: "C03",
			WantRecords: []string{"rel.v1=superseded", "rel.v2=failed", "rel.v3=deployed"}, WantData: map[string]string{"rel-aa": `{"replicas":"1"}`}},
		{Name: "upgrade-schema-violated", Flags: []string{"--set", "replicas=-3"}, WantErr: true, Unchanged: true, Prop: "C14"},
		{Name: "upgrade-dry-run", Flags: []string{"--dry-run"}, Unchanged: true, Prop: "C06"},
		{Name: "upgrade-dry-run-True", Flags: []string{"--dry-run=True"}, Unchanged: true, AnyOutcome: true, Prop: "C06"},
		{Name: "upgrade-dry-run-Server", Flags: []string{"--dry-run=Server"}, Unchanged: true, AnyOutcome: true, Prop: "C06"},
		{Name: "upgrade-foreign-new-object", Foreign: true, ForeignName: "rel-new", WantErr: true, Unchanged: true, Prop: "C03"},
		{Name: "upgrade-foreign-new-object-atomic", Foreign: true, ForeignName: "rel-new", Flags: []string{"--atomic", "--cleanup-on-fail"}, WantErr: true, Unchanged: true, Prop: "C03"},
		{Name: "upgrade-dry-run-server-atomic", Flags: []string{"--dry-run=server", "--atomic"}, Unchanged: true, Prop: "C06"},
	}
	nPairs := len(runs)
	for _, c := range upCases {
		for _, sp := range []string{"upgrade", "upgrade-wait-for-jobs"} {
			runs = append(runs, &run{c: c, hist: "installed", spell: sp})
		}
	}
	var wg sync.WaitGroup
	sem := make(chan struct{}, 8)
	for i, ru := range runs {
		wg.Add(1)
		go func(i int, ru *run) {
			defer wg.Done()
			sem <- struct{}{}
			defer func() { <-sem }()
			w := newCLIWorld()
			defer w.close()
			home := filepath.Join(tmp, fmt.Sprintf("home-%d", i))
			if ru.hist == "uninstalled" {
				o1, r1, f1 := helmCLI(w, home, append([]string{"install", "rel", chartDir}, base...), false)
				o2, r2, f2 := helmCLI(w, home, []string{"uninstall", "rel", "--keep-history", "--wait=legacy", "--timeout=20s"}, false)
				if !r1 || f1 || !r2 || f2 {
					ru.prepErr = trunc(o1+" | "+o2, 400)
					return
				}
			}
			if ru.hist == "installed" {
				if o1, r1, f1 := helmCLI(w, home, append([]string{"install", "rel", chartDir}, base...), false); !r1 || f1 {
					ru.prepErr = trunc(o1, 400)
					return
				}
			}
			if ru.c.Foreign {
				w.api.mu.Lock()
				fn := ru.c.ForeignName
				if fn == "" {
					fn = "rel-aa"
				}
				w.api.objs["api/v1/namespaces/default/configmaps/"+fn] = map[string]any{"apiVersion": "v1", "kind": "ConfigMap", "metadata": map[string]any{"name": fn, "namespace": "default"}, "data": map[string]any{"theirs": "1"}}
				w.api.mu.Unlock()
			}
			ru.before = w.state()
			if ru.c.Reject != "" {
				w.api.mu.Lock()
				w.api.reject[ru.c.Reject] = true
				w.api.mu.Unlock()
			}
			var args []string
			if ru.hist == "installed" {
				args = []string{"upgrade", "rel", chart2, "--disable-openapi-validation", "--timeout=20s", "--wait=legacy"}
				if ru.spell != "upgrade" {
					args = append(args, "--wait-for-jobs")
				}
				args = append(args, ru.c.Flags...)
				// the rejection is lifted once it has been hit: the repair (rollback) is not what is being failed
				ru.outp, ru.ret, ru.failed = helmCLI(w, home, args, false)
				ru.after = w.state()
				return
			}
			if ru.spell == "install" {
				args = []string{"install", "rel", chartDir}
				if ru.hist == "uninstalled" {
					args = append(args, "--replace")
				}
			} else {
				args = []string{"upgrade", "rel", chartDir, "--install"}
			}
			args = append(append(args, base...), ru.c.Flags...)
			ru.outp, ru.ret, ru.failed = helmCLI(w, home, args, false)
			ru.after = w.state()
		}(i, ru)
	}
	wg.Wait()
	has := func(st []string, suffix string) bool {
		for _, s := range st {
			if strings.HasPrefix(s, "object ") && strings.Contains(s, "/"+suffix+" ") {
				return true
			}
		}
		return false
	}
	for i := 0; i < len(runs); i += 2 {
		a, b := runs[i], runs[i+1]
		for k, ru := range []*run{a, b} {
			cs := map[string]any{"case": ru.c.Name, "flags": ru.c.Flags, "history": ru.hist, "spelling": ru.spell}
			rep.Count(cs, true)
			if i < 2 {
				rep.Sample(cs)
			}
			fp := func(what string) string { return ru.c.Prop + ":cli:" + what + ":" + ru.spell }
			if ru.prepErr != "" {
				rep.Issue(Issue{Kind: "monitor", Fingerprint: "C03:cli:prepare", What: "preparing the history failed: " + ru.prepErr, Case: cs, Seed: seed, Index: i + k})
				continue
			}
			if !ru.ret {
				rep.H("child:no-result")
				rep.Issue(Issue{Kind: "monitor", Fingerprint: "C20:panic:cli:" + ru.spell, What: "the helm command did not return: " + trunc(ru.outp, 300), Case: cs, Seed: seed, Index: i + k})
				continue
			}
			rep.H(fmt.Sprintf("%s:%s:err=%v", ru.c.Name, ru.spell, ru.failed))
			if ru.failed != ru.c.WantErr && !ru.c.AnyOutcome {
				rep.Issue(Issue{Kind: "monitor", Fingerprint: fp(ru.c.Name + ":outcome"), What: fmt.Sprintf("`%s` with %v on history %s: failed=%v, the property demands failed=%v", ru.spell, ru.c.Flags, ru.hist, ru.failed, ru.c.WantErr), Case: cs, Impl: ru.after, Seed: seed, Index: i + k})
			}
			if ru.c.Unchanged && !jsonEqual(ru.before, ru.after) {
				rep.Issue(Issue{Kind: "monitor", Fingerprint: fp(ru.c.Name + ":changed"), What: "a dry run changed the world (records or objects)", Case: cs, Model: ru.before, Impl: ru.after, Seed: seed, Index: i + k})
			}
			// hook objects are not part of the manifest: an uninstall leaves them to their delete policy
			var left []string
			for _, s := range ru.after {
				if !strings.Contains(s, "/rel-hook ") {
					left = append(left, s)
				}
			}
			if ru.c.Nothing && len(left) > 0 {
				rep.Issue(Issue{Kind: "monitor", Fingerprint: fp(ru.c.Name + ":left-behind"), What: "a failed atomic install left records or objects behind: " + trunc(ru.outp, 500), Case: cs, Impl: ru.after, Seed: seed, Index: i + k})
			}
			if ru.c.WantRecords != nil {
				var recs []string
				for _, s := range ru.after {
					if strings.HasPrefix(s, "record ") {
						recs = append(recs, strings.TrimPrefix(s, "record "))
					}
				}
				if !jsonEqual(recs, ru.c.WantRecords) {
					rep.Issue(Issue{Kind: "monitor", Fingerprint: fp(ru.c.Name + ":records"), What: "the release records at the end are not the ones the property demands: " + trunc(ru.outp, 400), Case: cs, Model: ru.c.WantRecords, Impl: recs, Seed: seed, Index: i + k})
				}
			}
			for o, d := range ru.c.WantData {
				found := false
				for _, s := range ru.after {
					if strings.HasPrefix(s, "object ") && strings.Contains(s, "/"+o+" data="+d+" ") {
						found = true
					}
				}
				if !found {
					rep.Issue(Issue{Kind: "monitor", Fingerprint: fp(ru.c.Name + ":data"), What: "object " + o + " does not carry the data of the revision that is recorded as deployed (" + d + ")", Case: cs, Impl: ru.after, Seed: seed, Index: i + k})
				}
			}
			for _, o := range ru.c.WantObjects {
				if !has(ru.after, o) {
					rep.Issue(Issue{Kind: "monitor", Fingerprint: fp(ru.c.Name + ":missing-object"), What: "object " + o + " of the manifest is not in the cluster after a successful command", Case: cs, Impl: ru.after, Seed: seed, Index: i + k})
				}
			}
			for _, o := range ru.c.NoObjects {
				if has(ru.after, o) && !has(ru.before, o) {
					rep.Issue(Issue{Kind: "monitor", Fingerprint: fp(ru.c.Name + ":unwanted-object"), What: "object " + o + " was created although the flag set forbids it", Case: cs, Impl: ru.after, Seed: seed, Index: i + k})
				}
			}
		}
		_ = nPairs
		if a.prepErr == "" && b.prepErr == "" && a.ret && b.ret && (a.failed != b.failed || !jsonEqual(a.after, b.after)) {
			cs := map[string]any{"case": a.c.Name, "flags": a.c.Flags, "history": a.hist}
			rep.Issue(Issue{Kind: "monitor", Fingerprint: a.c.Prop + ":cli:" + a.c.Name + ":spellings-differ", What: fmt.Sprintf("`helm install` and `helm upgrade --install` with %v on history %s end differently (failed %v / %v)", a.c.Flags, a.hist, a.failed, b.failed), Case: cs, Model: a.after, Impl: b.after, Seed: seed, Index: i})
		}
		rep.Traces++
	}
	rep.Write(out, nil)
}

// templatecli: `helm template` flag combinations over a chart with everything in it (multi-document CRD files,
// one starting with a separator; hooks; tests; a sub-chart; NOTES).  The command returns (no panic, no fatal
// error), succeeds exactly when every --show-only pattern names a rendered template, and what it prints under
// --show-only is a subset of what it prints without.
func corrTemplateCLI(seed uint64, n int, tier string, out string, replay string) {
	rep := NewReport("C20", "templatecli", seed, "case = `helm template` (the real command in a child process, no cluster) with a subset of --include-crds, --skip-tests, --no-hooks, --is-upgrade, --skip-crds, --kube-version, --api-versions, --release-name/--output-dir and 0-2 --show-only patterns (existing template, glob, hook file, test file, sub-chart template, missing file, a crds/ file) over a chart with multi-document CRD files (one starting with `---`), hooks, tests, a sub-chart and NOTES; monitors: the command returns (a panic or fatal error kills the child), it fails exactly when a --show-only pattern matches nothing, every document printed under --show-only is printed without it, and (without --show-only) the files written with --output-dir hold exactly the documents printed to stdout; non-trivial = at least two flags; distinct = the argument list")
	tmp, _ := os.MkdirTemp("", "corr-templatecli")
	defer os.RemoveAll(tmp)
	chartDir := filepath.Join(tmp, "demo")
	crd := func(n string) string {
		return "apiVersion: apiextensions.k8s.io/v1\nkind: CustomResourceDefinition\nmetadata:\n  name: " + n + ".example.com\nspec:\n  group: example.com\n  names:\n    kind: " + strings.Title(n) + "\n    plural: " + n + "\n  scope: Namespaced\n  versions:\n  - name: v1\n    served: true\n    storage: true\n"
	}
	writeTree(chartDir, map[string]string{
		"Chart.yaml":                   "apiVersion: v2\nname: demo\nversion: 0.1.0\ndependencies:\n- name: sub\n  version: 0.1.0\n",
		"values.yaml":                  "replicas: 1\n",
		"crds/first.yaml":              "---\n" + crd("foos") + "---\n" + crd("bars"),
		"crds/second.yaml":             crd("bazs"),
		"templates/cm.yaml":            cliCM("cm", ""),
		"templates/many.yaml":          cliCM("m1", "") + "---\n" + cliCM("m2", ""),
		"templates/mixed.yaml":         cliCM("plain", "") + "---\n" + cliCM("mixedhook", "  annotations:\n    \"helm.sh/hook\": post-install\n") + "---\n" + cliCM("plain2", ""),
		"templates/hook.yaml":          cliCM("hook", "  annotations:\n    \"helm.sh/hook\": pre-install,pre-upgrade\n"),
		"templates/tests/test.yaml":    cliCM("test", "  annotations:\n    \"helm.sh/hook\": test\n"),
		"templates/NOTES.txt":          "notes for {{ .Release.Name }}\n",
		"templates/_helpers.tpl":       "{{- define \"x\" }}x{{ end }}\n",
		"charts/sub/Chart.yaml":        "apiVersion: v2\nname: sub\nversion: 0.1.0\n",
		"charts/sub/values.yaml":       "replicas: 2\n",
		"charts/sub/templates/cm.yaml": cliCM("subcm", ""),
		"charts/sub/crds/sub.yaml":     crd("subs") + "---\n" + crd("subz"),
	})
	r := NewRng(seed, 77)
	type showOnly struct {
		pat     string
		matches func(flags map[string]bool) bool
	}
	shows := []showOnly{
		{"templates/cm.yaml", func(map[string]bool) bool { return true }},
		{"templates/*.yaml", func(map[string]bool) bool { return true }},
		{"templates/many.yaml", func(map[string]bool) bool { return true }},
		{"templates/hook.yaml", func(f map[string]bool) bool { return !f["--no-hooks"] }},
		{"templates/tests/test.yaml", func(f map[string]bool) bool { return !f["--no-hooks"] && !f["--skip-tests"] }},
		{"charts/sub/templates/cm.yaml", func(map[string]bool) bool { return true }},
		{"templates/absent.yaml", func(map[string]bool) bool { return false }},
		{"crds/second.yaml", func(f map[string]bool) bool { return f["--include-crds"] }},
	}
	boolFlags := []string{"--include-crds", "--skip-tests", "--no-hooks", "--is-upgrade", "--skip-crds"}
	type tcase struct {
		args    []string
		flags   map[string]bool
		wantErr bool
		shown   bool
	}
	if n <= 0 {
		n = 60
	}
	var cases []tcase
	for i := 0; i < n; i++ {
		c := tcase{args: []string{"template", "rel", chartDir}, flags: map[string]bool{}}
		for _, f := range boolFlags {
			p := 35
			if f == "--include-crds" {
				p = 60
			}
			if r.Chance(p) {
				c.flags[f] = true
				c.args = append(c.args, f)
			}
		}
		if r.Chance(20) {
			c.args = append(c.args, "--kube-version", "1.29.0")
		}
		if r.Chance(20) {
			c.args = append(c.args, "--api-versions", "example.com/v1")
		}
		ns := Pick(r, []int{0, 1, 1, 1, 2})
		for j := 0; j < ns; j++ {
			s := Pick(r, shows)
			c.args = append(c.args, "--show-only", s.pat)
			c.shown = true
			if !s.matches(c.flags) {
				c.wantErr = true
			}
		}
		cases = append(cases, c)
	}
	type res struct {
		outp, full    string
		ret, failed   bool
		fret, ffailed bool
		dirRan        bool
		dirOut        string
	}
	results := make([]res, len(cases))
	var wg sync.WaitGroup
	sem := make(chan struct{}, 8)
	for i := range cases {
		wg.Add(1)
		go func(i int) {
			defer wg.Done()
			sem <- struct{}{}
			defer func() { <-sem }()
			home := filepath.Join(tmp, fmt.Sprintf("home-%d", i))
			var rs res
			rs.outp, rs.ret, rs.failed = helmCLI(nil, home, cases[i].args, true)
			if !cases[i].shown {
				od := filepath.Join(home, "out")
				_, r2, f2 := helmCLI(nil, home, append(append([]string{}, cases[i].args...), "--output-dir", od), false)
				rs.dirRan = r2 && !f2
				filepath.WalkDir(od, func(p string, d os.DirEntry, err error) error {
					if err == nil && !d.IsDir() {
						b, _ := os.ReadFile(p)
						rs.dirOut += "\n" + string(b)
					}
					return nil
				})
			}
			if cases[i].shown {
				var a []string
				for j := 0; j < len(cases[i].args); j++ {
					if cases[i].args[j] == "--show-only" {
						j++
						continue
					}
					a = append(a, cases[i].args[j])
				}
				rs.full, rs.fret, rs.ffailed = helmCLI(nil, home, a, true)
			}
			results[i] = rs
		}(i)
	}
	wg.Wait()
	docsOf := func(s string) map[string]bool {
		m := map[string]bool{}
		s = strings.Split(s, "HELMCLI done")[0]
		for _, d := range strings.Split("\n"+s, "\n---\n") {
			d = strings.TrimSpace(d)
			if d != "" {
				m[d] = true
			}
		}
		return m
	}
	for i, c := range cases {
		cs := map[string]any{"args": c.args[3:]}
		rep.Count(cs, len(c.args) >= 5)
		if i < 3 {
			rep.Sample(cs)
		}
		rs := results[i]
		if !rs.ret || (c.shown && !rs.fret) {
			rep.H("child:no-result")
			rep.Issue(Issue{Kind: "monitor", Fingerprint: "C20:panic:cli:template", What: "helm template did not return (panic or fatal error): " + trunc(rs.outp+rs.full, 400), Case: cs, Seed: seed, Index: i})
			continue
		}
		rep.H(fmt.Sprintf("template:show-only=%v:err=%v", c.shown, rs.failed))
		if c.flags["--include-crds"] && c.shown {
			rep.H("template:include-crds+show-only")
		}
		if rs.failed != c.wantErr {
			rep.Issue(Issue{Kind: "monitor", Fingerprint: "C20:cli:template:outcome", What: fmt.Sprintf("helm template %v: failed=%v, expected failed=%v (a --show-only pattern matches nothing exactly when ...)", c.args[3:], rs.failed, c.wantErr), Case: cs, Impl: trunc(rs.outp, 300), Seed: seed, Index: i})
			continue
		}
		if !c.shown && !rs.failed {
			// --output-dir writes every document it prints to stdout, once, into the file of its template
			if !rs.dirRan {
				rep.Issue(Issue{Kind: "monitor", Fingerprint: "C08:cli:output-dir-failed", What: "helm template succeeds to stdout and fails with --output-dir", Case: cs, Seed: seed, Index: i})
			} else {
				std, dir := docsOf(rs.outp), docsOf(rs.dirOut)
				for d := range std {
					if !dir[d] {
						rep.Issue(Issue{Kind: "monitor", Fingerprint: "C08:cli:output-dir-lost", What: "a document printed by helm template is in none of the files written with --output-dir", Case: cs, Impl: trunc(d, 300), Seed: seed, Index: i})
						break
					}
				}
				for d := range dir {
					if !std[d] {
						rep.Issue(Issue{Kind: "monitor", Fingerprint: "C08:cli:output-dir-extra", What: "a document written with --output-dir is not printed by helm template", Case: cs, Impl: trunc(d, 300), Seed: seed, Index: i})
						break
					}
				}
				rep.H("template:output-dir-compared")
			}
		}
		if c.shown && !rs.failed && !rs.ffailed {
			full := docsOf(rs.full)
			for d := range docsOf(rs.outp) {
				if !full[d] {
					rep.Issue(Issue{Kind: "monitor", Fingerprint: "C20:cli:template:show-only-invents", What: "a document printed under --show-only is not printed without it", Case: cs, Impl: trunc(d, 300), Seed: seed, Index: i})
					break
				}
			}
		}
		rep.Traces++
	}
	rep.Write(out, nil)
}
