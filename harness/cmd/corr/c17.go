package main

import (
	"bytes"
	"crypto/sha256"
	"encoding/hex"
	"fmt"
	"io"
	mrand "math/rand"
	"net/http"
	"net/http/httptest"
	"os"
	"path/filepath"
	"strings"

	"golang.org/x/crypto/openpgp"           //nolint
	"golang.org/x/crypto/openpgp/clearsign" //nolint
	"sigs.k8s.io/yaml"

	"helm.sh/helm/v4/pkg/action"
	chart "helm.sh/helm/v4/pkg/chart/v2"
	chartutil "helm.sh/helm/v4/pkg/chart/v2/util"
	"helm.sh/helm/v4/pkg/cli"
	"helm.sh/helm/v4/pkg/downloader"
	"helm.sh/helm/v4/pkg/getter"
	"helm.sh/helm/v4/pkg/provenance"
)

func init() { subs["prov"] = corrProv }

type provEnv struct {
	sec, pub    string
	dir         string
	archive     []byte
	archiveName string
	prov        []byte
	ringSigner  string // public keyring containing the signer
	ringOther   string // keyring with another key only
	ringBoth    string
	signedBytes []byte // block.Bytes of the genuine provenance
}

func mkKey(dir, name string) (*openpgp.Entity, string, string) {
	e, err := openpgp.NewEntity(name, "", name+"@example.com", nil)
	if err != nil {
		fmt.Fprintln(os.Stderr, "keygen:", err)
		os.Exit(2)
	}
	var sec, pub bytes.Buffer
	e.SerializePrivate(&sec, nil)
	e.Serialize(&pub)
	sp, pp := filepath.Join(dir, name+".secret.gpg"), filepath.Join(dir, name+".pub.gpg")
	os.WriteFile(sp, sec.Bytes(), 0o600)
	os.WriteFile(pp, pub.Bytes(), 0o644)
	return e, sp, pp
}

func newProvEnv(dir string, r *Rng) *provEnv {
	env := &provEnv{dir: dir}
	_, sec1, pub1 := mkKey(dir, "signer")
	_, _, pub2 := mkKey(dir, "other")
	env.ringSigner, env.ringOther = pub1, pub2
	b1, _ := os.ReadFile(pub1)
	b2, _ := os.ReadFile(pub2)
	env.ringBoth = filepath.Join(dir, "both.gpg")
	os.WriteFile(env.ringBoth, append(append([]byte{}, b2...), b1...), 0o644)
	ch := &chart.Chart{Metadata: &chart.Metadata{APIVersion: "v2", Name: "mychart", Version: "1.2.3", Description: "d"},
		Templates: []*chart.File{{Name: "templates/cm.yaml", Data: []byte("kind: ConfigMap\n")}}}
	p, err := chartutil.Save(ch, dir)
	if err != nil {
		fmt.Fprintln(os.Stderr, "save:", err)
		os.Exit(2)
	}
	env.archiveName = filepath.Base(p)
	env.archive, _ = os.ReadFile(p)
	s, err := provenance.NewFromFiles(sec1, pub1)
	if err != nil {
		fmt.Fprintln(os.Stderr, "signatory:", err)
		os.Exit(2)
	}
	sig, err := s.ClearSign(p)
	if err != nil {
		fmt.Fprintln(os.Stderr, "clearsign:", err)
		os.Exit(2)
	}
	env.prov = []byte(sig)
	blk, _ := clearsign.Decode(env.prov)
	env.signedBytes = append([]byte{}, blk.Bytes...)
	env.sec, env.pub = sec1, pub1
	return env
}

// signVerifyVariants: "a chart signed and then verified with the matching public key always passes" -- for chart
// metadata of every shape (the metadata is part of the signed message, next to the digests)
func signVerifyVariants(rep *Report, env *provEnv, seed uint64) {
	descs := []string{"plain", "Deploys the frobnicator, and more...", "ends with three dots...\n", "line one\n...\nline three", "---\nnot a document", "files:\n  x.tgz: sha256:00", "a: b\n...\nfiles:\n  evil.tgz: sha256:deadbeef", "ünïcödé — …", strings.Repeat("long ", 60), "..."}
	for i, d := range descs {
		dir := filepath.Join(env.dir, fmt.Sprintf("variant-%d", i))
		os.MkdirAll(dir, 0o755)
		ch := &chart.Chart{Metadata: &chart.Metadata{APIVersion: "v2", Name: "vchart", Version: "0.1.0", Description: d, Keywords: []string{"etc...", "k"}, Annotations: map[string]string{"note": "wait for it..."}},
			Templates: []*chart.File{{Name: "templates/cm.yaml", Data: []byte("kind: ConfigMap\n")}}}
		p, err := chartutil.Save(ch, dir)
		if err != nil {
			rep.H("variant:save-error")
			continue
		}
		cs := map[string]any{"kind": "sign-then-verify", "description": d}
		rep.Count(cs, true)
		var verr error
		if pn := safely(func() {
			var s *provenance.Signatory
			s, verr = provenance.NewFromFiles(env.sec, env.pub)
			if verr != nil {
				return
			}
			var sig string
			sig, verr = s.ClearSign(p)
			if verr != nil {
				return
			}
			os.WriteFile(p+".prov", []byte(sig), 0o644)
			_, verr = s.Verify(p, p+".prov")
			if verr == nil {
				_, verr = downloader.VerifyChart(p, env.pub)
			}
		}); pn != "" {
			rep.Issue(Issue{Kind: "monitor", Fingerprint: "C20:panic:sign-verify", What: pn, Case: cs, Seed: seed, Index: 3000 + i})
			continue
		}
		rep.H("variant:" + map[bool]string{true: "verified", false: "REJECTED"}[verr == nil])
		if verr != nil {
			rep.Issue(Issue{Kind: "monitor", Fingerprint: "C17:signed-chart-rejected", What: "a chart signed and then verified with the matching public key is rejected: " + verr.Error(), Case: cs, Seed: seed, Index: 3000 + i})
		}
		os.RemoveAll(dir)
	}
}

// bigArchiveCase: the digest covers the whole archive, however large.  A chart of ~9 MiB (three incompressible files
// of 3 MiB) is signed; the untouched archive verifies and the reported file hash is the SHA-256 of its bytes; a bit
// flipped near the end, at 5 MiB + 10, at 1000, a truncated tail and appended bytes are all rejected.
func bigArchiveCase(rep *Report, env *provEnv, seed uint64) {
	dir := filepath.Join(env.dir, "big")
	os.MkdirAll(dir, 0o755)
	defer os.RemoveAll(dir)
	rnd := mrand.New(mrand.NewSource(int64(seed) + 17))
	ch := &chart.Chart{Metadata: &chart.Metadata{APIVersion: "v2", Name: "bigchart", Version: "0.1.0"},
		Templates: []*chart.File{{Name: "templates/cm.yaml", Data: []byte("kind: ConfigMap\n")}}}
	for i := 0; i < 3; i++ {
		b := make([]byte, 3<<20)
		rnd.Read(b)
		ch.Files = append(ch.Files, &chart.File{Name: fmt.Sprintf("files/blob-%d.bin", i), Data: b})
	}
	p, err := chartutil.Save(ch, dir)
	if err != nil {
		rep.H("big:save-error")
		return
	}
	orig, _ := os.ReadFile(p)
	s, err := provenance.NewFromFiles(env.sec, env.pub)
	if err != nil {
		return
	}
	sig, err := s.ClearSign(p)
	if err != nil {
		rep.H("big:sign-error")
		return
	}
	os.WriteFile(p+".prov", []byte(sig), 0o644)
	flip := func(at int) []byte { b := append([]byte{}, orig...); b[at] ^= 0x01; return b }
	type mut struct {
		name string
		data []byte
	}
	muts := []mut{{"untouched", orig}, {"flip-near-end", flip(len(orig) - 100)}, {"flip-at-5MiB+10", flip(5<<20 + 10)}, {"flip-at-1000", flip(1000)},
		{"truncated-1000", orig[:len(orig)-1000]}, {"appended-64", append(append([]byte{}, orig...), make([]byte, 64)...)}}
	for i, mu := range muts {
		cs := map[string]any{"kind": "big-archive", "mutation": mu.name, "archiveLen": len(orig)}
		rep.Count(cs, true)
		os.WriteFile(p, mu.data, 0o644)
		var ver *provenance.Verification
		var verr, derr error
		if pn := safely(func() {
			ver, verr = s.Verify(p, p+".prov")
			_, derr = downloader.VerifyChart(p, env.pub)
		}); pn != "" {
			rep.Issue(Issue{Kind: "monitor", Fingerprint: "C20:panic:Verify", What: pn, Case: cs, Seed: seed, Index: 3100 + i})
			continue
		}
		rep.H(fmt.Sprintf("big:%s:accepted=%v", mu.name, verr == nil))
		if (verr == nil) != (derr == nil) {
			rep.Issue(Issue{Kind: "monitor", Fingerprint: "C17:verifychart-differs", What: fmt.Sprintf("downloader.VerifyChart (%v) and Signatory.Verify (%v) disagree", derr, verr), Case: cs, Seed: seed, Index: 3100 + i})
		}
		if mu.name == "untouched" {
			if verr != nil {
				rep.Issue(Issue{Kind: "monitor", Fingerprint: "C17:signed-chart-rejected", What: "a large chart signed and then verified with the matching public key is rejected: " + verr.Error(), Case: cs, Seed: seed, Index: 3100 + i})
			} else if want := "sha256:" + hex.EncodeToString(sha(orig)); ver.FileHash != want {
				rep.Issue(Issue{Kind: "monitor", Fingerprint: "C17:file-hash-not-digest", What: "the file hash reported by Verify is not the SHA-256 of the archive's bytes", Case: cs, Model: want, Impl: ver.FileHash, Seed: seed, Index: 3100 + i})
			}
			continue
		}
		if verr == nil || derr == nil {
			rep.Issue(Issue{Kind: "monitor", Fingerprint: "C17:accepted-mutant", What: "verification accepted a large archive whose bytes differ from the signed ones (" + mu.name + ")", Case: cs, Seed: seed, Index: 3100 + i})
		}
	}
}

// primitives computed with the libraries directly (not through Signatory.Verify)
func provPrims(archive []byte, base string, prov []byte, ringFile string) map[string]any {
	out := map[string]any{"decodes": false, "sigValid": false, "parses": false, "sums": map[string]any{}, "digest": ""}
	h := sha256.Sum256(archive)
	out["digest"] = hex.EncodeToString(h[:])
	blk, _ := clearsign.Decode(prov)
	if blk == nil {
		return out
	}
	out["decodes"] = true
	rf, err := os.Open(ringFile)
	if err == nil {
		defer rf.Close()
		if ring, err := openpgp.ReadKeyRing(rf); err == nil {
			if blk.ArmoredSignature != nil {
				_, err := openpgp.CheckDetachedSignature(ring, bytes.NewBuffer(blk.Bytes), blk.ArmoredSignature.Body)
				out["sigValid"] = err == nil
			}
		}
	}
	parts := bytes.Split(blk.Plaintext, []byte("\n...\n"))
	if len(parts) >= 2 {
		var md map[string]any
		sc := struct {
			Files map[string]string `json:"files"`
		}{}
		var meta chart.Metadata
		_ = md
		if yaml.Unmarshal(parts[0], &meta) == nil && yaml.Unmarshal(parts[1], &sc) == nil {
			out["parses"] = true
			sums := map[string]any{}
			for k, v := range sc.Files {
				sums[k] = v
			}
			out["sums"] = sums
		}
	}
	return out
}

func corrProv(seed uint64, n int, tier string, out string, replay string) {
	m := StartModel()
	defer m.Close()
	rep := NewReport("C17", "prov", seed, "case = charts with metadata of many shapes (lines ending in three dots, lines that are `...` or `---`, text that looks like the files section) signed and verified with the matching key (must pass); then a chart archive signed with a freshly generated OpenPGP key, then one mutation: single-byte flip / insertion / deletion / truncation of the archive, of the provenance body, of the signature armor; renamed archive; keyring = signer only / other key only / both; the real Signatory.Verify, downloader.VerifyChart, ChartPathOptions.LocateChart with Verify on the local archive and through --repo (the install paths) and ChartDownloader.DownloadTo over HTTP under the strategies always / if-possible / never (the download path) are run on every case (downloads on every fourth); the Verify verdict is compared with the model's decision fed with the primitive results (clearsign decode, signature check, digest, message parse) computed with the libraries directly; monitor: no mutant whose archive bytes or signed text differ from the original is accepted; non-trivial = every mutant; distinct = hash of mutation")
	dir, _ := os.MkdirTemp("", "corr-prov")
	defer os.RemoveAll(dir)
	env := newProvEnv(dir, NewRng(seed, 0))
	work := filepath.Join(dir, "work")
	os.MkdirAll(work, 0o755)
	// the archives are also served over HTTP for the download path
	srv := httptest.NewServer(http.FileServer(http.Dir(work)))
	defer srv.Close()
	repoCfg := filepath.Join(dir, "repositories.yaml")
	os.WriteFile(repoCfg, []byte("apiVersion: v1\nrepositories: []\n"), 0o644)
	dlDest := filepath.Join(dir, "dl")
	check := func(kind string, archive []byte, name string, prov []byte, ring string, idx int) {
		ap := filepath.Join(work, name)
		os.WriteFile(ap, archive, 0o644)
		os.WriteFile(ap+".prov", prov, 0o644)
		defer os.Remove(ap)
		defer os.Remove(ap + ".prov")
		cs := map[string]any{"kind": kind, "name": name, "ring": filepath.Base(ring), "archiveLen": len(archive), "provLen": len(prov)}
		rep.Count(map[string]any{"k": kind, "a": hex.EncodeToString(sha(archive)), "p": hex.EncodeToString(sha(prov)), "n": name, "r": ring}, true)
		if idx < 3 {
			rep.Sample(cs)
		}
		var verr error
		if p := safely(func() {
			var s *provenance.Signatory
			s, verr = provenance.NewFromKeyring(ring, "")
			if verr == nil {
				_, verr = s.Verify(ap, ap+".prov")
			}
		}); p != "" {
			rep.Issue(Issue{Kind: "monitor", Fingerprint: "C20:panic:Verify", What: p, Case: cs, Seed: seed, Index: idx})
			return
		}
		var derr error
		safely(func() { _, derr = downloader.VerifyChart(ap, ring) })
		if (verr == nil) != (derr == nil) {
			rep.Issue(Issue{Kind: "monitor", Fingerprint: "C17:verifychart-differs", What: fmt.Sprintf("downloader.VerifyChart (%v) and Signatory.Verify (%v) disagree", derr, verr), Case: cs, Seed: seed, Index: idx})
		}
		// "with verification required, a download or install whose verification fails returns an error":
		// install path = ChartPathOptions.LocateChart with Verify on the local archive
		var lerr error
		safely(func() {
			o := action.ChartPathOptions{Verify: true, Keyring: ring}
			_, lerr = o.LocateChart(ap, cli.New())
		})
		if (lerr == nil) != (verr == nil) {
			rep.Issue(Issue{Kind: "monitor", Fingerprint: "C17:locate-verify-differs", What: fmt.Sprintf("LocateChart with Verify (%v) and Signatory.Verify (%v) disagree", lerr, verr), Case: cs, Seed: seed, Index: idx})
		}
		// download path = ChartDownloader.DownloadTo under each verification strategy (every fourth case)
		if idx%4 == 0 || idx < 5 {
			for _, st := range []struct {
				name string
				v    downloader.VerificationStrategy
			}{{"always", downloader.VerifyAlways}, {"if-possible", downloader.VerifyIfPossible}, {"never", downloader.VerifyNever}} {
				os.RemoveAll(dlDest)
				os.MkdirAll(dlDest, 0o755)
				var dl error
				safely(func() {
					cd := downloader.ChartDownloader{Out: io.Discard, Verify: st.v, Keyring: ring, Getters: getter.Providers{{Schemes: []string{"http"}, New: getter.NewHTTPGetter}}, RepositoryConfig: repoCfg, RepositoryCache: filepath.Join(dir, "cache")}
					_, _, dl = cd.DownloadTo(srv.URL+"/"+name, "", dlDest)
				})
				wantErr := verr != nil && st.v != downloader.VerifyNever
				rep.H("download:" + st.name + ":" + map[bool]string{true: "error", false: "ok"}[dl != nil])
				if (dl != nil) != wantErr {
					rep.Issue(Issue{Kind: "monitor", Fingerprint: "C17:download-verify:" + st.name, What: fmt.Sprintf("DownloadTo with verification %s returned %v although Signatory.Verify says %v", st.name, dl, verr), Case: cs, Seed: seed, Index: idx})
				}
			}
		}
		// `helm pull URL` (action.Pull): --verify, --prov, and both together (--verify wins: the chart is verified)
		if idx%4 == 2 || idx < 5 {
			for _, fl := range []struct {
				name          string
				verify, later bool
			}{{"verify", true, false}, {"prov", false, true}, {"verify+prov", true, true}, {"none", false, false}} {
				os.RemoveAll(dlDest)
				os.MkdirAll(dlDest, 0o755)
				var perr error
				safely(func() {
					st := cli.New()
					st.RepositoryCache, st.RepositoryConfig = filepath.Join(dir, "cache"), repoCfg
					pl := action.NewPull(action.WithConfig(&action.Configuration{}))
					pl.Settings, pl.DestDir, pl.Verify, pl.VerifyLater, pl.Keyring = st, dlDest, fl.verify, fl.later, ring
					_, perr = pl.Run(srv.URL + "/" + name)
				})
				wantErr := verr != nil && fl.verify
				rep.H("pull:" + fl.name + ":" + map[bool]string{true: "error", false: "ok"}[perr != nil])
				if (perr != nil) != wantErr {
					rep.Issue(Issue{Kind: "monitor", Fingerprint: "C17:pull-verify:" + fl.name, What: fmt.Sprintf("helm pull with %s returned %v although Signatory.Verify says %v", fl.name, perr, verr), Case: cs, Seed: seed, Index: idx})
				}
			}
		}
		// install path with --repo: the chart is looked up in the repository's index and downloaded
		if idx%4 == 1 || idx < 5 {
			os.WriteFile(filepath.Join(work, "index.yaml"), []byte(fmt.Sprintf("apiVersion: v1\nentries:\n  mychart:\n  - name: mychart\n    version: 1.2.3\n    apiVersion: v2\n    urls:\n    - %q\n", name)), 0o644)
			st := cli.New()
			st.RepositoryCache = filepath.Join(dir, fmt.Sprintf("rcache-%d", idx))
			st.RepositoryConfig = repoCfg
			os.MkdirAll(st.RepositoryCache, 0o755)
			var rerr error
			safely(func() {
				o := action.ChartPathOptions{Verify: true, Keyring: ring, RepoURL: srv.URL}
				_, rerr = o.LocateChart("mychart", st)
			})
			os.RemoveAll(st.RepositoryCache)
			os.Remove(filepath.Join(work, "index.yaml"))
			rep.H("locate-repo:" + map[bool]string{true: "error", false: "ok"}[rerr != nil])
			if (rerr == nil) != (verr == nil) {
				rep.Issue(Issue{Kind: "monitor", Fingerprint: "C17:locate-repo-verify-differs", What: fmt.Sprintf("LocateChart with --repo and Verify (%v) and Signatory.Verify (%v) disagree", rerr, verr), Case: cs, Seed: seed, Index: idx})
			}
		}
		prims := provPrims(archive, name, prov, ring)
		want := m.Query(map[string]any{"op": "provVerify", "prims": prims, "base": name})
		got := verr == nil
		rep.H(kind + ":" + map[bool]string{true: "accepted", false: "rejected"}[got])
		if (want["verdict"] == "ok") != got {
			rep.Issue(Issue{Kind: "disagreement", Fingerprint: "C17:model:verify", What: fmt.Sprintf("Verify accepted=%v (%v), model verdict %v", got, verr, want["verdict"]), Case: cs, Model: want, Impl: fmt.Sprint(verr), Seed: seed, Index: idx})
		}
		// monitor: an accepted case has the original archive bytes, the original name, the signer in the
		// keyring and the original signed text (anything else accepted is a forgery)
		if got {
			blk, _ := clearsign.Decode(prov)
			same := bytes.Equal(archive, env.archive) && name == env.archiveName && ring != env.ringOther && blk != nil && bytes.Equal(blk.Bytes, env.signedBytes)
			if !same {
				rep.Issue(Issue{Kind: "monitor", Fingerprint: "C17:accepted-mutant", What: "verification accepted a case whose archive bytes, file name, keyring trust or signed text differ from what was signed", Case: cs, Seed: seed, Index: idx})
			} else if !bytes.Equal(prov, env.prov) {
				rep.H("accepted-framing-only-mutant") // bytes outside the signed text / armor framing changed
			}
		}
		rep.Traces++
	}
	// the genuine one, each keyring
	signVerifyVariants(rep, env, seed)
	bigArchiveCase(rep, env, seed)
	check("genuine", env.archive, env.archiveName, env.prov, env.ringSigner, 0)
	check("genuine-both", env.archive, env.archiveName, env.prov, env.ringBoth, 1)
	check("other-key-only", env.archive, env.archiveName, env.prov, env.ringOther, 2)
	check("renamed", env.archive, "other-1.2.3.tgz", env.prov, env.ringSigner, 3)
	check("renamed-dir-trick", env.archive, "mychart-1.2.4.tgz", env.prov, env.ringSigner, 4)
	check("keyring-missing", env.archive, env.archiveName, env.prov, filepath.Join(dir, "no-such-keyring.gpg"), 8)
	check("keyring-empty-file", env.archive, env.archiveName, env.prov, func() string { p := filepath.Join(dir, "empty.gpg"); os.WriteFile(p, nil, 0o644); return p }(), 12)
	// no provenance file at all: required verification fails, opportunistic verification lets the chart through
	{
		ap := filepath.Join(work, env.archiveName)
		os.WriteFile(ap, env.archive, 0o644)
		for _, st := range []struct {
			name    string
			v       downloader.VerificationStrategy
			wantErr bool
		}{{"always", downloader.VerifyAlways, true}, {"if-possible", downloader.VerifyIfPossible, false}, {"never", downloader.VerifyNever, false}} {
			os.RemoveAll(dlDest)
			os.MkdirAll(dlDest, 0o755)
			var dl error
			safely(func() {
				cd := downloader.ChartDownloader{Out: io.Discard, Verify: st.v, Keyring: env.ringSigner, Getters: getter.Providers{{Schemes: []string{"http"}, New: getter.NewHTTPGetter}}, RepositoryConfig: repoCfg, RepositoryCache: filepath.Join(dir, "cache")}
				_, _, dl = cd.DownloadTo(srv.URL+"/"+env.archiveName, "", dlDest)
			})
			rep.H("download-no-prov:" + st.name + ":" + map[bool]string{true: "error", false: "ok"}[dl != nil])
			rep.Count(map[string]any{"k": "no-prov", "s": st.name}, true)
			if (dl != nil) != st.wantErr {
				rep.Issue(Issue{Kind: "monitor", Fingerprint: "C17:download-verify:" + st.name, What: fmt.Sprintf("DownloadTo of a chart without provenance file under verification %s returned %v", st.name, dl), Case: map[string]any{"kind": "no-prov", "strategy": st.name}, Seed: seed, Index: 5})
			}
		}
		var lerr error
		safely(func() {
			o := action.ChartPathOptions{Verify: true, Keyring: env.ringSigner}
			_, lerr = o.LocateChart(ap, cli.New())
		})
		if lerr == nil {
			rep.Issue(Issue{Kind: "monitor", Fingerprint: "C17:locate-verify-differs", What: "LocateChart with Verify accepted an archive that has no provenance file", Case: map[string]any{"kind": "no-prov"}, Seed: seed, Index: 5})
		}
		os.Remove(ap)
	}
	for i := 0; i < n; i++ {
		r := NewRng(seed, uint64(i+10))
		a, p := append([]byte{}, env.archive...), append([]byte{}, env.prov...)
		kind := ""
		mut := func(b []byte) []byte {
			pos := r.Intn(len(b))
			switch r.Intn(4) {
			case 0:
				b[pos] ^= byte(1 << uint(r.Intn(8)))
				return b
			case 1:
				return append(b[:pos], b[pos+1:]...)
			case 2:
				return append(b[:pos], append([]byte{byte(r.Intn(256))}, b[pos:]...)...)
			default:
				return b[:pos]
			}
		}
		switch r.Intn(3) {
		case 0:
			a = mut(a)
			kind = "archive-mutant"
		case 1:
			p = mut(p)
			kind = "prov-mutant"
		default:
			// targeted at the signed body: change one character of the message text
			s := string(p)
			i0 := strings.Index(s, "\n\n") + 2
			i1 := strings.Index(s, "-----BEGIN PGP SIGNATURE-----")
			if i0 > 1 && i1 > i0 {
				pos := i0 + r.Intn(i1-i0)
				p[pos] = Pick(r, []byte("abcdef0123456789 \n:-"))
			}
			kind = "body-mutant"
		}
		check(kind, a, env.archiveName, p, env.ringSigner, i+10)
	}
	// the keyring's trust as a history: ONE keyring path whose content is replaced between verifications
	// of the same genuine archive; the verdict must follow what the file holds now
	{
		ap := filepath.Join(work, env.archiveName)
		os.WriteFile(ap, env.archive, 0o644)
		os.WriteFile(ap+".prov", env.prov, 0o644)
		hist := filepath.Join(work, "keyring-history.gpg")
		r := NewRng(seed, 99)
		for k := 0; k < 12; k++ {
			src, trusted := env.ringSigner, true
			switch r.Intn(3) {
			case 0:
				src, trusted = env.ringOther, false
			case 1:
				src = env.ringBoth
			}
			b, _ := os.ReadFile(src)
			os.WriteFile(hist, b, 0o644)
			var herr error
			safely(func() { _, herr = downloader.VerifyChart(ap, hist) })
			rep.H(fmt.Sprintf("keyring-history:trusted=%v", trusted))
			if (herr == nil) != trusted {
				rep.Issue(Issue{Kind: "monitor", Fingerprint: "C17:stale-keyring", What: fmt.Sprintf("step %d: the keyring file now holds %s (signer trusted=%v) but VerifyChart says %v", k, filepath.Base(src), trusted, herr), Case: map[string]any{"step": k, "ring": filepath.Base(src)}, Seed: seed, Index: 100000 + k})
			}
		}
	}
	rep.Write(out, m)
}

func sha(b []byte) []byte { h := sha256.Sum256(b); return h[:] }
