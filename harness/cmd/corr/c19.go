package main

import (
	"fmt"
	"io"
	"net/http"
	"net/http/httptest"
	"net/url"
	"os"
	"path/filepath"
	"strings"
	"sync"

	"helm.sh/helm/v4/pkg/action"
	chart "helm.sh/helm/v4/pkg/chart/v2"
	chartutil "helm.sh/helm/v4/pkg/chart/v2/util"
	"helm.sh/helm/v4/pkg/cli"
	"helm.sh/helm/v4/pkg/downloader"
	"helm.sh/helm/v4/pkg/getter"
)

func init() { subs["creds"] = corrCreds }

type capReq struct {
	Scheme, Host, Path string
	Auth               bool
}

type capture struct {
	mu      sync.Mutex
	reqs    []capReq
	indexes map[string]string // host -> index.yaml content
	redir   map[string]string // host+path -> absolute redirect target
	// redirectTgz: when set, every archive request to another host is answered with a redirect to this URL
	redirectTgz string
	tgz     []byte
}

func (c *capture) handler(w http.ResponseWriter, r *http.Request) {
	c.mu.Lock()
	defer c.mu.Unlock()
	scheme := r.URL.Scheme
	if scheme == "" {
		scheme = "http"
	}
	host := r.Host
	// Auth: the repository's credentials (user:secret), not credentials embedded in the URL itself
	c.reqs = append(c.reqs, capReq{Scheme: scheme, Host: host, Path: r.URL.Path, Auth: r.Header.Get("Authorization") == "Basic dXNlcjpzZWNyZXQ="})
	if c.redirectTgz != "" && strings.HasSuffix(r.URL.Path, ".tgz") && !strings.HasPrefix(c.redirectTgz, "http://"+host+"/") {
		http.Redirect(w, r, c.redirectTgz, http.StatusFound)
		return
	}
	if t, ok := c.redir[host+r.URL.Path]; ok {
		http.Redirect(w, r, t, http.StatusFound)
		return
	}
	switch {
	case strings.HasSuffix(r.URL.Path, "index.yaml"):
		if ix, ok := c.indexes[host]; ok {
			io.WriteString(w, ix)
			return
		}
		http.NotFound(w, r)
	case strings.HasSuffix(r.URL.Path, ".tgz"):
		w.Write(c.tgz)
	default:
		http.NotFound(w, r)
	}
}

func (c *capture) take() []capReq {
	c.mu.Lock()
	defer c.mu.Unlock()
	r := c.reqs
	c.reqs = nil
	return r
}

func originOf(raw string) map[string]any {
	u, err := url.Parse(raw)
	if err != nil {
		return map[string]any{"scheme": "", "host": ""}
	}
	return map[string]any{"scheme": u.Scheme, "host": u.Host}
}

// hosts that never resolve; everything goes through HTTP_PROXY to the capture server
var credHosts = []string{"repo.test", "repo.test:8080", "REPO.test", "charts.test", "repo.test:80", "user@repo.test", "repo.test.evil.test", "mirror.test"}

func corrCreds(seed uint64, n int, tier string, out string, replay string) {
	m := StartModel()
	defer m.Close()
	rep := NewReport("C19", "creds", seed, "case = (repository URL, chart URL) pair differing in host, port, case, userinfo, default-port spelling or path, the chart URL sometimes spelled with an upper-case scheme or an empty fragment / query, with/without pass-credentials, driven through (a) HTTPGetter.Get with explicit options, (b) ChartDownloader.DownloadTo for repo/chart references with relative or absolute index URLs and for absolute URLs with and without an owning repository, (c) ChartPathOptions.LocateChart --repo, (d) Pull.Run --repo, (e) Manager.Update; every request is captured by a local proxy (HTTP_PROXY) and the presence of the Authorization header per request is compared with the model; monitor: a request carrying the repository's credentials without pass-credentials has the repository's scheme and host:port; non-trivial = chart URL origin differs from repository origin; distinct = hash of the case")
	cp := &capture{indexes: map[string]string{}, redir: map[string]string{}}
	srv := httptest.NewServer(http.HandlerFunc(cp.handler))
	defer srv.Close()
	os.Setenv("HTTP_PROXY", srv.URL)
	os.Setenv("http_proxy", srv.URL)
	os.Unsetenv("NO_PROXY")
	os.Unsetenv("no_proxy")
	tmp, _ := os.MkdirTemp("", "corr-creds")
	defer os.RemoveAll(tmp)
	// a minimal chart archive
	ch := &chart.Chart{Metadata: &chart.Metadata{APIVersion: "v2", Name: "foo", Version: "1.0.0"}}
	p, err := chartutil.Save(ch, tmp)
	if err != nil {
		fmt.Fprintln(os.Stderr, "cannot build chart archive:", err)
		os.Exit(2)
	}
	cp.tgz, _ = os.ReadFile(p)

	for i := 0; i < n; i++ {
		r := NewRng(seed, uint64(i))
		repoHost := Pick(r, []string{"repo.test", "repo.test:8080", "REPO.test", "charts.example.test:8443", "a.b.test", "repo.test:80"})
		chartHost := repoHost
		bare := repoHost
		if k := strings.LastIndex(bare, ":"); k >= 0 {
			bare = bare[:k]
		}
		switch r.Intn(14) {
		case 0, 1, 2:
			// same origin
		case 3:
			chartHost = bare + ":" + Pick(r, []string{"8081", "9090", "443"}) // another port of the same host
		case 4:
			chartHost = bare // the port dropped
		case 5:
			chartHost = bare + ":80" // the default port spelled out
		case 6:
			chartHost = strings.ToUpper(repoHost)
		case 7:
			chartHost = strings.ToLower(repoHost)
		case 8:
			chartHost = bare + ".evil.test" // the repository host as a prefix
		case 9:
			chartHost = "x." + repoHost // ... as a suffix
		case 10:
			chartHost = Pick(r, []string{"user@", "user:pw@"}) + repoHost
		default:
			chartHost = Pick(r, credHosts)
		}
		passAll := r.Chance(25)
		repoURL := "http://" + repoHost + Pick(r, []string{"", "/charts", "/a/b"})
		chartURL := "http://" + chartHost + Pick(r, []string{"/dl/foo-1.0.0.tgz", "/foo-1.0.0.tgz", "/charts/foo-1.0.0.tgz"})
		// spellings of the same URL that a parse-and-print round trip changes (an index may spell its URLs so)
		switch i % 7 {
		case 2:
			chartURL = "HTTP://" + strings.TrimPrefix(chartURL, "http://")
		case 4:
			chartURL += "#"
		case 6:
			chartURL += "?"
		}
		relative := r.Chance(25)
		cs := map[string]any{"repoURL": repoURL, "chartURL": chartURL, "passAll": passAll, "relative": relative, "entry": i % 5}
		ro, co := originOf(repoURL), originOf(chartURL)
		cross := ro["scheme"] != co["scheme"] || ro["host"] != co["host"]
		rep.Count(cs, cross && !relative)
		rep.Sample(cs)
		// every sixth case the host that serves the archive answers with a redirect to an unrelated domain (a CDN):
		// the request that follows the redirect carries no repository credentials
		cp.mu.Lock()
		cp.redirectTgz = ""
		if i%6 == 3 {
			cp.redirectTgz = "http://" + redirectHost + "/blob/foo-1.0.0.tgz"
			rep.H("redirected")
		}
		cp.mu.Unlock()
		switch i % 5 {
		case 0:
			credsGetter(m, rep, cp, r, repoURL, chartURL, passAll, seed, i)
		case 1:
			credsNamed(m, rep, cp, tmp, repoURL, chartURL, relative, passAll, seed, i)
		case 2:
			credsLocate(m, rep, cp, tmp, repoURL, chartURL, relative, passAll, seed, i)
		case 3:
			credsPull(m, rep, cp, tmp, repoURL, chartURL, relative, passAll, seed, i)
		case 4:
			credsManager(m, rep, cp, tmp, r, repoURL, chartURL, relative, passAll, seed, i)
		}
	}
	rep.Write(out, m)
}

// redirectHost: the unrelated domain archive requests are redirected to in the redirect cases
const redirectHost = "cdn.unrelated.test"

// relIndexURL: how a relative chart URL is spelled in the index
var relIndexURL = "dl/foo-1.0.0.tgz"

func indexFor(chartURL string, relative bool) string {
	u := chartURL
	if relative {
		u = relIndexURL
	}
	return fmt.Sprintf("apiVersion: v1\nentries:\n  foo:\n  - name: foo\n    version: 1.0.0\n    apiVersion: v2\n    urls:\n    - %q\n", u)
}

// checkReqs: model prediction and property monitor for the captured requests.
// optsJSON: the option list the path builds (as the model's Opt values); repoOrigin: origin of
// the repository whose credentials these are.
func checkReqs(m *Model, rep *Report, path string, reqs []capReq, modelOpts []any, repoURL string, passAll bool, cs map[string]any, knownFP string, seed uint64, idx int) {
	ro := originOf(repoURL)
	for _, q := range reqs {
		if strings.HasSuffix(q.Path, "index.yaml") {
			// the index is fetched from the repository itself: credentials expected there
			continue
		}
		if q.Host == redirectHost {
			// reached through a redirect only: outside the model (net/http's redirect policy); the property's clause
			rep.H(path + ":after-redirect:" + map[bool]string{true: "auth", false: "noauth"}[q.Auth])
			if q.Auth && !passAll {
				rep.Issue(Issue{Kind: "monitor", Fingerprint: "C19:leak:redirect:" + path, What: fmt.Sprintf("%s: credentials of repository %s were sent to %s after a redirect to that unrelated domain", path, repoURL, q.Host), Case: cs, Impl: q, Seed: seed, Index: idx})
			}
			continue
		}
		href := map[string]any{"scheme": q.Scheme, "host": q.Host}
		want := m.Query(map[string]any{"op": "sendsAuth", "opts": modelOpts, "href": href})
		rep.H(path + ":" + map[bool]string{true: "auth", false: "noauth"}[q.Auth])
		if want["sends"] != q.Auth {
			rep.Issue(Issue{Kind: "disagreement", Fingerprint: "C19:model:" + path, What: fmt.Sprintf("request to %s://%s%s: Authorization present=%v, model says %v", q.Scheme, q.Host, q.Path, q.Auth, want["sends"]), Case: cs, Model: want, Impl: q, Seed: seed, Index: idx})
		}
		if q.Auth && !passAll && (q.Scheme != ro["scheme"] || !strings.EqualFold(q.Host, ro["host"].(string))) {
			fp := "C19:leak:" + path
			if knownFP != "" {
				fp = knownFP
			}
			rep.Issue(Issue{Kind: "monitor", Fingerprint: fp, What: fmt.Sprintf("%s: credentials of repository %s were sent to %s://%s%s", path, repoURL, q.Scheme, q.Host, q.Path), Case: cs, Impl: q, Seed: seed, Index: idx})
		}
	}
	rep.Traces++
}

func optURL(u string) map[string]any { return map[string]any{"withURL": originOf(u)} }
func optAuth(u, p string) map[string]any {
	return map[string]any{"basicAuth": map[string]any{"u": u, "p": p}}
}
func optPass(b bool) map[string]any { return map[string]any{"passAll": b} }

func credsGetter(m *Model, rep *Report, cp *capture, r *Rng, repoURL, chartURL string, passAll bool, seed uint64, idx int) {
	cs := map[string]any{"path": "getter", "repoURL": repoURL, "chartURL": chartURL, "passAll": passAll}
	user, pass := Pick(r, []string{"user", "user", "user", ""}), Pick(r, []string{"secret", "secret", "secret", ""})
	optURLs := []string{repoURL, repoURL, "https://" + strings.TrimPrefix(repoURL, "http://"), ""}
	ou := Pick(r, optURLs)
	g, _ := getter.NewHTTPGetter(getter.WithURL(ou), getter.WithBasicAuth(user, pass), getter.WithPassCredentialsAll(passAll))
	cp.take()
	safely(func() { g.Get(chartURL) })
	reqs := cp.take()
	cs["optURL"], cs["user"], cs["pass"] = ou, user, pass
	checkReqs(m, rep, "getter", reqs, []any{optURL(ou), optAuth(user, pass), optPass(passAll)}, ou, passAll, cs, "", seed, idx)
}

func writeRepoEnv(tmp string, idx int, repos []map[string]any, indexes map[string]string) (cfg, cache string) {
	dir := filepath.Join(tmp, fmt.Sprintf("env-%d", idx))
	cache = filepath.Join(dir, "cache")
	os.MkdirAll(cache, 0o755)
	var b strings.Builder
	if len(repos) == 0 {
		b.WriteString("apiVersion: v1\nrepositories: []\n")
	} else {
		b.WriteString("apiVersion: v1\nrepositories:\n")
	}
	for _, r := range repos {
		fmt.Fprintf(&b, "- name: %s\n  url: %s\n", r["name"], r["url"])
		if r["user"] != nil && r["user"] != "" {
			fmt.Fprintf(&b, "  username: %s\n  password: %s\n", r["user"], r["pass"])
		}
		if r["passAll"] == true {
			b.WriteString("  pass_credentials_all: true\n")
		}
		os.WriteFile(filepath.Join(cache, r["name"].(string)+"-index.yaml"), []byte(indexes[r["name"].(string)]), 0o644)
	}
	cfg = filepath.Join(dir, "repositories.yaml")
	os.WriteFile(cfg, []byte(b.String()), 0o644)
	return
}

func credsNamed(m *Model, rep *Report, cp *capture, tmp, repoURL, chartURL string, relative, passAll bool, seed uint64, idx int) {
	cs := map[string]any{"path": "named", "repoURL": repoURL, "chartURL": chartURL, "passAll": passAll, "relative": relative}
	cfg, cache := writeRepoEnv(tmp, idx, []map[string]any{{"name": "r", "url": repoURL, "user": "user", "pass": "secret", "passAll": passAll}}, map[string]string{"r": indexFor(chartURL, relative)})
	dl := downloader.ChartDownloader{Out: io.Discard, Getters: getter.Providers{getter.Provider{Schemes: []string{"http", "https"}, New: getter.NewHTTPGetter}}, RepositoryConfig: cfg, RepositoryCache: cache, Verify: downloader.VerifyIfPossible}
	cp.take()
	safely(func() { dl.DownloadTo("r/foo", "", filepath.Dir(cfg)) })
	reqs := cp.take()
	opts := []any{optURL(repoURL), optAuth("user", "secret"), optPass(passAll)}
	checkReqs(m, rep, "named", reqs, opts, repoURL, passAll, cs, "", seed, idx)
}

func credsLocate(m *Model, rep *Report, cp *capture, tmp, repoURL, chartURL string, relative, passAll bool, seed uint64, idx int) {
	cs := map[string]any{"path": "locate", "repoURL": repoURL, "chartURL": chartURL, "passAll": passAll, "relative": relative}
	cfg, cache := writeRepoEnv(tmp, idx, nil, nil)
	cp.mu.Lock()
	cp.indexes[hostOf(repoURL)] = indexFor(chartURL, relative)
	cp.mu.Unlock()
	settings := cli.New()
	settings.RepositoryConfig, settings.RepositoryCache = cfg, cache
	co := &action.ChartPathOptions{RepoURL: repoURL, Username: "user", Password: "secret", PassCredentialsAll: passAll}
	cp.take()
	var lerr error
	if p := safely(func() { _, lerr = co.LocateChart("foo", settings) }); p != "" || (lerr != nil && os.Getenv("VERIF_DEBUG") != "") {
		fmt.Fprintln(os.Stderr, "locate:", p, lerr)
	}
	reqs := cp.take()
	eff := chartURL
	if relative {
		eff = strings.TrimSuffix(repoURL, "/") + "/dl/foo-1.0.0.tgz"
	}
	mo := m.Query(map[string]any{"op": "pathOpts", "path": "locate", "user": "user", "pass": "secret", "passAll": passAll, "repoURL": originOf(repoURL), "chartURL": originOf(eff)})
	checkReqs(m, rep, "locate", reqs, mo["opts"].([]any), repoURL, passAll, cs, "", seed, idx)
}

func hostOf(raw string) string {
	u, err := url.Parse(raw)
	if err != nil {
		return ""
	}
	return u.Host
}

func credsPull(m *Model, rep *Report, cp *capture, tmp, repoURL, chartURL string, relative, passAll bool, seed uint64, idx int) {
	cs := map[string]any{"path": "pull", "repoURL": repoURL, "chartURL": chartURL, "passAll": passAll, "relative": relative}
	cfg, cache := writeRepoEnv(tmp, idx, nil, nil)
	cp.mu.Lock()
	cp.indexes[hostOf(repoURL)] = indexFor(chartURL, relative)
	cp.mu.Unlock()
	settings := cli.New()
	settings.RepositoryConfig, settings.RepositoryCache = cfg, cache
	pl := action.NewPull(action.WithConfig(&action.Configuration{}))
	pl.Settings = settings
	pl.RepoURL, pl.Username, pl.Password, pl.PassCredentialsAll = repoURL, "user", "secret", passAll
	pl.DestDir = filepath.Dir(cfg)
	cp.take()
	var perr error
	if p := safely(func() { _, perr = pl.Run("foo") }); p != "" || (perr != nil && os.Getenv("VERIF_DEBUG") != "") {
		fmt.Fprintln(os.Stderr, "pull:", p, perr)
	}
	reqs := cp.take()
	eff := chartURL
	if relative {
		eff = strings.TrimSuffix(repoURL, "/") + "/dl/foo-1.0.0.tgz"
	}
	mo := m.Query(map[string]any{"op": "pathOpts", "path": "pull", "user": "user", "pass": "secret", "passAll": passAll, "repoURL": originOf(repoURL), "chartURL": originOf(eff)})
	checkReqs(m, rep, "pull", reqs, mo["opts"].([]any), repoURL, passAll, cs, "C19:pull-repo-cross-origin", seed, idx)
}

func credsManager(m *Model, rep *Report, cp *capture, tmp string, r *Rng, repoURL, chartURL string, relative, passAll bool, seed uint64, idx int) {
	cs := map[string]any{"path": "manager", "repoURL": repoURL, "chartURL": chartURL, "passAll": passAll, "relative": relative}
	repos := []map[string]any{{"name": "r", "url": repoURL, "user": "user", "pass": "secret", "passAll": passAll}}
	relEff := "/dl/foo-1.0.0.tgz"
	if relative && (idx/5)%2 == 1 {
		// a network-path reference: the dependency manager joins index URLs without a scheme onto the repository
		// URL as paths, so this stays on the repository's host
		relIndexURL, relEff = "//evil.test/dl/foo-1.0.0.tgz", "/evil.test/dl/foo-1.0.0.tgz"
		cs["indexURL"] = relIndexURL
		defer func() { relIndexURL = "dl/foo-1.0.0.tgz" }()
	}
	indexes := map[string]string{"r": indexFor(chartURL, relative)}
	foreignOwner := false
	if !relative && !strings.EqualFold(hostOf(chartURL), hostOf(repoURL)) && r.Chance(50) {
		// another configured repository, without credentials, on the chart URL's origin, lists the same URL
		other := "http://" + hostOf(chartURL)
		repos = append([]map[string]any{{"name": "mirror", "url": other}}, repos...)
		indexes["mirror"] = indexFor(chartURL, false)
		foreignOwner = true
		cs["foreignOwner"] = other
	}
	cfg, cache := writeRepoEnv(tmp, idx, repos, indexes)
	chartDir := filepath.Join(filepath.Dir(cfg), "parent")
	os.MkdirAll(chartDir, 0o755)
	os.WriteFile(filepath.Join(chartDir, "Chart.yaml"), []byte(fmt.Sprintf("apiVersion: v2\nname: parent\nversion: 0.1.0\ndependencies:\n- name: foo\n  version: 1.0.0\n  repository: %s\n", repoURL)), 0o644)
	man := &downloader.Manager{Out: io.Discard, ChartPath: chartDir, SkipUpdate: true, RepositoryConfig: cfg, RepositoryCache: cache,
		Getters: getter.Providers{getter.Provider{Schemes: []string{"http", "https"}, New: getter.NewHTTPGetter}}}
	cp.take()
	safely(func() { man.Update() })
	reqs := cp.take()
	eff := chartURL
	if relative {
		eff = strings.TrimSuffix(repoURL, "/") + relEff
	}
	owner := any(nil)
	if foreignOwner {
		owner = map[string]any{"url": originOf("http://" + hostOf(chartURL)), "user": "", "pass": "", "passAll": false}
	} else if !relative {
		owner = map[string]any{"url": originOf(repoURL), "user": "user", "pass": "secret", "passAll": passAll}
	}
	mo := m.Query(map[string]any{"op": "pathOpts", "path": "manager", "user": "user", "pass": "secret", "passAll": passAll, "repoURL": originOf(repoURL), "chartURL": originOf(eff), "owner": owner})
	known := ""
	if foreignOwner {
		known = "C19:manager-foreign-owner"
	}
	checkReqs(m, rep, "manager", reqs, mo["opts"].([]any), repoURL, passAll, cs, known, seed, idx)
}
