package main

import (
	"encoding/json"
	"fmt"

	"sigs.k8s.io/yaml"

	"helm.sh/helm/v4/pkg/action"
	chart "helm.sh/helm/v4/pkg/chart/v2"
	release "helm.sh/helm/v4/pkg/release/v1"
)

func init() { subs["reuse"] = corrReuse }

type reuseStep struct {
	Kind           string         `json:"kind"` // install upgrade rollback
	Reset          bool           `json:"reset"`
	Reuse          bool           `json:"reuse"`
	ResetThenReuse bool           `json:"resetThenReuse"`
	Defaults       map[string]any `json:"defaults"` // values.yaml of the chart version used
	Vals           map[string]any `json:"vals"`     // user-supplied values of this step
	Version        int            `json:"version"`  // rollback target (0 = previous)
	Fail           bool           `json:"fail"`     // the resource phase of this upgrade fails: the revision is recorded as failed
}

const probeTemplate = "apiVersion: v1\nkind: ConfigMap\nmetadata:\n  name: probe\ndata:\n  values: {{ toJson .Values | quote }}\n"

func reuseChart(defaults map[string]any, version int) *chart.Chart {
	return &chart.Chart{
		Metadata:  &chart.Metadata{APIVersion: "v2", Name: "app", Version: fmt.Sprintf("0.0.%d", version)},
		Values:    deepCopyMap(defaults),
		Templates: []*chart.File{{Name: "templates/probe.yaml", Data: []byte(probeTemplate)}},
	}
}

// effectiveOf extracts what the probe template saw as .Values
func effectiveOf(manifest string) (map[string]any, error) {
	var doc struct {
		Data map[string]string `json:"data"`
	}
	if err := yaml.Unmarshal([]byte(manifest), &doc); err != nil {
		return nil, err
	}
	var v map[string]any
	if err := json.Unmarshal([]byte(doc.Data["values"]), &v); err != nil {
		return nil, err
	}
	return v, nil
}

func orEmptyMap(m map[string]any) map[string]any {
	if m == nil {
		return map[string]any{}
	}
	return m
}

func corrReuse(seed uint64, n int, tier string, out string, replay string) {
	m := StartModel()
	defer m.Close()
	rep := NewReport("C13", "reuse", seed, "case = chain of an install and 2-6 upgrades / rollbacks through the real action package (Secret and memory storage), each upgrade with its own flag combination (none, reset-values, reuse-values, reset-then-reuse-values, and combinations), its own user values (random trees up to depth 4 with nulls, empty maps, lists, type changes; often empty) and often changed chart defaults, about one upgrade in six failing in its resource phase (the revision is recorded as failed and later upgrades build on the deployed one); after every step the stored Release.Config, the stored chart's values and what a probe template saw as .Values are compared with the Lean model chained over the same steps, and the simple modes (reset, default, rollback) are also checked directly; non-trivial = the chain has at least one reuse/reset-then-reuse step with non-empty previous and new values; distinct = hash of the chain")
	for _, id := range caseSeq("reuse", seed, n) {
		reuseChain(m, rep, NewRng(id.Seed, uint64(id.Index)), id.Seed, id.Index)
	}
	rep.Write(out, m)
}

type modelRev struct {
	ChartValues map[string]any
	Config      map[string]any
	Deployed    bool
}

// curIdx: the revision an upgrade builds on: the deployed one, else the newest
func curIdx(revs []modelRev) int {
	for i := len(revs) - 1; i >= 0; i-- {
		if revs[i].Deployed {
			return i
		}
	}
	return len(revs) - 1
}

func revJSON(r modelRev) map[string]any {
	return map[string]any{"chart": map[string]any{"name": "app", "values": orEmptyMap(r.ChartValues), "deps": []any{}}, "config": orEmptyMap(r.Config)}
}

func reuseChain(m *Model, rep *Report, r *Rng, seed uint64, idx int) {
	backend := []string{"secrets", "memory"}[idx%2]
	w := newSimWorld(newBackend(backend))
	defer w.close()
	var hist []reuseStep
	var revs []modelRev             // the model's chain
	var implRevs []*release.Release // what the implementation stored, per revision
	nontrivial := false
	defaults := genTree(r, 0, valKeys)
	nsteps := 3 + r.Intn(5)
	for k := 0; k < nsteps; k++ {
		st := reuseStep{}
		switch {
		case k == 0:
			st.Kind = "install"
		case len(revs) >= 2 && r.Chance(22):
			st.Kind = "rollback"
			if r.Chance(60) {
				st.Version = 1 + r.Intn(len(revs))
			}
		default:
			st.Kind = "upgrade"
			switch r.Intn(8) {
			case 0:
				st.Reset = true
			case 1, 2:
				st.Reuse = true
			case 3, 4:
				st.ResetThenReuse = true
			case 5:
				st.Reset, st.Reuse, st.ResetThenReuse = r.Bool(), r.Bool(), r.Bool()
			}
			if r.Chance(50) {
				defaults = genTree(r, 0, valKeys)
			}
			st.Fail = r.Chance(18)
		}
		if st.Kind != "rollback" {
			st.Defaults = deepCopyMap(defaults)
			if !r.Chance(30) {
				st.Vals = genTree(r, 0, valKeys)
			} else {
				st.Vals = map[string]any{}
			}
		}
		hist = append(hist, st)
		cs := map[string]any{"backend": backend, "history": hist}
		w.revive()
		if st.Fail {
			w.wplan.resources = "fail"
		}
		cfg := w.cfg()
		var err error
		var rel *release.Release
		if p := safely(func() {
			switch st.Kind {
			case "install":
				in := action.NewInstall(cfg)
				in.ReleaseName, in.Namespace, in.DisableOpenAPIValidation = "app", "default", true
				rel, err = in.Run(reuseChart(st.Defaults, k+1), deepCopyMap(st.Vals))
			case "upgrade":
				up := action.NewUpgrade(cfg)
				up.Namespace, up.DisableOpenAPIValidation = "default", true
				up.ResetValues, up.ReuseValues, up.ResetThenReuseValues = st.Reset, st.Reuse, st.ResetThenReuse
				rel, err = up.Run("app", reuseChart(st.Defaults, k+1), deepCopyMap(st.Vals))
			case "rollback":
				rb := action.NewRollback(cfg)
				rb.Version = st.Version
				err = rb.Run("app")
			}
		}); p != "" {
			rep.Issue(Issue{Kind: "monitor", Fingerprint: "C20:panic:action:" + st.Kind, What: p, Case: cs, Seed: seed, Index: idx})
			return
		}
		// the model's step
		var want modelRev
		var wantEff any
		modelErr := ""
		switch st.Kind {
		case "install":
			want = modelRev{ChartValues: st.Defaults, Config: st.Vals}
			wantEff = m.Query(map[string]any{"op": "reuseEffective", "rev": revJSON(want)})["effective"]
		case "upgrade":
			mr := m.Query(map[string]any{"op": "reuseOp", "reset": st.Reset, "reuse": st.Reuse, "resetThenReuse": st.ResetThenReuse,
				"cur": revJSON(revs[curIdx(revs)]), "newChart": map[string]any{"name": "app", "values": orEmptyMap(st.Defaults), "deps": []any{}}, "newVals": orEmptyMap(st.Vals)})
			if e, ok := mr["err"].(string); ok {
				modelErr = e
			} else {
				want = modelRev{ChartValues: mr["chartValues"].(map[string]any), Config: mr["config"].(map[string]any)}
				wantEff = mr["effective"]
			}
			prev := revs[curIdx(revs)]
			if (st.Reuse || st.ResetThenReuse) && !st.Reset && len(prev.Config) > 0 && len(st.Vals) > 0 {
				nontrivial = true
			}
		case "rollback":
			t := len(revs) - 2
			if st.Version > 0 {
				t = st.Version - 1
			}
			want = revs[t]
			wantEff = m.Query(map[string]any{"op": "reuseEffective", "rev": revJSON(want)})["effective"]
		}
		rep.H(st.Kind + fmt.Sprintf(":reset=%v,reuse=%v,rtr=%v", st.Reset, st.Reuse, st.ResetThenReuse))
		if we, ok := wantEff.(map[string]any); ok {
			if _, bad := we["$err"]; bad {
				modelErr = fmt.Sprint(we["$err"])
			}
		}
		if st.Fail && err != nil && modelErr == "" {
			err = nil // the injected failure: the revision is recorded (as failed) all the same
		}
		if (err != nil) != (modelErr != "") {
			rep.Issue(Issue{Kind: "disagreement", Fingerprint: "C13:model:outcome:" + st.Kind, What: fmt.Sprintf("%s: err=%v, model error=%q", st.Kind, err, modelErr), Case: cs, Seed: seed, Index: idx})
			return
		}
		if err != nil {
			rep.H("error:" + st.Kind)
			rep.Count(cs, nontrivial)
			return
		}
		// what the implementation stored
		stored, gerr := cfg.Releases.Last("app")
		if gerr != nil {
			rep.Issue(Issue{Kind: "monitor", Fingerprint: "C13:no-record", What: "no stored release after a successful " + st.Kind + ": " + gerr.Error(), Case: cs, Seed: seed, Index: idx})
			return
		}
		_ = rel
		gotCfg := orEmptyMap(stored.Config)
		if !jsonEqual(gotCfg, orEmptyMap(want.Config)) {
			rep.Issue(Issue{Kind: "disagreement", Fingerprint: "C13:model:config:" + st.Kind, What: "Release.Config after " + st.Kind + " differs from the model", Case: cs, Model: want.Config, Impl: gotCfg, Seed: seed, Index: idx})
			return
		}
		if !jsonEqual(orEmptyMap(stored.Chart.Values), orEmptyMap(want.ChartValues)) {
			rep.Issue(Issue{Kind: "disagreement", Fingerprint: "C13:model:chart-values:" + st.Kind, What: "the recorded chart's values after " + st.Kind + " differ from the model", Case: cs, Model: want.ChartValues, Impl: stored.Chart.Values, Seed: seed, Index: idx})
			return
		}
		eff, perr := effectiveOf(stored.Manifest)
		if perr != nil {
			rep.Issue(Issue{Kind: "harness", Fingerprint: "C13:probe-unreadable", What: perr.Error(), Case: cs, Impl: stored.Manifest, Seed: seed, Index: idx})
			return
		}
		if !jsonEqual(eff, wantEff) {
			rep.Issue(Issue{Kind: "disagreement", Fingerprint: "C13:model:effective:" + st.Kind, What: "the values the templates saw after " + st.Kind + " differ from the model", Case: cs, Model: wantEff, Impl: eff, Seed: seed, Index: idx})
			return
		}
		// direct monitors for the simple modes
		switch {
		case st.Kind == "upgrade" && st.Reset:
			if !jsonEqual(gotCfg, orEmptyMap(st.Vals)) {
				rep.Issue(Issue{Kind: "monitor", Fingerprint: "C13:reset-not-new-values", What: "reset-values: the recorded values are not the new values alone", Case: cs, Impl: gotCfg, Seed: seed, Index: idx})
			}
		case st.Kind == "upgrade" && !st.Reuse && !st.ResetThenReuse:
			prev := orEmptyMap(implRevs[curIdx(revs)].Config)
			exp := orEmptyMap(st.Vals)
			if len(st.Vals) == 0 && len(prev) > 0 {
				exp = prev
			}
			if !jsonEqual(gotCfg, exp) {
				rep.Issue(Issue{Kind: "monitor", Fingerprint: "C13:default-mode", What: "no flag: the recorded values are neither the new ones (if given) nor the previous ones", Case: cs, Impl: gotCfg, Seed: seed, Index: idx})
			}
		case st.Kind == "upgrade":
			// every non-null scalar the user gave at top level is recorded; untouched top-level keys are kept
			prev := orEmptyMap(implRevs[curIdx(revs)].Config)
			for kk, v := range st.Vals {
				if _, isMap := v.(map[string]any); !isMap && v != nil && !jsonEqual(gotCfg[kk], v) {
					rep.Issue(Issue{Kind: "monitor", Fingerprint: "C13:reuse-new-value-lost", What: "reuse: the new value of " + kk + " is not what was recorded", Case: cs, Impl: gotCfg, Seed: seed, Index: idx})
				}
			}
			for kk, v := range prev {
				if _, given := st.Vals[kk]; !given && !jsonEqual(gotCfg[kk], v) {
					rep.Issue(Issue{Kind: "monitor", Fingerprint: "C13:reuse-old-value-lost", What: "reuse: the previous value of " + kk + " (not mentioned in the new values) was not kept", Case: cs, Impl: gotCfg, Seed: seed, Index: idx})
				}
			}
		case st.Kind == "rollback":
			t := len(implRevs) - 2
			if st.Version > 0 {
				t = st.Version - 1
			}
			if !jsonEqual(gotCfg, orEmptyMap(implRevs[t].Config)) || !jsonEqual(orEmptyMap(stored.Chart.Values), orEmptyMap(implRevs[t].Chart.Values)) {
				rep.Issue(Issue{Kind: "monitor", Fingerprint: "C13:rollback-values-changed", What: "rollback: values or chart defaults differ from the target revision's", Case: cs, Impl: gotCfg, Seed: seed, Index: idx})
			}
		}
		// snapshot (deep copy: the memory driver hands out shared objects)
		snap := &release.Release{Config: deepCopyMap(stored.Config), Chart: &chart.Chart{Values: deepCopyMap(stored.Chart.Values)}}
		implRevs = append(implRevs, snap)
		if !st.Fail {
			for i := range revs {
				revs[i].Deployed = false
			}
		}
		revs = append(revs, modelRev{ChartValues: deepCopyMap(want.ChartValues), Config: deepCopyMap(want.Config), Deployed: !st.Fail})
		// earlier revisions must not have been changed by this step (aliasing)
		if hs, herr := cfg.Releases.History("app"); herr == nil {
			for _, h := range hs {
				if h.Version >= 1 && h.Version <= len(implRevs) {
					if !jsonEqual(orEmptyMap(h.Config), orEmptyMap(implRevs[h.Version-1].Config)) {
						rep.Issue(Issue{Kind: "monitor", Fingerprint: "C13:earlier-revision-changed", What: fmt.Sprintf("the stored values of revision %d changed when revision %d was created", h.Version, len(implRevs)), Case: cs, Impl: h.Config, Model: implRevs[h.Version-1].Config, Seed: seed, Index: idx})
					}
				}
			}
		}
		rep.Traces++
	}
	rep.Count(map[string]any{"backend": backend, "history": hist}, nontrivial)
	if idx < 2 {
		rep.Sample(map[string]any{"backend": backend, "history": hist})
	}
}
