package main

import (
	"encoding/json"
	"fmt"
	"k8s.io/client-go/rest"
	"os"
	"path/filepath"
	"sort"
	"strings"
	"sync"

	"helm.sh/helm/v4/pkg/action"
	chart "helm.sh/helm/v4/pkg/chart/v2"
	"helm.sh/helm/v4/pkg/chart/v2/loader"
	chartutil "helm.sh/helm/v4/pkg/chart/v2/util"
	"helm.sh/helm/v4/pkg/engine"
	"helm.sh/helm/v4/pkg/storage"
	"helm.sh/helm/v4/pkg/storage/driver"
)

func init() { subs["render"] = corrRender }

var tplBodies = []string{
	"apiVersion: v1\nkind: ConfigMap\nmetadata:\n  name: {{ .Release.Name }}-{{ .Chart.Name }}-%d\ndata:\n  v: {{ .Values.a | default \"none\" | quote }}\n  all: |\n{{ toYaml .Values | indent 4 }}\n",
	"apiVersion: v1\nkind: Secret\nmetadata:\n  name: {{ include \"helper.name\" . }}-%d\nstringData:\n{{- range $k, $v := .Values.m }}\n  {{ $k }}: {{ $v | quote }}\n{{- end }}\n  sum: {{ .Values | toJson | sha256sum }}\n",
	"apiVersion: v1\nkind: ConfigMap\nmetadata:\n  name: files-%d\ndata:\n  file: {{ .Files.Get \"files/data.txt\" | quote }}\n  glob: \"{{ range $p, $_ := .Files.Glob \"files/*\" }}{{ $p }},{{ end }}\"\n  lines: \"{{ range .Files.Lines \"files/data.txt\" }}[{{ . }}]{{ end }}\"\n",
	"apiVersion: batch/v1\nkind: Job\nmetadata:\n  name: hook-%d\n  annotations:\n    \"helm.sh/hook\": pre-install,post-upgrade\n    \"helm.sh/hook-weight\": \"{{ .Values.w | default 0 }}\"\n",
	"{{- if .Values.enabled }}\napiVersion: v1\nkind: Service\nmetadata:\n  name: svc-%d\n{{- end }}\n---\napiVersion: v1\nkind: ServiceAccount\nmetadata:\n  name: {{ tpl .Values.tplname . }}-%d\n",
	"apiVersion: v1\nkind: ConfigMap\nmetadata:\n  name: caps-%d\ndata:\n  kube: {{ .Capabilities.KubeVersion.Version | quote }}\n  up: \"{{ .Release.IsUpgrade }}\"\n  sub: \"{{ range $n, $_ := .Subcharts }}{{ $n }},{{ end }}\"\n",
}

func genRenderChart(r *Rng, depth int, name string) *chart.Chart {
	c := &chart.Chart{Metadata: &chart.Metadata{APIVersion: "v2", Name: name, Version: "0.1.0"}}
	c.Values = map[string]any{"a": Pick(r, []any{"x", 1.0, true, nil}), "m": map[string]any{"k3": "v3", "k1": "v1", "k2": 2.0, "z": false}, "enabled": r.Bool(), "tplname": "{{ .Release.Name }}-t", "w": float64(r.Intn(5) - 2)}
	n := 1 + r.Intn(5)
	names := []string{"a.yaml", "b.yaml", "sub/c.yaml", "z.yaml", "sub/deep/d.yaml", "0.yaml", "B.yaml"}
	for i := 0; i < n; i++ {
		c.Templates = append(c.Templates, &chart.File{Name: "templates/" + names[i], Data: []byte(fmt.Sprintf(Pick(r, tplBodies), i))})
	}
	c.Templates = append(c.Templates, &chart.File{Name: "templates/_helpers.tpl", Data: []byte("{{- define \"helper.name\" -}}{{ .Release.Name }}-{{ .Chart.Name }}{{- end -}}\n")})
	if r.Chance(50) {
		c.Templates = append(c.Templates, &chart.File{Name: "templates/NOTES.txt", Data: []byte("Installed {{ .Release.Name }} in {{ .Release.Namespace }}\n")})
	}
	c.Files = []*chart.File{{Name: "files/data.txt", Data: []byte("line1\nline2\n")}, {Name: "files/other.txt", Data: []byte("o")}}
	if depth < 2 {
		for i, sn := range []string{"suba", "subb"} {
			if r.Chance(50 - 20*i) {
				c.AddDependency(genRenderChart(r, depth+1, sn))
			}
		}
	}
	return c
}

type renderOut struct {
	Manifest, Notes string
	Hooks           []string
	Err             string
}

func renderOnce(c *chart.Chart, vals map[string]any, subNotes bool) renderOut {
	cfg := &action.Configuration{Releases: storage.Init(driver.NewMemory()), Capabilities: chartutil.DefaultCapabilities}
	in := action.NewInstall(cfg)
	in.ReleaseName, in.Namespace, in.DryRun, in.ClientOnly, in.SubNotes = "rel", "ns", true, true, subNotes
	var o renderOut
	if p := safely(func() {
		rel, err := in.Run(c, vals)
		if err != nil {
			o.Err = err.Error()
			return
		}
		o.Manifest, o.Notes = rel.Manifest, rel.Info.Notes
		for _, h := range rel.Hooks {
			o.Hooks = append(o.Hooks, h.Path+"|"+h.Name+"|"+fmt.Sprint(h.Weight)+"|"+h.Manifest)
		}
	}); p != "" {
		o.Err = "panic: " + p
	}
	return o
}

func cloneChart(c *chart.Chart, dir string) (*chart.Chart, *chart.Chart) {
	// the same chart loaded from an archive and from a directory (different file orders)
	p, err := chartutil.Save(withValuesRaw(c), dir)
	if err != nil {
		return nil, nil
	}
	a, err1 := loader.Load(p)
	if err := chartutil.SaveDir(c, filepath.Join(dir, "d")); err != nil {
		return a, nil
	}
	d, err2 := loader.LoadDir(filepath.Join(dir, "d", c.Name()))
	if err1 != nil || err2 != nil {
		return nil, nil
	}
	return a, d
}

func corrRender(seed uint64, n int, tier string, out string, replay string) {
	m := StartModel()
	defer m.Close()
	rep := NewReport("C05", "render", seed, "case = generated chart (1-5 templates per chart using values, ranges over maps, include, tpl, toYaml, Files.Get/Glob/Lines, hooks, NOTES, up to two levels of subcharts) rendered 4 times sequentially, 4 times concurrently, under a changed environment and working directory, and from archive- and directory-loaded copies: manifests, hooks and notes must be byte-identical; the parse order of templates is tied to the model through duplicate `define`s (the last parsed wins); probes: a values-mutating template rendered three times from one loaded chart (identical output, stored defaults untouched), env/expandenv undefined, getHostByName stubbed (plain and cluster-aware engines), Files cannot leave the chart; separate streams reproduce the known order dependences (sub-notes, AsConfig with duplicate base names) and the schema $ref to a host file; non-trivial = at least 2 templates; distinct = hash of chart")
	tmp, _ := os.MkdirTemp("", "corr-render")
	defer os.RemoveAll(tmp)
	cwd, _ := os.Getwd()
	for i := 0; i < n; i++ {
		r := NewRng(seed, uint64(i))
		c := genRenderChart(r, 0, "p")
		vals := map[string]any{}
		if r.Chance(50) {
			vals["a"] = "user"
			vals["m"] = map[string]any{"k0": "u", "k2": nil}
		}
		key, _ := json.Marshal(chartObs(c, false))
		rep.Count(string(key), len(c.Templates) >= 3)
		if i < 2 {
			rep.Sample(chartObs(c, false))
		}
		base := renderOnce(c, deepCopyMap(vals), false)
		if base.Err != "" {
			rep.H("render-error")
			rep.Issue(Issue{Kind: "monitor", Fingerprint: "C05:render-error", What: "generated chart does not render: " + trunc(base.Err, 300), Case: chartObs(c, false), Seed: seed, Index: i})
			continue
		}
		same := func(kind string, o renderOut) {
			if !jsonEqual(o, base) {
				rep.Issue(Issue{Kind: "monitor", Fingerprint: "C05:nondeterministic:" + kind, What: "render differs (" + kind + ")", Case: chartObs(c, false), Model: base, Impl: o, Seed: seed, Index: i})
			}
			rep.H("same:" + kind)
		}
		for k := 0; k < 3; k++ {
			same("repeat", renderOnce(c, deepCopyMap(vals), false))
		}
		var wg sync.WaitGroup
		outs := make([]renderOut, 4)
		for k := range outs {
			wg.Add(1)
			go func(k int) { defer wg.Done(); outs[k] = renderOnce(c, deepCopyMap(vals), false) }(k)
		}
		wg.Wait()
		for _, o := range outs {
			same("concurrent", o)
		}
		os.Setenv("HOME", fmt.Sprintf("/nonexistent-%d", i))
		os.Setenv("HELM_NAMESPACE", "other")
		os.Chdir(tmp)
		same("env+cwd", renderOnce(c, deepCopyMap(vals), false))
		os.Chdir(cwd)
		os.Unsetenv("HELM_NAMESPACE")
		if i%4 == 0 {
			sub := filepath.Join(tmp, fmt.Sprintf("cl-%d", i))
			os.MkdirAll(sub, 0o755)
			a, d := cloneChart(c, sub)
			if a != nil {
				same("from-archive", renderOnce(a, deepCopyMap(vals), false))
			}
			if d != nil {
				same("from-directory", renderOnce(d, deepCopyMap(vals), false))
			}
			os.RemoveAll(sub)
		}
		rep.Traces++
		// parse order: duplicate defines, the last parsed template wins
		defineOrderCase(m, rep, r, seed, i)
		// execution order: templates with side effects on the shared values
		execOrderCase(m, rep, r, seed, i)
	}
	renderProbes(rep, seed)
	knownOrderFindings(m, rep, tmp, seed)
	rep.Write(out, m)
}

func defineOrderCase(m *Model, rep *Report, r *Rng, seed uint64, idx int) {
	paths := []string{"templates/a.tpl", "templates/b.tpl", "templates/sub/a.tpl", "templates/sub/deep/x.tpl", "templates/z.tpl", "templates/B.tpl", "templates/sub/b.tpl"}
	c := &chart.Chart{Metadata: &chart.Metadata{APIVersion: "v2", Name: "p", Version: "0.1.0"}}
	sub := &chart.Chart{Metadata: &chart.Metadata{APIVersion: "v2", Name: "s", Version: "0.1.0"}}
	var keys []any
	add := func(ch *chart.Chart, prefix, p string) {
		full := prefix + p
		ch.Templates = append(ch.Templates, &chart.File{Name: p, Data: []byte("{{- define \"who\" -}}" + full + "{{- end -}}")})
		keys = append(keys, full)
	}
	for _, p := range paths {
		if r.Chance(50) {
			add(c, "p/", p)
		}
		if r.Chance(30) {
			add(sub, "p/charts/s/", p)
		}
	}
	c.Templates = append(c.Templates, &chart.File{Name: "templates/probe.yaml", Data: []byte("who: {{ include \"who\" . }}\n")})
	keys = append(keys, "p/templates/probe.yaml")
	if len(sub.Templates) > 0 {
		c.AddDependency(sub)
	}
	if len(keys) < 2 {
		return
	}
	vals, _ := chartutil.ToRenderValues(c, map[string]any{}, chartutil.ReleaseOptions{Name: "r", Namespace: "n"}, nil)
	var files map[string]string
	var err error
	safely(func() { files, err = engine.Render(c, vals) })
	if err != nil {
		rep.H("define-render-error")
		return
	}
	got := strings.TrimSpace(strings.TrimPrefix(files["p/templates/probe.yaml"], "who: "))
	w := m.Query(map[string]any{"op": "sortTemplates", "keys": keys})
	order, _ := w["order"].([]any)
	// the last parsed template that defines "who" wins
	want := ""
	for _, k := range order {
		if k != "p/templates/probe.yaml" {
			want = k.(string)
		}
	}
	rep.H("define-order")
	if got != want {
		rep.Issue(Issue{Kind: "disagreement", Fingerprint: "C05:model:sortTemplates", What: "the template that wins a duplicate define differs from the model's parse order", Case: map[string]any{"keys": keys}, Model: map[string]any{"order": order, "winner": want}, Impl: got, Seed: seed, Index: idx})
	}
}

// execOrderCase: every template appends its own path to a list in the shared .Values and prints the
// list; the longest list is the order in which the engine executed the templates, which must be
// the model's order (and the same on every render).
func execOrderCase(m *Model, rep *Report, r *Rng, seed uint64, idx int) {
	paths := []string{"templates/a.yaml", "templates/b.yaml", "templates/sub/a.yaml", "templates/sub/deep/x.yaml", "templates/z.yaml", "templates/B.yaml", "templates/sub/b.yaml", "templates/c.yaml", "templates/0.yaml"}
	c := &chart.Chart{Metadata: &chart.Metadata{APIVersion: "v2", Name: "p", Version: "0.1.0"}}
	var keys []any
	for _, p := range paths {
		if r.Chance(65) {
			full := "p/" + p
			c.Templates = append(c.Templates, &chart.File{Name: p, Data: []byte("{{- $_ := set .Values \"trail\" (printf \"%s %s\" (default \"\" .Values.trail) \"" + full + "\") -}}\ntrail: {{ .Values.trail | quote }}\n")})
			keys = append(keys, full)
		}
	}
	if len(keys) < 3 {
		return
	}
	w := m.Query(map[string]any{"op": "sortTemplates", "keys": keys})
	var want []string
	for _, k := range w["order"].([]any) {
		want = append(want, k.(string))
	}
	for rep_ := 0; rep_ < 3; rep_++ {
		vals, _ := chartutil.ToRenderValues(c, map[string]any{}, chartutil.ReleaseOptions{Name: "r", Namespace: "n"}, nil)
		var files map[string]string
		var err error
		safely(func() { files, err = engine.Render(c, vals) })
		if err != nil {
			rep.H("exec-order-render-error")
			return
		}
		longest := ""
		for _, v := range files {
			if len(v) > len(longest) {
				longest = v
			}
		}
		got := strings.Fields(strings.Trim(strings.TrimSpace(strings.TrimPrefix(strings.TrimSpace(longest), "trail:")), "\""))
		rep.H("exec-order")
		if canon(got) != canon(want) {
			rep.Issue(Issue{Kind: "disagreement", Fingerprint: "C05:model:exec-order", What: "the order in which the templates were executed differs from the model's (sorted) order", Case: map[string]any{"keys": keys}, Model: want, Impl: got, Seed: seed, Index: idx})
			return
		}
	}
}

func renderProbes(rep *Report, seed uint64) {
	probe := func(tpl string) (string, error) {
		c := &chart.Chart{Metadata: &chart.Metadata{APIVersion: "v2", Name: "p", Version: "0.1.0"},
			Templates: []*chart.File{{Name: "templates/x.yaml", Data: []byte(tpl)}},
			Files:     []*chart.File{{Name: "files/in.txt", Data: []byte("inside")}}}
		vals, _ := chartutil.ToRenderValues(c, map[string]any{}, chartutil.ReleaseOptions{Name: "r", Namespace: "n"}, nil)
		var files map[string]string
		var err error
		if p := safely(func() { files, err = engine.Render(c, vals) }); p != "" {
			return "", fmt.Errorf("panic: %s", p)
		}
		return files["p/templates/x.yaml"], err
	}
	os.Setenv("VERIF_CANARY", "leaked-env-value")
	for _, fn := range []string{`{{ env "VERIF_CANARY" }}`, `{{ expandenv "$VERIF_CANARY" }}`} {
		out, err := probe("v: " + fn)
		rep.H("probe:env")
		if err == nil || strings.Contains(out, "leaked-env-value") {
			rep.Issue(Issue{Kind: "monitor", Fingerprint: "C05:env-reachable", What: "a template can read the process environment through " + fn, Impl: out, Seed: seed})
		}
	}
	// concurrent renders with different settings (each its own configuration, chart object and --api-versions list)
	// see their own capabilities only: every render equals the one made alone with the same settings
	{
		mk := func() *chart.Chart {
			return &chart.Chart{Metadata: &chart.Metadata{APIVersion: "v2", Name: "caps", Version: "0.1.0"},
				Templates: []*chart.File{{Name: "templates/x.yaml", Data: []byte("has: {{ range $i := until 8 }}{{ $.Capabilities.APIVersions.Has (printf \"demo.example/v%d\" $i) }} {{ end }}\nn: {{ len .Capabilities.APIVersions }}\nkube: {{ .Capabilities.KubeVersion.Version }}\nrel: {{ .Release.Name }}/{{ .Release.Namespace }}\n")}}}
		}
		one := func(k int) string {
			cfg := &action.Configuration{Releases: storage.Init(driver.NewMemory()), Capabilities: chartutil.DefaultCapabilities.Copy()}
			in := action.NewInstall(cfg)
			in.ReleaseName, in.Namespace, in.DryRun, in.ClientOnly = fmt.Sprintf("rel%d", k), fmt.Sprintf("ns%d", k), true, true
			in.APIVersions = chartutil.VersionSet{fmt.Sprintf("demo.example/v%d", k)}
			if k%2 == 1 {
				in.KubeVersion = &chartutil.KubeVersion{Version: fmt.Sprintf("v1.%d.0", 20+k), Major: "1", Minor: fmt.Sprint(20 + k)}
			}
			var o string
			if p := safely(func() {
				rel, err := in.Run(mk(), map[string]any{})
				if err != nil {
					o = "error: " + err.Error()
					return
				}
				o = rel.Manifest
			}); p != "" {
				o = "panic: " + p
			}
			return o
		}
		const workers = 8
		var ref [workers]string
		for k := 0; k < workers; k++ {
			ref[k] = one(k)
		}
		var wg sync.WaitGroup
		var bad [workers]string
		for k := 0; k < workers; k++ {
			wg.Add(1)
			go func(k int) {
				defer wg.Done()
				for i := 0; i < 150; i++ {
					if o := one(k); o != ref[k] && bad[k] == "" {
						bad[k] = o
					}
				}
			}(k)
		}
		wg.Wait()
		rep.H("probe:concurrent-settings")
		for k := 0; k < workers; k++ {
			if bad[k] != "" {
				rep.Issue(Issue{Kind: "monitor", Fingerprint: "C05:concurrent-settings-leak", What: "a client-only render running next to renders with other --api-versions / --kube-version settings differs from the same render made alone", Model: ref[k], Impl: bad[k], Seed: seed})
				break
			}
		}
	}
	out, err := probe(`v: "{{ getHostByName "localhost" }}"`)
	rep.H("probe:dns")
	if err != nil || strings.TrimSpace(out) != `v: ""` {
		rep.Issue(Issue{Kind: "monitor", Fingerprint: "C05:dns-reachable", What: "getHostByName resolves although EnableDNS is off", Impl: out + fmt.Sprint(err), Seed: seed})
	}
	// repetition: a template that writes into a nested table of .Values (set / unset / merge do that) must not change
	// what the next render of the same loaded chart sees, nor the chart's stored defaults -- with and without user
	// values, with and without a subchart
	for _, withSub := range []bool{false, true} {
		for _, user := range []map[string]any{{}, {"other": 1.0}} {
			c := &chart.Chart{Metadata: &chart.Metadata{APIVersion: "v2", Name: "p", Version: "0.1.0"},
				Values:    map[string]any{"m": map[string]any{"k": "v", "n": map[string]any{"d": "e"}}, "l": []any{"a"}},
				Templates: []*chart.File{{Name: "templates/x.yaml", Data: []byte(`{{ $_ := set .Values.m "k" (printf "%s-x" .Values.m.k) }}{{ $_ := set .Values.m.n "new" "1" }}{{ $_ := unset .Values.m.n "d" }}v: {{ .Values.m.k }} {{ toJson .Values.m.n }}`)}}}
			if withSub {
				c.AddDependency(&chart.Chart{Metadata: &chart.Metadata{APIVersion: "v2", Name: "sub", Version: "0.1.0"}, Values: map[string]any{"s": map[string]any{"t": "u"}},
					Templates: []*chart.File{{Name: "templates/y.yaml", Data: []byte(`{{ $_ := set .Values.s "t" "changed" }}w: {{ .Values.s.t }}`)}}})
			}
			before := canon(chartValuesSnapshot(c))
			var outs []string
			for k := 0; k < 3; k++ {
				vals, err := chartutil.ToRenderValues(c, deepCopyMap(user), chartutil.ReleaseOptions{Name: "r", Namespace: "n"}, nil)
				if err != nil {
					break
				}
				files, _ := engine.Render(c, vals)
				outs = append(outs, canon(files))
			}
			rep.H("probe:repeat-mutating-template")
			cs := map[string]any{"probe": "values-mutating template rendered three times", "subchart": withSub, "userValues": user}
			rep.Count(cs, true)
			for k := 1; k < len(outs); k++ {
				if outs[k] != outs[0] {
					rep.Issue(Issue{Kind: "monitor", Fingerprint: "C05:repeat-differs", What: fmt.Sprintf("render %d of the same loaded chart differs from render 1 (a template wrote into .Values)", k+1), Case: cs, Model: outs[0], Impl: outs[k], Seed: seed})
					break
				}
			}
			if after := canon(chartValuesSnapshot(c)); after != before {
				rep.Issue(Issue{Kind: "monitor", Fingerprint: "C04:chart-defaults-mutated", What: "rendering changed the chart's stored default values", Case: cs, Model: before, Impl: after, Seed: seed})
			}
		}
	}
	// ... and through every way of making an engine that knows a cluster (the engines install/upgrade use when
	// they may talk to the server): DNS stays off unless EnableDNS says otherwise
	{
		c := &chart.Chart{Metadata: &chart.Metadata{APIVersion: "v2", Name: "p", Version: "0.1.0"},
			Templates: []*chart.File{{Name: "templates/x.yaml", Data: []byte(`v: "{{ getHostByName "localhost" }}"`)}}}
		vals, _ := chartutil.ToRenderValues(c, map[string]any{}, chartutil.ReleaseOptions{Name: "r", Namespace: "n"}, nil)
		cfg := &rest.Config{Host: "http://127.0.0.1:1"}
		engines := map[string]func() (map[string]string, error){
			"New":              func() (map[string]string, error) { return engine.New(cfg).Render(c, vals) },
			"RenderWithClient": func() (map[string]string, error) { return engine.RenderWithClient(c, vals, cfg) },
			"New+Strict":       func() (map[string]string, error) { e := engine.New(cfg); e.Strict = true; return e.Render(c, vals) },
			"New+LintMode":     func() (map[string]string, error) { e := engine.New(cfg); e.LintMode = true; return e.Render(c, vals) },
			"zero":             func() (map[string]string, error) { return engine.Engine{}.Render(c, vals) },
		}
		for _, name := range sortedKeys(engines) {
			var files map[string]string
			var err error
			safely(func() { files, err = engines[name]() })
			rep.H("probe:dns:" + name)
			if err != nil || strings.TrimSpace(files["p/templates/x.yaml"]) != `v: ""` {
				rep.Issue(Issue{Kind: "monitor", Fingerprint: "C05:dns-reachable", What: "getHostByName resolves although EnableDNS is off (engine made by " + name + ")", Impl: files["p/templates/x.yaml"] + fmt.Sprint(err), Seed: seed})
			}
		}
	}
	hostFile := "/etc/hostname"
	for _, p := range []string{hostFile, "../../../../../../etc/hostname", "files/../../x", "/proc/self/environ"} {
		out, err := probe("v: \"{{ .Files.Get \"" + p + "\" }}\"\ng: \"{{ range $p, $_ := .Files.Glob \"" + p + "\" }}{{ $p }}{{ end }}\"")
		rep.H("probe:files")
		if err != nil || !strings.Contains(out, `v: ""`) || !strings.Contains(out, `g: ""`) {
			rep.Issue(Issue{Kind: "monitor", Fingerprint: "C05:host-file-reachable", What: "Files reaches outside the chart: " + p, Impl: out + fmt.Sprint(err), Seed: seed})
		}
	}
	out, _ = probe(`v: {{ .Files.Get "files/in.txt" }}`)
	if strings.TrimSpace(out) != "v: inside" {
		rep.Issue(Issue{Kind: "monitor", Fingerprint: "C05:files-own", What: "Files.Get of a chart file failed", Impl: out, Seed: seed})
	}
}

// knownOrderFindings: the three known dependences on things outside (chart, values, options).
func knownOrderFindings(m *Model, rep *Report, tmp string, seed uint64) {
	// 1. sub-notes
	p := &chart.Chart{Metadata: &chart.Metadata{APIVersion: "v2", Name: "p", Version: "0.1.0"}, Templates: []*chart.File{{Name: "templates/NOTES.txt", Data: []byte("PARENT")}}}
	for _, n := range []string{"s1", "s2", "s3"} {
		p.AddDependency(&chart.Chart{Metadata: &chart.Metadata{APIVersion: "v2", Name: n, Version: "0.1.0"}, Templates: []*chart.File{{Name: "templates/NOTES.txt", Data: []byte("SUB-" + n)}}})
	}
	seen := map[string]bool{}
	for i := 0; i < 40; i++ {
		seen[renderOnce(p, map[string]any{}, true).Notes] = true
	}
	rep.H(fmt.Sprintf("subnotes-distinct=%d", len(seen)))
	if len(seen) > 1 {
		var l []string
		for k := range seen {
			l = append(l, k)
		}
		sort.Strings(l)
		rep.Issue(Issue{Kind: "monitor", Fingerprint: "C05:subnotes-order", What: fmt.Sprintf("with sub-notes on, %d different notes texts in 40 renders of the same chart", len(seen)), Impl: l, Seed: seed})
	} else {
		// and the one text is the model's: the notes files in path order
		mr := m.Query(map[string]any{"op": "notes", "subNotes": true, "mainNotes": "p/templates/NOTES.txt", "files": []any{
			[]any{"p/templates/NOTES.txt", "PARENT"}, []any{"p/charts/s2/templates/NOTES.txt", "SUB-s2"},
			[]any{"p/charts/s1/templates/NOTES.txt", "SUB-s1"}, []any{"p/charts/s3/templates/NOTES.txt", "SUB-s3"}}})
		for k := range seen {
			if want, _ := mr["notes"].(string); want != k {
				rep.Issue(Issue{Kind: "disagreement", Fingerprint: "C05:model:subnotes", What: "the notes text with sub-notes on differs from the model (files in path order)", Model: want, Impl: k, Seed: seed})
			}
		}
	}
	// 2. AsConfig with duplicate base names
	c := &chart.Chart{Metadata: &chart.Metadata{APIVersion: "v2", Name: "p", Version: "0.1.0"},
		Templates: []*chart.File{{Name: "templates/cm.yaml", Data: []byte("data:\n{{ (.Files.Glob \"files/**\").AsConfig | indent 2 }}\n")}},
		Files:     []*chart.File{{Name: "files/a/x.txt", Data: []byte("from-a")}, {Name: "files/b/x.txt", Data: []byte("from-b")}, {Name: "files/c/x.txt", Data: []byte("from-c")}}}
	seen = map[string]bool{}
	for i := 0; i < 40; i++ {
		seen[renderOnce(c, map[string]any{}, false).Manifest] = true
	}
	rep.H(fmt.Sprintf("asconfig-distinct=%d", len(seen)))
	if len(seen) > 1 {
		rep.Issue(Issue{Kind: "monitor", Fingerprint: "C05:asconfig-dup-basename", What: fmt.Sprintf("Files.Glob(...).AsConfig with files of equal base name: %d different manifests in 40 renders", len(seen)), Seed: seed})
	}
	// 3. schema $ref to a host file
	canary := filepath.Join(tmp, "canary.json")
	verdicts := map[string]bool{}
	for _, content := range []string{`{"type":"object","required":["must"]}`, `{"type":"object"}`} {
		os.WriteFile(canary, []byte(content), 0o644)
		sc := &chart.Chart{Metadata: &chart.Metadata{APIVersion: "v2", Name: "p", Version: "0.1.0"}, Schema: []byte(fmt.Sprintf(`{"$ref": "file://%s"}`, canary))}
		o := renderOnce(sc, map[string]any{}, false)
		verdicts[fmt.Sprint(o.Err != "")] = true
	}
	rep.H(fmt.Sprintf("schema-ref-verdicts=%d", len(verdicts)))
	if len(verdicts) > 1 {
		rep.Issue(Issue{Kind: "monitor", Fingerprint: "C05:schema-ref-file", What: "a values.schema.json with $ref file:///... reads a host file: the install outcome flips with the content of a file outside the chart", Seed: seed})
	}
}
