package main

import (
	"fmt"
	"os"
	"path/filepath"
	"sort"
	"strconv"
	"strings"

	"github.com/Masterminds/semver/v3"

	"helm.sh/helm/v4/pkg/registry"
	"helm.sh/helm/v4/pkg/repo"
)

func init() { subs["index"] = corrIndex }

var verPool = []string{"1.0.0", "1.0.1", "1.2.0", "2.0.0", "2.0.0-rc.1", "2.0.0-rc.2", "2.0.0-rc.10", "2.0.0-rc.9", "2.0.0-alpha", "2.0.0-alpha.1", "2.0.0-alpha.beta", "2.0.0-1", "2.0.0-beta.2", "2.0.0-beta.11", "1.0.0+build5", "v1.5.0", "1.5", "3", "0.0.1", "10.0.0", "1.10.0", "1.9.0", "0.1.0-x.7.z.92", "1.0.0-0.3.7", "2.1.0-rc1", "2.1.0-rc"}
var badVers = []string{"latest", "1.2.3.4", "", "a.b.c", "1.0.0-", "01.2.3"}
var verQueries = []string{"", "", "1.0.0", "2.0.0", "2.0.0-rc.1", "^1.0.0", "~1.2", ">=1.0.0 <2.0.0", ">1.0.0-0", "*", "1.x", ">=2.0.0-alpha", "<1.0.0", "bogus constraint", "v1.5.0", "1.5", "^2.0.0-0", "3", "=1.0.1", "!=2.0.0", ">= 1.2, < 3.0.0-0", "1.0.0+build5", "~2.0.0-rc"}

// entries of equal precedence (build metadata, leading v, partial versions): their relative order after
// loading is unspecified, but a query by the exact version string must still find its own entry
var tiePool = []string{"1.2.3", "v1.2.3", "1.2.3+build.1", "1.2.3+build.2", "1.0.0", "v1.0.0", "1.0.0+build5", "1.0.0+build6", "2.0.0-rc.1", "2.0.0-rc.1+x", "v2.0.0-rc.1", "1.5", "1.5.0", "v1.5.0", "v1.5", "0.9.0", "3.0.0"}
var tieQueries = []string{"", "^1.0.0", "~1.2", "*", ">=1.0.0", "1.x", ">=2.0.0-0", "1.2.4"}

type idxEntry struct {
	null    bool
	noName  bool
	noURL   bool
	version string
}

func verJSON(s string) any {
	v, err := semver.NewVersion(s)
	if err != nil {
		return nil
	}
	pre := []any{}
	if v.Prerelease() != "" {
		for _, id := range strings.Split(v.Prerelease(), ".") {
			if n, err := strconv.ParseUint(id, 10, 64); err == nil && (id == "0" || !strings.HasPrefix(id, "0")) {
				pre = append(pre, map[string]any{"num": n})
			} else {
				pre = append(pre, map[string]any{"alnum": id})
			}
		}
	}
	return map[string]any{"major": v.Major(), "minor": v.Minor(), "patch": v.Patch(), "pre": pre}
}

// idxBase: where the chart URLs of generated index files point (the resolve step serves archives there)
var idxBase = "http://example.com"

func indexYAML(es []idxEntry) string {
	var b strings.Builder
	b.WriteString("apiVersion: v1\nentries:\n  foo:\n")
	for _, e := range es {
		if e.null {
			b.WriteString("  - null\n")
			continue
		}
		first := true
		w := func(s string) {
			if first {
				b.WriteString("  - " + s + "\n")
				first = false
			} else {
				b.WriteString("    " + s + "\n")
			}
		}
		if !e.noName {
			w("name: foo")
		}
		w(fmt.Sprintf("version: %q", e.version))
		if !e.noURL {
			w(fmt.Sprintf("urls: [\"%s/foo-%s.tgz\"]", idxBase, strings.ReplaceAll(e.version, "\"", "")))
		}
	}
	return b.String()
}

func loadIdx(dir, content string) (idx *repo.IndexFile, err error, p string) {
	f := filepath.Join(dir, "index.yaml")
	os.WriteFile(f, []byte(content), 0o644)
	p = safely(func() { idx, err = repo.LoadIndexFile(f) })
	return
}

func corrIndex(seed uint64, n int, tier string, out string, replay string) {
	m := StartModel()
	defer m.Close()
	rep := NewReport("C18", "index", seed, "case = index file for one chart with 0-8 entries in random order drawn from a pool of versions (pre-releases, build metadata, leading v, partial versions, invalid strings), null entries, name-less and URL-less entries, then 3 queries (empty, exact strings, constraint expressions, invalid constraints); LoadIndexFile + IndexFile.Get + GetTagMatchingVersionOrConstraint compared with the model; every third case the index is the cached index of a repository and downloader.Manager.Update resolves a dependency range against it (internal/resolver), the version written to Chart.lock is compared with the model's resolvePick; the library's verdicts (parse, constraint check, validity) are handed to the model; Lean precedence is compared with Masterminds Compare on every pair; non-trivial = at least 2 entries; distinct = hash of file and queries")
	dir, _ := os.MkdirTemp("", "corr-index")
	defer os.RemoveAll(dir)
	resolveServer() // chart URLs of the generated index files point at a local server (dependency resolution downloads them)
	// precedence: Lean key order vs library, all pairs of the pool
	pool := append([]string{}, verPool...)
	for i := range pool {
		for j := range pool {
			vi, _ := semver.NewVersion(pool[i])
			vj, _ := semver.NewVersion(pool[j])
			r := m.Query(map[string]any{"op": "verLe", "a": verJSON(pool[i]), "b": verJSON(pool[j])})
			if r["le"] != (vi.Compare(vj) <= 0) {
				rep.Issue(Issue{Kind: "disagreement", Fingerprint: "C18:precedence", What: "Lean SemVer precedence differs from Masterminds", Case: map[string]any{"a": pool[i], "b": pool[j]}, Model: r["le"], Impl: vi.Compare(vj) <= 0, Seed: seed})
			}
			rep.H("precedence-pair")
		}
	}
	for i := 0; i < n; i++ {
		r := NewRng(seed, uint64(i))
		ne := r.Intn(9)
		var es []idxEntry
		used := map[string]bool{}
		nulls := i%5 == 3
		ties := i%4 == 2
		for j := 0; j < ne; j++ {
			e := idxEntry{}
			switch k := r.Intn(100); {
			case k < 8 && nulls:
				e.null = true
			case k < 18:
				e.version = Pick(r, badVers)
			case ties:
				e.version = Pick(r, tiePool)
			default:
				e.version = Pick(r, verPool)
			}
			if !e.null {
				// no two entries of equal precedence (their relative order is unspecified)
				key := e.version
				if v, err := semver.NewVersion(e.version); err == nil {
					key = fmt.Sprintf("%d.%d.%d-%s", v.Major(), v.Minor(), v.Patch(), v.Prerelease())
				} else {
					key = "invalid"
				}
				if ties && key != "invalid" {
					key = e.version
				}
				if used[key] {
					continue
				}
				used[key] = true
				e.noName = r.Chance(6)
				e.noURL = r.Chance(10)
			}
			es = append(es, e)
		}
		indexCase(m, rep, r, dir, es, seed, i, ties)
	}
	rep.Write(out, m)
}

func indexCase(m *Model, rep *Report, r *Rng, dir string, es []idxEntry, seed uint64, idx int, ties bool) {
	content := indexYAML(es)
	cs := map[string]any{"index": content}
	rep.Count(cs, len(es) >= 2)
	rep.Sample(cs)
	// per-entry facts from the libraries
	var raw []any
	hasNull := false
	for i, e := range es {
		if e.null {
			raw = append(raw, nil)
			hasNull = true
			continue
		}
		one, err, p := loadIdx(dir, indexYAML([]idxEntry{e}))
		valid := p == "" && err == nil && one != nil && len(one.Entries["foo"]) == 1
		raw = append(raw, map[string]any{"id": i, "version": e.version, "ver": verJSON(e.version), "valid": valid, "hasURL": !e.noURL})
	}
	ix, err, p := loadIdx(dir, content)
	want := m.Query(map[string]any{"op": "loadEntries", "raw": raw})
	if p != "" {
		rep.H("load-panic")
		fp := "C18:panic:load"
		if hasNull {
			fp = "C18:null-entry-panic"
		}
		rep.Issue(Issue{Kind: "monitor", Fingerprint: fp, What: "LoadIndexFile panicked: " + p, Case: cs, Seed: seed, Index: idx})
		rep.Issue(Issue{Kind: "monitor", Fingerprint: strings.Replace(fp, "C18:", "C20:", 1), What: "LoadIndexFile panicked: " + p, Case: cs, Seed: seed, Index: idx})
		if want["res"] != "panic" {
			rep.Issue(Issue{Kind: "disagreement", Fingerprint: "C18:model:load", What: "implementation panicked, model did not", Case: cs, Model: want, Seed: seed, Index: idx})
		}
		return
	}
	if err != nil {
		rep.H("load-error")
		return
	}
	var loaded []any
	idOf := map[string]int{}
	for i, e := range es {
		if !e.null {
			idOf[e.version] = i
		}
	}
	for _, cv := range ix.Entries["foo"] {
		if cv == nil {
			loaded = append(loaded, nil)
		} else {
			loaded = append(loaded, idOf[cv.Version])
		}
	}
	sameLoad := jsonEqual(orEmpty(loaded), want["ids"])
	if ties && !sameLoad {
		// equal precedence: the order inside a tie is the sort's business (sort.Sort is not stable); the set of
		// loaded entries must agree, the order is covered by the sortedness monitor below
		a, b := sortedIDs(loaded), sortedIDs(want["ids"])
		sameLoad = a != "" && a == b
	}
	if want["res"] == "panic" || !sameLoad {
		rep.Issue(Issue{Kind: "disagreement", Fingerprint: "C18:model:load", What: "loaded entries (order, content) differ from model", Case: cs, Model: want, Impl: loaded, Seed: seed, Index: idx})
		return
	}
	rep.H("load-ok")
	// monitor on the implementation: only valid entries, strictly descending precedence
	for i, cv := range ix.Entries["foo"] {
		if cv == nil {
			continue
		}
		if i > 0 && ix.Entries["foo"][i-1] != nil {
			a, e1 := semver.NewVersion(ix.Entries["foo"][i-1].Version)
			b, e2 := semver.NewVersion(cv.Version)
			if e1 == nil && e2 == nil && a.Compare(b) < 0 {
				rep.Issue(Issue{Kind: "monitor", Fingerprint: "C18:not-sorted", What: "loaded versions are not sorted newest first", Case: cs, Impl: loaded, Seed: seed, Index: idx})
			}
		}
	}
	// dependency resolution through the downloader's Manager (every third case)
	if idx%3 == 0 && !hasNull {
		resolveCase(m, rep, r, dir, es, loaded, content, seed, idx)
	}
	// queries
	for q := 0; q < 3; q++ {
		query := Pick(r, verQueries)
		if ties {
			query = Pick(r, tieQueries)
			if len(es) > 0 && r.Chance(70) {
				if e := Pick(r, es); !e.null {
					query = e.version
				}
			}
			rep.H("tie-query")
		}
		cstr := query
		if cstr == "" {
			cstr = "*"
		}
		c, cerr := semver.NewConstraint(cstr)
		var ents []any
		for _, id := range loaded {
			if id == nil {
				ents = append(ents, nil)
				continue
			}
			e := es[id.(int)]
			sat := false
			if v, err := semver.NewVersion(e.version); err == nil && cerr == nil {
				sat = c.Check(v)
			}
			ents = append(ents, map[string]any{"id": id, "version": e.version, "ver": verJSON(e.version), "valid": true, "hasURL": !e.noURL, "sat": sat})
		}
		var cv *repo.ChartVersion
		var gerr error
		gp := safely(func() { cv, gerr = ix.Get("foo", query) })
		got := "err"
		if gp != "" {
			got = "panic"
			fp := "C18:panic:get"
			if hasNull {
				fp = "C18:null-entry-panic"
			}
			rep.Issue(Issue{Kind: "monitor", Fingerprint: fp, What: "IndexFile.Get panicked: " + gp, Case: map[string]any{"index": content, "query": query}, Seed: seed, Index: idx})
		} else if gerr == nil {
			got = fmt.Sprint(idOf[cv.Version])
		}
		wq := m.Query(map[string]any{"op": "indexGet", "vs": orEmpty(ents), "version": query, "constraintOk": cerr == nil})
		rep.H("get:" + map[bool]string{true: "found", false: got}[gerr == nil && gp == ""])
		if wq["res"] != got {
			rep.Issue(Issue{Kind: "disagreement", Fingerprint: "C18:model:get", What: fmt.Sprintf("Get(%q) = %s, model %v", query, got, wq["res"]), Case: map[string]any{"index": content, "query": query}, Model: wq, Impl: got, Seed: seed, Index: idx})
			continue
		}
		// monitor on the implementation: no exact match => the result is the highest satisfying version
		if gerr == nil && gp == "" && cerr == nil {
			exact := false
			for _, e := range es {
				exact = exact || (!e.null && query != "" && e.version == query)
			}
			if !exact {
				rv, _ := semver.NewVersion(cv.Version)
				for _, x := range ix.Entries["foo"] {
					if x == nil {
						continue
					}
					if xv, err := semver.NewVersion(x.Version); err == nil && c.Check(xv) && xv.Compare(rv) > 0 {
						rep.Issue(Issue{Kind: "monitor", Fingerprint: "C18:not-highest", What: fmt.Sprintf("Get(%q) returned %s although %s also satisfies and is higher", query, cv.Version, x.Version), Case: map[string]any{"index": content, "query": query}, Seed: seed, Index: idx})
					}
				}
			}
		}
		// tags: the same versions as a sorted tag list
		if !hasNull {
			var tags []string
			var tagEnts []any
			for _, e := range ents {
				em := e.(map[string]any)
				if em["ver"] != nil {
					tags = append(tags, em["version"].(string))
					tagEnts = append(tagEnts, em)
				}
			}
			sort.SliceStable(tags, func(i, j int) bool {
				a, _ := semver.NewVersion(tags[i])
				b, _ := semver.NewVersion(tags[j])
				return a.Compare(b) > 0
			})
			var tag string
			var terr error
			tp := safely(func() { tag, terr = registry.GetTagMatchingVersionOrConstraint(tags, query) })
			tgot := "err"
			if tp != "" {
				tgot = "panic"
			} else if terr == nil {
				tgot = fmt.Sprint(idOf[tag])
			}
			wt := m.Query(map[string]any{"op": "tagMatch", "tags": orEmpty(tagEnts), "version": query, "constraintOk": cerr == nil})
			rep.H("tags")
			if wt["res"] != tgot {
				rep.Issue(Issue{Kind: "disagreement", Fingerprint: "C18:model:tags", What: fmt.Sprintf("GetTagMatchingVersionOrConstraint(%q) = %s, model %v", query, tgot, wt["res"]), Case: map[string]any{"tags": tags, "query": query}, Model: wt, Impl: tgot, Seed: seed, Index: idx})
			}
		}
	}
	rep.Traces++
}

// sortedIDs: canonical form of a list of entry ids (no nulls expected in tie cases), "" if not a list
func sortedIDs(v any) string {
	l, ok := v.([]any)
	if !ok {
		return ""
	}
	var out []string
	for _, x := range l {
		out = append(out, fmt.Sprint(x))
	}
	sort.Strings(out)
	return strings.Join(out, ",")
}
