package main

import (
	"archive/tar"
	"bytes"
	"compress/gzip"
	"encoding/json"
	"fmt"
	"io"
	"os"
	"path/filepath"
	"sigs.k8s.io/yaml"
	"sort"
	"strings"
	"time"

	"helm.sh/helm/v4/pkg/action"
	chart "helm.sh/helm/v4/pkg/chart/v2"
	"helm.sh/helm/v4/pkg/chart/v2/loader"
	chartutil "helm.sh/helm/v4/pkg/chart/v2/util"
)

func init() { subs["chartio"] = corrChartIO }

var fileNameAtoms = []string{"README.md", "files/a.txt", "files/deep/b.bin", ".dotfile", "files/.hidden", "files/ünï.txt", "LICENSE", "crds/c.yaml", "files/with space.txt", "files/a.b.c", "ci/values.yaml", "files/._state", ".DS_Store", "files/~backup", "files/x.tgz", "files/Chart.yaml", "files/templates/t.yaml", "files/.helmignore2", "files/UPPER.TXT", "files/-dash", "files/a..b"}
var tplNameAtoms = []string{"templates/a.yaml", "templates/_helpers.tpl", "templates/NOTES.txt", "templates/sub/b.yaml", "templates/tests/t.yaml", "templates/ü.yaml"}

func genData(r *Rng) []byte {
	switch r.Intn(7) {
	case 0:
		return []byte{}
	case 1:
		return []byte("plain text\n")
	case 2:
		b := make([]byte, 1+r.Intn(300))
		for i := range b {
			b[i] = byte(r.Intn(256))
		}
		return b
	case 3:
		return []byte("kind: ConfigMap\nmetadata:\n  name: {{ .Release.Name }}\n")
	case 4:
		return []byte("\r\nwindows\r\n")
	case 5:
		return []byte("--- \n# c\n")
	default:
		return []byte("x")
	}
}

type c15opts struct{ bom, backslash, v1lock, valuesNoRaw bool }

func genIOChart(r *Rng, depth int, name string, o c15opts) *chart.Chart {
	c := &chart.Chart{Metadata: &chart.Metadata{APIVersion: "v2", Name: name, Version: Pick(r, []string{"0.1.0", "1.2.3-rc.1+b5", "10.0.0", "1.2", "v1.2.3", "3"})}}
	if r.Chance(25) {
		c.Metadata.APIVersion = "v1"
	}
	if r.Chance(50) {
		c.Metadata.Description = Pick(r, []string{"a chart", "ünï — desc", "two  spaces: and colon"})
		c.Metadata.Keywords = []string{"k1", "k2"}
		c.Metadata.Maintainers = []*chart.Maintainer{{Name: "m", Email: "m@example.com"}}
		c.Metadata.Annotations = map[string]string{"a/b": "c"}
	}
	if r.Chance(15) {
		c.Metadata.Type = Pick(r, []string{"application", "library"})
		c.Metadata.KubeVersion = ">=1.20.0"
		c.Metadata.AppVersion = "1.0"
	}
	used := map[string]bool{}
	for i := r.Intn(4); i > 0; i-- {
		n := Pick(r, tplNameAtoms)
		if !used[n] {
			used[n] = true
			c.Templates = append(c.Templates, &chart.File{Name: n, Data: genData(r)})
		}
	}
	for i := r.Intn(4); i > 0; i-- {
		n := Pick(r, fileNameAtoms)
		if !used[n] {
			used[n] = true
			c.Files = append(c.Files, &chart.File{Name: n, Data: genData(r)})
		}
	}
	if o.bom {
		c.Files = append(c.Files, &chart.File{Name: "files/bom.bin", Data: []byte{0xEF, 0xBB, 0xBF, 1, 2, 3}})
	}
	if o.backslash {
		c.Files = append(c.Files, &chart.File{Name: "files/a\\b.txt", Data: []byte("bs")})
	}
	if r.Chance(60) {
		vals := genTree(r, 0, valKeys)
		raw, _ := json.Marshal(vals)
		c.Values = deepCopyMap(vals)
		if !o.valuesNoRaw {
			c.Raw = append(c.Raw, &chart.File{Name: "values.yaml", Data: raw})
		}
	}
	if o.valuesNoRaw && c.Values == nil {
		c.Values = map[string]any{"a": "b"}
	}
	if r.Chance(30) {
		c.Schema = []byte(`{"type":"object"}`)
	}
	if (c.Metadata.APIVersion == "v2" && r.Chance(30)) || (o.v1lock && depth == 0) {
		if o.v1lock {
			c.Metadata.APIVersion = "v1"
		}
		c.Lock = &chart.Lock{Generated: time.Unix(1700000000, 0).UTC(), Digest: "sha256:abc", Dependencies: []*chart.Dependency{{Name: "d", Version: "1.0.0", Repository: "https://example.com"}}}
	}
	if depth < 2 {
		names := []string{"suba", "subb", "sub-c"}
		for i := r.Intn(3); i > 0; i-- {
			dn := names[i-1]
			d := genIOChart(r, depth+1, dn, c15opts{})
			c.AddDependency(d)
			if c.Metadata.APIVersion == "v2" {
				c.Metadata.Dependencies = append(c.Metadata.Dependencies, &chart.Dependency{Name: dn, Version: d.Metadata.Version, Repository: "file://../" + dn})
			}
		}
	}
	return c
}

func readTarGz(path string) ([]map[string]any, error) {
	f, err := os.Open(path)
	if err != nil {
		return nil, err
	}
	defer f.Close()
	gz, err := gzip.NewReader(f)
	if err != nil {
		return nil, err
	}
	tr := tar.NewReader(gz)
	var out []map[string]any
	for {
		h, err := tr.Next()
		if err == io.EOF {
			break
		}
		if err != nil {
			return nil, err
		}
		b, _ := io.ReadAll(tr)
		out = append(out, map[string]any{"name": h.Name, "data": bytesJSON(b)})
	}
	return out, nil
}

func bytesJSON(b []byte) []any {
	out := make([]any, len(b))
	for i, x := range b {
		out[i] = int(x)
	}
	return out
}

func filesJSONList(fs []*chart.File) []any {
	out := []any{}
	for _, f := range fs {
		out = append(out, map[string]any{"name": f.Name, "data": bytesJSON(f.Data)})
	}
	return out
}

// chartObs: what is compared between charts (dependencies sorted by name: the loader groups them in a map)
func chartObs(c *chart.Chart, withMeta bool) map[string]any {
	o := map[string]any{"name": c.Name(), "templates": filesJSONList(c.Templates), "files": filesJSONList(c.Files), "schema": nil, "lock": c.Lock != nil, "valuesRaw": nil}
	if c.Schema != nil {
		o["schema"] = bytesJSON(c.Schema)
	}
	for _, f := range c.Raw {
		if f.Name == "values.yaml" {
			o["valuesRaw"] = bytesJSON(f.Data)
		}
	}
	if withMeta {
		o["metadata"] = deepCopy(c.Metadata)
		o["values"] = deepCopy(c.Values)
		if c.Lock != nil {
			o["lockContent"] = deepCopy(c.Lock)
		}
	}
	deps := []any{}
	ds := append([]*chart.Chart{}, c.Dependencies()...)
	sort.Slice(ds, func(i, j int) bool { return ds[i].Name() < ds[j].Name() })
	for _, d := range ds {
		deps = append(deps, chartObs(d, withMeta))
	}
	o["deps"] = deps
	return o
}

func modelChartJSON(c *chart.Chart) map[string]any {
	o := map[string]any{"name": c.Name(), "apiV1": c.Metadata.APIVersion == "v1", "templates": filesJSONList(c.Templates), "files": filesJSONList(c.Files), "schema": nil, "lock": c.Lock != nil, "valuesRaw": nil}
	if c.Schema != nil {
		o["schema"] = bytesJSON(c.Schema)
	}
	for _, f := range c.Raw {
		if f.Name == "values.yaml" {
			o["valuesRaw"] = bytesJSON(f.Data)
		}
	}
	deps := []any{}
	for _, d := range c.Dependencies() {
		deps = append(deps, modelChartJSON(d))
	}
	o["deps"] = deps
	return o
}

func corrChartIO(seed uint64, n int, tier string, out string, replay string) {
	m := StartModel()
	defer m.Close()
	rep := NewReport("C15", "chartio", seed, "case = generated chart (metadata fields, v1/v2, lock, raw+parsed values, schema, 0-3 templates and files with nested/unicode/dot names and binary content, up to 2 levels of dependencies) through chartutil.Save -> entry list compared with the model's writer -> loader.LoadArchive compared with the model's loader; property monitor: the loaded chart equals the original field by field (metadata, values, schema, lock, every file byte for byte, dependency tree), same for SaveDir -> LoadDir, and directory vs archive loads agree; separate streams aim at the known exclusions (BOM, backslash in a name, v1 lock, values without raw file); non-trivial = at least 2 files or a dependency; distinct = hash of the chart")
	dir, _ := os.MkdirTemp("", "corr-chartio")
	defer os.RemoveAll(dir)
	for i := 0; i < n; i++ {
		r := NewRng(seed, uint64(i))
		o := c15opts{}
		stream := "plain"
		switch {
		case i%13 == 3:
			o.bom, stream = true, "bom"
		case i%13 == 5:
			o.backslash, stream = true, "backslash"
		case i%13 == 7:
			o.v1lock, stream = true, "v1lock"
		case i%13 == 9:
			o.valuesNoRaw, stream = true, "values-without-raw"
		case i%13 == 11:
			stream = "v1-lock-file"
		}
		c := genIOChart(r, 0, Pick(r, []string{"mychart", "c", "a-b"}), o)
		if stream == "v1-lock-file" {
			// an apiVersion v1 chart as the loader builds it from a directory that holds requirements.lock:
			// the lock is parsed and the file itself stays among the chart's files (that is how Save writes it back)
			c.Metadata.APIVersion = "v1"
			c.Metadata.Dependencies = nil // a v1 chart lists its dependencies in requirements.yaml (not generated)
			c.Lock = &chart.Lock{Generated: time.Unix(1700000000, 0).UTC(), Digest: "sha256:abc", Dependencies: []*chart.Dependency{{Name: "d", Version: "1.0.0", Repository: "https://example.com"}}}
			lb, _ := yaml.Marshal(c.Lock)
			c.Files = append(c.Files, &chart.File{Name: "requirements.lock", Data: lb})
		}
		chartIOCase(m, rep, dir, c, stream, seed, i)
	}
	// invalid name / version are not packaged
	for i, bad := range []*chart.Metadata{{APIVersion: "v2", Name: "ok", Version: "not-a-version"}, {APIVersion: "v2", Name: "../evil", Version: "1.0.0"}, {APIVersion: "v2", Name: "", Version: "1.0.0"}, {APIVersion: "v2", Name: "a/b", Version: "1.0.0"}, {APIVersion: "v2", Name: "ok", Version: ""}} {
		c := &chart.Chart{Metadata: bad}
		sub := filepath.Join(dir, fmt.Sprintf("bad-%d", i))
		os.MkdirAll(sub, 0o755)
		var err error
		safely(func() { _, err = chartutil.Save(c, sub) })
		rep.Count(map[string]any{"invalid": bad.Name + "@" + bad.Version}, true)
		ents, _ := os.ReadDir(sub)
		if err == nil || len(ents) > 0 {
			rep.Issue(Issue{Kind: "monitor", Fingerprint: "C15:invalid-packaged", What: fmt.Sprintf("chart with invalid name/version %q %q was packaged (err=%v, files left=%d)", bad.Name, bad.Version, err, len(ents)), Seed: seed, Index: i})
		}
		rep.H("invalid-not-packaged")
	}
	rep.Write(out, m)
}

func chartIOCase(m *Model, rep *Report, dir string, c *chart.Chart, stream string, seed uint64, idx int) {
	nfiles := len(c.Templates) + len(c.Files)
	orig := chartObs(c, true)
	rep.Count(orig, nfiles >= 2 || len(c.Dependencies()) > 0)
	if idx < 2 {
		rep.Sample(map[string]any{"stream": stream, "chart": chartObs(c, false)})
	}
	rep.H("stream:" + stream)
	sub := filepath.Join(dir, fmt.Sprintf("c-%d", idx))
	os.MkdirAll(sub, 0o755)
	defer os.RemoveAll(sub)
	var path string
	var err error
	if p := safely(func() { path, err = chartutil.Save(c, sub) }); p != "" {
		rep.Issue(Issue{Kind: "monitor", Fingerprint: "C20:panic:Save", What: p, Case: orig, Seed: seed, Index: idx})
		return
	}
	if err != nil {
		rep.H("save-error")
		rep.Issue(Issue{Kind: "monitor", Fingerprint: "C15:save-error", What: "Save failed on a valid chart: " + err.Error(), Case: chartObs(c, false), Seed: seed, Index: idx})
		return
	}
	entries, err := readTarGz(path)
	if err != nil {
		rep.Issue(Issue{Kind: "monitor", Fingerprint: "C15:unreadable-archive", What: err.Error(), Seed: seed, Index: idx})
		return
	}
	// model of the writer: names (and data except for the YAML documents)
	want := m.Query(map[string]any{"op": "saveEntries", "chart": modelChartJSON(c)})
	wn, _ := want["names"].([]any)
	var gn []any
	for _, e := range entries {
		gn = append(gn, e["name"])
	}
	if !jsonEqual(gn, wn) {
		rep.Issue(Issue{Kind: "disagreement", Fingerprint: "C15:model:save", What: "archive entry names/order differ from the model's writer", Case: chartObs(c, false), Model: wn, Impl: gn, Seed: seed, Index: idx})
		return
	}
	// model of the loader on the real entries
	wl := m.Query(map[string]any{"op": "loadEntries15", "entries": entries})
	var lc *chart.Chart
	if p := safely(func() { lc, err = loader.Load(path) }); p != "" {
		rep.Issue(Issue{Kind: "monitor", Fingerprint: "C20:panic:Load", What: p, Case: chartObs(c, false), Seed: seed, Index: idx})
		return
	}
	if err != nil {
		rep.H("load-error")
		if wl["ok"] != nil {
			rep.Issue(Issue{Kind: "disagreement", Fingerprint: "C15:model:load", What: "Load failed, model loaded: " + err.Error(), Case: chartObs(c, false), Seed: seed, Index: idx})
		}
		rep.Issue(Issue{Kind: "monitor", Fingerprint: "C15:roundtrip:load-error:" + stream, What: "a saved chart does not load: " + err.Error(), Case: chartObs(c, false), Seed: seed, Index: idx})
		return
	}
	got := chartObs(lc, false)
	if wl["ok"] == nil || !jsonEqual(stripMeta(got), wl["ok"]) {
		rep.Issue(Issue{Kind: "disagreement", Fingerprint: "C15:model:load", What: "loaded chart differs from the model's loader", Case: chartObs(c, false), Model: wl, Impl: got, Seed: seed, Index: idx})
		return
	}
	rep.H("model-ok")
	// the property: loaded == original
	full := chartObs(lc, true)
	if !jsonEqual(full, orig) {
		fp := "C15:roundtrip"
		switch stream {
		case "bom":
			fp = "C15:bom-stripped"
		case "backslash":
			fp = "C15:backslash-name"
		case "v1lock":
			fp = "C15:v1-lock-dropped"
		case "values-without-raw":
			fp = "C15:values-without-raw"
		}
		rep.Issue(Issue{Kind: "monitor", Fingerprint: fp, What: "chart loaded from its own archive differs from the chart that was saved: " + firstDiff(orig, full), Case: chartObs(c, false), Seed: seed, Index: idx})
		if fp == "C15:roundtrip" {
			return
		}
	} else {
		rep.H("roundtrip-ok")
	}
	// directory round trip and dir/archive agreement
	if stream == "plain" {
		dd := filepath.Join(sub, "dir")
		if err := chartutil.SaveDir(c, dd); err == nil {
			var dc *chart.Chart
			if p := safely(func() { dc, err = loader.LoadDir(filepath.Join(dd, c.Name())) }); p == "" && err == nil {
				dobs := chartObs(dc, true)
				sortFiles(dobs)
				aobs := deepCopy(full).(map[string]any)
				sortFiles(aobs)
				if !jsonEqual(dobs, aobs) {
					fp := "C15:dir-vs-archive"
					if hasLock(c) {
						fp = "C15:savedir-lock-dropped"
					}
					rep.Issue(Issue{Kind: "monitor", Fingerprint: fp, What: "loading the same content from a directory and from an archive gives different charts: " + firstDiff(aobs, dobs), Case: chartObs(c, false), Seed: seed, Index: idx})
				} else {
					rep.H("dir-archive-agree")
				}
				// `helm package` of that directory (action.Package.Run): the packaged chart is the chart of the directory
				pkgDest := filepath.Join(sub, "pkg")
				os.MkdirAll(pkgDest, 0o755)
				pk := action.NewPackage()
				pk.Destination = pkgDest
				var pkPath string
				var pkErr error
				if p := safely(func() { pkPath, pkErr = pk.Run(filepath.Join(dd, c.Name()), nil) }); p != "" {
					rep.Issue(Issue{Kind: "monitor", Fingerprint: "C20:panic:Package.Run", What: p, Case: chartObs(c, false), Seed: seed, Index: idx})
				} else if pkErr == nil {
					if pc, err := loader.Load(pkPath); err == nil {
						pobs := chartObs(pc, true)
						sortFiles(pobs)
						if !jsonEqual(pobs, dobs) {
							fp := "C15:package-differs"
							if hasLock(c) {
								fp = "C15:savedir-lock-dropped"
							}
							rep.Issue(Issue{Kind: "monitor", Fingerprint: fp, What: "the chart packaged from a directory differs from the chart loaded from that directory: " + firstDiff(dobs, pobs), Case: chartObs(c, false), Seed: seed, Index: idx})
						} else {
							rep.H("package-agrees")
						}
					} else {
						rep.Issue(Issue{Kind: "monitor", Fingerprint: "C15:package-unloadable", What: "the archive written by Package.Run does not load: " + err.Error(), Case: chartObs(c, false), Seed: seed, Index: idx})
					}
				} else {
					rep.H("package-error")
				}
			} else {
				rep.H("dir-load-error")
			}
		}
	}
	rep.Traces++
}

func hasLock(c *chart.Chart) bool {
	if c.Lock != nil {
		return true
	}
	for _, d := range c.Dependencies() {
		if hasLock(d) {
			return true
		}
	}
	return false
}

func stripMeta(o map[string]any) map[string]any { return o }

// sortFiles: directory walks deliver files in name order, archives in written order
func sortFiles(o any) {
	m, ok := o.(map[string]any)
	if !ok {
		return
	}
	for _, k := range []string{"templates", "files"} {
		if l, ok := m[k].([]any); ok {
			sort.SliceStable(l, func(i, j int) bool {
				return l[i].(map[string]any)["name"].(string) < l[j].(map[string]any)["name"].(string)
			})
		}
	}
	if ds, ok := m["deps"].([]any); ok {
		for _, d := range ds {
			sortFiles(d)
		}
	}
}

func firstDiff(a, b any) string {
	ab, _ := json.Marshal(a)
	bb, _ := json.Marshal(b)
	am, bm := map[string]any{}, map[string]any{}
	json.Unmarshal(ab, &am)
	json.Unmarshal(bb, &bm)
	var ds []string
	for k := range am {
		if !jsonEqual(am[k], bm[k]) {
			ds = append(ds, k)
		}
	}
	sort.Strings(ds)
	det := ""
	if len(ds) > 0 {
		x, _ := json.Marshal(am[ds[0]])
		y, _ := json.Marshal(bm[ds[0]])
		det = " [" + ds[0] + ": " + trunc(string(x), 300) + " vs " + trunc(string(y), 300) + "]"
	}
	return "fields differing: " + strings.Join(ds, ",") + det
}

var _ = bytes.Equal
