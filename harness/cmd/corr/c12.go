package main

import (
	"fmt"
	"sort"
	"strconv"
	"strings"

	"helm.sh/helm/v4/pkg/action"
	chart "helm.sh/helm/v4/pkg/chart/v2"
	release "helm.sh/helm/v4/pkg/release/v1"
	"helm.sh/helm/v4/pkg/storage"
)

func init() { subs["hooks"] = corrHooks }

// ---------- generator ----------

type gHook struct {
	Name     string   `json:"name"`
	Typed    bool     `json:"typed"`
	Weight   string   `json:"weight"` // annotation text; "" = absent
	Events   []string `json:"events"`
	Policies []string `json:"policies"`
	Sep      string   `json:"sep,omitempty"` // how the lists in the annotations are written: "," (default), ", ", " , "
}

func (h gHook) key() string { return objKey(h.Typed, h.Name) }
func (h gHook) weightInt() int {
	v, err := strconv.Atoi(h.Weight)
	if err != nil {
		return 0
	}
	return v
}
func (h gHook) sep() string {
	if h.Sep == "" {
		return ","
	}
	return h.Sep
}

func (h gHook) effPolicies() []string {
	if len(h.Policies) == 0 {
		return []string{"before-hook-creation"}
	}
	return h.Policies
}
func (h gHook) has(p string) bool {
	for _, x := range h.effPolicies() {
		if x == p {
			return true
		}
	}
	return false
}

func (h gHook) yaml() string {
	kind := "ConfigMap"
	if !h.Typed {
		kind = "NamespacedType"
	}
	var b strings.Builder
	fmt.Fprintf(&b, "apiVersion: v1\nkind: %s\nmetadata:\n  name: %s\n  annotations:\n    \"helm.sh/hook\": %q\n", kind, h.Name, strings.Join(h.Events, h.sep()))
	if h.Weight != "" {
		fmt.Fprintf(&b, "    \"helm.sh/hook-weight\": %q\n", h.Weight)
	}
	if len(h.Policies) > 0 {
		fmt.Fprintf(&b, "    \"helm.sh/hook-delete-policy\": %q\n", strings.Join(h.Policies, h.sep()))
	}
	b.WriteString("data:\n  k: v\n")
	return b.String()
}

var hookEvents = []string{"pre-install", "post-install", "pre-upgrade", "post-upgrade", "pre-rollback", "post-rollback", "pre-delete", "post-delete"}
var hookWeights = []string{"-5", "-1", "0", "0", "1", "2", "10", "", "", "+3"}
var hookPolicies = []string{"before-hook-creation", "hook-succeeded", "hook-failed"}

func genHooks(r *Rng) []gHook {
	var out []gHook
	used := map[string]bool{}
	for i := r.Intn(6); i > 0; i-- {
		h := gHook{Name: "hook-" + Pick(r, []string{"a", "b", "c", "d", "e", "f"}), Typed: r.Chance(80), Weight: Pick(r, hookWeights)}
		if used[h.key()] {
			continue
		}
		used[h.key()] = true
		// events: usually several, so that the same hook object is met again by later operations
		for _, e := range hookEvents {
			if r.Chance(45) {
				h.Events = append(h.Events, e)
			}
		}
		if len(h.Events) == 0 {
			h.Events = []string{Pick(r, hookEvents)}
		}
		if r.Chance(6) {
			h.Events = append(h.Events, h.Events[0]) // the event mentioned twice
		}
		if r.Chance(65) {
			for _, p := range hookPolicies {
				if r.Chance(45) {
					h.Policies = append(h.Policies, p)
				}
			}
		}
		if r.Chance(25) {
			h.Sep = Pick(r, []string{", ", " , ", ",  "})
		}
		out = append(out, h)
	}
	return out
}

func hookChart(hooks []gHook, version int) *chart.Chart {
	c := &chart.Chart{Metadata: &chart.Metadata{APIVersion: "v2", Name: "app", Version: fmt.Sprintf("0.0.%d", version)}}
	c.Templates = append(c.Templates, &chart.File{Name: "templates/cm.yaml", Data: []byte(cmYAML("cm-a", map[string]string{"v": fmt.Sprint(version)}, nil))})
	for i, h := range hooks {
		c.Templates = append(c.Templates, &chart.File{Name: fmt.Sprintf("templates/h%d.yaml", i), Data: []byte(h.yaml())})
	}
	return c
}

type hookStep struct {
	Kind          string  `json:"kind"`
	Hooks         []gHook `json:"hooks,omitempty"` // the chart's hooks (install / upgrade)
	Fail          string  `json:"fail,omitempty"`  // name of the hook whose watch fails
	DisableHooks  bool    `json:"disableHooks"`
	KeepHistory   bool    `json:"keepHistory"`
	CleanupOnFail bool    `json:"cleanupOnFail"`
	ResFails      bool    `json:"resFails"`
}

func isHookKey(k string) bool { return strings.Contains(k[strings.LastIndex(k, "/")+1:], "hook-") }

// canonical trace of the implementation: C/D/W on hook objects, everything else squeezed to RES
func canonTrace(tr []string) []string {
	var out []string
	for _, e := range tr {
		sp := strings.SplitN(e, " ", 2)
		if len(sp) != 2 {
			continue
		}
		op, key := sp[0], sp[1]
		if !isHookKey(key) {
			if len(out) == 0 || out[len(out)-1] != "RES" {
				out = append(out, "RES")
			}
			continue
		}
		switch op {
		case "POST":
			out = append(out, "C "+key)
		case "DELETE":
			out = append(out, "D "+key)
		case "WATCH":
			out = append(out, "W "+key)
		case "WAITDEL":
			// belongs to the DELETE before it
		default:
			out = append(out, op+" "+key)
		}
	}
	return out
}

func corrHooks(seed uint64, n int, tier string, out string, replay string) {
	m := StartModel()
	defer m.Close()
	rep := NewReport("C12", "hooks", seed, "case = history of 2-5 operations (install, upgrade, rollback, uninstall) of a chart with 0-5 hooks (ConfigMap and unstructured kinds; 1-8 events each, sometimes mentioned twice; weights negative, equal, signed, absent; every subset of the three delete policies incl. none) run through the real action package against the simulated API server with a scripted waiter; per operation one executing hook may be scripted to fail, hooks may be disabled, the resource phase may fail, an uninstall may keep the history, an upgrade or rollback may run with cleanup-on-fail; the ordered trace of hook creates / deletes / watches and resource-phase requests is compared with the Lean hook model (fed with the release's hook list), and order, one-at-a-time, gating, policy deletions, hooks-not-in-manifest are monitored on the implementation's trace with the generator's own weights; non-trivial = at least 2 operations ran hooks; distinct = hash of the history")
	for _, id := range caseSeq("hooks", seed, n) {
		hooksHistory(m, rep, NewRng(id.Seed, uint64(id.Index)), id.Seed, id.Index)
		if id.Index%40 == 11 {
			testRunCase(rep, NewRng(id.Seed, uint64(id.Index)+1<<35), id.Seed, id.Index)
		}
	}
	rep.Write(out, m)
}

// testRunCase: `helm test` runs the test hooks (all, or those a name filter selects), one of them possibly
// failing; whatever it does, the release keeps its hooks: the stored record lists the same hooks afterwards, and
// the uninstall that follows creates the pre-delete hook before the manifest's resources go and the post-delete
// hook after.
func testRunCase(rep *Report, r *Rng, seed uint64, idx int) {
	backend := Pick(r, []string{"secrets", "configmaps", "memory"})
	w := newSimWorld(newBackend(backend))
	defer w.close()
	hook := func(name, ev string) string {
		return "apiVersion: v1\nkind: ConfigMap\nmetadata:\n  name: " + name + "\n  annotations:\n    \"helm.sh/hook\": " + ev + "\ndata:\n  k: v\n"
	}
	c := &chart.Chart{Metadata: &chart.Metadata{APIVersion: "v2", Name: "app", Version: "0.1.0"}, Templates: []*chart.File{
		{Name: "templates/cm.yaml", Data: []byte("apiVersion: v1\nkind: ConfigMap\nmetadata:\n  name: settings\ndata:\n  k: v\n")},
		{Name: "templates/drain.yaml", Data: []byte(hook("drain", "pre-delete"))},
		{Name: "templates/sweep.yaml", Data: []byte(hook("sweep", "post-delete"))},
		{Name: "templates/tests/smoke-a.yaml", Data: []byte(hook("smoke-a", "test"))},
		{Name: "templates/tests/smoke-b.yaml", Data: []byte(hook("smoke-b", "test"))},
	}}
	filter := Pick(r, []string{"", "name=smoke-a", "!name=smoke-b", "name=smoke-b", "!name=smoke-a"})
	failing := Pick(r, []string{"", "smoke-a", "smoke-b", "smoke-a"})
	cs := map[string]any{"scenario": "helm-test", "backend": backend, "filter": filter, "failing": failing}
	rep.Count(cs, true)
	in := action.NewInstall(w.cfg())
	in.ReleaseName, in.Namespace, in.DisableOpenAPIValidation = "app", "default", true
	if _, err := in.Run(c, map[string]any{}); err != nil {
		rep.Issue(Issue{Kind: "monitor", Fingerprint: "C12:test-run:install-failed", What: err.Error(), Case: cs, Seed: seed, Index: idx})
		return
	}
	hookNames := func() []string {
		rel, err := storage.Init(w.inner).Last("app")
		if err != nil {
			return []string{"error: " + err.Error()}
		}
		var out []string
		for _, h := range rel.Hooks {
			out = append(out, h.Name)
		}
		sort.Strings(out)
		return out
	}
	before := hookNames()
	w.revive()
	if failing != "" {
		w.wplan.hookFail[failing] = "fail"
	}
	rt := action.NewReleaseTesting(w.cfg())
	rt.Namespace = "default"
	if filter != "" {
		kv := strings.SplitN(filter, "=", 2)
		rt.Filters[kv[0]] = []string{kv[1]}
	}
	var terr error
	if p := safely(func() { _, terr = rt.Run("app") }); p != "" {
		rep.Issue(Issue{Kind: "monitor", Fingerprint: "C20:panic:action:test", What: p, Case: cs, Seed: seed, Index: idx})
		return
	}
	rep.H(fmt.Sprintf("helm-test:%s:filter=%v:err=%v", backend, filter != "", terr != nil))
	if after := hookNames(); !jsonEqual(after, before) {
		rep.Issue(Issue{Kind: "monitor", Fingerprint: "C12:test-run:hooks-lost", What: "after `helm test` the stored release no longer lists the hooks it had", Case: cs, Model: before, Impl: after, Seed: seed, Index: idx})
		return
	}
	w.revive()
	from := len(w.api.trace)
	un := action.NewUninstall(w.cfg())
	if _, err := un.Run("app"); err != nil {
		rep.Issue(Issue{Kind: "monitor", Fingerprint: "C12:test-run:uninstall-failed", What: err.Error(), Case: cs, Seed: seed, Index: idx})
		return
	}
	w.api.mu.Lock()
	tr := append([]string{}, w.api.trace[from:]...)
	w.api.mu.Unlock()
	pos := func(sub string) int {
		for i, e := range tr {
			if strings.Contains(e, sub) {
				return i
			}
		}
		return -1
	}
	pre, del, post := pos("POST namespaces/default/configmaps/drain"), pos("DELETE namespaces/default/configmaps/settings"), pos("POST namespaces/default/configmaps/sweep")
	if pre < 0 || post < 0 || del < 0 || !(pre < del && del < post) {
		rep.Issue(Issue{Kind: "monitor", Fingerprint: "C12:test-run:delete-hooks-skipped", What: "the uninstall after `helm test` did not run pre-delete hook, resource deletion and post-delete hook in that order", Case: cs, Impl: tr, Seed: seed, Index: idx})
	}
}

func relHooksJSON(hs []*release.Hook) []any {
	out := []any{}
	for _, h := range hs {
		ev := []any{}
		for _, e := range h.Events {
			ev = append(ev, string(e))
		}
		pol := []any{}
		for _, p := range h.DeletePolicies {
			pol = append(pol, string(p))
		}
		out = append(out, map[string]any{"key": objKey(h.Kind == "ConfigMap", h.Name), "name": h.Name, "weight": h.Weight, "events": ev, "policies": pol})
	}
	return out
}

func hooksHistory(m *Model, rep *Report, r *Rng, seed uint64, idx int) {
	w := newSimWorld(newBackend("memory"))
	defer w.close()
	var hist []hookStep
	type hrev struct {
		gen []gHook
		rel []*release.Hook
	}
	var revs []hrev
	installed := false
	ranHooks := 0
	version := 0
	nops := 2 + r.Intn(4)
	cur := genHooks(r)
	for k := 0; k < nops; k++ {
		st := hookStep{}
		switch {
		case !installed:
			st.Kind = "install"
		default:
			st.Kind = Pick(r, []string{"upgrade", "upgrade", "rollback", "uninstall"})
			if st.Kind == "rollback" && len(revs) < 2 {
				st.Kind = "upgrade"
			}
		}
		pre, post := "pre-"+st.Kind, "post-"+st.Kind
		if st.Kind == "uninstall" {
			pre, post = "pre-delete", "post-delete"
		}
		var gen []gHook // the hooks the operation executes from (generator's view)
		switch st.Kind {
		case "install":
			gen = cur
			st.Hooks = cur
		case "upgrade":
			if r.Chance(35) {
				cur = genHooks(r)
			}
			gen = cur
			st.Hooks = cur
		case "rollback":
			gen = revs[len(revs)-2].gen
		case "uninstall":
			gen = revs[len(revs)-1].gen
		}
		st.DisableHooks = r.Chance(12)
		st.ResFails = r.Chance(8) && st.Kind != "uninstall"
		st.KeepHistory = st.Kind == "uninstall" && len(hist)%2 == 1 // no extra random draw
		st.CleanupOnFail = (st.Kind == "upgrade" || st.Kind == "rollback") && (len(hist)+idx)%2 == 0
		var executing []gHook
		for _, h := range gen {
			for _, e := range h.Events {
				if e == pre || e == post {
					executing = append(executing, h)
					break
				}
			}
		}
		if len(executing) > 0 && r.Chance(40) {
			st.Fail = Pick(r, executing).Name
		}
		hist = append(hist, st)
		cs := map[string]any{"history": hist}
		// existing hook objects
		var existing []any
		before := map[string]bool{}
		for _, kx := range w.api.keys() {
			if isHookKey(kx) {
				existing = append(existing, kx)
				before[kx] = true
			}
		}
		w.revive()
		if st.Fail != "" {
			w.wplan.hookFail[st.Fail] = "fail"
		}
		if st.ResFails {
			w.wplan.resources = "fail"
		}
		traceFrom := len(w.api.trace)
		cfg := w.cfg()
		version++
		var err error
		var rel *release.Release
		if p := safely(func() {
			switch st.Kind {
			case "install":
				in := action.NewInstall(cfg)
				in.ReleaseName, in.Namespace, in.DisableOpenAPIValidation, in.DisableHooks = "app", "default", true, st.DisableHooks
				rel, err = in.Run(hookChart(cur, version), map[string]any{})
			case "upgrade":
				up := action.NewUpgrade(cfg)
				up.Namespace, up.DisableOpenAPIValidation, up.DisableHooks = "default", true, st.DisableHooks
				up.CleanupOnFail = st.CleanupOnFail
				rel, err = up.Run("app", hookChart(cur, version), map[string]any{})
			case "rollback":
				rb := action.NewRollback(cfg)
				rb.DisableHooks, rb.CleanupOnFail = st.DisableHooks, st.CleanupOnFail
				err = rb.Run("app")
			case "uninstall":
				un := action.NewUninstall(cfg)
				un.DisableHooks, un.KeepHistory = st.DisableHooks, st.KeepHistory
				_, err = un.Run("app")
			}
		}); p != "" {
			rep.Issue(Issue{Kind: "monitor", Fingerprint: "C20:panic:action:" + st.Kind, What: p, Case: cs, Seed: seed, Index: idx})
			return
		}
		w.api.mu.Lock()
		impl := canonTrace(append([]string{}, w.api.trace[traceFrom:]...))
		w.api.mu.Unlock()
		// the release's hook list, as the implementation built it (the model is of execHook given that list)
		var relHooks []*release.Hook
		switch st.Kind {
		case "install", "upgrade":
			if rel != nil {
				relHooks = rel.Hooks
			}
		case "rollback":
			relHooks = revs[len(revs)-2].rel
		case "uninstall":
			relHooks = revs[len(revs)-1].rel
		}
		if rel == nil && (st.Kind == "install" || st.Kind == "upgrade") {
			// failed before a release object existed (nothing ran)
			if len(impl) > 0 {
				rep.Issue(Issue{Kind: "monitor", Fingerprint: "C12:requests-without-release", What: "requests were sent although no release was built", Case: cs, Impl: impl, Seed: seed, Index: idx})
			}
			return
		}
		mr := m.Query(map[string]any{"op": "hookOp", "hooks": relHooksJSON(relHooks), "fails": failList(st.Fail), "existing": orEmptyAny(existing),
			"disableHooks": st.DisableHooks, "resFails": st.ResFails, "pre": pre, "post": post})
		var want []string
		for _, e := range mr["evs"].([]any) {
			want = append(want, e.(string))
		}
		if st.ResFails && len(want) > 0 && want[len(want)-1] == "RES" {
			want = want[:len(want)-1] // the scripted failure of the resource phase happens before any request
		}
		rep.H(st.Kind + ":" + map[bool]string{true: "ok", false: "err"}[err == nil])
		if canon(want) != canon(impl) && !(len(want) == 0 && len(impl) == 0) {
			rep.Issue(Issue{Kind: "disagreement", Fingerprint: "C12:model:trace:" + st.Kind, What: fmt.Sprintf("ordered hook/resource trace of %s differs from the model (err=%v)", st.Kind, err), Case: cs, Model: want, Impl: impl, Seed: seed, Index: idx})
			return
		}
		if mr["ok"] != (err == nil) {
			rep.Issue(Issue{Kind: "disagreement", Fingerprint: "C12:model:outcome:" + st.Kind, What: fmt.Sprintf("%s: err=%v, model ok=%v", st.Kind, err, mr["ok"]), Case: cs, Model: want, Impl: impl, Seed: seed, Index: idx})
			return
		}
		// ---- monitors on the implementation's trace, with the generator's own view of the hooks ----
		hookMonitors(rep, st, gen, pre, post, impl, before, w.api.keys(), err, cs, seed, idx)
		if rel != nil {
			for _, h := range gen {
				if strings.Contains(rel.Manifest, "name: "+h.Name+"\n") {
					rep.Issue(Issue{Kind: "monitor", Fingerprint: "C12:hook-in-manifest", What: "hook " + h.Name + " is part of the release manifest", Case: cs, Seed: seed, Index: idx})
				}
			}
		}
		for _, e := range impl {
			if strings.HasPrefix(e, "C ") {
				ranHooks++
				break
			}
		}
		rep.Traces++
		if err != nil {
			// go on only after a failed upgrade (the deployed revision is still there); other failures end the history
			if st.Kind != "upgrade" {
				break
			}
			// the failed upgrade recorded its revision: it is now the newest one
			revs = append(revs, hrev{gen: cur, rel: rel.Hooks})
			continue
		}
		switch st.Kind {
		case "install":
			installed = true
			revs = append(revs, hrev{gen: cur, rel: rel.Hooks})
		case "upgrade":
			revs = append(revs, hrev{gen: cur, rel: rel.Hooks})
		case "rollback":
			revs = append(revs, revs[len(revs)-2])
		case "uninstall":
			rep.Count(cs, ranHooks >= 2)
			return
		}
	}
	rep.Count(map[string]any{"history": hist}, ranHooks >= 2)
	if idx < 2 {
		rep.Sample(map[string]any{"history": hist})
	}
}

func failList(f string) []any {
	if f == "" {
		return []any{}
	}
	return []any{f}
}

func orEmptyAny(x []any) []any {
	if x == nil {
		return []any{}
	}
	return x
}

func hookMonitors(rep *Report, st hookStep, gen []gHook, pre, post string, impl []string, before map[string]bool, afterKeys []string, err error, cs map[string]any, seed uint64, idx int) {
	issue := func(fp, what string) {
		rep.Issue(Issue{Kind: "monitor", Fingerprint: fp, What: what + " (" + st.Kind + ")", Case: cs, Impl: impl, Seed: seed, Index: idx})
	}
	byKey := map[string]gHook{}
	for _, h := range gen {
		byKey[h.key()] = h
	}
	after := map[string]bool{}
	for _, k := range afterKeys {
		after[k] = true
	}
	if st.DisableHooks {
		for _, e := range impl {
			if e != "RES" {
				issue("C12:disabled-hooks-ran", "hooks are disabled but the trace has "+e)
				break
			}
		}
		return
	}
	// split into the pre phase (before RES) and the post phase
	phase := 0
	var creates [2][]string
	lastW := map[string]int{} // key -> position of its last watch
	runs := map[string]int{}
	failedAt := -1
	for i, e := range impl {
		switch {
		case e == "RES":
			phase = 1
		case strings.HasPrefix(e, "C "):
			key := e[2:]
			h, ok := byKey[key]
			if !ok {
				issue("C12:unknown-hook-created", "created "+key+" which is not a hook of the release")
				continue
			}
			evName := pre
			if phase == 1 {
				evName = post
			}
			has := false
			for _, x := range h.Events {
				has = has || x == evName
			}
			if !has && !(phase == 0 && containsS(h.Events, post) && !containsRES(impl)) {
				issue("C12:wrong-event", key+" ran in the "+evName+" phase but does not carry that event")
			}
			creates[phase] = append(creates[phase], key)
			runs[key]++
			// one at a time: the next event is the watch of this hook, unless the create was refused (last event, failure)
			if i+1 < len(impl) {
				if impl[i+1] != "W "+key {
					issue("C12:not-sequential", "after the creation of "+key+" comes "+impl[i+1]+", not its watch")
				}
			} else if err == nil {
				issue("C12:not-sequential", "the trace ends with the creation of "+key+" but the operation succeeded")
			}
			// left from an earlier run and before-hook-creation: deleted first
			if before[key] && h.has("before-hook-creation") && runs[key] == 1 && (i == 0 || impl[i-1] != "D "+key) {
				issue("C12:policy:before-creation-not-deleted", key+" existed, carries before-hook-creation, but was not deleted right before its creation")
			}
		case strings.HasPrefix(e, "W "):
			lastW[e[2:]] = i
			if byKey[e[2:]].Name == st.Fail && failedAt < 0 {
				failedAt = i
			}
		}
	}
	// with a pre-phase that succeeded and no RES (resource phase scripted to fail) phase never advanced: fine
	for ph := 0; ph < 2; ph++ {
		for i := 1; i < len(creates[ph]); i++ {
			a, b := byKey[creates[ph][i-1]], byKey[creates[ph][i]]
			if a.weightInt() > b.weightInt() || (a.weightInt() == b.weightInt() && a.Name > b.Name) {
				issue("C12:order", fmt.Sprintf("%s (weight %d) ran before %s (weight %d)", a.Name, a.weightInt(), b.Name, b.weightInt()))
			}
		}
	}
	if failedAt >= 0 {
		if err == nil {
			issue("C12:hook-failure-ignored", "hook "+st.Fail+" failed but the operation reported success")
		}
		for _, e := range impl[failedAt+1:] {
			if strings.HasPrefix(e, "C ") {
				issue("C12:ran-after-failure", e[2:]+" was created after hook "+st.Fail+" had failed")
			}
			if e == "RES" && st.Kind != "uninstall" {
				issue("C12:gate", "release resources were touched after hook "+st.Fail+" had failed")
			}
		}
	}
	// policy deletions, judged on the final state, for hooks that ran exactly once
	refused := len(impl) > 0 && strings.HasPrefix(impl[len(impl)-1], "C ")
	for key, nrun := range runs {
		h := byKey[key]
		if nrun != 1 {
			continue
		}
		wpos, watched := lastW[key]
		if !watched {
			continue // its creation was refused
		}
		thisFailed := h.Name == st.Fail && wpos == failedAt
		switch {
		case thisFailed:
			if after[key] == h.has("hook-failed") {
				issue("C12:policy:failed", fmt.Sprintf("%s failed; hook-failed policy=%v; object present afterwards=%v", key, h.has("hook-failed"), after[key]))
			}
		default:
			if after[key] == h.has("hook-succeeded") {
				fp := "C12:policy:succeeded"
				if refused {
					fp = "C12:succeeded-not-deleted:create-refused"
				}
				issue(fp, fmt.Sprintf("%s succeeded; hook-succeeded policy=%v; object present afterwards=%v", key, h.has("hook-succeeded"), after[key]))
			}
		}
	}
}

func containsS(l []string, x string) bool {
	for _, y := range l {
		if y == x {
			return true
		}
	}
	return false
}
func containsRES(l []string) bool { return containsS(l, "RES") }

var _ = sort.Strings
