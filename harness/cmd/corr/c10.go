package main

import (
	"context"
	"encoding/json"
	"errors"
	"fmt"
	"sort"
	"strings"
	"time"

	v1 "k8s.io/api/core/v1"
	metav1 "k8s.io/apimachinery/pkg/apis/meta/v1"
	"k8s.io/client-go/kubernetes/fake"

	chart "helm.sh/helm/v4/pkg/chart/v2"
	release "helm.sh/helm/v4/pkg/release/v1"
	"helm.sh/helm/v4/pkg/storage"
	"helm.sh/helm/v4/pkg/storage/driver"
	helmtime "helm.sh/helm/v4/pkg/time"
)

func init() { subs["storage"] = corrStorage }

var relNames = []string{"a", "b", "a.b", "my.v1app", "x.vy", "rel-1", "v", "a.v"}
var relStatuses = []string{"deployed", "superseded", "failed", "pending-upgrade", "uninstalled"}

type genRel struct {
	Name    string            `json:"name"`
	Version int               `json:"version"`
	Status  string            `json:"status"`
	Labels  map[string]string `json:"labels"`
	Payload string            `json:"payload"`
}

func (g genRel) real() *release.Release {
	r := &release.Release{Name: g.Name, Namespace: "default", Version: g.Version, Manifest: g.Payload,
		Info: &release.Info{Status: release.Status(g.Status), Description: "d"}}
	if g.Labels != nil {
		r.Labels = map[string]string{}
		for k, v := range g.Labels {
			r.Labels[k] = v
		}
	}
	return r
}

func relKeyOf(name string, version int) string {
	return fmt.Sprintf("sh.helm.release.v1.%s.v%d", name, version)
}

func outOfErr(err error) string {
	switch {
	case err == nil:
		return "ok"
	case errors.Is(err, driver.ErrReleaseExists):
		return "exists"
	case errors.Is(err, driver.ErrReleaseNotFound):
		return "notfound"
	case errors.Is(err, driver.ErrInvalidKey):
		return "invalidkey"
	default:
		return "other"
	}
}

var sysLabelSet = map[string]bool{"name": true, "owner": true, "status": true, "version": true, "createdAt": true, "modifiedAt": true}

func relObs(r *release.Release) map[string]any {
	lb := map[string]any{}
	for k, v := range r.Labels {
		if !sysLabelSet[k] { // Get filters system labels, List/Query do not: compare user labels
			lb[k] = v
		}
	}
	st := ""
	if r.Info != nil {
		st = string(r.Info.Status)
	}
	return map[string]any{"name": r.Name, "version": r.Version, "status": st, "labels": lb, "payload": r.Manifest}
}

func relsObs(rs []*release.Release) map[string]any {
	out := []any{}
	sort.SliceStable(rs, func(i, j int) bool {
		if rs[i].Name != rs[j].Name {
			return rs[i].Name < rs[j].Name
		}
		return rs[i].Version < rs[j].Version
	})
	for _, r := range rs {
		out = append(out, relObs(r))
	}
	return map[string]any{"rels": out}
}

type backend struct {
	name    string
	d       driver.Driver
	corrupt func(key string, labels map[string]string, body int)
}

// undecodable record bodies: not base64, empty, missing, one byte, the bare gzip magic, gzip magic + garbage
var corruptBodies = []string{"!!not-base64!!", "", "\x00missing", "QQ==", "H4sI", "H4sIAAAAAAAA"}

func newBackends() []backend {
	cs1 := fake.NewSimpleClientset()
	cs2 := fake.NewSimpleClientset()
	return []backend{
		{"mem", driver.NewMemory(), nil},
		{"secrets", driver.NewSecrets(cs1.CoreV1().Secrets("default")), func(key string, labels map[string]string, body int) {
			o := &v1.Secret{ObjectMeta: metav1.ObjectMeta{Name: key, Labels: labels}, Data: map[string][]byte{"release": []byte(corruptBodies[body])}}
			if corruptBodies[body] == "\x00missing" {
				o.Data = map[string][]byte{}
			}
			if _, err := cs1.CoreV1().Secrets("default").Create(context.Background(), o, metav1.CreateOptions{}); err != nil {
				cs1.CoreV1().Secrets("default").Update(context.Background(), o, metav1.UpdateOptions{})
			}
		}},
		{"configmaps", driver.NewConfigMaps(cs2.CoreV1().ConfigMaps("default")), func(key string, labels map[string]string, body int) {
			o := &v1.ConfigMap{ObjectMeta: metav1.ObjectMeta{Name: key, Labels: labels}, Data: map[string]string{"release": corruptBodies[body]}}
			if corruptBodies[body] == "\x00missing" {
				o.Data = map[string]string{}
			}
			if _, err := cs2.CoreV1().ConfigMaps("default").Create(context.Background(), o, metav1.CreateOptions{}); err != nil {
				cs2.CoreV1().ConfigMaps("default").Update(context.Background(), o, metav1.UpdateOptions{})
			}
		}},
	}
}

func applyOp(b backend, op map[string]any) (out any) {
	defer func() {
		if r := recover(); r != nil {
			out = "panic"
		}
	}()
	key, _ := op["key"].(string)
	switch op["kind"] {
	case "create":
		return outOfErr(b.d.Create(key, op["rel"].(genRel).real()))
	case "update":
		return outOfErr(b.d.Update(key, op["rel"].(genRel).real()))
	case "get":
		r, err := b.d.Get(key)
		if err != nil {
			return outOfErr(err)
		}
		return map[string]any{"rel": relObs(r)}
	case "delete":
		r, err := b.d.Delete(key)
		if err != nil {
			return outOfErr(err)
		}
		return map[string]any{"rel": relObs(r)}
	case "list":
		st, has := op["status"].(string)
		rs, err := b.d.List(func(r *release.Release) bool { return !has || string(r.Info.Status) == st })
		if err != nil {
			return outOfErr(err)
		}
		return relsObs(rs)
	case "query":
		q := map[string]string{}
		for k, v := range op["q"].(map[string]any) {
			q[k] = v.(string)
		}
		rs, err := b.d.Query(q)
		if err != nil {
			return outOfErr(err)
		}
		return relsObs(rs)
	case "corrupt":
		if b.corrupt == nil {
			return "n/a"
		}
		lb := map[string]string{}
		for k, v := range op["labels"].(map[string]any) {
			lb[k] = v.(string)
		}
		body := 0
		if f, ok := op["body"].(float64); ok {
			body = int(f)
		} else if i, ok := op["body"].(int); ok {
			body = i
		}
		b.corrupt(key, lb, body)
		return "ok"
	}
	return "bad-op"
}

func genStorageOps(r *Rng, n int, names []string, allowCorrupt bool, vers ...int) []map[string]any {
	var ops []map[string]any
	for i := 0; i < n; i++ {
		name := Pick(r, names)
		ver := 1 + r.Intn(3)
		if len(vers) > 0 {
			ver = Pick(r, vers) // after the draw above, so that the other streams keep their cases
		}
		key := relKeyOf(name, ver)
		rel := genRel{Name: name, Version: ver, Status: Pick(r, relStatuses), Payload: fmt.Sprintf("m%d", r.Intn(1000)), Labels: map[string]string{}}
		if r.Chance(40) {
			rel.Labels[Pick(r, []string{"team", "env"})] = Pick(r, []string{"x", "y"})
		}
		switch k := r.Intn(100); {
		case k < 30:
			ops = append(ops, map[string]any{"kind": "create", "key": key, "rel": rel})
			if r.Chance(20) {
				// the same create again, byte for byte (a retried request): the key exists now
				ops = append(ops, map[string]any{"kind": "create", "key": key, "rel": rel})
			}
		case k < 45:
			ops = append(ops, map[string]any{"kind": "get", "key": key})
		case k < 60:
			ops = append(ops, map[string]any{"kind": "update", "key": key, "rel": rel})
			if r.Chance(15) {
				// create of exactly what has just been stored by the update
				ops = append(ops, map[string]any{"kind": "create", "key": key, "rel": rel})
			}
		case k < 72:
			ops = append(ops, map[string]any{"kind": "delete", "key": key})
		case k < 82:
			if r.Bool() {
				ops = append(ops, map[string]any{"kind": "list"})
			} else {
				ops = append(ops, map[string]any{"kind": "list", "status": Pick(r, relStatuses)})
			}
		case k < 96 || !allowCorrupt:
			q := map[string]any{}
			if r.Chance(70) {
				q["name"] = name
			}
			if r.Chance(60) {
				q["owner"] = "helm"
			}
			if r.Chance(40) {
				q["status"] = Pick(r, relStatuses)
			}
			if r.Chance(15) {
				q["version"] = fmt.Sprint(ver)
			}
			ops = append(ops, map[string]any{"kind": "query", "q": q})
		default:
			ops = append(ops, map[string]any{"kind": "corrupt", "key": key, "body": r.Intn(len(corruptBodies)), "labels": map[string]any{"owner": "helm", "name": name, "status": "deployed", "version": fmt.Sprint(ver)}})
		}
	}
	return ops
}

func corrStorage(seed uint64, n int, tier string, out string, replay string) {
	m := StartModel()
	defer m.Close()
	rep := NewReport("C10", "storage", seed, "case = sequence of 12-30 create/get/update/delete/list/query calls (and, in a separate stream, planted undecodable records) over names x 3 revisions (every fourth case: revisions 2..100 on two names, where string order and numeric order of the keys differ), run on the real memory, Secret and ConfigMap drivers (client-go fake clientset) and compared step by step with the Lean spec map and the per-driver models, and the backends with each other; plus round trips of generated releases (unicode, large manifests, nested values, hooks, timestamps, label sets); non-trivial = some key is used by at least two calls; distinct = hash of the op sequence")
	for i := 0; i < n; i++ {
		r := NewRng(seed, uint64(i))
		names := relNames[:3]
		stream := "plain"
		allowCorrupt := false
		switch i % 4 {
		case 1:
			names = relNames // includes names containing ".v"
			stream = "dotv-names"
		case 2:
			allowCorrupt = true
			stream = "corrupt"
		}
		var vers []int
		if i%4 == 3 {
			// revisions with one and two digits on one or two names: keys order differently as strings and as numbers
			names, stream, vers = relNames[:2], "two-digit-revisions", []int{2, 3, 9, 10, 11, 12, 100}
		}
		ops := genStorageOps(r, 12+r.Intn(19), names, allowCorrupt, vers...)
		storageCase(m, rep, ops, stream, seed, i)
	}
	for i := 0; i < n/4+1; i++ {
		storageRoundTrip(rep, NewRng(seed^0xabc, uint64(i)), seed, i)
	}
	rep.Write(out, m)
}

func storageCase(m *Model, rep *Report, ops []map[string]any, stream string, seed uint64, idx int) {
	keys := map[string]int{}
	for _, o := range ops {
		if k, ok := o["key"].(string); ok {
			keys[k]++
		}
	}
	reuse := false
	for _, c := range keys {
		reuse = reuse || c > 1
	}
	rep.Count(ops, reuse)
	if idx < 8 {
		rep.Sample(map[string]any{"stream": stream, "ops": ops})
	}
	rep.H("stream:" + stream)
	want := m.QueryArr(map[string]any{"op": "storageSeq", "ops": ops})
	if len(want) != len(ops) {
		rep.Issue(Issue{Kind: "disagreement", Fingerprint: "C10:model-protocol", What: "model driver returned a malformed reply", Case: map[string]any{"ops": ops}, Seed: seed, Index: idx})
		return
	}
	bs := newBackends()
	diverged := map[string]bool{} // backend left the spec by a recorded finding: later steps cascade
	for step, op := range ops {
		w, _ := want[step].(map[string]any)
		var specOut any = w["spec"]
		for _, bk := range bs {
			got := applyOp(bk, op)
			exp := w[bk.name]
			rep.H(bk.name + ":" + outClass(got))
			if got == "panic" {
				fp := "C10:panic:" + bk.name
				if bk.name == "secrets" && (op["kind"] == "get" || op["kind"] == "delete") {
					fp = "C10:secrets-get-nil-deref"
				}
				rep.Issue(Issue{Kind: "monitor", Fingerprint: fp, What: fmt.Sprintf("%s driver panicked on %v", bk.name, op["kind"]), Case: map[string]any{"ops": ops[:step+1]}, Seed: seed, Index: idx})
				rep.Issue(Issue{Kind: "monitor", Fingerprint: strings.Replace(fp, "C10:", "C20:", 1), What: fmt.Sprintf("%s driver panicked on %v", bk.name, op["kind"]), Case: map[string]any{"ops": ops[:step+1]}, Seed: seed, Index: idx})
			}
			// what the actions call: Storage.Last / History / Deployed of the name just touched return a value or an
			// error, whatever the stored records look like (undecodable bodies included)
			if stream == "corrupt" {
				if k, ok := op["key"].(string); ok {
					name := strings.TrimPrefix(k, "sh.helm.release.v1.")
					if j := strings.LastIndex(name, ".v"); j > 0 {
						name = name[:j]
					}
					st := storage.Init(bk.d)
					if p := safely(func() { st.Last(name); st.History(name); st.Deployed(name); st.DeployedAll(name) }); p != "" {
						rep.Issue(Issue{Kind: "monitor", Fingerprint: "C20:panic:storage-level:" + bk.name, What: "Storage.Last / History / Deployed of " + name + " panicked: " + trunc(p, 200), Case: map[string]any{"ops": ops[:step+1]}, Seed: seed, Index: idx})
					}
					rep.H("storage-level-probe")
				}
			}
			if !jsonEqual(got, exp) {
				rep.Issue(Issue{Kind: "disagreement", Fingerprint: "C10:model:" + bk.name, What: fmt.Sprintf("step %d (%v): %s driver differs from its model", step, op["kind"], bk.name), Case: map[string]any{"ops": ops[:step+1]}, Model: exp, Impl: got, Seed: seed, Index: idx})
				return
			}
			// the property itself: every backend behaves as the spec map
			if specOut != "n/a" && stream != "corrupt" && !diverged[bk.name] && !sameAsSpec(got, specOut, bk.name, op) {
				fp := "C10:spec:" + bk.name
				if bk.name == "mem" && got == "invalidkey" && strings.Contains(strings.TrimPrefix(op["key"].(string), "sh.helm.release.v1."), ".v") && strings.Count(strings.TrimPrefix(op["key"].(string), "sh.helm.release.v1."), ".v") > 1 {
					fp = "C10:memory-dotv-name"
				}
				rep.Issue(Issue{Kind: "monitor", Fingerprint: fp, What: fmt.Sprintf("step %d (%v %v): %s driver answers %v, a key-value map answers %v", step, op["kind"], op["key"], bk.name, trunc(canon(got), 120), trunc(canon(specOut), 120)), Case: map[string]any{"ops": ops[:step+1]}, Model: specOut, Impl: got, Seed: seed, Index: idx})
				if fp != "C10:memory-dotv-name" {
					return
				}
				diverged[bk.name] = true
			}
		}
	}
	rep.Traces++
}

// sameAsSpec: equality with the spec's answer, except where the property text itself leaves
// room: updating a missing key must fail (any error class).
func sameAsSpec(got, spec any, backend string, op map[string]any) bool {
	if jsonEqual(got, spec) {
		return true
	}
	if op["kind"] == "update" && spec == "notfound" && got == "other" {
		return true
	}
	return false
}

func outClass(o any) string {
	if s, ok := o.(string); ok {
		return s
	}
	if m, ok := o.(map[string]any); ok {
		if _, ok := m["rel"]; ok {
			return "rel"
		}
		return "rels"
	}
	return "?"
}

// storageRoundTrip: a release read back equals the release stored.
func storageRoundTrip(rep *Report, r *Rng, seed uint64, idx int) {
	name := Pick(r, []string{"a", "rel-1", "a.b", strings.Repeat("x", 53), "x0"})
	ver := 1 + r.Intn(99999)
	rel := &release.Release{Name: name, Namespace: "default", Version: ver,
		Info:     &release.Info{Status: release.Status(Pick(r, relStatuses)), Description: Pick(r, []string{"", "Install complete", "ünïcode ✓"}), Notes: Pick(r, []string{"", "notes\nline2"})},
		Manifest: Pick(r, []string{"", "---\n# Source: x\nkind: ConfigMap\n", strings.Repeat("manifest line é\n", 1+r.Intn(2000)), "\x00\x01binary\xff"}),
		Config:   genTree(r, 0, valKeys),
		Chart:    &chart.Chart{Metadata: &chart.Metadata{Name: "c", Version: "1.2.3", APIVersion: "v2"}, Values: genTree(r, 0, valKeys), Templates: []*chart.File{{Name: "templates/a.yaml", Data: []byte("a: {{ .Values.a }}")}}},
	}
	if idx%12 == 5 {
		// a big release: 1-3 MiB of (compressible) manifest, far above 1 MiB once decoded, still well under
		// the size limit of a stored object once gzipped
		rel.Manifest = strings.Repeat("# a manifest line that compresses well\n", (1+r.Intn(3))*(1<<20)/39)
	}
	// the zone the timestamps carry: a client's clock is rarely in UTC
	zone := Pick(r, []*time.Location{time.UTC, time.UTC, time.FixedZone("CET", 3600), time.FixedZone("IST", 19800), time.FixedZone("PST", -8*3600), time.FixedZone("", 45*60)})
	if r.Chance(50) {
		rel.Info.FirstDeployed = helmtime.Unix(int64(r.Intn(2000000000)), int64(r.Intn(1000000000))).In(zone)
		rel.Info.LastDeployed = helmtime.Unix(int64(r.Intn(2000000000)), 0).In(zone)
		if r.Chance(30) {
			rel.Info.Deleted = helmtime.Unix(int64(r.Intn(2000000000)), int64(r.Intn(1000))*1000000).In(zone)
		}
	}
	if r.Chance(40) {
		rel.Hooks = []*release.Hook{{Name: "h", Kind: "Job", Path: "c/templates/h.yaml", Manifest: "kind: Job", Events: []release.HookEvent{release.HookPreInstall}, Weight: r.Intn(10) - 5, DeletePolicies: []release.HookDeletePolicy{release.HookSucceeded}}}
		if r.Chance(50) {
			rel.Hooks[0].LastRun = release.HookExecution{StartedAt: helmtime.Unix(int64(r.Intn(2000000000)), 0).In(zone), CompletedAt: helmtime.Unix(int64(r.Intn(2000000000)), 500).In(zone), Phase: release.HookPhaseSucceeded}
		}
	}
	if r.Chance(50) {
		rel.Labels = map[string]string{"team": "x", "env.example/y": "v-1"}
	}
	key := relKeyOf(name, ver)
	want, _ := json.Marshal(rel)
	rep.Count(map[string]any{"roundtrip": string(want[:min(len(want), 300)]), "len": len(want)}, true)
	for _, bk := range newBackends() {
		var got *release.Release
		var err error
		if p := safely(func() {
			if err = bk.d.Create(key, rel); err == nil {
				got, err = bk.d.Get(key)
			}
		}); p != "" {
			rep.Issue(Issue{Kind: "monitor", Fingerprint: "C10:panic:roundtrip:" + bk.name, What: p, Case: map[string]any{"name": name, "version": ver}, Seed: seed, Index: idx})
			continue
		}
		if err != nil {
			rep.Issue(Issue{Kind: "monitor", Fingerprint: "C10:roundtrip-error:" + bk.name, What: "create+get of a valid release failed: " + err.Error(), Case: map[string]any{"name": name, "version": ver}, Seed: seed, Index: idx})
			continue
		}
		gb, _ := json.Marshal(got)
		ul := map[string]string{}
		for k, v := range got.Labels {
			if !sysLabelSet[k] {
				ul[k] = v
			}
		}
		wl := rel.Labels
		if wl == nil {
			wl = map[string]string{}
		}
		// the instants, compared as instants (the encoding of a time is not the time)
		type inst struct {
			what      string
			put, read helmtime.Time
		}
		insts := []inst{{"info.first_deployed", rel.Info.FirstDeployed, got.Info.FirstDeployed}, {"info.last_deployed", rel.Info.LastDeployed, got.Info.LastDeployed}, {"info.deleted", rel.Info.Deleted, got.Info.Deleted}}
		if len(rel.Hooks) == 1 && len(got.Hooks) == 1 {
			insts = append(insts, inst{"hook.last_run.started_at", rel.Hooks[0].LastRun.StartedAt, got.Hooks[0].LastRun.StartedAt}, inst{"hook.last_run.completed_at", rel.Hooks[0].LastRun.CompletedAt, got.Hooks[0].LastRun.CompletedAt})
		}
		for _, in := range insts {
			if !in.put.Equal(in.read) {
				rep.Issue(Issue{Kind: "monitor", Fingerprint: "C10:roundtrip-instant:" + bk.name, What: in.what + " read back is another instant than the one stored", Case: map[string]any{"name": name, "version": ver, "zone": zone.String()}, Model: in.put.Time.Format(time.RFC3339Nano), Impl: in.read.Time.Format(time.RFC3339Nano), Seed: seed, Index: idx})
				break
			}
		}
		if zone != time.UTC {
			rep.H("roundtrip:zone-not-utc")
		}
		if !jsonEqual(json.RawMessage(gb), json.RawMessage(want)) || !jsonEqual(ul, wl) {
			rep.Issue(Issue{Kind: "monitor", Fingerprint: "C10:roundtrip:" + bk.name, What: "release read back differs from the release stored", Case: map[string]any{"name": name, "version": ver}, Model: trunc(string(want), 600), Impl: trunc(string(gb), 600), Seed: seed, Index: idx})
		}
		rep.H("roundtrip:" + bk.name)
	}
}
