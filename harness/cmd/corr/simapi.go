package main

// A simulated Kubernetes API server behind the real kube.Client (kubectl's TestFactory + a
// fake REST client whose round-tripper is this object store), a recording / faulting /
// freezing wrapper for storage drivers, and a scripted waiter.

import (
	"bytes"
	"encoding/json"
	"errors"
	"fmt"
	"io"
	"net/http"
	"sort"
	"strings"
	"sync"
	"time"

	jsonpatch "github.com/evanphx/json-patch"
	"k8s.io/apimachinery/pkg/api/meta"
	metav1 "k8s.io/apimachinery/pkg/apis/meta/v1"
	"k8s.io/apimachinery/pkg/runtime"
	"k8s.io/apimachinery/pkg/runtime/schema"
	"k8s.io/apimachinery/pkg/util/strategicpatch"
	"k8s.io/cli-runtime/pkg/resource"
	"k8s.io/client-go/discovery"
	"k8s.io/client-go/kubernetes/scheme"
	"k8s.io/client-go/rest/fake"
	"k8s.io/client-go/restmapper"
	cmdtesting "k8s.io/kubectl/pkg/cmd/testing"

	"helm.sh/helm/v4/pkg/action"
	chartutil "helm.sh/helm/v4/pkg/chart/v2/util"
	"helm.sh/helm/v4/pkg/kube"
	release "helm.sh/helm/v4/pkg/release/v1"
	"helm.sh/helm/v4/pkg/storage"
	"helm.sh/helm/v4/pkg/storage/driver"
)

type simReq struct {
	Method string `json:"method"`
	Path   string `json:"path"`
	Seq    int    `json:"seq"`
	Start  int64  `json:"-"`
	End    int64  `json:"-"`
}

type simAPI struct {
	mu     sync.Mutex
	objs   map[string]map[string]any
	log    []simReq
	frozen *bool
	// reject: substring of "METHOD path" -> reject with 500
	reject map[string]bool
	// crashOn: substring of "METHOD path" -> the process dies when it sends this request
	crashOn map[string]bool
	delay   func(method, path string) time.Duration
	// hold: called for every POST outside the lock, with the name of the object; may block (the barrier harness
	// keeps creates in flight with it)
	hold  func(path, name string)
	clock int64
	// trace: mutating requests (with object names) and waiter calls, in order
	trace []string
}

func (s *simAPI) traceEv(ev string) {
	s.mu.Lock()
	s.trace = append(s.trace, ev)
	s.mu.Unlock()
}

func newSimAPI(frozen *bool) *simAPI {
	return &simAPI{objs: map[string]map[string]any{}, reject: map[string]bool{}, crashOn: map[string]bool{}, frozen: frozen}
}

func jsonResp(code int, v any) *http.Response {
	b, _ := json.Marshal(v)
	h := http.Header{}
	h.Set("Content-Type", runtime.ContentTypeJSON)
	return &http.Response{StatusCode: code, Header: h, Body: io.NopCloser(bytes.NewReader(b))}
}
func statusResp(code int, reason metav1.StatusReason, msg string) *http.Response {
	return jsonResp(code, &metav1.Status{TypeMeta: metav1.TypeMeta{Kind: "Status", APIVersion: "v1"}, Status: metav1.StatusFailure, Code: int32(code), Reason: reason, Message: msg})
}

func (s *simAPI) rt(req *http.Request) (*http.Response, error) {
	p := strings.Trim(req.URL.Path, "/")
	var body []byte
	if req.Body != nil {
		body, _ = io.ReadAll(req.Body)
	}
	s.mu.Lock()
	if *s.frozen {
		s.mu.Unlock()
		return nil, errors.New("connection refused (process is dead)")
	}
	s.clock++
	rec := simReq{Method: req.Method, Path: p, Seq: len(s.log), Start: s.clock}
	idx := len(s.log)
	s.log = append(s.log, rec)
	var d time.Duration
	if s.delay != nil {
		d = s.delay(req.Method, p)
	}
	s.mu.Unlock()
	if d > 0 {
		time.Sleep(d)
	}
	if s.hold != nil && req.Method == "POST" {
		var o struct {
			Metadata struct {
				Name string `json:"name"`
			} `json:"metadata"`
		}
		json.Unmarshal(body, &o)
		s.hold(p, o.Metadata.Name)
	}
	s.mu.Lock()
	defer s.mu.Unlock()
	s.clock++
	s.log[idx].End = s.clock
	full := req.Method + " " + p
	if req.Method == "POST" {
		var o map[string]any
		json.Unmarshal(body, &o)
		if md, ok := o["metadata"].(map[string]any); ok {
			full += "/" + fmt.Sprint(md["name"])
		}
	}
	if req.Method != "GET" {
		s.trace = append(s.trace, full)
	}
	for k := range s.crashOn {
		if strings.Contains(full, k) {
			*s.frozen = true
			return nil, errors.New("connection refused (process is dead)")
		}
	}
	for k := range s.reject {
		if strings.Contains(full, k) {
			if req.Method == "POST" {
				s.log[idx].Path = strings.TrimPrefix(full, "POST ")
			}
			return statusResp(500, metav1.StatusReasonInternalError, "injected failure"), nil
		}
	}
	switch req.Method {
	case "GET":
		o, ok := s.objs[p]
		if !ok {
			return statusResp(404, metav1.StatusReasonNotFound, "not found"), nil
		}
		return jsonResp(200, o), nil
	case "POST":
		var o map[string]any
		json.Unmarshal(body, &o)
		md, _ := o["metadata"].(map[string]any)
		name, _ := md["name"].(string)
		k := p + "/" + name
		s.log[idx].Path = k
		if _, ok := s.objs[k]; ok {
			return statusResp(409, metav1.StatusReasonAlreadyExists, "exists"), nil
		}
		s.objs[k] = o
		return jsonResp(201, o), nil
	case "PUT":
		var o map[string]any
		json.Unmarshal(body, &o)
		s.objs[p] = o
		return jsonResp(200, o), nil
	case "PATCH":
		o, ok := s.objs[p]
		if !ok {
			return statusResp(404, metav1.StatusReasonNotFound, "not found"), nil
		}
		orig, _ := json.Marshal(o)
		var out []byte
		var err error
		ct := req.Header.Get("Content-Type")
		if strings.Contains(ct, "strategic") {
			gvk := schema.FromAPIVersionAndKind(fmt.Sprint(o["apiVersion"]), fmt.Sprint(o["kind"]))
			ds, e := scheme.Scheme.New(gvk)
			if e != nil {
				return statusResp(500, "", e.Error()), nil
			}
			out, err = strategicpatch.StrategicMergePatch(orig, body, ds)
		} else {
			out, err = jsonpatch.MergePatch(orig, body)
		}
		if err != nil {
			return statusResp(500, "", err.Error()), nil
		}
		var no map[string]any
		json.Unmarshal(out, &no)
		s.objs[p] = no
		return jsonResp(200, no), nil
	case "DELETE":
		o, ok := s.objs[p]
		if !ok {
			return statusResp(404, metav1.StatusReasonNotFound, "not found"), nil
		}
		delete(s.objs, p)
		return jsonResp(200, o), nil
	}
	return statusResp(500, "", "unhandled"), nil
}

func (s *simAPI) keys() []string {
	s.mu.Lock()
	defer s.mu.Unlock()
	var k []string
	for x := range s.objs {
		k = append(k, x)
	}
	sort.Strings(k)
	return k
}

func (s *simAPI) mutations(from int) []string {
	s.mu.Lock()
	defer s.mu.Unlock()
	var out []string
	for _, r := range s.log[from:] {
		if r.Method != "GET" {
			out = append(out, r.Method+" "+r.Path)
		}
	}
	return out
}

// ---- scripted waiter ----

type waitPlan struct {
	mainWait, nestedWait string            // outcome of Wait/WaitWithJobs in the operation itself / in the one it starts (atomic)
	resources            string            // outcome of KubeClient.Create/Update of manifest resources
	reachCalls           int               // IsReachable calls so far: the 2nd one is the nested operation starting
	hookFail             map[string]string // hook resource name prefix -> "fail" | "crash"
}

type scriptWaiter struct {
	plan   *waitPlan
	frozen *bool
	api    *simAPI
}

func (w scriptWaiter) tr(kind string, rs kube.ResourceList) {
	if w.api == nil {
		return
	}
	for _, r := range rs {
		key := r.Name
		if r.Mapping != nil {
			key = "namespaces/" + r.Namespace + "/" + r.Mapping.Resource.Resource + "/" + r.Name
		}
		w.api.traceEv(kind + " " + key)
	}
}

func (w scriptWaiter) outcome(d string) error {
	if *w.frozen {
		return errors.New("dead")
	}
	switch d {
	case "fail":
		return errors.New("injected wait failure")
	case "crash":
		*w.frozen = true
		return errors.New("dead")
	}
	return nil
}
func (w scriptWaiter) nextWait() string {
	if w.plan.reachCalls >= 2 {
		return w.plan.nestedWait
	}
	return w.plan.mainWait
}
func (w scriptWaiter) Wait(rs kube.ResourceList, _ time.Duration) error {
	w.tr("WAIT", rs)
	return w.outcome(w.nextWait())
}
func (w scriptWaiter) WaitWithJobs(rs kube.ResourceList, _ time.Duration) error {
	w.tr("WAIT", rs)
	return w.outcome(w.nextWait())
}
func (w scriptWaiter) WaitForDelete(rs kube.ResourceList, _ time.Duration) error {
	w.tr("WAITDEL", rs)
	if *w.frozen {
		return errors.New("dead")
	}
	return nil
}
func (w scriptWaiter) WatchUntilReady(rs kube.ResourceList, _ time.Duration) error {
	w.tr("WATCH", rs)
	for _, r := range rs {
		for pfx, d := range w.plan.hookFail {
			if strings.HasPrefix(r.Name, pfx) {
				return w.outcome(d)
			}
		}
	}
	return w.outcome("")
}

// ---- kube client wrapper ----

type simKube struct {
	*kube.Client
	w         scriptWaiter
	reachable *string // "", "fail", "crash"
	frozen    *bool
}

func (k simKube) GetWaiter(kube.WaitStrategy) (kube.Waiter, error) { return k.w, nil }
func allHooks(rs kube.ResourceList) bool {
	for _, r := range rs {
		if !strings.HasPrefix(r.Name, "hook-") {
			return false
		}
	}
	return len(rs) > 0
}

// resource phase faults are injected at the client interface (the HTTP level would depend on
// whether a request is needed at all); hooks are recognised by their name
func (k simKube) resFault(rs kube.ResourceList) error {
	if *k.frozen {
		return errors.New("dead")
	}
	if allHooks(rs) || k.w.plan.reachCalls >= 2 {
		return nil
	}
	switch k.w.plan.resources {
	case "fail":
		return errors.New("injected: resource phase failed")
	case "crash":
		*k.frozen = true
		return errors.New("dead")
	}
	return nil
}
func (k simKube) Create(rs kube.ResourceList) (*kube.Result, error) {
	if err := k.resFault(rs); err != nil {
		return &kube.Result{}, err
	}
	return k.Client.Create(rs)
}
func (k simKube) Update(orig, target kube.ResourceList, force bool) (*kube.Result, error) {
	if err := k.resFault(target); err != nil {
		return &kube.Result{}, err
	}
	return k.Client.Update(orig, target, force)
}
func (k simKube) IsReachable() error {
	if *k.frozen {
		return errors.New("dead")
	}
	k.w.plan.reachCalls++
	if k.w.plan.reachCalls >= 2 {
		return nil
	}
	switch *k.reachable {
	case "fail":
		return errors.New("injected: cluster unreachable")
	case "crash":
		*k.frozen = true
		return errors.New("dead")
	}
	return nil
}

// simFactory: the kubectl test factory plus a REST mapping for CustomResourceDefinition (the
// chart's crds/ directory), so that the real kube.Client can build and create CRDs.
type simFactory struct{ *cmdtesting.TestFactory }

func (f simFactory) ToRESTMapper() (meta.RESTMapper, error) {
	base, err := f.TestFactory.ToRESTMapper()
	if err != nil {
		return nil, err
	}
	gv := schema.GroupVersion{Group: "apiextensions.k8s.io", Version: "v1"}
	crd := meta.NewDefaultRESTMapper([]schema.GroupVersion{gv})
	crd.Add(gv.WithKind("CustomResourceDefinition"), meta.RESTScopeRoot)
	// the unstructured test kind under two versions of one group (same resource name as its unversioned spelling:
	// the simulated API server keeps one object whichever version a request names)
	mappers := meta.MultiRESTMapper{base, crd}
	for _, v := range []string{"v1", "unlikelyversion"} {
		tgv := schema.GroupVersion{Group: "apitest", Version: v}
		tm := meta.NewDefaultRESTMapper([]schema.GroupVersion{tgv})
		tm.AddSpecific(tgv.WithKind("NamespacedType"), tgv.WithResource("namespacedtype"), tgv.WithResource("namespacedtype"), meta.RESTScopeNamespace)
		mappers = append(mappers, tm)
	}
	// the same kind name in another API group, kept under a resource name of its own: another object altogether
	ogv := schema.GroupVersion{Group: "othergroup.example", Version: "v1"}
	om := meta.NewDefaultRESTMapper([]schema.GroupVersion{ogv})
	om.AddSpecific(ogv.WithKind("NamespacedType"), ogv.WithResource("othernamespacedtype"), ogv.WithResource("othernamespacedtype"), meta.RESTScopeNamespace)
	mappers = append(mappers, om)
	return mappers, nil
}

func (f simFactory) NewBuilder() *resource.Builder {
	return resource.NewFakeBuilder(
		func(schema.GroupVersion) (resource.RESTClient, error) { return f.UnstructuredClient, nil },
		f.ToRESTMapper,
		func() (restmapper.CategoryExpander, error) { return resource.FakeCategoryExpander, nil },
	)
}

type simGetter struct{ *cmdtesting.TestFactory }

func (r simGetter) ToDiscoveryClient() (discovery.CachedDiscoveryInterface, error) {
	return cmdtesting.NewFakeCachedDiscoveryClient(), nil
}

// ---- storage wrapper ----

type faultDriver struct {
	inner  driver.Driver
	decs   *[]string // decisions for writes, in order: "", "fail", "crash"
	writes *[]string
	frozen *bool
	gate   func(kind string) // optional: called before every call (schedule control)
}

func (f faultDriver) Name() string { return f.inner.Name() }
func (f faultDriver) next(desc string) (string, error) {
	if f.gate != nil {
		f.gate("write")
	}
	if *f.frozen {
		return "dead", errors.New("dead")
	}
	*f.writes = append(*f.writes, desc)
	d := ""
	if len(*f.decs) > 0 {
		d = (*f.decs)[0]
		*f.decs = (*f.decs)[1:]
	}
	switch d {
	case "fail":
		return d, errors.New("injected storage failure")
	case "crash":
		*f.frozen = true
		return d, errors.New("dead")
	}
	return "", nil
}
func statusName(s release.Status) string {
	m := map[release.Status]string{"unknown": "unknown", "deployed": "deployed", "uninstalled": "uninstalled", "superseded": "superseded", "failed": "failed", "uninstalling": "uninstalling", "pending-install": "pendingInstall", "pending-upgrade": "pendingUpgrade", "pending-rollback": "pendingRollback"}
	return "Helm.Ledger.Status." + m[s]
}
func (f faultDriver) Create(key string, r *release.Release) error {
	if _, err := f.next(fmt.Sprintf("create %d %s", r.Version, statusName(r.Info.Status))); err != nil {
		return err
	}
	return f.inner.Create(key, r)
}
func (f faultDriver) Update(key string, r *release.Release) error {
	if _, err := f.next(fmt.Sprintf("update %d %s", r.Version, statusName(r.Info.Status))); err != nil {
		return err
	}
	return f.inner.Update(key, r)
}
func (f faultDriver) Delete(key string) (*release.Release, error) {
	ver := key[strings.LastIndex(key, ".v")+2:]
	if _, err := f.next("delete " + ver); err != nil {
		return nil, err
	}
	return f.inner.Delete(key)
}
func (f faultDriver) read() error {
	if f.gate != nil {
		f.gate("read")
	}
	if *f.frozen {
		return errors.New("dead")
	}
	return nil
}
func (f faultDriver) Get(key string) (*release.Release, error) {
	if err := f.read(); err != nil {
		return nil, err
	}
	return f.inner.Get(key)
}
func (f faultDriver) List(filter func(*release.Release) bool) ([]*release.Release, error) {
	if err := f.read(); err != nil {
		return nil, err
	}
	return f.inner.List(filter)
}
func (f faultDriver) Query(l map[string]string) ([]*release.Release, error) {
	if err := f.read(); err != nil {
		return nil, err
	}
	return f.inner.Query(l)
}

// ---- a world: cluster + release storage ----

type simWorld struct {
	api       *simAPI
	tf        *cmdtesting.TestFactory
	inner     driver.Driver
	frozen    bool
	reachable string
	wplan     waitPlan
	decs      []string
	writes    []string
	gate      func(kind string)
}

func newSimWorld(inner driver.Driver) *simWorld {
	w := &simWorld{inner: inner}
	w.api = newSimAPI(&w.frozen)
	w.tf = cmdtesting.NewTestFactory().WithNamespace("default")
	w.tf.UnstructuredClient = &fake.RESTClient{
		NegotiatedSerializer: resource.UnstructuredPlusDefaultContentConfig().NegotiatedSerializer,
		Client:               fake.CreateHTTPClient(w.api.rt),
	}
	w.wplan.hookFail = map[string]string{}
	return w
}

func (w *simWorld) close() { w.tf.Cleanup() }

// cfg returns a fresh action configuration (as a fresh helm process would have) over the same
// cluster and the same stored records.
func (w *simWorld) cfg() *action.Configuration {
	client := &kube.Client{Factory: simFactory{w.tf}}
	fd := faultDriver{inner: w.inner, decs: &w.decs, writes: &w.writes, frozen: &w.frozen, gate: w.gate}
	return &action.Configuration{
		RESTClientGetter: simGetter{w.tf},
		Releases:         storage.Init(fd),
		KubeClient:       simKube{Client: client, w: scriptWaiter{plan: &w.wplan, frozen: &w.frozen, api: w.api}, reachable: &w.reachable, frozen: &w.frozen},
		Capabilities:     chartutil.DefaultCapabilities,
	}
}

// revive: the next operation is a new process.
func (w *simWorld) revive() {
	w.frozen = false
	w.reachable = ""
	w.wplan = waitPlan{hookFail: map[string]string{}}
	w.decs = nil
	w.writes = nil
	w.api.mu.Lock()
	w.api.reject = map[string]bool{}
	w.api.crashOn = map[string]bool{}
	w.api.mu.Unlock()
}
