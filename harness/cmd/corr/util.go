package main

import (
	"bufio"
	"crypto/sha256"
	"encoding/hex"
	"encoding/json"
	"fmt"
	"io"
	"os"
	"os/exec"
	"sort"
	"strings"
)

// ---------- PRNG: splitmix64; case i of a run uses stream (seed, i) ----------

type Rng struct{ s uint64 }

func NewRng(seed uint64, stream uint64) *Rng {
	r := &Rng{s: seed*0x9E3779B97F4A7C15 + stream*0xBF58476D1CE4E5B9 + 0x94D049BB133111EB}
	r.Next()
	return r
}
func (r *Rng) Next() uint64 {
	r.s += 0x9E3779B97F4A7C15
	z := r.s
	z = (z ^ (z >> 30)) * 0xBF58476D1CE4E5B9
	z = (z ^ (z >> 27)) * 0x94D049BB133111EB
	return z ^ (z >> 31)
}
func (r *Rng) Intn(n int) int {
	if n <= 0 {
		return 0
	}
	return int(r.Next() % uint64(n))
}
func (r *Rng) Bool() bool        { return r.Next()&1 == 1 }
func (r *Rng) Chance(p int) bool { return r.Intn(100) < p } // p percent
func Pick[T any](r *Rng, xs []T) T {
	return xs[r.Intn(len(xs))]
}

// ---------- model driver client ----------

type Model struct {
	cmd *exec.Cmd
	in  io.WriteCloser
	out *bufio.Reader
	N   int
}

func StartModel() *Model {
	bin := os.Getenv("HELM_MODEL")
	if bin == "" {
		bin = "/verif/lean/.lake/build/bin/helm_model"
	}
	cmd := exec.Command(bin)
	in, _ := cmd.StdinPipe()
	out, _ := cmd.StdoutPipe()
	cmd.Stderr = os.Stderr
	if err := cmd.Start(); err != nil {
		fmt.Fprintln(os.Stderr, "cannot start model driver:", err)
		os.Exit(2)
	}
	return &Model{cmd: cmd, in: in, out: bufio.NewReaderSize(out, 1<<20)}
}

func (m *Model) Query(q map[string]any) map[string]any {
	r, _ := m.QueryAny(q).(map[string]any)
	if r == nil {
		r = map[string]any{}
	}
	return r
}

func (m *Model) QueryArr(q map[string]any) []any {
	r, _ := m.QueryAny(q).([]any)
	return r
}

// QueryAny sends one JSON line and reads one JSON reply.
func (m *Model) QueryAny(q map[string]any) any {
	b, err := json.Marshal(q)
	if err != nil {
		panic(err)
	}
	m.N++
	if _, err := m.in.Write(append(b, '\n')); err != nil {
		fmt.Fprintln(os.Stderr, "model driver write failed:", err)
		os.Exit(2)
	}
	line, err := m.out.ReadBytes('\n')
	if err != nil {
		fmt.Fprintln(os.Stderr, "model driver died on query:", string(b), err)
		os.Exit(2)
	}
	var r any
	if err := json.Unmarshal(line, &r); err != nil {
		fmt.Fprintln(os.Stderr, "model driver bad reply:", string(line))
		os.Exit(2)
	}
	return r
}
func (m *Model) Close() { m.in.Close(); m.cmd.Wait() }

// ---------- report ----------

type Issue struct {
	Kind        string `json:"kind"` // disagreement | monitor
	Fingerprint string `json:"fingerprint"`
	What        string `json:"what"`
	Case        any    `json:"case"`
	Model       any    `json:"model,omitempty"`
	Impl        any    `json:"impl,omitempty"`
	Seed        uint64 `json:"seed"`
	Index       int    `json:"index"`
}

type Report struct {
	Property    string         `json:"property"`
	Sub         string         `json:"sub"`
	Seed        uint64         `json:"seed"`
	Evaluations int            `json:"evaluations"`
	Distinct    int            `json:"distinct_nontrivial"`
	Rule        string         `json:"rule"`
	Samples     []any          `json:"samples"`
	Hist        map[string]int `json:"histogram"`
	Issues      []Issue        `json:"issues"`
	Traces      int            `json:"traces_validated_against_impl"`
	ModelQ      int            `json:"model_queries"`
	seen        map[string]bool
}

func NewReport(prop, sub string, seed uint64, rule string) *Report {
	return &Report{Property: prop, Sub: sub, Seed: seed, Rule: rule, Hist: map[string]int{}, seen: map[string]bool{}}
}

// Count registers one evaluated case; nontrivial says whether the case is non-trivial by the
// sub-command's rule; key is its canonical form (distinctness is measured by hashing it).
func (r *Report) Count(key any, nontrivial bool) {
	r.Evaluations++
	if !nontrivial {
		return
	}
	b, _ := json.Marshal(key)
	h := sha256.Sum256(b)
	k := hex.EncodeToString(h[:8])
	if !r.seen[k] {
		r.seen[k] = true
		r.Distinct++
	}
}
func (r *Report) Sample(v any) {
	if len(r.Samples) < 3 {
		r.Samples = append(r.Samples, v)
	}
}
func (r *Report) H(k string) { r.Hist[k]++ }

// replayIndex >= 0: only the case with this index is of interest (sub-commands that cannot jump to a
// case regenerate the cases before it and their issues are dropped here)
var replayIndex = -1

func (r *Report) Issue(i Issue) {
	if replayIndex >= 0 && i.Index != replayIndex && i.Index >= 0 {
		return
	}
	r.Hist["issue:"+i.Fingerprint]++
	// keep at most 3 instances per fingerprint so that one frequent class cannot crowd out others
	cnt := 0
	for _, x := range r.Issues {
		if x.Fingerprint == i.Fingerprint {
			cnt++
		}
	}
	if cnt >= 3 {
		return
	}
	if len(r.Issues) < 60 {
		r.Issues = append(r.Issues, i)
	}
}
func (r *Report) Write(path string, m *Model) {
	if m != nil {
		r.ModelQ = m.N
	}
	if r.Samples == nil {
		r.Samples = []any{}
	}
	if r.Issues == nil {
		r.Issues = []Issue{}
	}
	b, _ := json.MarshalIndent(r, "", " ")
	if path == "" || path == "-" {
		os.Stdout.Write(append(b, '\n'))
		return
	}
	if err := os.WriteFile(path, b, 0o644); err != nil {
		fmt.Fprintln(os.Stderr, err)
		os.Exit(2)
	}
}

// ---------- misc ----------

func canon(v any) string {
	b, _ := json.Marshal(v)
	return string(b)
}

func sortedKeys[V any](m map[string]V) []string {
	ks := make([]string, 0, len(m))
	for k := range m {
		ks = append(ks, k)
	}
	sort.Strings(ks)
	return ks
}

// safely runs f and reports a panic as a string (empty when none).
func safely(f func()) (p string) {
	defer func() {
		if r := recover(); r != nil {
			p = fmt.Sprint(r)
			if len(p) > 200 {
				p = p[:200]
			}
		}
	}()
	f()
	return ""
}

func trunc(s string, n int) string {
	if len(s) > n {
		return s[:n] + "…"
	}
	return s
}

var _ = strings.TrimSpace
