package main

import (
	"fmt"
	"os"
	"sort"
	"strings"

	"sigs.k8s.io/yaml"

	"helm.sh/helm/v4/pkg/action"
	chart "helm.sh/helm/v4/pkg/chart/v2"
	chartutil "helm.sh/helm/v4/pkg/chart/v2/util"
	releaseutil "helm.sh/helm/v4/pkg/release/util"
	release "helm.sh/helm/v4/pkg/release/v1"
	"helm.sh/helm/v4/pkg/storage"
	"helm.sh/helm/v4/pkg/storage/driver"
)

func init() { subs["manifests"] = corrManifests }

// all kinds of the documented order (a copy of Helm/Spec/Tables.lean, deliberately not read from /repo)
var knownKinds = []string{"PriorityClass", "Namespace", "NetworkPolicy", "ResourceQuota", "LimitRange", "PodSecurityPolicy", "PodDisruptionBudget", "ServiceAccount", "Secret", "SecretList", "ConfigMap", "StorageClass", "PersistentVolume", "PersistentVolumeClaim", "CustomResourceDefinition", "ClusterRole", "ClusterRoleList", "ClusterRoleBinding", "ClusterRoleBindingList", "Role", "RoleList", "RoleBinding", "RoleBindingList", "Service", "DaemonSet", "Pod", "ReplicationController", "ReplicaSet", "Deployment", "HorizontalPodAutoscaler", "StatefulSet", "Job", "CronJob", "IngressClass", "Ingress", "APIService", "MutatingWebhookConfiguration", "ValidatingWebhookConfiguration"}
var unknownKinds = []string{"Widget", "Alpha", "Zeta", "configmap", "Certificate", ""}
var hookWords = []string{"pre-install", "post-install", "pre-delete", "post-delete", "pre-upgrade", "post-upgrade", "pre-rollback", "post-rollback", "test", "test-success", "Pre-Install", " post-upgrade ", "bogus", "crd-install", ""}
var policyWords = []string{"hook-succeeded", "hook-failed", "before-hook-creation", "Hook-Succeeded", "weird"}
var weights = []string{"0", "1", "-1", "5", "-5", "10", "+3", "abc", "", "007", "9223372036854775807", "9223372036854775808", "-9223372036854775808", "1_0", " 4"}

type genDoc struct {
	Kind, Name string
	Annos      map[string]string
	Raw        string // when set, emitted verbatim
}

func (d genDoc) yaml() string {
	if d.Raw != "" {
		return d.Raw
	}
	var b strings.Builder
	b.WriteString("apiVersion: v1\n")
	if d.Kind != "" {
		fmt.Fprintf(&b, "kind: %s\n", d.Kind)
	}
	b.WriteString("metadata:\n")
	fmt.Fprintf(&b, "  name: %s\n", d.Name)
	if len(d.Annos) > 0 {
		b.WriteString("  annotations:\n")
		for _, k := range sortedKeys(d.Annos) {
			fmt.Fprintf(&b, "    %s: %q\n", k, d.Annos[k])
		}
	}
	return b.String()
}

func genManifestDoc(r *Rng, i int) genDoc {
	if r.Chance(5) {
		return genDoc{Raw: Pick(r, []string{"# just a comment\n", "\n\n", "   ", "# c1\n# c2", "foo: bar\n", "\v", "kind: X", "# only\n# comments\n"})}
	}
	d := genDoc{Name: fmt.Sprintf("r%d", i)}
	if r.Chance(75) {
		d.Kind = Pick(r, knownKinds)
	} else {
		d.Kind = Pick(r, unknownKinds)
	}
	if r.Chance(45) {
		d.Annos = map[string]string{}
		if r.Chance(70) {
			n := 1 + r.Intn(2)
			var ws []string
			for j := 0; j < n; j++ {
				ws = append(ws, Pick(r, hookWords))
			}
			d.Annos["helm.sh/hook"] = strings.Join(ws, ",")
		}
		if r.Chance(50) {
			d.Annos["helm.sh/hook-weight"] = Pick(r, weights)
		}
		if r.Chance(40) {
			d.Annos["helm.sh/hook-delete-policy"] = Pick(r, policyWords) + Pick(r, []string{"", ",hook-failed", ", before-hook-creation"})
		}
		if r.Chance(15) {
			d.Annos["helm.sh/hook-output-log-policy"] = Pick(r, policyWords)
		}
		if r.Chance(20) {
			d.Annos["other/anno"] = "x"
		}
	}
	return d
}

var seps = []string{"\n---\n", "\n---\n", "\n---\n", "\n--- \n", "\n---\r\n", "\r\n---\r\n", "\n\n---\n\n", "\n---\n---\n", "\n  \n---\t\n", "\n---", "---\n", "\n ---\n", "\n----\n", "\n---\n# Source: x\n", "\n--- # trailing\n"}

func genFileContent(r *Rng, ndocs int, base int) string {
	var b strings.Builder
	if r.Chance(25) {
		b.WriteString(Pick(r, []string{"---\n", "\n---\n", "--- \n", "\n\n", "# head\n---\n"}))
	}
	for i := 0; i < ndocs; i++ {
		b.WriteString(strings.TrimRight(genManifestDoc(r, base+i).yaml(), "\n"))
		if i < ndocs-1 || r.Chance(30) {
			if r.Chance(75) {
				b.WriteString(Pick(r, seps[:9]))
			} else {
				b.WriteString(Pick(r, seps))
			}
		}
	}
	if r.Chance(30) {
		b.WriteString("\n")
	}
	return b.String()
}

var filePaths = []string{"c/templates/a.yaml", "c/templates/b.yaml", "c/templates/z.yaml", "c/templates/sub/deep.yaml", "c/templates/_helpers.tpl", "c/templates/_x.yaml", "c/charts/s/templates/a.yaml", "c/charts/s/templates/_p.tpl", "c/templates/A.yaml", "c/templates/a.yml", "c/templates/tests/t.yaml", "c/templates/0.yaml", "c/templates/_internal/cm.yaml", "c/charts/s/templates/_h/_p.yaml", "c/charts/s/templates/_h/x.yaml"}

func genFiles(r *Rng) map[string]string {
	files := map[string]string{}
	nf := 1 + r.Intn(5)
	big := r.Chance(12)
	huge := r.Chance(2)
	base := 0
	for i := 0; i < nf; i++ {
		p := Pick(r, filePaths)
		nd := r.Intn(5)
		if big {
			nd = 8 + r.Intn(25)
		}
		if huge && i == 0 {
			nd = 129 + r.Intn(140) // document indices past one signed byte
		}
		if r.Chance(8) {
			files[p] = Pick(r, []string{"", "  \n", "\n\n"})
			continue
		}
		files[p] = genFileContent(r, nd, base)
		base += nd
	}
	return files
}

func mutateText(r *Rng, s string) string {
	b := []rune(s)
	n := 1 + r.Intn(4)
	ins := []rune{'-', '-', '-', '\n', '\n', ' ', '\t', '\r', '\v', '\f', 'x', '#', 0x85, 0xA0, 0x2003, ':'}
	for i := 0; i < n && len(b) > 0; i++ {
		p := r.Intn(len(b) + 1)
		switch r.Intn(3) {
		case 0:
			b = append(b[:p], append([]rune{Pick(r, ins)}, b[p:]...)...)
		case 1:
			if p < len(b) {
				b = append(b[:p], b[p+1:]...)
			}
		case 2:
			if p < len(b) {
				b[p] = Pick(r, ins)
			}
		}
	}
	return string(b)
}

func realSplit(text string) []string {
	m := releaseutil.SplitManifests(text)
	keys := make([]string, 0, len(m))
	for k := range m {
		keys = append(keys, k)
	}
	sort.Sort(releaseutil.BySplitManifestsOrder(keys))
	out := make([]string, 0, len(keys))
	for _, k := range keys {
		out = append(out, m[k])
	}
	return out
}

func headJSON(doc string) (map[string]any, error) {
	var h releaseutil.SimpleHead
	if err := yaml.Unmarshal([]byte(doc), &h); err != nil {
		return nil, err
	}
	j := map[string]any{"version": h.Version, "kind": h.Kind, "name": "", "annotations": map[string]any{}}
	if h.Metadata != nil {
		j["name"] = h.Metadata.Name
		a := map[string]any{}
		for k, v := range h.Metadata.Annotations {
			a[k] = v
		}
		j["annotations"] = a
	}
	return j, nil
}

func hooksJSON(hs []*release.Hook) []any {
	out := []any{}
	for _, h := range hs {
		ev := []any{}
		for _, e := range h.Events {
			ev = append(ev, string(e))
		}
		dp := []any{}
		for _, e := range h.DeletePolicies {
			dp = append(dp, string(e))
		}
		lp := []any{}
		for _, e := range h.OutputLogPolicies {
			lp = append(lp, string(e))
		}
		out = append(out, map[string]any{"name": h.Name, "kind": h.Kind, "path": h.Path, "manifest": h.Manifest, "events": ev, "weight": fmt.Sprint(h.Weight), "deletePolicies": dp, "logPolicies": lp})
	}
	return out
}

func filesJSON(files map[string]string, r *Rng) []any {
	// deliver the files to the model in a random order (the Go side is a map)
	ks := sortedKeys(files)
	if r != nil {
		for i := len(ks) - 1; i > 0; i-- {
			j := r.Intn(i + 1)
			ks[i], ks[j] = ks[j], ks[i]
		}
	}
	out := []any{}
	for _, k := range ks {
		out = append(out, []any{k, files[k]})
	}
	return out
}

// isAscii: the model's ToLower is ASCII only.
func isASCII(s string) bool {
	for _, c := range s {
		if c > 127 {
			return false
		}
	}
	return true
}

func corrManifests(seed uint64, n int, tier string, out string, replay string) {
	m := StartModel()
	defer m.Close()
	rep := NewReport("C08", "manifests", seed, "case = generated file map (1-5 files, 0-32 documents each, known/unknown kinds, hook/weight/policy annotations, blank/comment documents, CRLF and odd separators) or mutated text; split, SortManifests (install+uninstall order) and a client-only dry-run install compared with the model; non-trivial = at least 2 documents; distinct = by hash of the file map")
	for i := 0; i < n; i++ {
		r := NewRng(seed, uint64(i))
		files := genFiles(r)
		if r.Chance(15) {
			for _, k := range sortedKeys(files) {
				if r.Chance(40) {
					files[k] = mutateText(r, files[k])
				}
			}
		}
		checkManifestCase(m, rep, r, files, seed, i)
	}
	rep.Write(out, m)
}

func checkManifestCase(m *Model, rep *Report, r *Rng, files map[string]string, seed uint64, idx int) {
	ndocs := 0
	// 1. split
	for _, k := range sortedKeys(files) {
		text := files[k]
		impl := realSplit(text)
		ndocs += len(impl)
		mr := m.Query(map[string]any{"op": "split", "text": text})
		mdocs, _ := mr["docs"].([]any)
		if canon(mdocs) != canon(impl) {
			rep.Issue(Issue{Kind: "disagreement", Fingerprint: "C08:split", What: "SplitManifests differs from model", Case: map[string]any{"text": text}, Model: mdocs, Impl: impl, Seed: seed, Index: idx})
			rep.H("split-disagree")
			return
		}
		for _, d := range impl {
			if d == "" {
				rep.H("split-empty-doc")
			}
		}
	}
	rep.Count(files, ndocs >= 2)
	rep.Sample(map[string]any{"files": files})
	rep.H(fmt.Sprintf("docs=%d", min(ndocs/4*4, 32)))
	// 2. SortManifests
	heads := map[string]any{}
	parseErr := false
	nonASCII := false
	for _, k := range sortedKeys(files) {
		for _, d := range realSplit(files[k]) {
			h, err := headJSON(d)
			if err != nil {
				parseErr = true
				continue
			}
			if a, ok := h["annotations"].(map[string]any); ok {
				for _, v := range a {
					if !isASCII(v.(string)) {
						nonASCII = true
					}
				}
			}
			heads[d] = h
		}
	}
	for _, order := range []string{"install", "uninstall"} {
		ord := releaseutil.InstallOrder
		if order == "uninstall" {
			ord = releaseutil.UninstallOrder
		}
		cp := map[string]string{}
		for k, v := range files {
			cp[k] = v
		}
		var hs []*release.Hook
		var ms []releaseutil.Manifest
		var err error
		if p := safely(func() { hs, ms, err = releaseutil.SortManifests(cp, nil, ord) }); p != "" {
			rep.Issue(Issue{Kind: "monitor", Fingerprint: "C20:panic:SortManifests", What: "SortManifests panicked: " + p, Case: map[string]any{"files": files}, Seed: seed, Index: idx})
			return
		}
		if err != nil {
			rep.H("sort-parse-error")
			if !parseErr {
				rep.Issue(Issue{Kind: "disagreement", Fingerprint: "C08:sort-error", What: "SortManifests failed although every head decodes: " + err.Error(), Case: map[string]any{"files": files}, Seed: seed, Index: idx})
			}
			return
		}
		if parseErr || nonASCII {
			rep.H("sort-skipped")
			return
		}
		implM := []any{}
		for _, x := range ms {
			implM = append(implM, map[string]any{"name": x.Name, "content": x.Content, "kind": x.Head.Kind})
		}
		implH := hooksJSON(hs)
		mr := m.Query(map[string]any{"op": "sortManifests", "order": order, "files": filesJSON(files, r), "heads": heads})
		if canon(mr["manifests"]) != canon(implM) || canon(mr["hooks"]) != canon(implH) {
			rep.Issue(Issue{Kind: "disagreement", Fingerprint: "C08:sort:" + order, What: "SortManifests(" + order + ") differs from model", Case: map[string]any{"files": files, "order": order}, Model: map[string]any{"manifests": mr["manifests"], "hooks": mr["hooks"], "error": mr["error"]}, Impl: map[string]any{"manifests": implM, "hooks": implH}, Seed: seed, Index: idx})
			rep.H("sort-disagree")
			return
		}
		// monitor (on the implementation's output): exactly-once partition
		dropped := 0
		if f, ok := mr["dropped"].(float64); ok {
			dropped = int(f)
		}
		considered := 0
		for k, v := range files {
			base := k[strings.LastIndex(k, "/")+1:]
			if strings.HasPrefix(base, "_") || strings.TrimSpace(v) == "" {
				continue
			}
			considered += len(realSplit(v))
		}
		if considered != len(ms)+len(hs)+dropped {
			rep.Issue(Issue{Kind: "monitor", Fingerprint: "C08:partition", What: fmt.Sprintf("documents considered %d != manifests %d + hooks %d + dropped %d", considered, len(ms), len(hs), dropped), Case: map[string]any{"files": files}, Seed: seed, Index: idx})
		}
		if len(hs) > 0 {
			rep.H("has-hooks")
		}
		if dropped > 0 {
			rep.H("has-dropped")
		}
	}
	rep.H("sort-ok")
	// 3. through renderResources: client-only dry-run install of a chart whose templates are the literal files
	if strings.Contains(canon(files), "{{") {
		return
	}
	ch := &chart.Chart{Metadata: &chart.Metadata{APIVersion: "v2", Name: "c", Version: "0.1.0"}}
	tfiles := map[string]string{}
	for k, v := range files {
		if !strings.HasPrefix(k, "c/templates/") {
			continue
		}
		ch.Templates = append(ch.Templates, &chart.File{Name: strings.TrimPrefix(k, "c/"), Data: []byte(v)})
		tfiles[k] = v
	}
	if r.Chance(50) {
		tfiles["c/templates/NOTES.txt"] = Pick(r, []string{"hello notes", "n1\nn2\n", "---\nkind: X\n"})
		ch.Templates = append(ch.Templates, &chart.File{Name: "templates/NOTES.txt", Data: []byte(tfiles["c/templates/NOTES.txt"])})
	}
	if r.Chance(10) || os.Getenv("VERIF_PROP") == "C08" && idx%50 == 7 {
		// a template whose name merely ends in NOTES.txt is an ordinary template
		doc := "apiVersion: v1\nkind: ConfigMap\nmetadata:\n  name: from-xnotes"
		tfiles["c/templates/xNOTES.txt"] = doc
		ch.Templates = append(ch.Templates, &chart.File{Name: "templates/xNOTES.txt", Data: []byte(doc)})
	}
	if r.Chance(20) {
		tfiles["c/templates/sub/NOTES.txt"] = "sub notes"
		ch.Templates = append(ch.Templates, &chart.File{Name: "templates/sub/NOTES.txt", Data: []byte("sub notes")})
	}
	cfg := &action.Configuration{Releases: storage.Init(driver.NewMemory()), Capabilities: chartutil.DefaultCapabilities}
	in := action.NewInstall(cfg)
	in.ReleaseName, in.Namespace, in.DryRun, in.ClientOnly = "r", "default", true, true
	var rel *release.Release
	var err error
	if p := safely(func() { rel, err = in.Run(ch, map[string]any{}) }); p != "" {
		rep.Issue(Issue{Kind: "monitor", Fingerprint: "C20:panic:install", What: "client-only install panicked: " + p, Case: map[string]any{"files": tfiles}, Seed: seed, Index: idx})
		return
	}
	if err != nil {
		rep.H("install-error")
		return
	}
	mr := m.Query(map[string]any{"op": "renderAssemble", "files": filesJSON(tfiles, r), "heads": heads, "mainNotes": "c/templates/NOTES.txt", "subNotes": false})
	if canon(mr["manifest"]) != canon(rel.Manifest) || canon(mr["hooks"]) != canon(hooksJSON(rel.Hooks)) || canon(mr["notes"]) != canon(rel.Info.Notes) {
		rep.Issue(Issue{Kind: "disagreement", Fingerprint: "C08:render", What: "Release.Manifest/Hooks/Notes of a dry-run install differ from model", Case: map[string]any{"files": tfiles}, Model: mr, Impl: map[string]any{"manifest": rel.Manifest, "hooks": hooksJSON(rel.Hooks), "notes": rel.Info.Notes}, Seed: seed, Index: idx})
		rep.H("render-disagree")
		return
	}
	rep.H("render-ok")
	rep.Traces++
	// monitor on the implementation: every document of every template that is neither a partial
	// nor a NOTES.txt file is in the manifest or the hook list
	for k, v := range tfiles {
		base := k[strings.LastIndex(k, "/")+1:]
		if strings.HasPrefix(base, "_") || base == "NOTES.txt" || strings.TrimSpace(v) == "" {
			continue
		}
		for _, d := range realSplit(v) {
			if d == "" {
				continue
			}
			found := strings.Contains(rel.Manifest, "# Source: "+k+"\n"+d+"\n")
			for _, h := range rel.Hooks {
				if h.Path == k && h.Manifest == d {
					found = true
				}
			}
			hd, _ := headJSON(d)
			if a, ok := hd["annotations"].(map[string]any); ok {
				if _, isHook := a["helm.sh/hook"]; isHook {
					found = true // hook or dropped-unknown-event: covered by the partition monitor
				}
			}
			if !found {
				fp := "C08:lost-doc"
				if strings.HasSuffix(k, "NOTES.txt") {
					fp = "C08:notes-suffix-drop"
				}
				rep.Issue(Issue{Kind: "monitor", Fingerprint: fp, What: "document of template " + k + " is neither in the manifest nor a hook", Case: map[string]any{"files": tfiles}, Seed: seed, Index: idx})
			}
		}
	}
}
