package main

import (
	"encoding/json"
	"fmt"
	"os"
	"sort"
	"strings"

	"helm.sh/helm/v4/pkg/action"
	chart "helm.sh/helm/v4/pkg/chart/v2"
	"helm.sh/helm/v4/pkg/storage/driver"
)

func init() { subs["kube"] = corrKube }

func keysOf(os []mObj) []string {
	var out []string
	for _, o := range os {
		out = append(out, o.Key)
	}
	return out
}

// ---------- objects ----------

type mObj struct {
	Key    string            `json:"key"`
	Typed  bool              `json:"typed"`
	Data   map[string]string `json:"data"`
	Labels map[string]string `json:"labels"`
	Annos  map[string]string `json:"annos"`
	// Ver: the apiVersion an unstructured object is spelled with in this manifest (the test kind is served under two
	// versions of one group; the API server keeps one object for both).  Not part of the model: an object is its
	// kind, namespace and name.
	Ver string `json:"-"`
}

func (o mObj) apiVersion() string {
	if o.Typed {
		return "v1"
	}
	if o.Ver != "" {
		return o.Ver
	}
	return "apitest/v1"
}

func (o mObj) kind() string {
	if o.Typed {
		return "ConfigMap"
	}
	return "NamespacedType"
}
func (o mObj) name() string { return o.Key[strings.LastIndex(o.Key, "/")+1:] }

func (o mObj) ns() string { return strings.Split(o.Key, "/")[1] }

func objKeyNs(typed bool, ns, name string) string {
	if typed {
		return "namespaces/" + ns + "/configmaps/" + name
	}
	return "namespaces/" + ns + "/namespacedtype/" + name
}
func objKey(typed bool, name string) string { return objKeyNs(typed, "default", name) }

func (o mObj) yaml() string {
	var b strings.Builder
	fmt.Fprintf(&b, "apiVersion: %s\nkind: %s\nmetadata:\n  name: %s\n", o.apiVersion(), o.kind(), o.name())
	if o.ns() != "default" {
		fmt.Fprintf(&b, "  namespace: %s\n", o.ns())
	}
	wm := func(title string, m map[string]string, indent string) {
		if len(m) == 0 {
			return
		}
		b.WriteString(indent + title + ":\n")
		for _, k := range sortedKeys(m) {
			fmt.Fprintf(&b, "%s  %s: %q\n", indent, k, m[k])
		}
	}
	wm("labels", o.Labels, "  ")
	wm("annotations", o.Annos, "  ")
	wm("data", o.Data, "")
	return b.String()
}

func (o mObj) server() map[string]any {
	md := map[string]any{"name": o.name(), "namespace": o.ns()}
	if len(o.Labels) > 0 {
		md["labels"] = strMapAny(o.Labels)
	}
	if len(o.Annos) > 0 {
		md["annotations"] = strMapAny(o.Annos)
	}
	out := map[string]any{"apiVersion": o.apiVersion(), "kind": o.kind(), "metadata": md}
	if len(o.Data) > 0 {
		out["data"] = strMapAny(o.Data)
	}
	return out
}

func strMapAny(m map[string]string) map[string]any {
	out := map[string]any{}
	for k, v := range m {
		out[k] = v
	}
	return out
}
func anyStrMap(v any) map[string]string {
	out := map[string]string{}
	m, _ := v.(map[string]any)
	for k, x := range m {
		out[k] = fmt.Sprint(x)
	}
	return out
}

func fromServer(path string, o map[string]any) mObj {
	md, _ := o["metadata"].(map[string]any)
	return mObj{Key: path, Typed: fmt.Sprint(o["kind"]) == "ConfigMap", Data: anyStrMap(o["data"]), Labels: anyStrMap(md["labels"]), Annos: anyStrMap(md["annotations"])}
}

func objJSON(o mObj) map[string]any {
	pairs := func(m map[string]string) []any {
		out := []any{}
		for _, k := range sortedKeys(m) {
			out = append(out, []any{k, m[k]})
		}
		return out
	}
	return map[string]any{"key": o.Key, "typed": o.Typed, "data": pairs(o.Data), "labels": pairs(o.Labels), "annos": pairs(o.Annos)}
}

func objsJSON(os []mObj) []any {
	out := []any{}
	for _, o := range os {
		out = append(out, objJSON(o))
	}
	return out
}

func storeDump(w *simWorld) []mObj {
	w.api.mu.Lock()
	defer w.api.mu.Unlock()
	var out []mObj
	for p, o := range w.api.objs {
		out = append(out, fromServer(p, o))
	}
	sort.Slice(out, func(i, j int) bool { return out[i].Key < out[j].Key })
	return out
}

func canonObjs(v any) string {
	// model store -> canonical text: sorted by key, maps sorted
	l, _ := v.([]any)
	var items []string
	for _, x := range l {
		m := x.(map[string]any)
		ps := func(v any) string {
			var kv []string
			for _, p := range v.([]any) {
				pp := p.([]any)
				kv = append(kv, fmt.Sprintf("%v=%v", pp[0], pp[1]))
			}
			sort.Strings(kv)
			return strings.Join(kv, ",")
		}
		items = append(items, fmt.Sprintf("%v|d:%s|l:%s|a:%s", m["key"], ps(m["data"]), ps(m["labels"]), ps(m["annos"])))
	}
	sort.Strings(items)
	return strings.Join(items, "\n")
}

func canonImplObjs(os []mObj) string {
	return canonObjs(objsJSON(os))
}

// ---------- generator ----------

var kubeNames = []string{"a", "b", "c", "d"}
var dataKeys = []string{"k1", "k2", "k3"}
var dataVals = []string{"x", "y", "z"}

func genKData(r *Rng) map[string]string {
	m := map[string]string{}
	for i := r.Intn(3); i > 0; i-- {
		m[Pick(r, dataKeys)] = Pick(r, dataVals)
	}
	return m
}

func genManifest(r *Rng) []mObj {
	var out []mObj
	used := map[string]bool{}
	for i := r.Intn(4); i > 0; i-- {
		typed := r.Chance(75)
		n := Pick(r, kubeNames)
		ns := "default"
		if r.Chance(15) {
			ns = "other" // a resource rendered into a namespace other than the release's
		}
		k := objKeyNs(typed, ns, n)
		if used[k] {
			continue
		}
		used[k] = true
		o := mObj{Key: k, Typed: typed, Data: genKData(r), Labels: map[string]string{}, Annos: map[string]string{}}
		if !typed {
			// no extra random draw: the spelling follows from the data that was drawn
			o.Ver = []string{"apitest/v1", "apitest/unlikelyversion"}[len(o.Data)%2]
		}
		if r.Chance(25) {
			o.Labels["app"] = Pick(r, dataVals)
		}
		if r.Chance(10) {
			// the chart itself sets ownership metadata (kustomize / operator output wrapped in a chart)
			o.Labels["app.kubernetes.io/managed-by"] = Pick(r, []string{"kustomize", "Tiller", "Helm"})
		}
		if r.Chance(5) {
			o.Annos["meta.helm.sh/release-name"] = Pick(r, []string{"other", "app"})
		}
		switch r.Intn(10) {
		case 0, 1:
			o.Annos["helm.sh/resource-policy"] = "keep"
		case 2:
			o.Annos["helm.sh/resource-policy"] = Pick(r, []string{"delete", " Keep ", ""})
		case 3:
			o.Annos["note"] = "n"
		}
		out = append(out, o)
	}
	// manifest order: ConfigMaps come before unknown kinds (install order), then by template path
	sort.SliceStable(out, func(i, j int) bool {
		if out[i].Typed != out[j].Typed {
			return out[i].Typed
		}
		if out[i].name() != out[j].name() {
			return out[i].name() < out[j].name()
		}
		return out[i].ns() < out[j].ns()
	})
	return out
}

func chartOf(objs []mObj, version int) *chart.Chart {
	c := &chart.Chart{Metadata: &chart.Metadata{APIVersion: "v2", Name: "app", Version: fmt.Sprintf("0.0.%d", version)}}
	for _, o := range objs {
		c.Templates = append(c.Templates, &chart.File{Name: fmt.Sprintf("templates/%s-%s-%s.yaml", o.name(), o.ns(), strings.ToLower(o.kind())), Data: []byte(o.yaml())})
	}
	return c
}

var ownershipStates = []string{"foreign", "other-release", "other-namespace", "partial", "owned", "managed-only"}

func ownerMeta(state string) (map[string]string, map[string]string) {
	l, a := map[string]string{}, map[string]string{}
	switch state {
	case "other-release":
		l["app.kubernetes.io/managed-by"] = "Helm"
		a["meta.helm.sh/release-name"], a["meta.helm.sh/release-namespace"] = "other", "default"
	case "other-namespace":
		l["app.kubernetes.io/managed-by"] = "Helm"
		a["meta.helm.sh/release-name"], a["meta.helm.sh/release-namespace"] = "app", "elsewhere"
	case "partial":
		a["meta.helm.sh/release-name"], a["meta.helm.sh/release-namespace"] = "app", "default"
	case "owned":
		l["app.kubernetes.io/managed-by"] = "Helm"
		a["meta.helm.sh/release-name"], a["meta.helm.sh/release-namespace"] = "app", "default"
	case "managed-only":
		l["app.kubernetes.io/managed-by"] = "Helm"
	}
	return l, a
}

func corrKube(seed uint64, n int, tier string, out string, replay string) {
	m := StartModel()
	defer m.Close()
	rep := NewReport("C02", "kube", seed, "case = history of 2-6 operations (install / upgrade / rollback / uninstall, with take-ownership, force, dry-run variants) over manifests of 0-3 resources (typed ConfigMaps and the unstructured test kind, the latter spelled with either of its two API versions from one revision to the next; data, labels, keep / other resource-policy annotations) against the simulated API server behind the real kube.Client, interleaved with out-of-band edits (change / add / delete a field, toggle the keep annotation, delete an object), pre-existing objects in six ownership states, and bystanders; after every operation the object store and the multiset of mutating requests are compared with the Lean cluster model, and the property monitors (targets present with the manifest's fields, removed ones deleted unless kept live, bystanders untouched, stamping, deletes confined) run on the implementation's store and request log; the API server rejects the creation of one object in about one operation in ten and the history goes on through the failed revision; non-trivial = at least 2 operations changed the cluster; distinct = hash of the history")
	for _, id := range caseSeq("kube", seed, n) {
		kubeHistory(m, rep, NewRng(id.Seed, uint64(id.Index)), id.Seed, id.Index)
		if id.Index%25 == 7 {
			twinGroupCase(rep, NewRng(id.Seed, uint64(id.Index)+1<<32), id.Seed, id.Index)
		}
		if id.Index%50 == 21 {
			longHistoryCase(rep, NewRng(id.Seed, uint64(id.Index)+1<<36), id.Seed, id.Index)
		}
		if id.Index%25 == 16 {
			clusterScopedCase(rep, NewRng(id.Seed, uint64(id.Index)+1<<34), id.Seed, id.Index)
		}
	}
	rep.Write(out, m)
}

// twinGroupCase: an object is its API group, kind, namespace and name.  The deployed revision holds
// apitest/v1 NamespacedType "twin"; the cluster also holds an object of the same kind name and the same name in
// another API group (othergroup.example/v1), in one of the ownership states.  An upgrade whose manifest adds that
// other object meets a pre-existing object it does not own: it is refused before anything is changed (or adopts it
// under --take-ownership, or finds it already its own).
func twinGroupCase(rep *Report, r *Rng, seed uint64, idx int) {
	w := newSimWorld(driver.NewMemory())
	defer w.close()
	state := Pick(r, []string{"foreign", "foreign", "other-release", "partial", "owned", "absent"})
	take := r.Chance(25)
	mine := "apiVersion: apitest/v1\nkind: NamespacedType\nmetadata:\n  name: twin\ndata:\n  k: mine\n"
	other := "apiVersion: othergroup.example/v1\nkind: NamespacedType\nmetadata:\n  name: twin\ndata:\n  k: theirs-now-mine\n"
	cm := func(v string) string {
		return "apiVersion: v1\nkind: ConfigMap\nmetadata:\n  name: settings\ndata:\n  level: \"" + v + "\"\n"
	}
	mk := func(ver int, docs map[string]string) *chart.Chart {
		c := &chart.Chart{Metadata: &chart.Metadata{APIVersion: "v2", Name: "app", Version: fmt.Sprintf("0.0.%d", ver)}}
		for _, k := range sortedKeys(docs) {
			c.Templates = append(c.Templates, &chart.File{Name: "templates/" + k + ".yaml", Data: []byte(docs[k])})
		}
		return c
	}
	cs := map[string]any{"scenario": "twin-group", "state": state, "takeOwnership": take}
	rep.Count(cs, true)
	in := action.NewInstall(w.cfg())
	in.ReleaseName, in.Namespace, in.DisableOpenAPIValidation = "app", "default", true
	if _, err := in.Run(mk(1, map[string]string{"a-mine": mine, "b-settings": cm("1")}), map[string]any{}); err != nil {
		rep.Issue(Issue{Kind: "monitor", Fingerprint: "C07:twin:install-failed", What: "installing the first revision failed: " + err.Error(), Case: cs, Seed: seed, Index: idx})
		return
	}
	otherKey := "namespaces/default/othernamespacedtype/twin"
	if state != "absent" {
		l, a := ownerMeta(state)
		md := map[string]any{"name": "twin", "namespace": "default"}
		if len(l) > 0 {
			md["labels"] = strMapAny(l)
		}
		if len(a) > 0 {
			md["annotations"] = strMapAny(a)
		}
		w.api.mu.Lock()
		w.api.objs[otherKey] = map[string]any{"apiVersion": "othergroup.example/v1", "kind": "NamespacedType", "metadata": md, "data": map[string]any{"k": "theirs"}}
		w.api.mu.Unlock()
	}
	w.revive()
	before := canon(storeDump(w))
	histBefore := canon(implLedger(w))
	logFrom := len(w.api.log)
	up := action.NewUpgrade(w.cfg())
	up.Namespace, up.DisableOpenAPIValidation, up.TakeOwnership = "default", true, take
	_, err := up.Run("app", mk(2, map[string]string{"a-mine": mine, "a-other": other, "b-settings": cm("2"), "c-extra": strings.Replace(cm("x"), "settings", "extra", 1)}), map[string]any{})
	muts := w.api.mutations(logFrom)
	refuse := !take && state != "owned" && state != "absent"
	rep.H(fmt.Sprintf("twin-group:%s:take=%v:err=%v", state, take, err != nil))
	if refuse {
		if err == nil {
			rep.Issue(Issue{Kind: "monitor", Fingerprint: "C07:twin:adopted-silently", What: "an upgrade adding an object that exists and belongs to " + state + " (same kind name and name as one of the release's objects, another API group) succeeded without --take-ownership", Case: cs, Impl: muts, Seed: seed, Index: idx})
			return
		}
		if len(muts) > 0 || canon(storeDump(w)) != before || canon(implLedger(w)) != histBefore {
			rep.Issue(Issue{Kind: "monitor", Fingerprint: "C07:twin:refusal-after-mutation", What: "the upgrade was refused only after the cluster or the history had been changed: " + trunc(err.Error(), 200), Case: cs, Model: histBefore, Impl: map[string]any{"requests": muts, "history": implLedger(w)}, Seed: seed, Index: idx})
		}
		return
	}
	if err != nil {
		rep.Issue(Issue{Kind: "monitor", Fingerprint: "C07:twin:refused-own", What: "an upgrade adding an object that is absent / its own / taken over with --take-ownership failed: " + trunc(err.Error(), 200), Case: cs, Seed: seed, Index: idx})
	}
}

type kubeStep struct {
	Kind          string `json:"kind"`
	TakeOwnership bool   `json:"takeOwnership"`
	Force         bool   `json:"force"`
	DryRun        bool   `json:"dryRun"`
	Manifest      []mObj `json:"manifest"`
	Drift         []any  `json:"drift"`
	Reject        string `json:"reject,omitempty"` // the API server rejects the creation of this object
	CleanupOnFail bool   `json:"cleanupOnFail"`
	Atomic        bool   `json:"atomic"`
	// targetsOnly: judge only "the manifest's resources are there with their fields" (the composite of a
	// failed upgrade and its automatic rollback: what is kept or removed in between is the model's business)
	targetsOnly bool
}

// kubeRev: the harness's own record of the revisions the operations should have produced
type kubeRev struct {
	Manifest []mObj
	Status   string // deployed superseded failed
}

func kubeHistory(m *Model, rep *Report, r *Rng, seed uint64, idx int) {
	w := newSimWorld(newBackend("memory"))
	defer w.close()
	// bystanders and pre-existing objects
	bystander := mObj{Key: objKey(true, "bystander"), Typed: true, Data: map[string]string{"keep": "me"}}
	w.api.objs[bystander.Key] = bystander.server()
	var pre []any
	for i := r.Intn(3); i > 0; i-- {
		st := Pick(r, ownershipStates)
		l, a := ownerMeta(st)
		pns := "default"
		if r.Chance(25) {
			pns = "other"
		}
		o := mObj{Key: objKeyNs(r.Chance(80), pns, Pick(r, kubeNames)), Data: genKData(r), Labels: l, Annos: a}
		o.Typed = strings.Contains(o.Key, "configmaps")
		w.api.objs[o.Key] = o.server()
		pre = append(pre, map[string]any{"state": st, "obj": o})
	}
	var hist []kubeStep
	var revs []kubeRev
	installed := false
	// what upgrade diffs against: the deployed revision if there is one, else the newest
	currentOf := func() []mObj {
		for i := len(revs) - 1; i >= 0; i-- {
			if revs[i].Status == "deployed" {
				return revs[i].Manifest
			}
		}
		if len(revs) > 0 {
			return revs[len(revs)-1].Manifest
		}
		return nil
	}
	supersede := func() {
		for i := range revs {
			if revs[i].Status == "deployed" {
				revs[i].Status = "superseded"
			}
		}
	}
	changed := 0
	version := 0
	nops := 2 + r.Intn(5)
	for k := 0; k < nops; k++ {
		st := kubeStep{}
		// out-of-band drift
		for d := r.Intn(3); d > 0 && installed; d-- {
			objs := storeDump(w)
			if len(objs) == 0 {
				break
			}
			o := Pick(r, objs)
			if o.Key == bystander.Key {
				continue
			}
			so := w.api.objs[o.Key]
			switch r.Intn(5) {
			case 0:
				data, _ := so["data"].(map[string]any)
				if data == nil {
					data = map[string]any{}
					so["data"] = data
				}
				data[Pick(r, dataKeys)] = "DRIFT"
				st.Drift = append(st.Drift, "edit "+o.Key)
			case 1:
				data, _ := so["data"].(map[string]any)
				if data == nil {
					data = map[string]any{}
					so["data"] = data
				}
				data["foreign"] = "f"
				st.Drift = append(st.Drift, "add-field "+o.Key)
			case 2:
				delete(w.api.objs, o.Key)
				st.Drift = append(st.Drift, "delete "+o.Key)
			case 3:
				md := so["metadata"].(map[string]any)
				an, _ := md["annotations"].(map[string]any)
				if an == nil {
					an = map[string]any{}
					md["annotations"] = an
				}
				if _, ok := an["helm.sh/resource-policy"]; ok {
					delete(an, "helm.sh/resource-policy")
				} else {
					an["helm.sh/resource-policy"] = "keep"
				}
				st.Drift = append(st.Drift, "toggle-keep "+o.Key)
			case 4:
				if data, ok := so["data"].(map[string]any); ok {
					for kk := range data {
						delete(data, kk)
						break
					}
				}
				st.Drift = append(st.Drift, "remove-field "+o.Key)
			}
		}
		switch {
		case !installed:
			st.Kind = "install"
		default:
			st.Kind = Pick(r, []string{"upgrade", "upgrade", "upgrade", "rollback", "uninstall"})
			if st.Kind == "rollback" && len(revs) < 2 {
				st.Kind = "upgrade"
			}
		}
		st.TakeOwnership, st.Force, st.DryRun = r.Chance(20), r.Chance(15), r.Chance(8)
		if st.Kind == "upgrade" {
			st.CleanupOnFail, st.Atomic = r.Chance(25), r.Chance(25)
		}
		if st.Kind == "install" || st.Kind == "upgrade" {
			st.Manifest = genManifest(r)
		}
		if st.Kind == "install" {
			// an install that adopts an existing object computes a three-way JSON merge with the live object, whose
			// apiVersion the real API server would report in the version asked for; the simulator stores one spelling,
			// so installs use that spelling and the version changes come with upgrades and rollbacks
			for k := range st.Manifest {
				st.Manifest[k].Ver = ""
			}
		}
		// the manifests the operation works with (by the harness's own book-keeping)
		var deployed, target []mObj
		switch st.Kind {
		case "install":
			target = st.Manifest
		case "upgrade":
			deployed, target = currentOf(), st.Manifest
		case "rollback":
			deployed, target = revs[len(revs)-1].Manifest, revs[len(revs)-2].Manifest
		case "uninstall":
			deployed = revs[len(revs)-1].Manifest
		}
		if st.Kind != "uninstall" && len(target) > 0 && r.Chance(12) && !st.DryRun {
			st.Reject = Pick(r, target).Key
		}
		hist = append(hist, st)
		before := storeDump(w)
		logFrom := len(w.api.log)
		w.revive()
		if st.Reject != "" {
			w.api.mu.Lock()
			w.api.reject["POST "+st.Reject] = true
			w.api.mu.Unlock()
		}
		cfg := w.cfg()
		version++
		var err error
		keptInfo := ""
		if p := safely(func() {
			switch st.Kind {
			case "install":
				in := action.NewInstall(cfg)
				in.ReleaseName, in.Namespace, in.DisableOpenAPIValidation = "app", "default", true
				in.TakeOwnership, in.Force, in.DryRun = st.TakeOwnership, st.Force, st.DryRun
				_, err = in.Run(chartOf(st.Manifest, version), map[string]any{})
			case "upgrade":
				up := action.NewUpgrade(cfg)
				up.Namespace, up.DisableOpenAPIValidation = "default", true
				up.TakeOwnership, up.Force, up.DryRun = st.TakeOwnership, st.Force, st.DryRun
				up.CleanupOnFail, up.Atomic = st.CleanupOnFail, st.Atomic
				_, err = up.Run("app", chartOf(st.Manifest, version), map[string]any{})
			case "rollback":
				rb := action.NewRollback(cfg)
				rb.Force, rb.DryRun = st.Force, st.DryRun
				err = rb.Run("app")
			case "uninstall":
				un := action.NewUninstall(cfg)
				un.DryRun = st.DryRun
				res, e := un.Run("app")
				err = e
				if res != nil {
					keptInfo = res.Info
				}
			}
		}); p != "" {
			rep.Issue(Issue{Kind: "monitor", Fingerprint: "C20:panic:action:" + st.Kind, What: p, Case: map[string]any{"pre": pre, "history": hist}, Seed: seed, Index: idx})
			return
		}
		after := storeDump(w)
		muts := w.api.mutations(logFrom)
		cs := map[string]any{"pre": pre, "history": hist}
		// model
		q := map[string]any{"op": "clusterOp", "kind": st.Kind, "rel": "app", "ns": "default", "takeOwnership": st.TakeOwnership, "force": st.Force, "dryRun": st.DryRun, "store": objsJSON(before),
			"cleanupOnFail": st.CleanupOnFail}
		// atomic: the automatic rollback goes to the newest revision marked superseded or deployed
		var rollbackTo []mObj
		haveRollback := false
		if st.Atomic && st.Kind == "upgrade" {
			for i := len(revs) - 1; i >= 0; i-- {
				if revs[i].Status == "deployed" || revs[i].Status == "superseded" {
					rollbackTo, haveRollback = revs[i].Manifest, true
					break
				}
			}
			if haveRollback {
				q["rollbackTo"] = objsJSON(rollbackTo)
			}
		}
		if st.Reject != "" {
			q["reject"] = []any{st.Reject}
		}
		switch st.Kind {
		case "install":
			q["target"] = objsJSON(target)
		case "upgrade", "rollback":
			q["current"], q["target"] = objsJSON(deployed), objsJSON(target)
		case "uninstall":
			q["target"] = objsJSON(deployed)
		}
		mr := m.Query(q)
		if os.Getenv("VERIF_DEBUG") != "" {
			fmt.Fprintf(os.Stderr, "STEP %d %s err=%v\n  deployed=%v\n  target=%v\n  reject=%q muts=%v\n  model ok=%v log=%v\n", k, st.Kind, err, keysOf(deployed), keysOf(target), st.Reject, muts, mr["ok"], mr["log"])
		}
		rep.H(st.Kind + ":" + map[bool]string{true: "ok", false: "err"}[err == nil])
		if mr["ok"] != (err == nil) && st.Kind != "uninstall" {
			rep.Issue(Issue{Kind: "disagreement", Fingerprint: "C02:model:outcome:" + st.Kind, What: fmt.Sprintf("%s: err=%v, model ok=%v", st.Kind, err, mr["ok"]), Case: cs, Model: mr, Seed: seed, Index: idx})
			return
		}
		if canonObjs(mr["store"]) != canonImplObjs(after) {
			rep.Issue(Issue{Kind: "disagreement", Fingerprint: "C02:model:store:" + st.Kind, What: "object store after " + st.Kind + " differs from the model", Case: cs, Model: canonObjs(mr["store"]), Impl: canonImplObjs(after), Seed: seed, Index: idx})
			return
		}
		var wantMuts []string
		for _, e := range mr["log"].([]any) {
			s := e.(string)
			if !strings.HasPrefix(s, "GET ") {
				wantMuts = append(wantMuts, s)
			}
		}
		sort.Strings(wantMuts)
		gm := append([]string{}, muts...)
		sort.Strings(gm)
		if canon(wantMuts) != canon(gm) && !(len(wantMuts) == 0 && len(gm) == 0) {
			rep.Issue(Issue{Kind: "disagreement", Fingerprint: "C02:model:requests:" + st.Kind, What: "mutating requests of " + st.Kind + " differ from the model", Case: cs, Model: wantMuts, Impl: gm, Seed: seed, Index: idx})
			return
		}
		// ---- property monitors on the implementation ----
		if st.DryRun && len(muts) > 0 {
			rep.Issue(Issue{Kind: "monitor", Fingerprint: "C06:dry-run-cluster-write", What: "a dry-run " + st.Kind + " sent mutating requests", Case: cs, Impl: muts, Seed: seed, Index: idx})
		}
		bs := false
		for _, o := range after {
			if o.Key == bystander.Key && canonImplObjs([]mObj{o}) == canonImplObjs([]mObj{bystander}) {
				bs = true
			}
		}
		if !bs {
			rep.Issue(Issue{Kind: "monitor", Fingerprint: "C02:bystander-touched", What: "an object outside the release's manifests was changed or deleted", Case: cs, Seed: seed, Index: idx})
		}
		for _, mu := range muts {
			key := mu[strings.Index(mu, " ")+1:]
			inRelease := false
			for _, l := range [][]mObj{deployed, target} {
				for _, o := range l {
					inRelease = inRelease || o.Key == key
				}
			}
			for _, rv := range revs {
				for _, o := range rv.Manifest {
					inRelease = inRelease || o.Key == key
				}
			}
			if !inRelease {
				fp := "C02:write-outside-release"
				if strings.HasPrefix(mu, "DELETE") {
					fp = "C07:delete-outside-release"
				}
				rep.Issue(Issue{Kind: "monitor", Fingerprint: fp, What: "request " + mu + " names an object that is in no manifest of the release", Case: cs, Seed: seed, Index: idx})
			}
		}
		if err == nil && !st.DryRun && !st.TakeOwnership && (st.Kind == "install" || st.Kind == "upgrade") {
			// C07: a successful operation must not have found an object it creates already there and not its own
			for _, t := range target {
				inDeployed := false
				for _, o := range deployed {
					inDeployed = inDeployed || o.Key == t.Key
				}
				if inDeployed {
					continue
				}
				for _, o := range before {
					if o.Key == t.Key && !(o.Labels["app.kubernetes.io/managed-by"] == "Helm" && o.Annos["meta.helm.sh/release-name"] == "app" && o.Annos["meta.helm.sh/release-namespace"] == "default") {
						rep.Issue(Issue{Kind: "monitor", Fingerprint: "C07:took-over-unowned", What: st.Kind + " succeeded although " + t.Key + ", which it would create, existed and did not belong to this release", Case: cs, Seed: seed, Index: idx})
					}
				}
			}
		}
		if err == nil && !st.DryRun {
			kubeSuccessMonitors(rep, st, before, after, deployed, target, keptInfo, cs, seed, idx)
		}
		if err != nil && !st.DryRun && (st.Kind == "install" || st.Kind == "upgrade") && strings.Contains(err.Error(), "cannot be imported into the current release") {
			// C07: refused before anything changed
			if len(w.writes) > 0 {
				rep.Issue(Issue{Kind: "monitor", Fingerprint: "C07:refusal-after-storage-write", What: "the operation refused an unowned resource but had already written to release storage", Case: cs, Impl: w.writes, Seed: seed, Index: idx})
			}
			if len(muts) > 0 || canonImplObjs(before) != canonImplObjs(after) {
				rep.Issue(Issue{Kind: "monitor", Fingerprint: "C07:refusal-after-mutation", What: "the operation refused an unowned resource but had already changed the cluster", Case: cs, Impl: muts, Seed: seed, Index: idx})
			}
			rep.H("C07:refused")
		}
		if canonImplObjs(before) != canonImplObjs(after) {
			changed++
		}
		refused := err != nil && (strings.Contains(err.Error(), "cannot be imported into the current release") || strings.Contains(err.Error(), "Unable to continue with"))
		switch {
		case st.DryRun:
		case err == nil && st.Kind == "uninstall":
			installed = false
			rep.Count(cs, changed >= 2)
			return
		case err == nil:
			supersede()
			revs = append(revs, kubeRev{Manifest: target, Status: "deployed"})
			installed = true
		case refused:
			// nothing was recorded
		case st.Kind == "uninstall":
			rep.Count(cs, changed >= 2)
			return
		default:
			// the operation failed after it had recorded its revision (a failed rollback also marks the
			// newest revision, the one it started from, superseded: performRollback)
			if st.Kind == "rollback" {
				revs[len(revs)-1].Status = "superseded"
			}
			revs = append(revs, kubeRev{Manifest: target, Status: "failed"})
			installed = true
			rep.H("failed-revision:" + st.Kind)
			if st.Kind == "upgrade" && st.Atomic {
				// the automatic rollback to the deployed manifest: one more revision, deployed if it went
				// through (it did when the error says so), failed otherwise
				rolledBack := strings.Contains(err.Error(), "has been rolled back")
				if rolledBack {
					supersede()
					revs = append(revs, kubeRev{Manifest: rollbackTo, Status: "deployed"})
				} else if strings.Contains(err.Error(), "an error occurred while rolling back") {
					revs[len(revs)-1].Status = "superseded"
					revs = append(revs, kubeRev{Manifest: rollbackTo, Status: "failed"})
				}
				rep.H(fmt.Sprintf("atomic-rollback:%v", rolledBack))
				// C03, cluster side: after the rollback the previous manifest is in force again
				if rolledBack {
					kubeSuccessMonitors(rep, kubeStep{Kind: "rollback", Force: st.Force, targetsOnly: true}, before, after, target, rollbackTo, "", cs, seed, idx)
				}
			}
		}
		rep.Traces++
	}
	rep.Count(map[string]any{"pre": pre, "history": hist}, changed >= 2)
	if idx < 2 {
		rep.Sample(map[string]any{"pre": pre, "history": hist})
	}
}

func kubeSuccessMonitors(rep *Report, st kubeStep, before, after, deployed, target []mObj, keptInfo string, cs map[string]any, seed uint64, idx int) {
	find := func(l []mObj, k string) *mObj {
		for i := range l {
			if l[i].Key == k {
				return &l[i]
			}
		}
		return nil
	}
	switch st.Kind {
	case "install", "upgrade", "rollback":
		for _, t := range target {
			live := find(after, t.Key)
			if live == nil {
				rep.Issue(Issue{Kind: "monitor", Fingerprint: "C02:target-missing", What: "resource " + t.Key + " of the new manifest is not in the cluster after a successful " + st.Kind, Case: cs, Seed: seed, Index: idx})
				continue
			}
			for _, pair := range []struct{ want, got map[string]string }{{t.Data, live.Data}, {t.Labels, live.Labels}, {t.Annos, live.Annos}} {
				for k, v := range pair.want {
					if k == "app.kubernetes.io/managed-by" || k == "meta.helm.sh/release-name" || k == "meta.helm.sh/release-namespace" {
						continue // Helm's own ownership metadata overrides what the chart says (checked below)
					}
					if pair.got[k] != v {
						fp := "C02:field-not-applied"
						if !t.Typed && !st.Force {
							fp = "C02:drift-not-reverted:unstructured"
						}
						rep.Issue(Issue{Kind: "monitor", Fingerprint: fp, What: fmt.Sprintf("%s: field %s is %q in the cluster, the manifest says %q", t.Key, k, pair.got[k], v), Case: cs, Seed: seed, Index: idx})
					}
				}
			}
			if live.Labels["app.kubernetes.io/managed-by"] != "Helm" || live.Annos["meta.helm.sh/release-name"] != "app" || live.Annos["meta.helm.sh/release-namespace"] != "default" {
				fp := "C07:not-stamped" // known for unstructured kinds only (two-way patch of an adopted object is empty)
				if t.Typed {
					fp = "C07:not-stamped:typed"
				}
				rep.Issue(Issue{Kind: "monitor", Fingerprint: fp, What: t.Key + " lacks the ownership label/annotations after a successful " + st.Kind, Case: cs, Seed: seed, Index: idx})
			}
		}
		if st.Kind != "install" && !st.targetsOnly {
			for _, o := range deployed {
				if find(target, o.Key) != nil {
					continue
				}
				liveBefore := find(before, o.Key)
				liveAfter := find(after, o.Key)
				keptLive := liveBefore != nil && liveBefore.Annos["helm.sh/resource-policy"] == "keep"
				if liveAfter != nil && !keptLive {
					rep.Issue(Issue{Kind: "monitor", Fingerprint: "C02:removed-not-deleted", What: o.Key + " was dropped from the manifest but is still in the cluster", Case: cs, Seed: seed, Index: idx})
				}
				if keptLive && (liveAfter == nil || canonImplObjs([]mObj{*liveAfter}) != canonImplObjs([]mObj{*liveBefore})) {
					rep.Issue(Issue{Kind: "monitor", Fingerprint: "C02:kept-touched", What: o.Key + " carries the keep policy but was changed or deleted", Case: cs, Seed: seed, Index: idx})
				}
			}
		}
	case "uninstall":
		for _, o := range deployed {
			liveAfter := find(after, o.Key)
			policy, has := o.Annos["helm.sh/resource-policy"]
			keep := has && strings.ToLower(strings.TrimSpace(policy)) == "keep"
			if keep {
				if !strings.Contains(keptInfo, "] "+o.name()+"\n") {
					rep.Issue(Issue{Kind: "monitor", Fingerprint: "C02:kept-not-listed", What: o.Key + " was kept but is not listed in the response", Case: cs, Impl: keptInfo, Seed: seed, Index: idx})
				}
				continue
			}
			if liveAfter != nil {
				fp := "C02:uninstall-leaves-resource"
				if has {
					fp = "C02:uninstall-nonkeep-policy-left"
				}
				rep.Issue(Issue{Kind: "monitor", Fingerprint: fp, What: o.Key + " of the latest manifest is still in the cluster after a successful uninstall (resource-policy=" + fmt.Sprintf("%q", policy) + ")", Case: cs, Seed: seed, Index: idx})
			}
		}
	}
}

// clusterScopedCase: ownership of a cluster-scoped object (a Namespace) is judged like any other: managed-by label,
// release-name and release-namespace annotations all matching.  The manifest of an install (or of an upgrade that
// adds it) names a Namespace that exists in one of the ownership states; unless it is this release's own (or
// --take-ownership is given) the operation is refused before anything is changed.
func clusterScopedCase(rep *Report, r *Rng, seed uint64, idx int) {
	w := newSimWorld(driver.NewMemory())
	defer w.close()
	state := Pick(r, []string{"foreign", "other-release", "other-namespace", "other-namespace", "partial", "partial", "owned", "managed-only", "absent"})
	take := r.Chance(20)
	viaUpgrade := r.Chance(50)
	nsDoc := "apiVersion: v1\nkind: Namespace\nmetadata:\n  name: shared\n  labels:\n    tier: x\n"
	cm := func(v string) string {
		return "apiVersion: v1\nkind: ConfigMap\nmetadata:\n  name: settings\ndata:\n  level: \"" + v + "\"\n"
	}
	mk := func(ver int, docs map[string]string) *chart.Chart {
		c := &chart.Chart{Metadata: &chart.Metadata{APIVersion: "v2", Name: "app", Version: fmt.Sprintf("0.0.%d", ver)}}
		for _, k := range sortedKeys(docs) {
			c.Templates = append(c.Templates, &chart.File{Name: "templates/" + k + ".yaml", Data: []byte(docs[k])})
		}
		return c
	}
	cs := map[string]any{"scenario": "cluster-scoped", "state": state, "takeOwnership": take, "viaUpgrade": viaUpgrade}
	rep.Count(cs, true)
	if viaUpgrade {
		in := action.NewInstall(w.cfg())
		in.ReleaseName, in.Namespace, in.DisableOpenAPIValidation = "app", "default", true
		if _, err := in.Run(mk(1, map[string]string{"b-settings": cm("1")}), map[string]any{}); err != nil {
			rep.Issue(Issue{Kind: "monitor", Fingerprint: "C07:cluster-scoped:install-failed", What: "installing the first revision failed: " + err.Error(), Case: cs, Seed: seed, Index: idx})
			return
		}
	}
	if state != "absent" {
		l, a := ownerMeta(state)
		md := map[string]any{"name": "shared"}
		if len(l) > 0 {
			md["labels"] = strMapAny(l)
		}
		if len(a) > 0 {
			md["annotations"] = strMapAny(a)
		}
		w.api.mu.Lock()
		w.api.objs["namespaces/shared"] = map[string]any{"apiVersion": "v1", "kind": "Namespace", "metadata": md}
		w.api.mu.Unlock()
	}
	w.revive()
	before := canon(w.api.keys())
	beforeNS, _ := json.Marshal(w.api.objs["namespaces/shared"])
	histBefore := canon(implLedger(w))
	logFrom := len(w.api.log)
	var err error
	docs := map[string]string{"a-ns": nsDoc, "b-settings": cm("2")}
	if viaUpgrade {
		up := action.NewUpgrade(w.cfg())
		up.Namespace, up.DisableOpenAPIValidation, up.TakeOwnership = "default", true, take
		_, err = up.Run("app", mk(2, docs), map[string]any{})
	} else {
		in := action.NewInstall(w.cfg())
		in.ReleaseName, in.Namespace, in.DisableOpenAPIValidation, in.TakeOwnership = "app", "default", true, take
		_, err = in.Run(mk(1, docs), map[string]any{})
	}
	muts := w.api.mutations(logFrom)
	refuse := !take && state != "owned" && state != "absent"
	rep.H(fmt.Sprintf("cluster-scoped:%s:take=%v:upgrade=%v:err=%v", state, take, viaUpgrade, err != nil))
	afterNS, _ := json.Marshal(w.api.objs["namespaces/shared"])
	if refuse {
		if err == nil {
			rep.Issue(Issue{Kind: "monitor", Fingerprint: "C07:cluster-scoped:adopted-silently", What: "a cluster-scoped object that exists in ownership state " + state + " was taken over without --take-ownership", Case: cs, Model: string(beforeNS), Impl: map[string]any{"requests": muts, "object": string(afterNS)}, Seed: seed, Index: idx})
			return
		}
		if len(muts) > 0 || canon(w.api.keys()) != before || string(afterNS) != string(beforeNS) || canon(implLedger(w)) != histBefore {
			rep.Issue(Issue{Kind: "monitor", Fingerprint: "C07:cluster-scoped:refusal-after-mutation", What: "the operation was refused only after the cluster or the history had been changed: " + trunc(err.Error(), 200), Case: cs, Impl: map[string]any{"requests": muts, "history": implLedger(w)}, Seed: seed, Index: idx})
		}
		return
	}
	if err != nil {
		rep.Issue(Issue{Kind: "monitor", Fingerprint: "C07:cluster-scoped:refused-own", What: "an operation whose manifest names a cluster-scoped object that is absent / its own / taken over with --take-ownership failed: " + trunc(err.Error(), 200), Case: cs, Seed: seed, Index: idx})
	}
}

// longHistoryCase: a release with 10-13 revisions on the Secret / ConfigMap / memory driver (records whose keys sort
// differently as strings and as numbers), whose manifest changes late in the history (an object added, a keep
// policy dropped, another one gained); then uninstall, or a rollback to the previous revision: the operation works
// from the newest revision -- afterwards exactly the objects that revision keeps are left (uninstall), or the
// cluster holds exactly the target revision's objects (rollback).
func longHistoryCase(rep *Report, r *Rng, seed uint64, idx int) {
	backend := Pick(r, []string{"secrets", "secrets", "configmaps", "memory"})
	w := newSimWorld(newBackend(backend))
	defer w.close()
	nrev := 10 + r.Intn(4)
	change := 8 + r.Intn(nrev-8) // the revision from which the manifest is the late one (9 .. nrev-1: a two-digit or the last one-digit revision)
	op := Pick(r, []string{"uninstall", "uninstall", "uninstall-keep-history", "rollback"})
	cmDoc := func(name, level string, keep bool) string {
		a := ""
		if keep {
			a = "  annotations:\n    \"helm.sh/resource-policy\": keep\n"
		}
		return "apiVersion: v1\nkind: ConfigMap\nmetadata:\n  name: " + name + "\n" + a + "data:\n  level: \"" + level + "\"\n"
	}
	mk := func(ver int) *chart.Chart {
		late := ver > change
		c := &chart.Chart{Metadata: &chart.Metadata{APIVersion: "v2", Name: "app", Version: fmt.Sprintf("0.0.%d", ver)}}
		docs := map[string]string{"base": cmDoc("base", fmt.Sprint(ver), false), "archive": cmDoc("archive", "a", !late), "vault": cmDoc("vault", "v", late)}
		if late {
			docs["late"] = cmDoc("late", "l", false)
		} else {
			docs["early"] = cmDoc("early", "e", false)
		}
		for _, k := range sortedKeys(docs) {
			c.Templates = append(c.Templates, &chart.File{Name: "templates/" + k + ".yaml", Data: []byte(docs[k])})
		}
		return c
	}
	cs := map[string]any{"scenario": "long-history", "backend": backend, "revisions": nrev, "manifestChangesAfter": change, "op": op}
	rep.Count(cs, true)
	for v := 1; v <= nrev; v++ {
		w.revive()
		var err error
		if v == 1 {
			in := action.NewInstall(w.cfg())
			in.ReleaseName, in.Namespace, in.DisableOpenAPIValidation = "app", "default", true
			_, err = in.Run(mk(v), map[string]any{})
		} else {
			up := action.NewUpgrade(w.cfg())
			up.Namespace, up.DisableOpenAPIValidation = "default", true
			_, err = up.Run("app", mk(v), map[string]any{})
		}
		if err != nil {
			rep.Issue(Issue{Kind: "monitor", Fingerprint: "C02:long-history:setup", What: fmt.Sprintf("revision %d: %v", v, err), Case: cs, Seed: seed, Index: idx})
			return
		}
	}
	w.revive()
	var err error
	want := []string{}
	switch op {
	case "uninstall", "uninstall-keep-history":
		un := action.NewUninstall(w.cfg())
		un.KeepHistory = op == "uninstall-keep-history"
		_, err = un.Run("app")
		// the newest revision (always a late one unless change == nrev-1 ... nrev > change by construction) keeps vault only
		want = []string{"namespaces/default/configmaps/vault"}
	case "rollback":
		rb := action.NewRollback(w.cfg())
		err = rb.Run("app") // to the previous revision, nrev-1
		if nrev-1 > change {
			want = []string{"namespaces/default/configmaps/archive", "namespaces/default/configmaps/base", "namespaces/default/configmaps/late", "namespaces/default/configmaps/vault"}
		} else {
			// back to an early manifest: late goes, early comes back; vault was kept by the late revision and stays
			want = []string{"namespaces/default/configmaps/archive", "namespaces/default/configmaps/base", "namespaces/default/configmaps/early", "namespaces/default/configmaps/vault"}
		}
	}
	rep.H(fmt.Sprintf("long-history:%s:%s:err=%v", backend, op, err != nil))
	if err != nil {
		rep.Issue(Issue{Kind: "monitor", Fingerprint: "C02:long-history:failed", What: op + " after a long healthy history failed: " + trunc(err.Error(), 200), Case: cs, Seed: seed, Index: idx})
		return
	}
	got := w.api.keys()
	if !jsonEqual(got, want) {
		rep.Issue(Issue{Kind: "monitor", Fingerprint: "C02:long-history:" + strings.SplitN(op, "-", 2)[0], What: fmt.Sprintf("after a successful %s of a release with %d revisions the cluster does not hold what the newest / target revision says", op, nrev), Case: cs, Model: want, Impl: got, Seed: seed, Index: idx})
	}
}
