// corr: correspondence driver between the Lean models (helm_model) and the real helm code.
package main

import (
	"encoding/json"
	"flag"
	"fmt"
	"io"
	"log/slog"
	"os"
	"strconv"
)

type subcmd func(seed uint64, n int, tier string, out string, replay string)

var subs = map[string]subcmd{}

func main() {
	if len(os.Args) < 2 {
		fmt.Fprintln(os.Stderr, "usage: corr <sub> [-seed N] [-n N] [-tier quick|thorough] [-out file] [-replay file]")
		os.Exit(2)
	}
	sub := os.Args[1]
	slog.SetDefault(slog.New(slog.NewTextHandler(io.Discard, nil)))
	fs := flag.NewFlagSet(sub, flag.ExitOnError)
	seed := fs.Uint64("seed", 1, "seed")
	n := fs.Int("n", 200, "cases")
	tier := fs.String("tier", "quick", "tier")
	out := fs.String("out", "-", "report file")
	replay := fs.String("replay", "", "replay file")
	fs.Parse(os.Args[2:])
	if s := os.Getenv("VERIF_SEED"); s != "" && !isFlagSet(fs, "seed") {
		if v, err := strconv.ParseUint(s, 10, 64); err == nil {
			*seed = v
		}
	}
	f, ok := subs[sub]
	if !ok {
		fmt.Fprintln(os.Stderr, "unknown sub-command", sub)
		os.Exit(2)
	}
	replayFile = *replay
	if replayFile != "" {
		// the case of a replay file is (seed, index): sub-commands built on caseSeq run it alone; the
		// others regenerate the cases up to it with the same seed
		var one caseID
		if b, err := os.ReadFile(replayFile); err == nil && json.Unmarshal(b, &one) == nil && one.Seed != 0 {
			*seed = one.Seed
			*n = one.Index + 1
			replayIndex = one.Index
		}
	}
	f(*seed, *n, *tier, *out, *replay)
}

// caseID identifies one generated case: every random choice of a case derives from (seed, index).
type caseID struct {
	Seed  uint64 `json:"seed"`
	Index int    `json:"index"`
	Note  string `json:"note,omitempty"`
}

// caseSeq: the committed corpus of past witnesses (../corpus/<sub>.json, relative to the harness
// directory) first, then the n fresh cases of this run.
var replayFile string

func caseSeq(sub string, seed uint64, n int) []caseID {
	var ids []caseID
	if replayFile != "" {
		// a replay file is an issue written by an earlier run: it carries the seed and index of its case
		var one caseID
		if b, err := os.ReadFile(replayFile); err == nil && json.Unmarshal(b, &one) == nil {
			return []caseID{one}
		}
	}
	if b, err := os.ReadFile("../corpus/" + sub + ".json"); err == nil {
		json.Unmarshal(b, &ids)
	}
	for i := 0; i < n; i++ {
		ids = append(ids, caseID{Seed: seed, Index: i})
	}
	return ids
}

func isFlagSet(fs *flag.FlagSet, name string) bool {
	set := false
	fs.Visit(func(f *flag.Flag) {
		if f.Name == name {
			set = true
		}
	})
	return set
}
