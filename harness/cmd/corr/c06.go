package main

import (
	"bytes"
	"fmt"
	"strings"

	"helm.sh/helm/v4/pkg/action"
	chart "helm.sh/helm/v4/pkg/chart/v2"
)

func init() { subs["dryrun"] = corrDryRun }

const crdDoc = `apiVersion: apiextensions.k8s.io/v1
kind: CustomResourceDefinition
metadata:
  name: %s.example.com
spec:
  group: example.com
  names:
    kind: %s
    plural: %s
  scope: Namespaced
  versions:
  - name: v1
    served: true
    storage: true
`

type dryChart struct {
	Resources []string `json:"resources"` // names of ConfigMaps
	Hooks     []string `json:"hooks"`     // events with one hook each
	CRDs      []string `json:"crds"`
	Notes     bool     `json:"notes"`
	SubCRD    bool     `json:"subCRD"` // a sub-chart with its own crds/
}

func (d dryChart) build(version int) *chart.Chart {
	c := &chart.Chart{Metadata: &chart.Metadata{APIVersion: "v2", Name: "app", Version: fmt.Sprintf("0.0.%d", version)}}
	for _, n := range d.Resources {
		c.Templates = append(c.Templates, &chart.File{Name: "templates/" + n + ".yaml", Data: []byte(cmYAML(n, map[string]string{"v": fmt.Sprint(version)}, nil))})
	}
	for _, e := range d.Hooks {
		c.Templates = append(c.Templates, &chart.File{Name: "templates/hook-" + e + ".yaml", Data: []byte(cmYAML("hook-"+e, map[string]string{"k": "v"}, map[string]string{"helm.sh/hook": e}))})
	}
	for _, n := range d.CRDs {
		c.Files = append(c.Files, &chart.File{Name: "crds/" + n + ".yaml", Data: []byte(fmt.Sprintf(crdDoc, n+"s", strings.ToUpper(n[:1])+n[1:], n+"s"))})
	}
	if d.Notes {
		c.Templates = append(c.Templates, &chart.File{Name: "templates/NOTES.txt", Data: []byte("notes of {{ .Release.Name }}")})
	}
	if d.SubCRD {
		sub := &chart.Chart{Metadata: &chart.Metadata{APIVersion: "v2", Name: "sub", Version: "0.1.0"}}
		sub.Files = append(sub.Files, &chart.File{Name: "crds/subkind.yaml", Data: []byte(fmt.Sprintf(crdDoc, "subkinds", "Subkind", "subkinds"))})
		sub.Templates = append(sub.Templates, &chart.File{Name: "templates/cm.yaml", Data: []byte(cmYAML("sub-cm", map[string]string{"k": "v"}, nil))})
		c.AddDependency(sub)
	}
	return c
}

func (d dryChart) crdKeys() []string {
	var out []string
	for _, n := range d.CRDs {
		out = append(out, "customresourcedefinitions/"+n+"s.example.com")
	}
	if d.SubCRD {
		out = append(out, "customresourcedefinitions/subkinds.example.com")
	}
	return out
}

func (d dryChart) manifestObjs(version int) []mObj {
	var out []mObj
	for _, n := range d.Resources {
		out = append(out, mObj{Key: objKey(true, n), Typed: true, Data: map[string]string{"v": fmt.Sprint(version)}, Labels: map[string]string{}, Annos: map[string]string{}})
	}
	if d.SubCRD {
		out = append(out, mObj{Key: objKey(true, "sub-cm"), Typed: true, Data: map[string]string{"k": "v"}, Labels: map[string]string{}, Annos: map[string]string{}})
	}
	return out
}

type dryOp struct {
	Kind            string `json:"kind"`
	DryRun          bool   `json:"dryRun"`
	DryRunOption    string `json:"dryRunOption"`
	ClientOnly      bool   `json:"clientOnly"`
	SkipCRDs        bool   `json:"skipCRDs"`
	CreateNamespace bool   `json:"createNamespace"`
	Replace         bool   `json:"replace"`
	DisableHooks    bool   `json:"disableHooks"`
	TakeOwnership   bool   `json:"takeOwnership"`
	Force           bool   `json:"force"`
	IsUpgrade       bool   `json:"isUpgrade"`
	HideSecret      bool   `json:"hideSecret"`
	Atomic          bool   `json:"atomic"`
	PostRender      bool   `json:"postRender"`
	KeepHistory     bool   `json:"keepHistory"`
	MaxHistory      int    `json:"maxHistory"`
	CleanupOnFail   bool   `json:"cleanupOnFail"`
}

type identityPostRenderer struct{}

func (identityPostRenderer) Run(in *bytes.Buffer) (*bytes.Buffer, error) { return in, nil }

var dryOptions = []string{"", "", "client", "server", "true", "none", "false"}

func (o dryOp) expectedDry() bool {
	switch o.Kind {
	case "install", "upgrade":
		return o.DryRun || o.DryRunOption == "client" || o.DryRunOption == "server" || o.DryRunOption == "true"
	}
	return o.DryRun
}

func corrDryRun(seed uint64, n int, tier string, out string, replay string) {
	m := StartModel()
	defer m.Close()
	rep := NewReport("C06", "dryrun", seed, "case = a chart (1-2 resources, hooks for random events, 0-1 CRDs in crds/, optionally a sub-chart with its own crds/, NOTES) on an empty history or after a real install (and upgrade), then one operation under test -- install / upgrade / rollback / uninstall -- with a random combination of DryRun, every DryRunOption spelling (client, server, true, none, false, unset), ClientOnly, SkipCRDs, CreateNamespace, Replace, no-hooks, take-ownership, force, IsUpgrade, HideSecret, atomic, post-renderer, keep-history, max-history, cleanup-on-fail, run through the real action package over the simulated API server and the recording storage wrapper; whenever the spelling is a dry-run one: no mutating request, no storage write, history unchanged; client-only: no request at all; for install and upgrade the object store and the mutating requests are compared with the Lean model (CRD phase + cluster side); non-trivial = the operation under test is a dry run on a chart with CRDs or hooks; distinct = hash of the case")
	for _, id := range caseSeq("dryrun", seed, n) {
		dryCase(m, rep, NewRng(id.Seed, uint64(id.Index)), id.Seed, id.Index)
	}
	rep.Write(out, m)
}

func dryCase(m *Model, rep *Report, r *Rng, seed uint64, idx int) {
	w := newSimWorld(newBackend([]string{"secrets", "memory"}[idx%2]))
	defer w.close()
	d := dryChart{Resources: []string{"cm-a"}, Notes: r.Chance(30), SubCRD: r.Chance(12)}
	if r.Chance(40) {
		d.Resources = append(d.Resources, "cm-b")
	}
	for _, e := range []string{"pre-install", "post-install", "pre-upgrade", "post-upgrade", "pre-delete", "post-delete", "pre-rollback", "post-rollback"} {
		if r.Chance(25) {
			d.Hooks = append(d.Hooks, e)
		}
	}
	if r.Chance(45) {
		d.CRDs = append(d.CRDs, Pick(r, []string{"widget", "gadget"}))
	}
	// history prefix
	prefix := r.Intn(3) // 0 empty, 1 installed, 2 installed + upgraded
	uninstalledKept := false
	version := 0
	var deployed []mObj
	for k := 0; k < prefix; k++ {
		version++
		w.revive()
		cfg := w.cfg()
		var err error
		if k == 0 {
			in := action.NewInstall(cfg)
			in.ReleaseName, in.Namespace, in.DisableOpenAPIValidation = "app", "default", true
			_, err = in.Run(d.build(version), map[string]any{})
		} else {
			up := action.NewUpgrade(cfg)
			up.Namespace, up.DisableOpenAPIValidation = "default", true
			_, err = up.Run("app", d.build(version), map[string]any{})
		}
		if err != nil {
			rep.Issue(Issue{Kind: "harness", Fingerprint: "C06:prefix-failed", What: "the history prefix failed: " + err.Error(), Case: d, Seed: seed, Index: idx})
			return
		}
		deployed = d.manifestObjs(version)
	}
	if prefix > 0 && r.Chance(20) {
		// the release was uninstalled with --keep-history: the records are still there
		w.revive()
		un := action.NewUninstall(w.cfg())
		un.KeepHistory = true
		if _, err := un.Run("app"); err == nil {
			uninstalledKept = true
			deployed = nil
		}
	}
	// sometimes an object the chart would create is already there and belongs to nobody
	foreign := false
	if prefix == 0 && r.Chance(18) {
		f := mObj{Key: objKey(true, "cm-a"), Typed: true, Data: map[string]string{"mine": "yes"}}
		w.api.objs[f.Key] = f.server()
		foreign = true
	}
	// the operation under test
	op := dryOp{DryRun: r.Chance(45), DryRunOption: Pick(r, dryOptions)}
	if prefix == 0 {
		op.Kind = "install"
	} else {
		op.Kind = Pick(r, []string{"install", "upgrade", "upgrade", "rollback", "uninstall"})
		if op.Kind == "rollback" && prefix < 2 {
			op.Kind = "upgrade"
		}
	}
	op.SkipCRDs, op.CreateNamespace, op.Replace, op.DisableHooks = r.Chance(20), r.Chance(25), r.Chance(25), r.Chance(25)
	op.TakeOwnership, op.Force, op.IsUpgrade, op.Atomic, op.PostRender = r.Chance(20), r.Chance(15), r.Chance(20), r.Chance(15), r.Chance(20)
	op.KeepHistory, op.CleanupOnFail = r.Chance(40), r.Chance(20)
	if r.Chance(30) {
		op.MaxHistory = 1 + r.Intn(2)
	}
	if op.Kind == "install" && r.Chance(20) {
		op.ClientOnly, op.DryRun = true, true // helm template
	}
	if op.expectedDry() && r.Chance(25) && op.Kind == "install" {
		op.HideSecret = true
	}
	if op.Kind == "rollback" || op.Kind == "uninstall" {
		op.DryRunOption = ""
	}
	cs := map[string]any{"chart": d, "prefix": prefix, "op": op, "foreign": foreign, "uninstalledKept": uninstalledKept}
	before := storeDump(w)
	histBefore := canon(implLedger(w))
	w.revive()
	logFrom := len(w.api.log)
	cfg := w.cfg()
	version++
	var err error
	if p := safely(func() {
		switch op.Kind {
		case "install":
			in := action.NewInstall(cfg)
			in.ReleaseName, in.Namespace, in.DisableOpenAPIValidation = "app", "default", true
			in.DryRun, in.DryRunOption, in.ClientOnly, in.SkipCRDs, in.CreateNamespace, in.Replace = op.DryRun, op.DryRunOption, op.ClientOnly, op.SkipCRDs, op.CreateNamespace, op.Replace
			in.DisableHooks, in.TakeOwnership, in.Force, in.IsUpgrade, in.HideSecret, in.Atomic = op.DisableHooks, op.TakeOwnership, op.Force, op.IsUpgrade, op.HideSecret, op.Atomic
			if op.PostRender {
				in.PostRenderer = identityPostRenderer{}
			}
			_, err = in.Run(d.build(version), map[string]any{})
		case "upgrade":
			up := action.NewUpgrade(cfg)
			up.Namespace, up.DisableOpenAPIValidation = "default", true
			up.DryRun, up.DryRunOption, up.SkipCRDs, up.DisableHooks, up.TakeOwnership, up.Force = op.DryRun, op.DryRunOption, op.SkipCRDs, op.DisableHooks, op.TakeOwnership, op.Force
			up.Atomic, up.MaxHistory, up.CleanupOnFail = op.Atomic, op.MaxHistory, op.CleanupOnFail
			if op.PostRender {
				up.PostRenderer = identityPostRenderer{}
			}
			_, err = up.Run("app", d.build(version), map[string]any{})
		case "rollback":
			rb := action.NewRollback(cfg)
			rb.DryRun, rb.DisableHooks, rb.Force, rb.MaxHistory, rb.CleanupOnFail = op.DryRun, op.DisableHooks, op.Force, op.MaxHistory, op.CleanupOnFail
			err = rb.Run("app")
		case "uninstall":
			un := action.NewUninstall(cfg)
			un.DryRun, un.DisableHooks, un.KeepHistory = op.DryRun, op.DisableHooks, op.KeepHistory
			_, err = un.Run("app")
		}
	}); p != "" {
		rep.Issue(Issue{Kind: "monitor", Fingerprint: "C20:panic:action:" + op.Kind, What: p, Case: cs, Seed: seed, Index: idx})
		return
	}
	after := storeDump(w)
	muts := w.api.mutations(logFrom)
	w.api.mu.Lock()
	allReqs := len(w.api.log) - logFrom
	w.api.mu.Unlock()
	dry := op.expectedDry()
	rep.H(fmt.Sprintf("%s:dry=%v:err=%v", op.Kind, dry, err != nil))
	rep.Count(cs, dry && (len(d.CRDs) > 0 || d.SubCRD || len(d.Hooks) > 0))
	if idx < 2 {
		rep.Sample(cs)
	}
	// ---- the property, on the implementation ----
	if dry {
		if len(muts) > 0 || canonImplObjs(before) != canonImplObjs(after) {
			rep.Issue(Issue{Kind: "monitor", Fingerprint: "C06:dry-run-cluster-write", What: fmt.Sprintf("a dry-run %s (DryRun=%v DryRunOption=%q) sent mutating requests", op.Kind, op.DryRun, op.DryRunOption), Case: cs, Impl: muts, Seed: seed, Index: idx})
		}
		if len(w.writes) > 0 || canon(implLedger(w)) != histBefore {
			rep.Issue(Issue{Kind: "monitor", Fingerprint: "C06:dry-run-storage-write", What: fmt.Sprintf("a dry-run %s (DryRun=%v DryRunOption=%q) wrote to release storage", op.Kind, op.DryRun, op.DryRunOption), Case: cs, Impl: w.writes, Seed: seed, Index: idx})
		}
	}
	if foreign && !dry && !op.TakeOwnership && op.Kind == "install" {
		// C07: refused, and before anything was changed
		if err == nil {
			rep.Issue(Issue{Kind: "monitor", Fingerprint: "C07:took-over-unowned", What: "install succeeded although cm-a existed and did not belong to the release", Case: cs, Seed: seed, Index: idx})
		} else if len(muts) > 0 || len(w.writes) > 0 {
			fp := "C07:refusal-after-mutation"
			onlyCRDs := len(w.writes) == 0
			for _, mu := range muts {
				onlyCRDs = onlyCRDs && strings.Contains(mu, "customresourcedefinitions")
			}
			if onlyCRDs {
				fp = "C07:refusal-after-mutation:crds"
			}
			rep.Issue(Issue{Kind: "monitor", Fingerprint: fp, What: "the install refused the unowned cm-a but had already changed the cluster or the history", Case: cs, Impl: map[string]any{"requests": muts, "storage": w.writes}, Seed: seed, Index: idx})
		}
		rep.H("C07:refusal-checked")
	}
	if op.ClientOnly && allReqs > 0 {
		rep.Issue(Issue{Kind: "monitor", Fingerprint: "C06:client-only-request", What: fmt.Sprintf("client-only rendering sent %d requests to the cluster", allReqs), Case: cs, Seed: seed, Index: idx})
	}
	// ---- model: install and upgrade (CRD phase + cluster side); hooks and namespace creation are not in this model ----
	hooksRun := !op.DisableHooks && len(d.Hooks) > 0
	if uninstalledKept && !dry {
		return // the cluster side of operations on an uninstalled release is outside this sub-command's model
	}
	if (op.Kind == "install" || op.Kind == "upgrade") && (dry || (!hooksRun && !op.CreateNamespace && !op.Atomic && !(op.Kind == "install" && prefix > 0))) {
		if err != nil && !dry {
			return // failed for a reason outside this model (name in use, ...)
		}
		var crds []any
		if op.Kind == "install" {
			for _, k := range d.crdKeys() {
				crds = append(crds, map[string]any{"key": k, "typed": false, "data": []any{}, "labels": []any{}, "annos": []any{}})
			}
		}
		// CRD objects are compared by presence only: strip them from both stores
		strip := func(os []mObj) []mObj {
			var out []mObj
			for _, o := range os {
				if !strings.HasPrefix(o.Key, "customresourcedefinitions/") {
					out = append(out, o)
				}
			}
			return out
		}
		crdPresent := func(os []mObj) []string {
			var out []string
			for _, o := range os {
				if strings.HasPrefix(o.Key, "customresourcedefinitions/") {
					out = append(out, o.Key)
				}
			}
			return out
		}
		var storeIn []any
		for _, o := range before {
			if strings.HasPrefix(o.Key, "customresourcedefinitions/") {
				storeIn = append(storeIn, map[string]any{"key": o.Key, "typed": false, "data": []any{}, "labels": []any{}, "annos": []any{}})
			} else {
				storeIn = append(storeIn, objJSON(o))
			}
		}
		q := map[string]any{"op": "dryRunOp", "kind": op.Kind, "rel": "app", "ns": "default", "takeOwnership": op.TakeOwnership, "force": op.Force,
			"mode": map[string]any{"dryRun": op.DryRun, "option": op.DryRunOption, "clientOnly": op.ClientOnly, "skipCRDs": op.SkipCRDs},
			"crds": orEmptyAny(crds), "target": objsJSON(d.manifestObjs(version)), "current": objsJSON(deployed), "store": orEmptyAny(storeIn)}
		mr := m.Query(q)
		if mr["isDryRun"] != dry {
			rep.Issue(Issue{Kind: "disagreement", Fingerprint: "C06:model:is-dry-run", What: "the model's isDryRun differs from the specification of the spellings", Case: cs, Seed: seed, Index: idx})
		}
		var wantMuts []string
		for _, e := range mr["log"].([]any) {
			if s := e.(string); !strings.HasPrefix(s, "GET ") {
				wantMuts = append(wantMuts, s)
			}
		}
		if canon(sortedCopy(wantMuts)) != canon(sortedCopy(muts)) && !(len(wantMuts) == 0 && len(muts) == 0) {
			rep.Issue(Issue{Kind: "disagreement", Fingerprint: "C06:model:requests:" + op.Kind, What: "mutating requests differ from the model", Case: cs, Model: wantMuts, Impl: muts, Seed: seed, Index: idx})
			return
		}
		var modelStore []mObj
		var modelCRDs []string
		for _, x := range mr["store"].([]any) {
			k := x.(map[string]any)["key"].(string)
			if strings.HasPrefix(k, "customresourcedefinitions/") {
				modelCRDs = append(modelCRDs, k)
			}
		}
		_ = modelStore
		if canon(sortedCopy(modelCRDs)) != canon(sortedCopy(crdPresent(after))) && !(len(modelCRDs) == 0 && len(crdPresent(after)) == 0) {
			rep.Issue(Issue{Kind: "disagreement", Fingerprint: "C06:model:crds:" + op.Kind, What: "the CRDs present afterwards differ from the model", Case: cs, Model: modelCRDs, Impl: crdPresent(after), Seed: seed, Index: idx})
			return
		}
		var ms []any
		for _, x := range mr["store"].([]any) {
			if !strings.HasPrefix(x.(map[string]any)["key"].(string), "customresourcedefinitions/") {
				ms = append(ms, x)
			}
		}
		if canonObjs(orEmptyAny(ms)) != canonImplObjs(strip(after)) {
			rep.Issue(Issue{Kind: "disagreement", Fingerprint: "C06:model:store:" + op.Kind, What: "object store differs from the model", Case: cs, Model: canonObjs(orEmptyAny(ms)), Impl: canonImplObjs(strip(after)), Seed: seed, Index: idx})
			return
		}
		rep.Traces++
	}
}

func sortedCopy(xs []string) []string {
	out := append([]string{}, xs...)
	sortStrings(out)
	return out
}

func sortStrings(xs []string) {
	for i := 1; i < len(xs); i++ {
		for j := i; j > 0 && xs[j] < xs[j-1]; j-- {
			xs[j], xs[j-1] = xs[j-1], xs[j]
		}
	}
}
