package main

import (
	"context"
	"encoding/json"
	"fmt"
	"io"
	"net/http"
	"net/http/httptest"
	"os"
	"os/exec"
	"path/filepath"
	"sort"
	"strings"
	"sync"
	"time"

	helmcmd "helm.sh/helm/v4/pkg/cmd"
)

// dryruncli: the command-line wiring of dry runs.  The real helm commands (pkg/cmd, as cmd/helm runs them) are
// executed in a child process each, pointed through HELM_KUBEAPISERVER at a recording API server that also holds
// the release storage (Secrets): `template` in every spelling of --dry-run, with and without --validate, and
// install / upgrade --install with every dry-run spelling.  No mutating request may arrive; a client-only
// template may not send any request.
func init() {
	subs["dryruncli"] = corrDryRunCLI
	subs["helmcli"] = helmCLIChild
}

// helmCLIChild: what cmd/helm's main does, with the arguments taken from the environment.
func helmCLIChild(seed uint64, n int, tier string, out string, replay string) {
	var args []string
	json.Unmarshal([]byte(os.Getenv("CORR_HELM_ARGS")), &args)
	var w io.Writer = io.Discard
	if os.Getenv("CORR_HELM_STDOUT") != "" {
		w = os.Stdout
	}
	cmd, err := helmcmd.NewRootCmd(w, args)
	if err != nil {
		fmt.Println("HELMCLI newroot-error")
		return
	}
	cmd.SetArgs(args)
	cmd.SetOut(w)
	cmd.SetErr(io.Discard)
	err = cmd.Execute()
	if err != nil {
		fmt.Printf("HELMCLI error: %s\n", strings.ReplaceAll(err.Error(), "\n", " | "))
	}
	fmt.Printf("HELMCLI done err=%v\n", err != nil)
}

type cliAPI struct {
	mu   sync.Mutex
	reqs []string
}

func (a *cliAPI) ServeHTTP(w http.ResponseWriter, r *http.Request) {
	a.mu.Lock()
	a.reqs = append(a.reqs, r.Method+" "+r.URL.Path)
	a.mu.Unlock()
	w.Header().Set("Content-Type", "application/json")
	p := r.URL.Path
	switch {
	case r.Method != http.MethodGet:
		b, _ := io.ReadAll(r.Body)
		if len(b) == 0 {
			b = []byte(`{"kind":"Status","apiVersion":"v1","status":"Success"}`)
		}
		if r.Method == http.MethodPost {
			w.WriteHeader(201)
		}
		w.Write(b)
	case p == "/version":
		io.WriteString(w, `{"major":"1","minor":"32","gitVersion":"v1.32.0"}`)
	case p == "/api":
		io.WriteString(w, `{"kind":"APIVersions","versions":["v1"]}`)
	case p == "/apis":
		io.WriteString(w, `{"kind":"APIGroupList","apiVersion":"v1","groups":[]}`)
	case p == "/api/v1":
		io.WriteString(w, `{"kind":"APIResourceList","groupVersion":"v1","resources":[{"name":"configmaps","singularName":"configmap","namespaced":true,"kind":"ConfigMap","verbs":["create","delete","get","list","patch","update","watch"]},{"name":"secrets","singularName":"secret","namespaced":true,"kind":"Secret","verbs":["create","delete","get","list","patch","update","watch"]},{"name":"namespaces","singularName":"namespace","namespaced":false,"kind":"Namespace","verbs":["create","delete","get","list","patch","update","watch"]}]}`)
	case strings.HasSuffix(p, "/secrets"):
		io.WriteString(w, `{"kind":"SecretList","apiVersion":"v1","metadata":{},"items":[]}`)
	case strings.HasSuffix(p, "/configmaps"):
		io.WriteString(w, `{"kind":"ConfigMapList","apiVersion":"v1","metadata":{},"items":[]}`)
	default:
		w.WriteHeader(404)
		io.WriteString(w, `{"kind":"Status","apiVersion":"v1","status":"Failure","reason":"NotFound","code":404,"message":"not found"}`)
	}
}

type cliCase struct {
	Args       []string `json:"args"`
	ClientOnly bool     `json:"clientOnly"` // no request at all is expected
}

func corrDryRunCLI(seed uint64, n int, tier string, out string, replay string) {
	rep := NewReport("C06", "dryruncli", seed, "case = a real helm command line run in a child process (pkg/cmd.NewRootCmd as cmd/helm's main does) against a recording API server reached through HELM_KUBEAPISERVER, release storage in Secrets on the same server: `template` with --dry-run absent / bare / =client / =server / =true / =false / =none, with and without --validate, --create-namespace, --is-upgrade; `install` and `upgrade --install` with --dry-run bare / =client / =server / =true (+ --create-namespace); monitors: no POST/PUT/PATCH/DELETE arrives, and a template without --validate and without --dry-run=server sends no request at all; non-trivial = every case; distinct = the argument list")
	tmp, _ := os.MkdirTemp("", "corr-dryruncli")
	defer os.RemoveAll(tmp)
	chartDir := filepath.Join(tmp, "demo")
	os.MkdirAll(filepath.Join(chartDir, "templates"), 0o755)
	os.MkdirAll(filepath.Join(chartDir, "crds"), 0o755)
	os.WriteFile(filepath.Join(chartDir, "Chart.yaml"), []byte("apiVersion: v2\nname: demo\nversion: 0.1.0\n"), 0o644)
	os.WriteFile(filepath.Join(chartDir, "templates", "cm.yaml"), []byte("apiVersion: v1\nkind: ConfigMap\nmetadata:\n  name: {{ .Release.Name }}-cm\ndata:\n  k: v\n"), 0o644)
	os.WriteFile(filepath.Join(chartDir, "templates", "hook.yaml"), []byte("apiVersion: v1\nkind: ConfigMap\nmetadata:\n  name: {{ .Release.Name }}-hook\n  annotations:\n    \"helm.sh/hook\": pre-install,pre-upgrade\ndata:\n  k: v\n"), 0o644)
	var cases []cliCase
	for _, dry := range []string{"", "--dry-run", "--dry-run=client", "--dry-run=server", "--dry-run=true", "--dry-run=false", "--dry-run=none"} {
		for _, validate := range []bool{false, true} {
			for _, extra := range [][]string{nil, {"--create-namespace"}, {"--is-upgrade"}} {
				a := []string{"template", "rel", chartDir, "--disable-openapi-validation"}
				if dry != "" {
					a = append(a, dry)
				}
				if validate {
					a = append(a, "--validate")
				}
				a = append(a, extra...)
				cases = append(cases, cliCase{Args: a, ClientOnly: !validate && dry != "--dry-run=server"})
			}
		}
	}
	for _, dry := range []string{"--dry-run", "--dry-run=client", "--dry-run=server", "--dry-run=true"} {
		for _, extra := range [][]string{nil, {"--create-namespace"}} {
			cases = append(cases, cliCase{Args: append([]string{"install", "rel", chartDir, "--disable-openapi-validation", dry}, extra...)})
			cases = append(cases, cliCase{Args: append([]string{"upgrade", "rel", chartDir, "--install", "--disable-openapi-validation", dry}, extra...)})
		}
	}
	self, _ := os.Executable()
	type result struct {
		reqs []string
		outp string
		err  error
	}
	results := make([]result, len(cases))
	var wg sync.WaitGroup
	sem := make(chan struct{}, 8)
	for i := range cases {
		wg.Add(1)
		go func(i int) {
			defer wg.Done()
			sem <- struct{}{}
			defer func() { <-sem }()
			api := &cliAPI{}
			srv := httptest.NewServer(api)
			defer srv.Close()
			home := filepath.Join(tmp, fmt.Sprintf("home-%d", i))
			os.MkdirAll(home, 0o755)
			ab, _ := json.Marshal(cases[i].Args)
			ctx, cancel := context.WithTimeout(context.Background(), 60*time.Second)
			defer cancel()
			cmd := exec.CommandContext(ctx, self, "helmcli")
			cmd.Env = []string{"PATH=" + os.Getenv("PATH"), "HOME=" + home, "KUBECONFIG=" + filepath.Join(home, "no-kubeconfig"), "HELM_KUBEAPISERVER=" + srv.URL, "HELM_NAMESPACE=default",
				"HELM_CACHE_HOME=" + filepath.Join(home, "cache"), "HELM_CONFIG_HOME=" + filepath.Join(home, "config"), "HELM_DATA_HOME=" + filepath.Join(home, "data"), "CORR_HELM_ARGS=" + string(ab)}
			ob, err := cmd.CombinedOutput()
			api.mu.Lock()
			results[i] = result{reqs: append([]string{}, api.reqs...), outp: string(ob), err: err}
			api.mu.Unlock()
		}(i)
	}
	wg.Wait()
	for i, c := range cases {
		cs := map[string]any{"args": c.Args[0:1], "flags": c.Args[3:], "clientOnly": c.ClientOnly}
		rep.Count(cs, true)
		if i < 3 {
			rep.Sample(cs)
		}
		res := results[i]
		if !strings.Contains(res.outp, "HELMCLI done") {
			rep.H("child:no-result")
			rep.Issue(Issue{Kind: "monitor", Fingerprint: "C06:cli:child-died", What: "the helm command did not return: " + trunc(res.outp, 200) + " " + fmt.Sprint(res.err), Case: cs, Seed: seed, Index: i})
			continue
		}
		rep.H("child:" + c.Args[0] + ":" + map[bool]string{true: "error", false: "ok"}[strings.Contains(res.outp, "err=true")])
		var mut []string
		for _, q := range res.reqs {
			if !strings.HasPrefix(q, "GET ") {
				mut = append(mut, q)
			}
		}
		sort.Strings(mut)
		if len(mut) > 0 {
			rep.Issue(Issue{Kind: "monitor", Fingerprint: "C06:cli:mutating:" + c.Args[0], What: fmt.Sprintf("helm %s %s sent mutating requests: %v", c.Args[0], strings.Join(c.Args[3:], " "), mut), Case: cs, Impl: res.reqs, Seed: seed, Index: i})
		} else if c.ClientOnly && len(res.reqs) > 0 {
			rep.Issue(Issue{Kind: "monitor", Fingerprint: "C06:cli:client-only-contacted-cluster", What: fmt.Sprintf("helm template %s (client-only) sent requests: %v", strings.Join(c.Args[3:], " "), res.reqs), Case: cs, Impl: res.reqs, Seed: seed, Index: i})
		}
		if len(res.reqs) > 0 {
			rep.H("contacted-cluster")
		}
	}
	rep.Write(out, nil)
}
