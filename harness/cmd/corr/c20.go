package main

import (
	"bytes"
	"context"
	"encoding/json"
	"fmt"
	"os"
	"os/exec"
	"path/filepath"
	"runtime/debug"
	"strconv"
	"strings"
	"time"

	chart "helm.sh/helm/v4/pkg/chart/v2"
	"helm.sh/helm/v4/pkg/chart/v2/loader"
	chartutil "helm.sh/helm/v4/pkg/chart/v2/util"
	"helm.sh/helm/v4/pkg/engine"
	"helm.sh/helm/v4/pkg/ignore"
	"helm.sh/helm/v4/pkg/lint"
	"helm.sh/helm/v4/pkg/plugin"
	"helm.sh/helm/v4/pkg/provenance"
	releaseutil "helm.sh/helm/v4/pkg/release/util"
	"helm.sh/helm/v4/pkg/repo"
	"helm.sh/helm/v4/pkg/strvals"
)

func init() { subs["crash"] = corrCrash }

// guarded runs f with a watchdog; returns "" | "panic: ..." | "hang".
func guarded(f func()) string {
	done := make(chan string, 1)
	go func() { done <- safely(f) }()
	select {
	case p := <-done:
		if p != "" {
			return "panic: " + p
		}
		return ""
	case <-time.After(20 * time.Second):
		return "hang"
	}
}

func mutateBytes(r *Rng, b []byte) []byte {
	b = append([]byte{}, b...)
	n := 1 + r.Intn(4)
	tokens := [][]byte{[]byte("null"), []byte("- "), []byte(": "), []byte("{"), []byte("}"), []byte("[]"), []byte("\n"), []byte("  "), []byte("&a "), []byte("*a"), []byte("!!binary "), []byte("\"\""), []byte("0"), []byte("\x00"), []byte("'"), []byte("|"), []byte("~")}
	for i := 0; i < n && len(b) > 0; i++ {
		p := r.Intn(len(b))
		switch r.Intn(5) {
		case 0:
			b[p] = byte(r.Intn(256))
		case 1:
			b = append(b[:p], b[p+1:]...)
		case 2:
			t := Pick(r, tokens)
			b = append(b[:p], append(append([]byte{}, t...), b[p:]...)...)
		case 3:
			q := r.Intn(len(b))
			if p > q {
				p, q = q, p
			}
			b = append(b[:p], b[q:]...)
		case 4:
			b = append(b[:p], append(append([]byte{}, b[p:min(len(b), p+8)]...), b[p:]...)...)
		}
	}
	return b
}

var seedChartYAML = "apiVersion: v2\nname: c\nversion: 0.1.0\ndependencies:\n- name: sub\n  version: 0.1.0\n  repository: file://../sub\n  condition: sub.enabled,global.sub\n  tags: [t1]\n  alias: al\n  import-values:\n  - data\n  - child: exports.x\n    parent: imported\n"
var seedSubYAML = "apiVersion: v2\nname: sub\nversion: 0.1.0\n"
var seedValues = "a: 1\nsub:\n  enabled: true\ntags:\n  t1: false\nglobal:\n  g: {h: 1}\n"
var seedSubValues = "exports:\n  data:\n    k: v\n  x:\n    y: z\n"
var seedSchema = `{"type":"object","properties":{"a":{"type":"integer"}}}`
var seedTemplate = "kind: ConfigMap\nmetadata:\n  name: {{ .Release.Name }}\n  annotations:\n    helm.sh/hook: pre-install\ndata:\n  a: {{ .Values.a | quote }}\n{{- range $k, $v := .Values.sub }}\n  {{ $k }}: {{ $v | quote }}\n{{- end }}\n---\n{{ include \"x\" . }}\n"
var seedHelpers = "{{- define \"x\" -}}kind: Secret{{- end -}}"

// file names a chart may come with that the loader has to classify: loose files directly under charts/ (where
// sub-chart directories and archives are expected), at deeper levels, hidden and underscore names, archives and
// provenance files that are not what their name says, empty path components
var oddChartFiles = []string{"charts/README.md", "charts/notes.txt", "charts/sub/charts/x.txt", "charts/.hidden", "charts/_ignored", "charts/a.tgz", "charts/sub-0.1.0.tgz",
	"charts/sub.prov", "charts/x/y", "charts/sub/charts/deep/Chart.yaml", "crds/x.yaml", "charts/sub/README", "charts/s", "charts/LICENSE", "templates/NOTES.txt", "templates/sub/deep/t.yaml", "files/a.bin", "README.md", ".helmignore", "requirements.lock", "requirements.yaml", "Chart.lock"}

var oddValues = []string{"sub: null\n", "sub:\n", "sub: ~\n", "sub: 5\n", "sub: [1]\n", "sub: \"str\"\n", "global: null\n", "global: 3\n", "global: [a]\n", "tags: null\n", "tags: 5\n", "tags:\n  t1: null\n",
	"sub:\n  enabled: null\n", "sub:\n  global: 7\n", "a: null\nsub:\n  exports: null\n", "sub:\n  exports:\n    data: 3\n", "null\n", "[]\n", "3\n", "sub: {}\nglobal: {}\ntags: {}\n", "al: null\n", "al: 5\n", "al:\n  global: null\n"}
var oddUserValues = []map[string]any{{"sub": nil}, {"global": nil}, {"tags": nil}, {"sub": "str"}, {"sub": 5.0}, {"sub": []any{1.0}}, {"global": 3.0}, {"tags": "x"}, {"sub": map[string]any{"global": nil}}, {"sub": map[string]any{"enabled": nil}},
	{"al": nil}, {"sub": map[string]any{"exports": nil}}, {"a": nil, "sub": map[string]any{}}}

func corrCrash(seed uint64, n int, tier string, out string, replay string) {
	rep := NewReport("C20", "crash", seed, "case = one external input mutated at byte/token level (or replaced by raw bytes), in 30% of the cases together with 1-3 extra files under odd names (loose files directly under charts/, fake archives and provenance files, Helm 2 requirement files): chart files (Chart.yaml incl. dependencies / import-values, values.yaml, values.schema.json, templates) loaded from buffers, archives and directories and then driven through dependency processing, value computation, rendering, manifest sorting and lint; values-file reading; strvals expressions; repository index followed by queries; provenance files; .helmignore; plugin.yaml; each call under recover and a 20 s watchdog; non-trivial = every case (all are mutants); distinct = hash of the mutated input")
	tmp, _ := os.MkdirTemp("", "corr-crash")
	defer os.RemoveAll(tmp)
	report := func(entry, res string, input any, known string, idx int) {
		rep.H(entry + ":" + map[bool]string{true: "ok", false: "CRASH"}[res == ""])
		if res != "" {
			fp := "C20:" + strings.SplitN(res, ":", 2)[0] + ":" + entry
			if known != "" {
				fp = known
			}
			rep.Issue(Issue{Kind: "monitor", Fingerprint: fp, What: entry + ": " + trunc(res, 300), Case: input, Seed: seed, Index: idx})
		}
	}
	for i := 0; i < n; i++ {
		r := NewRng(seed, uint64(i))
		files := map[string][]byte{"Chart.yaml": []byte(seedChartYAML), "values.yaml": []byte(seedValues), "values.schema.json": []byte(seedSchema), "templates/a.yaml": []byte(seedTemplate), "templates/_h.tpl": []byte(seedHelpers),
			"charts/sub/Chart.yaml": []byte(seedSubYAML), "charts/sub/values.yaml": []byte(seedSubValues), "charts/sub/templates/s.yaml": []byte("kind: Service\n")}
		target := Pick(r, []string{"Chart.yaml", "Chart.yaml", "values.yaml", "values.schema.json", "templates/a.yaml", "charts/sub/Chart.yaml", "charts/sub/values.yaml"})
		files[target] = mutateBytes(r, files[target])
		// well-formed but ill-typed values: nulls and scalars where tables are expected (sub-chart sections, global, tags)
		userVals := map[string]any{"a": 2.0}
		if i%6 == 1 || i%6 == 4 {
			// these cases keep every file well-formed, so that the chart loads and the values reach the computation
			files = map[string][]byte{"Chart.yaml": []byte(seedChartYAML), "values.yaml": []byte(seedValues), "values.schema.json": []byte(seedSchema), "templates/a.yaml": []byte(seedTemplate), "templates/_h.tpl": []byte(seedHelpers),
				"charts/sub/Chart.yaml": []byte(seedSubYAML), "charts/sub/values.yaml": []byte(seedSubValues), "charts/sub/templates/s.yaml": []byte("kind: Service\n")}
			target = "values.yaml"
			if i%6 == 1 {
				files["values.yaml"] = []byte(Pick(r, oddValues))
			} else {
				userVals = Pick(r, oddUserValues)
			}
			if i%12 < 6 {
				// the dependency without its alias: the sub-chart's section is then named after the chart itself
				files["Chart.yaml"] = []byte(strings.Replace(seedChartYAML, "  alias: al\n", "", 1))
			}
		}
		if r.Chance(5) {
			raw := make([]byte, r.Intn(200))
			for k := range raw {
				raw[k] = byte(r.Intn(256))
			}
			files[target] = raw
		}
		// the layout as well: files where the loader expects charts, odd names
		var extra []string
		if r.Chance(30) {
			for k := 1 + r.Intn(3); k > 0; k-- {
				name := Pick(r, oddChartFiles)
				files[name] = []byte(Pick(r, []string{"x", "", "apiVersion: v2\nname: z\nversion: 0.1.0\n", "\x1f\x8b\x08garbage"}))
				extra = append(extra, name)
			}
		}
		rep.Count(map[string]any{"t": target, "d": string(files[target])}, true)
		if i < 2 {
			rep.Sample(map[string]any{"target": target, "content": string(files[target])})
		}
		input := map[string]any{"target": target, "content": string(files[target]), "extraFiles": extra, "userValues": userVals}
		known := ""
		if target == "Chart.yaml" && strings.Contains(string(files[target]), "import-values") {
			known = "?import"
		}
		var bf []*loader.BufferedFile
		for k, v := range files {
			bf = append(bf, &loader.BufferedFile{Name: k, Data: v})
		}
		var c *chart.Chart
		var err error
		res := guarded(func() { c, err = loader.LoadFiles(bf) })
		report("LoadFiles", res, input, "", i)
		if res == "" && err == nil && c != nil {
			res = guarded(func() {
				vals := deepCopyMap(userVals)
				if err := chartutil.ProcessDependencies(c, vals); err != nil {
					return
				}
				rv, err := chartutil.ToRenderValues(c, vals, chartutil.ReleaseOptions{Name: "r", Namespace: "n"}, nil)
				if err != nil {
					return
				}
				rendered, err := engine.Render(c, rv)
				if err != nil {
					return
				}
				releaseutil.SortManifests(rendered, nil, releaseutil.InstallOrder)
			})
			k := ""
			if known == "?import" && strings.Contains(res, "interface conversion") {
				k = "C20:import-values-type-assertion"
			}
			report("process+render", res, input, k, i)
		}
		// the same through a directory and lint
		if i%10 == 0 {
			d := filepath.Join(tmp, fmt.Sprintf("d-%d", i), "c")
			for k, v := range files {
				os.MkdirAll(filepath.Dir(filepath.Join(d, k)), 0o755)
				os.WriteFile(filepath.Join(d, k), v, 0o644)
			}
			res = guarded(func() { loader.LoadDir(d) })
			report("LoadDir", res, input, "", i)
			res = guarded(func() { lint.RunAll(d, map[string]any{}, "default") })
			k := ""
			if known == "?import" && strings.Contains(res, "interface conversion") {
				k = "C20:import-values-type-assertion"
			}
			report("lint", res, input, k, i)
			os.RemoveAll(filepath.Join(tmp, fmt.Sprintf("d-%d", i)))
		}
		// values reading
		vb := mutateBytes(r, []byte(seedValues+"list:\n- 1\n- {a: b}\n---\nsecond: doc\n"))
		report("ReadValues", guarded(func() { chartutil.ReadValues(vb) }), map[string]any{"values": string(vb)}, "", i)
		report("LoadValues", guarded(func() { loader.LoadValues(bytes.NewReader(vb)) }), map[string]any{"values": string(vb)}, "", i)
		// strvals
		sv := string(mutateBytes(r, []byte("a.b[0].c=1,d={x,y},e[1][2]=z,f.g=\\,h")))
		for _, f := range []func(){func() { strvals.Parse(sv) }, func() { strvals.ParseString(sv) }, func() { strvals.ParseLiteral(sv) }, func() { strvals.ParseJSON(sv, map[string]any{}) }, func() { strvals.ParseInto(sv, map[string]any{"a": "x", "e": []any{1.0}}) }} {
			report("strvals", guarded(f), map[string]any{"s": sv}, "", i)
		}
		// index + queries
		ib := mutateBytes(r, []byte("apiVersion: v1\nentries:\n  foo:\n  - name: foo\n    version: 1.0.0\n    urls: [a]\n  - name: foo\n    version: 2.0.0-rc.1\n    urls: [b]\n  bar:\n  - name: bar\n    version: 0.1.0\n    urls: []\ngenerated: \"2020-01-01T00:00:00Z\"\n"))
		ip := filepath.Join(tmp, "index.yaml")
		os.WriteFile(ip, ib, 0o644)
		k := ""
		if bytes.Contains(ib, []byte("null")) || bytes.Contains(ib, []byte("~")) || bytes.Contains(ib, []byte("- \n")) || bytes.Contains(ib, []byte("-\n")) {
			k = "C20:null-entry-panic"
		}
		res = guarded(func() {
			ix, err := repo.LoadIndexFile(ip)
			if err != nil || ix == nil {
				return
			}
			ix.Get("foo", "")
			ix.Get("foo", ">1.0.0-0")
			ix.Get("bar", "0.1.0")
			ix.Has("foo", "1.0.0")
		})
		if res != "" && k == "" {
			// a null entry can also be produced by deleting the fields of an entry
			if strings.Contains(res, "nil pointer") {
				k = "C20:null-entry-panic"
			}
		} else if res == "" {
			k = ""
		}
		report("index", res, map[string]any{"index": string(ib)}, k, i)
		// provenance
		pb := mutateBytes(r, []byte("-----BEGIN PGP SIGNED MESSAGE-----\nHash: SHA512\n\nname: c\nversion: 0.1.0\n\n...\nfiles:\n  c-0.1.0.tgz: sha256:abc\n-----BEGIN PGP SIGNATURE-----\n\nwsBcBAEBCgAQBQJ\n=abcd\n-----END PGP SIGNATURE-----\n"))
		pp := filepath.Join(tmp, "c-0.1.0.tgz.prov")
		os.WriteFile(pp, pb, 0o644)
		os.WriteFile(filepath.Join(tmp, "c-0.1.0.tgz"), []byte("x"), 0o644)
		report("provenance", guarded(func() {
			s := &provenance.Signatory{}
			s.Verify(filepath.Join(tmp, "c-0.1.0.tgz"), pp)
		}), map[string]any{"prov": string(pb)}, "", i)
		// .helmignore
		gb := mutateBytes(r, []byte("# comment\n*.tmp\n!keep.tmp\n/dir/\n**/deep\n[a-z].txt\nfoo\\\nbar?\n"))
		report("helmignore", guarded(func() {
			rs, err := ignore.Parse(bytes.NewReader(gb))
			if err != nil || rs == nil {
				return
			}
			for _, p := range []string{"a.tmp", "dir", "x/deep", "b.txt", ""} {
				fi, _ := os.Stat(tmp)
				rs.Ignore(p, fi)
			}
		}), map[string]any{"helmignore": string(gb)}, "", i)
		// plugin.yaml
		plb := mutateBytes(r, []byte("name: p\nversion: 0.1.0\nusage: u\ncommand: $HELM_PLUGIN_DIR/p\nplatformCommand:\n- os: linux\n  arch: amd64\n  command: echo\n  args: [a]\nhooks:\n  install: echo\ndownloaders:\n- command: dl\n  protocols: [x]\n"))
		pd := filepath.Join(tmp, "plug")
		os.MkdirAll(pd, 0o755)
		os.WriteFile(filepath.Join(pd, "plugin.yaml"), plb, 0o644)
		report("plugin.yaml", guarded(func() { plugin.LoadDir(pd) }), map[string]any{"plugin": string(plb)}, "", i)
		// manifest stream
		mb := string(mutateBytes(r, []byte("kind: A\nmetadata:\n  name: a\n  annotations:\n    helm.sh/hook: pre-install\n    helm.sh/hook-weight: \"3\"\n---\nkind: B\n---\n# c\n")))
		report("manifests", guarded(func() {
			releaseutil.SplitManifests(mb)
			releaseutil.SortManifests(map[string]string{"t/a.yaml": mb}, nil, releaseutil.InstallOrder)
		}), map[string]any{"manifest": mb}, "", i)
	}
	// the witness of the import-values finding, replayed every run
	res := guarded(func() {
		c := &chart.Chart{Metadata: &chart.Metadata{APIVersion: "v2", Name: "c", Version: "0.1.0", Dependencies: []*chart.Dependency{{Name: "sub", Version: "0.1.0", ImportValues: []interface{}{map[string]interface{}{"child": 1, "parent": "p"}}}}}}
		c.AddDependency(&chart.Chart{Metadata: &chart.Metadata{APIVersion: "v2", Name: "sub", Version: "0.1.0"}})
		chartutil.ProcessDependencies(c, map[string]any{})
	})
	report("import-values-witness", res, map[string]any{"import-values": []any{map[string]any{"child": 1, "parent": "p"}}}, "C20:import-values-type-assertion", -1)
	// recursion that no recover can catch (a Go stack overflow is fatal): run in a child process
	fatalProbes(rep, tmp, seed)
	rep.Write(out, nil)
}

// ---- probes that could end in a fatal error (stack exhaustion, out of memory): child processes ----

type fatalProbe struct {
	Name      string            `json:"name"`
	Templates map[string]string `json:"templates"`
	Values    map[string]any    `json:"values"`
}

func init() { subs["crashchild"] = crashChild }

// crashChild renders the probe given in the replay argument and says that it returned.
func crashChild(seed uint64, n int, tier string, out string, replay string) {
	stackMB := 96 // a runaway recursion ends in seconds instead of filling a gigabyte
	if v, err := strconv.Atoi(os.Getenv("CRASHCHILD_STACK_MB")); err == nil && v > 0 {
		stackMB = v
	}
	debug.SetMaxStack(stackMB << 20)
	var p fatalProbe
	b, _ := os.ReadFile(replay)
	json.Unmarshal(b, &p)
	c := &chart.Chart{Metadata: &chart.Metadata{APIVersion: "v2", Name: "p", Version: "0.1.0"}}
	for name, data := range p.Templates {
		c.Templates = append(c.Templates, &chart.File{Name: name, Data: []byte(data)})
	}
	vals, err := chartutil.ToRenderValues(c, p.Values, chartutil.ReleaseOptions{Name: "r", Namespace: "n"}, nil)
	var rendered map[string]string
	if err == nil {
		rendered, err = engine.Render(c, vals)
	}
	fmt.Printf("RETURNED err=%v\n", err != nil)
	res := map[string]any{"out": rendered, "err": ""}
	if err != nil {
		res["err"] = err.Error()
	}
	b, _ = json.Marshal(res)
	fmt.Printf("RESULT %s\n", b)
}

func fatalProbes(rep *Report, tmp string, seed uint64) {
	deep := func(n int) map[string]any {
		m := map[string]any{"leaf": "x"}
		for i := 0; i < n; i++ {
			m = map[string]any{"n": m}
		}
		return m
	}
	probes := []fatalProbe{
		{Name: "include-self", Templates: map[string]string{"templates/a.yaml": `{{ define "loop" }}{{ include "loop" . }}{{ end }}v: {{ include "loop" . }}`}},
		{Name: "include-tpl-include", Templates: map[string]string{"templates/a.yaml": `{{ define "loop" }}{{ tpl .Values.text . }}{{ end }}v: {{ include "loop" . }}`}, Values: map[string]any{"text": `{{ include "loop" . }}`}},
		{Name: "tpl-self", Templates: map[string]string{"templates/a.yaml": `v: {{ tpl .Values.text . }}`}, Values: map[string]any{"text": `{{ tpl .Values.text . }}`}},
		{Name: "two-templates-mutual", Templates: map[string]string{"templates/a.yaml": `{{ define "a" }}{{ include "b" . }}{{ end }}{{ define "b" }}{{ tpl "{{ include \"a\" . }}" . }}{{ end }}v: {{ include "a" . }}`}},
		{Name: "deep-values-toYaml", Templates: map[string]string{"templates/a.yaml": `v: {{ toYaml .Values | nindent 2 }}`}, Values: deep(3000)},
	}
	self, _ := os.Executable()
	for _, p := range probes {
		f := filepath.Join(tmp, "probe-"+p.Name+".json")
		b, _ := json.Marshal(p)
		os.WriteFile(f, b, 0o644)
		ctx, cancel := context.WithTimeout(context.Background(), 120*time.Second)
		cmd := exec.CommandContext(ctx, self, "crashchild", "-replay", f)
		outb, err := cmd.CombinedOutput()
		cancel()
		returned := strings.Contains(string(outb), "RETURNED err=")
		rep.H("fatal-probe:" + p.Name + ":" + map[bool]string{true: "returned", false: "DIED"}[returned && err == nil])
		rep.Count(map[string]any{"fatal-probe": p.Name}, true)
		if !returned || err != nil {
			tail := string(outb)
			if i := strings.Index(tail, "fatal error"); i >= 0 {
				tail = tail[i:]
			}
			rep.Issue(Issue{Kind: "monitor", Fingerprint: "C20:fatal:" + p.Name, What: "rendering did not return: the process died (" + fmt.Sprint(err) + "): " + trunc(tail, 200), Case: p.Name, Seed: seed, Index: -1})
		}
	}
}
