package main

import (
	"go/ast"
	"strings"
)

// skeleton: the effect skeleton of a function -- in source order, the storage / cluster / hook calls
// and the status assignments of its body.  It is positional (not a control-flow graph): moving a
// call or an assignment across another one changes the list, and that is what the theorems that
// compare it with the expected list notice.
var skeletonCalls = map[string]bool{
	"execHook": true, "Create": true, "Update": true, "UpdateThreeWayMerge": true, "Delete": true,
	"Wait": true, "WaitWithJobs": true, "WaitForDelete": true, "recordRelease": true,
	"failRelease": true, "failRollback": true, "existingResourceConflict": true, "requireAdoption": true, "installCRDs": true,
	"deleteRelease": true, "purgeReleases": true, "replaceRelease": true, "performInstallCtx": true,
	"performInstall": true, "performUpgrade": true, "releasingUpgrade": true, "performRollback": true,
	"Last": true, "Deployed": true, "History": true, "Get": true, "IsReachable": true,
	"reuseValues": true, "availableName": true, "isDryRun": true,
	"deleteHookByPolicy": true, "deleteHooksByPolicy": true, "WatchUntilReady": true,
}

func selPath(e ast.Expr) string {
	switch x := e.(type) {
	case *ast.Ident:
		return x.Name
	case *ast.SelectorExpr:
		return selPath(x.X) + "." + x.Sel.Name
	case *ast.CallExpr:
		return selPath(x.Fun) + "()"
	case *ast.TypeAssertExpr:
		return selPath(x.X)
	case *ast.ParenExpr:
		return selPath(x.X)
	}
	return "?"
}

func skeleton(fd *ast.FuncDecl) []string {
	var out []string
	if fd == nil || fd.Body == nil {
		return out
	}
	ast.Inspect(fd.Body, func(n ast.Node) bool {
		switch x := n.(type) {
		case *ast.CallExpr:
			name := ""
			switch f := x.Fun.(type) {
			case *ast.SelectorExpr:
				name = f.Sel.Name
			case *ast.Ident:
				name = f.Name
			}
			if !skeletonCalls[name] {
				return true
			}
			p := selPath(x.Fun)
			// keep the receiver's last two components: cfg.Releases.Create, cfg.KubeClient.Update, waiter.Wait
			parts := strings.Split(p, ".")
			if len(parts) > 2 {
				parts = parts[len(parts)-2:]
			}
			item := strings.Join(parts, ".")
			if (name == "execHook" || name == "deleteHookByPolicy" || name == "deleteHooksByPolicy") && len(x.Args) >= 2 {
				item += ":" + strings.TrimPrefix(selPath(x.Args[1]), "release.")
			}
			if name == "Get" && !strings.Contains(p, "Releases") {
				return true
			}
			out = append(out, item)
		case *ast.AssignStmt:
			if len(x.Lhs) == 1 && len(x.Rhs) == 1 {
				if strings.HasSuffix(selPath(x.Lhs[0]), ".Info.Status") {
					lhs := strings.Split(selPath(x.Lhs[0]), ".")
					out = append(out, "set "+lhs[0]+" "+strings.TrimPrefix(selPath(x.Rhs[0]), "release."))
				}
			}
		}
		return true
	})
	return out
}

func emitSkeletons() {
	inst := parse("pkg/action/install.go")
	upg := parse("pkg/action/upgrade.go")
	rb := parse("pkg/action/rollback.go")
	un := parse("pkg/action/uninstall.go")
	hk := parse("pkg/action/hooks.go")
	emitList("skelInstallRun", skeleton(funcDecl(inst, "Install", "RunWithContext")))
	emitList("skelInstallPerform", skeleton(funcDecl(inst, "Install", "performInstall")))
	emitList("skelInstallFail", skeleton(funcDecl(inst, "Install", "failRelease")))
	emitList("skelUpgradePrepare", skeleton(funcDecl(upg, "Upgrade", "prepareUpgrade")))
	emitList("skelUpgradePerform", skeleton(funcDecl(upg, "Upgrade", "performUpgrade")))
	emitList("skelUpgradeReleasing", skeleton(funcDecl(upg, "Upgrade", "releasingUpgrade")))
	emitList("skelUpgradeFail", skeleton(funcDecl(upg, "Upgrade", "failRelease")))
	emitList("skelRollbackPrepare", skeleton(funcDecl(rb, "Rollback", "prepareRollback")))
	emitList("skelRollbackPerform", skeleton(funcDecl(rb, "Rollback", "performRollback")))
	emitList("skelRollbackFail", skeleton(funcDecl(rb, "Rollback", "failRollback")))
	emitList("skelUninstallRun", skeleton(funcDecl(un, "Uninstall", "Run")))
	emitList("skelExecHook", skeleton(funcDecl(hk, "Configuration", "execHook")))
}
