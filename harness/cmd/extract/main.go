// extract: regenerates /verif/lean/Helm/Gen/Tables.lean from /repo's Go source (go/ast only,
// no helm import, so it works on any tree that parses).
//
// usage: extract [-repo /repo] [-out file]
package main

import (
	"flag"
	"fmt"
	"go/ast"
	"go/parser"
	"go/token"
	"os"
	"path/filepath"
	"sort"
	"strconv"
	"strings"
)

var repo string
var fset = token.NewFileSet()
var problems []string

func problem(f string, a ...any) { problems = append(problems, fmt.Sprintf(f, a...)) }

func parse(rel string) *ast.File {
	f, err := parser.ParseFile(fset, filepath.Join(repo, rel), nil, parser.ParseComments)
	if err != nil {
		problem("parse %s: %v", rel, err)
		return &ast.File{Name: ast.NewIdent("missing")}
	}
	return f
}

// string constants (and untyped int constants as decimal strings) declared at top level of a file.
func consts(f *ast.File) map[string]string {
	out := map[string]string{}
	for _, d := range f.Decls {
		g, ok := d.(*ast.GenDecl)
		if !ok || (g.Tok != token.CONST && g.Tok != token.VAR) {
			continue
		}
		for _, s := range g.Specs {
			vs := s.(*ast.ValueSpec)
			for i, n := range vs.Names {
				if i < len(vs.Values) {
					if v, ok := litString(vs.Values[i], out); ok {
						out[n.Name] = v
					}
				}
			}
		}
	}
	return out
}

// evaluates string literals, identifiers of known constants, X.String(), pkg.Const, T("lit"), a + b.
func litString(e ast.Expr, env map[string]string) (string, bool) {
	switch x := e.(type) {
	case *ast.BasicLit:
		if x.Kind == token.STRING {
			s, err := strconv.Unquote(x.Value)
			return s, err == nil
		}
		if x.Kind == token.INT {
			return x.Value, true
		}
	case *ast.Ident:
		v, ok := env[x.Name]
		return v, ok
	case *ast.SelectorExpr:
		v, ok := env[x.Sel.Name]
		return v, ok
	case *ast.CallExpr:
		if sel, ok := x.Fun.(*ast.SelectorExpr); ok && sel.Sel.Name == "String" && len(x.Args) == 0 {
			return litString(sel.X, env)
		}
		if len(x.Args) == 1 {
			return litString(x.Args[0], env)
		}
	case *ast.BinaryExpr:
		if x.Op == token.ADD {
			a, ok1 := litString(x.X, env)
			b, ok2 := litString(x.Y, env)
			return a + b, ok1 && ok2
		}
		if x.Op == token.MUL {
			a, ok1 := litString(x.X, env)
			b, ok2 := litString(x.Y, env)
			ai, e1 := strconv.ParseInt(a, 0, 64)
			bi, e2 := strconv.ParseInt(b, 0, 64)
			if ok1 && ok2 && e1 == nil && e2 == nil {
				return strconv.FormatInt(ai*bi, 10), true
			}
		}
	case *ast.ParenExpr:
		return litString(x.X, env)
	}
	return "", false
}

func topVar(f *ast.File, name string) ast.Expr {
	for _, d := range f.Decls {
		g, ok := d.(*ast.GenDecl)
		if !ok {
			continue
		}
		for _, s := range g.Specs {
			if vs, ok := s.(*ast.ValueSpec); ok {
				for i, n := range vs.Names {
					if n.Name == name && i < len(vs.Values) {
						return vs.Values[i]
					}
				}
			}
		}
	}
	problem("variable %s not found", name)
	return nil
}

func stringList(e ast.Expr, env map[string]string, what string) []string {
	cl, ok := e.(*ast.CompositeLit)
	if !ok {
		problem("%s: not a composite literal", what)
		return nil
	}
	var out []string
	for _, el := range cl.Elts {
		s, ok := litString(el, env)
		if !ok {
			problem("%s: element not a constant string", what)
			continue
		}
		out = append(out, s)
	}
	return out
}

func stringMap(e ast.Expr, env map[string]string, what string) [][2]string {
	cl, ok := e.(*ast.CompositeLit)
	if !ok {
		problem("%s: not a composite literal", what)
		return nil
	}
	var out [][2]string
	for _, el := range cl.Elts {
		kv, ok := el.(*ast.KeyValueExpr)
		if !ok {
			problem("%s: element not key/value", what)
			continue
		}
		k, ok1 := litString(kv.Key, env)
		v, ok2 := litString(kv.Value, env)
		if !ok1 || !ok2 {
			problem("%s: entry not constant", what)
			continue
		}
		out = append(out, [2]string{k, v})
	}
	sort.Slice(out, func(i, j int) bool { return out[i][0] < out[j][0] })
	return out
}

func funcDecl(f *ast.File, recv, name string) *ast.FuncDecl {
	for _, d := range f.Decls {
		fd, ok := d.(*ast.FuncDecl)
		if !ok || fd.Name.Name != name {
			continue
		}
		r := ""
		if fd.Recv != nil && len(fd.Recv.List) > 0 {
			t := fd.Recv.List[0].Type
			if st, ok := t.(*ast.StarExpr); ok {
				t = st.X
			}
			if id, ok := t.(*ast.Ident); ok {
				r = id.Name
			}
		}
		if r == recv {
			return fd
		}
	}
	problem("func %s.%s not found", recv, name)
	return nil
}

// ---------- Lean emission ----------

var out strings.Builder

func q(s string) string {
	var b strings.Builder
	b.WriteByte('"')
	for _, c := range s {
		switch {
		case c == '"':
			b.WriteString("\\\"")
		case c == '\\':
			b.WriteString("\\\\")
		case c == '\n':
			b.WriteString("\\n")
		case c == '\t':
			b.WriteString("\\t")
		case c < 32 || c == 127:
			fmt.Fprintf(&b, "\\x%02x", c)
		default:
			b.WriteRune(c)
		}
	}
	b.WriteByte('"')
	return b.String()
}

func emitList(name string, xs []string) {
	qs := make([]string, len(xs))
	for i, x := range xs {
		qs[i] = q(x)
	}
	fmt.Fprintf(&out, "def %s : List String := [%s]\n", name, strings.Join(qs, ", "))
}
func emitPairs(name string, xs [][2]string) {
	qs := make([]string, len(xs))
	for i, x := range xs {
		qs[i] = "(" + q(x[0]) + ", " + q(x[1]) + ")"
	}
	fmt.Fprintf(&out, "def %s : List (String × String) := [%s]\n", name, strings.Join(qs, ", "))
}
func emitStr(name, v string) { fmt.Fprintf(&out, "def %s : String := %s\n", name, q(v)) }
func emitNat(name, v string) {
	if _, err := strconv.ParseUint(v, 0, 64); err != nil {
		problem("%s: %q is not a natural number", name, v)
		v = "0"
	}
	n, _ := strconv.ParseUint(v, 0, 64)
	fmt.Fprintf(&out, "def %s : Nat := %d\n", name, n)
}

func need(env map[string]string, k string) string {
	v, ok := env[k]
	if !ok {
		problem("constant %s not found", k)
	}
	return v
}

func main() {
	flag.StringVar(&repo, "repo", "/repo", "helm source tree")
	outPath := flag.String("out", "/verif/lean/Helm/Gen/Tables.lean", "output file")
	flag.Parse()

	out.WriteString("-- GENERATED by harness/cmd/extract from the Go source of helm (do not edit by hand).\nnamespace Helm.Gen\n")

	// kind orders
	ks := parse("pkg/release/util/kind_sorter.go")
	emitList("installOrder", stringList(topVar(ks, "InstallOrder"), nil, "InstallOrder"))
	emitList("uninstallOrder", stringList(topVar(ks, "UninstallOrder"), nil, "UninstallOrder"))

	// hook constants and the events table
	hk := consts(parse("pkg/release/v1/hook.go"))
	ms := parse("pkg/release/util/manifest_sorter.go")
	emitPairs("hookEvents", stringMap(topVar(ms, "events"), hk, "events"))
	emitStr("hookAnnotation", need(hk, "HookAnnotation"))
	emitStr("hookWeightAnnotation", need(hk, "HookWeightAnnotation"))
	emitStr("hookDeleteAnnotation", need(hk, "HookDeleteAnnotation"))
	emitStr("hookOutputLogAnnotation", need(hk, "HookOutputLogAnnotation"))
	emitStr("hookSucceeded", need(hk, "HookSucceeded"))
	emitStr("hookFailed", need(hk, "HookFailed"))
	emitStr("hookBeforeHookCreation", need(hk, "HookBeforeHookCreation"))

	extra()

	out.WriteString("end Helm.Gen\n")
	if len(problems) > 0 {
		// keep the file well-formed Lean but make the obligations fail visibly
		fmt.Fprintf(&out, "\n-- extraction problems:\n")
		for _, p := range problems {
			fmt.Fprintf(&out, "-- %s\n", p)
			fmt.Fprintln(os.Stderr, "extract:", p)
		}
	}
	old, _ := os.ReadFile(*outPath)
	if string(old) != out.String() {
		if err := os.WriteFile(*outPath, []byte(out.String()), 0o644); err != nil {
			fmt.Fprintln(os.Stderr, err)
			os.Exit(2)
		}
		fmt.Println("extract: tables changed, rewritten")
	} else {
		fmt.Println("extract: tables unchanged")
	}
	if len(problems) > 0 {
		os.Exit(3)
	}
}
