package main

import (
	"bytes"
	"fmt"
	"go/ast"
	"go/printer"
	"go/token"
	"sort"
	"strings"
)

func exprText(e ast.Expr) string {
	var b bytes.Buffer
	printer.Fprint(&b, token.NewFileSet(), e)
	return b.String()
}

// extra emits the facts beyond the C08 tables; extended property by property.
func extra() {
	// strvals limits
	sv := consts(parse("pkg/strvals/parser.go"))
	emitNat("maxIndex", need(sv, "MaxIndex"))
	emitNat("maxNestedNameLevel", need(sv, "MaxNestedNameLevel"))
	// archive size limits
	ar := consts(parse("pkg/chart/v2/loader/archive.go"))
	emitNat("maxDecompressedChartSize", need(ar, "MaxDecompressedChartSize"))
	emitNat("maxDecompressedFileSize", need(ar, "MaxDecompressedFileSize"))
	// template function map: functions removed from sprig, functions added, DNS stub guard
	fm := funcDecl(parse("pkg/engine/funcs.go"), "", "funcMap")
	var deleted, added []string
	if fm != nil && fm.Body != nil {
		ast.Inspect(fm.Body, func(n ast.Node) bool {
			switch x := n.(type) {
			case *ast.CallExpr:
				if id, ok := x.Fun.(*ast.Ident); ok && id.Name == "delete" && len(x.Args) == 2 {
					if s, ok := litString(x.Args[1], nil); ok {
						deleted = append(deleted, s)
					}
				}
			case *ast.CompositeLit:
				if sel, ok := x.Type.(*ast.SelectorExpr); ok && sel.Sel.Name == "FuncMap" {
					for _, el := range x.Elts {
						if kv, ok := el.(*ast.KeyValueExpr); ok {
							if s, ok := litString(kv.Key, nil); ok {
								added = append(added, s)
							}
						}
					}
				}
			}
			return true
		})
	}
	sort.Strings(deleted)
	sort.Strings(added)
	emitList("sprigDeleted", deleted)
	emitList("extraFuncs", added)
	// engine.go: `if !e.EnableDNS { funcMap["getHostByName"] = ... }`
	eng := parse("pkg/engine/engine.go")
	guarded := false
	ast.Inspect(eng, func(n ast.Node) bool {
		if is, ok := n.(*ast.IfStmt); ok {
			if un, ok := is.Cond.(*ast.UnaryExpr); ok && un.Op.String() == "!" {
				if sel, ok := un.X.(*ast.SelectorExpr); ok && sel.Sel.Name == "EnableDNS" {
					for _, st := range is.Body.List {
						if as, ok := st.(*ast.AssignStmt); ok && len(as.Lhs) == 1 {
							if ix, ok := as.Lhs[0].(*ast.IndexExpr); ok {
								if s, ok := litString(ix.Index, nil); ok && s == "getHostByName" {
									guarded = true
								}
							}
						}
					}
				}
			}
		}
		return true
	})
	// ... and that `if` is a statement of initFunMap's body itself (not the else-branch of another test)
	direct := false
	if ifm := funcDecl(eng, "Engine", "initFunMap"); ifm != nil && ifm.Body != nil {
		for _, st := range ifm.Body.List {
			if is, ok := st.(*ast.IfStmt); ok {
				if un, ok := is.Cond.(*ast.UnaryExpr); ok && un.Op.String() == "!" {
					if sel, ok := un.X.(*ast.SelectorExpr); ok && sel.Sel.Name == "EnableDNS" {
						direct = true
					}
				}
			}
		}
	}
	fmt.Fprintf(&out, "def dnsStubbedUnlessEnabled : Bool := %v\n", guarded && direct)
	// engine.go render: what the parse loop and the execute loop range over, and where that comes from
	rf := funcDecl(eng, "Engine", "render")
	var loops []string
	keysFrom := ""
	if rf != nil && rf.Body != nil {
		ast.Inspect(rf.Body, func(n ast.Node) bool {
			switch x := n.(type) {
			case *ast.RangeStmt:
				does := ""
				ast.Inspect(x.Body, func(m ast.Node) bool {
					if c, ok := m.(*ast.CallExpr); ok {
						if sel, ok := c.Fun.(*ast.SelectorExpr); ok && (sel.Sel.Name == "Parse" || sel.Sel.Name == "ExecuteTemplate") {
							does = sel.Sel.Name
						}
					}
					return true
				})
				if does != "" {
					name := "?"
					if id, ok := x.X.(*ast.Ident); ok {
						name = id.Name
					}
					loops = append(loops, does+":"+name)
				}
			case *ast.AssignStmt:
				if len(x.Lhs) == 1 && len(x.Rhs) == 1 {
					if id, ok := x.Lhs[0].(*ast.Ident); ok && id.Name == "keys" {
						if c, ok := x.Rhs[0].(*ast.CallExpr); ok {
							if f, ok := c.Fun.(*ast.Ident); ok {
								keysFrom = f.Name
							}
						}
					}
				}
			}
			return true
		})
	}
	emitList("renderLoops", loops)
	emitStr("renderKeysFrom", keysFrom)
	// kube/client.go batchPerform: what the batches are keyed by, and that the wait sits under the key change
	bp := funcDecl(parse("pkg/kube/client.go"), "", "batchPerform")
	batchKey, waitsOnChange, addBeforeGo := "", false, false
	if bp != nil && bp.Body != nil {
		ast.Inspect(bp.Body, func(n ast.Node) bool {
			switch x := n.(type) {
			case *ast.AssignStmt:
				if len(x.Lhs) == 1 && len(x.Rhs) == 1 {
					if id, ok := x.Lhs[0].(*ast.Ident); ok && id.Name == "currentKind" {
						batchKey = exprText(x.Rhs[0])
					}
				}
			case *ast.IfStmt:
				if be, ok := x.Cond.(*ast.BinaryExpr); ok && be.Op.String() == "!=" && exprText(be.X) == "kind" && exprText(be.Y) == "currentKind" {
					for _, st := range x.Body.List {
						if es, ok := st.(*ast.ExprStmt); ok && exprText(es.X) == "wg.Wait()" {
							waitsOnChange = true
						}
					}
				}
			case *ast.RangeStmt:
				seenAdd := false
				for _, st := range x.Body.List {
					if es, ok := st.(*ast.ExprStmt); ok && exprText(es.X) == "wg.Add(1)" {
						seenAdd = true
					}
					if _, ok := st.(*ast.GoStmt); ok && seenAdd {
						addBeforeGo = true
					}
				}
			}
			return true
		})
	}
	emitStr("batchKey", batchKey)
	fmt.Fprintf(&out, "def batchWaitsOnKeyChange : Bool := %v\n", waitsOnChange)
	fmt.Fprintf(&out, "def batchAddsBeforeGo : Bool := %v\n", addBeforeGo)
	// engine.go recursion guard: the limit, whether tpl hands the counters it was given to the include and
	// tpl closures of its clone (and initFunMap one map to both), whether tpl counts its own nesting
	emitNat("recursionMaxNums", need(consts(eng), "recursionMaxNums"))
	shares, counts := false, false
	secondArgs := func(fd *ast.FuncDecl) []string {
		var out []string
		if fd == nil || fd.Body == nil {
			return out
		}
		ast.Inspect(fd.Body, func(n ast.Node) bool {
			if c, ok := n.(*ast.CallExpr); ok {
				if id, ok := c.Fun.(*ast.Ident); ok && (id.Name == "includeFun" || id.Name == "tplFun") && len(c.Args) >= 2 {
					out = append(out, id.Name+":"+exprText(c.Args[1]))
				}
			}
			return true
		})
		sort.Strings(out)
		return out
	}
	tf := funcDecl(eng, "", "tplFun")
	if tf != nil && tf.Type.Params != nil && len(tf.Type.Params.List) >= 2 && len(tf.Type.Params.List[1].Names) == 1 {
		pn := tf.Type.Params.List[1].Names[0].Name
		a := secondArgs(tf)
		b := secondArgs(funcDecl(eng, "Engine", "initFunMap"))
		shares = len(a) == 2 && a[0] == "includeFun:"+pn && a[1] == "tplFun:"+pn &&
			len(b) == 2 && b[0][len("includeFun:"):] == b[1][len("tplFun:"):]
		guard, inc := false, false
		ast.Inspect(tf.Body, func(n ast.Node) bool {
			switch x := n.(type) {
			case *ast.IfStmt:
				if be, ok := x.Cond.(*ast.BinaryExpr); ok && be.Op.String() == ">" && exprText(be.Y) == "recursionMaxNums" {
					if ix, ok := be.X.(*ast.IndexExpr); ok && exprText(ix.X) == pn {
						guard = true
					}
				}
			case *ast.IncDecStmt:
				if ix, ok := x.X.(*ast.IndexExpr); ok && exprText(ix.X) == pn && x.Tok.String() == "++" {
					inc = true
				}
			}
			return true
		})
		counts = guard && inc
	}
	fmt.Fprintf(&out, "def tplSharesCounters : Bool := %v\n", shares)
	fmt.Fprintf(&out, "def tplCountsNesting : Bool := %v\n", counts)
	// dry-run spellings accepted by Install.isDryRun / Upgrade.isDryRun, and the guard of the CRD block
	spellings := func(file, recv string) []string {
		var out []string
		fd := funcDecl(parse(file), recv, "isDryRun")
		if fd != nil && fd.Body != nil {
			ast.Inspect(fd.Body, func(n ast.Node) bool {
				if be, ok := n.(*ast.BinaryExpr); ok && be.Op.String() == "==" {
					if sel, ok := be.X.(*ast.SelectorExpr); ok && sel.Sel.Name == "DryRunOption" {
						if s, ok := litString(be.Y, nil); ok {
							out = append(out, s)
						}
					}
				}
				return true
			})
		}
		return out
	}
	emitList("installDryRunSpellings", spellings("pkg/action/install.go", "Install"))
	emitList("upgradeDryRunSpellings", spellings("pkg/action/upgrade.go", "Upgrade"))
	crdCond := ""
	inst := funcDecl(parse("pkg/action/install.go"), "Install", "RunWithContext")
	if inst != nil && inst.Body != nil {
		ast.Inspect(inst.Body, func(n ast.Node) bool {
			is, ok := n.(*ast.IfStmt)
			if !ok || is.Init == nil {
				return true
			}
			as, ok := is.Init.(*ast.AssignStmt)
			if !ok || len(as.Lhs) != 1 {
				return true
			}
			if id, ok := as.Lhs[0].(*ast.Ident); !ok || id.Name != "crds" {
				return true
			}
			for _, st := range is.Body.List {
				if inner, ok := st.(*ast.IfStmt); ok {
					crdCond = exprText(inner.Cond)
					break
				}
			}
			return false
		})
	}
	emitStr("crdBailCondition", crdCond)
	// flag forwarding between actions: what `helm upgrade --install` hands to the install it falls back to, what a
	// failed atomic install hands to its uninstall, and what a failed atomic upgrade hands to its rollback
	fields := func(file, recv, fn, target string) [][2]string {
		var out [][2]string
		var root ast.Node = parse(file)
		if fn != "" {
			fd := funcDecl(parse(file), recv, fn)
			if fd == nil || fd.Body == nil {
				problem("%s: function %s not found", file, fn)
				return nil
			}
			root = fd.Body
		}
		ast.Inspect(root, func(n ast.Node) bool {
			as, ok := n.(*ast.AssignStmt)
			if !ok || len(as.Lhs) != 1 || len(as.Rhs) != 1 {
				return true
			}
			sel, ok := as.Lhs[0].(*ast.SelectorExpr)
			if !ok {
				return true
			}
			if id, ok := sel.X.(*ast.Ident); ok && id.Name == target {
				out = append(out, [2]string{sel.Sel.Name, exprText(as.Rhs[0])})
			}
			return true
		})
		return out
	}
	emitPairs("upgradeInstallForwards", fields("pkg/cmd/upgrade.go", "", "", "instClient"))
	emitPairs("atomicUninstallFields", fields("pkg/action/install.go", "Install", "failRelease", "uninstall"))
	emitPairs("atomicRollbackFields", fields("pkg/action/upgrade.go", "Upgrade", "failRelease", "rollin"))
	// release/v1/status.go: the statuses IsPending counts as an operation in flight (the pessimistic lock of upgrade)
	var pend []string
	if fd := funcDecl(parse("pkg/release/v1/status.go"), "Status", "IsPending"); fd != nil && fd.Body != nil {
		ast.Inspect(fd.Body, func(n ast.Node) bool {
			if be, ok := n.(*ast.BinaryExpr); ok && be.Op.String() == "==" {
				pend = append(pend, exprText(be.Y))
			}
			return true
		})
	} else {
		problem("Status.IsPending not found")
	}
	sort.Strings(pend)
	emitList("pendingStatuses", pend)
	// storage.go: what Create hands to the pruning and where the pruning loop stops
	stg := parse("pkg/storage/storage.go")
	callArgs, stopCond := "", ""
	if fd := funcDecl(stg, "Storage", "Create"); fd != nil && fd.Body != nil {
		ast.Inspect(fd.Body, func(n ast.Node) bool {
			if c, ok := n.(*ast.CallExpr); ok {
				if sel, ok := c.Fun.(*ast.SelectorExpr); ok && sel.Sel.Name == "removeLeastRecent" {
					var as []string
					for _, a := range c.Args {
						as = append(as, exprText(a))
					}
					callArgs = strings.Join(as, ", ")
				}
			}
			return true
		})
	}
	if fd := funcDecl(stg, "Storage", "removeLeastRecent"); fd != nil && fd.Body != nil {
		ast.Inspect(fd.Body, func(n ast.Node) bool {
			if rs, ok := n.(*ast.RangeStmt); ok && stopCond == "" {
				for _, st := range rs.Body.List {
					if is, ok := st.(*ast.IfStmt); ok && len(is.Body.List) == 1 {
						if br, ok := is.Body.List[0].(*ast.BranchStmt); ok && br.Tok.String() == "break" {
							stopCond = exprText(is.Cond)
						}
					}
				}
			}
			return true
		})
	}
	emitStr("pruneCallArgs", callArgs)
	emitStr("pruneStopCondition", stopCond)
	// the command line: which flag is bound to which field of the action (f.XxxVar(&client.Field, "flag", ...))
	flagBindings := func(file string) [][2]string {
		var out [][2]string
		ast.Inspect(parse(file), func(n ast.Node) bool {
			c, ok := n.(*ast.CallExpr)
			if !ok || len(c.Args) < 2 {
				return true
			}
			sel, ok := c.Fun.(*ast.SelectorExpr)
			if !ok || !strings.Contains(sel.Sel.Name, "Var") {
				return true
			}
			u, ok := c.Args[0].(*ast.UnaryExpr)
			if !ok || u.Op.String() != "&" {
				return true
			}
			if name, ok := litString(c.Args[1], nil); ok {
				out = append(out, [2]string{name, exprText(u.X)})
			}
			return true
		})
		sort.Slice(out, func(i, j int) bool { return out[i][0] < out[j][0] || (out[i][0] == out[j][0] && out[i][1] < out[j][1]) })
		return out
	}
	emitPairs("installFlags", flagBindings("pkg/cmd/install.go"))
	emitPairs("upgradeFlags", flagBindings("pkg/cmd/upgrade.go"))
	emitPairs("rollbackFlags", flagBindings("pkg/cmd/rollback.go"))
	emitPairs("uninstallFlags", flagBindings("pkg/cmd/uninstall.go"))
	emitSkeletons()
	// order in which Options.MergeValues applies the value-flag families
	emitList("valueFlagOrder", rangeOrder(funcDecl(parse("pkg/cli/values/options.go"), "Options", "MergeValues")))
}

// rangeOrder lists, in source order, the fields F for every top-level `for ... range recv.F`
// statement of a function body.
func rangeOrder(fd *ast.FuncDecl) []string {
	var out []string
	if fd == nil || fd.Body == nil {
		return out
	}
	for _, st := range fd.Body.List {
		if rs, ok := st.(*ast.RangeStmt); ok {
			if sel, ok := rs.X.(*ast.SelectorExpr); ok {
				out = append(out, sel.Sel.Name)
			}
		}
	}
	return out
}
