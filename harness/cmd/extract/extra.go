package main

// extra emits the facts beyond the C08 tables; extended property by property.
func extra() {
}
