package main

import "go/ast"

// extra emits the facts beyond the C08 tables; extended property by property.
func extra() {
	// strvals limits
	sv := consts(parse("pkg/strvals/parser.go"))
	emitNat("maxIndex", need(sv, "MaxIndex"))
	emitNat("maxNestedNameLevel", need(sv, "MaxNestedNameLevel"))
	// archive size limits
	ar := consts(parse("pkg/chart/v2/loader/archive.go"))
	emitNat("maxDecompressedChartSize", need(ar, "MaxDecompressedChartSize"))
	emitNat("maxDecompressedFileSize", need(ar, "MaxDecompressedFileSize"))
	// order in which Options.MergeValues applies the value-flag families
	emitList("valueFlagOrder", rangeOrder(funcDecl(parse("pkg/cli/values/options.go"), "Options", "MergeValues")))
}

// rangeOrder lists, in source order, the fields F for every top-level `for ... range recv.F`
// statement of a function body.
func rangeOrder(fd *ast.FuncDecl) []string {
	var out []string
	if fd == nil || fd.Body == nil {
		return out
	}
	for _, st := range fd.Body.List {
		if rs, ok := st.(*ast.RangeStmt); ok {
			if sel, ok := rs.X.(*ast.SelectorExpr); ok {
				out = append(out, sel.Sel.Name)
			}
		}
	}
	return out
}
