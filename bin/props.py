# Per-property configuration of the runner.
# corr: list of (sub-command, {tier: number of cases})
PROPS = {
    "C08": {
        "corr": [("manifests", {"quick": 1500, "thorough": 30000})],
        "trusted_base": [
            "modelled, not verified: YAML decoding of document heads (sigs.k8s.io/yaml; heads are supplied to the model by the harness), Go regexp engine (the separator regexp is re-implemented by hand and tied by correspondence), text/template (literal templates only), sync.WaitGroup semantics (barrier model)",
        ],
        "assumptions": ["strings.ToLower is modelled for ASCII only; cases with non-ASCII annotation values are skipped and counted"],
    },
}
