# Per-property configuration of the runner.
# corr: list of (sub-command, {tier: number of cases})
PROPS = {
    "C04": {
        "corr": [("values", {"quick": 1500, "thorough": 30000}), ("strvals", {"quick": 3000, "thorough": 60000})],
        "trusted_base": [
            "modelled, not verified: YAML/JSON decoding of value files (the harness hands decoded trees to the model), the key=value form of --set-json (encoding/json decoder), copystructure deep copies (the model is value-semantic; aliasing is observed by before/after snapshots in the correspondence, not proved)",
        ],
        "assumptions": ["numbers are opaque atoms in the model", "strings.EqualFold modelled for the words true/false/null/0 (ASCII fold plus U+017F)"],
    },
    "C10": {
        "corr": [("storage", {"quick": 1200, "thorough": 25000}), ("flagcli", {"quick": 1, "thorough": 1})],
        "trusted_base": [
            "modelled, not verified: the release body codec (encoding/json + gzip + base64; the harness compares decoded releases and round-trips generated releases), client-go fake clientset (object store and label selectors behind the Secret/ConfigMap drivers), namespaces (one namespace), createdAt/modifiedAt label values",
        ],
        "assumptions": ["refinement theorems for both driver models: Secret/ConfigMap (exact) and memory (answers equal, lists up to order, for calls whose key parses and names the release it comes with -- the guard the counterexample for names containing \".v\" shows to be necessary); all three real drivers are compared step by step with their models and with the spec map"],
    },
    "C14": {
        "corr": [("schema", {"quick": 1200, "thorough": 25000}), ("flagcli", {"quick": 1, "thorough": 1})],
        "trusted_base": [
            'command-line glue: schema-violating values through `helm install`, `helm upgrade --install` and `helm upgrade` are driven by `flagcli` on one fixed chart (integer with minimum); which flag feeds SkipSchemaValidation is a regenerated fact',
            "the validator of one schema is a parameter of the gate theorems; the santhosh-tekuri/jsonschema library is compared with an independent Lean evaluator on the generated schema family only (type, required, enum, numeric bounds, nested properties, additionalProperties:false); $ref, formats, patterns etc. are outside the family",
        ],
        "assumptions": ["'nothing is sent to the cluster or stored' on rejection is checked for the dry-run install path and for real upgrades over the simulated API server (every carry-over mode of the values); the ordering gate-before-writes of the real install is part of the action model (C06/C07)"],
    },
    "C15": {
        "corr": [("chartio", {"quick": 700, "thorough": 15000}), ("ignore", {"quick": 1200, "thorough": 30000})],
        "trusted_base": [
            "modelled, not verified: archive/tar + gzip framing, YAML marshalling of Chart.yaml / Chart.lock and parsing of values.yaml (carried as opaque documents), filepath.Match beyond literals, * and ? (character classes and escapes are outside the .helmignore model and are not generated), the directory walk of sympath.Walk (entries are handed to the model), .tgz sub-charts and Helm-2 requirements files (not generated)",
        ],
        "assumptions": ["the complete round trip load(save c) = c is established by correspondence on generated charts (model writer/loader agree with chartutil.Save / loader.Load on every case, and the loaded chart is compared with the original field by field); the theorems cover, for all names and contents, the name/bytes survival lemmas, the classification and the exact exclusions"],
    },
    "C16": {
        "corr": [("paths", {"quick": 1200, "thorough": 25000})],
        "trusted_base": [
            "modelled, not verified: archive/tar and compress/gzip (entry names and sizes are what the model sees), cyphar/filepath-securejoin and the OS file system incl. symlink resolution (confinement on disk is observed by before/after snapshots of a sandbox, not proved), Go's path.Clean / strings.Split (re-implemented in Lean and compared on every generated name)",
        ],
        "assumptions": ["the tar reader yields exactly the declared number of bytes for an entry (archive/tar's contract)", "TOCTOU races on the destination are outside the model"],
    },
    "C19": {
        "corr": [("creds", {"quick": 600, "thorough": 6000})],
        "trusted_base": [
            "modelled, not verified: net/url parsing (scheme and host:port of every URL are handed to the model), net/http incl. its redirect header policy and proxy handling (all requests are captured by a local proxy via HTTP_PROXY; https is exercised only for the scheme-mismatch decision), TLS options, OCI references",
        ],
        "assumptions": ["a request counts as carrying the repository's credentials when its Authorization header is exactly Basic user:secret"],
    },
    "C17": {
        "corr": [("prov", {"quick": 800, "thorough": 4000})],
        "trusted_base": [
            "parameters of the model, not verified: OpenPGP signature checking and clearsign framing (golang.org/x/crypto/openpgp), SHA-256, YAML parsing of the message block; the corollaries about tampering carry explicit hypotheses (SHA-256 does not collide on the inputs considered; the keyring accepts no other (text, signature) pair) -- 'no accepted mutant' over the generated mutants is a search result of the correspondence, not a theorem",
        ],
        "assumptions": ["sha256 collision-freeness and signature unforgeability are hypotheses of the tamper theorems"],
    },
    "C18": {
        "corr": [("index", {"quick": 1500, "thorough": 30000})],
        "trusted_base": [
            "modelled, not verified: YAML decoding of the index; Masterminds semver parsing (NewVersion, with its coercions) and constraint grammar/check (verdicts are handed to the model per entry; precedence is re-implemented in Lean and compared on all pairs of the version pool); chart.Metadata.Validate (validity of an entry is determined by loading it alone); sort.Sort (unstable: entries of equal precedence are excluded from the generated files); Resolver.Resolve's surrounding I/O (only its selection loop is modelled)",
        ],
        "assumptions": ["no two entries of one chart have equal precedence"],
    },
    "C11": {
        "corr": [("deps", {"quick": 2000, "thorough": 40000}), ("values", {"quick": 900, "thorough": 15000})],
        "trusted_base": [
            "modelled, not verified: semver range match between a dependency entry and the chart in charts/ (harness uses matching versions), import-values entries (none generated; the Values rewrite ProcessDependencies performs without them is modelled), text/template (probe templates only dump .Values)",
        ],
        "assumptions": ["the Lean model is value-semantic: it cannot alias, so every visible effect of Go map/pointer sharing is a model/implementation disagreement"],
    },
    "C05": {
        "corr": [("render", {"quick": 150, "thorough": 3000}), ("manifests", {"quick": 400, "thorough": 8000})],
        "also": ["C08:sort", "C08:render", "C08:model", "C08:split"],
        "trusted_base": [
            "not modelled: Go text/template and sprig execution (ranging over maps is sorted by text/template itself), the JSON-schema compiler's resource loading; determinism of whole renders is observed (repeated, concurrent, changed environment and working directory, archive- vs directory-loaded charts), not proved; proved: the orderings that feed the engine and the manifest do not depend on map iteration order; regenerated: the function-map facts",
        ],
        "assumptions": ["templates of the generated family use no time/random functions (now, randAlpha, uuidv4, genCA ... are classified non-deterministic by design and excluded)"],
    },
    "C20": {
        "corr": [("crash", {"quick": 500, "thorough": 20000}), ("strvals", {"quick": 1500, "thorough": 30000}), ("storage", {"quick": 300, "thorough": 5000}), ("index", {"quick": 400, "thorough": 8000}), ("manifests", {"quick": 300, "thorough": 6000}), ("recursion", {"quick": 120, "thorough": 2500}), ("templatecli", {"quick": 60, "thorough": 600})],
        "trusted_base": [
            '`templatecli`: `helm template` flag combinations in child processes (a panic or fatal error kills the child and is reported); post-renderers and --output-dir are not in the matrix',
            "template recursion: the guard of include/tpl (a counter per template name and one for tpl, shared by every closure of a render) is modelled as a call tree over finitely many counters with the Go stack as fuel; text/template itself, what templates print besides their calls, and `define`s made inside tpl texts are outside the model; the limit and the sharing of the counters are regenerated from engine.go",
            "entry points whose parsing is a library (YAML, JSON, tar/gzip, OpenPGP, text/template, jsonschema) have no Lean model: for them the correspondence is robustness testing under recover + watchdog, labelled so; modelled panic sites: strvals type assertions (with their recover), Secrets/ConfigMaps Get on undecodable records, nil index entries, import-values type assertions",
        ],
        "assumptions": ["hang = no return within 20 s"],
    },
    "C08": {
        "corr": [("manifests", {"quick": 1500, "thorough": 30000}), ("barrier", {"quick": 80, "thorough": 1500}), ("templatecli", {"quick": 60, "thorough": 600})],
        "trusted_base": [
            "modelled, not verified: YAML decoding of document heads (sigs.k8s.io/yaml; heads are supplied to the model by the harness), Go regexp engine (the separator regexp is re-implemented by hand and tied by correspondence), text/template (literal templates only), sync.WaitGroup semantics (barrier model; tied to kube.Client.Create by validating observed arrival/completion sequences of held create requests against the model's `accepts`, and by the regenerated shape of the batchPerform loop)",
        ],
        "assumptions": ["strings.ToLower is modelled for ASCII only; cases with non-ASCII annotation values are skipped and counted"],
    },
    "C01": {
        "corr": [("actions", {"quick": 800, "thorough": 20000})],
        "trusted_base": [
            "modelled, not verified: the cluster (every phase of an operation -- reachability/build/ownership checks, hooks, resource create/update, wait, cleanup, delete -- is a decision ok/fail/crash supplied by the fault plan; the harness injects exactly these decisions through the kube client, waiter and API-server simulator), rendering (a revision's content is an opaque payload number), the storage drivers below the driver.Driver interface (the fault-injecting wrapper sits on top of the real Secret/ConfigMap/memory drivers over client-go fakes; C10 covers them), time stamps, locking (one operation at a time; C09 is about interleavings)",
        ],
        "assumptions": ["charts carry one hook per event (nHooks = 1 in the correspondence; the theorems are for every nHooks)", "crash = process death: every later request and storage call of that operation fails, the next operation starts a fresh Configuration"],
    },
    "C03": {
        "corr": [("actions", {"quick": 800, "thorough": 20000}), ("kube", {"quick": 800, "thorough": 15000}), ("flagcli", {"quick": 1, "thorough": 1})],
        "also": ["C01:model:", "C02:model:"],
        "trusted_base": [
            'command-line glue: `flagcli` runs the real helm commands with the real kube.Client against the simulated API server over HTTP with --wait=legacy; the watcher wait strategy (the default under --atomic) needs a watch stream the simulated server does not offer and is not driven; the field copying between `helm upgrade --install` and its install, and between a failed atomic operation and its repair, is tied by regenerated assignment tables (atomic_glue_forwards_flags)',
            "same model and harness as C01 (ledger model of install/upgrade/rollback/uninstall with a fault plan); containment is monitored on the implementation for every failed operation whose only fault is cluster-side; the cluster side (cleanup-on-fail, the automatic rollback of --atomic) is the cluster model of C02 (upgradeFull) compared with real failed upgrades over the simulated API server",
        ],
        "assumptions": ["a failure = one cluster-side phase failing (or the process dying there) with release storage itself working; storage-write failures are C01's finding success-with-storage-write-failure"],
    },
    "C06": {
        "corr": [("dryrun", {"quick": 1200, "thorough": 30000}), ("actions", {"quick": 500, "thorough": 12000}), ("kube", {"quick": 800, "thorough": 20000}), ("dryruncli", {"quick": 1, "thorough": 1}), ("flagcli", {"quick": 1, "thorough": 1})],
        "also": ["C01:model:", "C02:model:"],
        "trusted_base": [
            "command-line wiring: the real helm template / install / upgrade commands (pkg/cmd, run as cmd/helm runs them, in child processes) are exercised in every dry-run spelling against a recording API server (monitor only, no model: any mutating request, or any request of a client-only template, is a violation); modelled, not verified: post-renderers and CRD directories (the crash/render sweeps of C05/C20 exercise them without a model); observed: request log of the simulated API server and call log of the recording storage wrapper",
        ],
        "assumptions": ["dry-run spellings are those the action structs accept (DryRun bool + DryRunOption client|server|true); reads (GET) are allowed in every mode but client-only"],
    },
    "C02": {
        "corr": [("kube", {"quick": 1500, "thorough": 40000})],
        "trusted_base": [
            "modelled, not verified: the API server (a flat object store: data / labels / annotations maps per object; strategic-merge and JSON-merge patch application are the simulator's, written for these flat objects), client-go's patch computation (strategicpatch.CreateThreeWayMergePatch / jsonpatch.CreateMergePatch run for real in the harness; the model states their effect on flat maps), resource.Builder/Helper, hooks and waiting (C12), CRDs",
        ],
        "assumptions": ["every request is accepted (the property's premise)", "objects are flat; nested fields, lists with merge keys and server-side defaulting are outside the model", "strings.ToLower / TrimSpace of the resource-policy value are modelled for ASCII"],
    },
    "C07": {
        "corr": [("kube", {"quick": 1500, "thorough": 40000}), ("dryrun", {"quick": 800, "thorough": 20000}), ("flagcli", {"quick": 1, "thorough": 1})],
        "also": ["C02:model:", "C06:model:"],
        "trusted_base": [
            "same cluster model and simulator as C02; the record side (no storage write before the ownership check) is the ledger model's pre-flight phase, tied by the kube sub-command's storage write log",
        ],
        "assumptions": ["six ownership states are generated for pre-existing objects: foreign, other release name, same name other namespace, label only, annotations only, correctly owned", "CRDs from crds/ are generated by the dryrun sub-command (the install path creates them before the ownership check: known finding)"],
    },
    "C12": {
        "corr": [("hooks", {"quick": 1200, "thorough": 30000}), ("actions", {"quick": 400, "thorough": 8000}), ("flagcli", {"quick": 1, "thorough": 1})],
        "also": ["C01:model:writes"],
        "trusted_base": [
            "modelled, not verified: the hook list of a release (kinds, weights, events, policies parsed from annotations by SortManifests: C08; the model of execHook is fed with the list the implementation built, the monitors use the generator's own weights), hook readiness (WatchUntilReady is a scripted oracle), log-output policies, CustomResourceDefinition hooks (never deleted: not generated), the API server (a create of an existing object is refused)",
        ],
        "assumptions": ["hook object identity = kind/namespace/name; string comparison of hook names is Lean's String order (code points), which coincides with Go's byte order on UTF-8"],
    },
    "C13": {
        "corr": [("reuse", {"quick": 600, "thorough": 15000}), ("values", {"quick": 600, "thorough": 10000})],
        "also": ["C04:coalesce"],
        "trusted_base": [
            "modelled, not verified: rendering (a probe template prints .Values; text/template and toJson are trusted to print what they are given), the release codec of the storage drivers (C10), charts with dependencies (the chain uses charts without sub-charts: CoalesceValues over chart trees is C11's model), --values/--set parsing (C04); CoalesceTables / CoalesceValues are the value model shared with C04 and C11 and tied there",
        ],
        "assumptions": ["value trees are those of the generator: maps, lists, strings, numbers, booleans, nulls, empty maps"],
    },
    "C09": {
        "corr": [("conc", {"quick": 900, "thorough": 6000}), ("racecheck", {"quick": 2, "thorough": 8})],
        "race_build": True,
        "trusted_base": [
            'history limits: not in the interleaving model; driven as monitor-only cases (every seventh case); the pruning choice is modelled separately (toDeleteBelow) with the bound regenerated from storage.go; two shapes under a history limit are recorded open findings (pruned-revision-reused, loser-not-found)',
            "modelled, not verified: atomicity of one driver call (Create is create-if-absent: the memory driver's mutex, the API server's AlreadyExists for Secrets/ConfigMaps -- here client-go's fake clientset), the goroutine scheduler (the harness imposes the schedule at gates placed before every storage call and the cluster mutation; what happens between two gated calls of one operation is one step), faults and history limits (none in this model: pruning deletes records), install --replace, rollback and uninstall as concurrent parties",
            "freedom from data races is checked by the Go race detector over a storage workload (a short one in the quick tier, a longer one in the thorough tier): testing, not proof",
        ],
        "assumptions": ["the model is compared with the implementation on the serialising backend (Secrets); on the memory backend only the property monitors run, because the memory driver hands out the stored objects themselves (see the known finding)",
                        "well-formedness of the history at quiescence, mutual exclusion of in-flight operations, one-creator-per-revision and losers-touch-nothing are proved for any number of operations, any schedule and any well-formed initial history; the exhaustive kernel evaluation of all 924 interleavings of every pair (and two-preemption schedules of triples) from four histories is kept as an independent check"],
    },
}
