-- Root of the Helm library: imports every property module (and through them models and lemmas).
import Helm.Props.C08
import Helm.Props.C04
import Helm.Props.C11
import Helm.Props.C10
import Helm.Props.C18
import Helm.Props.C16
import Helm.Props.C19
import Helm.Props.C17
import Helm.Props.C15
import Helm.Props.C14
import Helm.Props.C05
import Helm.Props.C20
import Helm.Props.C01
import Helm.Props.C02
import Helm.Props.C03
import Helm.Props.C06
import Helm.Props.C07
