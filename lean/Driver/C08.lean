import Driver.Util
import Helm.Model.Manifest
import Helm.Gen.Tables
import Helm.Spec.Tables
open Lean Helm.Manifest
namespace Driver.C08

def headOfJson (j : Json) : Head :=
  { version := str j "version", kind := str j "kind", name := str j "name",
    annotations := (kvs (obj j "annotations")).map fun (k, v) => (k, asStr v) }

def hookJson (h : Hook) : Json := Json.mkObj [
  ("name", jstr h.name), ("kind", jstr h.kind), ("path", jstr h.path), ("manifest", jchars h.manifest),
  ("events", jlist jstr h.events), ("weight", jstr (toString h.weight)),
  ("deletePolicies", jlist jstr h.deletePolicies), ("logPolicies", jlist jstr h.logPolicies)]

def manifestJson (m : Manifest) : Json := Json.mkObj [
  ("name", jstr m.name), ("content", jchars m.content), ("kind", jstr m.head.kind)]

/-- The driver answers with the *documented* tables (Helm.Spec); the theorems `*_is_spec` show
they are the tables regenerated from the source.  If the source's table changes, that obligation
breaks and the correspondence exhibits a manifest set ordered differently from the documented order. -/
def orderOf (j : Json) : List String :=
  if str j "order" == "uninstall" then Helm.Spec.uninstallOrder else Helm.Spec.installOrder

def run (op : String) (j : Json) : Option Json :=
  match op with
  | "split" => some <| Json.mkObj [("docs", jlist jchars (splitManifests (str j "text").toList))]
  | "sortManifests" =>
    let files := (arr j "files").map fun f => match asArr f with
      | [p, c] => (asStr p, (asStr c).toList)
      | _ => ("", [])
    let heads := kvs (obj j "heads")
    let missing := (docsOf files).filter fun (_, d) => (heads.find? (·.1 == String.ofList d)).isNone
    if !missing.isEmpty then
      some <| Json.mkObj [("error", jstr "head-missing"), ("docs", jlist (fun (_, d) => jchars d) missing)]
    else
      let headOf := fun (d : Str) => match heads.find? (·.1 == String.ofList d) with
        | some (_, h) => headOfJson h
        | none => {}
      let r := sortManifests (orderOf j) Helm.Spec.hookEvents headOf files
      some <| Json.mkObj [("hooks", jlist hookJson r.hooks), ("manifests", jlist manifestJson r.manifests),
        ("dropped", toJson (droppedCount (classifyAll Helm.Spec.hookEvents headOf (docsOf files))))]
  | "renderAssemble" =>
    let files := (arr j "files").map fun f => match asArr f with
      | [p, c] => (asStr p, (asStr c).toList)
      | _ => ("", [])
    let (n, rest) := extractNotesSorted (boolv j "subNotes") (str j "mainNotes") files
    let heads := kvs (obj j "heads")
    let headOf := fun (d : Str) => match heads.find? (·.1 == String.ofList d) with
      | some (_, h) => headOfJson h
      | none => {}
    let r := sortManifests Helm.Spec.installOrder Helm.Spec.hookEvents headOf rest
    some <| Json.mkObj [("manifest", jchars (assemble r.manifests)), ("hooks", jlist hookJson r.hooks), ("notes", jchars n)]
  | "notes" =>
    let files := (arr j "files").map fun f => match asArr f with
      | [p, c] => (asStr p, (asStr c).toList)
      | _ => ("", [])
    let (n, rest) := extractNotesSorted (boolv j "subNotes") (str j "mainNotes") files
    some <| Json.mkObj [("notes", jchars n), ("rest", jlist (fun (p, _) => jstr p) rest)]
  | _ => none

end Driver.C08
