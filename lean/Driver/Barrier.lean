import Driver.Util
import Helm.Model.Barrier
open Lean Helm.Barrier
namespace Driver.Barrier

def run (op : String) (j : Json) : Option Json :=
  match op with
  | "barrierAccepts" =>
    let ks := strs j "kinds"
    let tr : List Ev := (arr j "trace").map fun e =>
      if has e "finish" then Ev.finish (natv e "finish") else Ev.spawn
    some <| Json.mkObj [("accepts", Json.bool (accepts ks tr))]
  | _ => none

end Driver.Barrier
