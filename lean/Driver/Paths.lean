import Driver.Util
import Helm.Model.ArchivePath
open Lean Helm.ArchivePath
namespace Driver.Paths

def run (op : String) (j : Json) : Option Json :=
  match op with
  | "pathClean" => some <| Json.mkObj [("out", jchars (pathClean (str j "s").toList))]
  | "normName" =>
    some <| match normName (str j "name").toList with
      | .ok n => Json.mkObj [("ok", jchars n)]
      | .error e => Json.mkObj [("err", jstr (reprStr e))]
  | "cleanJoin" =>
    some <| match cleanJoinLex (str j "dest").toList with
      | .ok n => Json.mkObj [("ok", jchars n)]
      | .error e => Json.mkObj [("err", jstr (reprStr e))]
  | "sizeLoop" =>
    some <| match sizeLoop (natv j "maxFile") ((arr j "sizes").map fun x => (x.getNat?).toOption.getD 0) (natv j "maxChart") 0 with
      | .accepted n => Json.mkObj [("accepted", Json.bool true), ("read", toJson n)]
      | .rejected n => Json.mkObj [("accepted", Json.bool false), ("read", toJson n)]
  | _ => none

end Driver.Paths
