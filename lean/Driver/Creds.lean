import Driver.Util
import Helm.Model.Creds
open Lean Helm.Creds
namespace Driver.Creds

def toOrigin (j : Json) : Origin := ⟨str j "scheme", str j "host"⟩

def toOpt (j : Json) : Option Opt :=
  if has j "withURL" then some (.withURL (toOrigin (obj j "withURL")))
  else if has j "basicAuth" then some (.basicAuth (str (obj j "basicAuth") "u") (str (obj j "basicAuth") "p"))
  else if has j "passAll" then some (.passAll (boolv j "passAll"))
  else none

def ofOrigin (o : Origin) : Json := Json.mkObj [("scheme", jstr o.scheme), ("host", jstr o.host)]

def ofOpt : Opt → Json
  | .withURL o => Json.mkObj [("withURL", ofOrigin o)]
  | .basicAuth u p => Json.mkObj [("basicAuth", Json.mkObj [("u", jstr u), ("p", jstr p)])]
  | .passAll b => Json.mkObj [("passAll", Json.bool b)]

def toRepo (j : Json) : Option Repo :=
  if j.isNull then none else
  some { url := toOrigin (obj j "url"), user := str j "user", pass := str j "pass", passAll := boolv j "passAll" }

def run (op : String) (j : Json) : Option Json :=
  match op with
  | "sendsAuth" =>
    let opts := applyOpts {} ((arr j "opts").filterMap toOpt)
    some <| Json.mkObj [("sends", Json.bool (sendsAuth opts (toOrigin (obj j "href"))))]
  | "pathOpts" =>
    let user := str j "user"; let pass := str j "pass"; let pa := boolv j "passAll"
    let repoURL := toOrigin (obj j "repoURL"); let chartURL := toOrigin (obj j "chartURL")
    let owner := toRepo (obj j "owner")
    let l := match str j "path" with
      | "locate" => locateChartRepoURL user pass pa repoURL chartURL owner
      | "pull" => pullRepoURL user pass pa chartURL owner
      | "manager" => managerDownload { url := repoURL, user := user, pass := pass, passAll := pa } chartURL owner
      | _ => []
    some <| Json.mkObj [("opts", jlist ofOpt l)]
  | _ => none

end Driver.Creds
