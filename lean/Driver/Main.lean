import Driver.Util
import Driver.C08
import Driver.Values
import Driver.Deps
import Driver.Storage
import Driver.Index
import Driver.Paths
import Driver.Creds
import Driver.Prov
import Driver.ChartIO
import Driver.Schema
import Driver.Render
import Driver.Ledger
import Driver.Cluster
import Driver.Hooks
import Driver.Reuse
import Driver.Ignore
import Driver.Conc
import Driver.Recursion
import Driver.Barrier
open Lean
namespace Driver

def dispatch (j : Json) : Json :=
  let op := str j "op"
  match (C08.run op j <|> Values.run op j <|> Deps.run op j <|> Storage.run op j <|> Index.run op j <|> Paths.run op j <|> Creds.run op j <|> Prov.run op j <|> ChartIO.run op j <|> Schema.run op j <|> Render.run op j <|> Ledger.run op j <|> Cluster.run op j <|> Hooks.run op j <|> Reuse.run op j <|> Ignore.run op j <|> Conc.run op j <|> Recursion.run op j <|> Barrier.run op j) with
  | some r => r
  | none => Json.mkObj [("error", jstr s!"unknown-op {op}")]

partial def loop (hin : IO.FS.Stream) (hout : IO.FS.Stream) : IO Unit := do
  let line ← hin.getLine
  if line.isEmpty then return ()
  let reply := match Json.parse line with
    | .ok j => dispatch j
    | .error e => Json.mkObj [("error", jstr s!"bad-json {e}")]
  hout.putStrLn reply.compress
  hout.flush
  loop hin hout

end Driver

def main : IO Unit := do
  Driver.loop (← IO.getStdin) (← IO.getStdout)
