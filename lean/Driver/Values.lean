import Driver.Util
import Helm.Model.Values
import Helm.Model.Strvals
import Helm.Model.Options
import Helm.Lemmas.StrvalsPath
open Lean Helm.Values
namespace Driver.Values

mutual
  partial def toVal : Json → Val
    | .null => .null
    | .bool b => .bool b
    | .num n => .num (Json.num n).compress
    | .str s => .str s
    | .arr a => .list (toVList a.toList)
    | .obj m => .tbl (toTblL m.toList)
  partial def toVList : List Json → VList
    | [] => .nil
    | x :: r => .cons (toVal x) (toVList r)
  partial def toTblL : List (String × Json) → Tbl
    | [] => .nil
    | (k, v) :: r => .cons k (toVal v) (toTblL r)
end

def toTbl (j : Json) : Tbl := match toVal j with
  | .tbl t => t
  | _ => .nil

mutual
  partial def ofVal : Val → Json
    | .null => .null
    | .bool b => .bool b
    | .num s => (Json.parse s).toOption.getD (.str s)
    | .str s => .str s
    | .list l => .arr (ofVList l).toArray
    | .tbl t => ofTbl t
  partial def ofVList : VList → List Json
    | .nil => []
    | .cons v r => ofVal v :: ofVList r
  partial def ofTbl (t : Tbl) : Json :=
    -- later bindings of a key are shadowed by `get?`; emit the first binding of each key
    let rec go : Tbl → List String → List (String × Json)
      | .nil, _ => []
      | .cons k v r, seen => if seen.contains k then go r seen else (k, ofVal v) :: go r (k :: seen)
    Json.mkObj (go t [])
end

partial def toChart (j : Json) : Chart :=
  let rec deps : List Json → ChartList
    | [] => .nil
    | x :: r => .cons (toChart x) (deps r)
  .mk (str j "name") (toTbl (obj j "values")) (deps (arr j "deps"))

def modeOf (j : Json) : Helm.Strvals.Mode :=
  match str j "mode" with
  | "string" => .string
  | "literal" => .literal
  | "file" => .file ((kvs (obj j "fileContents")).map fun (k, v) => (k, asStr v))
  | _ => .typed

def errName : Option Helm.Strvals.E → String
  | none => "ok"
  | some .eof => "ok"
  | some .err => "err"
  | some .panic => "panic"

def run (op : String) (j : Json) : Option Json :=
  match op with
  | "mergeMaps" => some <| ofTbl (mergeMaps (toTbl (obj j "a")) (toTbl (obj j "b")))
  | "coalesceTables" => some <| ofTbl (coalesceTables (boolv j "merge") (toTbl (obj j "dst")) (toTbl (obj j "src")))
  | "coalesceValues" =>
    some <| match coalesceTop (boolv j "merge") (toChart (obj j "chart")) (toTbl (obj j "vals")) with
      | .ok t => Json.mkObj [("ok", ofTbl t)]
      | .err e => Json.mkObj [("err", jstr e)]
  | "strvals" =>
    let (t, e) := Helm.Strvals.parseInto (modeOf j) (str j "s").toList (toTbl (obj j "dest"))
    some <| Json.mkObj [("data", ofTbl t), ("err", jstr (errName e))]
  | "pathExpr" =>
    -- the spec side of theorem set_roundtrip: the escaped rendering and the expected result
    let ks := (strs j "ks").map (·.toList)
    let v := (str j "v").toList
    let dest := toTbl (obj j "dest")
    let m := modeOf j
    some <| Json.mkObj [("expr", jchars (Helm.Strvals.pathExpr ks v)),
      ("expected", ofTbl (Helm.Strvals.setPath ks dest (Helm.Strvals.reader m v)))]
  | "mergeValues" =>
    let o : Helm.Options.Opts := {
      files := (arr j "files").map toTbl, json := (arr j "json").map toTbl,
      set := (strs j "set").map (·.toList), setString := (strs j "setString").map (·.toList),
      setFile := (strs j "setFile").map (·.toList), setLiteral := (strs j "setLiteral").map (·.toList),
      fileContents := (kvs (obj j "fileContents")).map fun (k, v) => (k, asStr v) }
    some <| match Helm.Options.mergeValues o with
      | some t => Json.mkObj [("ok", ofTbl t)]
      | none => Json.mkObj [("err", jstr "err")]
  | _ => none

end Driver.Values
