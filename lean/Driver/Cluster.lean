import Driver.Util
import Helm.Model.Cluster
import Helm.Model.DryRun
open Lean Helm.Cluster
namespace Driver.Cluster

def toSMap (j : Json) : SMap := (asArr j).filterMap fun p => match asArr p with
  | [k, v] => some (asStr k, asStr v)
  | _ => none

def toObj (j : Json) : Obj :=
  { key := str j "key", typed := boolv j "typed", data := toSMap (obj j "data"), labels := toSMap (obj j "labels"), annos := toSMap (obj j "annos") }

def ofSMap (m : SMap) : Json := jlist (fun (kv : String × String) => Json.arr #[jstr kv.1, jstr kv.2]) m

def ofObj (o : Obj) : Json := Json.mkObj [("key", jstr o.key), ("typed", Json.bool o.typed), ("data", ofSMap o.data), ("labels", ofSMap o.labels), ("annos", ofSMap o.annos)]

def ofEv : Ev → Json
  | .get k => jstr ("GET " ++ k) | .create k => jstr ("POST " ++ k) | .patch k => jstr ("PATCH " ++ k)
  | .replace k => jstr ("PUT " ++ k) | .delete k => jstr ("DELETE " ++ k)

def run (op : String) (j : Json) : Option Json :=
  match op with
  | "clusterOp" =>
    let s := (arr j "store").map toObj
    let cur := (arr j "current").map toObj
    let tgt := (arr j "target").map toObj
    let rel := str j "rel"; let ns := str j "ns"
    let rej := (arr j "reject").map asStr
    match str j "kind" with
    | "install" =>
      let r := installCluster rel ns (boolv j "takeOwnership") (boolv j "force") (boolv j "dryRun") tgt s rej
      some <| Json.mkObj [("store", jlist ofObj r.store), ("log", jlist ofEv r.log), ("ok", Json.bool r.ok)]
    | "upgrade" =>
      let r := if boolv j "dryRun" then upgradeCluster rel ns (boolv j "takeOwnership") (boolv j "force") true cur tgt s rej
        else upgradeFull rel ns (boolv j "takeOwnership") (boolv j "force") (boolv j "cleanupOnFail")
          (match obj j "rollbackTo" with | .arr a => some (a.toList.map toObj) | _ => none) cur tgt s rej
      some <| Json.mkObj [("store", jlist ofObj r.store), ("log", jlist ofEv r.log), ("ok", Json.bool r.ok)]
    | "rollback" =>
      if boolv j "dryRun" then some <| Json.mkObj [("store", jlist ofObj s), ("log", Json.arr #[]), ("ok", Json.bool true)] else
      let r := rollbackCluster rel ns (boolv j "force") cur tgt s rej
      some <| Json.mkObj [("store", jlist ofObj r.store), ("log", jlist ofEv r.log), ("ok", Json.bool r.ok)]
    | _ =>
      if boolv j "dryRun" then some <| Json.mkObj [("store", jlist ofObj s), ("log", Json.arr #[]), ("ok", Json.bool true)] else
      let r := uninstallCluster tgt s
      some <| Json.mkObj [("store", jlist ofObj r.store), ("log", jlist ofEv r.log), ("ok", Json.bool true), ("kept", jlist jstr r.kept)]
  | "dryRunOp" =>
    let s := (arr j "store").map toObj
    let mj := obj j "mode"
    let m : Helm.DryRun.Mode := { dryRun := boolv mj "dryRun", option := str mj "option", clientOnly := boolv mj "clientOnly", skipCRDs := boolv mj "skipCRDs" }
    let r := match str j "kind" with
      | "install" => Helm.DryRun.installOp (str j "rel") (str j "ns") m (boolv j "takeOwnership") (boolv j "force") ((arr j "crds").map toObj) ((arr j "target").map toObj) s
      | _ => Helm.DryRun.upgradeOp (str j "rel") (str j "ns") m (boolv j "takeOwnership") (boolv j "force") ((arr j "current").map toObj) ((arr j "target").map toObj) s
    some <| Json.mkObj [("store", jlist ofObj r.store), ("log", jlist ofEv r.log), ("ok", Json.bool r.ok), ("isDryRun", Json.bool (Helm.DryRun.isDryRun m))]
  | _ => none

end Driver.Cluster
