import Driver.Util
import Driver.Values
import Helm.Model.Schema
open Lean Helm.Schema Helm.Values
namespace Driver.Schema

def toTy : String → Option Ty
  | "object" => some .object | "string" => some .string | "integer" => some .integer
  | "number" => some .number | "boolean" => some .boolean | "array" => some .array | "null" => some .null
  | _ => none

partial def toSchema (j : Json) : Helm.Schema.Schema :=
  let rec props : List (String × Json) → SProps
    | [] => .nil
    | (k, v) :: r => .cons k (toSchema v) (props r)
  let enum := if has j "enum" then some ((arr j "enum").map Json.compress) else none
  let mn := if has j "minimum" then some (intv j "minimum") else none
  let mx := if has j "maximum" then some (intv j "maximum") else none
  let addl := match obj j "additionalProperties" with | .bool b => b | _ => true
  .mk (toTy (str j "type")) (strs j "required") enum mn mx (props (kvs (obj j "properties"))) addl

partial def toSChart (j : Json) : SChart :=
  let rec deps : List Json → SChartList
    | [] => .nil
    | x :: r => .cons (toSChart x) (deps r)
  .mk (str j "name") (if (obj j "schema").isNull then none else some (toSchema (obj j "schema"))) (deps (arr j "deps"))

def run (op : String) (j : Json) : Option Json :=
  match op with
  | "schemaValidate" =>
    some <| Json.mkObj [("valid", Json.bool (validate (toSchema (obj j "schema")) (Driver.Values.toVal (obj j "value"))))]
  | "schemaGate" =>
    let c := toSChart (obj j "chart")
    let vals := Driver.Values.toTbl (obj j "vals")
    some <| match failing (fun s t => validate s (.tbl t)) c vals with
      | some l => Json.mkObj [("failing", jlist jstr l), ("gate", Json.bool (gate (fun s t => validate s (.tbl t)) (boolv j "skip") c vals))]
      | none => Json.mkObj [("panic", Json.bool true)]
  | _ => none

end Driver.Schema
