import Driver.Util
import Driver.Values
import Helm.Model.Reuse
open Lean Helm.Values Helm.Reuse
namespace Driver.Reuse
open Driver.Values

def toRev (j : Json) : Rev := ⟨toChart (obj j "chart"), toTbl (obj j "config")⟩

def ofEff (r : Rev) : Json := match effective r with
  | .ok t => ofTbl t
  | .err e => Json.mkObj [("$err", jstr e)]

def run (op : String) (j : Json) : Option Json :=
  match op with
  | "reuseOp" =>
    let fl : Flags := ⟨boolv j "reset", boolv j "reuse", boolv j "resetThenReuse"⟩
    some <| match upgradeStep fl (toRev (obj j "cur")) (toChart (obj j "newChart")) (toTbl (obj j "newVals")) with
      | .ok r => Json.mkObj [("config", ofTbl r.config), ("chartValues", ofTbl r.chart.values), ("effective", ofEff r)]
      | .err e => Json.mkObj [("err", jstr e)]
  | "reuseEffective" => some <| Json.mkObj [("effective", ofEff (toRev (obj j "rev")))]
  | _ => none

end Driver.Reuse
