import Driver.Util
import Helm.Model.Render
open Lean Helm.Render
namespace Driver.Render
def run (op : String) (j : Json) : Option Json :=
  match op with
  | "sortTemplates" => some <| Json.mkObj [("order", jlist jstr (sortTemplates (strs j "keys")))]
  | _ => none
end Driver.Render
