import Driver.Util
import Helm.Model.Ignore
open Lean Helm.Ignore
namespace Driver.Ignore

def run (op : String) (j : Json) : Option Json :=
  match op with
  | "ignoreOp" =>
    let lines := (strs j "lines").map (·.toList)
    let entries := (arr j "entries").map fun e => ((str e "path").toList, boolv e "isDir")
    match rulesOf lines with
    | none => some <| Json.mkObj [("bad", Json.bool true)]
    | some rules =>
      let files := (entries.filter (!·.2)).map (·.1)
      some <| Json.mkObj [("bad", Json.bool false),
        ("ignored", jlist (fun (e : List Char × Bool) => Json.bool (ignore rules e.1 e.2)) entries),
        ("loaded", jlist (fun (p : List Char) => jstr (String.ofList p)) (loadDir rules files))]
  | _ => none

end Driver.Ignore
