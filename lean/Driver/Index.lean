import Driver.Util
import Helm.Model.Index
open Lean Helm.Index
namespace Driver.Index

def toVer (j : Json) : Option Ver :=
  if j.isNull then none else
  some { major := natv j "major", minor := natv j "minor", patch := natv j "patch",
         pre := (arr j "pre").map fun i => if has i "num" then Ident.num (natv i "num") else Ident.alnum (str i "alnum") }

def toEntry (j : Json) : Option Entry :=
  if j.isNull then none else
  some { id := natv j "id", version := str j "version", ver := toVer (obj j "ver"),
         valid := boolv j "valid", hasURL := boolv j "hasURL", sat := boolv j "sat" }

def resJson : Res Entry → Json
  | .ok e => Json.mkObj [("res", jstr (toString e.id))]
  | .err => Json.mkObj [("res", jstr "err")]
  | .panic => Json.mkObj [("res", jstr "panic")]

def run (op : String) (j : Json) : Option Json :=
  match op with
  | "verLe" =>
    match toVer (obj j "a"), toVer (obj j "b") with
    | some a, some b => some <| Json.mkObj [("le", Json.bool (a.le b))]
    | _, _ => some <| Json.mkObj [("le", Json.null)]
  | "loadEntries" =>
    some <| match loadEntries ((arr j "raw").map toEntry) with
      | .panic => Json.mkObj [("res", jstr "panic")]
      | .err => Json.mkObj [("res", jstr "err")]
      | .ok es => Json.mkObj [("res", jstr "ok"), ("ids", jlist (fun o => match o with | none => Json.null | some (e : Entry) => toJson e.id) es)]
  | "indexGet" => some <| resJson (get ((arr j "vs").map toEntry) (str j "version") (boolv j "constraintOk"))
  | "resolvePick" =>
    some <| match resolvePick ((arr j "vs").filterMap toEntry) with
      | some e => Json.mkObj [("res", jstr (toString e.id))]
      | none => Json.mkObj [("res", jstr "err")]
  | "tagMatch" => some <| resJson (tagMatch ((arr j "tags").filterMap toEntry) (str j "version") (boolv j "constraintOk"))
  | _ => none

end Driver.Index
