import Driver.Util
import Driver.Ledger
import Helm.Model.Conc
open Lean Helm.Conc
namespace Driver.Conc

def ofPc : Pc → String
  | .done true => "ok" | .done false => "fail" | _ => "running"

def run (op : String) (j : Json) : Option Json :=
  match op with
  | "concRun" =>
    let l := Driver.Ledger.toLedger (obj j "ledger")
    let ps : List Proc := (arr j "procs").map fun p =>
      { kind := if str p "kind" == "install" then .install else .upgrade, payload := natv p "payload" }
    let sched := (arr j "schedule").map fun x => (x.getNat?).toOption.getD 0
    let w := Helm.Conc.run ⟨l, ps⟩ sched
    some <| Json.mkObj [("ledger", Driver.Ledger.ofLedger w.ledger),
      ("procs", jlist (fun (p : Proc) => Json.mkObj [("outcome", jstr (ofPc p.pc)), ("touched", Json.bool p.touched),
        ("made", match p.made with | some r => toJson r | none => Json.null)]) w.procs),
      ("quiescentOk", Json.bool (quiescentOk w))]
  | _ => none

end Driver.Conc
