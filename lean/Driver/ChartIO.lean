import Driver.Util
import Helm.Model.ChartIO
open Lean Helm.ChartIO
namespace Driver.ChartIO

def toBytes (j : Json) : Bytes := (asArr j).map fun x => (x.getNat?).toOption.getD 0
def ofBytes (b : Bytes) : Json := Json.arr (b.map fun n => toJson n).toArray
def optBytes (j : Json) (k : String) : Option Bytes := if (obj j k).isNull then none else some (toBytes (obj j k))
def toFile (j : Json) : File := ⟨(str j "name").toList, toBytes (obj j "data")⟩
def ofFile (f : File) : Json := Json.mkObj [("name", jchars f.name), ("data", ofBytes f.data)]

/-- the harness does not know the YAML documents in advance: `metaDoc` carries the chart name
(for `nameOf`) and the api version flag in its first byte -/
partial def toChart (j : Json) : MChart :=
  let name := (str j "name").toList
  let apiV1 := boolv j "apiV1"
  .mk name apiV1 ((if apiV1 then 1 else 0) :: name.map Char.toNat)
    (if boolv j "lock" then some [] else none) (optBytes j "valuesRaw") (optBytes j "schema")
    ((arr j "templates").map toFile) ((arr j "files").map toFile) ((arr j "deps").map toChart)

partial def ofChart : MChart → Json
  | .mk name _ _ lock valuesRaw schema templates files deps =>
    let ds := (deps.map ofChart).toArray.qsort (fun a b => str a "name" < str b "name")
    Json.mkObj [("name", jchars name), ("lock", Json.bool lock.isSome),
      ("valuesRaw", match valuesRaw with | some b => ofBytes b | none => Json.null),
      ("schema", match schema with | some b => ofBytes b | none => Json.null),
      ("templates", jlist ofFile templates), ("files", jlist ofFile files), ("deps", Json.arr ds)]

/-- `name:` and `apiVersion:` out of a real Chart.yaml document, as far as the generated
documents go (the YAML decoder itself is not modelled): the line `name: X` at top level, and
whether a line `apiVersion: v1` is present. -/
def linesOf (b : Bytes) : List (List Char) :=
  Helm.ArchivePath.splitOn '\n' (b.map fun n => Char.ofNat n)

def nameOfYaml (b : Bytes) : List Char :=
  match (linesOf b).find? (fun l => "name: ".toList.isPrefixOf l) with
  | some l => l.drop 6
  | none => []

def apiV1OfYaml (b : Bytes) : Bool :=
  !(linesOf b).any (fun l => l = "apiVersion: v2".toList)

def run (op : String) (j : Json) : Option Json :=
  match op with
  | "saveEntries" =>
    some <| Json.mkObj [("names", jlist (fun f => jchars f.name) (saveEntries (toChart (obj j "chart")) []))]
  | "loadEntries15" =>
    let es := (arr j "entries").map toFile
    some <| match archiveFiles es with
      | none => Json.mkObj [("err", jstr "archive rejected")]
      | some fs =>
        match loadFiles apiV1OfYaml nameOfYaml 8 fs with
        | some c => Json.mkObj [("ok", ofChart c)]
        | none => Json.mkObj [("err", jstr "load failed")]
  | _ => none

end Driver.ChartIO
