import Driver.Util
import Helm.Model.Storage
open Lean Helm.Storage
namespace Driver.Storage

def toRel (j : Json) : Rel :=
  { name := str j "name", version := natv j "version", status := str j "status",
    labels := (kvs (obj j "labels")).map fun (k, v) => (k, asStr v), payload := str j "payload" }

def ofRel (r : Rel) : Json := Json.mkObj [
  ("name", jstr r.name), ("version", toJson r.version), ("status", jstr r.status),
  ("labels", Json.mkObj (r.labels.map fun (k, v) => (k, jstr v))), ("payload", jstr r.payload)]

def toOp (j : Json) : Option Op :=
  match str j "kind" with
  | "create" => some (.create (str j "key") (toRel (obj j "rel")))
  | "get" => some (.get (str j "key"))
  | "update" => some (.update (str j "key") (toRel (obj j "rel")))
  | "delete" => some (.delete (str j "key"))
  | "list" => some (.list (if has j "status" then some (str j "status") else none))
  | "query" => some (.query ((kvs (obj j "q")).map fun (k, v) => (k, asStr v)))
  | _ => none

def relKey (r : Rel) : String := r.name ++ "\x00" ++ toString (1000000 + r.version)

def ofOut : Out → Json
  | .ok => jstr "ok"
  | .exists => jstr "exists"
  | .notFound => jstr "notfound"
  | .invalidKey => jstr "invalidkey"
  | .other => jstr "other"
  | .panic => jstr "panic"
  | .rel r => Json.mkObj [("rel", ofRel r)]
  | .rels rs => Json.mkObj [("rels", jlist ofRel (rs.mergeSort fun a b => relKey a ≤ relKey b))]

/-- One sequence: ops applied to the spec, the memory model and the two object-store models.
`corrupt` pseudo-ops plant an undecodable record in the object stores (and nothing elsewhere). -/
def run (op : String) (j : Json) : Option Json :=
  match op with
  | "storageSeq" =>
    let ops := arr j "ops"
    let step := fun (acc : (Spec × Mem × Objs × Objs) × List Json) (oj : Json) =>
      let ((sp, me, sec, cm), outs) := acc
      if str oj "kind" == "corrupt" then
        let o : Obj := ⟨(kvs (obj oj "labels")).map fun (k, v) => (k, asStr v), none⟩
        let put := fun (s : Objs) => if (s.get? (str oj "key")).isSome then s.map (fun kv => if kv.1 = str oj "key" then (kv.1, o) else kv) else s ++ [(str oj "key", o)]
        ((sp, me, put sec, put cm), outs ++ [Json.mkObj [("spec", jstr "n/a"), ("mem", jstr "n/a"), ("secrets", jstr "ok"), ("configmaps", jstr "ok")]])
      else match toOp oj with
      | none => (acc.1, outs ++ [jstr "bad-op"])
      | some o =>
        let (sp', a) := specStep sp o
        let (me', b) := memStep me o
        let (sec', c) := objStep false sec o
        let (cm', d) := objStep false cm o
        ((sp', me', sec', cm'), outs ++ [Json.mkObj [("spec", ofOut a), ("mem", ofOut b), ("secrets", ofOut c), ("configmaps", ofOut d)]])
    let (_, outs) := ops.foldl step (([], [], [], []), [])
    some (Json.arr outs.toArray)
  | "memKeyOk" => some (Json.bool (memKeyOk (str j "key")))
  | _ => none

end Driver.Storage
