import Driver.Util
import Helm.Model.Recursion
open Lean Helm.Recursion
namespace Driver.Recursion

def nats (j : Json) (k : String) : List Nat := (arr j k).map fun x => (x.getNat?).toOption.getD 0

def run (op : String) (j : Json) : Option Json :=
  match op with
  | "recursion" =>
    let bodies := (arr j "bodies").map fun b => (asArr b).map fun x => (x.getNat?).toOption.getD 0
    let ctrs := nats j "ctr"
    let tpls := (arr j "isTpl").map fun x => (x.getBool?).toOption.getD false
    let p : Prog := { body := fun n => bodies.getD n [], ctr := fun n => ctrs.getD n 0, max := natv j "max",
                      shared := boolv j "shared", isTpl := fun n => tpls.getD n false }
    let k := (ctrs.foldl Nat.max 0) + 1
    let r := render p (k * (p.max + 1) + 1) (natv j "root")
    some <| match r with
      | .ok t => Json.mkObj [("res", jstr "ok"), ("trace", jlist (fun (n : Nat) => Json.num n) t)]
      | .err c => Json.mkObj [("res", jstr "err"), ("ctr", Json.num c)]
      | .fatal => Json.mkObj [("res", jstr "fatal")]
  | _ => none

end Driver.Recursion
