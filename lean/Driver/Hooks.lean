import Driver.Util
import Helm.Model.Hooks
open Lean Helm.Hooks
namespace Driver.Hooks

def toPolicy (s : String) : Option Policy := match s with
  | "before-hook-creation" => some .before
  | "hook-succeeded" => some .succeeded
  | "hook-failed" => some .failed
  | _ => none

def toHook (j : Json) : Hook :=
  { key := str j "key", name := str j "name", weight := intv j "weight", events := strs j "events", policies := (strs j "policies").filterMap toPolicy }

def ofEv : HEv → Json
  | .del n => jstr ("D " ++ n) | .create n => jstr ("C " ++ n) | .watch n => jstr ("W " ++ n) | .res => jstr "RES"

def ofRun (r : Run) : Json :=
  Json.mkObj [("evs", jlist ofEv r.evs), ("ex", jlist jstr r.ex), ("ok", Json.bool r.ok)]

def run (op : String) (j : Json) : Option Json :=
  match op with
  | "hookOp" =>
    let hooks := (arr j "hooks").map toHook
    let failing := strs j "fails"
    some <| ofRun (operation (fun n => failing.contains n) (boolv j "disableHooks") (boolv j "resFails") (strs j "existing") hooks (str j "pre") (str j "post"))
  | "hookSort" =>
    let hooks := (arr j "hooks").map toHook
    some <| jlist (fun (h : Hook) => jstr h.key) (sortHooks (selectHooks hooks (str j "event")))
  | _ => none

end Driver.Hooks
