import Driver.Util
import Helm.Model.Ledger
open Lean Helm.Ledger
namespace Driver.Ledger

def statusNames : List (String × Status) := [("unknown", .unknown), ("deployed", .deployed), ("uninstalled", .uninstalled),
  ("superseded", .superseded), ("failed", .failed), ("uninstalling", .uninstalling),
  ("pendingInstall", .pendingInstall), ("pendingUpgrade", .pendingUpgrade), ("pendingRollback", .pendingRollback)]

def toStatus (s : String) : Status := ((statusNames.find? (·.1 == s)).map (·.2)).getD .unknown
def ofStatus (s : Status) : String := ((statusNames.find? (·.2 == s)).map (·.1)).getD "unknown"

def toDec (s : String) : Dec := match s with | "fail" => .fail | "crash" => .crash | _ => .ok

def toFaults (j : Json) : Faults :=
  { pre := toDec (str j "pre"), preHook := toDec (str j "preHook"), resources := toDec (str j "resources"),
    wait := toDec (str j "wait"), postHook := toDec (str j "postHook"), cleanup := toDec (str j "cleanup"),
    delete := toDec (str j "delete"), st := (strs j "st").map toDec }

def toLedger (j : Json) : Helm.Ledger.Ledger :=
  (asArr j).map fun r => { rev := natv r "rev", status := toStatus (str r "status"), payload := natv r "payload" }

def ofLedger (l : Helm.Ledger.Ledger) : Json :=
  jlist (fun (r : Rec) => Json.mkObj [("rev", toJson r.rev), ("status", jstr (ofStatus r.status)), ("payload", toJson r.payload)]) l

def ofOutcome : Outcome → String
  | .success => "success" | .error => "error" | .crashed => "crashed"

def run (op : String) (j : Json) : Option Json :=
  match op with
  | "ledgerOp" =>
    let fl := obj j "flags"
    let f := toFaults (obj j "f")
    let fn := toFaults (obj j "nested")
    let l := toLedger (obj j "ledger")
    let payload := natv j "payload"
    let (s, o) := match str j "kind" with
      | "install" => install { nHooks := natv fl "nHooks", replace := boolv fl "replace", atomic := boolv fl "atomic", dryRun := boolv fl "dryRun", disableHooks := boolv fl "disableHooks" } f fn payload l
      | "upgrade" => upgrade { nHooks := natv fl "nHooks", atomic := boolv fl "atomic", cleanupOnFail := boolv fl "cleanupOnFail", dryRun := boolv fl "dryRun", disableHooks := boolv fl "disableHooks", maxHistory := natv fl "maxHistory" } f fn payload l
      | "rollback" => rollback { nHooks := natv fl "nHooks", version := natv fl "version", dryRun := boolv fl "dryRun", disableHooks := boolv fl "disableHooks", cleanupOnFail := boolv fl "cleanupOnFail", maxHistory := natv fl "maxHistory" } f l
      | _ => uninstall { nHooks := natv fl "nHooks", keepHistory := boolv fl "keepHistory", dryRun := boolv fl "dryRun", disableHooks := boolv fl "disableHooks" } f l
    some <| Json.mkObj [("ledger", ofLedger s.ledger), ("outcome", jstr (ofOutcome o)), ("writes", jlist jstr s.writes)]
  | _ => none

end Driver.Ledger
