import Lean.Data.Json
open Lean
namespace Driver

def str (j : Json) (k : String) : String := (j.getObjValAs? String k).toOption.getD ""
def boolv (j : Json) (k : String) : Bool := (j.getObjValAs? Bool k).toOption.getD false
def natv (j : Json) (k : String) : Nat := (j.getObjValAs? Nat k).toOption.getD 0
def intv (j : Json) (k : String) : Int := (j.getObjValAs? Int k).toOption.getD 0
def arr (j : Json) (k : String) : List Json :=
  match j.getObjVal? k with
  | .ok (.arr a) => a.toList
  | _ => []
def obj (j : Json) (k : String) : Json := (j.getObjVal? k).toOption.getD Json.null
def has (j : Json) (k : String) : Bool := (j.getObjVal? k).toOption.isSome
def asStr (j : Json) : String := (j.getStr?).toOption.getD ""
def asArr (j : Json) : List Json := match j with | .arr a => a.toList | _ => []
def strs (j : Json) (k : String) : List String := (arr j k).map asStr
/-- key/value pairs of a JSON object, sorted by key. -/
def kvs (j : Json) : List (String × Json) :=
  match j with
  | .obj m => m.toList
  | _ => []
def jstr (s : String) : Json := Json.str s
def jchars (s : List Char) : Json := Json.str (String.ofList s)
def jlist {α} (f : α → Json) (xs : List α) : Json := Json.arr (xs.map f).toArray

end Driver
