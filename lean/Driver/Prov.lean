import Driver.Util
import Helm.Model.Prov
open Lean Helm.Prov
namespace Driver.Prov

/-- the harness reports the primitive results; they are packed into a `Prims Unit` instance
that returns them (the model's decision structure is what is exercised). -/
def run (op : String) (j : Json) : Option Json :=
  match op with
  | "provVerify" =>
    let pr := obj j "prims"
    let sums := (kvs (obj pr "sums")).map fun (k, v) => (k, asStr v)
    let p : Prims Unit := {
      decode := fun _ => if boolv pr "decodes" then some ⟨[], [], []⟩ else none,
      sigValid := fun _ _ _ => boolv pr "sigValid",
      sha256hex := fun _ => str pr "digest",
      parseSums := fun _ => if boolv pr "parses" then some sums else none }
    some <| Json.mkObj [("verdict", jstr (match verify p () [] (str j "base") [] with
      | .ok => "ok" | .noSignature => "noSignature" | .badSignature => "badSignature"
      | .badMessage => "badMessage" | .noSumForFile => "noSumForFile" | .sumMismatch => "sumMismatch"))]
  | _ => none

end Driver.Prov
