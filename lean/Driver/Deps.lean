import Driver.Util
import Driver.Values
import Helm.Model.Deps
open Lean Helm.Values Helm.Deps
namespace Driver.Deps

def toDep (j : Json) : Dep :=
  { name := str j "name", alias := str j "alias",
    conditions := (arr j "conditions").map fun c => (asArr c).map asStr,
    tags := strs j "tags" }

partial def toDChart (j : Json) : DChart :=
  .mk (str j "name") (Driver.Values.toTbl (obj j "values")) ((arr j "metaDeps").map toDep)
    (DChartList.ofList ((arr j "subs").map toDChart))

partial def ofDChart (c : DChart) : Json :=
  Json.mkObj [("name", jstr c.name), ("metaDeps", jlist (fun d => jstr d.name) c.metaDeps),
    ("subs", jlist ofDChart c.subs.toList)]

def run (op : String) (j : Json) : Option Json :=
  match op with
  | "processDeps" =>
    let c := toDChart (obj j "chart")
    let vals := Driver.Values.toTbl (obj j "vals")
    some <| match processDependencies c vals with
      | .err e => Json.mkObj [("err", jstr e)]
      | .ok c' =>
        match coalesceTop false c'.toChart vals with
        | .ok t => Json.mkObj [("ok", ofDChart c'), ("values", Driver.Values.ofTbl t)]
        | .err e => Json.mkObj [("ok", ofDChart c'), ("valuesErr", jstr e)]
  | "depEnabled" =>
    some <| Json.mkObj [("enabled", Json.bool (depEnabled (Driver.Values.toTbl (obj j "cvals")) (strs j "cpath") (toDep (obj j "dep"))))]
  | _ => none

end Driver.Deps
