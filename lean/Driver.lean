import Driver.Main
