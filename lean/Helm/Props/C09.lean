/-
C09  Concurrent installs/upgrades of one release cannot both proceed.
Property theorems only (model: Helm/Model/Conc.lean; invariant: Helm/Lemmas/Conc.lean).

Three layers:
 * for ANY number of concurrent operations, ANY interleaving and ANY well-formed initial history
   (an invariant over the ledger and all processes, Helm/Lemmas/ConcQ.lean, by induction over
   the schedule): at most one operation is ever between its Create and its final Update, and
   once all have returned the history has unique revisions, at most one deployed revision and
   nothing pending (`history_wellformed_at_quiescence`);
 * for ANY number of concurrent operations, ANY interleaving of their storage and cluster calls
   and ANY initial history (induction over the schedule): every revision record is created by
   exactly one operation, an operation that fails has touched no release resource and created
   no record, and resources are touched only after the operation's own record was stored;
 * for the property's own quantifier -- all interleavings of two operations, and
   preemption-bounded schedules of three, from an empty or a deployed history -- by exhaustive
   evaluation in the kernel: once all have returned the history is well-formed (unique
   revisions, at most one deployed, nothing pending).  This is a finite enumeration and is
   labelled as such; it is kept next to the unbounded theorem as an independent check of the
   model's executable definitions.

Freedom from data races is not a statement about this model: the correspondence runs the
real drivers from several goroutines under the Go race detector (thorough tier) and is labelled
as testing.
-/
import Helm.Lemmas.Conc
import Helm.Lemmas.ConcQ
import Helm.Gen.Tables

namespace Helm.Props.C09
open Helm.Ledger Helm.Conc

/-- operations that have not started yet -/
def Fresh (ps : List Proc) : Prop := ∀ p ∈ ps, p.pc = .start ∧ p.made = none ∧ p.touched = false

/-- Under every interleaving of any number of operations, from any history: no two operations
created the same revision's record, and every record an operation claims is in the history. -/
theorem each_revision_has_one_creator (l : Ledger) (ps : List Proc) (hf : Fresh ps) (schedule : List Nat) :
    ((run ⟨l, ps⟩ schedule).procs.filterMap (·.made)).Pairwise (· ≠ ·) ∧
    ∀ p ∈ (run ⟨l, ps⟩ schedule).procs, ∀ r, p.made = some r → r ∈ Helm.Conc.revs (run ⟨l, ps⟩ schedule).ledger := by
  have h := run_inv ⟨l, ps⟩ schedule (init_inv l ps hf)
  exact ⟨h.2, fun p hp r hr => (h.1 p hp).1 r hr⟩

/-- An operation that returned an error (already exists / operation in progress / name in use)
has not created, changed or deleted any release resource and has stored no record. -/
theorem losers_touch_nothing (l : Ledger) (ps : List Proc) (hf : Fresh ps) (schedule : List Nat) :
    ∀ p ∈ (run ⟨l, ps⟩ schedule).procs, p.pc = .done false → p.touched = false ∧ p.made = none := by
  intro p hp hd
  have h := (run_inv ⟨l, ps⟩ schedule (init_inv l ps hf)).1 p hp
  have h3 := h.2.2
  rw [hd] at h3
  exact ⟨h3.2, h3.1⟩

/-- Release resources are touched only by an operation whose own revision record is stored. -/
theorem mutation_only_after_own_record (l : Ledger) (ps : List Proc) (hf : Fresh ps) (schedule : List Nat) :
    ∀ p ∈ (run ⟨l, ps⟩ schedule).procs, p.touched = true → ∃ r, p.made = some r ∧ r ∈ Helm.Conc.revs (run ⟨l, ps⟩ schedule).ledger := by
  intro p hp ht
  have h := (run_inv ⟨l, ps⟩ schedule (init_inv l ps hf)).1 p hp
  have := h.2.1 ht
  cases hm : p.made with
  | none => rw [hm] at this; cases this
  | some r => exact ⟨r, rfl, h.1 r hm⟩

/-! ### well-formed history at quiescence, unbounded -/

/-- ANY number of operations, ANY schedule, ANY well-formed initial history (unique revisions
from 1, at most one deployed, nothing pending): once every operation has returned the history
has unique revisions, at most one deployed revision and no pending revision. -/
theorem history_wellformed_at_quiescence (l : Ledger) (ps : List Proc) (schedule : List Nat) (hl : WF0 l)
    (hf : Fresh ps) (hdone : ∀ p ∈ (run ⟨l, ps⟩ schedule).procs, p.isDone = true) :
    (Helm.Ledger.revs (run ⟨l, ps⟩ schedule).ledger).Nodup ∧
    countDeployed (run ⟨l, ps⟩ schedule).ledger ≤ 1 ∧
    ∀ rec ∈ (run ⟨l, ps⟩ schedule).ledger, rec.status.isPending = false :=
  quiescence_wellformed l ps schedule hl (fun p hp => (hf p hp).1) hdone

/-- At every moment of every execution at most one operation is between storing its own
(pending) record and its final update: the pending check and the atomic create serialise them. -/
theorem at_most_one_operation_in_flight (l : Ledger) (ps : List Proc) (schedule : List Nat) (hl : WF0 l)
    (hf : Fresh ps) :
    (run ⟨l, ps⟩ schedule).procs.Pairwise (fun p q => inflight p = none ∨ inflight q = none) :=
  at_most_one_in_flight l ps schedule hl (fun p hp => (hf p hp).1)

/-- the four histories of the exhaustive check below are well-formed initial histories -/
example : WF0 [] ∧ WF0 [⟨1, .deployed, 1⟩] ∧ WF0 [⟨1, .superseded, 1⟩, ⟨2, .deployed, 2⟩] ∧
    WF0 [⟨1, .deployed, 1⟩, ⟨2, .failed, 2⟩] := by
  refine ⟨⟨by decide, by decide, by decide, by decide⟩, ⟨by decide, by decide, by decide, by decide⟩,
    ⟨by decide, by decide, by decide, by decide⟩, ⟨by decide, by decide, by decide, by decide⟩⟩

/-! ### the property's quantifier, exhaustively -/

def kinds2 : List (Kind × Kind) := [(.install, .install), (.install, .upgrade), (.upgrade, .install), (.upgrade, .upgrade)]

/-- empty, deployed, deployed after an upgrade, a failed upgrade on top of the deployed one -/
def histories : List Ledger :=
  [[], [⟨1, .deployed, 1⟩], [⟨1, .superseded, 1⟩, ⟨2, .deployed, 2⟩], [⟨1, .deployed, 1⟩, ⟨2, .failed, 2⟩]]

def allDone (w : World) : Bool := w.procs.all (·.isDone)

/-- the enumeration is complete: C(12, 6) schedules -/
example : (interleavings 6 6).length = 924 := by decide +kernel

/-- every interleaving of two operations (6 steps each suffice for either kind) -/
def check2 : Bool :=
  histories.all fun l => kinds2.all fun k =>
    (interleavings 6 6).all fun s =>
      let w := run ⟨l, [{ kind := k.1, payload := 10 }, { kind := k.2, payload := 20 }]⟩ s
      allDone w && quiescentOk w

/-- All interleavings of two concurrent install/upgrade operations, from each of the four
histories: everybody returns and the history is well-formed with at most one deployed revision,
one creator per revision, losers untouched.  (924 schedules x 4 kind pairs x 4 histories.) -/
theorem two_operations_all_interleavings : check2 = true := by decide +kernel

/-- schedules of three operations with two preemptions: p runs a steps, q runs b steps, r runs to
the end, then q, then p -/
def schedules3 : List (List Nat) :=
  [[0, 1, 2], [0, 2, 1], [1, 0, 2], [1, 2, 0], [2, 0, 1], [2, 1, 0]].flatMap fun perm =>
    match perm with
    | [p, q, r] =>
      (List.range 7).flatMap fun a => (List.range 7).map fun b =>
        List.replicate a p ++ List.replicate b q ++ List.replicate 6 r ++ List.replicate 6 q ++ List.replicate 6 p
    | _ => []

def kinds3 : List (Kind × Kind × Kind) :=
  [(.install, .install, .install), (.upgrade, .upgrade, .upgrade), (.install, .upgrade, .upgrade), (.upgrade, .install, .upgrade)]

def check3 : Bool :=
  histories.all fun l => kinds3.all fun k =>
    schedules3.all fun s =>
      let w := run ⟨l, [{ kind := k.1, payload := 10 }, { kind := k.2.1, payload := 20 }, { kind := k.2.2, payload := 30 }]⟩ s
      allDone w && quiescentOk w

theorem three_operations_two_preemptions : check3 = true := by decide +kernel

/-- non-vacuity: in some interleaving one upgrade wins, in another the other one does -/
example :
    let w0 : World := ⟨[⟨1, .deployed, 1⟩], [{ kind := .upgrade, payload := 10 }, { kind := .upgrade, payload := 20 }]⟩
    (run w0 [0, 1, 0, 1, 0, 1, 0, 1, 0, 1]).procs.map (·.pc) = [.done true, .done false] ∧
    (run w0 [1, 0, 1, 0, 1, 0, 1, 0, 1, 0]).procs.map (·.pc) = [.done false, .done true] ∧
    (run w0 [0, 0, 0, 0, 0, 1, 1, 1, 1, 1]).procs.map (·.pc) = [.done true, .done true] := by decide

/-! ### history limits (outside the interleaving model): what pruning may touch -/

/-- Pruning for a create of revision `newest` only ever chooses older revisions: the record of a concurrent
operation that has already created `newest` (or a later revision) is never removed, so the create that follows
fails with already-exists as it does without a limit. -/
theorem pruning_spares_concurrent_records (l : Helm.Ledger.Ledger) (maximum newest : Nat) :
    ∀ r ∈ Helm.Ledger.toDeleteBelow l maximum newest, r < newest := by
  intro r hr
  unfold Helm.Ledger.toDeleteBelow at hr
  split at hr
  · simp at hr
  · have h1 := List.mem_of_mem_take hr
    have h2 := Helm.Ledger.mem_takeWhile_holds _ _ _ h1
    simpa using h2

/-- non-vacuity, and the defect the bound repairs: history `[v1 deployed, v2 pending-upgrade]` (the winner has
created v2), the loser creates v2 under --history-max 1: without the bound the winner's record is the candidate,
with it nothing is -/
example :
    Helm.Ledger.toDelete [⟨1, .deployed, 1⟩, ⟨2, .pendingUpgrade, 2⟩] 0 = [2] ∧
    Helm.Ledger.toDeleteBelow [⟨1, .deployed, 1⟩, ⟨2, .pendingUpgrade, 2⟩] 0 2 = [] := by decide

/-- When every stored revision is older than the one being created (any operation running alone), the bound
changes nothing: the choice is the one the ledger theorems of C01 are about. -/
theorem pruning_bound_inert_when_alone (l : Helm.Ledger.Ledger) (maximum newest : Nat)
    (h : ∀ r ∈ l, r.rev < newest) :
    Helm.Ledger.toDeleteBelow l maximum newest = Helm.Ledger.toDelete l maximum := by
  unfold Helm.Ledger.toDeleteBelow Helm.Ledger.toDelete
  split
  · rfl
  · have hall : ∀ x ∈ (Helm.Ledger.sortAsc (l.map (·.rev))).filter (fun r => some r ≠ (Helm.Ledger.deployed? l).map (·.rev)), x < newest := by
      intro x hx
      have hx' := (List.mem_filter.mp hx).1
      have : x ∈ l.map (·.rev) := (Helm.Ledger.mem_sortAsc _ _).mp hx'
      rcases List.mem_map.mp this with ⟨r, hr, rfl⟩
      exact h r hr
    have : ((Helm.Ledger.sortAsc (l.map (·.rev))).filter (fun r => some r ≠ (Helm.Ledger.deployed? l).map (·.rev))).takeWhile (· < newest)
        = (Helm.Ledger.sortAsc (l.map (·.rev))).filter (fun r => some r ≠ (Helm.Ledger.deployed? l).map (·.rev)) := by
      apply Helm.Ledger.takeWhile_all
      intro x hx
      simpa using hall x hx
    simp only [this]

/-- The bound in the source (regenerated from pkg/storage/storage.go at every run): Create hands the new
revision to the pruning, and the pruning loop stops at it. -/
theorem pruning_bound_in_source :
    Helm.Gen.pruneCallArgs = "rls.Name, s.MaxHistory - 1, rls.Version" ∧
    Helm.Gen.pruneStopCondition = "len(h)-len(toDelete) == maximum || rel.Version >= newest" := by
  decide

/-- The tie to the source of the in-progress test: the statuses `Status.IsPending` counts as an operation in
flight are the three pending ones -- an upgrade refuses to start over any of them, the rollback of an atomic
upgrade included (regenerated from pkg/release/v1/status.go at every run). -/
theorem pending_statuses_are_the_three :
    Helm.Gen.pendingStatuses = ["StatusPendingInstall", "StatusPendingRollback", "StatusPendingUpgrade"] := by
  decide

end Helm.Props.C09
