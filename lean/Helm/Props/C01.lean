/-
C01  Release revision ledger stays well-formed under any history and faults.
Property theorems only.  Model: Helm/Model/Ledger.lean (the four action programs at the level
of their storage calls; every cluster phase and every storage write is a decision
ok / fail / crash).
-/
import Helm.Model.Ledger
import Helm.Lemmas.Ledger
import Helm.Lemmas.LedgerSuccess
import Helm.Lemmas.RollbackSuccess
import Helm.Lemmas.UninstallSuccess
import Helm.Gen.Tables
import Helm.Spec.Skeletons

namespace Helm.Props.C01
open Helm.Ledger

/-! ## 1. Revisions stay unique: every storage primitive preserves it, under every decision -/

theorem create_keeps_unique (s : St) (r : Rec) (h : (revs s.ledger).Nodup) :
    (revs (stCreate s r).2.ledger).Nodup := stCreate_nodup s r h

theorem update_keeps_revisions (s : St) (r : Rec) : revs (stUpdate s r).2.ledger = revs s.ledger :=
  stUpdate_revs s r

theorem delete_keeps_unique (s : St) (rev : Nat) (h : (revs s.ledger).Nodup) :
    (revs (stDelete s rev).2.ledger).Nodup := stDelete_nodup s rev h

/-- create-if-absent: a create on an existing revision fails and changes nothing -/
theorem create_existing_fails (s : St) (r : Rec) (h : (get? s.ledger r.rev).isSome = true) :
    (stCreate s r).1 ≠ .ok ∧ (stCreate s r).2.ledger = s.ledger := by
  unfold stCreate nextDec
  cases s.decs with
  | nil => simp [h]
  | cons d rest => cases d <;> simp [h]

/-! ## 2. Pruning (`Storage.Create` with a history limit) -/

/-- the currently deployed revision is never chosen for deletion -/
theorem prune_never_deployed (l : Ledger) (maximum : Nat) (d : Rec) (hd : deployed? l = some d) :
    d.rev ∉ toDelete l maximum := toDelete_not_deployed l maximum d hd

/-- only existing revisions, and no more than needed to get down to the limit -/
theorem prune_bounded (l : Ledger) (maximum : Nat) :
    (∀ r ∈ toDelete l maximum, r ∈ revs l) ∧ (toDelete l maximum).length ≤ l.length - maximum :=
  ⟨toDelete_subset l maximum, toDelete_length_le l maximum⟩

/-- oldest first: the candidates are taken from the front of the ascending revision list
(skipping the deployed one) -/
theorem prune_oldest_first (l : Ledger) (maximum : Nat) (h : ¬ l.length ≤ maximum) :
    toDelete l maximum =
      ((sortAsc (l.map (·.rev))).filter fun r => some r ≠ (deployed? l).map (·.rev)).take (l.length - maximum) := by
  simp [toDelete, h]

/-- a failing deletion never makes the prune delete something else instead: the loop only ever
deletes the chosen candidates -/
theorem pruneLoop_only_candidates (cands : List Nat) : ∀ (s : St) (b : Bool) (x : Rec),
    x ∈ s.ledger → x.rev ∉ cands → x ∈ (pruneLoop cands s b).2.ledger := by
  induction cands with
  | nil => intro s b x hx _; simpa [pruneLoop] using hx
  | cons c rest ih =>
    intro s b x hx hnc
    simp only [List.mem_cons, not_or] at hnc
    have hkeep : x ∈ (stDelete s c).2.ledger := by
      unfold stDelete nextDec
      cases s.decs with
      | nil => simp only; split <;> simp_all [List.mem_filter]
      | cons d r => cases d <;> simp only <;> (try split) <;> simp_all [List.mem_filter]
    rw [pruneLoop]
    split
    · rename_i s' heq
      have : s' = (stDelete s c).2 := by rw [heq]
      subst this; exact hkeep
    · rename_i s' heq
      have : s' = (stDelete s c).2 := by rw [heq]
      subst this; exact ih _ _ x hkeep hnc.2
    · rename_i s' heq
      have : s' = (stDelete s c).2 := by rw [heq]
      subst this; exact ih _ _ x hkeep hnc.2

/-! ## 3. The statement at full strength, and where it fails on this tree

`C01_full`: from every ledger with unique revisions and at most one deployed record, every
operation under every fault plan ends in such a ledger.  It is FALSE for the model (and for the
code): four proved counterexamples follow, each replayed on the implementation at every run. -/

def LInv (l : Ledger) : Prop := (revs l).Nodup ∧ countDeployed l ≤ 1

instance (l : Ledger) : Decidable (LInv l) := by unfold LInv; infer_instance

def C01_full : Prop :=
  ∀ (l : Ledger), LInv l →
    (∀ fl f fn p, LInv (install fl f fn p l).1.ledger) ∧
    (∀ fl f fn p, LInv (upgrade fl f fn p l).1.ledger) ∧
    (∀ fl f, LInv (rollback fl f l).1.ledger) ∧
    (∀ fl f, LInv (uninstall fl f l).1.ledger)

/-- (a) `install --replace` when the last revision is `failed` and an earlier one is still
`deployed`: `replaceRelease` only looks at the last record. -/
theorem counterexample_replace_over_deployed :
    let l : Ledger := [⟨1, .deployed, 1⟩, ⟨2, .failed, 2⟩]
    LInv l ∧ (install { replace := true } {} {} 3 l).2 = .success ∧
    countDeployed (install { replace := true } {} {} 3 l).1.ledger = 2 := by decide

/-- (b) the supersede write of an upgrade fails (its error is ignored) and the following
deployed write succeeds. -/
theorem counterexample_supersede_write_fails :
    let l : Ledger := [⟨1, .deployed, 1⟩]
    LInv l ∧ countDeployed (upgrade {} { st := [.ok, .fail, .ok] } {} 2 l).1.ledger = 2 := by decide

/-- (c) the final record of an install fails (its error is only logged): the operation reports
success but the revision it created is still `pending-install`. -/
theorem counterexample_success_not_recorded :
    (install {} { st := [.ok, .fail] } {} 1 []).2 = .success ∧
    (install {} { st := [.ok, .fail] } {} 1 []).1.ledger = [⟨1, .pendingInstall, 1⟩] := by decide

/-- (d) `upgrade --atomic` with a history limit of 2 whose wait fails: the rollback it starts does
not inherit the limit, three records remain although the deployed one is the newest. -/
theorem counterexample_atomic_exceeds_limit :
    let l : Ledger := [⟨1, .superseded, 1⟩, ⟨2, .deployed, 2⟩]
    (upgrade { atomic := true, maxHistory := 2 } { wait := .fail } {} 3 l).1.ledger =
      [⟨2, .superseded, 2⟩, ⟨3, .failed, 3⟩, ⟨4, .deployed, 2⟩] := by decide

theorem C01_full_is_false : ¬ C01_full := by
  intro h
  have h1 := (h [⟨1, .deployed, 1⟩] (by decide)).2.1 {} { st := [.ok, .fail, .ok] } {} 2
  revert h1; decide

/-! ## 4. What does hold on the fault-free paths (success post-conditions) -/

/-- upgrade on a healthy ledger, nothing failing: new revision = last + 1, it is the deployed
one, the previously deployed one is superseded (literal instance; the general statements over
all ledgers are `*_partial` theorems in progress, see DESIGN.md) -/
example :
    (upgrade { nHooks := 1 } {} {} 9 [⟨1, .superseded, 1⟩, ⟨2, .deployed, 2⟩]).1.ledger =
      [⟨1, .superseded, 1⟩, ⟨2, .superseded, 2⟩, ⟨3, .deployed, 9⟩] := by decide

example :
    (rollback { version := 1 } {} [⟨1, .superseded, 7⟩, ⟨2, .deployed, 8⟩]).1.ledger =
      [⟨1, .superseded, 7⟩, ⟨2, .superseded, 8⟩, ⟨3, .deployed, 7⟩] := by decide

example : (uninstall {} {} [⟨1, .superseded, 7⟩, ⟨2, .deployed, 8⟩]).1.ledger = [] := by decide

/-! ## 4. "After an operation reports success ..." for every well-formed history -/

/-- A fault-free upgrade (no history limit) of ANY history with unique revisions, at most one
deployed revision and a last revision that is not pending: it reports success; the revision it
created is exactly one above the highest and is now the highest; it is the one and only revision
marked deployed; the revision it built on is marked superseded; every other record is untouched;
revisions stay unique. -/
theorem upgrade_success_spec (fl : UpgradeFlags) (p : Nat) (l : Ledger) (lastRec cur : Rec)
    (hdry : fl.dryRun = false) (hmax : fl.maxHistory = 0) (hnd : (revs l).Nodup) (hc : countDeployed l ≤ 1)
    (hlast : last? l = some lastRec) (hnp : lastRec.status.isPending = false) (hcur : currentOf l = some cur) :
    let l' := (upgrade fl {} {} p l).1.ledger
    (upgrade fl {} {} p l).2 = .success ∧
    (revs l').Nodup ∧ maxRev l' = maxRev l + 1 ∧
    get? l' (maxRev l + 1) = some ⟨maxRev l + 1, .deployed, p⟩ ∧
    countDeployed l' = 1 ∧
    get? l' cur.rev = some { cur with status := .superseded } ∧
    ∀ x ∈ l, x.rev ≠ cur.rev → x ∈ l' :=
  upgrade_success_wellformed fl p l lastRec cur hdry hmax hnd hc hlast hnp hcur

/-- A fault-free install on a name without history, whatever the flags. -/
theorem install_success_spec (fl : InstallFlags) (p : Nat) (hdry : fl.dryRun = false) :
    (install fl {} {} p []).2 = .success ∧ (install fl {} {} p []).1.ledger = [⟨1, .deployed, p⟩] :=
  install_success fl p hdry

/-- A fault-free rollback (no history limit) on ANY history with unique revisions: success; every
revision that was marked deployed is marked superseded; the new revision is one above the highest
and carries the content (chart, values, manifest: the payload) of the target revision, marked
deployed; nothing else changes. -/
theorem rollback_success_spec (fl : RollbackFlags) (l : Ledger) (cur prevRec : Rec)
    (hdry : fl.dryRun = false) (hmax : fl.maxHistory = 0) (hnd : (revs l).Nodup)
    (hlast : last? l = some cur)
    (hprev : get? l (if fl.version = 0 then cur.rev - 1 else fl.version) = some prevRec) :
    (rollback fl {} l).2 = .success ∧
    (rollback fl {} l).1.ledger = supersedeDeployed l ++ [⟨cur.rev + 1, .deployed, prevRec.payload⟩] :=
  rollback_success fl l cur prevRec hdry hmax hnd hlast hprev

/-- A fault-free uninstall without keep-history of a release whose last revision is not already
uninstalled, on ANY history with unique revisions and with any number of hooks: success, and no
revision remains. -/
theorem uninstall_success_spec (fl : UninstallFlags) (l : Ledger) (rel : Rec)
    (hdry : fl.dryRun = false) (hkeep : fl.keepHistory = false) (hnd : (revs l).Nodup)
    (hlast : last? l = some rel) (hnu : rel.status ≠ .uninstalled) :
    (uninstall fl {} l).2 = .success ∧ (uninstall fl {} l).1.ledger = [] :=
  uninstall_success_purges fl l rel hdry hkeep hnd hlast hnu

/-- premises satisfiable: a history with a failed revision on top of the deployed one -/
example : (upgrade {} {} {} 9 [⟨1, .superseded, 1⟩, ⟨2, .deployed, 2⟩, ⟨3, .failed, 3⟩]).1.ledger =
    [⟨1, .superseded, 1⟩, ⟨2, .superseded, 2⟩, ⟨3, .failed, 3⟩, ⟨4, .deployed, 9⟩] := by decide

/-! ## 5. The order of storage and cluster calls in the source (regenerated at every run) -/

/-- The effect skeletons of the four operations are the ones the ledger model was written from:
which storage call, cluster call, hook phase and status assignment comes after which. -/
theorem action_skeletons_are_the_models :
    Helm.Gen.skelInstallRun = Helm.Spec.skelInstallRun ∧
    Helm.Gen.skelInstallPerform = Helm.Spec.skelInstallPerform ∧
    Helm.Gen.skelInstallFail = Helm.Spec.skelInstallFail ∧
    Helm.Gen.skelUpgradePrepare = Helm.Spec.skelUpgradePrepare ∧
    Helm.Gen.skelUpgradePerform = Helm.Spec.skelUpgradePerform ∧
    Helm.Gen.skelUpgradeReleasing = Helm.Spec.skelUpgradeReleasing ∧
    Helm.Gen.skelUpgradeFail = Helm.Spec.skelUpgradeFail ∧
    Helm.Gen.skelRollbackPrepare = Helm.Spec.skelRollbackPrepare ∧
    Helm.Gen.skelRollbackPerform = Helm.Spec.skelRollbackPerform ∧
    Helm.Gen.skelUninstallRun = Helm.Spec.skelUninstallRun := by decide

/-- ... in particular: the revision record is stored before the operation proper starts, the
previous revision is marked superseded only after the post-upgrade hooks, and the new one is
marked deployed last. -/
theorem upgrade_order_facts :
    Helm.Spec.precedes "Releases.Create" "u.releasingUpgrade" Helm.Gen.skelUpgradePerform = true ∧
    Helm.Spec.precedes "cfg.execHook:HookPostUpgrade" "set originalRelease StatusSuperseded" Helm.Gen.skelUpgradeReleasing = true ∧
    Helm.Spec.precedes "set originalRelease StatusSuperseded" "set upgradedRelease StatusDeployed" Helm.Gen.skelUpgradeReleasing = true := by
  decide

/-- The history flags are bound to the fields the ledger theorems are about (regenerated from pkg/cmd at every
run). -/
theorem history_flags_bound :
    Helm.Spec.forwardsAll Helm.Gen.upgradeFlags [("history-max", "client.MaxHistory")] = true ∧
    Helm.Spec.forwardsAll Helm.Gen.rollbackFlags [("history-max", "client.MaxHistory")] = true ∧
    Helm.Spec.forwardsAll Helm.Gen.uninstallFlags [("keep-history", "client.KeepHistory")] = true ∧
    Helm.Spec.forwardsAll Helm.Gen.installFlags [("replace", "client.Replace")] = true := by
  decide

end Helm.Props.C01
