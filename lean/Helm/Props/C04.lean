/-
C04  Every value comes from the highest-precedence source that defines it.
Property theorems only.
-/
import Helm.Model.Values
import Helm.Model.Strvals
import Helm.Model.Options
import Helm.Lemmas.Values
import Helm.Lemmas.Strvals
import Helm.Spec.Tables

namespace Helm.Props.C04
open Helm.Values Helm.Strvals Helm.Options

/-! ## 1. Value files: `MergeMaps(a, b)` -- the later file wins, maps merge key by key -/

/-- Key-by-key refinement of `MergeMaps`: where `b` is silent `a`'s binding stays; where both bind
a table the tables merge recursively; otherwise `b`'s value (scalar, list, null or table)
replaces `a`'s. -/
theorem mergeMaps_key (a b : Tbl) (hb : b.WF) (x : String) :
    (mergeMaps a b).get? x =
      match b.get? x with
      | none => a.get? x
      | some (.tbl bt) =>
        (match a.get? x with
         | some (.tbl at') => some (.tbl (mergeMaps at' bt))
         | _ => some (.tbl bt))
      | some v => some v := by
  unfold mergeMaps
  rw [get?_mergeInto a b hb x]
  cases h : b.get? x with
  | none => rfl
  | some v =>
    cases v <;> simp only [mergeVal]
    cases h2 : a.get? x with
    | none => rfl
    | some av => cases av <;> rfl

/-- At every path where the later file has a scalar / list / null, that value is the result. -/
theorem later_file_wins (a b : Tbl) (hb : b.WF) (p : List String) (v : Val)
    (h : lookupPath b p = some v) (hv : v.isTable = false) :
    lookupPath (mergeMaps a b) p = some v :=
  merge_leaf_wins p a b v hb h hv

/-- At every path the later file says nothing about, the earlier file's value stays. -/
theorem earlier_file_kept (a b : Tbl) (hb : b.WF) (p : List String) (h : untouched b p) :
    lookupPath (mergeMaps a b) p = lookupPath a p :=
  merge_untouched p a b hb h

/-- Any number of `-f` files: a leaf of the last file wins over everything before it. -/
theorem last_of_many_files_wins (base : Tbl) (fs : List Tbl) (f : Tbl) (hf : f.WF)
    (p : List String) (v : Val) (h : lookupPath f p = some v) (hv : v.isTable = false) :
    lookupPath ((fs ++ [f]).foldl mergeMaps base) p = some v := by
  rw [List.foldl_append]
  exact later_file_wins _ f hf p v h hv

/-- ... and a value survives any number of later files that do not mention its path. -/
theorem value_survives_silent_files (base : Tbl) (fs : List Tbl) (p : List String)
    (hfs : ∀ f ∈ fs, f.WF ∧ untouched f p) :
    lookupPath (fs.foldl mergeMaps base) p = lookupPath base p := by
  induction fs generalizing base with
  | nil => rfl
  | cons f fs ih =>
    simp only [List.foldl_cons]
    rw [ih (mergeMaps base f) (fun g hg => hfs g (List.mem_cons_of_mem _ hg))]
    exact earlier_file_kept base f (hfs f List.mem_cons_self).1 p (hfs f List.mem_cons_self).2

/-! ## 2. Coalescing: destination (user / parent) wins over source (defaults), null deletes -/

/-- Key-by-key refinement of `coalesceTablesFullKey(dst, src, merge)`. -/
theorem coalesce_key (merge : Bool) (dst src : Tbl) (hs : src.WF) (x : String) :
    (coalesceTables merge dst src).get? x =
      match src.get? x with
      | none => dst.get? x
      | some sv =>
        match dst.get? x with
        | none => some sv
        | some dv =>
          if !merge && dv.isNull then none
          else match sv, dv with
            | .tbl st, .tbl dt => some (.tbl (coalesceTables merge dt st))
            | _, _ => some dv :=
  get?_coalesceTables merge dst src hs x

/-- The higher-precedence side wins at every path where it has a non-null leaf. -/
theorem higher_precedence_wins (merge : Bool) (dst src : Tbl) (hs : src.WF) (p : List String)
    (v : Val) (h : lookupPath dst p = some v) (hv : v.isTable = false)
    (hn : merge = true ∨ v.isNull = false) :
    lookupPath (coalesceTables merge dst src) p = some v :=
  coalesce_dst_wins merge p dst src v hs h hv hn

/-- An explicit null over a default removes the key (coalesce mode) ... -/
theorem null_removes_default (dst src : Tbl) (hs : src.WF) (x : String) (sv : Val)
    (hd : dst.get? x = some .null) (hsrc : src.get? x = some sv) :
    (coalesceTables false dst src).get? x = none := by
  rw [coalesce_key false dst src hs x, hsrc, hd]; rfl

/-- ... and is preserved in merge mode (`MergeTables`, used while values are still being assembled). -/
theorem null_kept_when_merging (dst src : Tbl) (hs : src.WF) (x : String) (sv : Val)
    (hd : dst.get? x = some .null) (hsrc : src.get? x = some sv) :
    (coalesceTables true dst src).get? x = some .null := by
  rw [coalesce_key true dst src hs x, hsrc, hd]
  cases sv <;> rfl

/-- Defaults fill exactly the keys the higher-precedence side does not bind. -/
theorem default_fills_gap (merge : Bool) (dst src : Tbl) (hs : src.WF) (x : String)
    (hd : dst.get? x = none) : (coalesceTables merge dst src).get? x = src.get? x := by
  rw [coalesce_key merge dst src hs x, hd]
  cases src.get? x <;> rfl

/-! ## 3. Flag families are applied in the documented order -/

/-- Regenerated from options.go at every run: files, then --set-json, --set, --set-string,
--set-file, --set-literal; every later application overrides (`mergeValues` below). -/
theorem valueFlagOrder_is_spec : Helm.Gen.valueFlagOrder = Helm.Spec.valueFlagOrder := by decide

/-- `MergeValues` is the composition, in that order, of: fold of `MergeMaps` over the files and
JSON objects, then the set expressions of each family applied one after the other to the same map. -/
theorem mergeValues_order (o : Opts) :
    mergeValues o =
      ((applySets .typed o.set ((o.json.foldl mergeMaps (o.files.foldl mergeMaps Tbl.nil)))).bind fun b =>
       (applySets .string o.setString b).bind fun b =>
       (applySets (.file o.fileContents) o.setFile b).bind fun b =>
       applySets .literal o.setLiteral b) := rfl

/-! ## 4. `--set`: parser limits and totality -/

theorem limits_are_spec : Helm.Gen.maxIndex = 65536 ∧ Helm.Gen.maxNestedNameLevel = 30 := by decide

/-- No input makes the parser crash: the only panic sites (type assertions on existing values)
are all under the `recover` of `key`. -/
theorem set_never_panics (m : Mode) (s : Str) (dest : Tbl) :
    (parseInto m s dest).2 ≠ some .panic :=
  parseInto_no_panic m s dest

/-- Indexes beyond the limit are rejected, those within are accepted. -/
theorem index_limit (l : VList) (i : Int) (v : Val) :
    (setIndex l i v).toOption.isSome ↔ (0 ≤ i ∧ i ≤ 65536) := by
  unfold setIndex
  have : (Helm.Gen.maxIndex : Int) = 65536 := by decide
  rw [this]
  by_cases h1 : i < 0 <;> by_cases h2 : i > 65536 <;> simp [h1, h2, Except.toOption] <;> omega

end Helm.Props.C04
