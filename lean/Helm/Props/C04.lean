/-
C04  Every value comes from the highest-precedence source that defines it.
Property theorems only.
-/
import Helm.Model.Values
import Helm.Model.Strvals
import Helm.Model.Options
import Helm.Lemmas.Values
import Helm.Lemmas.Strvals
import Helm.Lemmas.StrvalsPath
import Helm.Spec.Tables

namespace Helm.Props.C04
open Helm.Values Helm.Strvals Helm.Options

/-! ## 1. Value files: `MergeMaps(a, b)` -- the later file wins, maps merge key by key -/

/-- Key-by-key refinement of `MergeMaps`: where `b` is silent `a`'s binding stays; where both bind
a table the tables merge recursively; otherwise `b`'s value (scalar, list, null or table)
replaces `a`'s. -/
theorem mergeMaps_key (a b : Tbl) (hb : b.WF) (x : String) :
    (mergeMaps a b).get? x =
      match b.get? x with
      | none => a.get? x
      | some (.tbl bt) =>
        (match a.get? x with
         | some (.tbl at') => some (.tbl (mergeMaps at' bt))
         | _ => some (.tbl bt))
      | some v => some v := by
  unfold mergeMaps
  rw [get?_mergeInto a b hb x]
  cases h : b.get? x with
  | none => rfl
  | some v =>
    cases v <;> simp only [mergeVal]
    cases h2 : a.get? x with
    | none => rfl
    | some av => cases av <;> rfl

/-- At every path where the later file has a scalar / list / null, that value is the result. -/
theorem later_file_wins (a b : Tbl) (hb : b.WF) (p : List String) (v : Val)
    (h : lookupPath b p = some v) (hv : v.isTable = false) :
    lookupPath (mergeMaps a b) p = some v :=
  merge_leaf_wins p a b v hb h hv

/-- At every path the later file says nothing about, the earlier file's value stays. -/
theorem earlier_file_kept (a b : Tbl) (hb : b.WF) (p : List String) (h : untouched b p) :
    lookupPath (mergeMaps a b) p = lookupPath a p :=
  merge_untouched p a b hb h

/-- Any number of `-f` files: a leaf of the last file wins over everything before it. -/
theorem last_of_many_files_wins (base : Tbl) (fs : List Tbl) (f : Tbl) (hf : f.WF)
    (p : List String) (v : Val) (h : lookupPath f p = some v) (hv : v.isTable = false) :
    lookupPath ((fs ++ [f]).foldl mergeMaps base) p = some v := by
  rw [List.foldl_append]
  exact later_file_wins _ f hf p v h hv

/-- ... and a value survives any number of later files that do not mention its path. -/
theorem value_survives_silent_files (base : Tbl) (fs : List Tbl) (p : List String)
    (hfs : ∀ f ∈ fs, f.WF ∧ untouched f p) :
    lookupPath (fs.foldl mergeMaps base) p = lookupPath base p := by
  induction fs generalizing base with
  | nil => rfl
  | cons f fs ih =>
    simp only [List.foldl_cons]
    rw [ih (mergeMaps base f) (fun g hg => hfs g (List.mem_cons_of_mem _ hg))]
    exact earlier_file_kept base f (hfs f List.mem_cons_self).1 p (hfs f List.mem_cons_self).2

/-! ## 2. Coalescing: destination (user / parent) wins over source (defaults), null deletes -/

/-- Key-by-key refinement of `coalesceTablesFullKey(dst, src, merge)`. -/
theorem coalesce_key (merge : Bool) (dst src : Tbl) (hs : src.WF) (x : String) :
    (coalesceTables merge dst src).get? x =
      match src.get? x with
      | none => dst.get? x
      | some sv =>
        match dst.get? x with
        | none => some sv
        | some dv =>
          if !merge && dv.isNull then none
          else match sv, dv with
            | .tbl st, .tbl dt => some (.tbl (coalesceTables merge dt st))
            | _, _ => some dv :=
  get?_coalesceTables merge dst src hs x

/-- The higher-precedence side wins at every path where it has a non-null leaf. -/
theorem higher_precedence_wins (merge : Bool) (dst src : Tbl) (hs : src.WF) (p : List String)
    (v : Val) (h : lookupPath dst p = some v) (hv : v.isTable = false)
    (hn : merge = true ∨ v.isNull = false) :
    lookupPath (coalesceTables merge dst src) p = some v :=
  coalesce_dst_wins merge p dst src v hs h hv hn

/-- An explicit null over a default removes the key (coalesce mode) ... -/
theorem null_removes_default (dst src : Tbl) (hs : src.WF) (x : String) (sv : Val)
    (hd : dst.get? x = some .null) (hsrc : src.get? x = some sv) :
    (coalesceTables false dst src).get? x = none := by
  rw [coalesce_key false dst src hs x, hsrc, hd]; rfl

/-- ... and is preserved in merge mode (`MergeTables`, used while values are still being assembled). -/
theorem null_kept_when_merging (dst src : Tbl) (hs : src.WF) (x : String) (sv : Val)
    (hd : dst.get? x = some .null) (hsrc : src.get? x = some sv) :
    (coalesceTables true dst src).get? x = some .null := by
  rw [coalesce_key true dst src hs x, hsrc, hd]
  cases sv <;> rfl

/-- Defaults fill exactly the keys the higher-precedence side does not bind. -/
theorem default_fills_gap (merge : Bool) (dst src : Tbl) (hs : src.WF) (x : String)
    (hd : dst.get? x = none) : (coalesceTables merge dst src).get? x = src.get? x := by
  rw [coalesce_key merge dst src hs x, hd]
  cases src.get? x <;> rfl

/-! ## 3. Flag families are applied in the documented order -/

/-- Regenerated from options.go at every run: files, then --set-json, --set, --set-string,
--set-file, --set-literal; every later application overrides (`mergeValues` below). -/
theorem valueFlagOrder_is_spec : Helm.Gen.valueFlagOrder = Helm.Spec.valueFlagOrder := by decide

/-- `MergeValues` is the composition, in that order, of: fold of `MergeMaps` over the files and
JSON objects, then the set expressions of each family applied one after the other to the same map. -/
theorem mergeValues_order (o : Opts) :
    mergeValues o =
      ((applySets .typed o.set ((o.json.foldl mergeMaps (o.files.foldl mergeMaps Tbl.nil)))).bind fun b =>
       (applySets .string o.setString b).bind fun b =>
       (applySets (.file o.fileContents) o.setFile b).bind fun b =>
       applySets .literal o.setLiteral b) := rfl

/-! ## 4. `--set`: parser limits and totality -/

theorem limits_are_spec : Helm.Gen.maxIndex = 65536 ∧ Helm.Gen.maxNestedNameLevel = 30 := by decide

/-- No input makes the parser crash: the only panic sites (type assertions on existing values)
are all under the `recover` of `key`. -/
theorem set_never_panics (m : Mode) (s : Str) (dest : Tbl) :
    (parseInto m s dest).2 ≠ some .panic :=
  parseInto_no_panic m s dest

/-- Indexes beyond the limit are rejected, those within are accepted. -/
theorem index_limit (l : VList) (i : Int) (v : Val) :
    (setIndex l i v).toOption.isSome ↔ (0 ≤ i ∧ i ≤ 65536) := by
  unfold setIndex
  have : (Helm.Gen.maxIndex : Int) = 65536 := by decide
  rw [this]
  by_cases h1 : i < 0 <;> by_cases h2 : i > 65536 <;> simp [h1, h2, Except.toOption] <;> omega

/-! ## 5. `--set` / `--set-string`: an expression changes exactly the path it names -/

/-- Round trip of the documented escaping, for **every** key path (segments are arbitrary
non-empty rune strings: dots, commas, equals signs, brackets, braces, backslashes, spaces,
unicode ...) and every value string: parsing `k1.k2.….kn=v`, each part rendered with the
backslash escaping, stores exactly the value at exactly that path of the destination map.
`--set-string` stores the string; `--set` stores `typedVal v`.
Guards (each is what the real parser rejects otherwise): at most 31 segments
(MaxNestedNameLevel + 1); every proper prefix of the path is absent or a map in `dest`. -/
theorem set_roundtrip (m : Mode) (hm : m = .typed ∨ m = .string) (ks : List Str) (v : Str)
    (dest : Tbl) (hks : ks ≠ []) (hne : ∀ k ∈ ks, k ≠ [])
    (hlen : ks.length ≤ Helm.Gen.maxNestedNameLevel + 1) (hc : compat ks dest) :
    parseInto m (pathExpr ks v) dest = (setPath ks dest (reader m v), none) :=
  parseInto_path m hm ks v dest hks hne hlen hc

/-- premises are satisfiable by a non-trivial state -/
example : compat [['a'], ['.', 'b']] (.cons "a" (.tbl (.cons "x" .null .nil)) .nil) := by
  simp [compat, Tbl.get?]

/-- After the parse the named path holds the value ... -/
theorem set_hits_path (ks : List Str) (t : Tbl) (v : Val) (hks : ks ≠ []) :
    lookupStr (setPath ks t v) ks = some v :=
  setPath_hit ks t v hks

/-- ... and every path that is neither a prefix nor an extension of it reads as before. -/
theorem set_frame (ks q : List Str) (t : Tbl) (v : Val) (hd : diverge ks q) (hc : compat ks t) :
    lookupStr (setPath ks t v) q = lookupStr t q :=
  setPath_frame ks q t v hd hc

/-- `--set-string` never converts. -/
theorem set_string_keeps_text (v : Str) : reader .string v = .str (String.ofList v) := rfl

/-- `--set` type rules on concrete literals (tests of the `typedVal` model, labelled as tests). -/
example : typedVal "true".toList false = .bool true ∧ typedVal "FALSE".toList false = .bool false ∧
    typedVal "Null".toList false = .null ∧ typedVal "0".toList false = .num "0" ∧
    typedVal "007".toList false = .str "007" ∧ typedVal "12".toList false = .num "12" ∧
    typedVal "-5".toList false = .num "-5" ∧ typedVal "1.5".toList false = .str "1.5" ∧
    typedVal "9223372036854775808".toList false = .str "9223372036854775808" := by
  refine ⟨?_, ?_, ?_, ?_, ?_, ?_, ?_, ?_, ?_⟩ <;> rfl

end Helm.Props.C04
