/-
C19  Repository credentials are sent only to the repository's own host.
Property theorems only.
-/
import Helm.Model.Creds

namespace Helm.Props.C19
open Helm.Creds

/-! ## 1. The decision in the HTTP getter, stated outright -/

theorem auth_decision (o : Opts) (href : Origin) :
    sendsAuth o href = true ↔
      (o.user ≠ "" ∧ o.pass ≠ "") ∧ (o.passAll = true ∨ (o.url.scheme = href.scheme ∧ o.url.host = href.host)) := by
  simp only [sendsAuth, sameOrigin, Bool.and_eq_true, Bool.or_eq_true, decide_eq_true_eq, ne_eq]
  constructor
  · rintro ⟨h1, h2⟩; exact ⟨h2, h1⟩
  · rintro ⟨h1, h2⟩; exact ⟨h2, h1⟩

/-- Without pass-credentials nothing is attached to a request whose scheme or host (with port)
differs from the getter URL's. -/
theorem other_origin_gets_nothing (o : Opts) (href : Origin) (hp : o.passAll = false)
    (hd : o.url.scheme ≠ href.scheme ∨ o.url.host ≠ href.host) : sendsAuth o href = false := by
  cases h : sendsAuth o href with
  | false => rfl
  | true =>
    obtain ⟨_, h2⟩ := (auth_decision o href).mp h
    rcases h2 with h2 | ⟨h3, h4⟩
    · rw [hp] at h2; cases h2
    · rcases hd with hd | hd
      · exact absurd h3 hd
      · exact absurd h4 hd

/-- Options fold left to right: the last `WithURL` / `WithBasicAuth` / pass-credentials wins. -/
theorem options_fold (o : Opts) (l : List Opt) (x : Opt) :
    applyOpts o (l ++ [x]) = applyOpt (applyOpts o l) x := by
  simp [applyOpts, List.foldl_append]

/-! ## 2. Per call path: credentials of repository R reach only R's origin -/

theorem applyOpts_repoOpts_creds (o : Opts) (rc : Repo) (h : rc.hasCreds = true) :
    applyOpts o (repoOpts rc) = { url := rc.url, user := rc.user, pass := rc.pass, passAll := rc.passAll } := by
  simp [applyOpts, repoOpts, h, applyOpt]

/-- `reponame/chart` references (also what `helm install repo/chart` uses): whatever URL the
index lists for the chart -- relative, absolute, on another host -- the repository's
credentials go with the request only if that URL is on the repository's origin, or
pass-credentials is set for the repository. Holds for the chart and for its `.prov`. -/
theorem named_repo_scoped (initial : List Opt) (rc : Repo) (href : Origin) (hc : rc.hasCreds = true)
    (h : sendsAuth (applyOpts {} (resolveNamed initial rc)) href = true) :
    rc.passAll = true ∨ sameOrigin rc.url href = true := by
  unfold resolveNamed at h
  rw [show applyOpts {} (initial ++ repoOpts rc) = applyOpts (applyOpts {} initial) (repoOpts rc) by
    simp [applyOpts, List.foldl_append]] at h
  rw [applyOpts_repoOpts_creds _ rc hc] at h
  simp only [sendsAuth, Bool.and_eq_true, Bool.or_eq_true] at h
  exact h.1

/-- Absolute chart URL owned by a configured repository with credentials: same scoping. -/
theorem owned_url_scoped (initial : List Opt) (rc : Repo) (ref : Origin) (hc : rc.hasCreds = true)
    (h : sendsAuth (applyOpts {} (resolveAbs initial ref (some rc))) ref = true) :
    rc.passAll = true ∨ sameOrigin rc.url ref = true :=
  named_repo_scoped initial rc ref hc h

/-- `helm install --repo URL chart` (LocateChart): the user's credentials for the repository go
to the chart URL only if it is on the repository's origin or pass-credentials is set. -/
theorem locate_chart_scoped (user pass : String) (passAll : Bool) (repoURL chartURL : Origin)
    (h : sendsAuth (applyOpts {} (locateChartRepoURL user pass passAll repoURL chartURL none)) chartURL = true) :
    passAll = true ∨ sameOrigin repoURL chartURL = true := by
  unfold locateChartRepoURL resolveAbs at h
  by_cases hc : (passAll || sameOrigin repoURL chartURL) = true
  · simpa using hc
  · simp only [hc, Bool.false_eq_true, if_false] at h
    simp [applyOpts, applyOpt, sendsAuth] at h

/-- Dependency update, chart URL owned by the dependency's own repository. -/
theorem manager_scoped (depRepo : Repo) (churl : Origin) (hc : depRepo.hasCreds = true)
    (h : sendsAuth (applyOpts {} (managerDownload depRepo churl (some depRepo))) churl = true) :
    depRepo.passAll = true ∨ sameOrigin depRepo.url churl = true :=
  owned_url_scoped _ depRepo churl hc h

/-! ## 3. Where the property does not hold (proved counterexamples, replayed on the code) -/

/-- `helm pull --repo`: unlike LocateChart, `Pull.Run` keeps the credentials and the chart URL
itself becomes the getter URL, so the same-origin test passes trivially: the repository's
credentials are sent to a chart URL on another host (known finding C19:pull-repo-cross-origin). -/
theorem counterexample_pull_repo :
    let repo : Origin := ⟨"http", "repo.test"⟩
    let chart : Origin := ⟨"http", "charts.elsewhere.test"⟩
    sameOrigin repo chart = false ∧
    sendsAuth (applyOpts {} (pullRepoURL "user" "secret" false chart none)) chart = true := by decide

/-- Dependency update when the chart URL has no owner among the configured repositories
(index lists it relatively, or the repository is not configured): the dependency repository's
credentials go to the chart URL whatever its origin; harmless exactly when the chart URL is on
the repository's origin (relative index URLs), which is what the theorem records. -/
theorem manager_unowned_sends (depRepo : Repo) (churl : Origin) (hc : depRepo.hasCreds = true) :
    sendsAuth (applyOpts {} (managerDownload depRepo churl none)) churl = true := by
  simp only [Repo.hasCreds, Bool.and_eq_true, decide_eq_true_eq] at hc
  simp [managerDownload, resolveAbs, applyOpts, applyOpt, sendsAuth, sameOrigin, hc.1, hc.2]

/-- Dependency update, chart URL also listed by ANOTHER configured repository that has no
credentials of its own and is on the chart URL's origin: the dependency repository's credentials
stay in the options and are sent to that foreign origin. -/
theorem counterexample_manager_foreign_owner :
    let r : Repo := { url := ⟨"http", "repo.test"⟩, user := "user", pass := "secret" }
    let other : Repo := { url := ⟨"http", "mirror.test"⟩ }
    let churl : Origin := ⟨"http", "mirror.test"⟩
    sameOrigin r.url churl = false ∧
    sendsAuth (applyOpts {} (managerDownload r churl (some other))) churl = true := by decide

end Helm.Props.C19
