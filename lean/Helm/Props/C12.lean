/-
C12  Hooks run in weight order, gate the operation, and honour delete policies.
Property theorems only (lemmas: Helm/Lemmas/Hooks.lean; model: Helm/Model/Hooks.lean).
Every hook list (weights incl. negative and equal, names, events, policy combinations), every
set of failing hooks, every set of hook objects left in the cluster by earlier runs.

"Hook resources are never part of the release manifest" is C08's partition theorem
(Helm.Props.C08); it is not repeated here.

One shape where "deleted exactly when the policy says so" fails is proved as a counterexample
and replayed on the implementation (known finding): when the *creation* of a hook is refused
(a same-named object is left from an earlier run and the hook does not carry
before-hook-creation), execHook returns at once and the earlier, successful hooks that carry
hook-succeeded are not deleted -- unlike when a hook's watch fails.
-/
import Helm.Lemmas.Hooks
import Helm.Gen.Tables
import Helm.Spec.Skeletons

namespace Helm.Props.C12
open Helm.Hooks

/-! ### order -/

/-- The hooks of an event are executed in ascending weight, ties by name ... -/
theorem executing_hooks_sorted (hooks : List Hook) (ev : String) :
    (sortHooks (selectHooks hooks ev)).Pairwise hookLe := sortHooks_sorted _

/-- ... where `hookLe` is what it should be ... -/
theorem hookLe_spec (a b : Hook) :
    hookLe a b ↔ a.weight < b.weight ∨ (a.weight = b.weight ∧ a.name ≤ b.name) := hookLe_iff a b

/-- ... they are exactly the hooks that carry the event ... -/
theorem executing_hooks_perm (hooks : List Hook) (ev : String) :
    (sortHooks (selectHooks hooks ev)).Perm (selectHooks hooks ev) := sortHooks_perm _

theorem selected_iff (hooks : List Hook) (ev : String) (h : Hook) :
    h ∈ selectHooks hooks ev ↔ h ∈ hooks ∧ ev ∈ h.events := by
  unfold selectHooks
  simp only [List.mem_flatMap, List.mem_map, List.mem_filter, decide_eq_true_eq]
  constructor
  · rintro ⟨x, hx, e, ⟨he, hev⟩, rfl⟩
    exact ⟨hx, hev ▸ he⟩
  · rintro ⟨hh, he⟩
    exact ⟨h, hh, ev, ⟨he, rfl⟩, rfl⟩

/-- ... and hooks of equal weight and name keep the order of the release's hook list. -/
theorem executing_hooks_stable (hooks : List Hook) (ev : String) (k : Hook) :
    (sortHooks (selectHooks hooks ev)).filter (sameKey k) = (selectHooks hooks ev).filter (sameKey k) :=
  sortHooks_stable _ k

/-- The hook objects created are a prefix of that sorted list: in order, none skipped. -/
theorem created_in_order (fails : String → Bool) (ex : List String) (hooks : List Hook) (ev : String) :
    (execHook fails ex hooks ev).evs.filterMap createOf <+: (sortHooks (selectHooks hooks ev)).map (·.key) :=
  run_creates_prefix fails ex [] _

/-- One at a time: each create is followed at once by the watch of that same hook, and nothing
else happens until the watch has returned. -/
theorem one_at_a_time (fails : String → Bool) (ex : List String) (hooks : List Hook) (ev : String) :
    seqOk none (execHook fails ex hooks ev).evs = true :=
  run_sequential fails ex [] _

/-! ### delete policies (hooks carrying before-hook-creation, which is the default) -/

/-- All succeed: each hook is deleted first iff before-hook-creation (always, here), created,
watched; afterwards exactly the hooks whose policy says hook-succeeded are deleted (in reverse). -/
theorem all_succeed_trace (fails : String → Bool) (ex : List String) (hooks : List Hook) (ev : String)
    (hf : ∀ h ∈ hooks, fails h.name = false) (hb : ∀ h ∈ hooks, hasPol h .before = true) :
    let todo := sortHooks (selectHooks hooks ev)
    (execHook fails ex hooks ev).ok = true ∧
    (execHook fails ex hooks ev).evs = todo.flatMap block ++ todo.reverse.flatMap (delIf · .succeeded) := by
  intro todo
  have hm : ∀ h ∈ todo, h ∈ hooks := fun h hh =>
    ((selected_iff hooks ev h).mp ((sortHooks_perm _).subset hh)).1
  have := run_all_succeed fails ex [] todo (fun h hh => hf h (hm h hh)) (fun h hh => hb h (hm h hh))
  simpa [execHook] using this

/-- The first failing hook: hooks before it ran to completion, it is deleted iff its policy says
hook-failed, the earlier ones iff theirs says hook-succeeded, and no later hook is created. -/
theorem first_failure_trace (fails : String → Bool) (ex : List String) (hooks : List Hook) (ev : String)
    (a b : List Hook) (h : Hook) (hs : sortHooks (selectHooks hooks ev) = a ++ h :: b)
    (hf : ∀ x ∈ a, fails x.name = false) (hh : fails h.name = true)
    (hb : ∀ x ∈ hooks, hasPol x .before = true) :
    (execHook fails ex hooks ev).ok = false ∧
    (execHook fails ex hooks ev).evs =
      a.flatMap block ++ block h ++ delIf h .failed ++ a.flatMap (delIf · .succeeded) := by
  have hm : ∀ x ∈ a ++ [h], hasPol x .before = true := by
    intro x hx
    apply hb
    have : x ∈ sortHooks (selectHooks hooks ev) := by
      rw [hs]; simp at hx ⊢; rcases hx with hx | hx <;> simp [hx]
    exact ((selected_iff hooks ev x).mp ((sortHooks_perm _).subset this)).1
  have := run_first_failure fails ex [] a b h hf hh hm
  unfold execHook
  rw [hs]
  simpa using this

/-- Success of the event means every hook was created and none failed. -/
theorem ok_means_all_ran (fails : String → Bool) (ex : List String) (hooks : List Hook) (ev : String)
    (hok : (execHook fails ex hooks ev).ok = true) :
    (execHook fails ex hooks ev).evs.filterMap createOf = (sortHooks (selectHooks hooks ev)).map (·.key) ∧
    ∀ h ∈ hooks, ev ∈ h.events → fails h.name = false := by
  obtain ⟨h1, h2⟩ := run_ok fails ex [] _ hok
  refine ⟨h1, fun h hh he => h2 h ((sortHooks_perm _).symm.subset ((selected_iff hooks ev h).mpr ⟨hh, he⟩))⟩

/-! ### gating -/

/-- A failing pre-hook: the operation fails, the resource phase is never reached (nothing of
the release is created, changed or deleted) and no post-hook runs. -/
theorem pre_hook_failure_gates (fails : String → Bool) (resFails : Bool) (ex : List String) (hooks : List Hook)
    (pre post : String) (h : (execHook fails ex hooks pre).ok = false) :
    operation fails false resFails ex hooks pre post = execHook fails ex hooks pre ∧
    (operation fails false resFails ex hooks pre post).ok = false := by
  unfold operation
  simp [h]

theorem hook_traces_have_no_resource_phase (fails : String → Bool) (ex : List String) (done todo : List Hook) :
    HEv.res ∉ (runHooks fails ex done todo).evs := by
  induction todo generalizing ex done with
  | nil => simp [runHooks, delIf]
  | cons h rest ih =>
    rw [runHooks]
    dsimp only
    have hd : ∀ (x : Hook) (p : Policy), HEv.res ∉ delIf x p := by
      intro x p; unfold delIf; split <;> simp
    have hds : ∀ (l : List Hook) (p : Policy), HEv.res ∉ l.flatMap (delIf · p) := by
      intro l p hm
      obtain ⟨x, _, hx⟩ := List.mem_flatMap.mp hm
      exact hd x p hx
    split
    · simp [hd]
    · split
      · simp [hd, hds]
      · simp [hd, ih]

theorem pre_hook_failure_no_resource_event (fails : String → Bool) (resFails : Bool) (ex : List String)
    (hooks : List Hook) (pre post : String) (h : (execHook fails ex hooks pre).ok = false) :
    HEv.res ∉ (operation fails false resFails ex hooks pre post).evs := by
  rw [(pre_hook_failure_gates fails resFails ex hooks pre post h).1]
  exact hook_traces_have_no_resource_phase fails ex [] _

/-- A failing post-hook fails the operation. -/
theorem post_hook_failure_fails_operation (fails : String → Bool) (ex : List String) (hooks : List Hook)
    (pre post : String) (h1 : (execHook fails ex hooks pre).ok = true)
    (h2 : (execHook fails (execHook fails ex hooks pre).ex hooks post).ok = false) :
    (operation fails false false ex hooks pre post).ok = false := by
  unfold operation
  simp [h1, h2]

/-- Pre-hooks strictly before the resource phase, post-hooks strictly after. -/
theorem operation_order (fails : String → Bool) (ex : List String) (hooks : List Hook) (pre post : String)
    (h1 : (execHook fails ex hooks pre).ok = true) :
    (operation fails false false ex hooks pre post).evs =
      (execHook fails ex hooks pre).evs ++ [.res] ++ (execHook fails (execHook fails ex hooks pre).ex hooks post).evs := by
  unfold operation
  simp [h1]

/-- With hooks disabled no hook object is created, watched or deleted. -/
theorem disabled_hooks_none_created (fails : String → Bool) (resFails : Bool) (ex : List String)
    (hooks : List Hook) (pre post : String) :
    (operation fails true resFails ex hooks pre post).evs = [.res] := by
  unfold operation
  simp

/-! ### where the full statement fails -/

def hkA : Hook := { key := "a", name := "a", weight := 0, events := ["pre-upgrade"], policies := [.before, .succeeded] }
def hkB : Hook := { key := "b", name := "b", weight := 1, events := ["pre-upgrade"], policies := [.failed] }

/-- `b` is left from an earlier run and does not carry before-hook-creation: its creation is
refused, and `a` -- which succeeded and carries hook-succeeded -- is not deleted. -/
theorem counterexample_succeeded_not_deleted_on_create_failure :
    (execHook (fun _ => false) ["b"] [hkA, hkB] "pre-upgrade").ok = false ∧
    (execHook (fun _ => false) ["b"] [hkA, hkB] "pre-upgrade").evs =
      [.del "a", .create "a", .watch "a", .create "b"] ∧
    "a" ∈ (execHook (fun _ => false) ["b"] [hkA, hkB] "pre-upgrade").ex := by decide

/-- non-vacuity: three hooks, equal and negative weights, the middle one fails -/
example :
    let hs : List Hook := [{ key := "z", name := "z", weight := -1, events := ["e"], policies := [.before, .succeeded] },
      { key := "b", name := "b", weight := 0, events := ["e"], policies := [.before, .failed] }, { key := "a", name := "a", weight := 0, events := ["e", "f"] }]
    (execHook (fun n => n = "b") [] hs "e").evs =
      [.del "z", .create "z", .watch "z", .del "a", .create "a", .watch "a", .del "b", .create "b", .watch "b", .del "b", .del "z"] := by
  decide

/-! ### the shape of execHook and of the operations in the source (regenerated at every run) -/

/-- `execHook`: delete by before-hook-creation, (record,) create, watch; on failure delete the
failed hook by hook-failed and the earlier ones by hook-succeeded; at the end delete by
hook-succeeded -- the calls the model's `runHooks` was written from, in this order. -/
theorem exec_hook_skeleton : Helm.Gen.skelExecHook = Helm.Spec.skelExecHook := by decide

/-- Pre-hooks come before the resource phase and post-hooks after the wait, in all four operations. -/
theorem hooks_around_resources :
    Helm.Spec.precedes "cfg.execHook:HookPreInstall" "KubeClient.Create" Helm.Gen.skelInstallPerform = true ∧
    Helm.Spec.precedes "waiter.Wait" "cfg.execHook:HookPostInstall" Helm.Gen.skelInstallPerform = true ∧
    Helm.Spec.precedes "cfg.execHook:HookPreUpgrade" "KubeClient.Update" Helm.Gen.skelUpgradeReleasing = true ∧
    Helm.Spec.precedes "waiter.Wait" "cfg.execHook:HookPostUpgrade" Helm.Gen.skelUpgradeReleasing = true ∧
    Helm.Spec.precedes "cfg.execHook:HookPreRollback" "KubeClient.Update" Helm.Gen.skelRollbackPerform = true ∧
    Helm.Spec.precedes "waiter.Wait" "cfg.execHook:HookPostRollback" Helm.Gen.skelRollbackPerform = true ∧
    Helm.Spec.precedes "cfg.execHook:HookPreDelete" "u.deleteRelease" Helm.Gen.skelUninstallRun = true ∧
    Helm.Spec.precedes "waiter.WaitForDelete" "cfg.execHook:HookPostDelete" Helm.Gen.skelUninstallRun = true := by decide

/-- `--no-hooks` is bound to DisableHooks in all four commands (regenerated from pkg/cmd at every run). -/
theorem no_hooks_flag_bound :
    Helm.Spec.forwardsAll Helm.Gen.installFlags [("no-hooks", "client.DisableHooks")] = true ∧
    Helm.Spec.forwardsAll Helm.Gen.upgradeFlags [("no-hooks", "client.DisableHooks")] = true ∧
    Helm.Spec.forwardsAll Helm.Gen.rollbackFlags [("no-hooks", "client.DisableHooks")] = true ∧
    Helm.Spec.forwardsAll Helm.Gen.uninstallFlags [("no-hooks", "client.DisableHooks")] = true := by
  decide

end Helm.Props.C12
