/-
C20  Malformed external input produces an error, never a crash.
Property theorems only.  The models produce `panic` exactly at the modelled Go panic sites
(single-value type assertions, nil dereferences) and remove it only where the source has
`recover`; Lean's termination checker is the argument for "no unbounded recursion" of the
modelled parsers.  Entry points whose parsing is a library (YAML, JSON, tar, OpenPGP,
text/template) have no model: for them the correspondence is robustness testing, labelled so.
-/
import Helm.Model.Strvals
import Helm.Model.Storage
import Helm.Model.Index
import Helm.Model.ImportValues
import Helm.Lemmas.Strvals
import Helm.Lemmas.Index
import Helm.Model.ArchivePath
import Helm.Lemmas.Recursion
import Helm.Gen.Tables

namespace Helm.Props.C20

/-! ## value-flag strings -/

/-- No `--set` / `--set-string` / `--set-file` / `--set-literal` string, on any destination
map, makes the parser crash. -/
theorem strvals_never_panics (m : Helm.Strvals.Mode) (s : List Char) (dest : Helm.Values.Tbl) :
    (Helm.Strvals.parseInto m s dest).2 ≠ some .panic :=
  Helm.Strvals.parseInto_no_panic m s dest

/-- ... and a single key never leaks a panic out of its `recover`. -/
theorem strvals_key_recovers (m : Helm.Strvals.Mode) (fuel : Nat) (data : Helm.Values.Tbl) (level : Nat)
    (s : List Char) : (Helm.Strvals.key m fuel data level s).err ≠ some .panic :=
  Helm.Strvals.key_no_panic m fuel data level s

/-- The depth limit: a name nested deeper than `MaxNestedNameLevel` is rejected at the dot
(no unbounded recursion on the key path). -/
theorem strvals_nesting_limit (m : Helm.Strvals.Mode) (n : Nat) (data : Helm.Values.Tbl) (level : Nat)
    (s k rest : List Char)
    (h : Helm.Strvals.runesUntil (Helm.Strvals.esc m) (Helm.Strvals.keyStop m) s [] = (k, some '.', rest))
    (hl : level + 1 > Helm.Gen.maxNestedNameLevel) :
    Helm.Strvals.key m (n + 1) data level s = ⟨data, some .err, rest⟩ := by
  rw [Helm.Strvals.key, h]
  split
  all_goals (try (rename_i heq; simp at heq; done))
  rename_i heq
  cases heq
  simp [hl]

/-! ## stored release records -/

/-- A list over stored records never crashes, whatever records are stored, and skips the
unreadable ones. -/
theorem storage_list_never_panics (getPanics : Bool) (s : Helm.Storage.Objs) (st : Option String) :
    ∃ rs, (Helm.Storage.objStep getPanics s (.list st)).2 = .rels rs := ⟨_, rfl⟩

/-- A query never crashes either. -/
theorem storage_query_never_panics (getPanics : Bool) (s : Helm.Storage.Objs) (q : List (String × String)) :
    (Helm.Storage.objStep getPanics s (.query q)).2 ≠ .panic := by
  simp only [Helm.Storage.objStep]
  split <;> simp

/-- `Get` returns an error on an undecodable record (no crash) on both object drivers ... -/
theorem get_never_panics (s : Helm.Storage.Objs) (k : String) :
    (Helm.Storage.objStep false s (.get k)).2 ≠ .panic := by
  simp only [Helm.Storage.objStep]
  split
  · simp
  · split <;> simp

/-- ... and so does `Delete` (which reads the record first). -/
theorem delete_never_panics (s : Helm.Storage.Objs) (k : String) :
    (Helm.Storage.objStep false s (.delete k)).2 ≠ .panic := by
  simp only [Helm.Storage.objStep]
  split
  · simp
  · split <;> simp

/-! ## repository index -/

/-- An index loads without a crash, whatever the versions, their validity and order ... -/
theorem index_load_never_panics (raw : List Helm.Index.Entry) :
    Helm.Index.loadEntries (raw.map some) ≠ .panic := by
  rw [Helm.Index.loadEntries_map_some]; simp

/-- ... and queries on it do not crash. -/
theorem index_get_never_panics (l : List Helm.Index.Entry) (version : String) (ok : Bool) :
    Helm.Index.get (l.map some) version ok ≠ .panic := by
  unfold Helm.Index.get
  have h1 := Helm.Index.firstMatch_map_some (fun e => decide (e.version = version)) l
  have h2 := Helm.Index.firstMatch_map_some (fun e => e.ver.isSome && e.sat) l
  by_cases he : (l.map some).isEmpty = true
  · simp [he]
  · simp only [he, Bool.false_eq_true, if_false]
    cases ok with
    | false => simp
    | true =>
      simp only [Bool.not_true, Bool.false_eq_true, if_false]
      by_cases hv : version.isEmpty = true
      · simp only [hv, if_true, h2]
        cases l.find? (fun e => e.ver.isSome && e.sat) <;> simp
      · simp only [hv, Bool.false_eq_true, if_false, h1]
        cases l.find? (fun e => decide (e.version = version)) with
        | some e => simp
        | none =>
          simp only [h2]
          cases l.find? (fun e => e.ver.isSome && e.sat) <;> simp

/-- Null entries do not crash loading either (they used to: repaired in /repo). -/
theorem index_load_with_nulls_never_panics (raw : List (Option Helm.Index.Entry)) :
    Helm.Index.loadEntries raw ≠ .panic := by
  simp [Helm.Index.loadEntries]

/-! ## Chart.yaml dependency import-values -/

/-- Well-typed `import-values` (strings, or maps whose `child` and `parent` are strings; any
other entry type is skipped) never crash dependency processing ... -/
theorem import_values_welltyped_ok (l : List Helm.Values.Val)
    (h : ∀ e ∈ l, ∀ t, e = .tbl t →
      Helm.ImportValues.isStr (t.get? "child") = true ∧ Helm.ImportValues.isStr (t.get? "parent") = true) :
    Helm.ImportValues.outcome l = .ok := by
  induction l with
  | nil => rfl
  | cons e r ih =>
    have he : Helm.ImportValues.entryOutcome e = .ok := by
      cases e with
      | tbl t =>
        obtain ⟨h1, h2⟩ := h (.tbl t) List.mem_cons_self t rfl
        simp [Helm.ImportValues.entryOutcome, h1, h2]
      | _ => rfl
    simp only [Helm.ImportValues.outcome, he]
    exact ih (fun x hx => h x (List.mem_cons_of_mem _ hx))

/-- ... and ill-typed ones are an error, not a crash (they were a crash on the pinned tree:
repaired in /repo, see known_findings.json). -/
theorem import_values_never_panics (l : List Helm.Values.Val) : Helm.ImportValues.outcome l ≠ .panic := by
  induction l with
  | nil => simp [Helm.ImportValues.outcome]
  | cons e r ih =>
    unfold Helm.ImportValues.outcome
    cases he : Helm.ImportValues.entryOutcome e with
    | ok => simpa using ih
    | err => simp
    | panic =>
      exfalso
      cases e with
      | tbl t => simp [Helm.ImportValues.entryOutcome] at he; split at he <;> cases he
      | _ => simp [Helm.ImportValues.entryOutcome] at he

theorem import_values_illtyped_is_error :
    Helm.ImportValues.outcome [.tbl (.cons "child" (.num "1") (.cons "parent" (.str "p") .nil))] = .err := by
  rfl

/-! ## archive entry names and sizes: total functions, no crash by construction -/

theorem archive_name_total (n : List Char) :
    (∃ r, Helm.ArchivePath.normName n = .ok r) ∨ (∃ e, Helm.ArchivePath.normName n = .error e) := by
  cases h : Helm.ArchivePath.normName n with
  | ok r => exact Or.inl ⟨r, rfl⟩
  | error e => exact Or.inr ⟨e, rfl⟩

/-! ## template recursion: include and tpl -/

/-- Whatever the templates and values call (any graph of includes and tpl texts over `K`
counter names, cycles included), a render needs at most `K * (max + 1)` nested frames: with
that much stack it returns a result or an error, never the fatal stack overflow.  (`K` is the
number of template names plus one for `tpl`; `max` is `recursionMaxNums`.) -/
theorem render_never_exhausts_stack (p : Helm.Recursion.Prog) (hs : p.shared = true) (K : Nat)
    (hK : ∀ n, p.ctr n < K) (fuel root : Nat) (hf : K * (p.max + 1) < fuel) :
    Helm.Recursion.render p fuel root ≠ .fatal := by
  apply Helm.Recursion.call_not_fatal p hs K hK
  rw [Helm.Recursion.slack_zero]; exact hf

/-- The guard does not refuse harmless charts: when the calls are well-founded (a rank
decreases along every call) and the root's rank is within the limit, the render succeeds. -/
theorem shallow_render_succeeds (p : Helm.Recursion.Prog) (rank : Nat → Nat)
    (hr : ∀ n, ∀ m ∈ p.body n, rank m < rank n) (fuel root : Nat) (h1 : rank root ≤ p.max)
    (h2 : rank root < fuel) : ∃ t, Helm.Recursion.render p fuel root = .ok t :=
  Helm.Recursion.call_ok_of_rank p rank hr fuel _ root (fun _ => by simpa using h1) h2

/-- A cycle is an error, not a hang of the guard: a template that includes itself is refused
by its own counter once the limit is reached (here with the regenerated limit). -/
theorem self_include_is_error :
    Helm.Recursion.render ⟨fun _ => [0], fun n => n, 3, true, fun _ => false⟩ 100 0 = .err 0 := by
  decide

/-- What the limit is for: when a tpl clone starts from fresh counters (the shape of one of the
seeded changes), a value that calls tpl on itself exhausts every stack. -/
theorem unshared_counters_exhaust_every_stack (max : Nat) (fuel : Nat) :
    Helm.Recursion.render ⟨fun _ => [0], fun _ => 0, max, false, fun _ => true⟩ fuel 0 = .fatal := by
  have h : ∀ (fuel : Nat) (cnt : Nat → Nat), cnt 0 ≤ max →
      Helm.Recursion.call ⟨fun _ => [0], fun _ => 0, max, false, fun _ => true⟩ fuel cnt 0 = .fatal := by
    intro fuel
    induction fuel with
    | zero => intro cnt _; rfl
    | succ f ih =>
      intro cnt hc
      have hg : ¬ cnt 0 > max := by omega
      simp only [Helm.Recursion.call, hg, if_false, Bool.not_false, Bool.and_self, if_true, List.foldl_cons,
        List.foldl_nil, Helm.Recursion.seqStep, ih (fun _ => 0) (Nat.zero_le _)]
  exact h fuel _ (Nat.zero_le _)

/-- The limit and the sharing of the counters, as read from the source on this run. -/
theorem recursion_guard_facts :
    Helm.Gen.recursionMaxNums = 1000 ∧ Helm.Gen.tplSharesCounters = true ∧ Helm.Gen.tplCountsNesting = true := by
  decide

end Helm.Props.C20
