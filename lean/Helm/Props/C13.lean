/-
C13  Upgrade carries user values forward exactly as the chosen flag says.
Property theorems only (model: Helm/Model/Reuse.lean on top of Values.lean; the key-level
characterisation of CoalesceTables is Helm.Values.get?_coalesceTables).
Every current revision, every new chart, every value tree (nulls, type changes), every flag
combination.
-/
import Helm.Model.Reuse
import Helm.Lemmas.Values
import Helm.Gen.Tables
import Helm.Spec.Skeletons

namespace Helm.Props.C13
open Helm.Values Helm.Reuse

/-- reset-values: the new values alone, the new chart as it is. -/
theorem reset_values (fl : Flags) (h : fl.reset = true) (cur : Rev) (c : Chart) (v : Tbl) :
    upgradeStep fl cur c v = .ok ⟨c, v⟩ := by
  unfold upgradeStep; simp [h]

/-- reuse-values / reset-then-reuse-values: the recorded values are the deployed revision's
overlaid key by key with the new ones -- the new binding wins, a null in the new values removes
the key, two tables are overlaid recursively, and keys the new values do not mention are kept. -/
theorem reuse_overlays_key_by_key (fl : Flags) (hr : fl.reset = false)
    (h : fl.reuse = true ∨ fl.resetThenReuse = true) (cur r : Rev) (c : Chart) (v : Tbl)
    (hw : cur.config.WF) (hs : upgradeStep fl cur c v = .ok r) (x : String) :
    r.config.get? x =
      match cur.config.get? x with
      | none => v.get? x
      | some old =>
        match v.get? x with
        | none => some old
        | some new =>
          if new.isNull then none
          else match old, new with
            | .tbl ot, .tbl nt => some (.tbl (coalesceTables false nt ot))
            | _, _ => some new := by
  have hc : r.config = coalesceTables false v cur.config := by
    unfold upgradeStep at hs
    simp only [hr, Bool.false_eq_true, if_false] at hs
    by_cases hu : fl.reuse = true
    · simp only [hu, if_true] at hs
      split at hs
      · cases hs
      · cases hs; rfl
    · have h2 : fl.resetThenReuse = true := by
        rcases h with h | h
        · exact absurd h hu
        · exact h
      simp only [hu, Bool.false_eq_true, if_false, h2, if_true] at hs
      cases hs; rfl
  rw [hc, get?_coalesceTables false v cur.config hw x]
  cases cur.config.get? x with
  | none => rfl
  | some old =>
    cases v.get? x with
    | none => rfl
    | some new => cases old <;> cases new <;> simp [Val.isNull]

/-- ... in particular a leaf given in the new values (not null) is what is recorded, at any depth. -/
theorem reuse_new_leaf_wins (fl : Flags) (hr : fl.reset = false)
    (h : fl.reuse = true ∨ fl.resetThenReuse = true) (cur r : Rev) (c : Chart) (v : Tbl)
    (hw : cur.config.WF) (hs : upgradeStep fl cur c v = .ok r)
    (p : List String) (leaf : Val) (hl : lookupPath v p = some leaf) (ht : leaf.isTable = false)
    (hn : leaf.isNull = false) : lookupPath r.config p = some leaf := by
  have hc : r.config = coalesceTables false v cur.config := by
    unfold upgradeStep at hs
    simp only [hr, Bool.false_eq_true, if_false] at hs
    by_cases hu : fl.reuse = true
    · simp only [hu, if_true] at hs
      split at hs
      · cases hs
      · cases hs; rfl
    · have h2 : fl.resetThenReuse = true := by
        rcases h with h | h
        · exact absurd h hu
        · exact h
      simp only [hu, Bool.false_eq_true, if_false, h2, if_true] at hs
      cases hs; rfl
  rw [hc]
  exact coalesce_dst_wins false p v cur.config leaf hw hl ht (Or.inr hn)

/-- No flag: the new values if any were given, else the deployed revision's. -/
theorem default_mode (fl : Flags) (h1 : fl.reset = false) (h2 : fl.reuse = false) (h3 : fl.resetThenReuse = false)
    (cur : Rev) (c : Chart) (v : Tbl) :
    upgradeStep fl cur c v = .ok ⟨c, if v.isEmpty && !cur.config.isEmpty then cur.config else v⟩ := by
  unfold upgradeStep; simp [h1, h2, h3]

/-- reuse-values: the values in force at the deployed revision (its chart's defaults under its
user values) become the defaults of the recorded chart ... -/
theorem reuse_keeps_old_defaults (fl : Flags) (hr : fl.reset = false) (hu : fl.reuse = true)
    (cur r : Rev) (c : Chart) (v : Tbl) (hs : upgradeStep fl cur c v = .ok r) :
    effective cur = .ok r.chart.values ∧ r.chart.name = c.name ∧ r.chart.deps = c.deps := by
  unfold upgradeStep at hs
  simp only [hr, Bool.false_eq_true, if_false, hu, if_true] at hs
  unfold effective
  split at hs
  · cases hs
  · rename_i old ho
    cases hs
    rw [ho]
    cases c
    exact ⟨rfl, rfl, rfl⟩

/-- ... in every other mode the new chart's defaults apply. -/
theorem other_modes_use_new_chart (fl : Flags) (hu : fl.reset = true ∨ fl.reuse = false)
    (cur r : Rev) (c : Chart) (v : Tbl) (hs : upgradeStep fl cur c v = .ok r) : r.chart = c := by
  unfold upgradeStep at hs
  by_cases hr : fl.reset = true
  · simp only [hr, if_true] at hs; cases hs; rfl
  · have h2 : fl.reuse = false := by
      rcases hu with h | h
      · exact absurd h hr
      · exact h
    simp only [hr, Bool.false_eq_true, if_false, h2] at hs
    split at hs <;> (cases hs; rfl)

/-- reset-values wins over the other two flags, reuse-values over reset-then-reuse-values. -/
theorem flag_precedence (cur : Rev) (c : Chart) (v : Tbl) (a b : Bool) :
    upgradeStep ⟨true, a, b⟩ cur c v = upgradeStep ⟨true, false, false⟩ cur c v ∧
    upgradeStep ⟨false, true, b⟩ cur c v = upgradeStep ⟨false, true, false⟩ cur c v := by
  unfold upgradeStep; simp

/-- A rollback restores the target revision's chart and values unchanged. -/
theorem rollback_restores (target : Rev) :
    (rollbackStep target).config = target.config ∧ (rollbackStep target).chart = target.chart := ⟨rfl, rfl⟩

/-- An upgrade with reuse-values and no new values records the same bindings as before. -/
theorem reuse_without_new_values (fl : Flags) (hr : fl.reset = false)
    (h : fl.reuse = true ∨ fl.resetThenReuse = true) (cur r : Rev) (c : Chart)
    (hw : cur.config.WF) (hs : upgradeStep fl cur c .nil = .ok r) (x : String) :
    r.config.get? x = cur.config.get? x := by
  rw [reuse_overlays_key_by_key fl hr h cur r c .nil hw hs x]
  cases cur.config.get? x <;> simp [Tbl.get?]

/-- non-vacuity: a null removes, a table is overlaid, an untouched key stays -/
example :
    let cur : Rev := ⟨.mk "c" (.cons "d" (.num "1") .nil) .nil,
      .cons "a" (.str "x") (.cons "t" (.tbl (.cons "k" (.num "1") (.cons "m" (.num "2") .nil))) (.cons "z" (.bool true) .nil))⟩
    let v : Tbl := .cons "a" .null (.cons "t" (.tbl (.cons "k" (.num "9") .nil)) .nil)
    (match upgradeStep ⟨false, false, true⟩ cur (.mk "c" .nil .nil) v with
      | .ok r => (r.config.get? "a", lookupPath r.config ["t", "k"], lookupPath r.config ["t", "m"], r.config.get? "z")
      | .err _ => (none, none, none, none)) =
    (none, some (.num "9"), some (.num "2"), some (.bool true)) := by rfl

/-- The three carry-over flags are bound to the three fields the modes are decided from (regenerated from
pkg/cmd/upgrade.go at every run). -/
theorem carry_over_flags_bound :
    Helm.Spec.forwardsAll Helm.Gen.upgradeFlags
      [("reset-values", "client.ResetValues"), ("reuse-values", "client.ReuseValues"),
       ("reset-then-reuse-values", "client.ResetThenReuseValues")] = true := by
  decide

end Helm.Props.C13
