/-
C11  Subcharts see only their own and global values; disabled ones vanish.
Property theorems only.
-/
import Helm.Model.Deps
import Helm.Lemmas.Deps

namespace Helm.Props.C11
open Helm.Values Helm.Deps

/-! ## 1. Scope and isolation (value coalescing over the chart tree) -/

/-- Processing the dependencies writes only the keys named after them: nothing a subchart has
changes what the parent chart sees under any other key. -/
theorem parent_view_untouched (m : Bool) (deps : ChartList) (dest res : Tbl) (k : String)
    (hk : k ∉ deps.names) (h : coalesceDeps m deps dest = .ok res) :
    res.get? k = dest.get? k :=
  coalesceDeps_frame m deps dest res k hk h

/-- What a subchart sees = its chart coalesced with (the parent's section under its name, with the
parent's `global` merged in) -- and nothing else of the parent or of any sibling. -/
theorem subchart_scope (m : Bool) (deps : ChartList) (dest res : Tbl) (sub : Chart)
    (hmem : sub ∈ deps.toList) (hnd : deps.names.Nodup) (hg : globalKey ∉ deps.names)
    (h : coalesceDeps m deps dest = .ok res) :
    ∃ sec result, (dest.get? sub.name).getD (.tbl .nil) = .tbl sec ∧
      coalesce m sub (coalesceGlobals sec dest) = .ok result ∧
      res.get? sub.name = some (.tbl result) :=
  coalesceDeps_member m deps dest res sub hmem hnd hg h

/-- Isolation: two parents that agree on a subchart's section and on `global` give that subchart
the same values, whatever else differs -- other keys, siblings' sections, siblings' defaults
(the sibling charts are the same list here; their sections are arbitrary). -/
theorem sibling_isolation (m : Bool) (deps : ChartList) (dest dest' res res' : Tbl) (k : String)
    (hk : k ∈ deps.names) (hnd : deps.names.Nodup) (hg : globalKey ∉ deps.names)
    (hsec : dest.get? k = dest'.get? k) (hglob : dest.get? globalKey = dest'.get? globalKey)
    (h : coalesceDeps m deps dest = .ok res) (h' : coalesceDeps m deps dest' = .ok res') :
    res.get? k = res'.get? k :=
  coalesceDeps_isolation m deps dest dest' res res' k hk hnd hg hsec hglob h h'

/-- A subchart's globals are computed from its own `global` and the parent's `global` only. -/
theorem globals_read_only_global (dv d d' : Tbl) (h : d.get? globalKey = d'.get? globalKey) :
    coalesceGlobals dv d = coalesceGlobals dv d' :=
  coalesceGlobals_congr dv d d' h

/-! ## 2. Globals flow top-down, the ancestor's setting winning -/

/-- Key-level refinement of the globals merge (`dg` = the subchart's own globals so far, `sg` =
the parent's): a parent scalar wins unless the subchart has a table there (skipped with a
warning); parent and subchart tables merge with the parent winning leaf by leaf; a parent table
over a subchart scalar is skipped with a warning. -/
theorem globals_key (dg sg : Tbl) (hs : sg.WF) (x : String) :
    (globalsLoop dg sg).get? x =
      match sg.get? x with
      | none => dg.get? x
      | some (.tbl vt) =>
        (match dg.get? x with
         | none => some (.tbl vt)
         | some (.tbl dm) => some (.tbl (coalesceTables true vt dm))
         | some o => some o)
      | some v =>
        (match dg.get? x with
         | some (.tbl t) => some (.tbl t)
         | _ => some v) :=
  get?_globalsLoop dg sg hs x

/-- The ancestor's scalar global wins over the descendant's own default. -/
theorem ancestor_global_scalar_wins (dg sg : Tbl) (hs : sg.WF) (x : String) (v : Val)
    (hv : sg.get? x = some v) (hvt : v.isTable = false)
    (hno : ∀ t, dg.get? x ≠ some (.tbl t)) :
    (globalsLoop dg sg).get? x = some v := by
  rw [globals_key dg sg hs x, hv]
  cases v <;> simp_all [Val.isTable]
  all_goals (cases h : dg.get? x with
    | none => rfl
    | some w => cases w <;> simp_all)

/-- ... and inside nested global tables the ancestor wins leaf by leaf. -/
theorem ancestor_global_nested_wins (dg sg : Tbl) (hs : sg.WF) (x : String) (vt dm : Tbl)
    (hdm : dm.WF) (hv : sg.get? x = some (.tbl vt)) (hd : dg.get? x = some (.tbl dm))
    (p : List String) (v : Val) (hp : lookupPath vt p = some v) (hvt : v.isTable = false) :
    ∃ t, (globalsLoop dg sg).get? x = some (.tbl t) ∧ lookupPath t p = some v := by
  refine ⟨coalesceTables true vt dm, ?_, ?_⟩
  · rw [globals_key dg sg hs x, hv, hd]
  · exact coalesce_dst_wins true p vt dm v hdm hp hvt (Or.inl rfl)

/-! ## 3. Enabled iff: conditions first, then tags -/

/-- The first condition path that resolves to a boolean decides. -/
theorem first_boolean_condition_decides (cvals : Tbl) (cpath : List String)
    (cs : List (List String)) :
    condPass cvals cpath cs = cs.findSome? fun c =>
      match pathValue cvals (cpath ++ c) with
      | some (.bool b) => some b
      | _ => none :=
  condPass_eq_findSome cvals cpath cs

/-- Tags disable exactly when some tag is false and none is true. -/
theorem tags_disable_iff (vt : Tbl) (tags : List String) :
    tagsPass vt tags = false ↔
      (∃ k ∈ tags, vt.get? k = some (.bool false)) ∧ ¬ (∃ k ∈ tags, vt.get? k = some (.bool true)) :=
  tagsPass_false_iff vt tags

/-- The complete decision, stated outright. -/
theorem enabled_iff (cvals : Tbl) (cpath : List String) (d : Dep) :
    depEnabled cvals cpath d = true ↔
      match condPass cvals cpath d.conditions with
      | some b => b = true
      | none =>
        match cvals.get? "tags" with
        | some (.tbl vt) =>
          ¬ ((∃ k ∈ d.tags, vt.get? k = some (.bool false)) ∧ ¬ (∃ k ∈ d.tags, vt.get? k = some (.bool true)))
        | _ => True := by
  unfold depEnabled
  cases hc : condPass cvals cpath d.conditions with
  | some b => simp
  | none =>
    simp only
    cases ht : cvals.get? "tags" with
    | none => simp
    | some w =>
      cases w with
      | tbl vt =>
        simp only
        rw [← tags_disable_iff vt d.tags]
        cases tagsPass vt d.tags <;> simp
      | _ => simp

/-! ## 4. Disabled dependencies vanish; an alias replaces the name -/

/-- After alias resolution every aliased entry carries the alias as its only name. -/
theorem alias_only (metaDeps : List Dep) (subs : List DChart) :
    ∀ r ∈ (resolveAliases metaDeps subs).2, r.alias ≠ "" → r.name = r.alias := by
  intro r hr ha
  simp only [resolveAliases, List.mem_map] at hr
  obtain ⟨r0, _, rfl⟩ := hr
  by_cases h0 : r0.alias = ""
  · simp [h0] at ha ⊢
  · simp [h0]

/-- ... and the chart copies listed for them are renamed to the alias. -/
theorem aliased_chart_renamed (metaDeps : List Dep) (subs : List DChart) (r : Dep) (c : DChart)
    (hr : r ∈ metaDeps) (ha : r.alias ≠ "") (hc : findSub subs r.name = some c) :
    c.rename r.alias ∈ (resolveAliases metaDeps subs).1 := by
  simp only [resolveAliases, List.mem_append, List.mem_filterMap]
  right
  exact ⟨r, hr, by simp [hc, ha]⟩

/-- One level of `processDependencyEnabled`: every dependency entry that is kept is enabled, and
no kept subchart bears the name of a disabled entry. -/
theorem disabled_vanish (fuel : Nat) (name : String) (values : Tbl) (metaDeps : List Dep)
    (subs : DChartList) (v : Tbl) (path : List String) (c' : DChart)
    (hmd : metaDeps.isEmpty = false)
    (h : processEnabled (fuel + 1) (.mk name values metaDeps subs) v path = .ok c') :
    ∃ cvals,
      coalesceTop false (DChart.mk name values (resolveAliases metaDeps subs.toList).2
        (DChartList.ofList (resolveAliases metaDeps subs.toList).1)).toChart v = .ok cvals ∧
      (∀ r ∈ c'.metaDeps, depEnabled cvals path r = true) ∧
      (∀ s ∈ c'.subs.toList, ∀ r ∈ (resolveAliases metaDeps subs.toList).2,
        depEnabled cvals path r = false → s.name ≠ r.name) := by
  rw [processEnabled] at h
  simp only [hmd, Bool.false_eq_true, if_false] at h
  split at h
  · cases h
  · rename_i cvals hcv
    refine ⟨cvals, hcv, ?_, ?_⟩
    · split at h
      · cases h
      · cases h
        intro r hr
        simp only [DChart.metaDeps, List.mem_filter] at hr
        obtain ⟨hr1, hr2⟩ := hr
        cases hdis : depEnabled cvals path r with
        | true => rfl
        | false =>
        exfalso
        have : r.name ∈ (List.filter (fun r => !depEnabled cvals path r) (resolveAliases metaDeps subs.toList).2).map (·.name) :=
          List.mem_map.mpr ⟨r, List.mem_filter.mpr ⟨hr1, by simp [hdis]⟩, rfl⟩
        simp [this] at hr2
    · split at h
      · cases h
      · rename_i cd' hcd
        cases h
        intro s hs r hr hdis heq
        have hnames := processSubs_names fuel _ cd' cvals path hcd
        have hs' : s.name ∈ cd'.map (·.name) := by
          simp only [DChart.subs] at hs
          have : (DChartList.ofList cd').toList = cd' := by
            clear hcd hnames hs
            induction cd' with
            | nil => rfl
            | cons a l ih => simp [DChartList.ofList, DChartList.toList, ih]
          rw [this] at hs
          exact List.mem_map.mpr ⟨s, hs, rfl⟩
        rw [hnames] at hs'
        obtain ⟨s0, hs0, hs0n⟩ := List.mem_map.mp hs'
        have := (List.mem_filter.mp hs0).2
        have hmem : s0.name ∈ (List.filter (fun r => !depEnabled cvals path r) (resolveAliases metaDeps subs.toList).2).map (·.name) :=
          List.mem_map.mpr ⟨r, List.mem_filter.mpr ⟨hr, by simp [hdis]⟩, by rw [hs0n, heq]⟩
        simp [hmem] at this

end Helm.Props.C11
