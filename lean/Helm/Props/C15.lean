/-
C15  Packaging and loading a chart preserves its content.
Property theorems only.
The complete round trip `loadFiles ∘ archiveFiles ∘ saveEntries = id` is exercised by the
correspondence (model writer/loader vs chartutil.Save / loader.Load on generated charts); what
is proved here for **all** names and contents are its ingredients and the exact exclusions.
-/
import Helm.Model.ChartIO
import Helm.Lemmas.ChartIO
import Helm.Lemmas.Ignore

namespace Helm.Props.C15
open Helm.ChartIO Helm.ArchivePath

/-! ## 1. Names and bytes survive the archive for every clean name -/

/-- For every chart (directory) name without separators and every clean relative file name --
any depth, any characters (unicode, spaces, dots) -- the loader's normalisation of the name
the writer produced gives back exactly the file name. -/
theorem name_survives_archive (base n : Str) (hb1 : '/' ∉ base) (hb2 : '\\' ∉ base)
    (hb3 : base ≠ "Chart.yaml".toList) (hn : CleanName n) :
    normName (base ++ '/' :: n) = .ok n :=
  normName_prefixed base n hb1 hb2 hb3 hn

/-- Content that does not begin with a UTF-8 byte-order mark is kept byte for byte. -/
theorem bytes_survive (d : Bytes) (h : bom.isPrefixOf d = false) : trimBOM d = d :=
  trimBOM_id d h

/-- A whole entry of a saved chart comes back unchanged. -/
theorem entry_survives (base : Str) (f : File) (rest : List File) (r : List File)
    (hb1 : '/' ∉ base) (hb2 : '\\' ∉ base) (hb3 : base ≠ "Chart.yaml".toList)
    (hn : CleanName f.name) (hd : bom.isPrefixOf f.data = false)
    (hr : archiveFiles rest = some r) :
    archiveFiles (⟨base ++ '/' :: f.name, f.data⟩ :: rest) = some (f :: r) := by
  simp [archiveFiles, name_survives_archive base f.name hb1 hb2 hb3 hn, bytes_survive f.data hd, hr]

/-- premises satisfiable by a non-trivial name -/
example : CleanName "files/deep/ü b.bin".toList := by
  refine ⟨by decide, by decide, ?_, by decide, by decide⟩
  intro c hc
  have : c = "files".toList ∨ c = "deep".toList ∨ c = "ü b.bin".toList := by
    have h : splitOn '/' "files/deep/ü b.bin".toList = ["files".toList, "deep".toList, "ü b.bin".toList] := by decide
    rw [h] at hc; simpa using hc
  rcases this with rfl | rfl | rfl <;> exact ⟨by decide, by decide, by decide, by decide⟩

/-! ## 2. Classification on load -/

theorem classify_reserved :
    classify "Chart.yaml".toList = .chartYaml ∧ classify "Chart.lock".toList = .chartLock ∧
    classify "values.yaml".toList = .valuesYaml ∧ classify "values.schema.json".toList = .schema := by
  refine ⟨?_, ?_, ?_, ?_⟩ <;> rfl

/-- Everything under `templates/` is a template -- never a plain file, never applied twice. -/
theorem classify_template (n : Str) (h : startsWith "templates/".toList n = true) :
    classify n = .template := by
  have h1 : n ≠ "Chart.yaml".toList := by intro e; subst e; revert h; decide
  have h2 : n ≠ "Chart.lock".toList := by intro e; subst e; revert h; decide
  have h3 : n ≠ "values.yaml".toList := by intro e; subst e; revert h; decide
  have h4 : n ≠ "values.schema.json".toList := by intro e; subst e; revert h; decide
  have h5 : n ≠ "requirements.lock".toList := by intro e; subst e; revert h; decide
  unfold classify
  rw [if_neg h1, if_neg h2, if_neg h5, if_neg h3, if_neg h4, if_pos h]

/-- The Helm 2 lock file of an apiVersion v1 chart is parsed as the lock AND stays among the
chart's files (so that saving the chart writes it back); in a v2 chart it is only parsed. -/
theorem v1_requirements_lock_kept (a : Acc) (d : Bytes) :
    (accStep true a ⟨"requirements.lock".toList, d⟩).lock = some d ∧
    (accStep true a ⟨"requirements.lock".toList, d⟩).files = a.files ++ [⟨"requirements.lock".toList, d⟩] ∧
    (accStep false a ⟨"requirements.lock".toList, d⟩).files = a.files := by
  exact ⟨rfl, rfl, rfl⟩

/-! ## 3. The exclusions, each a proved fact about the writer/loader and a finding on the code -/

/-- A file whose content starts with a UTF-8 BOM loses those three bytes (C15:bom-stripped). -/
theorem counterexample_bom (d : Bytes) : trimBOM (bom ++ d) = d ∧ trimBOM (bom ++ d) ≠ bom ++ d := by
  have h : trimBOM (bom ++ d) = d := by simp [trimBOM, bom]
  refine ⟨h, ?_⟩
  rw [h]
  intro e
  have := congrArg List.length e
  simp [bom] at this
  omega

/-- A file name containing a backslash comes back as a different name (C15:backslash-name):
the loader switches its delimiter to `\`. -/
theorem counterexample_backslash :
    normName "c/files/a\\b.txt".toList = .ok "b.txt".toList := by rfl

/-- A v1 chart's lock is not written at all (C15:v1-lock-dropped). -/
theorem counterexample_v1_lock (name : Str) (metaDoc l : Bytes) :
    saveEntries (.mk name true metaDoc (some l) none none [] [] []) [] =
      [⟨join (join [] name) "Chart.yaml".toList, metaDoc⟩] := by
  simp [saveEntries, saveEntries.saveDeps]

/-- Values are written only from the raw `values.yaml` file: a chart carrying parsed values
without it saves nothing but its Chart.yaml (C15:values-without-raw). -/
theorem values_written_only_from_raw (name : Str) (apiV1 : Bool) (metaDoc : Bytes) :
    saveEntries (.mk name apiV1 metaDoc none none none [] [] []) [] =
      [⟨join (join [] name) "Chart.yaml".toList, metaDoc⟩] := by
  simp [saveEntries, saveEntries.saveDeps]

/-! ## 4. .helmignore: what a directory load (and therefore a package) leaves out -/

open Helm.Ignore in
/-- Nothing that the rules ignore, and nothing below a directory they ignore, is loaded from
a chart directory -- so none of it reaches `Save` and the packaged archive. -/
theorem ignored_files_are_not_loaded (rules : List Rule) (files : List (List Char)) (p : List Char)
    (h : p ∈ loadDir rules files) :
    ignore rules p false = false ∧ ∀ a ∈ ancestors p, ignore rules a true = false :=
  (loaded_iff rules p).mp ((loadDir_sound rules files p).mp h).2

open Helm.Ignore in
/-- ... and everything else is (the rules exclude nothing more than they say). -/
theorem unignored_files_are_loaded (rules : List Rule) (files : List (List Char)) (p : List Char)
    (hp : p ∈ files) (h1 : ignore rules p false = false) (h2 : ∀ a ∈ ancestors p, ignore rules a true = false) :
    p ∈ loadDir rules files :=
  (loadDir_sound rules files p).mpr ⟨hp, (loaded_iff rules p).mpr ⟨h1, h2⟩⟩

open Helm.Ignore in
/-- An ignored directory hides all of its contents. -/
theorem ignored_directory_hides_contents (rules : List Rule) (files : List (List Char)) (d rest : List Char)
    (h : ignore rules d true = true) : (d ++ '/' :: rest) ∉ loadDir rules files := by
  intro hm
  have := ((loadDir_sound rules files _).mp hm).2
  rw [ignored_dir_hides rules d rest h] at this
  cases this

open Helm.Ignore in
/-- For rule sets without `!`: an entry is ignored exactly when some rule that applies to its
kind (directory-only rules apply to directories only) matches it -- whatever the order of the
rules, in particular whatever comes before the rule that matches. -/
theorem positive_rules_any_match (rules : List Rule) (hp : ∀ r ∈ rules, r.negate = false)
    (path : List Char) (isDir : Bool) (hne : path ≠ [] ∧ path ≠ ['.'] ∧ path ≠ ['.', '/']) :
    ignore rules path isDir = true ↔ ∃ r ∈ rules, hits r path isDir = true :=
  ignore_positive_iff rules hp path isDir hne

open Helm.Ignore in
theorem positive_rules_order_immaterial (r1 r2 : List Rule) (hperm : r1.Perm r2) (hp : ∀ r ∈ r1, r.negate = false)
    (path : List Char) (isDir : Bool) : ignore r1 path isDir = ignore r2 path isDir :=
  ignore_positive_perm r1 r2 hperm hp path isDir

open Helm.Ignore in
/-- What the patterns mean: a pattern without `*` and `?` matches only itself; `*ext` matches
the names ending in ext whose remainder has no separator. -/
theorem literal_pattern (p : List Char) (hp : Literal p) (n : List Char) : glob p n = decide (p = n) :=
  glob_literal p hp n

open Helm.Ignore in
theorem star_suffix_pattern (ext : List Char) (he : Literal ext) (n : List Char) :
    glob ('*' :: ext) n = true ↔ ∃ pre, n = pre ++ ext ∧ '/' ∉ pre := glob_star_suffix ext he n

open Helm.Ignore in
/-- the layout `helm create` writes: a directory-only rule, then file rules.  A file matched
only by a later rule is ignored, a directory matched by the first rule hides its contents. -/
example :
    let rules := (rulesOf ["docs/".toList, "# comment".toList, "".toList, "*.bak".toList, "secret.txt".toList]).getD []
    loadDir rules ["Chart.yaml".toList, "notes.bak".toList, "secret.txt".toList, "docs/a.md".toList,
      "templates/x.yaml".toList, "templates/.hidden".toList, "sub/secret.txt".toList, "docs".toList]
      = ["Chart.yaml".toList, "templates/x.yaml".toList, "docs".toList] := by decide

end Helm.Props.C15
