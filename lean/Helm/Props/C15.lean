/-
C15  Packaging and loading a chart preserves its content.
Property theorems only.
The complete round trip `loadFiles ∘ archiveFiles ∘ saveEntries = id` is exercised by the
correspondence (model writer/loader vs chartutil.Save / loader.Load on generated charts); what
is proved here for **all** names and contents are its ingredients and the exact exclusions.
-/
import Helm.Model.ChartIO
import Helm.Lemmas.ChartIO

namespace Helm.Props.C15
open Helm.ChartIO Helm.ArchivePath

/-! ## 1. Names and bytes survive the archive for every clean name -/

/-- For every chart (directory) name without separators and every clean relative file name --
any depth, any characters (unicode, spaces, dots) -- the loader's normalisation of the name
the writer produced gives back exactly the file name. -/
theorem name_survives_archive (base n : Str) (hb1 : '/' ∉ base) (hb2 : '\\' ∉ base)
    (hb3 : base ≠ "Chart.yaml".toList) (hn : CleanName n) :
    normName (base ++ '/' :: n) = .ok n :=
  normName_prefixed base n hb1 hb2 hb3 hn

/-- Content that does not begin with a UTF-8 byte-order mark is kept byte for byte. -/
theorem bytes_survive (d : Bytes) (h : bom.isPrefixOf d = false) : trimBOM d = d :=
  trimBOM_id d h

/-- A whole entry of a saved chart comes back unchanged. -/
theorem entry_survives (base : Str) (f : File) (rest : List File) (r : List File)
    (hb1 : '/' ∉ base) (hb2 : '\\' ∉ base) (hb3 : base ≠ "Chart.yaml".toList)
    (hn : CleanName f.name) (hd : bom.isPrefixOf f.data = false)
    (hr : archiveFiles rest = some r) :
    archiveFiles (⟨base ++ '/' :: f.name, f.data⟩ :: rest) = some (f :: r) := by
  simp [archiveFiles, name_survives_archive base f.name hb1 hb2 hb3 hn, bytes_survive f.data hd, hr]

/-- premises satisfiable by a non-trivial name -/
example : CleanName "files/deep/ü b.bin".toList := by
  refine ⟨by decide, by decide, ?_, by decide, by decide⟩
  intro c hc
  have : c = "files".toList ∨ c = "deep".toList ∨ c = "ü b.bin".toList := by
    have h : splitOn '/' "files/deep/ü b.bin".toList = ["files".toList, "deep".toList, "ü b.bin".toList] := by decide
    rw [h] at hc; simpa using hc
  rcases this with rfl | rfl | rfl <;> exact ⟨by decide, by decide, by decide, by decide⟩

/-! ## 2. Classification on load -/

theorem classify_reserved :
    classify "Chart.yaml".toList = .chartYaml ∧ classify "Chart.lock".toList = .chartLock ∧
    classify "values.yaml".toList = .valuesYaml ∧ classify "values.schema.json".toList = .schema := by
  refine ⟨?_, ?_, ?_, ?_⟩ <;> rfl

/-- Everything under `templates/` is a template -- never a plain file, never applied twice. -/
theorem classify_template (n : Str) (h : startsWith "templates/".toList n = true) :
    classify n = .template := by
  have h1 : n ≠ "Chart.yaml".toList := by intro e; subst e; revert h; decide
  have h2 : n ≠ "Chart.lock".toList := by intro e; subst e; revert h; decide
  have h3 : n ≠ "values.yaml".toList := by intro e; subst e; revert h; decide
  have h4 : n ≠ "values.schema.json".toList := by intro e; subst e; revert h; decide
  unfold classify
  rw [if_neg h1, if_neg h2, if_neg h3, if_neg h4, if_pos h]

/-! ## 3. The exclusions, each a proved fact about the writer/loader and a finding on the code -/

/-- A file whose content starts with a UTF-8 BOM loses those three bytes (C15:bom-stripped). -/
theorem counterexample_bom (d : Bytes) : trimBOM (bom ++ d) = d ∧ trimBOM (bom ++ d) ≠ bom ++ d := by
  have h : trimBOM (bom ++ d) = d := by simp [trimBOM, bom]
  refine ⟨h, ?_⟩
  rw [h]
  intro e
  have := congrArg List.length e
  simp [bom] at this
  omega

/-- A file name containing a backslash comes back as a different name (C15:backslash-name):
the loader switches its delimiter to `\`. -/
theorem counterexample_backslash :
    normName "c/files/a\\b.txt".toList = .ok "b.txt".toList := by rfl

/-- A v1 chart's lock is not written at all (C15:v1-lock-dropped). -/
theorem counterexample_v1_lock (name : Str) (metaDoc l : Bytes) :
    saveEntries (.mk name true metaDoc (some l) none none [] [] []) [] =
      [⟨join (join [] name) "Chart.yaml".toList, metaDoc⟩] := by
  simp [saveEntries, saveEntries.saveDeps]

/-- Values are written only from the raw `values.yaml` file: a chart carrying parsed values
without it saves nothing but its Chart.yaml (C15:values-without-raw). -/
theorem values_written_only_from_raw (name : Str) (apiV1 : Bool) (metaDoc : Bytes) :
    saveEntries (.mk name apiV1 metaDoc none none none [] [] []) [] =
      [⟨join (join [] name) "Chart.yaml".toList, metaDoc⟩] := by
  simp [saveEntries, saveEntries.saveDeps]

end Helm.Props.C15
