/-
C03  A failed operation is contained; --atomic restores the last good state.
Property theorems only (ledger side; the cluster side is C02's model).
-/
import Helm.Model.Ledger
import Helm.Lemmas.Ledger
import Helm.Lemmas.RollbackFailure
import Helm.Lemmas.UpgradeFailure
import Helm.Lemmas.InstallFailure
import Helm.Props.C02
import Helm.Gen.Tables
import Helm.Spec.Skeletons

namespace Helm.Props.C03
open Helm.Ledger

/-- a single cluster-side fault: exactly one phase fails, nothing crashes, storage is healthy -/
def SingleClusterFault (f : Faults) : Prop :=
  f.st = [] ∧ f.pre ≠ .crash ∧ f.preHook ≠ .crash ∧ f.resources ≠ .crash ∧ f.wait ≠ .crash ∧
  f.postHook ≠ .crash ∧ f.delete ≠ .crash ∧ f.cleanup ≠ .crash

/-! ## install: the failed revision is recorded as failed; with atomic no history remains

Stated for an empty history (the only one a plain install accepts), every flag combination of
hooks on/off, every failing phase. -/

theorem stUpdate_single (s : St) (r r' : Rec) (hl : s.ledger = [r]) (hd : s.decs = []) (hr : r'.rev = r.rev) :
    (stUpdate s r').1 = .ok ∧ (stUpdate s r').2.ledger = [r'] ∧ (stUpdate s r').2.decs = [] := by
  simp [stUpdate, nextDec, hd, hl, get?, hr]

theorem install_failure_marks_failed (nh : Nat) (f : Faults) (p : Nat)
    (hst : f.st = []) (hpre : f.pre = .ok)
    (hphase : (f.preHook = .fail ∧ 0 < nh) ∨ ((f.preHook = .ok ∨ nh = 0) ∧ f.resources = .fail) ∨
      ((f.preHook = .ok ∨ nh = 0) ∧ f.resources = .ok ∧ f.wait = .fail) ∨
      (f.preHook = .ok ∧ f.resources = .ok ∧ f.wait = .ok ∧ f.postHook = .fail ∧ 0 < nh)) :
    (install { nHooks := nh } f {} p []).2 = .error ∧
    (install { nHooks := nh } f {} p []).1.ledger = [⟨1, .failed, p⟩] := by
  -- the record is created, then the phases run on the one-record ledger
  let rel : Rec := ⟨1, .pendingInstall, p⟩
  let s2 : St := (stCreate { ledger := [], decs := [] } rel).2
  have hs2 : stCreate { ledger := [], decs := [] } rel = (.ok, s2) := by
    simp [s2, stCreate, nextDec, get?]
  have hs2l : s2.ledger = [rel] := by simp [s2, stCreate, nextDec, get?]
  have hs2d : s2.decs = [] := by simp [s2, stCreate, nextDec, get?]
  have hpreq := hookPhase_same rel nh f.preHook s2 hs2d (by simp [hs2l]) (by intro x hx _; simpa [hs2l] using hx)
  -- failRelease on a one-record ledger
  have hfail : ∀ (s : St), s.ledger = [rel] → s.decs = [] →
      (match stUpdate s { rel with status := .failed } with
        | (.crash, s3) => (s3, Outcome.crashed)
        | (_, s3) => (s3, Outcome.error)).2 = .error ∧
      (match stUpdate s { rel with status := .failed } with
        | (.crash, s3) => (s3, Outcome.crashed)
        | (_, s3) => (s3, Outcome.error)).1.ledger = [⟨1, .failed, p⟩] := by
    intro s hl hd
    obtain ⟨h1, h2, _⟩ := stUpdate_single s rel { rel with status := .failed } hl hd rfl
    cases hu : stUpdate s { rel with status := .failed } with
    | mk d s3 => rw [hu] at h1 h2; simp only at h1 h2; subst h1; simp [h2, rel]
  have hunf : install { nHooks := nh } f {} p [] =
      (match hookPhase s2 rel nh f.preHook with
      | (.crash, s3) => (s3, .crashed)
      | (.fail, s3) => (match stUpdate s3 { rel with status := .failed } with
          | (.crash, s4) => (s4, Outcome.crashed)
          | (_, s4) => (s4, Outcome.error))
      | (.ok, s3) =>
        match f.resources with
        | .crash => (s3, .crashed)
        | .fail => (match stUpdate s3 { rel with status := .failed } with
          | (.crash, s4) => (s4, Outcome.crashed)
          | (_, s4) => (s4, Outcome.error))
        | .ok =>
          match f.wait with
          | .crash => (s3, .crashed)
          | .fail => (match stUpdate s3 { rel with status := .failed } with
            | (.crash, s4) => (s4, Outcome.crashed)
            | (_, s4) => (s4, Outcome.error))
          | .ok =>
            match hookPhase s3 rel nh f.postHook with
            | (.crash, s4) => (s4, .crashed)
            | (.fail, s4) => (match stUpdate s4 { rel with status := .failed } with
              | (.crash, s5) => (s5, Outcome.crashed)
              | (_, s5) => (s5, Outcome.error))
            | (.ok, s4) =>
              match stUpdate s4 { rel with status := .deployed } with
              | (.crash, s5) => (s5, .crashed)
              | (_, s5) => (s5, .success)) := by
    simp only [install, hst, hpre, last?, List.isEmpty_nil, if_true, Bool.not_true, Bool.false_eq_true,
      if_false, Bool.not_false]
    rw [hs2]
    rfl
  rw [hunf]
  obtain ⟨hp1, hp2, hp3⟩ := hpreq
  cases hh : hookPhase s2 rel nh f.preHook with
  | mk d s3 =>
    rw [hh] at hp1 hp2 hp3
    simp only at hp1 hp2 hp3
    have hl3 : s3.ledger = [rel] := by rw [hp2, hs2l]
    rcases hphase with ⟨h, hn⟩ | ⟨h1, h2⟩ | ⟨h1, h2, h3⟩ | ⟨h1, h2, h3, h4, hn⟩
    · have : d = .fail := by rw [hp1, h]; simp; omega
      subst this
      exact hfail s3 hl3 hp3
    · have : d = .ok := by
        rw [hp1]; rcases h1 with h1 | h1
        · simp [h1]
        · simp [h1]
      subst this
      simp only [h2]
      exact hfail s3 hl3 hp3
    · have : d = .ok := by
        rw [hp1]; rcases h1 with h1 | h1
        · simp [h1]
        · simp [h1]
      subst this
      simp only [h2, h3]
      exact hfail s3 hl3 hp3
    · have : d = .ok := by rw [hp1, h1]; simp
      subst this
      simp only [h2, h3]
      have hpost := hookPhase_same rel nh f.postHook s3 hp3 (by simp [hl3]) (by intro x hx _; simpa [hl3] using hx)
      obtain ⟨hq1, hq2, hq3⟩ := hpost
      cases hh2 : hookPhase s3 rel nh f.postHook with
      | mk d2 s4 =>
        rw [hh2] at hq1 hq2 hq3
        simp only at hq1 hq2 hq3
        have : d2 = .fail := by rw [hq1, h4]; simp; omega
        subst this
        exact hfail s4 (by rw [hq2, hl3]) hq3

/-- premises satisfiable: each of the four failing phases -/
example : (install { nHooks := 2 } { postHook := .fail } {} 7 []).1.ledger = [⟨1, .failed, 7⟩] :=
  (install_failure_marks_failed 2 { postHook := .fail } 7 rfl rfl (Or.inr (Or.inr (Or.inr ⟨rfl, rfl, rfl, rfl, by omega⟩)))).2

/-! ## rollback: hooks (repaired in /repo: it used to leave the revision pending-rollback) -/

/-- A failing pre- (`post = false`) or post-rollback hook, on EVERY history: the rollback returns
an error, the revision it created is recorded as failed, and every other record -- the deployed
one included -- is as it was. -/
theorem rollback_hook_failure_marks_failed (post : Bool) (fl : RollbackFlags) (l : Ledger) (cur prevRec : Rec)
    (hdry : fl.dryRun = false) (hmax : fl.maxHistory = 0) (hhooks : fl.disableHooks = false) (hn : 0 < fl.nHooks)
    (hlast : last? l = some cur)
    (hprev : get? l (if fl.version = 0 then cur.rev - 1 else fl.version) = some prevRec) :
    (rollback fl (if post then { postHook := .fail } else { preHook := .fail }) l).2 = .error ∧
    (rollback fl (if post then { postHook := .fail } else { preHook := .fail }) l).1.ledger =
      l ++ [⟨cur.rev + 1, .failed, prevRec.payload⟩] :=
  rollback_hook_failure post fl l cur prevRec hdry hmax hhooks hn hlast hprev

/-- premises satisfiable, and the next upgrade is no longer refused -/
theorem rollback_hook_failure_instance :
    let l : Ledger := [⟨1, .superseded, 1⟩, ⟨2, .deployed, 2⟩]
    (rollback { version := 1, nHooks := 1 } { preHook := .fail } l).2 = .error ∧
    (rollback { version := 1, nHooks := 1 } { preHook := .fail } l).1.ledger =
      [⟨1, .superseded, 1⟩, ⟨2, .deployed, 2⟩, ⟨3, .failed, 1⟩] ∧
    (upgrade {} {} {} 9 (rollback { version := 1, nHooks := 1 } { preHook := .fail } l).1.ledger).2 = .success := by
  decide

/-- A rollback whose update is rejected (`waitFails = false`) or whose readiness wait fails, on EVERY
history with unique revisions: error; the revision it created is recorded as failed; on a
rejected update the revision rolled back from is marked superseded (what the source does), on a
failed wait it keeps its status; nothing else changes. -/
theorem rollback_resource_failure_marks_failed (waitFails : Bool) (fl : RollbackFlags) (l : Ledger) (cur prevRec : Rec)
    (hdry : fl.dryRun = false) (hmax : fl.maxHistory = 0) (hnd : (revs l).Nodup)
    (hlast : last? l = some cur)
    (hprev : get? l (if fl.version = 0 then cur.rev - 1 else fl.version) = some prevRec) :
    (rollback fl (if waitFails then { wait := .fail } else { resources := .fail }) l).2 = .error ∧
    (rollback fl (if waitFails then { wait := .fail } else { resources := .fail }) l).1.ledger =
      (if waitFails then l else setStatus l cur.rev .superseded) ++ [⟨cur.rev + 1, .failed, prevRec.payload⟩] :=
  rollback_resource_failure waitFails fl l cur prevRec hdry hmax hnd hlast hprev

/-- ... whereas a failing update or wait of a rollback does mark it failed. -/
theorem rollback_update_failure_marks_failed :
    let l : Ledger := [⟨1, .superseded, 1⟩, ⟨2, .deployed, 2⟩]
    (rollback { version := 1, nHooks := 1 } { resources := .fail } l).1.ledger =
      [⟨1, .superseded, 1⟩, ⟨2, .superseded, 2⟩, ⟨3, .failed, 1⟩] ∧
    (rollback { version := 1, nHooks := 1 } { wait := .fail } l).1.ledger =
      [⟨1, .superseded, 1⟩, ⟨2, .deployed, 2⟩, ⟨3, .failed, 1⟩] := by decide

/-- With the atomic flag: whichever of the four cluster-side phases of an install fails (any number
of hooks, hooks on or off), if the uninstall it triggers is itself fault-free the install returns
an error and NO history remains for the release. -/
theorem atomic_install_failure_leaves_nothing (at_ : FailAt) (fl : InstallFlags) (p : Nat)
    (hdry : fl.dryRun = false) (hrep : fl.replace = false) (hatomic : fl.atomic = true)
    (hhook : at_.needsHook = true → fl.disableHooks = false ∧ 0 < fl.nHooks) :
    (install fl at_.faults {} p []).2 = .error ∧ (install fl at_.faults {} p []).1.ledger = [] :=
  install_failure_atomic at_ fl p hdry hrep hatomic hhook

example : (install { nHooks := 3, atomic := true } FailAt.postHook.faults {} 7 []).1.ledger = [] :=
  (atomic_install_failure_leaves_nothing .postHook { nHooks := 3, atomic := true } 7 rfl rfl rfl (fun _ => ⟨rfl, by decide⟩)).2

/-! ## upgrade: every history -/

/-- EVERY history with unique revisions, every flag combination without --atomic (hooks on or off,
cleanup-on-fail or not), each of the four cluster-side phases failing: the upgrade returns an
error, the revision it created is recorded as failed, and every other record -- the deployed
one included -- is exactly as it was. -/
theorem upgrade_failure_contained (at_ : FailAt) (fl : UpgradeFlags) (fN : Faults) (p : Nat) (l : Ledger)
    (lastRec cur : Rec)
    (hdry : fl.dryRun = false) (hmax : fl.maxHistory = 0) (hatomic : fl.atomic = false)
    (hhook : at_.needsHook = true → fl.disableHooks = false ∧ 0 < fl.nHooks)
    (hnd : (revs l).Nodup)
    (hlast : last? l = some lastRec) (hnp : lastRec.status.isPending = false)
    (hcur : currentOf l = some cur) :
    (upgrade fl at_.faults fN p l).2 = .error ∧
    (upgrade fl at_.faults fN p l).1.ledger = l ++ [⟨lastRec.rev + 1, .failed, p⟩] :=
  upgrade_failure at_ fl fN p l lastRec cur hdry hmax hatomic hhook hnd hlast hnp hcur

/-- premises satisfiable (a history with a failed revision on top of the deployed one) -/
example :
    (upgrade { nHooks := 1, cleanupOnFail := true } FailAt.wait.faults {} 7 [⟨1, .deployed, 1⟩, ⟨2, .failed, 2⟩]).1.ledger =
      [⟨1, .deployed, 1⟩, ⟨2, .failed, 2⟩, ⟨3, .failed, 7⟩] :=
  (upgrade_failure_contained .wait { nHooks := 1, cleanupOnFail := true } {} 7 [⟨1, .deployed, 1⟩, ⟨2, .failed, 2⟩]
    ⟨2, .failed, 2⟩ ⟨1, .deployed, 1⟩ rfl rfl rfl (by intro h; cases h) (by decide) rfl rfl rfl).2

/-- EVERY history with unique positive revisions, --atomic, each of the four cluster-side phases
failing, the automatic rollback itself fault-free: the upgrade returns an error; the revision it
created stays recorded as failed; every revision that was deployed is superseded; and one further
revision is deployed, carrying the content of `tgt`, the most recent revision that was superseded
or deployed ("the most recent revision that had been deployed"). -/
theorem atomic_upgrade_failure_restores (at_ : FailAt) (fl : UpgradeFlags) (p : Nat) (l : Ledger)
    (lastRec cur tgt : Rec)
    (hdry : fl.dryRun = false) (hmax : fl.maxHistory = 0) (hatomic : fl.atomic = true)
    (hhook : at_.needsHook = true → fl.disableHooks = false ∧ 0 < fl.nHooks)
    (hnd : (revs l).Nodup) (hpos : ∀ x ∈ l, 0 < x.rev)
    (hlast : last? l = some lastRec) (hnp : lastRec.status.isPending = false)
    (hcur : currentOf l = some cur)
    (htm : tgt ∈ l) (hts : tgt.status = .superseded ∨ tgt.status = .deployed)
    (htmax : ∀ x ∈ l, (x.status = .superseded ∨ x.status = .deployed) → x.rev ≤ tgt.rev) :
    (upgrade fl at_.faults {} p l).2 = .error ∧
    (upgrade fl at_.faults {} p l).1.ledger =
      supersedeDeployed (l ++ [⟨lastRec.rev + 1, .failed, p⟩]) ++ [⟨lastRec.rev + 2, .deployed, tgt.payload⟩] :=
  upgrade_failure_atomic at_ fl p l lastRec cur tgt hdry hmax hatomic hhook hnd hpos hlast hnp hcur htm hts htmax

/-- premises satisfiable -/
example :
    (upgrade { atomic := true } FailAt.resources.faults {} 7 [⟨1, .superseded, 1⟩, ⟨2, .deployed, 2⟩]).1.ledger =
      [⟨1, .superseded, 1⟩, ⟨2, .superseded, 2⟩, ⟨3, .failed, 7⟩, ⟨4, .deployed, 2⟩] :=
  (atomic_upgrade_failure_restores .resources { atomic := true } 7 [⟨1, .superseded, 1⟩, ⟨2, .deployed, 2⟩]
    ⟨2, .deployed, 2⟩ ⟨2, .deployed, 2⟩ ⟨2, .deployed, 2⟩ rfl rfl rfl (by intro h; cases h) (by decide) (by decide) rfl rfl rfl
    (by decide) (Or.inr rfl) (by decide)).2

/-! ## upgrade and atomic on a concrete healthy history (instances; the statements over all
ledgers are work in progress, see DESIGN.md) -/

/-- every failing phase: error, new revision failed, the deployed revision keeps its status -/
theorem upgrade_failure_contained_instance :
    let l : Ledger := [⟨1, .superseded, 1⟩, ⟨2, .deployed, 2⟩]
    ∀ f ∈ [({ preHook := .fail } : Faults), { resources := .fail }, { wait := .fail }, { postHook := .fail }],
      (upgrade { nHooks := 1 } f {} 3 l).2 = .error ∧
      (upgrade { nHooks := 1 } f {} 3 l).1.ledger = [⟨1, .superseded, 1⟩, ⟨2, .deployed, 2⟩, ⟨3, .failed, 3⟩] := by
  decide

/-- atomic: a new deployed revision with the content of the last good one -/
theorem atomic_upgrade_restores_instance :
    let l : Ledger := [⟨1, .superseded, 1⟩, ⟨2, .deployed, 2⟩]
    ∀ f ∈ [({ preHook := .fail } : Faults), { resources := .fail }, { wait := .fail }, { postHook := .fail }],
      (upgrade { nHooks := 1, atomic := true } f {} 3 l).1.ledger =
        [⟨1, .superseded, 1⟩, ⟨2, .superseded, 2⟩, ⟨3, .failed, 3⟩, ⟨4, .deployed, 2⟩] := by
  decide

/-- atomic install: no history remains -/
theorem atomic_install_leaves_nothing_instance :
    ∀ f ∈ [({ preHook := .fail } : Faults), { resources := .fail }, { wait := .fail }, { postHook := .fail }],
      (install { nHooks := 1, atomic := true } f {} 3 []).2 = .error ∧
      (install { nHooks := 1, atomic := true } f {} 3 []).1.ledger = [] := by
  decide

/-! ### the cluster side: --atomic restores the last good state, cleanup-on-fail removes what was created -/

open Helm.Cluster in
/-- A failed upgrade with --atomic is, on the cluster, the failed update (and the optional
cleanup) followed by the rollback from the failed revision's manifest to the manifest of the
newest superseded/deployed revision ... -/
theorem atomic_failure_is_rollback (rel ns : String) (to force cleanup : Bool) (prev current target : List Obj)
    (s : Store) (rej : List String) (adopted : List Obj) (log : List Ev)
    (hp : preflight to rel ns ((target.map (stamp rel ns)).filter fun t => (current.find? (·.key = t.key)).isNone) s = (some adopted, log))
    (herr : (updateR rej force false (current ++ adopted) (target.map (stamp rel ns)) s).err = true) :
    let r := updateR rej force false (current ++ adopted) (target.map (stamp rel ns)) s
    let s1 := if cleanup then r.created.foldl (fun acc k => acc.del k) r.store else r.store
    (upgradeFull rel ns to force cleanup (some prev) current target s rej).store =
      (rollbackCluster rel ns force target prev s1 rej).store ∧
    (upgradeFull rel ns to force cleanup (some prev) current target s rej).ok = false := by
  intro r s1
  unfold upgradeFull
  simp only [hp]
  have : (!(updateR rej force false (current ++ adopted) (List.map (stamp rel ns) target) s).err) = false := by
    simp [herr]
  simp only [this, Bool.false_eq_true, if_false]
  exact ⟨rfl, trivial⟩

open Helm.Cluster in
/-- ... so when that rollback goes through, the previous manifest is in force again: each of its
resources exists with what the manifest specifies (merge computed against the live object),
whatever the failed upgrade created and the previous manifest does not have is gone unless the
live object carries the keep policy, and nothing outside the two manifests was touched by it. -/
theorem atomic_restores_previous_manifest (rel ns : String) (force : Bool) (failed prev : List Obj)
    (s1 : Store) (rej : List String) (hn : Helm.Props.C02.DistinctKeys prev)
    (hok : (rollbackCluster rel ns force failed prev s1 rej).ok = true) :
    (∀ t ∈ prev, ∃ o, (rollbackCluster rel ns force failed prev s1 rej).store.get? t.key = some o ∧
      (fullMerge force false t = true → o.covers (stamp rel ns t))) ∧
    (∀ o ∈ failed, o.key ∉ Helm.Props.C02.keys prev →
      (rollbackCluster rel ns force failed prev s1 rej).store.get? o.key = none ∨
      ∃ live, s1.get? o.key = some live ∧ keepLive live = true ∧
        (rollbackCluster rel ns force failed prev s1 rej).store.get? o.key = some live) ∧
    (∀ k, k ∉ Helm.Props.C02.keys prev → k ∉ Helm.Props.C02.keys failed →
      (rollbackCluster rel ns force failed prev s1 rej).store.get? k = s1.get? k) :=
  ⟨Helm.Props.C02.rollback_targets_present rel ns force failed prev s1 rej hn hok,
   Helm.Props.C02.rollback_removed_deleted rel ns force failed prev s1 rej hok,
   fun k h1 h2 => Helm.Props.C02.rollback_frame rel ns force failed prev s1 rej k h1 h2⟩

open Helm.Cluster in
/-- cleanup-on-fail: everything the failed update listed as created is gone afterwards (no
rollback requested). -/
theorem cleanup_removes_created (rel ns : String) (to force : Bool) (current target : List Obj)
    (s : Store) (rej : List String) (adopted : List Obj) (log : List Ev)
    (hp : preflight to rel ns ((target.map (stamp rel ns)).filter fun t => (current.find? (·.key = t.key)).isNone) s = (some adopted, log))
    (herr : (updateR rej force false (current ++ adopted) (target.map (stamp rel ns)) s).err = true) :
    ∀ k ∈ (updateR rej force false (current ++ adopted) (target.map (stamp rel ns)) s).created,
      (upgradeFull rel ns to force true none current target s rej).store.get? k = none := by
  intro k hk
  unfold upgradeFull
  simp only [hp]
  have : (!(updateR rej force false (current ++ adopted) (List.map (stamp rel ns) target) s).err) = false := by
    simp [herr]
  simp only [this, Bool.false_eq_true, if_false, if_true]
  generalize (updateR rej force false (current ++ adopted) (List.map (stamp rel ns) target) s).store = st
  generalize hc : (updateR rej force false (current ++ adopted) (List.map (stamp rel ns) target) s).created = cr at hk
  clear hc herr this hp
  induction cr generalizing st with
  | nil => cases hk
  | cons c rest ih =>
    simp only [List.foldl_cons]
    by_cases hkc : k = c
    · subst hkc
      -- later deletions cannot bring it back
      have hstay : ∀ (ks : List String) (t : Store), t.get? k = none → (ks.foldl (fun acc x => acc.del x) t).get? k = none := by
        intro ks
        induction ks with
        | nil => intro t ht; exact ht
        | cons x xs ihx =>
          intro t ht
          simp only [List.foldl_cons]
          apply ihx
          by_cases hx : k = x
          · subst hx; exact Store.get?_del_self t k
          · rw [Store.get?_del_ne t hx]; exact ht
      exact hstay rest _ (Store.get?_del_self st k)
    · rcases List.mem_cons.mp hk with h | h
      · exact absurd h hkc
      · exact ih _ h

/-! ### the failure paths in the source (regenerated at every run) -/

/-- What a failing upgrade / rollback / install writes, and in which order, is what the model's
failure closures were written from; a failed upgrade never marks the original revision
superseded before its post-upgrade hooks have passed. -/
theorem failure_paths_skeleton :
    Helm.Gen.skelUpgradeFail = Helm.Spec.skelUpgradeFail ∧
    Helm.Gen.skelInstallFail = Helm.Spec.skelInstallFail ∧
    Helm.Gen.skelUpgradeReleasing = Helm.Spec.skelUpgradeReleasing ∧
    Helm.Gen.skelRollbackPerform = Helm.Spec.skelRollbackPerform ∧
    Helm.Gen.skelRollbackFail = Helm.Spec.skelRollbackFail ∧
    Helm.Spec.precedes "cfg.execHook:HookPostUpgrade" "set originalRelease StatusSuperseded" Helm.Gen.skelUpgradeReleasing = true := by
  decide

/-! ### the glue between the actions (regenerated at every run) -/

/-- `helm upgrade --install` hands the flags the failure clauses depend on to the install it falls back to,
each exactly once and from the upgrade flag of the same name; a failed atomic install gives its uninstall, and a
failed atomic upgrade gives its rollback, the operation's own wait strategy and time-out (an action run with no
wait strategy stops at the kube client's "unknown wait strategy" before it has repaired anything), and the
uninstall purges the history. -/
theorem atomic_glue_forwards_flags :
    Helm.Spec.forwardsAll Helm.Gen.upgradeInstallForwards
      [("Atomic", "client.Atomic"), ("Timeout", "client.Timeout"), ("WaitStrategy", "client.WaitStrategy"),
       ("WaitForJobs", "client.WaitForJobs"), ("DisableHooks", "client.DisableHooks"), ("Force", "client.Force"),
       ("Namespace", "client.Namespace")] = true ∧
    Helm.Spec.forwardsAll Helm.Gen.atomicUninstallFields
      [("WaitStrategy", "i.WaitStrategy"), ("Timeout", "i.Timeout"), ("KeepHistory", "false"),
       ("DisableHooks", "i.DisableHooks")] = true ∧
    Helm.Gen.atomicRollbackFields.filter (fun p => p.1 == "WaitStrategy")
      = [("WaitStrategy", "u.WaitStrategy"), ("WaitStrategy", "kube.StatusWatcherStrategy")] ∧
    Helm.Spec.forwardsAll Helm.Gen.atomicRollbackFields
      [("Timeout", "u.Timeout"), ("DisableHooks", "u.DisableHooks"), ("Force", "u.Force"),
       ("WaitForJobs", "u.WaitForJobs")] = true := by
  decide

/-- The flags of the failure clauses are bound to the fields the theorems are about (regenerated from pkg/cmd
at every run): each flag is bound exactly once in its command, to the same-named field of the action. -/
theorem failure_flags_bound :
    Helm.Spec.forwardsAll Helm.Gen.installFlags [("atomic", "client.Atomic"), ("wait-for-jobs", "client.WaitForJobs"), ("timeout", "client.Timeout")] = true ∧
    Helm.Spec.forwardsAll Helm.Gen.upgradeFlags [("atomic", "client.Atomic"), ("cleanup-on-fail", "client.CleanupOnFail"), ("install", "client.Install"), ("timeout", "client.Timeout")] = true ∧
    Helm.Spec.forwardsAll Helm.Gen.rollbackFlags [("cleanup-on-fail", "client.CleanupOnFail"), ("timeout", "client.Timeout")] = true := by
  decide

end Helm.Props.C03
