/-
C02  After a successful operation the cluster matches the recorded manifest.
Property theorems only (lemmas: Helm/Lemmas/Cluster.lean; model: Helm/Model/Cluster.lean).
The statements quantify over every store (so over every out-of-band edit and deletion and
every bystander), every pair of manifests and every flag combination.  "The cluster accepted
every request" is the model's standing assumption: the only refusals are ownership conflicts.

The full statement is FALSE of the code in one place, each proved here as a counterexample
and replayed on the implementation by the correspondence (known findings):
  * unstructured kinds are patched two-way (old manifest vs new manifest), so an out-of-band
    edit of a field both manifests agree on is not reverted      (`unstructured_drift_not_reverted`)
  (a second place -- uninstall left, and did not list, a resource whose resource-policy
  annotation had a value other than keep -- was repaired in /repo: `keepClass_total`)
The theorems therefore carry the hypothesis `fullMerge` (replace, typed kind, or three-way
merge requested) where fields are concerned, and `keepClass` for uninstall.
-/
import Helm.Lemmas.Cluster

namespace Helm.Props.C02
open Helm.Cluster

abbrev keys (os : List Obj) : List String := os.map (·.key)
/-- a manifest names each object once -/
abbrev DistinctKeys (os : List Obj) : Prop := (keys os).Pairwise (· ≠ ·)

private theorem find_isSome_of_mem {os : List Obj} {t : Obj} (h : t ∈ os) :
    (os.find? (·.key = t.key)).isSome = true := by
  rw [List.find?_isSome]
  exact ⟨t, h, by simp⟩

private theorem find_isSome_false_of_not_mem {os : List Obj} {k : String} (h : k ∉ keys os) :
    (os.find? (·.key = k)).isSome = false := by
  cases hf : os.find? (·.key = k) with
  | none => rfl
  | some x =>
    have h1 := List.find?_some hf
    have h2 := List.mem_of_find?_eq_some hf
    exact absurd (List.mem_map.mpr ⟨x, h2, by simpa using h1⟩) h

private theorem same_of_key {os : List Obj} (hn : DistinctKeys os) {x o : Obj} (hx : x ∈ os) (ho : o ∈ os)
    (hk : x.key = o.key) : x = o := by
  induction os with
  | nil => cases hx
  | cons a rest ih =>
    unfold DistinctKeys keys at hn
    simp only [List.map_cons, List.pairwise_cons] at hn
    rcases List.mem_cons.mp hx with h1 | h1 <;> rcases List.mem_cons.mp ho with h2 | h2
    · rw [h1, h2]
    · subst h1; exact absurd hk (hn.1 o.key (List.mem_map_of_mem h2))
    · subst h2; exact absurd hk.symm (hn.1 x.key (List.mem_map_of_mem h1))
    · exact ih hn.2 h1 h2

/-! ### `Client.update`: the engine of install-with-adoption, upgrade and rollback -/

/-- Every resource of the new manifest exists afterwards, and -- when the patch is computed
against the live object -- with every field, label and annotation the manifest specifies,
whatever the live object looked like before. -/
theorem update_targets_present (rej : List String) (force three : Bool) (original target : List Obj) (s : Store)
    (hn : DistinctKeys target) (hok : (updateR rej force three original target s).err = false) :
    ∀ t ∈ target, ∃ o, (updateR rej force three original target s).store.get? t.key = some o ∧
      (fullMerge force three t = true → o.covers t) := by
  intro t ht
  unfold updateR at hok ⊢
  simp only at hok ⊢
  split at hok
  · rename_i he; rw [he] at hok; cases hok
  · rename_i he
    simp only [he, Bool.false_eq_true, if_false]
    have he' : (updateTargets force three original target { store := s, log := [], rej := rej }).err = false := by
      simpa using he
    obtain ⟨o, ho, hc⟩ := updateTargets_present force three original target _ hn he' t ht
    refine ⟨o, ?_, hc⟩
    rcases deleteRemoved_store target original
      (updateTargets force three original target { store := s, log := [], rej := rej }) t.key with h | h
    · rw [h]; exact ho
    · rw [find_isSome_of_mem ht] at h; cases h.2.2

/-- Every resource of the previous manifest that the new one drops is gone, unless the live
object carries the keep policy -- in which case it is left exactly as it was. -/
theorem update_removed_deleted (rej : List String) (force three : Bool) (original target : List Obj) (s : Store)
    (hok : (updateR rej force three original target s).err = false) :
    ∀ o ∈ original, o.key ∉ keys target →
      (updateR rej force three original target s).store.get? o.key = none ∨
      ∃ live, s.get? o.key = some live ∧ keepLive live = true ∧
        (updateR rej force three original target s).store.get? o.key = some live := by
  intro o ho hk
  unfold updateR at hok ⊢
  simp only at hok ⊢
  split at hok
  · rename_i he; rw [he] at hok; cases hok
  · rename_i he
    simp only [he, Bool.false_eq_true, if_false]
    have hf := updateTargets_frame force three original target { store := s, log := [], rej := rej } o.key hk
    rcases deleteRemoved_done target original _ o ho (find_isSome_false_of_not_mem hk) with h | ⟨live, h1, h2, h3⟩
    · exact Or.inl h
    · exact Or.inr ⟨live, by rw [← hf]; exact h1, h2, h3⟩

/-- No object outside the two manifests is created, changed or deleted -- whether or not the
operation succeeds. -/
theorem update_frame (rej : List String) (force three : Bool) (original target : List Obj) (s : Store) (k : String)
    (ht : k ∉ keys target) (ho : k ∉ keys original) :
    (updateR rej force three original target s).store.get? k = s.get? k := by
  unfold updateR
  simp only
  split
  · exact updateTargets_frame _ _ _ _ _ _ ht
  · rcases deleteRemoved_store target original
      (updateTargets force three original target { store := s, log := [], rej := rej }) k with h | h
    · rw [h]; exact updateTargets_frame _ _ _ _ _ _ ht
    · exact absurd h.2.1 ho

/-- ... and no request at all is made about such an object. -/
theorem update_requests_confined (rej : List String) (force three : Bool) (original target : List Obj) (s : Store) :
    ∀ e ∈ (updateR rej force three original target s).log, e.key ∈ keys target ∨ e.key ∈ keys original := by
  intro e he
  unfold updateR at he
  simp only at he
  obtain ⟨e1, h1, p1⟩ := updateTargets_log force three original target { store := s, log := [], rej := rej }
  split at he
  · rw [h1] at he
    exact Or.inl (p1 e (by simpa using he)).1
  · obtain ⟨e2, h2, p2⟩ := deleteRemoved_log target original
      (updateTargets force three original target { store := s, log := [], rej := rej })
    rw [h2, h1] at he
    simp only [List.nil_append] at he
    rcases List.mem_append.mp he with h | h
    · exact Or.inl (p1 e h).1
    · exact Or.inr (p2 e h).1

/-! ### upgrade and rollback -/

/-- A successful upgrade: every resource of the new manifest exists with what the (stamped)
manifest specifies. -/
theorem upgrade_targets_present (rel ns : String) (to force : Bool) (current target : List Obj) (s : Store)
    (hn : DistinctKeys target)
    (hok : (upgradeCluster rel ns to force false current target s).ok = true) :
    ∀ t ∈ target, ∃ o, (upgradeCluster rel ns to force false current target s).store.get? t.key = some o ∧
      (fullMerge force false t = true → o.covers (stamp rel ns t)) := by
  intro t ht
  unfold upgradeCluster at hok ⊢
  simp only at hok ⊢
  split at hok
  · simp at hok
  · rename_i adopted log hp
    simp only [Bool.false_eq_true, if_false] at hok ⊢
    have hn' : DistinctKeys (target.map (stamp rel ns)) := by
      unfold DistinctKeys keys at hn ⊢
      simpa [List.map_map, Function.comp_def, stamp_key] using hn
    have hok' : (updateR [] force false (current ++ adopted) (target.map (stamp rel ns)) s).err = false := by
      simpa using hok
    obtain ⟨o, ho, hc⟩ := update_targets_present [] force false (current ++ adopted) (target.map (stamp rel ns)) s
      hn' hok' (stamp rel ns t) (List.mem_map_of_mem ht)
    exact ⟨o, ho, fun hm => hc (by simpa [fullMerge, stamp_typed] using hm)⟩

/-- A successful upgrade: what the previous manifest had and the new one drops is gone, unless
the live object carries the keep policy. -/
theorem upgrade_removed_deleted (rel ns : String) (to force : Bool) (current target : List Obj) (s : Store)
    (hok : (upgradeCluster rel ns to force false current target s).ok = true) :
    ∀ o ∈ current, o.key ∉ keys target →
      (upgradeCluster rel ns to force false current target s).store.get? o.key = none ∨
      ∃ live, s.get? o.key = some live ∧ keepLive live = true ∧
        (upgradeCluster rel ns to force false current target s).store.get? o.key = some live := by
  intro o ho hk
  unfold upgradeCluster at hok ⊢
  simp only at hok ⊢
  split at hok
  · simp at hok
  · rename_i adopted log hp
    simp only [Bool.false_eq_true, if_false] at hok ⊢
    have hok' : (updateR [] force false (current ++ adopted) (target.map (stamp rel ns)) s).err = false := by
      simpa using hok
    have hk' : o.key ∉ keys (target.map (stamp rel ns)) := by
      simpa [keys, List.map_map, Function.comp_def, stamp_key] using hk
    exact update_removed_deleted [] force false (current ++ adopted) _ s hok' o
      (List.mem_append_left _ ho) hk'

/-- An upgrade -- successful, failed, refused or dry-run -- never touches an object that is
in neither the deployed nor the new manifest. -/
theorem upgrade_frame (rel ns : String) (to force dry : Bool) (current target : List Obj) (s : Store) (k : String)
    (ht : k ∉ keys target) (hc : k ∉ keys current) :
    (upgradeCluster rel ns to force dry current target s).store.get? k = s.get? k := by
  unfold upgradeCluster
  simp only
  split
  · rfl
  · rename_i adopted log hp
    split
    · rfl
    · have ha := preflight_adopted _ _ _ _ _ _ (by rw [hp])
      have ht' : k ∉ keys (target.map (stamp rel ns)) := by
        simpa [keys, List.map_map, Function.comp_def, stamp_key] using ht
      apply update_frame [] _ _ _ _ _ _ ht'
      intro hm
      rcases List.mem_append.mp (by simpa [keys] using hm : k ∈ keys current ++ keys adopted) with h | h
      · exact hc h
      · apply ht'
        rw [ha] at h
        obtain ⟨x, hx, hxk⟩ := List.mem_map.mp h
        have hx1 := (List.mem_filter.mp hx).1
        have hx2 := (List.mem_filter.mp hx1).1
        exact List.mem_map.mpr ⟨x, hx2, hxk⟩

/-- A successful rollback puts back every resource of the target revision, removes what the
current one added (keep policy aside), and touches nothing else. -/
theorem rollback_targets_present (rel ns : String) (force : Bool) (current target : List Obj) (s : Store) (rej : List String)
    (hn : DistinctKeys target) (hok : (rollbackCluster rel ns force current target s rej).ok = true) :
    ∀ t ∈ target, ∃ o, (rollbackCluster rel ns force current target s rej).store.get? t.key = some o ∧
      (fullMerge force false t = true → o.covers (stamp rel ns t)) := by
  intro t ht
  unfold rollbackCluster at hok ⊢
  simp only at hok ⊢
  have hn' : DistinctKeys (target.map (stamp rel ns)) := by
    unfold DistinctKeys keys at hn ⊢
    simpa [List.map_map, Function.comp_def, stamp_key] using hn
  have hok' : (updateR rej force false current (target.map (stamp rel ns)) s).err = false := by simpa using hok
  obtain ⟨o, ho, hc⟩ := update_targets_present rej force false current (target.map (stamp rel ns)) s
    hn' hok' (stamp rel ns t) (List.mem_map_of_mem ht)
  exact ⟨o, ho, fun hm => hc (by simpa [fullMerge, stamp_typed] using hm)⟩

theorem rollback_removed_deleted (rel ns : String) (force : Bool) (current target : List Obj) (s : Store) (rej : List String)
    (hok : (rollbackCluster rel ns force current target s rej).ok = true) :
    ∀ o ∈ current, o.key ∉ keys target →
      (rollbackCluster rel ns force current target s rej).store.get? o.key = none ∨
      ∃ live, s.get? o.key = some live ∧ keepLive live = true ∧
        (rollbackCluster rel ns force current target s rej).store.get? o.key = some live := by
  intro o ho hk
  unfold rollbackCluster at hok ⊢
  simp only at hok ⊢
  have hok' : (updateR rej force false current (target.map (stamp rel ns)) s).err = false := by simpa using hok
  have hk' : o.key ∉ keys (target.map (stamp rel ns)) := by
    simpa [keys, List.map_map, Function.comp_def, stamp_key] using hk
  exact update_removed_deleted rej force false current _ s hok' o ho hk'

theorem rollback_frame (rel ns : String) (force : Bool) (current target : List Obj) (s : Store) (rej : List String) (k : String)
    (ht : k ∉ keys target) (hc : k ∉ keys current) :
    (rollbackCluster rel ns force current target s rej).store.get? k = s.get? k := by
  unfold rollbackCluster
  simp only
  have ht' : k ∉ keys (target.map (stamp rel ns)) := by
    simpa [keys, List.map_map, Function.comp_def, stamp_key] using ht
  exact update_frame rej _ _ _ _ _ _ ht' hc

/-! ### install -/

/-- A successful install: every resource of the manifest exists with what the stamped
manifest specifies (adopted objects: when the merge is computed against the live object). -/
theorem install_targets_present (rel ns : String) (to force : Bool) (manifest : List Obj) (s : Store)
    (hn : DistinctKeys manifest)
    (hok : (installCluster rel ns to force false manifest s).ok = true) :
    ∀ t ∈ manifest, ∃ o, (installCluster rel ns to force false manifest s).store.get? t.key = some o ∧
      (fullMerge force to t = true → o.covers (stamp rel ns t)) := by
  intro t ht
  have hn' : DistinctKeys (manifest.map (stamp rel ns)) := by
    unfold DistinctKeys keys at hn ⊢
    simpa [List.map_map, Function.comp_def, stamp_key] using hn
  unfold installCluster at hok ⊢
  simp only at hok ⊢
  split at hok
  · simp at hok
  · rename_i adopted log hp
    simp only [Bool.false_eq_true, if_false] at hok ⊢
    split
    · refine ⟨stamp rel ns t, ?_, fun _ => Obj.covers_refl _⟩
      have := Store.get?_foldl_put_mem (manifest.map (stamp rel ns)) s (stamp rel ns t)
        (List.mem_map_of_mem ht) hn'
      rw [filter_norej]
      simpa [stamp_key] using this
    · rename_i hne
      simp only [hne, Bool.false_eq_true, if_false] at hok
      have hok' : (updateR [] force to adopted (manifest.map (stamp rel ns)) s).err = false := by simpa using hok
      obtain ⟨o, ho, hc⟩ := update_targets_present [] force to adopted (manifest.map (stamp rel ns)) s
        hn' hok' (stamp rel ns t) (List.mem_map_of_mem ht)
      exact ⟨o, ho, fun hm => hc (by simpa [fullMerge, stamp_typed] using hm)⟩

/-- An install -- successful, failed, refused or dry-run -- never touches an object outside
its manifest. -/
theorem install_frame (rel ns : String) (to force dry : Bool) (manifest : List Obj) (s : Store) (k : String)
    (hk : k ∉ keys manifest) :
    (installCluster rel ns to force dry manifest s).store.get? k = s.get? k := by
  have hk' : k ∉ keys (manifest.map (stamp rel ns)) := by
    simpa [keys, List.map_map, Function.comp_def, stamp_key] using hk
  unfold installCluster
  simp only
  split
  · rfl
  · rename_i adopted log hp
    split
    · rfl
    · split
      · rw [filter_norej]; exact Store.get?_foldl_put_frame _ _ _ hk'
      · have ha := preflight_adopted _ _ _ _ _ _ (by rw [hp])
        apply update_frame [] _ _ _ _ _ _ hk'
        intro hm
        apply hk'
        rw [ha] at hm
        obtain ⟨x, hx, hxk⟩ := List.mem_map.mp hm
        exact List.mem_map.mpr ⟨x, (List.mem_filter.mp hx).1, hxk⟩

/-! ### uninstall -/

/-- Every resource of the manifest without a resource-policy annotation is gone. -/
theorem uninstall_deletes (manifest : List Obj) (s : Store) :
    ∀ o ∈ manifest, keepClass o = some false → (uninstallCluster manifest s).store.get? o.key = none := by
  intro o ho hc
  unfold uninstallCluster
  simp only
  rw [Store.get?_foldl_del]
  have : o.key ∈ (manifest.filter fun o => keepClass o = some false).map (·.key) :=
    List.mem_map_of_mem (List.mem_filter.mpr ⟨ho, by simp [hc]⟩)
  simp [this]

/-- Every resource with the keep policy is left untouched and listed in the response. -/
theorem uninstall_keeps (manifest : List Obj) (s : Store) (hn : DistinctKeys manifest) :
    ∀ o ∈ manifest, keepClass o = some true →
      (uninstallCluster manifest s).store.get? o.key = s.get? o.key ∧
      o.key ∈ (uninstallCluster manifest s).kept := by
  intro o ho hc
  unfold uninstallCluster
  simp only
  constructor
  · rw [Store.get?_foldl_del]
    have : o.key ∉ (manifest.filter fun o => keepClass o = some false).map (·.key) := by
      intro hm
      obtain ⟨x, hx, hxk⟩ := List.mem_map.mp hm
      have hx' := List.mem_filter.mp hx
      have : x = o := same_of_key hn hx'.1 ho hxk
      subst this
      simp [hc] at hx'
    simp [this]
  · exact List.mem_map_of_mem (List.mem_filter.mpr ⟨ho, by simp [hc]⟩)

/-- Uninstall touches nothing outside the manifest, and its only requests are deletions of
manifest resources. -/
theorem uninstall_frame (manifest : List Obj) (s : Store) (k : String) (hk : k ∉ keys manifest) :
    (uninstallCluster manifest s).store.get? k = s.get? k := by
  unfold uninstallCluster
  simp only
  rw [Store.get?_foldl_del]
  have : k ∉ (manifest.filter fun o => keepClass o = some false).map (·.key) := by
    intro hm
    obtain ⟨x, hx, hxk⟩ := List.mem_map.mp hm
    exact hk (List.mem_map.mpr ⟨x, (List.mem_filter.mp hx).1, hxk⟩)
  simp [this]

theorem uninstall_requests (manifest : List Obj) (s : Store) :
    ∀ e ∈ (uninstallCluster manifest s).log, e.isDelete = true ∧ e.key ∈ keys manifest := by
  intro e he
  unfold uninstallCluster at he
  simp only at he
  obtain ⟨x, hx, hxe⟩ := List.mem_map.mp he
  subst hxe
  exact ⟨rfl, List.mem_map.mpr ⟨x, (List.mem_filter.mp hx).1, rfl⟩⟩

/-! ### where the full statement fails (replayed on the implementation: known findings) -/

def cmLive : Obj := { key := "x/default/w", typed := false, data := [("k", "edited")] }
def cmMan : Obj := { key := "x/default/w", typed := false, data := [("k", "v")] }

/-- An unstructured object whose field was edited out of band is not put back by an upgrade
to a manifest that specifies the same value as the previous one: the two-way patch is empty. -/
theorem counterexample_unstructured_drift_not_reverted :
    (update false false [cmMan] [cmMan] [cmLive]).err = false ∧
    (update false false [cmMan] [cmMan] [cmLive]).store = [cmLive] ∧
    ¬ cmLive.covers cmMan := by
  refine ⟨by decide, by decide, ?_⟩
  intro h
  have := h.1 "k" (by decide)
  revert this
  decide

def withPolicy : Obj := { key := "x/default/p", annos := [(policyAnno, "delete")] }

/-- Every resource of the manifest is either deleted or kept and listed: there is no third class
(before the repair `fix: uninstall deletes resources whose resource-policy annotation is not keep`
a resource-policy value other than keep put the resource in neither list). -/
theorem keepClass_total (o : Obj) : keepClass o = some true ∨ keepClass o = some false := by
  unfold keepClass
  cases o.annos.get? policyAnno with
  | none => exact Or.inr rfl
  | some v => simp only; split <;> simp

theorem uninstall_other_policy_deleted :
    (uninstallCluster [withPolicy] [withPolicy]).store = [] ∧
    (uninstallCluster [withPolicy] [withPolicy]).kept = [] ∧
    (uninstallCluster [withPolicy] [withPolicy]).log = [.delete "x/default/p"] := by decide

/-- non-vacuity: a successful upgrade that creates, patches a drifted typed object and deletes -/
example :
    let cur : List Obj := [{ key := "a", data := [("k", "1")] }, { key := "b" }]
    let tgt : List Obj := [{ key := "a", data := [("k", "1")] }, { key := "c" }]
    let s : Store := [stamp "r" "n" { key := "a", data := [("k", "edited")] }, stamp "r" "n" { key := "b" }, { key := "z" }]
    let r := upgradeCluster "r" "n" false false false cur tgt s
    r.ok = true ∧ (r.store.get? "b") = none ∧ ((r.store.get? "a").map (·.data)) = some [("k", "1")] ∧
    r.store.get? "z" = some { key := "z" } := by decide

end Helm.Props.C02
