/-
C07  Helm never takes over or deletes resources it does not own.
Property theorems only (lemmas: Helm/Lemmas/Cluster.lean; models: Cluster.lean, Ledger.lean).
Every store, every manifest, every flag combination.

Where the full statement fails (counterexample proved here, replayed on the implementation):
  * an unstructured object adopted by `upgrade --take-ownership` is never stamped: the
    adopted object is its own "original", the two-way patch is empty  (`unstructured_adoption_not_stamped`)
  * CRDs of the chart's crds/ directory are installed before the ownership check of an
    install (not in this model: the correspondence reports it, fingerprint C07:refusal-after-mutation:crds)
-/
import Helm.Lemmas.Cluster
import Helm.Model.Ledger
import Helm.Model.DryRun
import Helm.Gen.Tables
import Helm.Spec.Skeletons

namespace Helm.Props.C07
open Helm.Cluster

abbrev keys (os : List Obj) : List String := os.map (·.key)
abbrev DistinctKeys (os : List Obj) : Prop := (keys os).Pairwise (· ≠ ·)

/-! ### the ownership test -/

/-- `checkOwnership` accepts exactly the objects carrying the managed-by label and this very
release's name and namespace annotations. -/
theorem owned_iff (o : Obj) (rel ns : String) :
    owned o rel ns = true ↔
      o.labels.get? managedByLabel = some "Helm" ∧ o.annos.get? releaseNameAnno = some rel ∧
      o.annos.get? releaseNsAnno = some ns := by
  simp [owned, and_assoc]

/-- every rendered object is stamped as this release's before it is sent -/
theorem stamped_is_owned (rel ns : String) (o : Obj) : owned (stamp rel ns o) rel ns = true :=
  stamp_owned rel ns o

/-! ### refusal happens before any mutation -/

/-- Install refuses exactly when a resource of the manifest exists and is not this release's
(unless take-ownership); a refused install has sent only reads and leaves the cluster as it was. -/
theorem install_refuses_iff (rel ns : String) (to : Bool) (manifest : List Obj) (s : Store) :
    (∃ r ∈ manifest, conflict to rel ns s r) ↔
      (preflight to rel ns (manifest.map (stamp rel ns)) s).1 = none := by
  rw [preflight_none_iff]
  constructor
  · rintro ⟨r, hr, live, hl, hm⟩
    exact ⟨stamp rel ns r, List.mem_map_of_mem hr, live, hl, hm⟩
  · rintro ⟨r', hr', live, hl, hm⟩
    obtain ⟨r, hr, rfl⟩ := List.mem_map.mp hr'
    exact ⟨r, hr, live, hl, hm⟩

theorem install_refusal_mutates_nothing (rel ns : String) (to force dry : Bool) (manifest : List Obj) (s : Store)
    (h : ∃ r ∈ manifest, conflict to rel ns s r) :
    (installCluster rel ns to force dry manifest s).ok = false ∧
    (installCluster rel ns to force dry manifest s).store = s ∧
    ∀ e ∈ (installCluster rel ns to force dry manifest s).log, e.isWrite = false := by
  have hp := (install_refuses_iff rel ns to manifest s).mp h
  have hr := preflight_reads to rel ns (manifest.map (stamp rel ns)) s
  unfold installCluster
  simp only
  split
  · rename_i log hpl
    rw [hpl] at hr
    exact ⟨rfl, rfl, hr⟩
  · rename_i a log hpl
    rw [hpl] at hp; cases hp

/-- Upgrade refuses exactly when a resource it would create (in the new manifest, not in the
deployed one) exists and is not this release's; a refused upgrade has sent only reads. -/
theorem upgrade_refusal_mutates_nothing (rel ns : String) (to force dry : Bool) (current target : List Obj) (s : Store)
    (h : ∃ r ∈ target, r.key ∉ keys current ∧ conflict to rel ns s r) :
    (upgradeCluster rel ns to force dry current target s).ok = false ∧
    (upgradeCluster rel ns to force dry current target s).store = s ∧
    ∀ e ∈ (upgradeCluster rel ns to force dry current target s).log, e.isWrite = false := by
  obtain ⟨r, hr, hk, live, hl, hm⟩ := h
  have hmem : stamp rel ns r ∈ (target.map (stamp rel ns)).filter
      (fun t => (current.find? (·.key = t.key)).isNone) := by
    apply List.mem_filter.mpr
    refine ⟨List.mem_map_of_mem hr, ?_⟩
    cases hf : current.find? (·.key = (stamp rel ns r).key) with
    | none => rfl
    | some x =>
      have h1 := List.find?_some hf
      have h2 := List.mem_of_find?_eq_some hf
      exact absurd (List.mem_map.mpr ⟨x, h2, by simpa [stamp_key] using of_decide_eq_true h1⟩) hk
  have hp := (preflight_none_iff to rel ns _ s).mpr ⟨stamp rel ns r, hmem, live, hl, hm⟩
  have hrd := preflight_reads to rel ns ((target.map (stamp rel ns)).filter
      (fun t => (current.find? (·.key = t.key)).isNone)) s
  unfold upgradeCluster
  simp only
  split
  · rename_i log hpl
    rw [hpl] at hrd
    exact ⟨rfl, rfl, hrd⟩
  · rename_i a log hpl
    rw [hpl] at hp; cases hp

/-- ... and the deployed revision: an install or upgrade that fails its pre-flight checks
(of which the ownership check is one) attempts no storage write at all. -/
theorem install_refused_history_unchanged (fl : Helm.Ledger.InstallFlags) (f fn : Helm.Ledger.Faults)
    (hp : f.pre = .fail) (p : Nat) (l : Helm.Ledger.Ledger) :
    (Helm.Ledger.install fl f fn p l).1.ledger = l ∧ (Helm.Ledger.install fl f fn p l).1.writes = [] := by
  unfold Helm.Ledger.install
  simp [hp]

theorem upgrade_refused_history_unchanged (fl : Helm.Ledger.UpgradeFlags) (f fn : Helm.Ledger.Faults)
    (hp : f.pre = .fail) (p : Nat) (l : Helm.Ledger.Ledger) :
    (Helm.Ledger.upgrade fl f fn p l).1.ledger = l ∧ (Helm.Ledger.upgrade fl f fn p l).1.writes = [] := by
  unfold Helm.Ledger.upgrade
  simp [hp]

/-! ### what Helm creates or updates is stamped -/

theorem install_result_owned (rel ns : String) (to force : Bool) (manifest : List Obj) (s : Store)
    (hn : DistinctKeys manifest)
    (hok : (installCluster rel ns to force false manifest s).ok = true) :
    ∀ t ∈ manifest, fullMerge force to t = true →
      ∃ o, (installCluster rel ns to force false manifest s).store.get? t.key = some o ∧ owned o rel ns = true := by
  intro t ht hm
  unfold installCluster at hok ⊢
  have hn' : (((manifest.map (stamp rel ns)).map (·.key))).Pairwise (· ≠ ·) := by
    unfold DistinctKeys keys at hn
    simpa [List.map_map, Function.comp_def, stamp_key] using hn
  simp only at hok ⊢
  split at hok
  · simp at hok
  · rename_i adopted log hp
    simp only [Bool.false_eq_true, if_false] at hok ⊢
    split
    · refine ⟨stamp rel ns t, ?_, stamp_owned rel ns t⟩
      have := Store.get?_foldl_put_mem (manifest.map (stamp rel ns)) s (stamp rel ns t)
        (List.mem_map_of_mem ht) hn'
      rw [filter_norej]
      simpa [stamp_key] using this
    · rename_i hne
      simp only [hne, Bool.false_eq_true, if_false] at hok
      have hok' : (updateR [] force to adopted (manifest.map (stamp rel ns)) s).err = false := by simpa using hok
      -- `update` part: Props/C02 proves the same; repeated here from the lemmas
      unfold updateR at hok' ⊢
      simp only at hok' ⊢
      split at hok'
      · rename_i he; rw [he] at hok'; cases hok'
      · rename_i he
        simp only [he, Bool.false_eq_true, if_false]
        have he' : (updateTargets force to adopted (manifest.map (stamp rel ns)) { store := s, log := [], rej := [] }).err = false := by
          simpa using he
        obtain ⟨o, ho, hc⟩ := updateTargets_present force to adopted _ _ hn' he' (stamp rel ns t)
          (List.mem_map_of_mem ht)
        refine ⟨o, ?_, owned_of_covers_stamp (hc (by simpa [fullMerge, stamp_typed] using hm))⟩
        rcases deleteRemoved_store (manifest.map (stamp rel ns)) adopted
          (updateTargets force to adopted (manifest.map (stamp rel ns)) { store := s, log := [], rej := [] }) t.key with h | h
        · rw [h]; exact ho
        · have : ((manifest.map (stamp rel ns)).find? (·.key = t.key)).isSome = true := by
            rw [List.find?_isSome]
            exact ⟨stamp rel ns t, List.mem_map_of_mem ht, by simp [stamp_key]⟩
          rw [this] at h; cases h.2.2

theorem upgrade_result_owned (rel ns : String) (to force : Bool) (current target : List Obj) (s : Store)
    (hn : DistinctKeys target)
    (hok : (upgradeCluster rel ns to force false current target s).ok = true) :
    ∀ t ∈ target, fullMerge force false t = true →
      ∃ o, (upgradeCluster rel ns to force false current target s).store.get? t.key = some o ∧ owned o rel ns = true := by
  intro t ht hm
  have hn' : (((target.map (stamp rel ns)).map (·.key))).Pairwise (· ≠ ·) := by
    unfold DistinctKeys keys at hn
    simpa [List.map_map, Function.comp_def, stamp_key] using hn
  unfold upgradeCluster at hok ⊢
  simp only at hok ⊢
  split at hok
  · simp at hok
  · rename_i adopted log hp
    simp only [Bool.false_eq_true, if_false] at hok ⊢
    have hok' : (updateR [] force false (current ++ adopted) (target.map (stamp rel ns)) s).err = false := by
      simpa using hok
    unfold updateR at hok' ⊢
    simp only at hok' ⊢
    split at hok'
    · rename_i he; rw [he] at hok'; cases hok'
    · rename_i he
      simp only [he, Bool.false_eq_true, if_false]
      have he' : (updateTargets force false (current ++ adopted) (target.map (stamp rel ns)) { store := s, log := [], rej := [] }).err = false := by
        simpa using he
      obtain ⟨o, ho, hc⟩ := updateTargets_present force false (current ++ adopted) _ _ hn' he' (stamp rel ns t)
        (List.mem_map_of_mem ht)
      refine ⟨o, ?_, owned_of_covers_stamp (hc (by simpa [fullMerge, stamp_typed] using hm))⟩
      rcases deleteRemoved_store (target.map (stamp rel ns)) (current ++ adopted)
        (updateTargets force false (current ++ adopted) (target.map (stamp rel ns)) { store := s, log := [], rej := [] }) t.key with h | h
      · rw [h]; exact ho
      · have : ((target.map (stamp rel ns)).find? (·.key = t.key)).isSome = true := by
          rw [List.find?_isSome]
          exact ⟨stamp rel ns t, List.mem_map_of_mem ht, by simp [stamp_key]⟩
        rw [this] at h; cases h.2.2

/-! ### deletes are confined to the release's own manifests -/

/-- `Client.update` deletes only objects of the original manifest that the target dropped and
whose live object does not carry the keep policy. -/
theorem update_deletes_confined (rej : List String) (force three : Bool) (original target : List Obj) (s : Store) :
    ∀ e ∈ (updateR rej force three original target s).log, e.isDelete = true →
      e.key ∈ keys original ∧ (target.find? (·.key = e.key)).isSome = false := by
  intro e he hd
  unfold updateR at he
  simp only at he
  obtain ⟨e1, h1, p1⟩ := updateTargets_log force three original target { store := s, log := [], rej := rej }
  split at he
  · rw [h1] at he
    have := (p1 e (by simpa using he)).2
    rw [hd] at this; cases this
  · obtain ⟨e2, h2, p2⟩ := deleteRemoved_log target original
      (updateTargets force three original target { store := s, log := [], rej := rej })
    rw [h2, h1] at he
    simp only [List.nil_append] at he
    rcases List.mem_append.mp he with h | h
    · have := (p1 e h).2
      rw [hd] at this; cases this
    · exact p2 e h

private theorem reads_not_delete {e : Ev} (h : e.isWrite = false) : e.isDelete = false := by
  cases e <;> simp_all [Ev.isWrite, Ev.isDelete]

/-- An upgrade deletes only objects named in the deployed manifest (and absent from the new one). -/
theorem upgrade_deletes_confined (rel ns : String) (to force dry : Bool) (current target : List Obj) (s : Store) :
    ∀ e ∈ (upgradeCluster rel ns to force dry current target s).log, e.isDelete = true →
      e.key ∈ keys current ∧ e.key ∉ keys target := by
  intro e he hd
  have hrd := preflight_reads to rel ns ((target.map (stamp rel ns)).filter
      (fun t => (current.find? (·.key = t.key)).isNone)) s
  unfold upgradeCluster at he
  simp only at he
  split at he
  · rename_i log hpl
    rw [hpl] at hrd
    have := reads_not_delete (hrd e he)
    rw [hd] at this; cases this
  · rename_i adopted log hpl
    rw [hpl] at hrd
    have ha := preflight_adopted _ _ _ _ _ _ (by rw [hpl])
    split at he
    · have := reads_not_delete (hrd e he)
      rw [hd] at this; cases this
    · rcases List.mem_append.mp he with h | h
      · have := reads_not_delete (hrd e h)
        rw [hd] at this; cases this
      · obtain ⟨h1, h2⟩ := update_deletes_confined [] force false (current ++ adopted) _ s e h hd
        have hnt : e.key ∉ keys target := by
          intro hm
          obtain ⟨x, hx, hxk⟩ := List.mem_map.mp hm
          have : ((target.map (stamp rel ns)).find? (·.key = e.key)).isSome = true := by
            rw [List.find?_isSome]
            exact ⟨stamp rel ns x, List.mem_map_of_mem hx, by simp [stamp_key, hxk]⟩
          rw [this] at h2; cases h2
        refine ⟨?_, hnt⟩
        rcases List.mem_append.mp (by simpa [keys] using h1 : e.key ∈ keys current ++ keys adopted) with h3 | h3
        · exact h3
        · exfalso
          apply hnt
          rw [ha] at h3
          obtain ⟨x, hx, hxk⟩ := List.mem_map.mp h3
          have hx1 := (List.mem_filter.mp hx).1
          have hx2 := (List.mem_filter.mp hx1).1
          obtain ⟨y, hy, hyx⟩ := List.mem_map.mp hx2
          exact List.mem_map.mpr ⟨y, hy, by rw [← hxk, ← hyx]; rfl⟩

/-- An install deletes nothing. -/
theorem install_deletes_nothing (rel ns : String) (to force dry : Bool) (manifest : List Obj) (s : Store) :
    ∀ e ∈ (installCluster rel ns to force dry manifest s).log, e.isDelete = false := by
  intro e he
  have hrd := preflight_reads to rel ns (manifest.map (stamp rel ns)) s
  unfold installCluster at he
  simp only at he
  split at he
  · rename_i log hpl
    rw [hpl] at hrd
    exact reads_not_delete (hrd e he)
  · rename_i adopted log hpl
    rw [hpl] at hrd
    have ha := preflight_adopted _ _ _ _ _ _ (by rw [hpl])
    split at he
    · exact reads_not_delete (hrd e he)
    · split at he
      · rcases List.mem_append.mp he with h | h
        · exact reads_not_delete (hrd e h)
        · obtain ⟨x, _, hxe⟩ := List.mem_map.mp h
          subst hxe; rfl
      · rcases List.mem_append.mp he with h | h
        · exact reads_not_delete (hrd e h)
        · cases hd : e.isDelete with
          | false => rfl
          | true =>
            exfalso
            obtain ⟨h1, h2⟩ := update_deletes_confined [] force to adopted _ s e h hd
            rw [ha] at h1
            obtain ⟨x, hx, hxk⟩ := List.mem_map.mp h1
            have : ((manifest.map (stamp rel ns)).find? (·.key = e.key)).isSome = true := by
              rw [List.find?_isSome]
              exact ⟨x, (List.mem_filter.mp hx).1, by simp [hxk]⟩
            rw [this] at h2; cases h2

/-- A rollback deletes only objects named in the current manifest (and absent from the target). -/
theorem rollback_deletes_confined (rel ns : String) (force : Bool) (current target : List Obj) (s : Store) :
    ∀ e ∈ (rollbackCluster rel ns force current target s).log, e.isDelete = true → e.key ∈ keys current := by
  intro e he hd
  unfold rollbackCluster at he
  exact (update_deletes_confined [] force false current _ s e he hd).1

/-! ### where the full statement fails -/

def crLive : Obj := { key := "x/default/w", typed := false, data := [("k", "v")] }
def crMan : Obj := { key := "x/default/w", typed := false, data := [("k", "v")] }

/-- `upgrade --take-ownership` adopts a foreign unstructured object without stamping it: the
operation succeeds, not one write is sent, and the object is still not this release's. -/
theorem counterexample_unstructured_adoption_not_stamped :
    (upgradeCluster "r" "n" true false false [] [crMan] [crLive]).ok = true ∧
    (upgradeCluster "r" "n" true false false [] [crMan] [crLive]).store = [crLive] ∧
    owned crLive "r" "n" = false := by decide

/-- The CRDs of the chart's crds/ directory are created before the ownership check: an install
that is then refused has already changed the cluster. -/
theorem counterexample_crds_created_before_refusal :
    let s : Store := [{ key := "a" }]       -- a foreign object the manifest would create
    let r := Helm.DryRun.installOp "r" "n" {} false false [{ key := "crd/x" }] [{ key := "a" }] s
    r.ok = false ∧ r.log = [.create "crd/x", .get "a"] ∧ r.store ≠ s := by decide

/-- non-vacuity: a refusal, with a bystander and a foreign object in the store -/
example :
    let s : Store := [{ key := "a", labels := [(managedByLabel, "Helm")], annos := [(releaseNameAnno, "other"), (releaseNsAnno, "n")] }]
    (installCluster "r" "n" false false false [{ key := "a" }] s).ok = false ∧
    (installCluster "r" "n" true false false [{ key := "a" }] s).ok = true := by decide

/-! ### where the ownership check sits in the source (regenerated at every run) -/

/-- In install and in upgrade the ownership check (existingResourceConflict / requireAdoption)
comes before the revision record is created and before the operation proper; in install the CRDs
are installed before it (the known finding). -/
theorem ownership_check_position :
    Helm.Spec.precedes "existingResourceConflict" "Releases.Create" Helm.Gen.skelInstallRun = true ∧
    Helm.Spec.precedes "requireAdoption" "Releases.Create" Helm.Gen.skelInstallRun = true ∧
    Helm.Spec.precedes "existingResourceConflict" "i.performInstallCtx" Helm.Gen.skelInstallRun = true ∧
    Helm.Spec.precedes "existingResourceConflict" "Releases.Create" Helm.Gen.skelUpgradePerform = true ∧
    Helm.Spec.precedes "requireAdoption" "Releases.Create" Helm.Gen.skelUpgradePerform = true ∧
    Helm.Spec.precedes "existingResourceConflict" "u.releasingUpgrade" Helm.Gen.skelUpgradePerform = true ∧
    Helm.Spec.precedes "i.installCRDs" "existingResourceConflict" Helm.Gen.skelInstallRun = true := by decide

/-- `--take-ownership` is the only flag bound to TakeOwnership, in install and upgrade (regenerated from pkg/cmd at
every run). -/
theorem take_ownership_flag_bound :
    Helm.Spec.forwardsAll Helm.Gen.installFlags [("take-ownership", "client.TakeOwnership")] = true ∧
    Helm.Spec.forwardsAll Helm.Gen.upgradeFlags [("take-ownership", "client.TakeOwnership")] = true ∧
    (Helm.Gen.installFlags.filter (fun p => p.2 == "client.TakeOwnership")).length = 1 ∧
    (Helm.Gen.upgradeFlags.filter (fun p => p.2 == "client.TakeOwnership")).length = 1 := by
  decide

end Helm.Props.C07
