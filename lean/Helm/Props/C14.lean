/-
C14  Values that violate a chart's schema are never rendered or deployed.
Property theorems only.  The validator of a single schema is a parameter `valid`.
-/
import Helm.Model.Schema
import Helm.Gen.Tables
import Helm.Spec.Skeletons

namespace Helm.Props.C14
open Helm.Values Helm.Schema

mutual
  theorem failing_eq (valid : Schema → Tbl → Bool) : ∀ (c : SChart) (vals : Tbl),
      failing valid c vals = (scopeOf c vals).map (·.filterMap (rejects valid))
    | .mk name schema deps, vals => by
      rw [failing.eq_def, scopeOf.eq_def]
      simp only
      rw [failingDeps_eq valid deps vals]
      cases scopeDeps deps vals with
      | none => rfl
      | some r =>
        simp only [Option.map_some, List.filterMap_cons, rejects]
        cases schema with
        | none => rfl
        | some s => by_cases h : valid s vals = true <;> simp [h]
  theorem failingDeps_eq (valid : Schema → Tbl → Bool) : ∀ (l : SChartList) (vals : Tbl),
      failingDeps valid l vals = (scopeDeps l vals).map (·.filterMap (rejects valid))
    | .nil, _ => by simp [failingDeps, scopeDeps]
    | .cons c r, vals => by
      rw [failingDeps.eq_def, scopeDeps.eq_def]
      simp only
      cases h : vals.get? c.name with
      | none => rfl
      | some v =>
        cases v with
        | tbl sub =>
          simp only
          rw [failing_eq valid c sub, failingDeps_eq valid r vals]
          cases scopeOf c sub <;> cases scopeDeps r vals <;> simp
        | _ => rfl
end

/-- **The error names exactly the failing charts**: the list `ValidateAgainstSchema` reports is,
in tree order, the charts (root or dependency at any depth) whose schema rejects the part of
the coalesced values under their path. -/
theorem error_names_exactly_failing (valid : Schema → Tbl → Bool) (c : SChart) (vals : Tbl) :
    failing valid c vals = (scopeOf c vals).map (·.filterMap (rejects valid)) :=
  failing_eq valid c vals

/-- **Gate iff**: without the skip option the gate passes iff no chart of the tree has a schema
that rejects its values (and fails iff some chart does). -/
theorem gate_iff (valid : Schema → Tbl → Bool) (c : SChart) (vals : Tbl)
    (l : List (String × Option Schema × Tbl)) (hs : scopeOf c vals = some l) :
    gate valid false c vals = true ↔ ∀ e ∈ l, ∀ s, e.2.1 = some s → valid s e.2.2 = true := by
  unfold gate
  rw [failing_eq valid c vals, hs]
  simp only [Bool.false_or, Option.map_some, beq_iff_eq, Option.some.injEq, List.filterMap_eq_nil_iff]
  constructor
  · intro h e he s hes
    have := h e he
    simp only [rejects, hes] at this
    by_cases hv : valid s e.2.2 = true
    · exact hv
    · simp [hv] at this
  · intro h e he
    simp only [rejects]
    cases hes : e.2.1 with
    | none => rfl
    | some s => simp [h e he s hes]

/-- Skipping is possible only through the explicit option: with it the gate always passes,
without it the gate is exactly the check above. -/
theorem skip_only_by_flag (valid : Schema → Tbl → Bool) (c : SChart) (vals : Tbl) :
    gate valid true c vals = true ∧
    (gate valid false c vals = true ↔ failing valid c vals = some []) := by
  simp [gate]

/-- If every schema is satisfied the schema step never rejects. -/
theorem all_satisfied_passes (valid : Schema → Tbl → Bool) (hall : ∀ s t, valid s t = true)
    (c : SChart) (vals : Tbl) (l : List (String × Option Schema × Tbl)) (hs : scopeOf c vals = some l) :
    gate valid false c vals = true :=
  (gate_iff valid c vals l hs).mpr (fun _ _ s _ => hall s _)

/-- non-vacuity: a two-level tree, the subchart's schema rejecting -/
example :
    let sch : Schema := .mk (some .object) ["must"] none none none .nil true
    let tree : SChart := .mk "parent" none (.cons (.mk "sub" (some sch) .nil) .nil)
    let vals : Tbl := .cons "sub" (.tbl (.cons "other" (.num "1") .nil)) .nil
    failing (fun s t => validate s (.tbl t)) tree vals = some ["sub"] := by
  rfl

/-- The tie to the command line: the install `helm upgrade --install` falls back to gets its skip flag from
`--skip-schema-validation` and from nothing else (regenerated from pkg/cmd/upgrade.go at every run). -/
theorem upgrade_install_forwards_skip_flag :
    Helm.Spec.forwardsAll Helm.Gen.upgradeInstallForwards
      [("SkipSchemaValidation", "client.SkipSchemaValidation"),
       ("DisableOpenAPIValidation", "client.DisableOpenAPIValidation")] = true := by
  decide

/-- `--skip-schema-validation` is the only flag bound to SkipSchemaValidation, in install and upgrade
(regenerated from pkg/cmd at every run). -/
theorem skip_flag_bound :
    Helm.Spec.forwardsAll Helm.Gen.installFlags [("skip-schema-validation", "client.SkipSchemaValidation")] = true ∧
    Helm.Spec.forwardsAll Helm.Gen.upgradeFlags [("skip-schema-validation", "client.SkipSchemaValidation")] = true ∧
    (Helm.Gen.installFlags.filter (fun p => p.2 == "client.SkipSchemaValidation")).length = 1 ∧
    (Helm.Gen.upgradeFlags.filter (fun p => p.2 == "client.SkipSchemaValidation")).length = 1 := by
  decide

end Helm.Props.C14
