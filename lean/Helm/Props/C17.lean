/-
C17  Provenance verification accepts exactly untampered, trusted-key-signed charts.
Property theorems only.  Cryptography (signature check, SHA-256) and framing (clearsign
decoding, YAML of the message block) are parameters `p : Prims K`; their assumed properties are
explicit hypotheses of the corollaries.
-/
import Helm.Model.Prov

namespace Helm.Props.C17
open Helm.Prov

/-- Verification succeeds **iff** the provenance file decodes to a signed block, the signature
over the block's signed text is valid under the keyring, the message parses, and it lists, under
the archive's file name, `sha256:` + the SHA-256 of the archive's actual bytes. -/
theorem verify_iff {K} (p : Prims K) (kr : K) (archive : Bytes) (base : String) (prov : Bytes) :
    verify p kr archive base prov = .ok ↔
      ∃ b sums, p.decode prov = some b ∧ p.sigValid kr b.signed b.sig = true ∧
        p.parseSums b.plaintext = some sums ∧
        lookup base sums = some ("sha256:" ++ p.sha256hex archive) := by
  unfold verify
  constructor
  · intro h
    cases hd : p.decode prov with
    | none => simp [hd] at h
    | some b =>
      simp only [hd] at h
      by_cases hs : p.sigValid kr b.signed b.sig = true
      · simp only [hs, Bool.not_true, Bool.false_eq_true, if_false] at h
        cases hp : p.parseSums b.plaintext with
        | none => simp [hp] at h
        | some sums =>
          simp only [hp] at h
          cases hl : lookup base sums with
          | none => simp [hl] at h
          | some sha =>
            simp only [hl] at h
            by_cases he : sha = "sha256:" ++ p.sha256hex archive
            · exact ⟨b, sums, rfl, hs, hp, by rw [hl, he]⟩
            · simp [he] at h
      · simp [hs] at h
  · rintro ⟨b, sums, hd, hs, hp, hl⟩
    simp [hd, hs, hp, hl]

/-- Any change to the archive bytes makes verification fail -- given that SHA-256 does not
collide on the two archives (the cryptographic assumption, stated as a hypothesis). -/
theorem tampered_archive_fails {K} (p : Prims K) (kr : K) (a a' : Bytes) (base : String) (prov : Bytes)
    (hok : verify p kr a base prov = .ok) (hno : p.sha256hex a ≠ p.sha256hex a') :
    verify p kr a' base prov ≠ .ok := by
  intro h'
  obtain ⟨b, sums, hd, _, hp, hl⟩ := (verify_iff p kr a base prov).mp hok
  obtain ⟨b', sums', hd', _, hp', hl'⟩ := (verify_iff p kr a' base prov).mp h'
  rw [hd] at hd'; cases hd'
  rw [hp] at hp'; cases hp'
  rw [hl] at hl'
  simp only [Option.some.injEq, String.append_right_inj] at hl'
  exact hno hl'

/-- A keyring under which the signature does not check (signer absent, other keys only) fails. -/
theorem untrusted_key_fails {K} (p : Prims K) (kr : K) (a : Bytes) (base : String) (prov : Bytes)
    (h : ∀ b, p.decode prov = some b → p.sigValid kr b.signed b.sig = false) :
    verify p kr a base prov ≠ .ok := by
  intro hok
  obtain ⟨b, _, hd, hs, _, _⟩ := (verify_iff p kr a base prov).mp hok
  rw [h b hd] at hs; cases hs

/-- Any change to the signed text or to the signature fails -- given unforgeability: the keyring
accepts no (text, signature) pair other than the one that was produced by the signer. -/
theorem tampered_provenance_fails {K} (p : Prims K) (kr : K) (a : Bytes) (base : String)
    (prov prov' : Bytes) (b b' : Block) (hd : p.decode prov = some b) (hd' : p.decode prov' = some b')
    (hchanged : b'.signed ≠ b.signed ∨ b'.sig ≠ b.sig)
    (unforgeable : ∀ t s, p.sigValid kr t s = true → t = b.signed ∧ s = b.sig) :
    verify p kr a base prov' ≠ .ok := by
  intro hok
  obtain ⟨b2, _, hd2, hs, _, _⟩ := (verify_iff p kr a base prov').mp hok
  rw [hd'] at hd2; cases hd2
  obtain ⟨h1, h2⟩ := unforgeable _ _ hs
  rcases hchanged with h | h
  · exact h h1
  · exact h h2

/-- A renamed archive fails when the message has no entry under the new name. -/
theorem renamed_archive_fails {K} (p : Prims K) (kr : K) (a : Bytes) (base' : String) (prov : Bytes)
    (h : ∀ b sums, p.decode prov = some b → p.parseSums b.plaintext = some sums → lookup base' sums = none) :
    verify p kr a base' prov ≠ .ok := by
  intro hok
  obtain ⟨b, sums, hd, _, hp, hl⟩ := (verify_iff p kr a base' prov).mp hok
  rw [h b sums hd hp] at hl; cases hl

/-- Sign then verify with the matching key always passes -- given the round-trip properties of
the primitives: the produced file decodes to a block whose signed text checks under the
keyring and whose message lists the archive's digest under its name. -/
theorem sign_then_verify {K} (p : Prims K) (kr : K) (a : Bytes) (base : String) (prov : Bytes) (b : Block)
    (hd : p.decode prov = some b) (hs : p.sigValid kr b.signed b.sig = true)
    (hm : p.parseSums b.plaintext = some [(base, "sha256:" ++ p.sha256hex a)]) :
    verify p kr a base prov = .ok := by
  apply (verify_iff p kr a base prov).mpr
  exact ⟨b, _, hd, hs, hm, by simp [lookup]⟩

/-- With verification required, a download whose verification fails (or whose provenance file
cannot be fetched) returns an error; a passing one succeeds. -/
theorem verify_always_propagates (provFetched : Bool) (v : Verdict) :
    downloadVerify .always provFetched v = .ok ↔ (provFetched = true ∧ v = .ok) := by
  cases provFetched <;> cases v <;> simp [downloadVerify]

theorem verify_always_never_unverified (provFetched : Bool) (v : Verdict) :
    downloadVerify .always provFetched v ≠ .okUnverified := by
  cases provFetched <;> cases v <;> simp [downloadVerify]

/-- non-vacuity: a toy instantiation of the primitives on which `verify` accepts -/
example :
    let p : Prims Nat := { decode := fun x => some ⟨x, x, [1]⟩, sigValid := fun k _ s => k == 7 && s == [1],
                           sha256hex := fun _ => "ab", parseSums := fun _ => some [("c-1.tgz", "sha256:ab")] }
    verify p 7 [1, 2] "c-1.tgz" [9] = .ok ∧ verify p 8 [1, 2] "c-1.tgz" [9] = .badSignature ∧
    verify p 7 [1, 2] "d-1.tgz" [9] = .noSumForFile := by decide

end Helm.Props.C17
