/-
C05  Rendering is deterministic and sees only the chart, values and release data.
Property theorems only.  Not modelled: text/template and sprig execution, the JSON-schema
compiler (observed by the correspondence: repeated / concurrent renders, environment, cwd).
-/
import Helm.Model.Render
import Helm.Model.Manifest
import Helm.Lemmas.Render
import Helm.Lemmas.Manifest
import Helm.Spec.Tables

namespace Helm.Props.C05
open Helm.Render Helm.Manifest

/-! ## 1. No map iteration order reaches the template engine or the manifest -/

/-- The order in which templates are parsed and executed is a function of the *set* of template
paths: any two iteration orders of the template map give the same order. -/
theorem sortTemplates_perm_invariant (keys keys' : List String) (hp : keys.Perm keys') :
    sortTemplates keys = sortTemplates keys' :=
  mergeSort_perm_invariant geTpl geTpl_trans geTpl_total keys keys'
    (fun a b _ _ h1 h2 => geTpl_antisymm a b h1 h2) hp

/-- The manifests and hooks produced by `SortManifests` -- their content and their order -- do
not depend on the iteration order of the rendered-file map (keys of a map are distinct). -/
theorem sortManifests_perm_invariant (order : List String) (table : List (String × String))
    (headOf : Str → Head) (files files' : List (String × Str))
    (hn : (files.map (·.1)).Nodup) (hp : files.Perm files') :
    (sortManifests order table headOf files).manifests = (sortManifests order table headOf files').manifests ∧
    (sortManifests order table headOf files).hooks = (sortManifests order table headOf files').hooks := by
  unfold sortManifests
  rw [docsOf_perm_invariant files files' hn hp]
  exact ⟨rfl, rfl⟩

/-- The files handed on to `SortManifests` after NOTES extraction are the same set, whatever
the iteration order. -/
theorem notes_rest_perm (subNotes : Bool) (main : String) (files files' : List (String × Str))
    (hp : files.Perm files') :
    (extractNotes subNotes main files).2.Perm (extractNotes subNotes main files').2 := by
  rw [Helm.Manifest.extractNotes_rest_eq, Helm.Manifest.extractNotes_rest_eq]
  exact hp.filter _

/-- The notes text is independent of the iteration order when sub-notes are off. -/
theorem notes_perm_invariant (main : String) (files files' : List (String × Str))
    (hn : (files.map (·.1)).Nodup) (hp : files.Perm files') :
    (extractNotes false main files).1 = (extractNotes false main files').1 := by
  unfold extractNotes
  rw [extractNotes_main_only, extractNotes_main_only]
  -- at most one file has the main notes path
  have hperm := hp.filter (fun kv => hasSuffix kv.1.toList notesSuffix && decide (kv.1 = main))
  have hle : ∀ (l : List (String × Str)), (l.map (·.1)).Nodup →
      ∀ a b, a ∈ l.filter (fun kv => hasSuffix kv.1.toList notesSuffix && decide (kv.1 = main)) →
        b ∈ l.filter (fun kv => hasSuffix kv.1.toList notesSuffix && decide (kv.1 = main)) → a = b := by
    intro l hnl a b ha hb
    have ha' := List.mem_filter.mp ha
    have hb' := List.mem_filter.mp hb
    simp only [Bool.and_eq_true, decide_eq_true_eq] at ha' hb'
    exact eq_of_nodup_keys l hnl a b ha'.1 hb'.1 (ha'.2.2.trans hb'.2.2.symm)
  have heq : files.filter (fun kv => hasSuffix kv.1.toList notesSuffix && decide (kv.1 = main)) =
      files'.filter (fun kv => hasSuffix kv.1.toList notesSuffix && decide (kv.1 = main)) := by
    have hnd : (files.filter (fun kv => hasSuffix kv.1.toList notesSuffix && decide (kv.1 = main))).Nodup := by
      have h0 : files.Pairwise (· ≠ ·) :=
        List.Pairwise.of_map (·.1) (fun a b hab he => hab (congrArg (·.1) he)) hn
      exact h0.filter _
    cases hf : files.filter (fun kv => hasSuffix kv.1.toList notesSuffix && decide (kv.1 = main)) with
    | nil => rw [hf] at hperm; exact (List.Perm.nil_eq hperm)
    | cons x xs =>
      rw [hf] at hperm hnd
      cases xs with
      | nil => exact (List.perm_singleton.mp hperm.symm).symm
      | cons y ys =>
        exfalso
        have hxy : x = y := hle files hn x y (by rw [hf]; simp) (by rw [hf]; simp)
        subst hxy
        simp at hnd
  rw [heq]

/-- With sub-notes ON too: the files are visited in path order, so the notes text (and the
remaining files) are a function of the *set* of rendered files.  (On the pinned tree the text
depended on the map's iteration order: repaired in /repo, see known_findings.json.) -/
theorem notes_sorted_perm_invariant (subNotes : Bool) (main : String) (files files' : List (String × Str))
    (hn : (files.map (·.1)).Nodup) (hp : files.Perm files') :
    extractNotesSorted subNotes main files = extractNotesSorted subNotes main files' := by
  unfold extractNotesSorted
  congr 1
  apply mergeSort_perm_invariant keyLe _ _ files files' _ hp
  · intro a b c h1 h2
    simp only [keyLe, decide_eq_true_eq] at *
    exact String.le_trans h1 h2
  · intro a b
    simp only [keyLe, Bool.or_eq_true, decide_eq_true_eq]
    exact String.le_total a.1 b.1
  · intro a b ha hb h1 h2
    simp only [keyLe, decide_eq_true_eq] at h1 h2
    exact eq_of_nodup_keys files hn a b ha hb (String.le_antisymm h1 h2)

/-- the two orders of the old counterexample now give the same text -/
example :
    (extractNotesSorted true "p/templates/NOTES.txt"
        [("p/templates/NOTES.txt", ['A']), ("p/charts/s/templates/NOTES.txt", ['B'])]).1 =
    (extractNotesSorted true "p/templates/NOTES.txt"
        [("p/charts/s/templates/NOTES.txt", ['B']), ("p/templates/NOTES.txt", ['A'])]).1 :=
  congrArg Prod.fst (notes_sorted_perm_invariant true _ _ _ (by decide) (List.Perm.swap _ _ _))

/-! ## 2. What chart content can reach: regenerated function-map facts -/

/-- `env` and `expandenv` -- the sprig functions reading the process environment -- are removed. -/
theorem env_functions_removed : Helm.Gen.sprigDeleted = Helm.Spec.sprigDeleted := by decide

/-- the functions Helm adds are the documented pure ones plus `lookup` (cluster, opt-in) -/
theorem extra_functions_are_spec : Helm.Gen.extraFuncs = Helm.Spec.extraFuncs := by decide

/-- DNS resolution is stubbed unless `EnableDNS` is set. -/
theorem dns_stubbed_unless_enabled : Helm.Gen.dnsStubbedUnlessEnabled = true := by decide

/-- Templates are parsed and executed by ranging over the sorted key list (the model's
`sortTemplates` order), never over the template map itself. -/
theorem render_loops_range_over_sorted_keys :
    Helm.Gen.renderLoops = ["Parse:keys", "ExecuteTemplate:keys"] ∧ Helm.Gen.renderKeysFrom = "sortTemplates" := by
  decide

end Helm.Props.C05
