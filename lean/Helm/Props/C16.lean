/-
C16  File-writing operations never escape their directory or exceed size limits.
Property theorems only.
-/
import Helm.Model.ArchivePath
import Helm.Lemmas.ArchivePath

namespace Helm.Props.C16
open Helm.ArchivePath

/-! ## 1. Every file name a loaded chart exposes is a clean relative path -/

/-- **For every string** used as a tar entry name: if the normaliser of `LoadArchiveFiles`
accepts it, the resulting name is non-empty, not rooted, has no drive prefix and every one of
its `/`-separated components is an ordinary name -- not empty, not `.`, not `..`.
Hence it is lexically inside any destination directory it is joined to. -/
theorem archive_name_safe (entryName n : Str) (h : normName entryName = .ok n) : SafeRel n :=
  normName_safe entryName n h

/-- non-vacuity and the classic attacks, on literals (tests, labelled as tests) -/
example : normName "c/templates/a.yaml".toList = .ok "templates/a.yaml".toList := by rfl
example : normName "c/../../etc/passwd".toList = .error .parentRef := by rfl
example : normName "c//etc/passwd".toList = .error .absolute := by rfl
example : normName "c\\..\\..\\x".toList = .error .parentRef := by rfl
example : normName "c/x/../../..".toList = .error .parentRef := by rfl
example : normName "c/./".toList = .error .outsideBase := by rfl
example : normName "c\\C:\\x".toList = .error .driveName := by rfl
example : normName "Chart.yaml".toList = .error .outsideBase := by rfl

/-- `path.Clean` of a relative path is some `..`s followed by ordinary components (the shape
the safety argument rests on). -/
theorem clean_shape (s : Str) :
    ∃ ds ns, cleanComps false (splitOn '/' s) = ds ++ ns ∧ (∀ d ∈ ds, d = dotdot) ∧ (∀ x ∈ ns, Normal x) :=
  cleanComps_shape s

/-! ## 2. Plugin archives: what reaches the secure join is lexically confined -/

theorem plugin_name_safe (dest d : Str) (h : cleanJoinLex dest = .ok d) :
    ':' ∉ d ∧ '\\' ∉ d ∧ dotdot ∉ splitOn '/' d ∧ d.head? ≠ some '/' :=
  cleanJoinLex_safe dest d h

/-! ## 3. Size limits -/

theorem limits_are_spec :
    Helm.Gen.maxDecompressedChartSize = 100 * 1024 * 1024 ∧
    Helm.Gen.maxDecompressedFileSize = 5 * 1024 * 1024 := by decide

/-- For every sequence of declared entry sizes: the archive is accepted only if every file is
within the per-file limit and the running total stays (strictly) within the chart limit. -/
theorem size_accounting (sizes : List Nat) (r : Nat) (h : loadSizes sizes = .accepted r) :
    (∀ s ∈ sizes, s ≤ Helm.Gen.maxDecompressedFileSize) ∧ r = sizes.sum ∧
    (sizes ≠ [] → sizes.sum < Helm.Gen.maxDecompressedChartSize) := by
  have := sizeLoop_accepted _ sizes _ 0 r h
  simpa using this

/-- Accepted or rejected, the loop never copies more than the chart limit in total: an
oversized archive is rejected without reading beyond the limit. -/
theorem never_reads_beyond_limit (sizes : List Nat) :
    (loadSizes sizes).read ≤ Helm.Gen.maxDecompressedChartSize := by
  have := sizeLoop_read_bounded Helm.Gen.maxDecompressedFileSize sizes Helm.Gen.maxDecompressedChartSize 0
  unfold loadSizes
  cases h : sizeLoop Helm.Gen.maxDecompressedFileSize sizes Helm.Gen.maxDecompressedChartSize 0 with
  | accepted r => rw [h] at this; simpa [SizeRes.read] using this
  | rejected r => rw [h] at this; simpa [SizeRes.read] using this

example : loadSizes [5 * 1024 * 1024, 1] = .accepted (5 * 1024 * 1024 + 1) := by decide
example : loadSizes [5 * 1024 * 1024 + 1] = .rejected 0 := by decide

end Helm.Props.C16
