/-
C06  Dry-run and template never change the cluster or the release history.
Property theorems only.  Storage side: the ledger model (every ledger, every flag
combination, every fault plan).  Cluster side: see Helm/Model/Cluster.lean (request log).
-/
import Helm.Model.Ledger
import Helm.Lemmas.Cluster
import Helm.Model.DryRun
import Helm.Gen.Tables
import Helm.Spec.Skeletons

namespace Helm.Props.C06
open Helm.Ledger

/-- A dry-run install attempts no storage write and leaves the history as it is -- whatever the
other flags (replace, atomic, hooks), the chart, the existing history and the fault plan. -/
theorem install_dry_run_writes_nothing (fl : InstallFlags) (hd : fl.dryRun = true) (f fn : Faults)
    (p : Nat) (l : Ledger) :
    (install fl f fn p l).1 = { ledger := l, decs := f.st, writes := [] } := by
  unfold install
  simp only [hd, if_true]
  cases f.pre <;> simp

theorem upgrade_dry_run_writes_nothing (fl : UpgradeFlags) (hd : fl.dryRun = true) (f fn : Faults)
    (p : Nat) (l : Ledger) :
    (upgrade fl f fn p l).1 = { ledger := l, decs := f.st, writes := [] } := by
  unfold upgrade
  cases f.pre <;> simp only
  cases last? l with
  | none => rfl
  | some lastRec =>
    simp only
    split
    · rfl
    · cases currentOf l <;> simp [hd]

theorem rollback_dry_run_writes_nothing (fl : RollbackFlags) (hd : fl.dryRun = true) (f : Faults)
    (l : Ledger) :
    (rollback fl f l).1 = { ledger := l, decs := f.st, writes := [] } := by
  unfold rollback rollbackOn
  cases f.pre <;> simp only
  cases last? l with
  | none => rfl
  | some cur =>
    simp only
    split
    · rfl
    · simp [hd]

theorem uninstall_dry_run_writes_nothing (fl : UninstallFlags) (hd : fl.dryRun = true) (f : Faults)
    (l : Ledger) :
    (uninstall fl f l).1 = { ledger := l, decs := f.st, writes := [] } := by
  unfold uninstall uninstallOn
  cases f.pre <;> simp [hd]

/-- premises satisfiable, on a populated history -/
example : (upgrade { dryRun := true, atomic := true, maxHistory := 1 } { wait := .fail } {} 5
    [⟨1, .superseded, 1⟩, ⟨2, .deployed, 2⟩]).1.writes = [] := by decide

/-! ### cluster side: a dry run sends only reads (the ownership pre-flight) and changes nothing -/
open Helm.Cluster in
theorem install_dry_run_cluster (rel ns : String) (to force : Bool) (manifest : List Obj) (s : Store) :
    (installCluster rel ns to force true manifest s).store = s ∧
    ∀ e ∈ (installCluster rel ns to force true manifest s).log, e.isWrite = false := by
  have hr := preflight_reads to rel ns (manifest.map (stamp rel ns)) s
  unfold installCluster
  simp only
  split <;> rename_i hp <;> rw [hp] at hr
  · exact ⟨rfl, hr⟩
  · simp only [if_true]
    exact ⟨trivial, hr⟩

open Helm.Cluster in
theorem upgrade_dry_run_cluster (rel ns : String) (to force : Bool) (current target : List Obj) (s : Store) :
    (upgradeCluster rel ns to force true current target s).store = s ∧
    ∀ e ∈ (upgradeCluster rel ns to force true current target s).log, e.isWrite = false := by
  have hr := preflight_reads to rel ns ((target.map (stamp rel ns)).filter
      (fun t => (current.find? (·.key = t.key)).isNone)) s
  unfold upgradeCluster
  simp only
  split <;> rename_i hp <;> rw [hp] at hr
  · exact ⟨rfl, hr⟩
  · simp only [if_true]
    exact ⟨trivial, hr⟩

/-! ### every dry-run spelling, CRDs and client-only -/

open Helm.Cluster Helm.DryRun in
/-- Whatever the spelling (DryRun, or DryRunOption client / server / true), whatever the other
flags and whatever the chart has in crds/: an install in a dry-run mode leaves the cluster as
it is and sends only reads. -/
theorem install_any_dry_run_spelling (rel ns : String) (m : Mode) (to force : Bool) (crds manifest : List Obj)
    (s : Store) (hd : m.dryRun = true ∨ m.option = "client" ∨ m.option = "server" ∨ m.option = "true") :
    (installOp rel ns m to force crds manifest s).store = s ∧
    ∀ e ∈ (installOp rel ns m to force crds manifest s).log, e.isWrite = false := by
  have hdr : isDryRun m = true := by
    unfold isDryRun
    rcases hd with h | h | h | h <;> simp [h]
  have hp : crdPhase m crds s = (s, []) := by
    unfold crdPhase
    split
    · rfl
    · simp [hdr]
  unfold installOp
  rw [hp]
  split
  · exact ⟨rfl, by simp⟩
  · rw [hdr]
    have := install_dry_run_cluster rel ns to force manifest s
    exact ⟨this.1, by simpa using this.2⟩

open Helm.Cluster Helm.DryRun in
theorem upgrade_any_dry_run_spelling (rel ns : String) (m : Mode) (to force : Bool) (current target : List Obj)
    (s : Store) (hd : m.dryRun = true ∨ m.option = "client" ∨ m.option = "server" ∨ m.option = "true") :
    (upgradeOp rel ns m to force current target s).store = s ∧
    ∀ e ∈ (upgradeOp rel ns m to force current target s).log, e.isWrite = false := by
  have hdr : isDryRun m = true := by
    unfold isDryRun
    rcases hd with h | h | h | h <;> simp [h]
  unfold upgradeOp
  rw [hdr]
  exact upgrade_dry_run_cluster rel ns to force current target s

open Helm.Cluster Helm.DryRun in
/-- Client-only rendering sends no request at all. -/
theorem client_only_sends_nothing (rel ns : String) (m : Mode) (hc : m.clientOnly = true) (to force : Bool)
    (crds manifest : List Obj) (s : Store) :
    (installOp rel ns m to force crds manifest s).log = [] ∧ (installOp rel ns m to force crds manifest s).store = s := by
  unfold installOp crdPhase
  simp [hc]

/-- The tie to the source: the spellings `isDryRun` accepts, in Install and in Upgrade, and the
guard of the CRD block (regenerated from pkg/action/install.go, upgrade.go at every run). -/
theorem dry_run_spellings_are_the_models :
    Helm.Gen.installDryRunSpellings = ["client", "server", "true"] ∧
    Helm.Gen.upgradeDryRunSpellings = ["client", "server", "true"] ∧
    Helm.Gen.crdBailCondition = "i.isDryRun()" := by decide

/-- non-vacuity: dry-run=server with a CRD in the chart and a populated cluster -/
example :
    (Helm.DryRun.installOp "r" "n" { option := "server" } false false [{ key := "crd/x" }] [{ key := "a" }] [{ key := "z" }]).log
      = [.get "a"] := by decide

/-- The tie to the command line: the install `helm upgrade --install` falls back to gets both dry-run fields,
the hook, CRD and ownership switches from the upgrade flags of the same name (regenerated from
pkg/cmd/upgrade.go at every run). -/
theorem upgrade_install_forwards_dry_run :
    Helm.Spec.forwardsAll Helm.Gen.upgradeInstallForwards
      [("DryRun", "client.DryRun"), ("DryRunOption", "client.DryRunOption"), ("DisableHooks", "client.DisableHooks"),
       ("SkipCRDs", "client.SkipCRDs"), ("TakeOwnership", "client.TakeOwnership"), ("HideSecret", "client.HideSecret")] = true := by
  decide

/-- `--dry-run` is bound to the dry-run option of install and upgrade and to the dry-run switch of rollback and
uninstall, and to nothing else (regenerated from pkg/cmd at every run). -/
theorem dry_run_flag_bound :
    Helm.Spec.forwardsAll Helm.Gen.installFlags [("dry-run", "client.DryRunOption")] = true ∧
    Helm.Spec.forwardsAll Helm.Gen.upgradeFlags [("dry-run", "client.DryRunOption")] = true ∧
    Helm.Spec.forwardsAll Helm.Gen.rollbackFlags [("dry-run", "client.DryRun")] = true ∧
    Helm.Spec.forwardsAll Helm.Gen.uninstallFlags [("dry-run", "client.DryRun")] = true := by
  decide

end Helm.Props.C06
