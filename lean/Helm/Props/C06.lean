/-
C06  Dry-run and template never change the cluster or the release history.
Property theorems only.  Storage side: the ledger model (every ledger, every flag
combination, every fault plan).  Cluster side: see Helm/Model/Cluster.lean (request log).
-/
import Helm.Model.Ledger
import Helm.Lemmas.Cluster

namespace Helm.Props.C06
open Helm.Ledger

/-- A dry-run install attempts no storage write and leaves the history as it is -- whatever the
other flags (replace, atomic, hooks), the chart, the existing history and the fault plan. -/
theorem install_dry_run_writes_nothing (fl : InstallFlags) (hd : fl.dryRun = true) (f fn : Faults)
    (p : Nat) (l : Ledger) :
    (install fl f fn p l).1 = { ledger := l, decs := f.st, writes := [] } := by
  unfold install
  simp only [hd, if_true]
  cases f.pre <;> simp

theorem upgrade_dry_run_writes_nothing (fl : UpgradeFlags) (hd : fl.dryRun = true) (f fn : Faults)
    (p : Nat) (l : Ledger) :
    (upgrade fl f fn p l).1 = { ledger := l, decs := f.st, writes := [] } := by
  unfold upgrade
  cases f.pre <;> simp only
  cases last? l with
  | none => rfl
  | some lastRec =>
    simp only
    split
    · rfl
    · cases currentOf l <;> simp [hd]

theorem rollback_dry_run_writes_nothing (fl : RollbackFlags) (hd : fl.dryRun = true) (f : Faults)
    (l : Ledger) :
    (rollback fl f l).1 = { ledger := l, decs := f.st, writes := [] } := by
  unfold rollback rollbackOn
  cases f.pre <;> simp only
  cases last? l with
  | none => rfl
  | some cur =>
    simp only
    split
    · rfl
    · simp [hd]

theorem uninstall_dry_run_writes_nothing (fl : UninstallFlags) (hd : fl.dryRun = true) (f : Faults)
    (l : Ledger) :
    (uninstall fl f l).1 = { ledger := l, decs := f.st, writes := [] } := by
  unfold uninstall uninstallOn
  cases f.pre <;> simp [hd]

/-- premises satisfiable, on a populated history -/
example : (upgrade { dryRun := true, atomic := true, maxHistory := 1 } { wait := .fail } {} 5
    [⟨1, .superseded, 1⟩, ⟨2, .deployed, 2⟩]).1.writes = [] := by decide

/-! ### cluster side: a dry run sends only reads (the ownership pre-flight) and changes nothing -/
open Helm.Cluster in
theorem install_dry_run_cluster (rel ns : String) (to force : Bool) (manifest : List Obj) (s : Store) :
    (installCluster rel ns to force true manifest s).store = s ∧
    ∀ e ∈ (installCluster rel ns to force true manifest s).log, e.isWrite = false := by
  have hr := preflight_reads to rel ns (manifest.map (stamp rel ns)) s
  unfold installCluster
  simp only
  split <;> rename_i hp <;> rw [hp] at hr
  · exact ⟨rfl, hr⟩
  · simp only [if_true]
    exact ⟨trivial, hr⟩

open Helm.Cluster in
theorem upgrade_dry_run_cluster (rel ns : String) (to force : Bool) (current target : List Obj) (s : Store) :
    (upgradeCluster rel ns to force true current target s).store = s ∧
    ∀ e ∈ (upgradeCluster rel ns to force true current target s).log, e.isWrite = false := by
  have hr := preflight_reads to rel ns ((target.map (stamp rel ns)).filter
      (fun t => (current.find? (·.key = t.key)).isNone)) s
  unfold upgradeCluster
  simp only
  split <;> rename_i hp <;> rw [hp] at hr
  · exact ⟨rfl, hr⟩
  · simp only [if_true]
    exact ⟨trivial, hr⟩

end Helm.Props.C06
