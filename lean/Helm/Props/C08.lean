/-
C08  Every rendered document is applied exactly once, in dependency order.
Property theorems only (helper lemmas live in Helm/Lemmas).
-/
import Helm.Model.Manifest
import Helm.Model.Barrier
import Helm.Lemmas.KindOrder
import Helm.Lemmas.Manifest
import Helm.Lemmas.Barrier
import Helm.Spec.Tables

namespace Helm.Props.C08
open Helm.KindOrder Helm.Manifest Helm.Barrier

/-! ## 1. Ordering: stable sort by the kind table -/

/-- Nothing is lost or duplicated by the kind sort (any table, any list). -/
theorem sort_perm {α} (o : List String) (key : α → String) (xs : List α) :
    (sortByKind o key xs).Perm xs :=
  List.mergeSort_perm _ _

/-- The result is ordered: no element is followed by one whose kind sorts strictly before it. -/
theorem sort_sorted {α} (o : List String) (key : α → String) (xs : List α) :
    (sortByKind o key xs).Pairwise (fun a b => lessByKind o (key b) (key a) = false) := by
  have h := List.pairwise_mergeSort (le := fun x y => leByKind o (key x) (key y))
    (fun a b c => leByKind_trans o _ _ _) (fun a b => leByKind_total o _ _) xs
  refine h.imp ?_
  intro a b hab
  simpa [leByKind] using hab

/-- Stability: two elements that the order does not force apart keep their original relative
order -- in particular two resources of the same kind. -/
theorem sort_stable {α} (o : List String) (key : α → String) (xs : List α) (a b : α)
    (hab : lessByKind o (key b) (key a) = false) (hsub : [a, b].Sublist xs) :
    [a, b].Sublist (sortByKind o key xs) :=
  List.pair_sublist_mergeSort (le := fun x y => leByKind o (key x) (key y))
    (fun a b c => leByKind_trans o _ _ _) (fun a b => leByKind_total o _ _)
    (by simp [leByKind, hab]) hsub

theorem same_kind_keeps_order {α} (o : List String) (key : α → String) (xs : List α) (a b : α)
    (hk : key a = key b) (hsub : [a, b].Sublist xs) :
    [a, b].Sublist (sortByKind o key xs) :=
  sort_stable o key xs a b (by
    have := leByKind_refl o (key a)
    simpa [leByKind, hk] using this) hsub

/-- Known kinds come before unknown kinds. -/
theorem known_before_unknown (o : List String) (a b : String)
    (ha : (rank o a).isSome) (hb : rank o b = none) :
    lessByKind o a b = true ∧ lessByKind o b a = false := by
  unfold lessByKind
  cases h : rank o a <;> simp_all

/-- Known kinds follow the table. -/
theorem known_follow_table (o : List String) (a b : String) (i j : Nat)
    (ha : rank o a = some i) (hb : rank o b = some j) :
    lessByKind o a b = decide (i < j) := by
  simp [lessByKind, ha, hb]

/-- Unknown kinds are ordered alphabetically among themselves. -/
theorem unknown_alphabetical (o : List String) (a b : String)
    (ha : rank o a = none) (hb : rank o b = none) :
    lessByKind o a b = decide (a < b) := by
  simp [lessByKind, ha, hb]

/-- The order never ties two different kinds (so "original order within a kind" is the only
freedom a stable sort has, and the sorted result is unique). -/
theorem no_ties (o : List String) (a b : String)
    (h1 : lessByKind o a b = false) (h2 : lessByKind o b a = false) : a = b :=
  leByKind_antisymm o a b (by simp [leByKind, h2]) (by simp [leByKind, h1])

/-! ## 2. Regenerated table obligations (re-proved against /repo's tables at every run) -/

theorem installOrder_is_spec : Helm.Gen.installOrder = Helm.Spec.installOrder := by decide
theorem uninstallOrder_is_spec : Helm.Gen.uninstallOrder = Helm.Spec.uninstallOrder := by decide
theorem hookEvents_is_spec : Helm.Gen.hookEvents = Helm.Spec.hookEvents := by decide
theorem hookAnnotations_are_spec :
    Helm.Gen.hookAnnotation = "helm.sh/hook" ∧ Helm.Gen.hookWeightAnnotation = "helm.sh/hook-weight" ∧
    Helm.Gen.hookDeleteAnnotation = "helm.sh/hook-delete-policy" ∧
    Helm.Gen.hookOutputLogAnnotation = "helm.sh/hook-output-log-policy" := by decide
theorem installOrder_nodup : Helm.Gen.installOrder.Nodup := by decide
theorem uninstallOrder_nodup : Helm.Gen.uninstallOrder.Nodup := by decide
/-- Both tables rank the same set of kinds. -/
theorem orders_same_kinds :
    (∀ k ∈ Helm.Gen.installOrder, k ∈ Helm.Gen.uninstallOrder) ∧
    (∀ k ∈ Helm.Gen.uninstallOrder, k ∈ Helm.Gen.installOrder) := by decide
/-- A namespace is created before anything that lives in one, and CRDs before workloads. -/
theorem namespace_first :
    ∀ k ∈ Helm.Gen.installOrder, k ≠ "PriorityClass" → k ≠ "Namespace" →
      lessByKind Helm.Gen.installOrder "Namespace" k = true := by decide

/-! ## 3. Exactly-once partition of documents into manifests / hooks / dropped -/

/-- Every considered document lands in exactly one of: release manifest, hook list, dropped
(unknown hook event); file path and text are unchanged.  Stated for the complete
`SortManifests` (after both kind sorts), any file map, any head decoder. -/
theorem partition (order : List String) (table : List (String × String)) (headOf : Str → Head)
    (files : List (String × Str)) :
    let r := sortManifests order table headOf files
    let docs := docsOf files
    (r.manifests.map (fun m => (m.name, m.content)) ++ r.hooks.map (fun h => (h.path, h.manifest)) ++
      docs.filter (fun d => classify table d.1 d.2 (headOf d.2) = .dropped)).Perm docs := by
  intro r docs
  have hm : (r.manifests.map (fun m => (m.name, m.content))).Perm
      ((genericOf (classifyAll table headOf docs)).map (fun m => (m.name, m.content))) :=
    (sort_perm order _ _).map _
  have hh : (r.hooks.map (fun h => (h.path, h.manifest))).Perm
      ((hooksOf (classifyAll table headOf docs)).map (fun h => (h.path, h.manifest))) :=
    (sort_perm order _ _).map _
  exact ((hm.append hh).append_right _).trans (classify_partition table headOf docs)

/-- A document is a hook iff it carries the hook annotation and every listed word is a known
event; with the annotation and an unknown word it is dropped; without it, it is a manifest. -/
theorem hook_iff (table : List (String × String)) (path : String) (doc : Str) (h : Head) :
    (∃ hk, classify table path doc h = .hook hk) ↔
      ∃ types evs, lookup hookAnno h.annotations = some types ∧
        eventsOf table (annoItems types) = some evs := by
  unfold classify
  cases h1 : lookup hookAnno h.annotations with
  | none => simp
  | some types =>
    cases h2 : eventsOf table (annoItems types) <;> simp [h2]

theorem dropped_iff (table : List (String × String)) (path : String) (doc : Str) (h : Head) :
    classify table path doc h = .dropped ↔
      ∃ types, lookup hookAnno h.annotations = some types ∧
        eventsOf table (annoItems types) = none := by
  unfold classify
  cases h1 : lookup hookAnno h.annotations with
  | none => simp
  | some types =>
    cases h2 : eventsOf table (annoItems types) <;> simp [h2]

/-- `eventsOf` succeeds exactly when every word is in the events table. -/
theorem eventsOf_isSome_iff (table : List (String × String)) (ws : List String) :
    (eventsOf table ws).isSome ↔ ∀ w ∈ ws, (lookup w table).isSome :=
  eventsOf_isSome_iff' table ws

/-- Partials and blank files contribute no document; NOTES files are removed before. -/
theorem partial_contributes_nothing (p : String) (c : Str) (hp : isPartial p = true) :
    docsOf [(p, c)] = [] := by
  simp [docsOf, hp]

theorem notes_never_applied (subNotes : Bool) (main : String) (files : List (String × Str)) :
    ∀ kv ∈ (extractNotes subNotes main files).2, hasSuffix kv.1.toList notesSuffix = false :=
  extractNotes_rest_no_notes subNotes main files

/-- ... and every non-NOTES file is passed on unchanged and in order. -/
theorem notes_keeps_rest (subNotes : Bool) (main : String) (files : List (String × Str)) :
    (extractNotes subNotes main files).2 =
      files.filter (fun kv => !hasSuffix kv.1.toList notesSuffix) :=
  extractNotes_rest_eq subNotes main files

/-- Counterexample to "nothing is lost" at full strength (known finding C08:notes-suffix-drop):
a template whose path merely *ends* in `NOTES.txt` is removed with the notes files, and is not
the main notes file either -- its documents vanish. Replayed on the implementation at every run. -/
theorem counterexample_notes_suffix :
    extractNotes false "c/templates/NOTES.txt"
      [("c/templates/xNOTES.txt", ['k', 'i', 'n', 'd', ':', ' ', 'X'])] = ([], []) := by decide

/-! ## 4. Split: documents come out trimmed -/

theorem split_docs_trimmed (s : Str) : ∀ d ∈ splitManifests s, trimSpace d = d := by
  intro d hd
  simp only [splitManifests, List.mem_map] at hd
  obtain ⟨x, _, rfl⟩ := hd
  exact trimSpace_idem x

/-! ## 5. Per-kind barrier: under every schedule -/

theorem barrier_inv_init (ks : List String) : BInv ks {} := by
  simp [BInv]

theorem barrier_inv_step (ks : List String) (s s' : BState) (e : Ev)
    (hinv : BInv ks s) (hs : step ks s e = some s') : BInv ks s' :=
  binv_step ks s s' e hinv hs

/-- The invariant holds in every reachable state, for any resource list and any schedule. -/
theorem barrier_inv_run (ks : List String) (tr : List Ev) (s s' : BState)
    (hinv : BInv ks s) (hr : run ks s tr = some s') : BInv ks s' := by
  induction tr generalizing s with
  | nil => simp [run] at hr; subst hr; exact hinv
  | cons e es ih =>
    simp only [run] at hr
    cases hst : step ks s e with
    | none => simp [hst] at hr
    | some s1 =>
      simp [hst] at hr
      exact ih s1 (barrier_inv_step ks s s1 e hinv hst) hr

/-- Safety, under every schedule: when creation of resource `i` is started, every earlier
resource of a different kind has finished. -/
theorem barrier (ks : List String) (tr : List Ev) (s s' : BState)
    (hr : run ks {} tr = some s) (hs : step ks s .spawn = some s') :
    ∀ j, j < s.next → ks[j]? ≠ ks[s.next]? → j ∈ s.finished := by
  have hinv := barrier_inv_run ks tr {} s (barrier_inv_init ks) hr
  exact spawn_safe ks s s' hinv hs

/-- Non-vacuity: a concrete schedule over [A, A, B] in which the two A's overlap is accepted,
and one in which B starts before an A has finished is not. -/
example : accepts ["A", "A", "B"] [.spawn, .spawn, .finish 1, .finish 0, .spawn, .finish 2] = true := by decide
example : accepts ["A", "A", "B"] [.spawn, .spawn, .finish 1, .spawn] = false := by decide

/-- The loop the barrier model was written from, as read from kube/client.go on this run: the
batches are keyed by the object's Kind, the wait sits under the key change, and a task is added
to the wait group before its goroutine starts. -/
theorem batch_loop_facts :
    Helm.Gen.batchKey = "info.Object.GetObjectKind().GroupVersionKind().Kind" ∧
    Helm.Gen.batchWaitsOnKeyChange = true ∧ Helm.Gen.batchAddsBeforeGo = true := by
  decide

end Helm.Props.C08
