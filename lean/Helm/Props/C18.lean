/-
C18  Version queries return the best matching chart from a well-formed index.
Property theorems only.
-/
import Helm.Model.Index
import Helm.Lemmas.Index

namespace Helm.Props.C18
open Helm.Index

/-! ## 1. Precedence is a total preorder (so "newest first" is well defined) -/

theorem precedence_total (a b : Ver) : (a.le b || b.le a) = true := by
  simp only [Ver.le, Bool.or_eq_true, decide_eq_true_eq]
  exact List.le_total _ _

theorem precedence_trans (a b c : Ver) : a.le b = true → b.le c = true → a.le c = true := by
  simp only [Ver.le, decide_eq_true_eq]
  exact List.le_trans

/-- SemVer-2 rules on literals (tests of the key encoding, labelled as tests):
1.0.0-alpha < 1.0.0-alpha.1 < 1.0.0-alpha.beta < 1.0.0-beta < 1.0.0-beta.2 < 1.0.0-beta.11 < 1.0.0-rc.1 < 1.0.0 -/
example :
    let v (pre : List Ident) : Ver := ⟨1, 0, 0, pre⟩
    (v [.alnum "alpha"]).key < (v [.alnum "alpha", .num 1]).key ∧
    (v [.alnum "alpha", .num 1]).key < (v [.alnum "alpha", .alnum "beta"]).key ∧
    (v [.alnum "alpha", .alnum "beta"]).key < (v [.alnum "beta"]).key ∧
    (v [.alnum "beta"]).key < (v [.alnum "beta", .num 2]).key ∧
    (v [.alnum "beta", .num 2]).key < (v [.alnum "beta", .num 11]).key ∧
    (v [.alnum "beta", .num 11]).key < (v [.alnum "rc", .num 1]).key ∧
    (v [.alnum "rc", .num 1]).key < (v []).key := by decide

/-! ## 2. A loaded index holds exactly the valid entries, newest first -/

/-- When the file has no null entry: the loaded list is a permutation of the valid entries
(nothing lost, nothing invented) ... -/
theorem load_keeps_exactly_valid (raw : List Entry) :
    ∃ es : List Entry, loadEntries (raw.map some) = .ok (es.map some) ∧ es.Perm (raw.filter (·.valid)) :=
  ⟨_, loadEntries_map_some raw, List.mergeSort_perm _ _⟩

/-- ... and it is sorted newest first (unparsable versions last). -/
theorem load_sorted (raw : List Entry) :
    ∃ es : List Entry, loadEntries (raw.map some) = .ok (es.map some) ∧
      es.Pairwise (fun a b => b.key ≤ a.key) := by
  refine ⟨_, loadEntries_map_some raw, ?_⟩
  have := List.pairwise_mergeSort geEntry_trans geEntry_total (raw.filter (·.valid))
  exact this.imp (by intro a b h; simpa [geEntry] using h)

/-! ## 3. Queries -/

/-- In a list sorted newest first, the first match is the best match. -/
theorem first_match_is_best (p : Entry → Bool) (l : List Entry)
    (hs : l.Pairwise fun a b => b.key ≤ a.key) (e : Entry) (h : l.find? p = some e) :
    p e = true ∧ ∀ e' ∈ l, p e' = true → e'.key ≤ e.key :=
  ⟨List.find?_some h, first_match_is_max p l hs e h⟩

/-- `Get` with an empty version, or with a version/constraint that is no entry's exact version
string: the result is the highest version that parses and satisfies the constraint. -/
theorem get_returns_highest_satisfying (l : List Entry) (version : String) (e : Entry)
    (hs : l.Pairwise fun a b => b.key ≤ a.key)
    (hnoexact : version.isEmpty = true ∨ l.find? (fun x => x.version = version) = none)
    (h : Index.get (l.map some) version true = .ok e) :
    (e.ver.isSome ∧ e.sat = true) ∧
    ∀ e' ∈ l, e'.ver.isSome → e'.sat = true → e'.key ≤ e.key := by
  unfold Index.get at h
  cases l with
  | nil => simp at h
  | cons x xs =>
    simp only [List.map_cons, List.isEmpty_cons, Bool.false_eq_true, if_false, Bool.not_true] at h
    have hexact : (if version.isEmpty = true then Res.ok none
        else firstMatch (fun e => decide (e.version = version)) (some x :: xs.map some)) = .ok none := by
      rcases hnoexact with hv | hv
      · simp [hv]
      · have := firstMatch_map_some (fun e => decide (e.version = version)) (x :: xs)
        simp only [List.map_cons] at this
        rw [this, hv]; simp
    rw [hexact] at h
    simp only at h
    have hfm := firstMatch_map_some (fun e => e.ver.isSome && e.sat) (x :: xs)
    simp only [List.map_cons] at hfm
    rw [hfm] at h
    cases hf : (x :: xs).find? (fun e => e.ver.isSome && e.sat) with
    | none => rw [hf] at h; simp at h
    | some e0 =>
      rw [hf] at h
      simp only [Res.ok.injEq] at h
      subst h
      obtain ⟨hp, hmax⟩ := first_match_is_best _ _ hs e0 hf
      simp only [Bool.and_eq_true] at hp
      refine ⟨hp, fun e' he' h1 h2 => hmax e' he' (by simp [h1, h2])⟩

/-- An entry whose version string is identical to the request is returned first. -/
theorem get_exact_match_first (l : List Entry) (version : String) (e : Entry)
    (hv : version.isEmpty = false) (hl : l ≠ [])
    (hx : l.find? (fun x => x.version = version) = some e) :
    Index.get (l.map some) version true = .ok e := by
  unfold Index.get
  cases l with
  | nil => exact absurd rfl hl
  | cons x xs =>
    have := firstMatch_map_some (fun e => decide (e.version = version)) (x :: xs)
    simp only [List.map_cons] at this
    simp [hv, this, hx]

/-- Nothing satisfies (and nothing matches exactly) → error. -/
theorem get_none_is_error (l : List Entry) (version : String)
    (hnoexact : l.find? (fun x => x.version = version) = none)
    (hnone : l.find? (fun e => e.ver.isSome && e.sat) = none) :
    Index.get (l.map some) version true = .err := by
  unfold Index.get
  cases l with
  | nil => simp
  | cons x xs =>
    have h1 := firstMatch_map_some (fun e => decide (e.version = version)) (x :: xs)
    have h2 := firstMatch_map_some (fun e => e.ver.isSome && e.sat) (x :: xs)
    simp only [List.map_cons] at h1 h2
    by_cases hv : version.isEmpty = true <;> simp [hv, h1, h2, hnoexact, hnone]

/-- An invalid constraint is an error, whatever the index holds. -/
theorem get_bad_constraint (vs : List (Option Entry)) (version : String) :
    Index.get vs version false = .err := by
  unfold Index.get; cases vs.isEmpty <;> simp

/-- Dependency resolution locks the highest indexed version that satisfies the range (and has a URL). -/
theorem resolve_locks_highest (l : List Entry) (e : Entry)
    (hs : l.Pairwise fun a b => b.key ≤ a.key) (h : resolvePick l = some e) :
    (e.ver.isSome ∧ e.hasURL = true ∧ e.sat = true) ∧
    ∀ e' ∈ l, e'.ver.isSome → e'.hasURL = true → e'.sat = true → e'.key ≤ e.key := by
  obtain ⟨hp, hmax⟩ := first_match_is_best _ _ hs e h
  simp only [Bool.and_eq_true] at hp
  exact ⟨⟨hp.1.1, hp.1.2, hp.2⟩, fun e' he' h1 h2 h3 => hmax e' he' (by simp [h1, h2, h3])⟩

/-- Tags (sorted newest first by the registry client): exact string first, else highest satisfying. -/
theorem tag_highest_satisfying (tags : List Entry) (version : String) (e : Entry)
    (hs : tags.Pairwise fun a b => b.key ≤ a.key)
    (hnoexact : version.isEmpty = true ∨ tags.find? (fun x => x.version = version) = none)
    (h : tagMatch tags version true = .ok e) :
    ∀ e' ∈ tags, e'.ver.isSome → e'.sat = true → e'.key ≤ e.key := by
  unfold tagMatch at h
  have hex : (if version.isEmpty = true then none else tags.find? fun e => decide (e.version = version)) = none := by
    rcases hnoexact with hv | hv <;> simp [hv]
  rw [hex] at h
  simp only [Bool.not_true, Bool.false_eq_true, if_false] at h
  cases hf : tags.find? (fun e => e.ver.isSome && e.sat) with
  | none => rw [hf] at h; simp at h
  | some e0 =>
    rw [hf] at h
    simp only [Res.ok.injEq] at h
    subst h
    intro e' he' h1 h2
    exact first_match_is_max _ _ hs e0 hf e' he' (by simp [h1, h2])

/-! ## 4. Null entries -/

/-- Whatever the nullness of the entries: loading never crashes, and the loaded list is a
permutation of the valid non-null entries, sorted newest first.  (A null entry used to crash the
sort or the first query: repaired in /repo, see known_findings.json.) -/
theorem load_with_nulls (raw : List (Option Entry)) :
    ∃ es : List Entry, loadEntries raw = .ok (es.map some) ∧ es.Perm (keptEntries raw) ∧
      es.Pairwise (fun a b => b.key ≤ a.key) := by
  refine ⟨_, rfl, List.mergeSort_perm _ _, ?_⟩
  have := List.pairwise_mergeSort geEntry_trans geEntry_total (keptEntries raw)
  exact this.imp (by intro a b h; simpa [geEntry] using h)

theorem kept_iff (raw : List (Option Entry)) (e : Entry) :
    e ∈ keptEntries raw ↔ some e ∈ raw ∧ e.valid = true := by
  unfold keptEntries
  simp only [List.mem_filterMap]
  constructor
  · rintro ⟨o, ho, h⟩
    cases o with
    | none => cases h
    | some x =>
      simp only at h
      split at h
      · cases h; exact ⟨ho, by assumption⟩
      · cases h
  · rintro ⟨h1, h2⟩
    exact ⟨some e, h1, by simp [h2]⟩

end Helm.Props.C18
