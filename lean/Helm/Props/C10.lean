/-
C10  All storage backends behave as the same faithful key-value store.
Property theorems only.
-/
import Helm.Model.Storage
import Helm.Lemmas.Storage
import Helm.Lemmas.StorageMem
import Helm.Lemmas.StorageKey

namespace Helm.Props.C10
open Helm.Storage

/-! ## 1. Secret / ConfigMap drivers refine the key-value map -/

/-- One step: on a store written only by the driver, the object-store driver gives the map's
output and moves to the encoding of the map's next state -- for create, get, update, delete,
list and (system-label) query alike. -/
theorem obj_step (getPanics : Bool) (sp : Spec) (op : Op) (hop : OpOK op) :
    (objStep getPanics (enc sp) op).1 = enc (specStep sp op).1 ∧
    OutRel (objStep getPanics (enc sp) op).2 (specStep sp op).2 :=
  obj_step_refines getPanics sp op hop

/-- Any sequence of calls, of any length: outputs agree step by step and the final states
correspond. -/
theorem obj_run (getPanics : Bool) (ops : List Op) : ∀ (sp : Spec), (∀ op ∈ ops, OpOK op) →
    (run (objStep getPanics) (enc sp) ops).1 = enc (run specStep sp ops).1 ∧
    OutsRel (run (objStep getPanics) (enc sp) ops).2 (run specStep sp ops).2 := by
  induction ops with
  | nil => intro sp _; exact ⟨rfl, trivial⟩
  | cons op ops ih =>
    intro sp hok
    have h1 := obj_step getPanics sp op (hok op List.mem_cons_self)
    have h2 := ih (specStep sp op).1 (fun o ho => hok o (List.mem_cons_of_mem _ ho))
    simp only [run]
    rw [h1.1]
    exact ⟨h2.1, h1.2, h2.2⟩

/-! corollaries, in the words of the property -/

theorem create_existing_fails (b : Bool) (sp : Spec) (k : String) (r r0 : Rel)
    (h : sp.get? k = some r0) : objStep b (enc sp) (.create k r) = (enc sp, .exists) := by
  simp [objStep, enc_get?, h]

theorem get_missing_fails (b : Bool) (sp : Spec) (k : String) (h : sp.get? k = none) :
    objStep b (enc sp) (.get k) = (enc sp, .notFound) := by
  simp [objStep, enc_get?, h]

theorem get_returns_stored (b : Bool) (sp : Spec) (k : String) (r : Rel) (h : sp.get? k = some r) :
    objStep b (enc sp) (.get k) = (enc sp, .rel r) := by
  simp [objStep, enc_get?, h, objOf]

theorem update_missing_fails_and_changes_nothing (b : Bool) (sp : Spec) (k : String) (r : Rel)
    (h : sp.get? k = none) : objStep b (enc sp) (.update k r) = (enc sp, .other) := by
  simp [objStep, enc_get?, h]

theorem delete_missing_fails_and_changes_nothing (b : Bool) (sp : Spec) (k : String)
    (h : sp.get? k = none) : objStep b (enc sp) (.delete k) = (enc sp, .notFound) := by
  simp [objStep, enc_get?, h]

theorem delete_returns_stored (b : Bool) (sp : Spec) (k : String) (r : Rel) (h : sp.get? k = some r) :
    (objStep b (enc sp) (.delete k)).2 = .rel r := by
  simp [objStep, enc_get?, h, objOf]

/-- premises satisfiable -/
example : Spec.get? [("k", ⟨"a", 1, "deployed", [], "p"⟩)] "k" = some ⟨"a", 1, "deployed", [], "p"⟩ := by decide

/-! ## 2. Undecodable records -/

/-- A list skips unreadable records and returns the others; it never fails or crashes. -/
theorem list_skips_unreadable (b : Bool) (s : Objs) (st : Option String) :
    (objStep b s (.list st)).2 =
      .rels (((s.filter fun kv => lookup "owner" kv.2.labels = some "helm").filterMap (·.2.body)).filter
        fun r => match st with | none => true | some x => r.status = x) := rfl

/-- `Get` on an undecodable record is an error on both object drivers (`Secrets.Get` used to
dereference the nil release: repaired in /repo, see known_findings.json). -/
theorem get_undecodable_is_error (k : String) (l : List (String × String)) :
    (objStep false [(k, ⟨l, none⟩)] (.get k)).2 = .other := by
  simp [objStep, Objs.get?]

/-! ## 3. Memory driver: the key is re-parsed -/

/-- Keys of ordinary names are accepted by `Memory.Get/Delete` (tests on literals) ... -/
example : memKeyOk "sh.helm.release.v1.a.b.v12" = true ∧ memKeyName "sh.helm.release.v1.a.b.v12" = "a.b" := by
  decide

/-- ... but a valid release name containing ".v" makes `Get/Delete` answer invalid-key although
the record was created: counterexample to the refinement for the memory driver (known finding
C10:memory-dotv-name). The memory driver's refinement theorem therefore needs the guard
`memKeyOk (makeKey r.name r.version)`. -/
theorem counterexample_memory_dotv :
    memKeyOk "sh.helm.release.v1.my.v1app.v1" = false ∧
    (memStep (memStep [] (.create "sh.helm.release.v1.my.v1app.v1" ⟨"my.v1app", 1, "deployed", [], ""⟩)).1
      (.get "sh.helm.release.v1.my.v1app.v1")).2 = .invalidKey := by
  decide

/-- Under the guard, a record just created is read back (memory driver, fresh name). -/
theorem mem_create_get (m : Mem) (k : String) (r : Rel) (hk : memKeyOk k = true)
    (hn : memKeyName k = r.name) (hfresh : m.recs r.name = none) :
    (memStep (memStep m (.create k r)).1 (.get k)).2 = .rel r := by
  simp only [memStep, hfresh, hk, Bool.not_true, Bool.false_eq_true, if_false, hn]
  have : (Mem.setRecs m r.name [(k, r)]).recs r.name = some [(k, r)] := by
    unfold Mem.setRecs Mem.recs at *
    have hnone : m.find? (fun e => e.1 = r.name) = none := by
      cases h : m.find? (fun e => e.1 = r.name) with
      | none => rfl
      | some x => simp [h] at hfresh
    simp [hnone, List.find?_append]
  simp [this]

/-! ## 3. The memory driver refines the key-value map, for keys that parse

`MemOpOK`: the key of a get/delete has exactly one ".v" after the prefix, followed by an integer,
and the key of a create/update names the release it is given with.  Every key storage.go makes
for a release whose name has no ".v" in it meets this (the names that do not are the known
finding above). -/

/-- One call on any reachable state of the memory driver: same answer as the map (lists up to
order), and the states keep corresponding. -/
theorem memory_step (m : Mem) (sp : Spec) (op : Op) (hinv : MInv m) (hrel : (absMem m).Perm sp)
    (hop : MemOpOK op) :
    MInv (memStep m op).1 ∧ (absMem (memStep m op).1).Perm (specStep sp op).1 ∧
    MOutRel (memStep m op).2 (specStep sp op).2 :=
  mem_step_refines m sp op hinv hrel hop

/-- Any sequence of such calls on an initially empty memory driver, of any length: the answers
are, step by step, those of a simple map from key to release. -/
theorem memory_refines_map (ops : List Op) (hok : ∀ op ∈ ops, MemOpOK op) :
    MOutsRel (run memStep [] ops).2 (run specStep [] ops).2 :=
  (mem_run_refines ops [] [] MInv_empty (List.Perm.refl _) hok).2.2

/-- The guard is met by every call storage.go makes for a release whose name contains no ".v":
`makeKey name version` parses, and names the release (for every name and version, by the
decimal digits of `toString version`). -/
theorem storage_keys_meet_guard (r : Rel) (h : countDotV r.name.toList = 0) :
    MemOpOK (.create (makeKey r.name r.version) r) ∧ MemOpOK (.update (makeKey r.name r.version) r) ∧
    MemOpOK (.get (makeKey r.name r.version)) ∧ MemOpOK (.delete (makeKey r.name r.version)) := by
  obtain ⟨h1, h2⟩ := makeKey_ok r.name r.version h
  exact ⟨⟨h1, h2⟩, ⟨h1, h2⟩, h1, h1⟩

/-- premises satisfiable: a key as storage.go makes it for an ordinary release name -/
example : MemOpOK (.create (makeKey "my-app" 12) ⟨"my-app", 12, "deployed", [], ""⟩) ∧
    MemOpOK (.get (makeKey "my-app" 12)) := by
  simp only [MemOpOK]; decide

end Helm.Props.C10
