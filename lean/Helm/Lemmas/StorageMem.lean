/-
The memory driver refines the key-value map (lemmas for C10), for the calls whose key parses
and names the release it is given with -- the guard the counterexample
`counterexample_memory_dotv` shows to be necessary.  The memory driver keeps its records per
release name, sorted by version; the map keeps them in insertion order: states correspond up to
a permutation, and so do the results of list and query.
-/
import Helm.Model.Storage
namespace Helm.Storage

/-- all records of the memory driver -/
def absMem (m : Mem) : List (String × Rel) := m.flatMap (·.2)

/-- the calls the memory driver is specified for -/
def MemOpOK : Op → Prop
  | .create k r => memKeyOk k = true ∧ memKeyName k = r.name
  | .update k r => memKeyOk k = true ∧ memKeyName k = r.name
  | .get k => memKeyOk k = true
  | .delete k => memKeyOk k = true
  | _ => True

structure MInv (m : Mem) : Prop where
  names : (m.map (·.1)).Nodup
  keyName : ∀ e ∈ m, ∀ kr ∈ e.2, memKeyName kr.1 = e.1
  keys : ∀ e ∈ m, (e.2.map (·.1)).Nodup

/-- outputs agree; lists agree up to order -/
def MOutRel : Out → Out → Prop
  | .rels a, .rels b => a.Perm b
  | x, y => x = y

/-! ### association lists with unique keys -/

theorem get?_of_mem (l : List (String × Rel)) (hn : (l.map (·.1)).Nodup) (k : String) (r : Rel)
    (h : (k, r) ∈ l) : Spec.get? l k = some r := by
  induction l with
  | nil => cases h
  | cons x rest ih =>
    simp only [List.map_cons, List.nodup_cons] at hn
    simp only [Spec.get?, List.find?_cons]
    rcases List.mem_cons.mp h with h | h
    · subst h; simp
    · have hx : x.1 ≠ k := by
        intro hk
        exact hn.1 (List.mem_map.mpr ⟨(k, r), h, hk.symm⟩)
      simp only [hx, decide_false]
      exact ih hn.2 h

theorem get?_none_iff (l : List (String × Rel)) (k : String) :
    Spec.get? l k = none ↔ k ∉ l.map (·.1) := by
  induction l with
  | nil => simp [Spec.get?]
  | cons x rest ih =>
    simp only [Spec.get?, List.find?_cons, List.map_cons, List.mem_cons, not_or]
    by_cases hx : x.1 = k
    · simp [hx]
    · simp only [hx, decide_false]
      constructor
      · intro h; exact ⟨fun hk => hx hk.symm, ih.mp h⟩
      · intro h; exact ih.mpr h.2

theorem get?_some_mem (l : List (String × Rel)) (k : String) (r : Rel) (h : Spec.get? l k = some r) :
    (k, r) ∈ l := by
  induction l with
  | nil => simp [Spec.get?] at h
  | cons x rest ih =>
    simp only [Spec.get?, List.find?_cons] at h
    by_cases hx : x.1 = k
    · simp only [hx, decide_true, Option.map_some, Option.some.injEq] at h
      have : x = (k, r) := by cases x; simp_all
      rw [this]; exact List.mem_cons_self
    · simp only [hx, decide_false] at h
      exact List.mem_cons_of_mem _ (ih h)

/-- lookups agree on permuted lists with unique keys -/
theorem get?_perm (l1 l2 : List (String × Rel)) (hp : l1.Perm l2) (hn : (l1.map (·.1)).Nodup) (k : String) :
    Spec.get? l1 k = Spec.get? l2 k := by
  have hn2 : (l2.map (·.1)).Nodup := (hp.map _).nodup_iff.mp hn
  cases h : Spec.get? l1 k with
  | some r =>
    have := get?_some_mem l1 k r h
    exact (get?_of_mem l2 hn2 k r (hp.mem_iff.mp this)).symm
  | none =>
    have hk := (get?_none_iff l1 k).mp h
    have : k ∉ l2.map (·.1) := fun hm => hk ((hp.map _).mem_iff.mpr hm)
    exact ((get?_none_iff l2 k).mpr this).symm

/-! ### the per-name table -/

theorem recs_some_mem (m : Mem) (n : String) (rs : List (String × Rel)) (h : m.recs n = some rs) :
    (n, rs) ∈ m := by
  induction m with
  | nil => simp [Mem.recs] at h
  | cons x rest ih =>
    simp only [Mem.recs, List.find?_cons] at h
    by_cases hx : x.1 = n
    · simp only [hx, decide_true, Option.map_some, Option.some.injEq] at h
      have : x = (n, rs) := by cases x; simp_all
      rw [this]; exact List.mem_cons_self
    · simp only [hx, decide_false] at h
      exact List.mem_cons_of_mem _ (ih h)

theorem recs_of_mem (m : Mem) (hn : (m.map (·.1)).Nodup) (e : String × List (String × Rel)) (h : e ∈ m) :
    m.recs e.1 = some e.2 := by
  induction m with
  | nil => cases h
  | cons x rest ih =>
    simp only [List.map_cons, List.nodup_cons] at hn
    simp only [Mem.recs, List.find?_cons]
    rcases List.mem_cons.mp h with h | h
    · subst h; simp
    · have hx : x.1 ≠ e.1 := by
        intro hk
        exact hn.1 (List.mem_map.mpr ⟨e, h, hk.symm⟩)
      simp only [hx, decide_false]
      exact ih hn.2 h

theorem recs_none_iff (m : Mem) (n : String) : m.recs n = none ↔ n ∉ m.map (·.1) := by
  induction m with
  | nil => simp [Mem.recs]
  | cons x rest ih =>
    simp only [Mem.recs, List.find?_cons, List.map_cons, List.mem_cons, not_or]
    by_cases hx : x.1 = n
    · simp [hx]
    · simp only [hx, decide_false]
      constructor
      · intro h; exact ⟨fun hk => hx hk.symm, ih.mp h⟩
      · intro h; exact ih.mpr h.2

/-- a table with unique names splits around the entry of a name -/
theorem split_name (m : Mem) (hn : (m.map (·.1)).Nodup) (n : String) (old : List (String × Rel))
    (h : m.recs n = some old) :
    ∃ a b, m = a ++ (n, old) :: b ∧ (∀ e ∈ a, e.1 ≠ n) ∧ (∀ e ∈ b, e.1 ≠ n) := by
  induction m with
  | nil => simp [Mem.recs] at h
  | cons x rest ih =>
    simp only [List.map_cons, List.nodup_cons] at hn
    simp only [Mem.recs, List.find?_cons] at h
    by_cases hx : x.1 = n
    · simp only [hx, decide_true, Option.map_some, Option.some.injEq] at h
      have hxe : x = (n, old) := by cases x; simp_all
      refine ⟨[], rest, by simp [hxe], by simp, ?_⟩
      intro e he hen
      exact hn.1 (List.mem_map.mpr ⟨e, he, by rw [hen, hx]⟩)
    · simp only [hx, decide_false] at h
      obtain ⟨a, b, hab, ha, hb⟩ := ih hn.2 h
      refine ⟨x :: a, b, by simp [hab], ?_, hb⟩
      intro e he
      rcases List.mem_cons.mp he with he | he
      · subst he; exact hx
      · exact ha e he

theorem setRecs_split (a b : Mem) (n : String) (old rs : List (String × Rel))
    (ha : ∀ e ∈ a, e.1 ≠ n) (hb : ∀ e ∈ b, e.1 ≠ n) :
    Mem.setRecs (a ++ (n, old) :: b) n rs = a ++ (n, rs) :: b := by
  have hfind : ((a ++ (n, old) :: b).find? (·.1 = n)).isSome = true := by
    rw [List.find?_isSome]; exact ⟨(n, old), by simp, by simp⟩
  unfold Mem.setRecs
  simp only [hfind, if_true, List.map_append, List.map_cons, if_true]
  congr 1
  · conv => rhs; rw [← List.map_id a]
    apply List.map_congr_left
    intro e he; simp [ha e he]
  · congr 1
    conv => rhs; rw [← List.map_id b]
    apply List.map_congr_left
    intro e he; simp [hb e he]

theorem setRecs_new (m : Mem) (n : String) (rs : List (String × Rel)) (h : m.recs n = none) :
    Mem.setRecs m n rs = m ++ [(n, rs)] := by
  unfold Mem.setRecs
  have : (m.find? (·.1 = n)).isSome = false := by
    unfold Mem.recs at h
    cases hf : m.find? (·.1 = n) with
    | none => rfl
    | some x => simp [hf] at h
  simp [this]

theorem absMem_split (a b : Mem) (n : String) (rs : List (String × Rel)) :
    absMem (a ++ (n, rs) :: b) = absMem a ++ rs ++ absMem b := by
  simp [absMem, List.flatMap_append, List.flatMap_cons]

/-- unique keys over the whole table -/
theorem absMem_keys_nodup (m : Mem) (h : MInv m) : ((absMem m).map (·.1)).Nodup := by
  obtain ⟨hn, hk, hkeys⟩ := h
  induction m with
  | nil => simp [absMem]
  | cons x rest ih =>
    simp only [List.map_cons, List.nodup_cons] at hn
    have ihr := ih hn.2 (fun e he => hk e (List.mem_cons_of_mem _ he)) (fun e he => hkeys e (List.mem_cons_of_mem _ he))
    simp only [absMem, List.flatMap_cons, List.map_append] at ihr ⊢
    refine List.nodup_append.mpr ⟨hkeys x List.mem_cons_self, ihr, ?_⟩
    intro k1 h1 k2 h2 heq
    subst heq
    obtain ⟨kr1, hkr1, hk1⟩ := List.mem_map.mp h1
    obtain ⟨kr2, hkr2, hk2⟩ := List.mem_map.mp h2
    obtain ⟨e, he, hkre⟩ := List.mem_flatMap.mp hkr2
    have n1 := hk x List.mem_cons_self kr1 hkr1
    have n2 := hk e (List.mem_cons_of_mem _ he) kr2 hkre
    rw [hk1] at n1; rw [hk2] at n2
    exact hn.1 (List.mem_map.mpr ⟨e, he, by rw [← n2, n1]⟩)

theorem insertSorted_perm (e : String × Rel) (l : List (String × Rel)) : (insertSorted e l).Perm (e :: l) := by
  induction l with
  | nil => exact List.Perm.refl _
  | cons x r ih =>
    simp only [insertSorted]
    split
    · exact List.Perm.refl _
    · exact (List.Perm.cons x ih).trans (List.Perm.swap e x r)

end Helm.Storage

namespace Helm.Storage

/-! ### the lookup of the memory driver is the lookup of the flattened table -/

theorem memLookup (m : Mem) (h : MInv m) (k : String) :
    Spec.get? (absMem m) k = (match m.recs (memKeyName k) with
      | some rs => Spec.get? rs k
      | none => none) := by
  have hnd := absMem_keys_nodup m h
  cases hr : m.recs (memKeyName k) with
  | none =>
    simp only
    apply (get?_none_iff _ _).mpr
    intro hk
    obtain ⟨kr, hkr, hk1⟩ := List.mem_map.mp hk
    obtain ⟨e, he, hkre⟩ := List.mem_flatMap.mp hkr
    have := h.keyName e he kr hkre
    rw [hk1] at this
    exact (recs_none_iff m _).mp hr (List.mem_map.mpr ⟨e, he, this.symm⟩)
  | some rs =>
    simp only
    have hmem := recs_some_mem m _ rs hr
    cases hg : Spec.get? rs k with
    | some r =>
      have h1 := get?_some_mem rs k r hg
      exact get?_of_mem _ hnd k r (List.mem_flatMap.mpr ⟨_, hmem, h1⟩)
    | none =>
      apply (get?_none_iff _ _).mpr
      intro hk
      obtain ⟨kr, hkr, hk1⟩ := List.mem_map.mp hk
      obtain ⟨e, he, hkre⟩ := List.mem_flatMap.mp hkr
      have hn := h.keyName e he kr hkre
      rw [hk1] at hn
      have he2 := recs_of_mem m h.names e he
      rw [← hn, hr] at he2
      have : kr ∈ rs := by
        have : rs = e.2 := by simpa using he2
        rw [this]; exact hkre
      exact (get?_none_iff rs k).mp hg (List.mem_map.mpr ⟨kr, this, hk1⟩)

theorem any_key (rs : List (String × Rel)) (k : String) :
    rs.any (fun e => decide (e.1 = k)) = (Spec.get? rs k).isSome := by
  induction rs with
  | nil => rfl
  | cons x r ih =>
    simp only [List.any_cons, Spec.get?, List.find?_cons]
    by_cases hx : x.1 = k
    · simp [hx]
    · simp only [hx, decide_false, Bool.false_or]
      exact ih

/-- entries of other names hold no record under key `k` -/
theorem other_names_no_key (a : Mem) (n k : String) (hk : ∀ e ∈ a, ∀ kr ∈ e.2, memKeyName kr.1 = e.1)
    (ha : ∀ e ∈ a, e.1 ≠ n) (hkn : memKeyName k = n) : ∀ x ∈ absMem a, x.1 ≠ k := by
  intro x hx hxk
  obtain ⟨e, he, hxe⟩ := List.mem_flatMap.mp hx
  have := hk e he x hxe
  rw [hxk, hkn] at this
  exact ha e he this.symm

theorem map_id_of_ne (l : List (String × Rel)) (k : String) (r : Rel) (h : ∀ x ∈ l, x.1 ≠ k) :
    l.map (fun kv => if kv.1 = k then (k, r) else kv) = l := by
  conv => rhs; rw [← List.map_id l]
  apply List.map_congr_left
  intro x hx; simp [h x hx]

theorem filter_id_of_ne (l : List (String × Rel)) (k : String) (h : ∀ x ∈ l, x.1 ≠ k) :
    l.filter (fun kv => decide (kv.1 ≠ k)) = l := by
  apply List.filter_eq_self.mpr
  intro x hx; simp [h x hx]

/-- the invariant of a table one of whose entries got new records -/
theorem MInv_replace (a b : Mem) (n : String) (old rs : List (String × Rel))
    (h : MInv (a ++ (n, old) :: b))
    (hkn : ∀ kr ∈ rs, memKeyName kr.1 = n) (hnd : (rs.map (·.1)).Nodup) :
    MInv (a ++ (n, rs) :: b) := by
  refine ⟨?_, ?_, ?_⟩
  · have := h.names; simpa using this
  · intro e he kr hkr
    rcases List.mem_append.mp he with he | he
    · exact h.keyName e (List.mem_append_left _ he) kr hkr
    · rcases List.mem_cons.mp he with he | he
      · subst he; exact hkn kr hkr
      · exact h.keyName e (List.mem_append_right _ (List.mem_cons_of_mem _ he)) kr hkr
  · intro e he
    rcases List.mem_append.mp he with he | he
    · exact h.keys e (List.mem_append_left _ he)
    · rcases List.mem_cons.mp he with he | he
      · subst he; exact hnd
      · exact h.keys e (List.mem_append_right _ (List.mem_cons_of_mem _ he))

theorem flat_values (m : Mem) : (m.flatMap fun e => e.2.map (·.2)) = (absMem m).map (·.2) := by
  simp [absMem, List.map_flatMap]

/-- One call: the memory driver answers as the map does (lists up to order), keeps its
invariant and stays a permutation of the map. -/
theorem mem_step_refines (m : Mem) (sp : Spec) (op : Op) (hinv : MInv m) (hrel : (absMem m).Perm sp)
    (hop : MemOpOK op) :
    MInv (memStep m op).1 ∧ (absMem (memStep m op).1).Perm (specStep sp op).1 ∧
    MOutRel (memStep m op).2 (specStep sp op).2 := by
  have hnd := absMem_keys_nodup m hinv
  have hnone : ∀ k, m.recs (memKeyName k) = none → sp.get? k = none := by
    intro k hr
    have := memLookup m hinv k
    rw [hr] at this
    rw [← get?_perm _ _ hrel hnd k]; exact this
  have hsome : ∀ k rs, m.recs (memKeyName k) = some rs → sp.get? k = Spec.get? rs k := by
    intro k rs hr
    have := memLookup m hinv k
    rw [hr] at this
    rw [← get?_perm _ _ hrel hnd k]; exact this
  cases op with
  | create k r =>
    obtain ⟨_, hkn⟩ := hop
    simp only [memStep, specStep]
    cases hr : m.recs r.name with
    | none =>
      have hl := hnone k (by rw [hkn]; exact hr)
      simp only [hl, Option.isSome_none, Bool.false_eq_true, if_false]
      rw [setRecs_new m r.name _ hr]
      refine ⟨⟨?_, ?_, ?_⟩, ?_, rfl⟩
      · have := hinv.names
        simp only [List.map_append, List.map_cons, List.map_nil]
        refine List.nodup_append.mpr ⟨this, by simp, ?_⟩
        intro a ha b hb
        simp only [List.mem_singleton] at hb
        subst hb
        intro hab; subst hab
        exact (recs_none_iff m _).mp hr ha
      · intro e he kr hkr
        rcases List.mem_append.mp he with he | he
        · exact hinv.keyName e he kr hkr
        · simp only [List.mem_singleton] at he; subst he
          simp only [List.mem_singleton] at hkr; subst hkr
          exact hkn
      · intro e he
        rcases List.mem_append.mp he with he | he
        · exact hinv.keys e he
        · simp only [List.mem_singleton] at he; subst he; simp
      · simp only [absMem, List.flatMap_append, List.flatMap_cons, List.flatMap_nil, List.append_nil]
        exact List.Perm.append_right _ hrel
    | some rs =>
      have hl := hsome k rs (by rw [hkn]; exact hr)
      simp only [any_key, ← hl]
      cases hg : sp.get? k with
      | some x => simp only [Option.isSome_some, if_true]; exact ⟨hinv, hrel, rfl⟩
      | none =>
        simp only [Option.isSome_none, Bool.false_eq_true, if_false]
        obtain ⟨a, b, hab, ha, hb⟩ := split_name m hinv.names r.name rs hr
        subst hab
        rw [setRecs_split a b r.name rs _ ha hb]
        have hkrs : k ∉ rs.map (·.1) := (get?_none_iff rs k).mp (by rw [← hl, hg])
        refine ⟨MInv_replace a b r.name rs _ hinv ?_ ?_, ?_, rfl⟩
        · intro kr hkr
          rcases List.mem_cons.mp ((insertSorted_perm (k, r) rs).mem_iff.mp hkr) with h | h
          · subst h; exact hkn
          · exact hinv.keyName (r.name, rs) (by simp) kr h
        · have := ((insertSorted_perm (k, r) rs).map (·.1)).nodup_iff.mpr
          apply this
          simp only [List.map_cons, List.nodup_cons]
          exact ⟨hkrs, hinv.keys (r.name, rs) (by simp)⟩
        · rw [absMem_split] at hrel ⊢
          have h1 : (absMem a ++ insertSorted (k, r) rs ++ absMem b).Perm ((k, r) :: (absMem a ++ rs ++ absMem b)) := by
            have := insertSorted_perm (k, r) rs
            have h2 : (absMem a ++ insertSorted (k, r) rs ++ absMem b).Perm (absMem a ++ (k, r) :: rs ++ absMem b) :=
              List.Perm.append_right _ (List.Perm.append_left _ this)
            refine h2.trans ?_
            simp only [List.append_assoc, List.cons_append]
            exact List.perm_middle
          refine h1.trans ?_
          exact (List.Perm.cons _ hrel).trans (List.perm_append_singleton _ _).symm
  | get k =>
    have hok : memKeyOk k = true := hop
    simp only [memStep, specStep, hok, Bool.not_true, Bool.false_eq_true, if_false]
    cases hr : m.recs (memKeyName k) with
    | none =>
      have hl := hnone k hr
      simp only [Option.bind_none, hl]
      exact ⟨hinv, hrel, rfl⟩
    | some rs =>
      have hl := hsome k rs hr
      rw [hl]
      simp only [Option.bind_some, Spec.get?]
      cases hf : rs.find? (fun x => decide (x.1 = k)) with
      | none => simp only [Option.map_none]; exact ⟨hinv, hrel, rfl⟩
      | some e => simp only [Option.map_some]; exact ⟨hinv, hrel, rfl⟩
  | update k r =>
    obtain ⟨_, hkn⟩ := hop
    simp only [memStep, specStep]
    cases hr : m.recs r.name with
    | none =>
      have hl := hnone k (by rw [hkn]; exact hr)
      simp only [hl, Option.isSome_none, Bool.false_eq_true, if_false]
      exact ⟨hinv, hrel, rfl⟩
    | some rs =>
      have hl := hsome k rs (by rw [hkn]; exact hr)
      simp only [any_key, ← hl]
      cases hg : sp.get? k with
      | none => simp only [Option.isSome_none, Bool.false_eq_true, if_false]; exact ⟨hinv, hrel, rfl⟩
      | some x =>
        simp only [Option.isSome_some, if_true]
        obtain ⟨a, b, hab, ha, hb⟩ := split_name m hinv.names r.name rs hr
        subst hab
        rw [setRecs_split a b r.name rs _ ha hb]
        refine ⟨MInv_replace a b r.name rs _ hinv ?_ ?_, ?_, rfl⟩
        · intro kr hkr
          obtain ⟨e, he, hee⟩ := List.mem_map.mp hkr
          by_cases hek : e.1 = k
          · simp only [hek, if_true] at hee; subst hee; exact hkn
          · simp only [hek, if_false] at hee; subst hee
            exact hinv.keyName (r.name, rs) (by simp) e he
        · have : (rs.map fun e => if e.1 = k then (k, r) else e).map (·.1) = rs.map (·.1) := by
            rw [List.map_map]; apply List.map_congr_left
            intro e _; simp only [Function.comp]; split
            · rename_i h; exact h.symm
            · rfl
          rw [this]; exact hinv.keys (r.name, rs) (by simp)
        · rw [absMem_split] at hrel ⊢
          have hA := other_names_no_key a r.name k (fun e he => hinv.keyName e (List.mem_append_left _ he)) ha hkn
          have hB := other_names_no_key b r.name k
            (fun e he => hinv.keyName e (List.mem_append_right _ (List.mem_cons_of_mem _ he))) hb hkn
          have := hrel.map (fun kv : String × Rel => if kv.1 = k then (k, r) else kv)
          simp only [List.map_append, map_id_of_ne _ k r hA, map_id_of_ne _ k r hB] at this
          exact this
  | delete k =>
    have hok : memKeyOk k = true := hop
    simp only [memStep, specStep, hok, Bool.not_true, Bool.false_eq_true, if_false]
    cases hr : m.recs (memKeyName k) with
    | none =>
      have hl := hnone k hr
      simp only [hl]
      exact ⟨hinv, hrel, rfl⟩
    | some rs =>
      have hl := hsome k rs hr
      rw [hl]
      simp only [Spec.get?]
      cases hf : rs.find? (fun x => decide (x.1 = k)) with
      | none =>
        simp only [Option.map_none]
        exact ⟨hinv, hrel, rfl⟩
      | some e =>
        simp only [Option.map_some]
        obtain ⟨a, b, hab, ha, hb⟩ := split_name m hinv.names _ rs hr
        subst hab
        rw [setRecs_split a b _ rs _ ha hb]
        refine ⟨MInv_replace a b _ rs _ hinv ?_ ?_, ?_, rfl⟩
        · intro kr hkr
          exact hinv.keyName (memKeyName k, rs) (by simp) kr (List.mem_filter.mp hkr).1
        · exact List.Nodup.sublist (List.Sublist.map _ List.filter_sublist) (hinv.keys (memKeyName k, rs) (by simp))
        · rw [absMem_split] at hrel ⊢
          have hA := other_names_no_key a _ k (fun e he => hinv.keyName e (List.mem_append_left _ he)) ha rfl
          have hB := other_names_no_key b _ k
            (fun e he => hinv.keyName e (List.mem_append_right _ (List.mem_cons_of_mem _ he))) hb rfl
          have := hrel.filter (fun kv : String × Rel => decide (kv.1 ≠ k))
          simp only [List.filter_append, filter_id_of_ne _ k hA, filter_id_of_ne _ k hB] at this
          exact this
  | list st =>
    simp only [memStep, specStep, flat_values]
    exact ⟨hinv, hrel, (hrel.map _).filter _⟩
  | query q =>
    simp only [memStep, specStep, flat_values]
    refine ⟨hinv, hrel, ?_⟩
    have hp := (hrel.map (fun kv : String × Rel => kv.2)).filter (fun r => matchLabels (sysLabels r) q)
    have hlen := hp.length_eq
    by_cases he : (((absMem m).map (·.2)).filter fun r => matchLabels (sysLabels r) q).isEmpty = true
    · have he2 : ((sp.map (·.2)).filter fun r => matchLabels (sysLabels r) q).isEmpty = true := by
        rw [List.isEmpty_iff] at he ⊢
        rw [he] at hlen
        exact List.eq_nil_of_length_eq_zero hlen.symm
      simp only [he, he2, if_true]; rfl
    · have he2 : ¬ ((sp.map (·.2)).filter fun r => matchLabels (sysLabels r) q).isEmpty = true := by
        intro h2
        rw [List.isEmpty_iff] at h2
        rw [h2] at hlen
        exact he (by rw [List.isEmpty_iff]; exact List.eq_nil_of_length_eq_zero hlen)
      simp only [he, he2, Bool.false_eq_true, if_false]
      exact hp

end Helm.Storage

namespace Helm.Storage

/-- output sequences agree position by position (lists up to order) -/
def MOutsRel : List Out → List Out → Prop
  | [], [] => True
  | a :: as, b :: bs => MOutRel a b ∧ MOutsRel as bs
  | _, _ => False

theorem MInv_empty : MInv [] := ⟨by simp, by simp, by simp⟩

theorem mem_run_refines (ops : List Op) : ∀ (m : Mem) (sp : Spec), MInv m → (absMem m).Perm sp →
    (∀ op ∈ ops, MemOpOK op) →
    MInv (run memStep m ops).1 ∧ (absMem (run memStep m ops).1).Perm (run specStep sp ops).1 ∧
    MOutsRel (run memStep m ops).2 (run specStep sp ops).2 := by
  induction ops with
  | nil => intro m sp hi hr _; exact ⟨hi, hr, trivial⟩
  | cons op ops ih =>
    intro m sp hi hr hok
    obtain ⟨h1, h2, h3⟩ := mem_step_refines m sp op hi hr (hok op List.mem_cons_self)
    obtain ⟨i1, i2, i3⟩ := ih _ _ h1 h2 (fun o ho => hok o (List.mem_cons_of_mem _ ho))
    simp only [run]
    exact ⟨i1, i2, h3, i3⟩

end Helm.Storage
