import Helm.Model.KindOrder
/-! Helper lemmas: `lessByKind` is a strict weak order, hence `leByKind` is a total preorder. -/
namespace Helm.KindOrder

theorem rank_inj {o : List String} {a b : String} {i : Nat}
    (ha : rank o a = some i) (hb : rank o b = some i) : a = b := by
  induction o generalizing i with
  | nil => simp [rank] at ha
  | cons x xs ih =>
    simp only [rank] at ha hb
    split at ha <;> split at hb
    · rename_i h1 h2; exact h1.symm.trans h2
    · rename_i h1 h2
      cases hr : rank xs b <;> simp [hr] at hb
      simp at ha; omega
    · rename_i h1 h2
      cases hr : rank xs a <;> simp [hr] at ha
      simp at hb; omega
    · cases hra : rank xs a <;> simp [hra] at ha
      cases hrb : rank xs b <;> simp [hrb] at hb
      rename_i j k
      have : k = j := by omega
      subst this
      exact ih hra hrb

theorem leByKind_total (o : List String) (a b : String) :
    (leByKind o a b || leByKind o b a) = true := by
  unfold leByKind lessByKind
  cases ha : rank o a <;> cases hb : rank o b <;> simp
  · exact String.le_total a b
  · omega

theorem leByKind_trans (o : List String) (a b c : String) :
    leByKind o a b = true → leByKind o b c = true → leByKind o a c = true := by
  unfold leByKind lessByKind
  cases ha : rank o a <;> cases hb : rank o b <;> cases hc : rank o c <;> simp
  · intro h1 h2
    exact String.le_trans h1 h2
  · omega

/-- Same kind ⇒ equivalent, so a stable sort keeps the original relative order. -/
theorem leByKind_refl (o : List String) (a : String) : leByKind o a a = true := by
  unfold leByKind lessByKind
  cases ha : rank o a <;> simp

/-- Two kinds are equivalent for the order only when they are the same kind:
the order is a strict *total* order on kinds (no two different kinds tie). -/
theorem leByKind_antisymm (o : List String) (a b : String) :
    leByKind o a b = true → leByKind o b a = true → a = b := by
  unfold leByKind lessByKind
  cases ha : rank o a <;> cases hb : rank o b <;> simp
  · intro h1 h2
    exact String.le_antisymm h1 h2
  · intro h1 h2
    rename_i i j
    have hij : i = j := by omega
    subst hij
    exact rank_inj ha hb

end Helm.KindOrder
