import Helm.Model.Storage
namespace Helm.Storage

def objOf (r : Rel) : Obj := ⟨objLabels r, some r⟩

/-- the object store holding exactly the spec map's content, as the driver writes it -/
def enc (sp : Spec) : Objs := sp.map fun kv => (kv.1, objOf kv.2)

def sysKeys : List String := ["name", "owner", "status", "version"]

/-- queries the action layer issues: over system labels only -/
def OpOK : Op → Prop
  | .query q => ∀ kv ∈ q, kv.1 ∈ sysKeys
  | _ => True

/-- agreement of outputs; the only tolerated difference: updating a missing key fails with
another error class on the object stores (the API's Update error is passed through). -/
def OutRel (o spec : Out) : Prop := o = spec ∨ (o = .other ∧ spec = .notFound)

/-- output sequences agree position by position -/
def OutsRel : List Out → List Out → Prop
  | [], [] => True
  | a :: as, b :: bs => OutRel a b ∧ OutsRel as bs
  | _, _ => False

theorem enc_get? (sp : Spec) (k : String) : (enc sp).get? k = (sp.get? k).map objOf := by
  induction sp with
  | nil => rfl
  | cons kv rest ih =>
    simp only [enc, List.map_cons, Objs.get?, Spec.get?, List.find?_cons] at ih ⊢
    by_cases hk : kv.1 = k
    · simp [hk]
    · simp only [hk, decide_false]
      exact ih

theorem lookup_append_some (k : String) (a b : List (String × String)) (v : String)
    (h : lookup k a = some v) : lookup k (a ++ b) = some v := by
  induction a with
  | nil => simp [lookup] at h
  | cons x r ih =>
    obtain ⟨k', v'⟩ := x
    simp only [lookup, List.cons_append] at h ⊢
    split
    · rename_i he; simpa [he] using h
    · rename_i hne; simp only [hne, if_false] at h; exact ih h

theorem lookup_sys (r : Rel) (k : String) (hk : k ∈ sysKeys) :
    ∃ v, lookup k (sysLabels r) = some v ∧ lookup k (objLabels r) = some v := by
  simp only [sysKeys, List.mem_cons, List.not_mem_nil, or_false] at hk
  have : ∃ v, lookup k (sysLabels r) = some v := by
    rcases hk with rfl | rfl | rfl | rfl <;> simp [sysLabels, lookup]
  obtain ⟨v, hv⟩ := this
  exact ⟨v, hv, lookup_append_some k _ _ v hv⟩

theorem owner_helm (r : Rel) : lookup "owner" (objOf r).labels = some "helm" := by
  simp [objOf, objLabels, sysLabels, lookup]

theorem query_match (r : Rel) (q : List (String × String)) (hq : ∀ kv ∈ q, kv.1 ∈ sysKeys) :
    (q.all fun (k, v) => lookup k (objOf r).labels = some v) = matchLabels (sysLabels r) q := by
  unfold matchLabels
  induction q with
  | nil => rfl
  | cons kv rest ih =>
    obtain ⟨k, v⟩ := kv
    simp only [List.all_cons]
    rw [ih (fun x hx => hq x (List.mem_cons_of_mem _ hx))]
    obtain ⟨w, h1, h2⟩ := lookup_sys r k (hq (k, v) List.mem_cons_self)
    simp only [objOf, h1, h2, Option.getD_some, Option.some.injEq]

theorem enc_filterMap_body (sp : Spec) : (enc sp).filterMap (·.2.body) = sp.map (·.2) := by
  induction sp with
  | nil => rfl
  | cons kv rest ih => simp only [enc, List.map_cons, List.filterMap_cons, objOf] at ih ⊢; simp [ih]

/-- On stores written only by the driver, the Secret/ConfigMap driver model *is* the key-value
map: same next state (under `enc`) and same output, for every operation. -/
theorem obj_step_refines (b : Bool) (sp : Spec) (op : Op) (hop : OpOK op) :
    (objStep b (enc sp) op).1 = enc (specStep sp op).1 ∧
    OutRel (objStep b (enc sp) op).2 (specStep sp op).2 := by
  cases op with
  | create k r =>
    simp only [objStep, specStep, enc_get?]
    cases h : sp.get? k with
    | some x => simp [OutRel]
    | none => simp [OutRel, enc, objOf]
  | get k =>
    simp only [objStep, specStep, enc_get?]
    cases h : sp.get? k with
    | some x => simp [OutRel, objOf]
    | none => simp [OutRel]
  | update k r =>
    simp only [objStep, specStep, enc_get?]
    cases h : sp.get? k with
    | some x =>
      simp only [Option.map_some, Option.isSome_some, if_true, OutRel, true_or, and_true]
      simp only [enc, List.map_map]
      apply List.map_congr_left
      intro kv _
      by_cases hk : kv.1 = k <;> simp [hk, objOf]
    | none => simp [OutRel]
  | delete k =>
    simp only [objStep, specStep, enc_get?]
    cases h : sp.get? k with
    | some x =>
      simp only [Option.map_some, objOf, OutRel, true_or, and_true]
      simp only [enc, List.filter_map]
      congr 1
    | none => simp [OutRel]
  | list st =>
    simp only [objStep, specStep, OutRel, true_and]
    left
    have hall : (enc sp).filter (fun kv => lookup "owner" kv.2.labels = some "helm") = enc sp := by
      apply List.filter_eq_self.mpr
      intro kv hkv
      simp only [enc, List.mem_map] at hkv
      obtain ⟨x, _, rfl⟩ := hkv
      simp [owner_helm]
    rw [hall, enc_filterMap_body]
  | query q =>
    simp only [OpOK] at hop
    simp only [objStep, specStep]
    have hfilter : (enc sp).filter (fun kv => q.all fun (k, v) => lookup k kv.2.labels = some v) =
        enc (sp.filter fun kv => matchLabels (sysLabels kv.2) q) := by
      simp only [enc, List.filter_map]
      congr 1
      apply List.filter_congr
      intro kv _
      simp only [Function.comp]
      exact query_match kv.2 q hop
    rw [hfilter]
    have hmap : (sp.map (·.2)).filter (fun r => matchLabels (sysLabels r) q) =
        (sp.filter fun kv => matchLabels (sysLabels kv.2) q).map (·.2) := by
      rw [List.filter_map]; rfl
    rw [hmap]
    cases hf : sp.filter (fun kv => matchLabels (sysLabels kv.2) q) with
    | nil => simp [enc, OutRel]
    | cons x xs =>
      simp only [enc, List.map_cons, List.isEmpty_cons, Bool.false_eq_true, if_false, OutRel]
      refine ⟨trivial, Or.inl ?_⟩
      have := enc_filterMap_body (x :: xs)
      simp only [enc, List.map_cons] at this
      rw [this]

end Helm.Storage
