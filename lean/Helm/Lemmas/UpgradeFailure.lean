/-
An upgrade one of whose cluster-side phases fails, on any history with unique revisions
(lemmas for C03).  Without --atomic: it returns an error, the revision it created is recorded as
failed and every other record -- in particular the deployed one -- is as it was.  With --atomic
(and a fault-free automatic rollback): it returns an error, and a further revision, carrying the
content of the most recent superseded-or-deployed revision, is the only deployed one.
-/
import Helm.Lemmas.RollbackSuccess
namespace Helm.Ledger

/-- the phase that fails -/
inductive FailAt where
  | preHook | resources | wait | postHook
  deriving Repr, DecidableEq

def FailAt.faults : FailAt → Faults
  | .preHook => { preHook := .fail }
  | .resources => { resources := .fail }
  | .wait => { wait := .fail }
  | .postHook => { postHook := .fail }

/-- hook phases only fail when there is a hook -/
def FailAt.needsHook : FailAt → Bool
  | .preHook | .postHook => true
  | _ => false

/-- the original release is re-recorded when the failure comes after the update started -/
def FailAt.rerecord : FailAt → Bool
  | .resources | .wait => true
  | _ => false

theorem FailAt.cleanup_ok (a : FailAt) : a.faults.cleanup = .ok := by cases a <;> rfl

/-- Every failing phase leads to `failUpgradeOn`, from a state whose ledger is the history plus
the pending record. -/
theorem upgrade_reaches_fail (at_ : FailAt) (fl : UpgradeFlags) (fN : Faults) (p : Nat) (l : Ledger) (lastRec cur : Rec)
    (hdry : fl.dryRun = false) (hmax : fl.maxHistory = 0)
    (hhook : at_.needsHook = true → fl.disableHooks = false ∧ 0 < fl.nHooks)
    (hlast : last? l = some lastRec) (hnp : lastRec.status.isPending = false)
    (hcur : currentOf l = some cur) :
    ∃ s : St, s.ledger = l ++ [⟨lastRec.rev + 1, .pendingUpgrade, p⟩] ∧ s.decs = [] ∧
      upgrade fl at_.faults fN p l =
        failUpgradeOn fl at_.faults fN cur ⟨lastRec.rev + 1, .pendingUpgrade, p⟩ at_.rerecord s := by
  obtain ⟨hlm, hlr⟩ := last?_spec hlast
  let n := lastRec.rev + 1
  let relP : Rec := ⟨n, .pendingUpgrade, p⟩
  let nh := if fl.disableHooks then 0 else fl.nHooks
  let s0 : St := { ledger := l, decs := [] }
  have hfresh : get? l n = none := get?_none_of_lt l n (fun x hx => by have := rev_le_maxRev l x hx; omega)
  let s1 : St := (stCreate s0 relP).2
  have hfresh' : get? l relP.rev = none := hfresh
  have hs1 : stCreate s0 relP = (.ok, s1) := by simp [s1, stCreate, nextDec, s0, hfresh']
  have hs1l : s1.ledger = l ++ [relP] := by simp [s1, stCreate, nextDec, s0, hfresh']
  have hs1d : s1.decs = [] := by simp [s1, stCreate, nextDec, s0, hfresh']
  have huniq : ∀ (s : St), s.ledger = l ++ [relP] → ∀ x ∈ s.ledger, x.rev = relP.rev → x = relP := by
    intro s hs x hx hr
    rw [hs] at hx
    rcases List.mem_append.mp hx with h | h
    · have := rev_le_maxRev l x h; simp [relP, n] at hr; omega
    · simpa using h
  have hs1' : stCreate { ledger := l, decs := [] } ⟨lastRec.rev + 1, .pendingUpgrade, p⟩ = (.ok, s1) := hs1
  cases at_ with
  | preHook =>
    obtain ⟨hdh, hn⟩ := hhook rfl
    have hnh : (if fl.disableHooks then 0 else fl.nHooks) = fl.nHooks := by simp [hdh]
    have hn0 : ¬ fl.nHooks = 0 := by omega
    have hpre := hookPhase_same relP fl.nHooks .fail s1 hs1d (by simp [hs1l]) (huniq s1 hs1l)
    let s2 : St := (hookPhase s1 relP fl.nHooks .fail).2
    have hs2 : hookPhase s1 relP fl.nHooks .fail = (.fail, s2) := by
      apply Prod.ext
      · simp only [hpre.1, hn0, if_false]
      · rfl
    have hs2' : hookPhase s1 ⟨lastRec.rev + 1, .pendingUpgrade, p⟩ fl.nHooks .fail = (.fail, s2) := hs2
    refine ⟨s2, by rw [← hs1l]; exact hpre.2.1, hpre.2.2, ?_⟩
    unfold upgrade
    simp only [FailAt.faults, FailAt.rerecord, hlast, hnp, hcur, hdry, Bool.false_eq_true, if_false, storageCreate, hmax,
      Nat.lt_irrefl, hs1', hnh, hs2']
  | resources =>
    have hpre := hookPhase_same relP nh .ok s1 hs1d (by simp [hs1l]) (huniq s1 hs1l)
    let s2 : St := (hookPhase s1 relP nh .ok).2
    have hs2 : hookPhase s1 relP nh .ok = (.ok, s2) := by
      apply Prod.ext
      · simp only [hpre.1]; split <;> rfl
      · rfl
    have hs2' : hookPhase s1 ⟨lastRec.rev + 1, .pendingUpgrade, p⟩ (if fl.disableHooks then 0 else fl.nHooks) .ok = (.ok, s2) := hs2
    refine ⟨s2, by rw [← hs1l]; exact hpre.2.1, hpre.2.2, ?_⟩
    unfold upgrade
    simp only [FailAt.faults, FailAt.rerecord, hlast, hnp, hcur, hdry, Bool.false_eq_true, if_false, storageCreate, hmax,
      Nat.lt_irrefl, hs1', hs2']
  | wait =>
    have hpre := hookPhase_same relP nh .ok s1 hs1d (by simp [hs1l]) (huniq s1 hs1l)
    let s2 : St := (hookPhase s1 relP nh .ok).2
    have hs2 : hookPhase s1 relP nh .ok = (.ok, s2) := by
      apply Prod.ext
      · simp only [hpre.1]; split <;> rfl
      · rfl
    have hs2' : hookPhase s1 ⟨lastRec.rev + 1, .pendingUpgrade, p⟩ (if fl.disableHooks then 0 else fl.nHooks) .ok = (.ok, s2) := hs2
    refine ⟨s2, by rw [← hs1l]; exact hpre.2.1, hpre.2.2, ?_⟩
    unfold upgrade
    simp only [FailAt.faults, FailAt.rerecord, hlast, hnp, hcur, hdry, Bool.false_eq_true, if_false, storageCreate, hmax,
      Nat.lt_irrefl, hs1', hs2']
  | postHook =>
    obtain ⟨hdh, hn⟩ := hhook rfl
    have hnh : (if fl.disableHooks then 0 else fl.nHooks) = fl.nHooks := by simp [hdh]
    have hn0 : ¬ fl.nHooks = 0 := by omega
    have hpre := hookPhase_same relP fl.nHooks .ok s1 hs1d (by simp [hs1l]) (huniq s1 hs1l)
    let s2 : St := (hookPhase s1 relP fl.nHooks .ok).2
    have hs2 : hookPhase s1 relP fl.nHooks .ok = (.ok, s2) := by
      apply Prod.ext
      · simp only [hpre.1]; split <;> rfl
      · rfl
    have hs2l : s2.ledger = l ++ [relP] := by rw [← hs1l]; exact hpre.2.1
    have hpost := hookPhase_same relP fl.nHooks .fail s2 hpre.2.2 (by simp [hs2l]) (huniq s2 hs2l)
    let s3 : St := (hookPhase s2 relP fl.nHooks .fail).2
    have hs3 : hookPhase s2 relP fl.nHooks .fail = (.fail, s3) := by
      apply Prod.ext
      · simp only [hpost.1, hn0, if_false]
      · rfl
    have hs2' : hookPhase s1 ⟨lastRec.rev + 1, .pendingUpgrade, p⟩ fl.nHooks .ok = (.ok, s2) := hs2
    have hs3' : hookPhase s2 ⟨lastRec.rev + 1, .pendingUpgrade, p⟩ fl.nHooks .fail = (.fail, s3) := hs3
    refine ⟨s3, by rw [← hs2l]; exact hpost.2.1, hpost.2.2, ?_⟩
    unfold upgrade
    simp only [FailAt.faults, FailAt.rerecord, hlast, hnp, hcur, hdry, Bool.false_eq_true, if_false, storageCreate, hmax,
      Nat.lt_irrefl, hs1', hnh, hs2', hs3']

/-- the first two writes of `failUpgradeOn` on a healthy storage: the ledger becomes the history
plus the failed record -/
theorem failUpgrade_marks (l : Ledger) (cur relP : Rec) (hnd : (revs l).Nodup) (hcm : cur ∈ l)
    (hnew : ∀ x ∈ l, x.rev < relP.rev) (rerecord : Bool) (s : St) (hsl : s.ledger = l ++ [relP]) (hsd : s.decs = []) :
    ∃ s3 : St, s3.ledger = l ++ [{ relP with status := .failed }] ∧ s3.decs = [] ∧
      ∀ (fl : UpgradeFlags) (f fN : Faults), failUpgradeOn fl f fN cur relP rerecord s =
        (if fl.cleanupOnFail && f.cleanup != .ok && rerecord then
          (s3, if f.cleanup = .crash then Outcome.crashed else .error)
        else if fl.atomic then
          let cands := s3.ledger.filter fun r => r.status = .superseded || r.status = .deployed
          if cands.isEmpty then (s3, .error)
          else
            let (s4, o) := rollbackOn { version := maxRev cands, disableHooks := fl.disableHooks, nHooks := fl.nHooks, maxHistory := 0 } fN s3
            (s4, if o = .crashed then .crashed else .error)
        else (s3, .error)) := by
  have hcuniq : ∀ (s : St), s.ledger = l ++ [relP] → ∀ x ∈ s.ledger, x.rev = cur.rev → x = cur := by
    intro s hs x hx hr
    rw [hs] at hx
    rcases List.mem_append.mp hx with h | h
    · exact eq_of_rev hnd h hcm hr
    · simp only [List.mem_singleton] at h; subst h
      have := hnew cur hcm; omega
  -- after the optional re-record
  have hre : ∃ s2 : St, s2.ledger = l ++ [relP] ∧ s2.decs = [] ∧
      (if rerecord then stUpdate s cur else (Dec.ok, s)) = (.ok, s2) := by
    cases rerecord with
    | false => exact ⟨s, hsl, hsd, rfl⟩
    | true =>
      obtain ⟨h1, h2, h3⟩ := stUpdate_same s cur hsd (by rw [hsl]; exact List.mem_append_left _ hcm) (hcuniq s hsl)
      refine ⟨(stUpdate s cur).2, by rw [h2, hsl], h3, ?_⟩
      simp only [if_true]
      apply Prod.ext
      · exact h1
      · rfl
  obtain ⟨s2, hs2l, hs2d, hre2⟩ := hre
  have hm : ({ relP with status := .failed } : Rec).rev ∈ revs s2.ledger := by
    rw [hs2l]; simp [revs]
  have hu := stUpdate_ok s2 { relP with status := .failed } hs2d hm
  refine ⟨(stUpdate s2 { relP with status := .failed }).2, ?_, ?_, ?_⟩
  · rw [hu]
    simp only [hs2l, List.map_append, List.map_cons, List.map_nil]
    congr 1
    · conv => rhs; rw [← List.map_id l]
      apply List.map_congr_left
      intro x hx
      have : ¬ x.rev = relP.rev := by have := hnew x hx; omega
      simp [this]
  · rw [hu]; exact hs2d
  · intro fl f fN
    have hu' : stUpdate s2 { relP with status := .failed } = (.ok, (stUpdate s2 { relP with status := .failed }).2) := by
      rw [hu]
    unfold failUpgradeOn
    simp only [hre2]
    rw [hu']

theorem get?_of_mem_nodup {l : Ledger} (hnd : (revs l).Nodup) {x : Rec} (hx : x ∈ l) : get? l x.rev = some x := by
  have hs := get?_isSome_of_mem hx
  cases hg : get? l x.rev with
  | none => rw [hg] at hs; cases hs
  | some y =>
    obtain ⟨hym, hyr⟩ := get?_mem hg
    rw [eq_of_rev hnd hym hx hyr]

/-- Without --atomic. -/
theorem upgrade_failure (at_ : FailAt) (fl : UpgradeFlags) (fN : Faults) (p : Nat) (l : Ledger) (lastRec cur : Rec)
    (hdry : fl.dryRun = false) (hmax : fl.maxHistory = 0) (hatomic : fl.atomic = false)
    (hhook : at_.needsHook = true → fl.disableHooks = false ∧ 0 < fl.nHooks)
    (hnd : (revs l).Nodup)
    (hlast : last? l = some lastRec) (hnp : lastRec.status.isPending = false)
    (hcur : currentOf l = some cur) :
    (upgrade fl at_.faults fN p l).2 = .error ∧
    (upgrade fl at_.faults fN p l).1.ledger = l ++ [⟨lastRec.rev + 1, .failed, p⟩] := by
  obtain ⟨_, hlr⟩ := last?_spec hlast
  obtain ⟨s, hsl, hsd, heq⟩ := upgrade_reaches_fail at_ fl fN p l lastRec cur hdry hmax hhook hlast hnp hcur
  have hnew : ∀ x ∈ l, x.rev < (⟨lastRec.rev + 1, .pendingUpgrade, p⟩ : Rec).rev := by
    intro x hx; have := rev_le_maxRev l x hx; simp only; omega
  obtain ⟨s3, h3l, _, h3e⟩ := failUpgrade_marks l cur ⟨lastRec.rev + 1, .pendingUpgrade, p⟩ hnd (currentOf_mem hcur) hnew
    at_.rerecord s hsl hsd
  rw [heq, h3e fl at_.faults fN]
  simp only [FailAt.cleanup_ok, bne_self_eq_false, Bool.and_false, Bool.false_and, Bool.false_eq_true, if_false, hatomic]
  exact ⟨trivial, h3l⟩

/-- With --atomic and a fault-free automatic rollback: `tgt` is the most recent revision that is
superseded or deployed. -/
theorem upgrade_failure_atomic (at_ : FailAt) (fl : UpgradeFlags) (p : Nat) (l : Ledger) (lastRec cur tgt : Rec)
    (hdry : fl.dryRun = false) (hmax : fl.maxHistory = 0) (hatomic : fl.atomic = true)
    (hhook : at_.needsHook = true → fl.disableHooks = false ∧ 0 < fl.nHooks)
    (hnd : (revs l).Nodup) (hpos : ∀ x ∈ l, 0 < x.rev)
    (hlast : last? l = some lastRec) (hnp : lastRec.status.isPending = false)
    (hcur : currentOf l = some cur)
    (htm : tgt ∈ l) (hts : tgt.status = .superseded ∨ tgt.status = .deployed)
    (htmax : ∀ x ∈ l, (x.status = .superseded ∨ x.status = .deployed) → x.rev ≤ tgt.rev) :
    (upgrade fl at_.faults {} p l).2 = .error ∧
    (upgrade fl at_.faults {} p l).1.ledger =
      supersedeDeployed (l ++ [⟨lastRec.rev + 1, .failed, p⟩]) ++ [⟨lastRec.rev + 2, .deployed, tgt.payload⟩] := by
  obtain ⟨_, hlr⟩ := last?_spec hlast
  obtain ⟨s, hsl, hsd, heq⟩ := upgrade_reaches_fail at_ fl {} p l lastRec cur hdry hmax hhook hlast hnp hcur
  have hnew : ∀ x ∈ l, x.rev < (⟨lastRec.rev + 1, .pendingUpgrade, p⟩ : Rec).rev := by
    intro x hx; have := rev_le_maxRev l x hx; simp only; omega
  obtain ⟨s3, h3l, h3d, h3e⟩ := failUpgrade_marks l cur ⟨lastRec.rev + 1, .pendingUpgrade, p⟩ hnd (currentOf_mem hcur) hnew
    at_.rerecord s hsl hsd
  let failedRec : Rec := ⟨lastRec.rev + 1, .failed, p⟩
  let L3 : Ledger := l ++ [failedRec]
  have h3l' : s3.ledger = L3 := h3l
  let q : Rec → Bool := fun r => decide (r.status = .superseded) || decide (r.status = .deployed)
  have hq : ∀ x, q x = true ↔ (x.status = .superseded ∨ x.status = .deployed) := by
    intro x; simp [q]
  have hcands : L3.filter q = l.filter q := by
    simp [L3, List.filter_append, q, failedRec]
  have htc : tgt ∈ l.filter q := List.mem_filter.mpr ⟨htm, (hq tgt).mpr hts⟩
  have hne : (l.filter q).isEmpty = false := by
    cases h : l.filter q with
    | nil => rw [h] at htc; cases htc
    | cons a t => rfl
  have hmaxc : maxRev (l.filter q) = tgt.rev := by
    apply Nat.le_antisymm
    · obtain ⟨x, hx, hxr⟩ := maxRev_attained (l := l.filter q) (by intro h; rw [h] at htc; cases htc)
      rw [← hxr]
      have hx' := List.mem_filter.mp hx
      exact htmax x hx'.1 ((hq x).mp hx'.2)
    · exact rev_le_maxRev _ tgt htc
  -- the automatic rollback, from the state the failure left
  have hnd3 : (revs L3).Nodup := by
    simp only [L3, revs, List.map_append, List.map_cons, List.map_nil]
    refine List.nodup_append.mpr ⟨hnd, by simp, ?_⟩
    intro a ha b hb
    simp only [List.mem_singleton] at hb
    subst hb
    obtain ⟨x, hx, hxa⟩ := List.mem_map.mp ha
    have := rev_le_maxRev l x hx
    simp only [failedRec]; omega
  have hfm : failedRec ∈ L3 := by simp [L3]
  have hmax3 : maxRev L3 = failedRec.rev :=
    maxRev_append_one l failedRec (fun x hx => by have := rev_le_maxRev l x hx; simp only [failedRec]; omega)
  have hlast3 : last? L3 = some failedRec := by
    unfold last?
    have : L3.isEmpty = false := by simp [L3]
    rw [this, hmax3]
    simp only [Bool.false_eq_true, if_false]
    exact get?_of_mem_nodup hnd3 hfm
  have htpos : tgt.rev ≠ 0 := by have := hpos tgt htm; omega
  let fl' : RollbackFlags := { version := tgt.rev, disableHooks := fl.disableHooks, nHooks := fl.nHooks, maxHistory := 0 }
  have hprev3 : get? L3 (if fl'.version = 0 then failedRec.rev - 1 else fl'.version) = some tgt := by
    simp only [fl', htpos, if_false]
    exact get?_of_mem_nodup hnd3 (List.mem_append_left _ htm)
  obtain ⟨hr1, hr2⟩ := rollbackOn_success fl' s3 L3 h3l' h3d failedRec tgt rfl rfl hnd3 hlast3 hprev3
  rw [heq, h3e fl at_.faults {}]
  simp only [FailAt.cleanup_ok, bne_self_eq_false, Bool.and_false, Bool.false_and, Bool.false_eq_true, if_false, hatomic, if_true,
    h3l']
  have hc2 : List.filter (fun r => decide (r.status = Status.superseded) || decide (r.status = Status.deployed)) L3 = l.filter q := hcands
  rw [hc2]
  simp only [hne, Bool.false_eq_true, if_false, hmaxc]
  have hrb : rollbackOn fl' {} s3 = ((rollbackOn fl' {} s3).1, .success) := by
    apply Prod.ext
    · rfl
    · exact hr1
  have hrb' : rollbackOn { nHooks := fl.nHooks, version := tgt.rev, disableHooks := fl.disableHooks, maxHistory := 0 } {} s3 =
      ((rollbackOn fl' {} s3).1, .success) := hrb
  rw [hrb']
  refine ⟨by simp, ?_⟩
  simp only
  rw [hr2]

end Helm.Ledger
