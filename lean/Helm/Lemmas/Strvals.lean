import Helm.Model.Strvals
import Helm.Model.Options
namespace Helm.Strvals
open Helm.Values

theorem valListLoop_no_panic (m : Mode) (fuel : Nat) (s : Str) (l : VList) :
    (valListLoop m fuel s l).err ≠ some .panic := by
  induction fuel generalizing s l with
  | zero => simp [valListLoop]
  | succ n ih =>
    rw [valListLoop]
    split
    · simp
    · simp
    · exact ih _ _

theorem valList_no_panic (m : Mode) (s : Str) : (valList m s).err ≠ some .panic := by
  unfold valList
  split
  · simp
  · exact valListLoop_no_panic _ _ _ _
  · simp

theorem rhs_no_panic (m : Mode) (s : Str) : (rhs m s).2.1 ≠ some .panic := by
  have hv := valList_no_panic m s
  unfold rhs
  cases m
  case literal => simp
  all_goals
    simp only
    split
    · simp
    · split <;> simp_all

theorem key_no_panic (m : Mode) (fuel : Nat) (data : Tbl) (level : Nat) (s : Str) :
    (key m fuel data level s).err ≠ some .panic := by
  induction fuel generalizing data level s with
  | zero => simp [key]
  | succ n ih =>
    rw [key]
    split
    · split <;> simp
    · split
      · simp
      · dsimp only
        split
        · simp
        · split
          · simp
          · rename_i e he; simpa using he
    · have := rhs_no_panic m ‹Str›
      split <;> simp_all
    · simp
    · dsimp only
      split
      · simp
      · split
        · simp
        · rename_i inner _
          have := ih inner (level + 1) ‹Str›
          split
          · simp
          · split <;> simp_all

theorem parseLoop_no_panic (m : Mode) (fuel : Nat) (data : Tbl) (s : Str) :
    (parseLoop m fuel data s).2 ≠ some .panic := by
  induction fuel generalizing data s with
  | zero => simp [parseLoop]
  | succ n ih =>
    rw [parseLoop]
    have hk := key_no_panic m (s.length + 1) data 0 s
    split
    · exact ih _ _
    · simp
    · rename_i e he heq; simp only; intro h; rw [h] at heq; exact hk heq

theorem parseInto_no_panic (m : Mode) (s : Str) (dest : Tbl) :
    (parseInto m s dest).2 ≠ some .panic :=
  parseLoop_no_panic _ _ _ _

end Helm.Strvals
