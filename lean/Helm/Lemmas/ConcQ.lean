/-
The history at quiescence is well-formed, for any number of concurrent installs/upgrades and
any schedule (the unbounded version of what Props/C09 checks exhaustively for two and three
operations).  An invariant over the ledger and all processes, proved by induction over the
schedule.
-/
import Helm.Lemmas.Conc
import Helm.Lemmas.LedgerSuccess

namespace Helm.Conc
open Helm.Ledger

theorem revs_eq (l : Ledger) : Helm.Conc.revs l = Helm.Ledger.revs l := rfl

/-- the revision whose record the process has stored and not yet finalised -/
def inflight (p : Proc) : Option Nat := match p.pc with
  | .created r _ => some r
  | .mutated r _ => some r
  | .superseded r => some r
  | _ => none

/-- the highest revision the process read, on which its Create will be based -/
def holds (p : Proc) : Option Nat := match p.pc with
  | .read b => some b
  | .ready b _ => some b
  | _ => none

def stageOk (l : Ledger) (ps : List Proc) (p : Proc) : Prop :=
  match p.pc with
  | .created r (some c) => c < r ∧ ∀ x ∈ l, x.status = .deployed → x.rev = c
  | .mutated r (some c) => c < r ∧ ∀ x ∈ l, x.status = .deployed → x.rev = c
  | .created _ none => ∀ x ∈ l, x.status ≠ .deployed
  | .mutated _ none => ∀ x ∈ l, x.status ≠ .deployed
  | .superseded _ => ∀ x ∈ l, x.status ≠ .deployed
  | .ready b (some c) => b = maxRev l → (∀ q ∈ ps, inflight q = none) →
      c ≤ b ∧ ∀ x ∈ l, x.status = .deployed → x.rev = c
  | .ready b none => b = 0
  | _ => True

structure Q (m0 : Nat) (l : Ledger) (ps : List Proc) : Prop where
  nodup : (Helm.Ledger.revs l).Nodup
  pos : ∀ x ∈ l, 1 ≤ x.rev
  m0le : m0 ≤ maxRev l
  contig : ∀ r, m0 < r → r ≤ maxRev l → r ∈ Helm.Ledger.revs l
  holdsB : ∀ p ∈ ps, ∀ b, holds p = some b → m0 ≤ b ∧ b ≤ maxRev l
  excl : ps.Pairwise (fun p q => inflight p = none ∨ inflight q = none)
  infl : ∀ p ∈ ps, ∀ r, inflight p = some r →
    r = maxRev l ∧ (∃ rec ∈ l, rec.rev = r ∧ rec.status.isPending = true) ∧
    ∀ q ∈ ps, ∀ b, holds q = some b → b < r
  pend : ∀ rec ∈ l, rec.status.isPending = true → ∃ p ∈ ps, inflight p = some rec.rev
  quiet : (∀ p ∈ ps, inflight p = none) → countDeployed l ≤ 1
  stage : ∀ p ∈ ps, stageOk l ps p

/-- what the property asks of the history once everybody has returned -/
theorem quiescent_wellformed {m0 : Nat} {l : Ledger} {ps : List Proc} (q : Q m0 l ps)
    (hdone : ∀ p ∈ ps, p.isDone = true) :
    (Helm.Ledger.revs l).Nodup ∧ countDeployed l ≤ 1 ∧ ∀ rec ∈ l, rec.status.isPending = false := by
  have hnone : ∀ p ∈ ps, inflight p = none := by
    intro p hp
    have := hdone p hp
    unfold Proc.isDone at this
    unfold inflight
    split at this <;> simp_all
  refine ⟨q.nodup, q.quiet hnone, ?_⟩
  intro rec hrec
  cases hpd : rec.status.isPending with
  | false => rfl
  | true =>
    obtain ⟨p, hp, hi⟩ := q.pend rec hrec hpd
    rw [hnone p hp] at hi
    cases hi

end Helm.Conc

namespace Helm.Conc
open Helm.Ledger

/-! ### ledger facts -/

theorem maxRev_setStatus (l : Ledger) (r : Nat) (s : Status) : maxRev (setStatus l r s) = maxRev l := by
  unfold maxRev setStatus
  generalize 0 = m
  induction l generalizing m with
  | nil => rfl
  | cons a t ih =>
    simp only [List.map_cons, List.foldl_cons]
    have : (if a.rev = r then { a with status := s } else a).rev = a.rev := by split <;> rfl
    rw [this]
    exact ih _

theorem revs_setStatus' (l : Ledger) (r : Nat) (s : Status) : Helm.Ledger.revs (setStatus l r s) = Helm.Ledger.revs l :=
  revs_setStatus l r s

theorem mem_setStatus {l : Ledger} {r : Nat} {s : Status} {y : Rec} (hy : y ∈ setStatus l r s) :
    ∃ x ∈ l, y = (if x.rev = r then { x with status := s } else x) := by
  unfold setStatus at hy
  obtain ⟨x, hx, hxy⟩ := List.mem_map.mp hy
  exact ⟨x, hx, hxy.symm⟩

theorem maxRev_zero_nil {l : Ledger} (hpos : ∀ x ∈ l, 1 ≤ x.rev) (h : maxRev l = 0) : l = [] := by
  cases l with
  | nil => rfl
  | cons a t =>
    have h1 := rev_le_maxRev (a :: t) a List.mem_cons_self
    have h2 := hpos a List.mem_cons_self
    omega

theorem maxRev_nil : maxRev ([] : Ledger) = 0 := rfl

theorem last?_rec {l : Ledger} {r : Rec} (hnd : (Helm.Ledger.revs l).Nodup) (h : last? l = some r) :
    ∀ x ∈ l, x.rev = maxRev l → x = r := by
  intro x hx hxr
  obtain ⟨hr, hrr⟩ := last?_spec h
  exact eq_of_rev hnd hx hr (by omega)

/-! ### the processes other than the one that steps -/

theorem mem_replace {α : Type} {a b : List α} {p x : α} : x ∈ a ++ p :: b ↔ x ∈ a ∨ x = p ∨ x ∈ b := by
  simp [List.mem_append, List.mem_cons]

theorem pairwise_replace {α : Type} {R : α → α → Prop} (hsym : ∀ x y, R x y → R y x) {a b : List α} {p p' : α}
    (h : (a ++ p :: b).Pairwise R) (hp' : ∀ x, x ∈ a ∨ x ∈ b → R x p') : (a ++ p' :: b).Pairwise R := by
  rw [List.pairwise_append] at h ⊢
  obtain ⟨h1, h2, h3⟩ := h
  rw [List.pairwise_cons] at h2
  refine ⟨h1, List.pairwise_cons.mpr ⟨fun y hy => hsym _ _ (hp' y (Or.inr hy)), h2.2⟩, ?_⟩
  intro x hx y hy
  rcases List.mem_cons.mp hy with hy | hy
  · rw [hy]; exact hp' x (Or.inl hx)
  · exact h3 x hx y (List.mem_cons_of_mem _ hy)

end Helm.Conc

namespace Helm.Conc
open Helm.Ledger

/-- assemble the invariant for the world in which `p` was replaced by `p'` -/
theorem Q.build {m0 : Nat} {l' : Ledger} {a b : List Proc} {p' : Proc}
    (nodup : (Helm.Ledger.revs l').Nodup) (pos : ∀ x ∈ l', 1 ≤ x.rev) (m0le : m0 ≤ maxRev l')
    (contig : ∀ r, m0 < r → r ≤ maxRev l' → r ∈ Helm.Ledger.revs l')
    (holdsO : ∀ q, q ∈ a ∨ q ∈ b → ∀ b0, holds q = some b0 → m0 ≤ b0 ∧ b0 ≤ maxRev l')
    (holdsP : ∀ b0, holds p' = some b0 → m0 ≤ b0 ∧ b0 ≤ maxRev l')
    (excl : (a ++ p' :: b).Pairwise (fun p q => inflight p = none ∨ inflight q = none))
    (infl : ∀ q ∈ a ++ p' :: b, ∀ r, inflight q = some r →
      r = maxRev l' ∧ (∃ rec ∈ l', rec.rev = r ∧ rec.status.isPending = true) ∧
      ∀ q' ∈ a ++ p' :: b, ∀ b0, holds q' = some b0 → b0 < r)
    (pend : ∀ rec ∈ l', rec.status.isPending = true → ∃ q ∈ a ++ p' :: b, inflight q = some rec.rev)
    (quiet : (∀ q ∈ a ++ p' :: b, inflight q = none) → countDeployed l' ≤ 1)
    (stageO : ∀ q, q ∈ a ∨ q ∈ b → stageOk l' (a ++ p' :: b) q)
    (stageP : stageOk l' (a ++ p' :: b) p') : Q m0 l' (a ++ p' :: b) where
  nodup := nodup
  pos := pos
  m0le := m0le
  contig := contig
  holdsB := by
    intro q hq b0 hb
    rcases mem_replace.mp hq with h | h | h
    · exact holdsO q (Or.inl h) b0 hb
    · subst h; exact holdsP b0 hb
    · exact holdsO q (Or.inr h) b0 hb
  excl := excl
  infl := infl
  pend := pend
  quiet := quiet
  stage := by
    intro q hq
    rcases mem_replace.mp hq with h | h | h
    · exact stageO q (Or.inl h)
    · subst h; exact stageP
    · exact stageO q (Or.inr h)

/-- the others' stage facts survive a step that leaves the ledger alone and does not turn an
in-flight process into a quiet one -/
theorem stageOk_others {l : Ledger} {a b : List Proc} {p p' q : Proc}
    (h : stageOk l (a ++ p :: b) q) (hinf : inflight p' = none → inflight p = none) :
    stageOk l (a ++ p' :: b) q := by
  unfold stageOk at h ⊢
  split <;> simp_all
  rename_i bb c hq
  intro hb hall
  apply h hb
  intro x hx
  rcases hx with hx | hx | hx
  · exact hall x (Or.inl hx)
  · subst hx; exact hinf (hall p' (Or.inr (Or.inl rfl)))
  · exact hall x (Or.inr (Or.inr hx))

end Helm.Conc

namespace Helm.Conc
open Helm.Ledger

/-- generic transfer when the ledger does not change and the new process state has the same
in-flight revision, no held base, and its own stage fact -/
theorem Q.relabel {m0 : Nat} {l : Ledger} {a b : List Proc} {p p' : Proc}
    (q : Q m0 l (a ++ p :: b))
    (hinf : inflight p' = inflight p) (hh : holds p' = none)
    (hst : stageOk l (a ++ p' :: b) p') : Q m0 l (a ++ p' :: b) := by
  have hpmem : p ∈ a ++ p :: b := mem_replace.mpr (Or.inr (Or.inl rfl))
  have hO : ∀ x, x ∈ a ∨ x ∈ b → x ∈ a ++ p :: b := by
    intro x hx; rcases hx with h | h
    · exact mem_replace.mpr (Or.inl h)
    · exact mem_replace.mpr (Or.inr (Or.inr h))
  apply Q.build q.nodup q.pos q.m0le q.contig
  · intro x hx b0 hb; exact q.holdsB x (hO x hx) b0 hb
  · intro b0 hb; rw [hh] at hb; cases hb
  · apply pairwise_replace (p := p) (fun x y h => h.symm) q.excl
    intro x hx
    have hx' := hO x hx
    -- x and p were exclusive
    have : inflight x = none ∨ inflight p = none := by
      have hpw := q.excl
      rw [List.pairwise_append] at hpw
      rcases hx with hxa | hxb
      · exact hpw.2.2 x hxa p List.mem_cons_self
      · exact ((List.pairwise_cons.mp hpw.2.1).1 x hxb).symm
    rw [hinf]; exact this
  · intro x hx r hr
    -- translate x to the old world
    have hold : ∃ y ∈ a ++ p :: b, inflight y = some r := by
      rcases mem_replace.mp hx with h | h | h
      · exact ⟨x, hO x (Or.inl h), hr⟩
      · subst h; exact ⟨p, hpmem, by rw [← hinf]; exact hr⟩
      · exact ⟨x, hO x (Or.inr h), hr⟩
    obtain ⟨y, hy, hyr⟩ := hold
    obtain ⟨h1, h2, h3⟩ := q.infl y hy r hyr
    refine ⟨h1, h2, ?_⟩
    intro x' hx' b0 hb
    rcases mem_replace.mp hx' with h | h | h
    · exact h3 x' (hO x' (Or.inl h)) b0 hb
    · subst h; rw [hh] at hb; cases hb
    · exact h3 x' (hO x' (Or.inr h)) b0 hb
  · intro rec hrec hp
    obtain ⟨y, hy, hyr⟩ := q.pend rec hrec hp
    rcases mem_replace.mp hy with h | h | h
    · exact ⟨y, mem_replace.mpr (Or.inl h), hyr⟩
    · subst h; exact ⟨p', mem_replace.mpr (Or.inr (Or.inl rfl)), by rw [hinf]; exact hyr⟩
    · exact ⟨y, mem_replace.mpr (Or.inr (Or.inr h)), hyr⟩
  · intro hall
    apply q.quiet
    intro x hx
    rcases mem_replace.mp hx with h | h | h
    · exact hall x (mem_replace.mpr (Or.inl h))
    · subst h; rw [← hinf]; exact hall p' (mem_replace.mpr (Or.inr (Or.inl rfl)))
    · exact hall x (mem_replace.mpr (Or.inr (Or.inr h)))
  · intro x hx
    exact stageOk_others (q.stage x (hO x hx)) (by intro h; rw [← hinf]; exact h)
  · exact hst

end Helm.Conc

namespace Helm.Conc
open Helm.Ledger

/-- a step of a process that is not in flight, stays so and leaves the ledger alone: it may
take, keep, change or drop the base it holds -/
theorem Q.quietStep {m0 : Nat} {l : Ledger} {a b : List Proc} {p p' : Proc}
    (q : Q m0 l (a ++ p :: b))
    (hip : inflight p = none) (hip' : inflight p' = none)
    (hh : ∀ b0, holds p' = some b0 → m0 ≤ b0 ∧ b0 ≤ maxRev l ∧
      ∀ x, x ∈ a ∨ x ∈ b → ∀ r, inflight x = some r → b0 < r)
    (hst : stageOk l (a ++ p' :: b) p') : Q m0 l (a ++ p' :: b) := by
  have hO : ∀ x, x ∈ a ∨ x ∈ b → x ∈ a ++ p :: b := by
    intro x hx; rcases hx with h | h
    · exact mem_replace.mpr (Or.inl h)
    · exact mem_replace.mpr (Or.inr (Or.inr h))
  apply Q.build q.nodup q.pos q.m0le q.contig
  · intro x hx b0 hb; exact q.holdsB x (hO x hx) b0 hb
  · intro b0 hb; exact ⟨(hh b0 hb).1, (hh b0 hb).2.1⟩
  · apply pairwise_replace (p := p) (fun x y h => h.symm) q.excl
    intro x _; exact Or.inr hip'
  · intro x hx r hr
    rcases mem_replace.mp hx with h | h | h
    · obtain ⟨h1, h2, h3⟩ := q.infl x (hO x (Or.inl h)) r hr
      refine ⟨h1, h2, ?_⟩
      intro x' hx' b0 hb
      rcases mem_replace.mp hx' with h' | h' | h'
      · exact h3 x' (hO x' (Or.inl h')) b0 hb
      · subst h'; exact (hh b0 hb).2.2 x (Or.inl h) r hr
      · exact h3 x' (hO x' (Or.inr h')) b0 hb
    · subst h; rw [hip'] at hr; cases hr
    · obtain ⟨h1, h2, h3⟩ := q.infl x (hO x (Or.inr h)) r hr
      refine ⟨h1, h2, ?_⟩
      intro x' hx' b0 hb
      rcases mem_replace.mp hx' with h' | h' | h'
      · exact h3 x' (hO x' (Or.inl h')) b0 hb
      · subst h'; exact (hh b0 hb).2.2 x (Or.inr h) r hr
      · exact h3 x' (hO x' (Or.inr h')) b0 hb
  · intro rec hrec hp
    obtain ⟨y, hy, hyr⟩ := q.pend rec hrec hp
    rcases mem_replace.mp hy with h | h | h
    · exact ⟨y, mem_replace.mpr (Or.inl h), hyr⟩
    · subst h; rw [hip] at hyr; cases hyr
    · exact ⟨y, mem_replace.mpr (Or.inr (Or.inr h)), hyr⟩
  · intro hall
    apply q.quiet
    intro x hx
    rcases mem_replace.mp hx with h | h | h
    · exact hall x (mem_replace.mpr (Or.inl h))
    · subst h; exact hip
    · exact hall x (mem_replace.mpr (Or.inr (Or.inr h)))
  · intro x hx
    exact stageOk_others (q.stage x (hO x hx)) (fun _ => hip)
  · exact hst

/-- nobody is in flight when the newest record is not pending -/
theorem Q.nobody_inflight {m0 : Nat} {l : Ledger} {ps : List Proc} (q : Q m0 l ps) {r : Rec}
    (hl : last? l = some r) (hnp : r.status.isPending = false) : ∀ x ∈ ps, inflight x = none := by
  intro x hx
  cases hi : inflight x with
  | none => rfl
  | some rx =>
    obtain ⟨h1, ⟨rec, hrec, hrr, hrp⟩, _⟩ := q.infl x hx rx hi
    have := last?_rec q.nodup hl rec hrec (by omega)
    subst this
    rw [hnp] at hrp; cases hrp

end Helm.Conc

namespace Helm.Conc
open Helm.Ledger

theorem others_mem {a b : List Proc} {p x : Proc} (hx : x ∈ a ∨ x ∈ b) : x ∈ a ++ p :: b := by
  rcases hx with h | h
  · exact mem_replace.mpr (Or.inl h)
  · exact mem_replace.mpr (Or.inr (Or.inr h))

/-- while `p` is in flight nobody else is -/
theorem Q.others_quiet {m0 : Nat} {l : Ledger} {a b : List Proc} {p : Proc} (q : Q m0 l (a ++ p :: b))
    {r : Nat} (hp : inflight p = some r) : ∀ x, x ∈ a ∨ x ∈ b → inflight x = none := by
  intro x hx
  have hpw := q.excl
  rw [List.pairwise_append] at hpw
  rcases hx with hxa | hxb
  · rcases hpw.2.2 x hxa p List.mem_cons_self with h | h
    · exact h
    · rw [hp] at h; cases h
  · rcases (List.pairwise_cons.mp hpw.2.1).1 x hxb with h | h
    · rw [hp] at h; cases h
    · exact h

/-- the others' stage facts when they are not in flight and their `ready` premise is false or
unchanged -/
theorem stageOk_quiet_other {l l' : Ledger} {ps ps' : List Proc} {x : Proc}
    (h : stageOk l ps x) (hx : inflight x = none)
    (hready : ∀ b c, x.pc = .ready b (some c) → ¬ (b = maxRev l' ∧ ∀ q ∈ ps', inflight q = none)) :
    stageOk l' ps' x := by
  unfold stageOk at h ⊢
  unfold inflight at hx
  split <;> simp_all
  rename_i bb c hq
  intro h1 h2
  obtain ⟨y, hy, hyn⟩ := hready h1
  exact absurd (h2 y hy) hyn

theorem Q.create {m0 : Nat} {l : Ledger} {a b : List Proc} {p p' : Proc} {bb : Nat} {cur : Option Nat}
    {st : Status} {payload : Nat}
    (q : Q m0 l (a ++ p :: b)) (hpc : p.pc = .ready bb cur)
    (hfree : (bb + 1) ∉ Helm.Ledger.revs l)
    (hpc' : p'.pc = .created (bb + 1) cur) (hst : st.isPending = true) (hnd : st ≠ .deployed) :
    Q m0 (l ++ [⟨bb + 1, st, payload⟩]) (a ++ p' :: b) := by
  have hpm : p ∈ a ++ p :: b := mem_replace.mpr (Or.inr (Or.inl rfl))
  have hhp : holds p = some bb := by unfold holds; rw [hpc]
  have hip : inflight p = none := by unfold inflight; rw [hpc]
  have hip' : inflight p' = some (bb + 1) := by unfold inflight; rw [hpc']
  have hhp' : holds p' = none := by unfold holds; rw [hpc']
  obtain ⟨hb1, hb2⟩ := q.holdsB p hpm bb hhp
  -- the base is the current maximum
  have hmax : bb = maxRev l := by
    by_cases h : bb < maxRev l
    · exact absurd (q.contig (bb + 1) (by omega) (by omega)) hfree
    · omega
  -- nobody is in flight
  have hquiet : ∀ x ∈ a ++ p :: b, inflight x = none := by
    intro x hx
    cases hi : inflight x with
    | none => rfl
    | some rx =>
      obtain ⟨h1, _, h3⟩ := q.infl x hx rx hi
      have := h3 p hpm bb hhp
      omega
  have hnopend : ∀ rec ∈ l, rec.status.isPending = false := by
    intro rec hrec
    cases hp : rec.status.isPending with
    | false => rfl
    | true =>
      obtain ⟨y, hy, hyr⟩ := q.pend rec hrec hp
      rw [hquiet y hy] at hyr; cases hyr
  have hle : ∀ x ∈ l, x.rev ≤ (⟨bb + 1, st, payload⟩ : Rec).rev := by
    intro x hx; have := rev_le_maxRev l x hx; simp; omega
  have hmax' : maxRev (l ++ [⟨bb + 1, st, payload⟩]) = bb + 1 := maxRev_append_one l _ hle
  have hrevs' : Helm.Ledger.revs (l ++ [⟨bb + 1, st, payload⟩]) = Helm.Ledger.revs l ++ [bb + 1] := by
    simp [Helm.Ledger.revs]
  apply Q.build
  · rw [hrevs']
    refine List.nodup_append.mpr ⟨q.nodup, by simp, ?_⟩
    intro x hx y hy
    simp only [List.mem_singleton] at hy
    subst hy
    intro he; subst he; exact hfree hx
  · intro x hx
    rcases List.mem_append.mp hx with h | h
    · exact q.pos x h
    · simp at h; subst h; simp
  · rw [hmax']; omega
  · intro r h1 h2
    rw [hmax'] at h2
    rw [hrevs']
    by_cases hr : r = bb + 1
    · subst hr; simp
    · exact List.mem_append_left _ (q.contig r h1 (by omega))
  · intro x hx b0 hb
    obtain ⟨h1, h2⟩ := q.holdsB x (others_mem hx) b0 hb
    exact ⟨h1, by rw [hmax']; omega⟩
  · intro b0 hb; rw [hhp'] at hb; cases hb
  · apply pairwise_replace (p := p) (fun x y h => h.symm) q.excl
    intro x hx; exact Or.inl (hquiet x (others_mem hx))
  · intro x hx r hr
    rcases mem_replace.mp hx with h | h | h
    · rw [hquiet x (others_mem (Or.inl h))] at hr; cases hr
    · subst h
      rw [hip'] at hr
      cases hr
      refine ⟨hmax'.symm, ⟨⟨bb + 1, st, payload⟩, by simp, rfl, hst⟩, ?_⟩
      intro x' hx' b0 hb
      rcases mem_replace.mp hx' with h' | h' | h'
      · have := (q.holdsB x' (others_mem (Or.inl h')) b0 hb).2; omega
      · subst h'; rw [hhp'] at hb; cases hb
      · have := (q.holdsB x' (others_mem (Or.inr h')) b0 hb).2; omega
    · rw [hquiet x (others_mem (Or.inr h))] at hr; cases hr
  · intro rec hrec hp
    rcases List.mem_append.mp hrec with h | h
    · rw [hnopend rec h] at hp; cases hp
    · simp at h; subst h
      exact ⟨p', mem_replace.mpr (Or.inr (Or.inl rfl)), hip'⟩
  · intro hall
    have := hall p' (mem_replace.mpr (Or.inr (Or.inl rfl)))
    rw [hip'] at this; cases this
  · intro x hx
    apply stageOk_quiet_other (q.stage x (others_mem hx)) (hquiet x (others_mem hx))
    intro b0 c hxpc ⟨h1, _⟩
    have hxh : holds x = some b0 := by unfold holds; rw [hxpc]
    have := (q.holdsB x (others_mem hx) b0 hxh).2
    rw [hmax'] at h1; omega
  · -- the new stage fact of the process itself
    have hsp := q.stage p hpm
    unfold stageOk at hsp ⊢
    rw [hpc] at hsp
    rw [hpc']
    cases cur with
    | none =>
      simp only at hsp ⊢
      have hl : l = [] := maxRev_zero_nil q.pos (by omega)
      subst hl
      intro x hx
      simp at hx; subst hx
      exact hnd
    | some c =>
      simp only at hsp ⊢
      obtain ⟨hc1, hc2⟩ := hsp hmax hquiet
      refine ⟨by omega, ?_⟩
      intro x hx hd
      rcases List.mem_append.mp hx with h | h
      · exact hc2 x h hd
      · simp at h; subst h; exact absurd hd hnd

end Helm.Conc

namespace Helm.Conc
open Helm.Ledger

/-- common part of the steps in which the in-flight process rewrites a status: everything that
only depends on the revisions is unchanged -/
theorem Q.status_step {m0 : Nat} {l : Ledger} {a b : List Proc} {p p' : Proc} {r c : Nat} {s : Status}
    (q : Q m0 l (a ++ p :: b)) (hip : inflight p = some r) (hhp' : holds p' = none)
    (excl' : (a ++ p' :: b).Pairwise (fun p q => inflight p = none ∨ inflight q = none))
    (infl' : ∀ x ∈ a ++ p' :: b, ∀ r', inflight x = some r' →
      r' = maxRev (setStatus l c s) ∧ (∃ rec ∈ setStatus l c s, rec.rev = r' ∧ rec.status.isPending = true) ∧
      ∀ q' ∈ a ++ p' :: b, ∀ b0, holds q' = some b0 → b0 < r')
    (pend' : ∀ rec ∈ setStatus l c s, rec.status.isPending = true → ∃ x ∈ a ++ p' :: b, inflight x = some rec.rev)
    (quiet' : (∀ x ∈ a ++ p' :: b, inflight x = none) → countDeployed (setStatus l c s) ≤ 1)
    (stageO : ∀ x, x ∈ a ∨ x ∈ b → stageOk (setStatus l c s) (a ++ p' :: b) x)
    (stageP : stageOk (setStatus l c s) (a ++ p' :: b) p') :
    Q m0 (setStatus l c s) (a ++ p' :: b) := by
  apply Q.build
  · rw [revs_setStatus']; exact q.nodup
  · intro y hy
    obtain ⟨x, hx, hxy⟩ := mem_setStatus hy
    have := q.pos x hx
    rw [hxy]; split <;> simpa using this
  · rw [maxRev_setStatus]; exact q.m0le
  · intro r' h1 h2
    rw [maxRev_setStatus] at h2; rw [revs_setStatus']; exact q.contig r' h1 h2
  · intro x hx b0 hb
    rw [maxRev_setStatus]; exact q.holdsB x (others_mem hx) b0 hb
  · intro b0 hb; rw [hhp'] at hb; cases hb
  · exact excl'
  · exact infl'
  · exact pend'
  · exact quiet'
  · exact stageO
  · exact stageP

theorem Q.supersede {m0 : Nat} {l : Ledger} {a b : List Proc} {p p' : Proc} {r c : Nat}
    (q : Q m0 l (a ++ p :: b)) (hpc : p.pc = .mutated r (some c)) (hpc' : p'.pc = .superseded r) :
    Q m0 (setStatus l c .superseded) (a ++ p' :: b) := by
  have hpm : p ∈ a ++ p :: b := mem_replace.mpr (Or.inr (Or.inl rfl))
  have hip : inflight p = some r := by unfold inflight; rw [hpc]
  have hip' : inflight p' = some r := by unfold inflight; rw [hpc']
  have hhp' : holds p' = none := by unfold holds; rw [hpc']
  have hoq := q.others_quiet hip
  obtain ⟨hr1, ⟨rec, hrec, hrr, hrp⟩, hr3⟩ := q.infl p hpm r hip
  have hsp := q.stage p hpm
  unfold stageOk at hsp
  rw [hpc] at hsp
  simp only at hsp
  obtain ⟨hcr, hdep⟩ := hsp
  apply Q.status_step q hip hhp'
  · apply pairwise_replace (p := p) (fun x y h => h.symm) q.excl
    intro x hx; exact Or.inl (hoq x hx)
  · intro x hx r' hr'
    rcases mem_replace.mp hx with h | h | h
    · rw [hoq x (Or.inl h)] at hr'; cases hr'
    · subst h
      rw [hip'] at hr'; cases hr'
      refine ⟨by rw [maxRev_setStatus]; exact hr1, ⟨rec, ?_, hrr, hrp⟩, ?_⟩
      · unfold setStatus
        exact List.mem_map.mpr ⟨rec, hrec, by have : rec.rev ≠ c := by omega
                                              simp [this]⟩
      · intro x' hx' b0 hb
        rcases mem_replace.mp hx' with h' | h' | h'
        · exact hr3 x' (others_mem (Or.inl h')) b0 hb
        · subst h'; rw [hhp'] at hb; cases hb
        · exact hr3 x' (others_mem (Or.inr h')) b0 hb
    · rw [hoq x (Or.inr h)] at hr'; cases hr'
  · intro y hy hp
    obtain ⟨x, hx, hxy⟩ := mem_setStatus hy
    by_cases hxc : x.rev = c
    · rw [hxy] at hp; simp [hxc, Status.isPending] at hp
    · have hyx : y = x := by rw [hxy]; simp [hxc]
      subst hyx
      obtain ⟨z, hz, hzr⟩ := q.pend y hx hp
      rcases mem_replace.mp hz with h | h | h
      · rw [hoq z (Or.inl h)] at hzr; cases hzr
      · subst h
        rw [hip] at hzr
        exact ⟨p', mem_replace.mpr (Or.inr (Or.inl rfl)), by rw [hip']; exact hzr⟩
      · rw [hoq z (Or.inr h)] at hzr; cases hzr
  · intro hall
    have := hall p' (mem_replace.mpr (Or.inr (Or.inl rfl)))
    rw [hip'] at this; cases this
  · intro x hx
    apply stageOk_quiet_other (q.stage x (others_mem hx)) (hoq x hx)
    intro b0 c0 _ ⟨_, h2⟩
    have := h2 p' (mem_replace.mpr (Or.inr (Or.inl rfl)))
    rw [hip'] at this; cases this
  · unfold stageOk
    rw [hpc']
    simp only
    intro y hy hd
    obtain ⟨x, hx, hxy⟩ := mem_setStatus hy
    by_cases hxc : x.rev = c
    · rw [hxy] at hd; simp [hxc] at hd
    · have hyx : y = x := by rw [hxy]; simp [hxc]
      subst hyx
      exact hxc (hdep y hx hd)

theorem countDeployed_setStatus_deployed {l : Ledger} {r : Nat} (hnd : (Helm.Ledger.revs l).Nodup)
    (hno : ∀ x ∈ l, x.status ≠ .deployed) : countDeployed (setStatus l r .deployed) ≤ 1 := by
  unfold countDeployed setStatus
  induction l with
  | nil => simp
  | cons a t ih =>
    simp only [Helm.Ledger.revs, List.map_cons, List.nodup_cons] at hnd
    simp only [List.map_cons, List.countP_cons]
    have iht := ih hnd.2 (fun x hx => hno x (List.mem_cons_of_mem _ hx))
    by_cases ha : a.rev = r
    · -- the tail has no record of revision r: nothing there becomes deployed
      have htail : List.countP (fun x => decide (x.status = Status.deployed))
          (t.map fun x => if x.rev = r then { x with status := Status.deployed } else x) = 0 := by
        rw [List.countP_eq_zero]
        intro y hy
        obtain ⟨x, hx, hxy⟩ := List.mem_map.mp hy
        have hxr : x.rev ≠ r := by
          intro h; exact hnd.1 (List.mem_map.mpr ⟨x, hx, by rw [h, ha]⟩)
        simp [hxr] at hxy
        subst hxy
        simpa using hno x (List.mem_cons_of_mem _ hx)
      rw [htail]; simp [ha]
    · have : ¬ (a.status = .deployed) := hno a List.mem_cons_self
      simp only [ha, if_false, this, decide_false, Bool.false_eq_true, if_false, Nat.add_zero]
      exact iht

theorem Q.finish {m0 : Nat} {l : Ledger} {a b : List Proc} {p p' : Proc} {r : Nat}
    (q : Q m0 l (a ++ p :: b)) (hip : inflight p = some r)
    (hno : ∀ x ∈ l, x.status ≠ .deployed) (hpc' : p'.pc = .done true) :
    Q m0 (setStatus l r .deployed) (a ++ p' :: b) := by
  have hpm : p ∈ a ++ p :: b := mem_replace.mpr (Or.inr (Or.inl rfl))
  have hip' : inflight p' = none := by unfold inflight; rw [hpc']
  have hhp' : holds p' = none := by unfold holds; rw [hpc']
  have hoq := q.others_quiet hip
  obtain ⟨hr1, _, hr3⟩ := q.infl p hpm r hip
  have hallq : ∀ x ∈ a ++ p' :: b, inflight x = none := by
    intro x hx
    rcases mem_replace.mp hx with h | h | h
    · exact hoq x (Or.inl h)
    · subst h; exact hip'
    · exact hoq x (Or.inr h)
  apply Q.status_step q hip hhp'
  · apply pairwise_replace (p := p) (fun x y h => h.symm) q.excl
    intro x _; exact Or.inr hip'
  · intro x hx r' hr'
    rw [hallq x hx] at hr'; cases hr'
  · intro y hy hp
    obtain ⟨x, hx, hxy⟩ := mem_setStatus hy
    by_cases hxc : x.rev = r
    · rw [hxy] at hp; simp [hxc, Status.isPending] at hp
    · have hyx : y = x := by rw [hxy]; simp [hxc]
      subst hyx
      obtain ⟨z, hz, hzr⟩ := q.pend y hx hp
      rcases mem_replace.mp hz with h | h | h
      · rw [hoq z (Or.inl h)] at hzr; cases hzr
      · subst h
        rw [hip] at hzr; cases hzr; exact absurd rfl hxc
      · rw [hoq z (Or.inr h)] at hzr; cases hzr
  · intro _
    exact countDeployed_setStatus_deployed q.nodup hno
  · intro x hx
    apply stageOk_quiet_other (q.stage x (others_mem hx)) (hoq x hx)
    intro b0 c0 hxpc ⟨h1, _⟩
    have hxh : holds x = some b0 := by unfold holds; rw [hxpc]
    have := hr3 x (others_mem hx) b0 hxh
    rw [maxRev_setStatus] at h1
    omega
  · unfold stageOk; rw [hpc']; trivial

end Helm.Conc

namespace Helm.Conc
open Helm.Ledger

theorem contains_iff_mem (l : Ledger) (r : Nat) : (Helm.Conc.revs l).contains r = true ↔ r ∈ Helm.Ledger.revs l := by
  rw [revs_eq]; simp

/-- one step of one process preserves the invariant -/
theorem stepProc_Q {m0 : Nat} {l : Ledger} {a b : List Proc} {p : Proc} (q : Q m0 l (a ++ p :: b)) :
    Q m0 (stepProc p l).2 (a ++ (stepProc p l).1 :: b) := by
  have hpm : p ∈ a ++ p :: b := mem_replace.mpr (Or.inr (Or.inl rfl))
  cases hpc : p.pc with
  | done ok =>
    have : stepProc p l = (p, l) := by unfold stepProc; rw [hpc]
    rw [this]; exact q
  | created r cur =>
    have : stepProc p l = ({ p with pc := .mutated r cur, touched := true }, l) := by unfold stepProc; rw [hpc]
    rw [this]
    have hsp := q.stage p hpm
    apply Q.relabel q
    · unfold inflight; rw [hpc]
    · unfold holds; rfl
    · unfold stageOk at hsp ⊢
      rw [hpc] at hsp
      cases cur <;> simpa using hsp
  | superseded r =>
    have : stepProc p l = ({ p with pc := .done true }, setStatus l r .deployed) := by unfold stepProc; rw [hpc]
    rw [this]
    have hsp := q.stage p hpm
    unfold stageOk at hsp; rw [hpc] at hsp
    exact Q.finish q (by unfold inflight; rw [hpc]) hsp rfl
  | mutated r cur =>
    cases cur with
    | none =>
      have : stepProc p l = ({ p with pc := .done true }, setStatus l r .deployed) := by unfold stepProc; rw [hpc]
      rw [this]
      have hsp := q.stage p hpm
      unfold stageOk at hsp; rw [hpc] at hsp
      exact Q.finish q (by unfold inflight; rw [hpc]) hsp rfl
    | some c =>
      have : stepProc p l = ({ p with pc := .superseded r }, setStatus l c .superseded) := by unfold stepProc; rw [hpc]
      rw [this]
      exact Q.supersede q hpc rfl
  | ready bb cur =>
    by_cases hc : (Helm.Conc.revs l).contains (bb + 1) = true
    · have hc' : bb + 1 ∈ Helm.Conc.revs l := by simpa using hc
      have : stepProc p l = ({ p with pc := .done false }, l) := by unfold stepProc; rw [hpc]; simp [hc']
      rw [this]
      apply Q.quietStep q (by unfold inflight; rw [hpc]) (by unfold inflight; rfl)
      · intro b0 hb; unfold holds at hb; simp at hb
      · unfold stageOk; trivial
    · have hfree : (bb + 1) ∉ Helm.Ledger.revs l := by
        intro h; exact hc ((contains_iff_mem l (bb + 1)).mpr h)
      have hc' : ¬ (bb + 1 ∈ Helm.Conc.revs l) := by simpa using hc
      cases hk : p.kind with
      | install =>
        have : stepProc p l = ({ p with pc := .created (bb + 1) cur, made := some (bb + 1) },
            l ++ [⟨bb + 1, .pendingInstall, p.payload⟩]) := by
          unfold stepProc; rw [hpc]; simp [hc', hk]
        rw [this]
        exact Q.create q hpc hfree rfl rfl (by decide)
      | upgrade =>
        have : stepProc p l = ({ p with pc := .created (bb + 1) cur, made := some (bb + 1) },
            l ++ [⟨bb + 1, .pendingUpgrade, p.payload⟩]) := by
          unfold stepProc; rw [hpc]; simp [hc', hk]
        rw [this]
        exact Q.create q hpc hfree rfl rfl (by decide)
  | read bb =>
    have : stepProc p l = ({ p with pc := .ready bb (some (((deployed? l).map (·.rev)).getD bb)) }, l) := by
      unfold stepProc; rw [hpc]
    rw [this]
    have hhp : holds p = some bb := by unfold holds; rw [hpc]
    obtain ⟨hb1, hb2⟩ := q.holdsB p hpm bb hhp
    apply Q.quietStep q (by unfold inflight; rw [hpc]) (by unfold inflight; rfl)
    · intro b0 hb
      unfold holds at hb; simp at hb; subst hb
      refine ⟨hb1, hb2, ?_⟩
      intro x hx r hr
      exact (q.infl x (others_mem hx) r hr).2.2 p hpm bb hhp
    · unfold stageOk
      simp only
      intro hmax hall
      have hallold : ∀ x ∈ a ++ p :: b, inflight x = none := by
        intro x hx
        rcases mem_replace.mp hx with h | h | h
        · exact hall x (mem_replace.mpr (Or.inl h))
        · subst h; unfold inflight; rw [hpc]
        · exact hall x (mem_replace.mpr (Or.inr (Or.inr h)))
      have hcount := q.quiet hallold
      cases hd : deployed? l with
      | none =>
        simp only [Option.map_none, Option.getD_none]
        exact ⟨Nat.le_refl _, fun x hx hdx => absurd hdx (deployed?_none hd x hx)⟩
      | some d =>
        simp only [Option.map_some, Option.getD_some]
        obtain ⟨hdm, hdd⟩ := deployed?_some hd
        refine ⟨by have := rev_le_maxRev l d hdm; omega, ?_⟩
        intro x hx hdx
        rw [deployed_unique hcount hx hdm hdx hdd]
  | start =>
    cases hk : p.kind with
    | install =>
      by_cases he : l.isEmpty = true
      · have : stepProc p l = ({ p with pc := .ready 0 none }, l) := by unfold stepProc; rw [hpc]; simp [hk, he]
        rw [this]
        have hl : l = [] := by simpa using he
        apply Q.quietStep q (by unfold inflight; rw [hpc]) (by unfold inflight; rfl)
        · intro b0 hb
          unfold holds at hb; simp at hb; subst hb
          have := q.m0le
          rw [hl] at this ⊢
          refine ⟨by simpa [maxRev_nil] using this, by simp [maxRev_nil], ?_⟩
          intro x hx r hr
          obtain ⟨_, ⟨rec, hrec, _, _⟩, _⟩ := q.infl x (others_mem hx) r hr
          rw [hl] at hrec; cases hrec
        · unfold stageOk; simp
      · have : stepProc p l = ({ p with pc := .done false }, l) := by unfold stepProc; rw [hpc]; simp [hk, he]
        rw [this]
        apply Q.quietStep q (by unfold inflight; rw [hpc]) (by unfold inflight; rfl)
        · intro b0 hb; unfold holds at hb; simp at hb
        · unfold stageOk; trivial
    | upgrade =>
      cases hl : last? l with
      | none =>
        have : stepProc p l = ({ p with pc := .done false }, l) := by unfold stepProc; rw [hpc]; simp [hk, hl]
        rw [this]
        apply Q.quietStep q (by unfold inflight; rw [hpc]) (by unfold inflight; rfl)
        · intro b0 hb; unfold holds at hb; simp at hb
        · unfold stageOk; trivial
      | some r =>
        by_cases hpd : r.status.isPending = true
        · have : stepProc p l = ({ p with pc := .done false }, l) := by
            unfold stepProc; rw [hpc]; simp [hk, hl, hpd]
          rw [this]
          apply Q.quietStep q (by unfold inflight; rw [hpc]) (by unfold inflight; rfl)
          · intro b0 hb; unfold holds at hb; simp at hb
          · unfold stageOk; trivial
        · have hnp : r.status.isPending = false := by simpa using hpd
          have hquiet := q.nobody_inflight hl hnp
          obtain ⟨hrm, hrr⟩ := last?_spec hl
          by_cases hdp : r.status = .deployed
          · have : stepProc p l = ({ p with pc := .ready r.rev (some r.rev) }, l) := by
              unfold stepProc; rw [hpc]; simp [hk, hl, hdp, Status.isPending]
            rw [this]
            apply Q.quietStep q (by unfold inflight; rw [hpc]) (by unfold inflight; rfl)
            · intro b0 hb
              unfold holds at hb; simp at hb; subst hb
              refine ⟨by rw [hrr]; exact q.m0le, by omega, ?_⟩
              intro x hx rx hrx
              rw [hquiet x (others_mem hx)] at hrx; cases hrx
            · unfold stageOk
              simp only
              intro _ _
              refine ⟨Nat.le_refl _, ?_⟩
              intro x hx hdx
              rw [deployed_unique (q.quiet hquiet) hx hrm hdx hdp]
          · have : stepProc p l = ({ p with pc := .read r.rev }, l) := by
              unfold stepProc; rw [hpc]; simp [hk, hl, hnp, hdp]
            rw [this]
            apply Q.quietStep q (by unfold inflight; rw [hpc]) (by unfold inflight; rfl)
            · intro b0 hb
              unfold holds at hb; simp at hb; subst hb
              refine ⟨by rw [hrr]; exact q.m0le, by omega, ?_⟩
              intro x hx rx hrx
              rw [hquiet x (others_mem hx)] at hrx; cases hrx
            · unfold stageOk; trivial

end Helm.Conc

namespace Helm.Conc
open Helm.Ledger

theorem step_Q {m0 : Nat} (w : World) (i : Nat) (q : Q m0 w.ledger w.procs) :
    Q m0 (step w i).ledger (step w i).procs := by
  unfold step
  cases hp : w.procs[i]? with
  | none => exact q
  | some p =>
    simp only
    obtain ⟨a, b, hab, hset⟩ := split_at w.procs i p (stepProc p w.ledger).1 hp
    rw [hset]
    rw [hab] at q
    exact stepProc_Q q

theorem run_Q {m0 : Nat} (w : World) (schedule : List Nat) (q : Q m0 w.ledger w.procs) :
    Q m0 (run w schedule).ledger (run w schedule).procs := by
  induction schedule generalizing w with
  | nil => exact q
  | cons i rest ih => exact ih (step w i) (step_Q w i q)

/-- a well-formed initial history: unique revisions numbered from 1, at most one deployed,
nothing pending -/
structure WF0 (l : Ledger) : Prop where
  nodup : (Helm.Ledger.revs l).Nodup
  pos : ∀ x ∈ l, 1 ≤ x.rev
  noPending : ∀ x ∈ l, x.status.isPending = false
  oneDeployed : countDeployed l ≤ 1

theorem init_Q (l : Ledger) (ps : List Proc) (hl : WF0 l)
    (hf : ∀ p ∈ ps, p.pc = .start) : Q (maxRev l) l ps where
  nodup := hl.nodup
  pos := hl.pos
  m0le := Nat.le_refl _
  contig := by intro r h1 h2; omega
  holdsB := by
    intro p hp b hb
    unfold holds at hb; rw [hf p hp] at hb; cases hb
  excl := by
    have : ∀ p ∈ ps, inflight p = none := by
      intro p hp; unfold inflight; rw [hf p hp]
    clear hf
    induction ps with
    | nil => exact List.Pairwise.nil
    | cons a t ih =>
      refine List.pairwise_cons.mpr ⟨fun y _ => Or.inl (this a List.mem_cons_self), ?_⟩
      exact ih (fun p hp => this p (List.mem_cons_of_mem _ hp))
  infl := by
    intro p hp r hr
    unfold inflight at hr; rw [hf p hp] at hr; cases hr
  pend := by
    intro rec hrec hp
    rw [hl.noPending rec hrec] at hp; cases hp
  quiet := fun _ => hl.oneDeployed
  stage := by
    intro p hp
    unfold stageOk; rw [hf p hp]; trivial

/-- For ANY number of concurrent installs/upgrades, ANY schedule and ANY well-formed initial
history: once every operation has returned, the history has unique revisions, at most one
deployed revision and no pending revision. -/
theorem quiescence_wellformed (l : Ledger) (ps : List Proc) (schedule : List Nat) (hl : WF0 l)
    (hf : ∀ p ∈ ps, p.pc = .start)
    (hdone : ∀ p ∈ (run ⟨l, ps⟩ schedule).procs, p.isDone = true) :
    (Helm.Ledger.revs (run ⟨l, ps⟩ schedule).ledger).Nodup ∧
    countDeployed (run ⟨l, ps⟩ schedule).ledger ≤ 1 ∧
    ∀ rec ∈ (run ⟨l, ps⟩ schedule).ledger, rec.status.isPending = false :=
  quiescent_wellformed (run_Q ⟨l, ps⟩ schedule (init_Q l ps hl hf)) hdone

/-- ... and at every moment, not only at quiescence: at most one operation is between its
Create and its final Update, and whenever none is, the history is well-formed. -/
theorem at_most_one_in_flight (l : Ledger) (ps : List Proc) (schedule : List Nat) (hl : WF0 l)
    (hf : ∀ p ∈ ps, p.pc = .start) :
    (run ⟨l, ps⟩ schedule).procs.Pairwise (fun p q => inflight p = none ∨ inflight q = none) :=
  (run_Q ⟨l, ps⟩ schedule (init_Q l ps hl hf)).excl

end Helm.Conc
