import Helm.Model.ArchivePath
namespace Helm.ArchivePath

/-! ### split / join -/

theorem splitOn_ne_nil (c : Char) (s : Str) : splitOn c s ≠ [] := by
  induction s with
  | nil => simp [splitOn]
  | cons x r ih =>
    simp only [splitOn]
    split
    · simp
    · split <;> simp

theorem splitOn_no_sep (c : Char) (s : Str) (hs : c ∉ s) : splitOn c s = [s] := by
  induction s with
  | nil => rfl
  | cons x r ih =>
    simp only [List.mem_cons, not_or] at hs
    simp only [splitOn]
    have hx : ¬ x = c := fun h => hs.1 h.symm
    simp [hx, ih hs.2]

theorem splitOn_append_sep (c : Char) (p rest : Str) (hp : c ∉ p) :
    splitOn c (p ++ c :: rest) = p :: splitOn c rest := by
  induction p with
  | nil => simp [splitOn]
  | cons x r ih =>
    simp only [List.mem_cons, not_or] at hp
    have hx : ¬ x = c := fun h => hp.1 h.symm
    simp only [List.cons_append, splitOn, hx, if_false, ih hp.2]

/-- components produced by a split do not contain the separator -/
theorem splitOn_mem_no_sep (c : Char) (s : Str) : ∀ x ∈ splitOn c s, c ∉ x := by
  induction s with
  | nil => intro x hx; simp [splitOn] at hx; subst hx; simp
  | cons y r ih =>
    intro x hx
    simp only [splitOn] at hx
    split at hx
    · rcases List.mem_cons.mp hx with rfl | h
      · simp
      · exact ih x h
    · rename_i hyc
      split at hx
      · rename_i heq; exact absurd heq (splitOn_ne_nil c r)
      · rename_i p ps heq
        rcases List.mem_cons.mp hx with rfl | h
        · have hp := ih p (by rw [heq]; exact List.mem_cons_self)
          simp only [List.mem_cons, not_or]
          exact ⟨fun h => hyc h.symm, hp⟩
        · exact ih x (by rw [heq]; exact List.mem_cons_of_mem _ h)

theorem split_join (c : Char) (l : List Str) (hl : l ≠ []) (hno : ∀ x ∈ l, c ∉ x) :
    splitOn c (joinWith c l) = l := by
  induction l with
  | nil => exact absurd rfl hl
  | cons p ps ih =>
    cases ps with
    | nil => simp only [joinWith]; exact splitOn_no_sep c p (hno p List.mem_cons_self)
    | cons q qs =>
      simp only [joinWith]
      rw [splitOn_append_sep c p _ (hno p List.mem_cons_self)]
      rw [ih (by simp) (fun x hx => hno x (List.mem_cons_of_mem _ hx))]

/-! ### path.Clean on a relative path -/

/-- an ordinary path component -/
def Normal (c : Str) : Prop := c ≠ [] ∧ c ≠ ['.'] ∧ c ≠ dotdot ∧ '/' ∉ c

/-- shape of the component stack (top first): ordinary components on top of leading `..`s -/
def Stk (stack : List Str) : Prop :=
  ∃ ns ds, stack = ns ++ ds ∧ (∀ x ∈ ns, Normal x) ∧ (∀ d ∈ ds, d = dotdot)

theorem cleanStep_stk (stack : List Str) (c : Str) (hc : '/' ∉ c) (h : Stk stack) :
    Stk (cleanStep false stack c) := by
  obtain ⟨ns, ds, rfl, hns, hds⟩ := h
  unfold cleanStep
  by_cases h1 : (c = [] || c = ['.']) = true
  · simp only [h1, if_true]; exact ⟨ns, ds, rfl, hns, hds⟩
  · simp only [h1, Bool.false_eq_true, if_false]
    simp only [Bool.or_eq_true, decide_eq_true_eq, not_or] at h1
    by_cases h2 : c = dotdot
    · simp only [h2, if_true]
      cases ns with
      | nil =>
        cases ds with
        | nil => exact ⟨[], [dotdot], rfl, by simp, by simp⟩
        | cons d ds' =>
          have hd : d = dotdot := hds d List.mem_cons_self
          simp only [List.nil_append, hd, if_true]
          exact ⟨[], dotdot :: dotdot :: ds', rfl, by simp, by
            intro x hx
            rcases List.mem_cons.mp hx with rfl | hx
            · rfl
            · rcases List.mem_cons.mp hx with rfl | hx
              · rfl
              · exact hds x (List.mem_cons_of_mem _ hx)⟩
      | cons n ns' =>
        have hn : n ≠ dotdot := (hns n List.mem_cons_self).2.2.1
        simp only [List.cons_append, hn, if_false]
        exact ⟨ns', ds, rfl, fun x hx => hns x (List.mem_cons_of_mem _ hx), hds⟩
    · simp only [h2, if_false]
      refine ⟨c :: ns, ds, rfl, ?_, hds⟩
      intro x hx
      rcases List.mem_cons.mp hx with rfl | hx
      · exact ⟨h1.1, h1.2, h2, hc⟩
      · exact hns x hx

theorem foldl_cleanStep_stk (comps : List Str) (hc : ∀ c ∈ comps, '/' ∉ c) :
    ∀ stack, Stk stack → Stk (comps.foldl (cleanStep false) stack) := by
  induction comps with
  | nil => intro s h; exact h
  | cons c rest ih =>
    intro s h
    simp only [List.foldl_cons]
    exact ih (fun x hx => hc x (List.mem_cons_of_mem _ hx)) _
      (cleanStep_stk s c (hc c List.mem_cons_self) h)

/-- `path.Clean` of a relative path: leading `..`s, then ordinary components. -/
theorem cleanComps_shape (s : Str) :
    ∃ ds ns, cleanComps false (splitOn '/' s) = ds ++ ns ∧ (∀ d ∈ ds, d = dotdot) ∧ (∀ x ∈ ns, Normal x) := by
  obtain ⟨ns, ds, h, hns, hds⟩ := foldl_cleanStep_stk (splitOn '/' s) (splitOn_mem_no_sep '/' s) []
    ⟨[], [], rfl, by simp, by simp⟩
  refine ⟨ds.reverse, ns.reverse, ?_, ?_, ?_⟩
  · simp [cleanComps, h]
  · intro d hd; exact hds d (List.mem_reverse.mp hd)
  · intro x hx; exact hns x (List.mem_reverse.mp hx)

theorem joinWith_cons_prefix (c : Char) (p : Str) (ps : List Str) : p.isPrefixOf (joinWith c (p :: ps)) = true := by
  cases ps with
  | nil => simp [joinWith]
  | cons q qs => simp [joinWith]

end Helm.ArchivePath

namespace Helm.ArchivePath

theorem pathClean_rel (m : Str) (hm : isAbs m = false) :
    pathClean m = ['.'] ∨ ∃ comps, comps ≠ [] ∧ cleanComps false (splitOn '/' m) = comps ∧
      pathClean m = joinWith '/' comps := by
  cases m with
  | nil => left; rfl
  | cons x r =>
    have hx : x ≠ '/' := by
      intro h; subst h; simp [isAbs] at hm
    unfold pathClean
    split
    · rename_i h; cases h
    · rename_i h; cases h; exact absurd rfl hx
    · split
      · left; rfl
      · rename_i comps hne
        right
        exact ⟨_, by intro h; exact hne h, rfl, rfl⟩

/-- A clean relative path: non-empty, not rooted, every `/`-separated component is an ordinary
name (not empty, not `.`, not `..`), no drive prefix. -/
def SafeRel (n : Str) : Prop :=
  n ≠ [] ∧ n.head? ≠ some '/' ∧ (∀ c ∈ splitOn '/' n, c ≠ [] ∧ c ≠ ['.'] ∧ c ≠ dotdot) ∧
  drivePrefix n = false

theorem joinWith_ne_nil (c : Char) (p : Str) (ps : List Str) (hp : p ≠ []) : joinWith c (p :: ps) ≠ [] := by
  cases ps <;> simp [joinWith, hp]

theorem joinWith_head (c : Char) (p : Str) (ps : List Str) (hp : p ≠ []) :
    (joinWith c (p :: ps)).head? = p.head? := by
  cases p with
  | nil => exact absurd rfl hp
  | cons x r => cases ps <;> simp [joinWith]

theorem normName_safe (s n : Str) (h : normName s = .ok n) : SafeRel n := by
  unfold normName at h
  simp only at h
  generalize hd : (if s.contains '\\' = true then '\\' else '/') = d at h
  generalize hM : joinWith '/' (splitOn d s).tail = M at h
  by_cases habs : isAbs M = true
  · simp [habs] at h
  · simp only [habs, Bool.false_eq_true, if_false] at h
    by_cases hdot : pathClean M = ['.']
    · simp [hdot] at h
    · simp only [hdot, if_false] at h
      by_cases hpre : dotdot.isPrefixOf (pathClean M) = true
      · simp [hpre] at h
      · simp only [hpre, Bool.false_eq_true, if_false] at h
        by_cases hdrive : drivePrefix (pathClean M) = true
        · simp [hdrive] at h
        · simp only [hdrive, Bool.false_eq_true, if_false] at h
          by_cases hcy : (splitOn d s).head? = some "Chart.yaml".toList
          · simp [hcy] at h
          · simp only [hcy, if_false, Except.ok.injEq] at h
            subst h
            have habs' : isAbs M = false := by simpa using habs
            rcases pathClean_rel _ habs' with hc | ⟨comps, hne, hcomps, hclean⟩
            · exact absurd hc hdot
            · obtain ⟨ds, ns, hshape, hds, hns⟩ := cleanComps_shape M
              rw [hcomps] at hshape
              -- no leading `..`: otherwise the cleaned name would start with ".."
              have hdsnil : ds = [] := by
                cases ds with
                | nil => rfl
                | cons d' ds' =>
                  exfalso
                  apply hpre
                  rw [hclean, hshape]
                  have hd' : d' = dotdot := hds d' List.mem_cons_self
                  subst hd'
                  exact joinWith_cons_prefix '/' dotdot _
              subst hdsnil
              simp only [List.nil_append] at hshape
              subst hshape
              rw [hclean]
              cases comps with
              | nil => exact absurd rfl hne
              | cons p ps =>
                have hp := hns p List.mem_cons_self
                refine ⟨joinWith_ne_nil '/' p ps hp.1, ?_, ?_, ?_⟩
                · rw [joinWith_head '/' p ps hp.1]
                  cases p with
                  | nil => exact absurd rfl hp.1
                  | cons x r =>
                    simp only [List.head?_cons, ne_eq, Option.some.injEq]
                    intro hx; subst hx
                    exact hp.2.2.2 List.mem_cons_self
                · rw [split_join '/' (p :: ps) (by simp) (fun x hx => (hns x hx).2.2.2)]
                  intro c hc
                  exact ⟨(hns c hc).1, (hns c hc).2.1, (hns c hc).2.2.1⟩
                · rw [← hclean]; simpa using hdrive

end Helm.ArchivePath

namespace Helm.ArchivePath

theorem sizeLoop_accepted (maxFile : Nat) (sizes : List Nat) :
    ∀ (rem read r : Nat), sizeLoop maxFile sizes rem read = .accepted r →
      (∀ s ∈ sizes, s ≤ maxFile) ∧ r = read + sizes.sum ∧ (sizes ≠ [] → sizes.sum < rem) := by
  induction sizes with
  | nil => intro rem read r h; simp [sizeLoop] at h; simp [h]
  | cons s rest ih =>
    intro rem read r h
    rw [sizeLoop] at h
    by_cases h1 : s > rem
    · simp [h1] at h
    · simp only [h1, if_false] at h
      by_cases h2 : s > maxFile
      · simp [h2] at h
      · simp only [h2, if_false] at h
        have hmin : min s rem = s := by omega
        simp only [hmin, Nat.lt_irrefl, decide_false, Bool.false_or] at h
        by_cases h3 : rem - s = 0
        · simp [h3] at h
        · simp only [h3, decide_false, Bool.false_eq_true, if_false] at h
          obtain ⟨ha, hb, hc⟩ := ih _ _ _ h
          refine ⟨?_, ?_, ?_⟩
          · intro x hx
            rcases List.mem_cons.mp hx with rfl | hx
            · omega
            · exact ha x hx
          · simp only [List.sum_cons]; omega
          · intro _
            simp only [List.sum_cons]
            cases rest with
            | nil => simp; omega
            | cons y ys => have := hc (by simp); omega

/-- Whatever the outcome, the loop never copies more than `remaining` bytes in total. -/
theorem sizeLoop_read_bounded (maxFile : Nat) (sizes : List Nat) :
    ∀ (rem read : Nat), match sizeLoop maxFile sizes rem read with
      | .accepted r => r ≤ read + rem
      | .rejected r => r ≤ read + rem := by
  induction sizes with
  | nil => intro rem read; simp [sizeLoop]
  | cons s rest ih =>
    intro rem read
    rw [sizeLoop]
    by_cases h1 : s > rem
    · simp [h1]
    · simp only [h1, if_false]
      by_cases h2 : s > maxFile
      · simp [h2]
      · simp only [h2, if_false]
        have hmin : min s rem = s := by omega
        simp only [hmin, Nat.lt_irrefl, decide_false, Bool.false_or]
        by_cases h3 : rem - s = 0
        · simp [h3]; omega
        · simp only [h3, decide_false, Bool.false_eq_true, if_false]
          have := ih (rem - s) (read + s)
          cases heq : sizeLoop maxFile rest (rem - s) (read + s) with
          | accepted r => rw [heq] at this; simp only at this ⊢; omega
          | rejected r => rw [heq] at this; simp only at this ⊢; omega

theorem cleanJoinLex_safe (dest d : Str) (h : cleanJoinLex dest = .ok d) :
    ':' ∉ d ∧ '\\' ∉ d ∧ dotdot ∉ splitOn '/' d ∧ d.head? ≠ some '/' := by
  unfold cleanJoinLex at h
  simp only [List.contains_iff_mem] at h
  by_cases h1 : ':' ∈ dest
  · simp [h1] at h
  · simp only [h1, if_false] at h
    by_cases h2 : dotdot ∈ splitOn '/' (dest.map fun c => if c = '\\' then '/' else c)
    · simp [h2] at h
    · simp only [h2, if_false] at h
      by_cases h3 : isAbs (dest.map fun c => if c = '\\' then '/' else c) = true
      · simp [h3] at h
      · simp only [h3, Bool.false_eq_true, if_false, Except.ok.injEq] at h
        subst h
        refine ⟨?_, ?_, h2, ?_⟩
        · intro hm
          simp only [List.mem_map] at hm
          obtain ⟨c, hc, hcc⟩ := hm
          by_cases hb : c = '\\'
          · simp [hb] at hcc
          · simp only [hb, if_false] at hcc
            subst hcc
            exact h1 hc
        · intro hm
          simp only [List.mem_map] at hm
          obtain ⟨c, _, hcc⟩ := hm
          by_cases hb : c = '\\'
          · simp [hb] at hcc
          · simp only [hb, if_false] at hcc
        · simpa [isAbs] using h3

end Helm.ArchivePath
