/-
A fault-free rollback on any history with unique revisions (lemmas for C01's "rollback: a new
revision carrying the chart, values and manifest of the target revision").
-/
import Helm.Lemmas.LedgerSuccess
namespace Helm.Ledger

/-- every deployed record marked superseded -/
def supersedeDeployed (l : Ledger) : Ledger :=
  l.map fun x => if x.status = .deployed then { x with status := .superseded } else x

/-- mark the records whose revision is in `rs` superseded -/
def supersedeRevs (rs : List Nat) (l : Ledger) : Ledger :=
  l.map fun x => if rs.contains x.rev then { x with status := .superseded } else x

theorem supersedeRevs_nil (l : Ledger) : supersedeRevs [] l = l := by
  unfold supersedeRevs; simp

theorem revs_supersedeRevs (rs : List Nat) (l : Ledger) : revs (supersedeRevs rs l) = revs l := by
  unfold revs supersedeRevs
  rw [List.map_map]; apply List.map_congr_left; intro x _; simp only [Function.comp]; split <;> rfl

/-- the loop of performRollback that supersedes the deployed revisions, healthy storage -/
theorem supersedeAll_ok (rs : List Nat) : ∀ (s : St), s.decs = [] → (revs s.ledger).Nodup →
    (∀ r ∈ rs, r ∈ revs s.ledger) →
    (rollbackOn.supersedeAll rs s).1 ≠ .crash ∧
    (rollbackOn.supersedeAll rs s).2.decs = [] ∧
    (rollbackOn.supersedeAll rs s).2.ledger = supersedeRevs rs s.ledger := by
  induction rs with
  | nil =>
    intro s hd _ _
    simp [rollbackOn.supersedeAll, hd, supersedeRevs_nil]
  | cons r rest ih =>
    intro s hd hnd hmem
    have hr : r ∈ revs s.ledger := hmem r List.mem_cons_self
    have hsome : (get? s.ledger r).isSome = true := (get?_isSome_iff _ _).mpr hr
    cases hg : get? s.ledger r with
    | none => rw [hg] at hsome; cases hsome
    | some x =>
      obtain ⟨hxm, hxr⟩ := get?_mem hg
      have hu := stUpdate_ok s { x with status := .superseded } hd (by simpa [hxr] using hr)
      rw [rollbackOn.supersedeAll]
      simp only [hg, hu]
      let s' : St := { s with ledger := s.ledger.map (fun y => if y.rev = x.rev then { x with status := .superseded } else y),
                               writes := s.writes ++ [s!"update {x.rev} {repr Status.superseded}"] }
      have hd' : s'.decs = [] := hd
      have hrevs' : revs s'.ledger = revs s.ledger := by
        simp only [s', revs, List.map_map]; apply List.map_congr_left; intro y _; simp only [Function.comp]; split
        · rename_i h; simp [h]
        · rfl
      obtain ⟨i1, i2, i3⟩ := ih s' hd' (by rw [hrevs']; exact hnd)
        (fun r' hr' => by rw [hrevs']; exact hmem r' (List.mem_cons_of_mem _ hr'))
      refine ⟨i1, i2, ?_⟩
      rw [i3]
      unfold supersedeRevs
      simp only [s', List.map_map]
      apply List.map_congr_left
      intro y hy
      simp only [Function.comp]
      by_cases hyx : y.rev = x.rev
      · have : y = x := eq_of_rev hnd hy hxm hyx
        subst this
        simp [hxr]
      · have hyr : y.rev ≠ r := by rw [← hxr]; exact hyx
        simp [hyx, hyr]

/-- A fault-free rollback (no history limit) on ANY history with unique revisions: it reports
success; every revision that was marked deployed is marked superseded; a new revision, one above
the highest, carries the content of the target revision and is marked deployed; nothing else
changes. -/
theorem rollback_success (fl : RollbackFlags) (l : Ledger) (cur prevRec : Rec)
    (hdry : fl.dryRun = false) (hmax : fl.maxHistory = 0) (hnd : (revs l).Nodup)
    (hlast : last? l = some cur)
    (hprev : get? l (if fl.version = 0 then cur.rev - 1 else fl.version) = some prevRec) :
    (rollback fl {} l).2 = .success ∧
    (rollback fl {} l).1.ledger = supersedeDeployed l ++ [⟨cur.rev + 1, .deployed, prevRec.payload⟩] := by
  obtain ⟨hcm, hcr⟩ := last?_spec hlast
  let n := cur.rev + 1
  let tgt : Rec := ⟨n, .pendingRollback, prevRec.payload⟩
  let nh := if fl.disableHooks then 0 else fl.nHooks
  let s0 : St := { ledger := l, decs := [] }
  have hfresh : get? l tgt.rev = none :=
    get?_none_of_lt l n (fun x hx => by have := rev_le_maxRev l x hx; omega)
  let s1 : St := (stCreate s0 tgt).2
  have hs1 : stCreate s0 tgt = (.ok, s1) := by simp [s1, stCreate, nextDec, s0, hfresh]
  have hs1l : s1.ledger = l ++ [tgt] := by simp [s1, stCreate, nextDec, s0, hfresh]
  have hs1d : s1.decs = [] := by simp [s1, stCreate, nextDec, s0, hfresh]
  have huniq : ∀ (s : St), s.ledger = l ++ [tgt] → ∀ x ∈ s.ledger, x.rev = tgt.rev → x = tgt := by
    intro s hs x hx hr
    rw [hs] at hx
    rcases List.mem_append.mp hx with h | h
    · have := rev_le_maxRev l x h; simp [tgt, n] at hr; omega
    · simpa using h
  have hpre := hookPhase_same tgt nh .ok s1 hs1d (by simp [hs1l]) (huniq s1 hs1l)
  let s2 : St := (hookPhase s1 tgt nh .ok).2
  have hs2 : hookPhase s1 tgt nh .ok = (.ok, s2) := by
    apply Prod.ext
    · simp only [hpre.1]; split <;> rfl
    · rfl
  have hs2l : s2.ledger = l ++ [tgt] := by rw [← hs1l]; exact hpre.2.1
  have hs2d : s2.decs = [] := hpre.2.2
  have hpost := hookPhase_same tgt nh .ok s2 hs2d (by simp [hs2l]) (huniq s2 hs2l)
  let s3 : St := (hookPhase s2 tgt nh .ok).2
  have hs3 : hookPhase s2 tgt nh .ok = (.ok, s3) := by
    apply Prod.ext
    · simp only [hpost.1]; split <;> rfl
    · rfl
  have hs3l : s3.ledger = l ++ [tgt] := by rw [← hs2l]; exact hpost.2.1
  have hs3d : s3.decs = [] := hpost.2.2
  -- the deployed revisions are superseded
  let dr := (s3.ledger.filter (·.status = .deployed)).map (·.rev)
  have hnd3 : (revs s3.ledger).Nodup := by
    rw [hs3l]
    simp only [revs, List.map_append, List.map_cons, List.map_nil]
    refine List.nodup_append.mpr ⟨hnd, by simp, ?_⟩
    intro a ha b hb
    simp only [List.mem_singleton] at hb
    subst hb
    obtain ⟨x, hx, hxa⟩ := List.mem_map.mp ha
    have := rev_le_maxRev l x hx
    simp [tgt, n]; omega
  have hdrsub : ∀ r ∈ dr, r ∈ revs s3.ledger := by
    intro r hr
    obtain ⟨x, hx, hxr⟩ := List.mem_map.mp hr
    exact List.mem_map.mpr ⟨x, (List.mem_filter.mp hx).1, hxr⟩
  obtain ⟨hsa1, hsa2, hsa3⟩ := supersedeAll_ok dr s3 hs3d hnd3 hdrsub
  let s4 : St := (rollbackOn.supersedeAll dr s3).2
  have hs4l : s4.ledger = supersedeRevs dr (l ++ [tgt]) := by rw [← hs3l]; exact hsa3
  have hn4 : n ∈ revs s4.ledger := by
    rw [hs4l, revs_supersedeRevs]; simp [revs, tgt]
  have hu5 := stUpdate_ok s4 { tgt with status := .deployed } hsa2 hn4
  -- unfold the operation along these steps
  have hs1' : stCreate { ledger := l, decs := [] } ⟨cur.rev + 1, .pendingRollback, prevRec.payload⟩ = (.ok, s1) := hs1
  have hs2' : hookPhase s1 ⟨cur.rev + 1, .pendingRollback, prevRec.payload⟩ (if fl.disableHooks then 0 else fl.nHooks) .ok = (.ok, s2) := hs2
  have hs3' : hookPhase s2 ⟨cur.rev + 1, .pendingRollback, prevRec.payload⟩ (if fl.disableHooks then 0 else fl.nHooks) .ok = (.ok, s3) := hs3
  have hu5' : stUpdate s4 ⟨cur.rev + 1, .deployed, prevRec.payload⟩ = (.ok, (stUpdate s4 { tgt with status := .deployed }).2) := by
    have : stUpdate s4 { tgt with status := .deployed } = stUpdate s4 ⟨cur.rev + 1, .deployed, prevRec.payload⟩ := rfl
    rw [← this, hu5]
  have hres : rollback fl {} l = ((stUpdate s4 { tgt with status := .deployed }).2, .success) := by
    unfold rollback rollbackOn
    simp only [hlast, hprev, hdry, Bool.false_eq_true, if_false, storageCreate, hmax, Nat.lt_irrefl, hs1', hs2', hs3']
    cases hsa : rollbackOn.supersedeAll (List.map (fun x => x.rev) (List.filter (fun x => decide (x.status = Status.deployed)) s3.ledger)) s3 with
    | mk d s4' =>
      have hd : d ≠ .crash := by have := hsa1; simp only [dr] at this; rw [hsa] at this; exact this
      have hs4' : s4' = s4 := by simp only [s4, dr]; rw [hsa]
      subst hs4'
      cases d with
      | crash => exact absurd rfl hd
      | ok => simp only [hu5']
      | fail => simp only [hu5']
  rw [hres]
  refine ⟨rfl, ?_⟩
  rw [hu5]
  simp only [hs4l]
  unfold supersedeRevs supersedeDeployed
  simp only [List.map_append, List.map_map, List.map_cons, List.map_nil]
  -- membership of a revision of l in the deployed list = the record is deployed
  have hdr : ∀ x ∈ l, dr.contains x.rev = decide (x.status = .deployed) := by
    intro x hx
    rw [Bool.eq_iff_iff]
    simp only [List.contains_iff_mem, decide_eq_true_eq, dr, hs3l, List.filter_append, List.map_append, List.mem_append]
    constructor
    · rintro (h | h)
      · obtain ⟨y, hy, hyr⟩ := List.mem_map.mp h
        have hy' := List.mem_filter.mp hy
        have : y = x := eq_of_rev hnd hy'.1 hx hyr
        subst this; simpa using hy'.2
      · simp [tgt] at h
    · intro h
      exact Or.inl (List.mem_map.mpr ⟨x, List.mem_filter.mpr ⟨hx, by simp [h]⟩, rfl⟩)
  have hdrn : dr.contains n = false := by
    rw [Bool.eq_false_iff]
    intro h
    have hm : n ∈ dr := by simpa using h
    obtain ⟨y, hy, hyr⟩ := List.mem_map.mp hm
    have hy' := List.mem_filter.mp hy
    rw [hs3l] at hy'
    rcases List.mem_append.mp hy'.1 with h1 | h1
    · have := rev_le_maxRev l y h1; omega
    · simp at h1; subst h1; simp [tgt] at hy'
  congr 1
  · apply List.map_congr_left
    intro x hx
    have hxn : ¬ x.rev = tgt.rev := by have := rev_le_maxRev l x hx; simp [tgt, n]; omega
    simp only [Function.comp]
    rw [hdr x hx]
    by_cases hd : x.status = .deployed
    · simp [hd, hxn]
    · simp [hd, hxn]
  · have hnm : ¬ (cur.rev + 1 ∈ dr) := by
      intro h; rw [Bool.eq_false_iff] at hdrn; exact hdrn (by simpa using h)
    simp [Function.comp, hnm, tgt, n]

/-- The same from any state of the storage wrapper with no scripted decisions left (the nested
rollback of an atomic upgrade starts from the state the failed upgrade left).
A fault-free rollback (no history limit) on ANY history with unique revisions: it reports
success; every revision that was marked deployed is marked superseded; a new revision, one above
the highest, carries the content of the target revision and is marked deployed; nothing else
changes. -/
theorem rollbackOn_success (fl : RollbackFlags) (s0 : St) (l : Ledger) (hs0 : s0.ledger = l) (hd0 : s0.decs = [])
    (cur prevRec : Rec)
    (hdry : fl.dryRun = false) (hmax : fl.maxHistory = 0) (hnd : (revs l).Nodup)
    (hlast : last? l = some cur)
    (hprev : get? l (if fl.version = 0 then cur.rev - 1 else fl.version) = some prevRec) :
    (rollbackOn fl {} s0).2 = .success ∧
    (rollbackOn fl {} s0).1.ledger = supersedeDeployed l ++ [⟨cur.rev + 1, .deployed, prevRec.payload⟩] := by
  obtain ⟨hcm, hcr⟩ := last?_spec hlast
  let n := cur.rev + 1
  let tgt : Rec := ⟨n, .pendingRollback, prevRec.payload⟩
  let nh := if fl.disableHooks then 0 else fl.nHooks
  have hfresh : get? l tgt.rev = none :=
    get?_none_of_lt l n (fun x hx => by have := rev_le_maxRev l x hx; omega)
  let s1 : St := (stCreate s0 tgt).2
  have hs1 : stCreate s0 tgt = (.ok, s1) := by simp [s1, stCreate, nextDec, hd0, hs0, hfresh]
  have hs1l : s1.ledger = l ++ [tgt] := by simp [s1, stCreate, nextDec, hd0, hs0, hfresh]
  have hs1d : s1.decs = [] := by simp [s1, stCreate, nextDec, hd0, hs0, hfresh]
  have huniq : ∀ (s : St), s.ledger = l ++ [tgt] → ∀ x ∈ s.ledger, x.rev = tgt.rev → x = tgt := by
    intro s hs x hx hr
    rw [hs] at hx
    rcases List.mem_append.mp hx with h | h
    · have := rev_le_maxRev l x h; simp [tgt, n] at hr; omega
    · simpa using h
  have hpre := hookPhase_same tgt nh .ok s1 hs1d (by simp [hs1l]) (huniq s1 hs1l)
  let s2 : St := (hookPhase s1 tgt nh .ok).2
  have hs2 : hookPhase s1 tgt nh .ok = (.ok, s2) := by
    apply Prod.ext
    · simp only [hpre.1]; split <;> rfl
    · rfl
  have hs2l : s2.ledger = l ++ [tgt] := by rw [← hs1l]; exact hpre.2.1
  have hs2d : s2.decs = [] := hpre.2.2
  have hpost := hookPhase_same tgt nh .ok s2 hs2d (by simp [hs2l]) (huniq s2 hs2l)
  let s3 : St := (hookPhase s2 tgt nh .ok).2
  have hs3 : hookPhase s2 tgt nh .ok = (.ok, s3) := by
    apply Prod.ext
    · simp only [hpost.1]; split <;> rfl
    · rfl
  have hs3l : s3.ledger = l ++ [tgt] := by rw [← hs2l]; exact hpost.2.1
  have hs3d : s3.decs = [] := hpost.2.2
  -- the deployed revisions are superseded
  let dr := (s3.ledger.filter (·.status = .deployed)).map (·.rev)
  have hnd3 : (revs s3.ledger).Nodup := by
    rw [hs3l]
    simp only [revs, List.map_append, List.map_cons, List.map_nil]
    refine List.nodup_append.mpr ⟨hnd, by simp, ?_⟩
    intro a ha b hb
    simp only [List.mem_singleton] at hb
    subst hb
    obtain ⟨x, hx, hxa⟩ := List.mem_map.mp ha
    have := rev_le_maxRev l x hx
    simp [tgt, n]; omega
  have hdrsub : ∀ r ∈ dr, r ∈ revs s3.ledger := by
    intro r hr
    obtain ⟨x, hx, hxr⟩ := List.mem_map.mp hr
    exact List.mem_map.mpr ⟨x, (List.mem_filter.mp hx).1, hxr⟩
  obtain ⟨hsa1, hsa2, hsa3⟩ := supersedeAll_ok dr s3 hs3d hnd3 hdrsub
  let s4 : St := (rollbackOn.supersedeAll dr s3).2
  have hs4l : s4.ledger = supersedeRevs dr (l ++ [tgt]) := by rw [← hs3l]; exact hsa3
  have hn4 : n ∈ revs s4.ledger := by
    rw [hs4l, revs_supersedeRevs]; simp [revs, tgt]
  have hu5 := stUpdate_ok s4 { tgt with status := .deployed } hsa2 hn4
  -- unfold the operation along these steps
  have hs1' : stCreate s0 ⟨cur.rev + 1, .pendingRollback, prevRec.payload⟩ = (.ok, s1) := hs1
  have hs2' : hookPhase s1 ⟨cur.rev + 1, .pendingRollback, prevRec.payload⟩ (if fl.disableHooks then 0 else fl.nHooks) .ok = (.ok, s2) := hs2
  have hs3' : hookPhase s2 ⟨cur.rev + 1, .pendingRollback, prevRec.payload⟩ (if fl.disableHooks then 0 else fl.nHooks) .ok = (.ok, s3) := hs3
  have hu5' : stUpdate s4 ⟨cur.rev + 1, .deployed, prevRec.payload⟩ = (.ok, (stUpdate s4 { tgt with status := .deployed }).2) := by
    have : stUpdate s4 { tgt with status := .deployed } = stUpdate s4 ⟨cur.rev + 1, .deployed, prevRec.payload⟩ := rfl
    rw [← this, hu5]
  have hres : rollbackOn fl {} s0 = ((stUpdate s4 { tgt with status := .deployed }).2, .success) := by
    unfold rollbackOn
    simp only [hs0, hlast, hprev, hdry, Bool.false_eq_true, if_false, storageCreate, hmax, Nat.lt_irrefl, hs1', hs2', hs3']
    cases hsa : rollbackOn.supersedeAll (List.map (fun x => x.rev) (List.filter (fun x => decide (x.status = Status.deployed)) s3.ledger)) s3 with
    | mk d s4' =>
      have hd : d ≠ .crash := by have := hsa1; simp only [dr] at this; rw [hsa] at this; exact this
      have hs4' : s4' = s4 := by simp only [s4, dr]; rw [hsa]
      subst hs4'
      cases d with
      | crash => exact absurd rfl hd
      | ok => simp only [hu5']
      | fail => simp only [hu5']
  rw [hres]
  refine ⟨rfl, ?_⟩
  rw [hu5]
  simp only [hs4l]
  unfold supersedeRevs supersedeDeployed
  simp only [List.map_append, List.map_map, List.map_cons, List.map_nil]
  -- membership of a revision of l in the deployed list = the record is deployed
  have hdr : ∀ x ∈ l, dr.contains x.rev = decide (x.status = .deployed) := by
    intro x hx
    rw [Bool.eq_iff_iff]
    simp only [List.contains_iff_mem, decide_eq_true_eq, dr, hs3l, List.filter_append, List.map_append, List.mem_append]
    constructor
    · rintro (h | h)
      · obtain ⟨y, hy, hyr⟩ := List.mem_map.mp h
        have hy' := List.mem_filter.mp hy
        have : y = x := eq_of_rev hnd hy'.1 hx hyr
        subst this; simpa using hy'.2
      · simp [tgt] at h
    · intro h
      exact Or.inl (List.mem_map.mpr ⟨x, List.mem_filter.mpr ⟨hx, by simp [h]⟩, rfl⟩)
  have hdrn : dr.contains n = false := by
    rw [Bool.eq_false_iff]
    intro h
    have hm : n ∈ dr := by simpa using h
    obtain ⟨y, hy, hyr⟩ := List.mem_map.mp hm
    have hy' := List.mem_filter.mp hy
    rw [hs3l] at hy'
    rcases List.mem_append.mp hy'.1 with h1 | h1
    · have := rev_le_maxRev l y h1; omega
    · simp at h1; subst h1; simp [tgt] at hy'
  congr 1
  · apply List.map_congr_left
    intro x hx
    have hxn : ¬ x.rev = tgt.rev := by have := rev_le_maxRev l x hx; simp [tgt, n]; omega
    simp only [Function.comp]
    rw [hdr x hx]
    by_cases hd : x.status = .deployed
    · simp [hd, hxn]
    · simp [hd, hxn]
  · have hnm : ¬ (cur.rev + 1 ∈ dr) := by
      intro h; rw [Bool.eq_false_iff] at hdrn; exact hdrn (by simpa using h)
    simp [Function.comp, hnm, tgt, n]


end Helm.Ledger
