/-
A fault-free uninstall on any history with unique revisions (lemmas for C01's "uninstall
without keep-history: no revisions remain").
-/
import Helm.Lemmas.LedgerSuccess
namespace Helm.Ledger

theorem stDelete_ok (s : St) (rev : Nat) (hd : s.decs = []) (hmem : rev ∈ revs s.ledger) :
    stDelete s rev = (.ok, { s with ledger := s.ledger.filter (·.rev ≠ rev), writes := s.writes ++ [s!"delete {rev}"] }) := by
  have hsome : (get? s.ledger rev).isSome = true := (get?_isSome_iff _ _).mpr hmem
  simp [stDelete, nextDec, hd, hsome]

/-- `purgeReleases` with healthy storage removes every listed revision that is stored -/
theorem purge_ok (rs : List Nat) : ∀ (s : St), s.decs = [] → rs.Nodup → (∀ r ∈ rs, r ∈ revs s.ledger) →
    (purge rs s).1 = .ok ∧ (purge rs s).2.decs = [] ∧
    (purge rs s).2.ledger = s.ledger.filter (fun x => !rs.contains x.rev) := by
  induction rs with
  | nil =>
    intro s hd _ _
    refine ⟨by simp [purge], by simp [purge, hd], ?_⟩
    simp only [purge]
    exact (List.filter_eq_self.mpr (fun x _ => by simp)).symm
  | cons r rest ih =>
    intro s hd hnd hmem
    rw [List.nodup_cons] at hnd
    have hdel := stDelete_ok s r hd (hmem r List.mem_cons_self)
    rw [purge]
    simp only [hdel]
    let s' : St := { s with ledger := s.ledger.filter (·.rev ≠ r), writes := s.writes ++ [s!"delete {r}"] }
    have hmem' : ∀ r' ∈ rest, r' ∈ revs s'.ledger := by
      intro r' hr'
      obtain ⟨x, hx, hxr⟩ := List.mem_map.mp (hmem r' (List.mem_cons_of_mem _ hr'))
      refine List.mem_map.mpr ⟨x, List.mem_filter.mpr ⟨hx, ?_⟩, hxr⟩
      have : r' ≠ r := fun h => hnd.1 (h ▸ hr')
      simp [hxr, this]
    obtain ⟨i1, i2, i3⟩ := ih s' hd hnd.2 hmem'
    refine ⟨i1, i2, ?_⟩
    rw [i3]
    simp only [s', List.filter_filter]
    apply List.filter_congr
    intro x _
    by_cases h : x.rev = r <;> simp [h]

theorem mem_revsAsc (l : Ledger) (r : Nat) : r ∈ revsAsc l ↔ r ∈ revs l := by
  unfold revsAsc; rw [mem_sortAsc]; rfl

theorem insertAsc_nodup (x : Nat) (l : List Nat) (hx : x ∉ l) (hl : l.Nodup) : (insertAsc x l).Nodup := by
  induction l with
  | nil => simp [insertAsc]
  | cons y t ih =>
    unfold insertAsc
    rw [List.nodup_cons] at hl
    simp only [List.mem_cons, not_or] at hx
    split
    · exact List.nodup_cons.mpr ⟨by simp [hx.1, hx.2], List.nodup_cons.mpr hl⟩
    · refine List.nodup_cons.mpr ⟨?_, ih hx.2 hl.2⟩
      intro hm
      rcases (mem_insertAsc x y t).mp hm with h | h
      · exact hx.1 h.symm
      · exact hl.1 h

theorem sortAsc_nodup (l : List Nat) (h : l.Nodup) : (sortAsc l).Nodup := by
  induction l with
  | nil => simp [sortAsc]
  | cons x t ih =>
    rw [List.nodup_cons] at h
    unfold sortAsc
    exact insertAsc_nodup x _ (by rw [mem_sortAsc]; exact h.1) (ih h.2)

/-- hooks of a lifecycle event on a release whose stored record has the same revision: with
healthy storage the record is rewritten to the given one (if there is a hook), nothing else -/
theorem hookPhase_sets (r : Rec) (n : Nat) : ∀ (s : St), s.decs = [] → r.rev ∈ revs s.ledger → (revs s.ledger).Nodup →
    (hookPhase s r n .ok).1 = .ok ∧ (hookPhase s r n .ok).2.decs = [] ∧
    (hookPhase s r n .ok).2.ledger = (if n = 0 then s.ledger else s.ledger.map fun x => if x.rev = r.rev then r else x) := by
  induction n with
  | zero => intro s hd _ _; simp [hookPhase, hd]
  | succ k ih =>
    intro s hd hmem hnd
    have hu := stUpdate_ok s r hd hmem
    rw [hookPhase]
    simp only [hu]
    let s' : St := { s with ledger := s.ledger.map (fun x => if x.rev = r.rev then r else x),
                             writes := s.writes ++ [s!"update {r.rev} {repr r.status}"] }
    have hrevs' : revs s'.ledger = revs s.ledger := by
      simp only [s', revs, List.map_map]; apply List.map_congr_left; intro y _; simp only [Function.comp]; split
      · rename_i h; simp [h]
      · rfl
    by_cases hk : k = 0
    · subst hk; simp [hd]
    · simp only [hk, if_false]
      obtain ⟨i1, i2, i3⟩ := ih s' hd (by rw [hrevs']; exact hmem) (by rw [hrevs']; exact hnd)
      refine ⟨i1, i2, ?_⟩
      rw [i3]
      simp only [hk, if_false, Nat.succ_ne_zero, s', List.map_map]
      apply List.map_congr_left
      intro x _
      simp only [Function.comp]
      by_cases hx : x.rev = r.rev <;> simp [hx]

/-- A fault-free uninstall without keep-history of a release that is not already uninstalled:
success, and no revision remains. -/
theorem uninstall_success_purges (fl : UninstallFlags) (l : Ledger) (rel : Rec)
    (hdry : fl.dryRun = false) (hkeep : fl.keepHistory = false) (hnd : (revs l).Nodup)
    (hlast : last? l = some rel) (hnu : rel.status ≠ .uninstalled) :
    (uninstall fl {} l).2 = .success ∧ (uninstall fl {} l).1.ledger = [] := by
  obtain ⟨hrm, _⟩ := last?_spec hlast
  let nh := if fl.disableHooks then 0 else fl.nHooks
  let relU : Rec := { rel with status := .uninstalling }
  let s0 : St := { ledger := l, decs := [] }
  have hr0 : relU.rev ∈ revs s0.ledger := List.mem_map.mpr ⟨rel, hrm, rfl⟩
  obtain ⟨h1a, h1b, h1c⟩ := hookPhase_sets relU nh s0 rfl hr0 hnd
  let s1 : St := (hookPhase s0 relU nh .ok).2
  have hs1 : hookPhase s0 relU nh .ok = (.ok, s1) := Prod.ext h1a rfl
  have hrevs1 : revs s1.ledger = revs l := by
    show revs (hookPhase s0 relU nh .ok).2.ledger = revs l
    rw [h1c]; split
    · rfl
    · exact revs_update l relU
  have hu2 := stUpdate_ok s1 relU h1b (by rw [hrevs1]; exact hr0)
  let s2 : St := (stUpdate s1 relU).2
  have hs2 : stUpdate s1 relU = (.ok, s2) := Prod.ext (by rw [hu2]) rfl
  have hs1d : s1.decs = [] := h1b
  have hs2d : s2.decs = [] := by simp [s2, hu2, hs1d]
  have hrevs2 : revs s2.ledger = revs l := by
    have : s2.ledger = s1.ledger.map (fun x => if x.rev = relU.rev then relU else x) := by simp [s2, hu2]
    rw [this, revs_update, hrevs1]
  obtain ⟨h3a, h3b, h3c⟩ := hookPhase_sets relU nh s2 hs2d (by rw [hrevs2]; exact hr0) (by rw [hrevs2]; exact hnd)
  let s3 : St := (hookPhase s2 relU nh .ok).2
  have hs3 : hookPhase s2 relU nh .ok = (.ok, s3) := Prod.ext h3a rfl
  have hrevs3 : revs s3.ledger = revs l := by
    show revs (hookPhase s2 relU nh .ok).2.ledger = revs l
    rw [h3c]; split
    · exact hrevs2
    · rw [revs_update]; exact hrevs2
  -- purge everything
  have hpn : (revsAsc s3.ledger).Nodup := by
    unfold revsAsc; apply sortAsc_nodup; show (revs s3.ledger).Nodup; rw [hrevs3]; exact hnd
  obtain ⟨h4a, _, h4c⟩ := purge_ok (revsAsc s3.ledger) s3 h3b hpn (fun r hr => (mem_revsAsc _ r).mp hr)
  have hempty : (purge (revsAsc s3.ledger) s3).2.ledger = [] := by
    rw [h4c]
    apply List.filter_eq_nil_iff.mpr
    intro x hx
    have : x.rev ∈ revsAsc s3.ledger := (mem_revsAsc _ _).mpr (List.mem_map.mpr ⟨x, hx, rfl⟩)
    simp [this]
  have hs1' : hookPhase { ledger := l, decs := [] } { rel with status := .uninstalling } (if fl.disableHooks then 0 else fl.nHooks) .ok = (.ok, s1) := hs1
  have hs2' : stUpdate s1 { rel with status := .uninstalling } = (.ok, s2) := hs2
  have hs3' : hookPhase s2 { rel with status := .uninstalling } (if fl.disableHooks then 0 else fl.nHooks) .ok = (.ok, s3) := hs3
  have hres : uninstall fl {} l = ((purge (revsAsc s3.ledger) s3).2, .success) := by
    unfold uninstall uninstallOn
    simp only [hdry, hlast, hnu, hkeep, Bool.false_eq_true, if_false, hs1', hs2', hs3', Bool.not_false, if_true]
    cases hp : purge (revsAsc s3.ledger) s3 with
    | mk d s4 =>
      rw [hp] at h4a
      simp only at h4a
      subst h4a
      simp
  rw [hres]
  exact ⟨rfl, hempty⟩

/-- The same from any state of the storage wrapper with no scripted decisions left (the uninstall
that an atomic install runs on failure starts from the state the failure left).
A fault-free uninstall without keep-history of a release that is not already uninstalled:
success, and no revision remains. -/
theorem uninstallOn_success_purges (fl : UninstallFlags) (s0 : St) (l : Ledger) (hs0 : s0.ledger = l) (hd0 : s0.decs = [])
    (rel : Rec)
    (hdry : fl.dryRun = false) (hkeep : fl.keepHistory = false) (hnd : (revs l).Nodup)
    (hlast : last? l = some rel) (hnu : rel.status ≠ .uninstalled) :
    (uninstallOn fl {} s0).2 = .success ∧ (uninstallOn fl {} s0).1.ledger = [] := by
  obtain ⟨hrm, _⟩ := last?_spec hlast
  let nh := if fl.disableHooks then 0 else fl.nHooks
  let relU : Rec := { rel with status := .uninstalling }
  have hr0 : relU.rev ∈ revs s0.ledger := by rw [hs0]; exact List.mem_map.mpr ⟨rel, hrm, rfl⟩
  obtain ⟨h1a, h1b, h1c⟩ := hookPhase_sets relU nh s0 hd0 hr0 (by rw [hs0]; exact hnd)
  let s1 : St := (hookPhase s0 relU nh .ok).2
  have hs1 : hookPhase s0 relU nh .ok = (.ok, s1) := Prod.ext h1a rfl
  have hrevs1 : revs s1.ledger = revs l := by
    show revs (hookPhase s0 relU nh .ok).2.ledger = revs l
    rw [h1c]; split
    · rw [hs0]
    · rw [revs_update, hs0]
  have hr0l : relU.rev ∈ revs l := List.mem_map.mpr ⟨rel, hrm, rfl⟩
  have hu2 := stUpdate_ok s1 relU h1b (by rw [hrevs1]; exact hr0l)
  let s2 : St := (stUpdate s1 relU).2
  have hs2 : stUpdate s1 relU = (.ok, s2) := Prod.ext (by rw [hu2]) rfl
  have hs1d : s1.decs = [] := h1b
  have hs2d : s2.decs = [] := by simp [s2, hu2, hs1d]
  have hrevs2 : revs s2.ledger = revs l := by
    have : s2.ledger = s1.ledger.map (fun x => if x.rev = relU.rev then relU else x) := by simp [s2, hu2]
    rw [this, revs_update, hrevs1]
  obtain ⟨h3a, h3b, h3c⟩ := hookPhase_sets relU nh s2 hs2d (by rw [hrevs2]; exact hr0l) (by rw [hrevs2]; exact hnd)
  let s3 : St := (hookPhase s2 relU nh .ok).2
  have hs3 : hookPhase s2 relU nh .ok = (.ok, s3) := Prod.ext h3a rfl
  have hrevs3 : revs s3.ledger = revs l := by
    show revs (hookPhase s2 relU nh .ok).2.ledger = revs l
    rw [h3c]; split
    · exact hrevs2
    · rw [revs_update]; exact hrevs2
  -- purge everything
  have hpn : (revsAsc s3.ledger).Nodup := by
    unfold revsAsc; apply sortAsc_nodup; show (revs s3.ledger).Nodup; rw [hrevs3]; exact hnd
  obtain ⟨h4a, _, h4c⟩ := purge_ok (revsAsc s3.ledger) s3 h3b hpn (fun r hr => (mem_revsAsc _ r).mp hr)
  have hempty : (purge (revsAsc s3.ledger) s3).2.ledger = [] := by
    rw [h4c]
    apply List.filter_eq_nil_iff.mpr
    intro x hx
    have : x.rev ∈ revsAsc s3.ledger := (mem_revsAsc _ _).mpr (List.mem_map.mpr ⟨x, hx, rfl⟩)
    simp [this]
  have hs1' : hookPhase s0 { rel with status := .uninstalling } (if fl.disableHooks then 0 else fl.nHooks) .ok = (.ok, s1) := hs1
  have hs2' : stUpdate s1 { rel with status := .uninstalling } = (.ok, s2) := hs2
  have hs3' : hookPhase s2 { rel with status := .uninstalling } (if fl.disableHooks then 0 else fl.nHooks) .ok = (.ok, s3) := hs3
  have hres : uninstallOn fl {} s0 = ((purge (revsAsc s3.ledger) s3).2, .success) := by
    unfold uninstallOn
    simp only [hs0, hdry, hlast, hnu, hkeep, Bool.false_eq_true, if_false, hs1', hs2', hs3', Bool.not_false, if_true]
    cases hp : purge (revsAsc s3.ledger) s3 with
    | mk d s4 =>
      rw [hp] at h4a
      simp only at h4a
      subst h4a
      simp
  rw [hres]
  exact ⟨rfl, hempty⟩


end Helm.Ledger
