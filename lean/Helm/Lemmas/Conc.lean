/-
Lemmas about the interleaving model: an invariant of every reachable world, whatever the
number of processes, the schedule and the initial history.
-/
import Helm.Model.Conc

namespace Helm.Conc
open Helm.Ledger

theorem split_at {α : Type} (l : List α) (i : Nat) (p p' : α) (h : l[i]? = some p) :
    ∃ a b, l = a ++ p :: b ∧ l.set i p' = a ++ p' :: b := by
  induction l generalizing i with
  | nil => simp at h
  | cons x xs ih =>
    cases i with
    | zero =>
      simp at h
      exact ⟨[], xs, by simp [h], by simp⟩
    | succ j =>
      simp at h
      obtain ⟨a, b, h1, h2⟩ := ih j h
      exact ⟨x :: a, b, by simp [h1], by simp [h2]⟩

theorem revs_setStatus (l : Ledger) (r : Nat) (s : Status) : revs (setStatus l r s) = revs l := by
  unfold revs setStatus
  rw [List.map_map]
  apply List.map_congr_left
  intro x _
  simp only [Function.comp]
  split <;> rfl

/-- what every process satisfies in every reachable world -/
def ProcOk (l : Ledger) (p : Proc) : Prop :=
  (∀ r, p.made = some r → r ∈ revs l) ∧
  (p.touched = true → p.made.isSome = true) ∧
  (match p.pc with
    | .start | .read _ | .ready _ _ | .done false => p.made = none ∧ p.touched = false
    | _ => p.made.isSome = true)

/-- the stepping process keeps its own invariant; the ledger only gains revisions -/
theorem stepProc_ok (p : Proc) (l : Ledger) (h : ProcOk l p) :
    ProcOk (stepProc p l).2 (stepProc p l).1 ∧
    (∀ r, r ∈ revs l → r ∈ revs (stepProc p l).2) ∧
    -- a revision it newly makes was not in the ledger before
    (∀ r, (stepProc p l).1.made = some r → p.made = some r ∨ r ∉ revs l) := by
  obtain ⟨h1, h2, h3⟩ := h
  unfold stepProc
  cases hpc : p.pc with
  | start =>
    simp only [hpc] at h3
    cases p.kind with
    | install =>
      simp only
      split <;> exact ⟨⟨by simp [h3.1], by simp [h3.2], by simp [h3.1, h3.2]⟩, fun r hr => hr, by simp [h3.1]⟩
    | upgrade =>
      simp only
      split
      · exact ⟨⟨by simp [h3.1], by simp [h3.2], by simp [h3.1, h3.2]⟩, fun r hr => hr, by simp [h3.1]⟩
      · split
        · exact ⟨⟨by simp [h3.1], by simp [h3.2], by simp [h3.1, h3.2]⟩, fun r hr => hr, by simp [h3.1]⟩
        · split <;> exact ⟨⟨by simp [h3.1], by simp [h3.2], by simp [h3.1, h3.2]⟩, fun r hr => hr, by simp [h3.1]⟩
  | read b =>
    simp only [hpc] at h3
    exact ⟨⟨by simp [h3.1], by simp [h3.2], by simp [h3.1, h3.2]⟩, fun r hr => hr, by simp [h3.1]⟩
  | ready b cur =>
    simp only [hpc] at h3
    simp only
    split
    · exact ⟨⟨by simp [h3.1], by simp [h3.2], by simp [h3.1, h3.2]⟩, fun r hr => hr, by simp [h3.1]⟩
    · rename_i hc
      refine ⟨⟨?_, by simp [h3.2], by simp⟩, ?_, ?_⟩
      · intro r hr
        simp only [Option.some.injEq] at hr
        subst hr
        simp [revs]
      · intro r hr
        simp only [revs, List.map_append, List.mem_append] at hr ⊢
        exact Or.inl hr
      · intro r hr
        simp only [Option.some.injEq] at hr
        subst hr
        right
        simpa using hc
  | created r cur =>
    simp only [hpc] at h3
    exact ⟨⟨h1, by simp [h3], by simpa using h3⟩, fun r hr => hr, fun r hr => Or.inl hr⟩
  | mutated r cur =>
    simp only [hpc] at h3
    cases cur with
    | none =>
      refine ⟨⟨?_, h2, by simpa using h3⟩, ?_, fun r hr => Or.inl hr⟩
      · intro x hx; rw [revs_setStatus]; exact h1 x hx
      · intro x hx; rw [revs_setStatus]; exact hx
    | some c =>
      refine ⟨⟨?_, h2, by simpa using h3⟩, ?_, fun r hr => Or.inl hr⟩
      · intro x hx; rw [revs_setStatus]; exact h1 x hx
      · intro x hx; rw [revs_setStatus]; exact hx
  | superseded r =>
    simp only [hpc] at h3
    refine ⟨⟨?_, h2, by simpa using h3⟩, ?_, fun r hr => Or.inl hr⟩
    · intro x hx; rw [revs_setStatus]; exact h1 x hx
    · intro x hx; rw [revs_setStatus]; exact hx
  | done ok =>
    simp only [hpc] at h3
    refine ⟨⟨h1, h2, ?_⟩, fun r hr => hr, fun r hr => Or.inl hr⟩
    simp only [hpc]
    exact h3

/-- the invariant of a world -/
def Inv (w : World) : Prop :=
  (∀ p ∈ w.procs, ProcOk w.ledger p) ∧ (w.procs.filterMap (·.made)).Pairwise (· ≠ ·)

theorem ProcOk_mono {l l' : Ledger} (hl : ∀ r, r ∈ revs l → r ∈ revs l') {p : Proc} (h : ProcOk l p) :
    ProcOk l' p := ⟨fun r hr => hl r (h.1 r hr), h.2.1, h.2.2⟩

theorem step_inv (w : World) (i : Nat) (h : Inv w) : Inv (step w i) := by
  unfold step
  cases hp : w.procs[i]? with
  | none => exact h
  | some p =>
    simp only
    obtain ⟨a, b, hab, hset⟩ := split_at w.procs i p (stepProc p w.ledger).1 hp
    have hpin : p ∈ w.procs := by rw [hab]; simp
    obtain ⟨hok, hmono, hnew⟩ := stepProc_ok p w.ledger (h.1 p hpin)
    constructor
    · intro q hq
      rw [hset] at hq
      rcases List.mem_append.mp hq with hq | hq
      · exact ProcOk_mono hmono (h.1 q (by rw [hab]; exact List.mem_append_left _ hq))
      · rcases List.mem_cons.mp hq with hq | hq
        · rw [hq]; exact hok
        · exact ProcOk_mono hmono (h.1 q (by rw [hab]; exact List.mem_append_right _ (List.mem_cons_of_mem _ hq)))
    · have hpw := h.2
      rw [hab] at hpw
      rw [hset]
      simp only [List.filterMap_append, List.filterMap_cons] at hpw ⊢
      -- the other processes' revisions are all in the old ledger
      have hothers : ∀ r, r ∈ a.filterMap (·.made) ∨ r ∈ b.filterMap (·.made) → r ∈ revs w.ledger := by
        intro r hr
        rcases hr with hr | hr
        · obtain ⟨q, hq, hqr⟩ := List.mem_filterMap.mp hr
          exact (h.1 q (by rw [hab]; exact List.mem_append_left _ hq)).1 r hqr
        · obtain ⟨q, hq, hqr⟩ := List.mem_filterMap.mp hr
          exact (h.1 q (by rw [hab]; exact List.mem_append_right _ (List.mem_cons_of_mem _ hq))).1 r hqr
      cases hm' : (stepProc p w.ledger).1.made with
      | none =>
        simp only
        cases hm : p.made with
        | none => simpa [hm] using hpw
        | some r0 =>
          simp only [hm] at hpw
          rw [List.pairwise_append] at hpw ⊢
          refine ⟨hpw.1, (List.pairwise_cons.mp hpw.2.1).2, ?_⟩
          intro x hx y hy
          exact hpw.2.2 x hx y (List.mem_cons_of_mem _ hy)
      | some r' =>
        simp only
        rcases hnew r' hm' with hsame | hfresh
        · simpa [hsame] using hpw
        · -- a fresh revision: different from everything the others made
          have hpw' : (a.filterMap (·.made) ++ b.filterMap (·.made)).Pairwise (· ≠ ·) := by
            cases hm : p.made with
            | none => simpa [hm] using hpw
            | some r0 =>
              simp only [hm] at hpw
              rw [List.pairwise_append] at hpw ⊢
              refine ⟨hpw.1, (List.pairwise_cons.mp hpw.2.1).2, ?_⟩
              intro x hx y hy
              exact hpw.2.2 x hx y (List.mem_cons_of_mem _ hy)
          rw [List.pairwise_append] at hpw' ⊢
          refine ⟨hpw'.1, List.pairwise_cons.mpr ⟨?_, hpw'.2.1⟩, ?_⟩
          · intro y hy heq
            exact hfresh (heq ▸ hothers y (Or.inr hy))
          · intro x hx y hy
            rcases List.mem_cons.mp hy with hy | hy
            · intro heq
              exact hfresh (hy ▸ heq ▸ hothers x (Or.inl hx))
            · exact hpw'.2.2 x hx y hy

theorem run_inv (w : World) (schedule : List Nat) (h : Inv w) : Inv (run w schedule) := by
  induction schedule generalizing w with
  | nil => exact h
  | cons i rest ih => exact ih (step w i) (step_inv w i h)

/-- fresh processes over any history satisfy the invariant -/
theorem init_inv (l : Ledger) (ps : List Proc) (h : ∀ p ∈ ps, p.pc = .start ∧ p.made = none ∧ p.touched = false) :
    Inv ⟨l, ps⟩ := by
  constructor
  · intro p hp
    obtain ⟨h1, h2, h3⟩ := h p hp
    exact ⟨by simp [h2], by simp [h3], by simp [h1, h2, h3]⟩
  · have : ps.filterMap (·.made) = [] := by
      apply List.filterMap_eq_nil_iff.mpr
      intro p hp
      exact (h p hp).2.1
    rw [this]
    exact List.Pairwise.nil

end Helm.Conc
