/-
Lemmas about the cluster model: association-list maps, the object store, the two loops of
`Client.update`, the ownership pre-flight.  Property theorems are in Props/C02, C06, C07.
-/
import Helm.Model.Cluster

namespace Helm.Cluster

/-! ### association lists -/

theorem find?_congr' {α : Type} {l : List α} {p q : α → Bool} (h : ∀ a ∈ l, p a = q a) :
    l.find? p = l.find? q := by
  induction l with
  | nil => rfl
  | cons a rest ih =>
    simp only [List.find?_cons, h a List.mem_cons_self]
    rw [ih (fun b hb => h b (List.mem_cons_of_mem _ hb))]

theorem SMap.get?_eq_some {m : SMap} {k v : String} (h : m.get? k = some v) : (k, v) ∈ m := by
  unfold SMap.get? at h
  cases hf : m.find? (·.1 = k) with
  | none => simp [hf] at h
  | some kv =>
    simp [hf] at h
    have h1 := List.find?_some hf
    have h2 := List.mem_of_find?_eq_some hf
    simp at h1
    have : kv = (k, v) := by cases kv; simp_all
    exact this ▸ h2

theorem SMap.get?_isSome_of_mem {m : SMap} {k v : String} (h : (k, v) ∈ m) : (m.get? k).isSome := by
  unfold SMap.get?
  cases hf : m.find? (·.1 = k) with
  | none =>
    have := List.find?_eq_none.mp hf (k, v) h
    simp at this
  | some kv => simp

theorem SMap.get?_append_of_none {a b : SMap} {k : String} (h : a.get? k = none) :
    SMap.get? (a ++ b) k = b.get? k := by
  unfold SMap.get? at *
  cases hf : a.find? (·.1 = k) with
  | none => simp [List.find?_append, hf]
  | some kv => simp [hf] at h

theorem SMap.get?_filter_none {m : SMap} {p : String × String → Bool} {k : String}
    (h : ∀ kv ∈ m, kv.1 = k → p kv = false) : SMap.get? (m.filter p) k = none := by
  unfold SMap.get?
  have : (m.filter p).find? (·.1 = k) = none := by
    apply List.find?_eq_none.mpr
    intro kv hkv
    have hm := List.mem_filter.mp hkv
    intro hk
    have hk' : kv.1 = k := by simpa using hk
    have := h kv hm.1 hk'
    simp [this] at hm
  simp [this]

theorem SMap.get?_set_self (m : SMap) (k v : String) : (m.set k v).get? k = some v := by
  unfold SMap.set SMap.erase
  rw [SMap.get?_append_of_none]
  · simp [SMap.get?]
  · apply SMap.get?_filter_none
    intro kv _ hk
    simp [hk]

theorem SMap.get?_set_ne (m : SMap) {k k' : String} (v : String) (h : k' ≠ k) :
    (m.set k v).get? k' = m.get? k' := by
  unfold SMap.set SMap.erase SMap.get?
  rw [List.find?_append]
  have h1 : List.find? (fun x => decide (x.1 = k')) [(k, v)] = none := by
    simp [List.find?, Ne.symm h]
  rw [h1, List.find?_filter]
  simp only [Option.or_none]
  congr 1
  apply find?_congr'
  intro kv _
  by_cases hk : kv.1 = k'
  · simp [hk, h]
  · simp [hk]

/-- does `a` specify everything `b` specifies, with the same values? -/
def SMap.covers (a b : SMap) : Prop := ∀ k, (b.get? k).isSome → a.get? k = b.get? k

theorem SMap.covers_refl (a : SMap) : SMap.covers a a := fun _ _ => rfl

theorem merge3_covers (live old new : SMap) : SMap.covers (merge3 live old new) new := by
  intro k hk
  unfold merge3
  rw [SMap.get?_append_of_none]
  apply SMap.get?_filter_none
  intro kv _ hkv
  cases hn : new.get? kv.1 with
  | none => rw [hkv] at hn; simp [hn] at hk
  | some _ => simp

/-- nothing to send: the live map has every binding of the new one -/
theorem covers_of_not_sent {l n : SMap}
    (h : n.any (fun kv => l.get? kv.1 ≠ some kv.2) = false) : SMap.covers l n := by
  intro k hk
  cases hg : n.get? k with
  | none => simp [hg] at hk
  | some v =>
    have hm := SMap.get?_eq_some hg
    have := List.any_eq_false.mp h (k, v) hm
    simpa using this

/-! ### the object store -/

theorem Store.get?_key {s : Store} {k : String} {o : Obj} (h : s.get? k = some o) : o.key = k := by
  have := List.find?_some h
  simpa using this

theorem Store.get?_del_self (s : Store) (k : String) : (s.del k).get? k = none := by
  unfold Store.del Store.get?
  apply List.find?_eq_none.mpr
  intro o ho
  have := (List.mem_filter.mp ho).2
  simpa using this

theorem Store.get?_del_ne (s : Store) {k k' : String} (h : k' ≠ k) : (s.del k).get? k' = s.get? k' := by
  unfold Store.del Store.get?
  rw [List.find?_filter]
  apply find?_congr'
  intro o _
  by_cases hk : o.key = k'
  · simp [hk, h]
  · simp [hk]

theorem Store.get?_put_self (s : Store) (o : Obj) : (s.put o).get? o.key = some o := by
  unfold Store.put Store.get?
  rw [List.find?_append]
  have : List.find? (fun x => decide (x.key = o.key)) (s.del o.key) = none := Store.get?_del_self s o.key
  rw [this]
  simp

theorem Store.get?_put_ne (s : Store) (o : Obj) {k : String} (h : k ≠ o.key) : (s.put o).get? k = s.get? k := by
  unfold Store.put
  have h1 : Store.get? (s.del o.key ++ [o]) k = (s.del o.key).get? k := by
    unfold Store.get?
    rw [List.find?_append]
    have : List.find? (fun x => decide (x.key = k)) [o] = none := by simp [List.find?, Ne.symm h]
    rw [this]; simp
  rw [h1, Store.get?_del_ne s h]

theorem Store.get?_foldl_del (os : List Obj) (s : Store) (k : String) :
    (os.foldl (fun acc o => acc.del o.key) s).get? k = if k ∈ os.map (·.key) then none else s.get? k := by
  induction os generalizing s with
  | nil => simp
  | cons o rest ih =>
    simp only [List.foldl_cons, List.map_cons, List.mem_cons]
    rw [ih]
    by_cases hr : k ∈ rest.map (·.key)
    · simp [hr]
    · by_cases hk : k = o.key
      · simp [hk, Store.get?_del_self]
      · simp [hr, hk, Store.get?_del_ne s hk]

theorem Store.get?_foldl_put_mem (os : List Obj) (s : Store) (o : Obj) (ho : o ∈ os)
    (hn : (os.map (·.key)).Pairwise (· ≠ ·)) :
    (os.foldl (fun acc r => acc.put r) s).get? o.key = some o := by
  induction os generalizing s with
  | nil => cases ho
  | cons x rest ih =>
    simp only [List.foldl_cons]
    simp only [List.map_cons, List.pairwise_cons] at hn
    rcases List.mem_cons.mp ho with h | h
    · subst h
      -- later puts do not touch this key
      have : ∀ (rs : List Obj) (t : Store), (∀ r ∈ rs, o.key ≠ r.key) →
          (rs.foldl (fun acc r => acc.put r) t).get? o.key = t.get? o.key := by
        intro rs
        induction rs with
        | nil => intro t _; rfl
        | cons r rs ih2 =>
          intro t hr
          simp only [List.foldl_cons]
          rw [ih2 _ (fun r' hr' => hr r' (List.mem_cons_of_mem _ hr'))]
          exact Store.get?_put_ne t r (hr r (List.mem_cons_self))
      rw [this rest _ (fun r hr => hn.1 r.key (List.mem_map_of_mem hr))]
      exact Store.get?_put_self s o
    · exact ih _ h hn.2

theorem Store.get?_foldl_put_frame (os : List Obj) (s : Store) (k : String) (hk : k ∉ os.map (·.key)) :
    (os.foldl (fun acc r => acc.put r) s).get? k = s.get? k := by
  induction os generalizing s with
  | nil => rfl
  | cons x rest ih =>
    simp only [List.foldl_cons]
    simp only [List.map_cons, List.mem_cons, not_or] at hk
    rw [ih _ hk.2]
    exact Store.get?_put_ne s x hk.1

/-! ### `updateResource` -/

def Ev.isDelete : Ev → Bool
  | .delete _ => true
  | _ => false

/-- the object has every field, label and annotation the manifest specifies -/
def Obj.covers (o t : Obj) : Prop :=
  SMap.covers o.data t.data ∧ SMap.covers o.labels t.labels ∧ SMap.covers o.annos t.annos

theorem Obj.covers_refl (o : Obj) : o.covers o := ⟨SMap.covers_refl _, SMap.covers_refl _, SMap.covers_refl _⟩

/-- the patch is computed against the live object (replace, strategic merge for kinds the
scheme knows, or three-way merge requested for unstructured ones) -/
def fullMerge (force three : Bool) (t : Obj) : Bool := force || t.typed || three

private theorem m3_covers (l o n : SMap) :
    SMap.covers (if n.isEmpty && !o.isEmpty then [] else merge3 l o n) n := by
  split
  · rename_i h
    have : n = [] := by
      cases n with
      | nil => rfl
      | cons _ _ => simp at h
    subst this
    intro k hk
    simp [SMap.get?] at hk
  · exact merge3_covers l o n

/-- what the live object is after `updateResource` covers the manifest -/
theorem patched_covers (force three : Bool) (live old t : Obj) (h : fullMerge force three t = true) :
    Obj.covers (if (patched force three live old t).2 then (patched force three live old t).1 else live) t := by
  unfold patched
  by_cases hf : force = true
  · simp only [hf, if_true]
    exact Obj.covers_refl t
  · have h3 : (t.typed || three) = true := by
      unfold fullMerge at h
      cases force <;> simp_all
    simp only [hf, h3, if_true]
    simp only [Bool.false_eq_true, if_false]
    split
    · exact ⟨m3_covers _ _ _, m3_covers _ _ _, m3_covers _ _ _⟩
    · rename_i hs
      simp only [Bool.or_eq_true, not_or, Bool.not_eq_true] at hs
      exact ⟨covers_of_not_sent hs.1.1.2, covers_of_not_sent hs.1.2.2, covers_of_not_sent hs.2.2⟩

theorem patched_key (force three : Bool) (live old t : Obj) (h : live.key = t.key) :
    (patched force three live old t).1.key = t.key := by
  unfold patched
  split
  · rfl
  · exact h

/-! ### the first loop of `Client.update` -/

theorem stepTarget_frame (force three : Bool) (orig : List Obj) (t : Obj) (r : UpRes) (k : String)
    (hk : k ≠ t.key) : (stepTarget force three orig t r).store.get? k = r.store.get? k := by
  unfold stepTarget
  split
  · dsimp only
    split
    · rfl
    · exact Store.get?_put_ne _ _ hk
  · rename_i live hl
    split
    · rfl
    · simp only
      split
      · rename_i old _ _
        have hkey := patched_key force three live old t (Store.get?_key hl)
        exact Store.get?_put_ne _ _ (hkey ▸ hk)
      · rfl

theorem stepTarget_err (force three : Bool) (orig : List Obj) (t : Obj) (r : UpRes)
    (h : (stepTarget force three orig t r).err = false) : r.err = false := by
  unfold stepTarget at h
  split at h
  · dsimp only at h
    split at h
    · simp at h
    · exact h
  · split at h
    · simp at h
    · exact h

theorem stepTarget_present (force three : Bool) (orig : List Obj) (t : Obj) (r : UpRes)
    (h : (stepTarget force three orig t r).err = false) :
    ∃ o, (stepTarget force three orig t r).store.get? t.key = some o ∧
      (fullMerge force three t = true → o.covers t) := by
  unfold stepTarget at h ⊢
  split
  · rename_i hg
    simp only [hg] at h
    dsimp only at h ⊢
    split
    · rename_i hr
      have hr' : t.key ∈ r.rej := by simpa using hr
      simp [hr'] at h
    · exact ⟨t, Store.get?_put_self _ _, fun _ => Obj.covers_refl t⟩
  · rename_i live hl
    split
    · rename_i hn
      simp [hl, hn] at h
    · rename_i old _
      simp only
      have hkey := patched_key force three live old t (Store.get?_key hl)
      by_cases hs : (patched force three live old t).2 = true
      · refine ⟨(patched force three live old t).1, ?_, ?_⟩
        · simp only [hs, if_true]
          have := Store.get?_put_self r.store (patched force three live old t).1
          rwa [hkey] at this
        · intro hm
          have := patched_covers force three live old t hm
          simpa [hs] using this
      · refine ⟨live, ?_, ?_⟩
        · simp only [hs]
          exact hl
        · intro hm
          have := patched_covers force three live old t hm
          simpa [hs] using this

/-- the events one step appends are about the target and none is a delete -/
theorem stepTarget_log (force three : Bool) (orig : List Obj) (t : Obj) (r : UpRes) :
    ∃ evs, (stepTarget force three orig t r).log = r.log ++ evs ∧
      ∀ e ∈ evs, e.key = t.key ∧ e.isDelete = false := by
  unfold stepTarget
  split
  · exact ⟨[.get t.key, .create t.key], by dsimp only; split <;> simp, by simp [Ev.key, Ev.isDelete]⟩
  · split
    · exact ⟨[.get t.key], by simp, by simp [Ev.key, Ev.isDelete]⟩
    · simp only
      split
      · exact ⟨[.get t.key, .replace t.key], by simp, by simp [Ev.key, Ev.isDelete]⟩
      · split
        · exact ⟨[.get t.key, .get t.key, .patch t.key], by simp, by simp [Ev.key, Ev.isDelete]⟩
        · exact ⟨[.get t.key, .get t.key, .get t.key], by simp, by simp [Ev.key, Ev.isDelete]⟩

theorem updateTargets_of_err (force three : Bool) (orig ts : List Obj) (r : UpRes) (h : r.err = true) :
    updateTargets force three orig ts r = r := by
  cases ts <;> simp [updateTargets, h]

theorem updateTargets_err (force three : Bool) (orig ts : List Obj) (r : UpRes)
    (h : (updateTargets force three orig ts r).err = false) : r.err = false := by
  cases hr : r.err with
  | false => rfl
  | true => rw [updateTargets_of_err _ _ _ _ _ hr] at h; rw [hr] at h; exact h

theorem updateTargets_frame (force three : Bool) (orig ts : List Obj) (r : UpRes) (k : String)
    (hk : k ∉ ts.map (·.key)) : (updateTargets force three orig ts r).store.get? k = r.store.get? k := by
  induction ts generalizing r with
  | nil => rfl
  | cons t rest ih =>
    simp only [List.map_cons, List.mem_cons, not_or] at hk
    unfold updateTargets
    split
    · rfl
    · rw [ih _ hk.2]
      exact stepTarget_frame _ _ _ _ _ _ hk.1

theorem updateTargets_present (force three : Bool) (orig ts : List Obj) (r : UpRes)
    (hn : (ts.map (·.key)).Pairwise (· ≠ ·))
    (h : (updateTargets force three orig ts r).err = false) :
    ∀ t ∈ ts, ∃ o, (updateTargets force three orig ts r).store.get? t.key = some o ∧
      (fullMerge force three t = true → o.covers t) := by
  induction ts generalizing r with
  | nil => intro t ht; cases ht
  | cons x rest ih =>
    have hr := updateTargets_err _ _ _ _ _ h
    simp only [List.map_cons, List.pairwise_cons] at hn
    unfold updateTargets at h ⊢
    simp only [hr, Bool.false_eq_true, if_false] at h ⊢
    intro t ht
    rcases List.mem_cons.mp ht with hx | hx
    · subst hx
      have hs := updateTargets_err _ _ _ _ _ h
      obtain ⟨o, ho, hc⟩ := stepTarget_present force three orig t r hs
      refine ⟨o, ?_, hc⟩
      rw [updateTargets_frame _ _ _ _ _ _ (by
        intro hm
        obtain ⟨y, hy, hyk⟩ := List.mem_map.mp hm
        exact hn.1 y.key (List.mem_map_of_mem hy) hyk.symm)]
      exact ho
    · exact ih _ hn.2 h t hx

theorem updateTargets_log (force three : Bool) (orig ts : List Obj) (r : UpRes) :
    ∃ evs, (updateTargets force three orig ts r).log = r.log ++ evs ∧
      ∀ e ∈ evs, e.key ∈ ts.map (·.key) ∧ e.isDelete = false := by
  induction ts generalizing r with
  | nil => exact ⟨[], by simp [updateTargets], by simp⟩
  | cons t rest ih =>
    unfold updateTargets
    split
    · exact ⟨[], by simp, by simp⟩
    · obtain ⟨e1, h1, p1⟩ := stepTarget_log force three orig t r
      obtain ⟨e2, h2, p2⟩ := ih (stepTarget force three orig t r)
      refine ⟨e1 ++ e2, by rw [h2, h1, List.append_assoc], ?_⟩
      intro e he
      rcases List.mem_append.mp he with h | h
      · exact ⟨by simp [(p1 e h).1], (p1 e h).2⟩
      · exact ⟨List.mem_cons_of_mem _ (p2 e h).1, (p2 e h).2⟩

/-! ### the second loop -/

def keepLive (o : Obj) : Bool := o.annos.get? policyAnno = some "keep"

theorem stepDelete_err (target : List Obj) (o : Obj) (r : UpRes) : (stepDelete target o r).err = r.err := by
  unfold stepDelete
  split
  · rfl
  · simp only
    split
    · rfl
    · split <;> rfl

/-- the store only shrinks, and only at the key of the original being processed -/
theorem stepDelete_store (target : List Obj) (o : Obj) (r : UpRes) (k : String) :
    (stepDelete target o r).store.get? k = r.store.get? k ∨
    ((stepDelete target o r).store.get? k = none ∧ k = o.key ∧ (target.find? (·.key = o.key)).isSome = false) := by
  unfold stepDelete
  split
  · exact Or.inl rfl
  · rename_i ht
    simp only
    split
    · exact Or.inl rfl
    · split
      · exact Or.inl rfl
      · by_cases hk : k = o.key
        · subst hk
          exact Or.inr ⟨Store.get?_del_self _ _, rfl, by simpa using ht⟩
        · exact Or.inl (Store.get?_del_ne _ hk)

/-- after its step an original that the target dropped is gone, or was kept because the live
object carries the keep policy -/
theorem stepDelete_done (target : List Obj) (o : Obj) (r : UpRes)
    (ht : (target.find? (·.key = o.key)).isSome = false) :
    (stepDelete target o r).store.get? o.key = none ∨
    ∃ live, r.store.get? o.key = some live ∧ keepLive live = true ∧
      (stepDelete target o r).store.get? o.key = some live := by
  unfold stepDelete
  simp only [ht, Bool.false_eq_true, if_false]
  split
  · rename_i hn
    exact Or.inl hn
  · rename_i live hl
    split
    · rename_i hk
      exact Or.inr ⟨live, hl, by simp [keepLive, hk], hl⟩
    · exact Or.inl (Store.get?_del_self _ _)

theorem stepDelete_log (target : List Obj) (o : Obj) (r : UpRes) :
    ∃ evs, (stepDelete target o r).log = r.log ++ evs ∧
      ∀ e ∈ evs, e.key = o.key ∧ (target.find? (·.key = o.key)).isSome = false ∧
        (e.isDelete = true → ∃ live, r.store.get? o.key = some live ∧ keepLive live = false) := by
  unfold stepDelete
  split
  · exact ⟨[], by simp, by simp⟩
  · rename_i ht
    have ht' : (target.find? (·.key = o.key)).isSome = false := by simpa using ht
    simp only
    split
    · exact ⟨[.get o.key], by simp, by simp [Ev.key, Ev.isDelete, ht']⟩
    · rename_i live hl
      split
      · exact ⟨[.get o.key], by simp, by simp [Ev.key, Ev.isDelete, ht']⟩
      · rename_i hk
        refine ⟨[.get o.key, .delete o.key], by simp, ?_⟩
        intro e he
        simp only [List.mem_cons, List.mem_nil_iff, or_false] at he
        rcases he with he | he <;> subst he
        · simp [Ev.key, Ev.isDelete, ht']
        · exact ⟨rfl, ht', fun _ => ⟨live, hl, by simp [keepLive, hk]⟩⟩

theorem deleteRemoved_err (target os : List Obj) (r : UpRes) : (deleteRemoved target os r).err = r.err := by
  induction os generalizing r with
  | nil => rfl
  | cons o rest ih => unfold deleteRemoved; rw [ih, stepDelete_err]

theorem deleteRemoved_store (target os : List Obj) (r : UpRes) (k : String) :
    (deleteRemoved target os r).store.get? k = r.store.get? k ∨
    ((deleteRemoved target os r).store.get? k = none ∧ k ∈ os.map (·.key) ∧
      (target.find? (·.key = k)).isSome = false) := by
  induction os generalizing r with
  | nil => exact Or.inl rfl
  | cons o rest ih =>
    unfold deleteRemoved
    rcases ih (stepDelete target o r) with h | h
    · rcases stepDelete_store target o r k with h2 | h2
      · exact Or.inl (h.trans h2)
      · exact Or.inr ⟨h.trans h2.1, by simp [h2.2.1], h2.2.1 ▸ h2.2.2⟩
    · exact Or.inr ⟨h.1, List.mem_cons_of_mem _ h.2.1, h.2.2⟩

theorem deleteRemoved_done (target os : List Obj) (r : UpRes) :
    ∀ o ∈ os, (target.find? (·.key = o.key)).isSome = false →
      (deleteRemoved target os r).store.get? o.key = none ∨
      ∃ live, r.store.get? o.key = some live ∧ keepLive live = true ∧
        (deleteRemoved target os r).store.get? o.key = some live := by
  induction os generalizing r with
  | nil => intro o ho; cases ho
  | cons x rest ih =>
    intro o ho ht
    unfold deleteRemoved
    rcases List.mem_cons.mp ho with hx | hx
    · subst hx
      rcases deleteRemoved_store target rest (stepDelete target o r) o.key with h | h
      · rcases stepDelete_done target o r ht with h2 | ⟨live, h2, h3, h4⟩
        · exact Or.inl (h.trans h2)
        · exact Or.inr ⟨live, h2, h3, h.trans h4⟩
      · exact Or.inl h.1
    · rcases ih (stepDelete target x r) o hx ht with h | ⟨live, h2, h3, h4⟩
      · exact Or.inl h
      · rcases stepDelete_store target x r o.key with h5 | h5
        · exact Or.inr ⟨live, h5 ▸ h2, h3, h4⟩
        · rw [h5.1] at h2; cases h2

theorem deleteRemoved_log (target os : List Obj) (r : UpRes) :
    ∃ evs, (deleteRemoved target os r).log = r.log ++ evs ∧
      ∀ e ∈ evs, e.key ∈ os.map (·.key) ∧ (target.find? (·.key = e.key)).isSome = false := by
  induction os generalizing r with
  | nil => exact ⟨[], by simp [deleteRemoved], by simp⟩
  | cons o rest ih =>
    unfold deleteRemoved
    obtain ⟨e1, h1, p1⟩ := stepDelete_log target o r
    obtain ⟨e2, h2, p2⟩ := ih (stepDelete target o r)
    refine ⟨e1 ++ e2, by rw [h2, h1, List.append_assoc], ?_⟩
    intro e he
    rcases List.mem_append.mp he with h | h
    · exact ⟨by simp [(p1 e h).1], (p1 e h).1 ▸ (p1 e h).2.1⟩
    · exact ⟨List.mem_cons_of_mem _ (p2 e h).1, (p2 e h).2⟩

/-! ### ownership -/

theorem SMap.merge_one (m : SMap) (k v : String) : SMap.merge m [(k, v)] = m.set k v := rfl
theorem SMap.merge_two (m : SMap) (k v k' v' : String) :
    SMap.merge m [(k, v), (k', v')] = (m.set k v).set k' v' := rfl

theorem stamp_owned (rel ns : String) (o : Obj) : owned (stamp rel ns o) rel ns = true := by
  have h1 : (SMap.merge o.labels [(managedByLabel, "Helm")]).get? managedByLabel = some "Helm" :=
    SMap.get?_set_self _ _ _
  have h2 : (SMap.merge o.annos [(releaseNameAnno, rel), (releaseNsAnno, ns)]).get? releaseNameAnno = some rel := by
    rw [SMap.merge_two, SMap.get?_set_ne _ _ (by decide : releaseNameAnno ≠ releaseNsAnno), SMap.get?_set_self]
  have h3 : (SMap.merge o.annos [(releaseNameAnno, rel), (releaseNsAnno, ns)]).get? releaseNsAnno = some ns := by
    rw [SMap.merge_two, SMap.get?_set_self]
  simp [owned, stamp, h1, h2, h3]

theorem stamp_key (rel ns : String) (o : Obj) : (stamp rel ns o).key = o.key := rfl
theorem stamp_typed (rel ns : String) (o : Obj) : (stamp rel ns o).typed = o.typed := rfl

/-- an object that covers a stamped manifest object is owned by the release -/
theorem owned_of_covers_stamp {rel ns : String} {o t : Obj} (h : o.covers (stamp rel ns t)) :
    owned o rel ns = true := by
  have hs := stamp_owned rel ns t
  unfold owned at hs ⊢
  simp only [Bool.and_eq_true, decide_eq_true_eq] at hs ⊢
  obtain ⟨⟨h1, h2⟩, h3⟩ := hs
  refine ⟨⟨?_, ?_⟩, ?_⟩
  · rw [h.2.1 _ (by rw [h1]; rfl), h1]
  · rw [h.2.2 _ (by rw [h2]; rfl), h2]
  · rw [h.2.2 _ (by rw [h3]; rfl), h3]

/-! ### the pre-flight visit -/

/-- the resource exists and may not be taken -/
def conflict (takeOwnership : Bool) (rel ns : String) (s : Store) (r : Obj) : Prop :=
  ∃ live, s.get? r.key = some live ∧ mayAdopt takeOwnership rel ns live = false

theorem pfStep_none (to : Bool) (rel ns : String) (s : Store) (log : List Ev) (r : Obj) :
    pfStep to rel ns s (none, log) r = (none, log) := rfl

theorem pfStep_absent (to : Bool) (rel ns : String) (s : Store) (a : List Obj) (log : List Ev) (r : Obj)
    (hg : s.get? r.key = none) : pfStep to rel ns s (some a, log) r = (some a, log ++ [.get r.key]) := by
  simp [pfStep, hg]

theorem pfStep_adopt (to : Bool) (rel ns : String) (s : Store) (a : List Obj) (log : List Ev) (r live : Obj)
    (hg : s.get? r.key = some live) (hm : mayAdopt to rel ns live = true) :
    pfStep to rel ns s (some a, log) r = (some (a ++ [r]), log ++ [.get r.key]) := by
  simp [pfStep, hg, hm]

theorem pfStep_refuse (to : Bool) (rel ns : String) (s : Store) (a : List Obj) (log : List Ev) (r live : Obj)
    (hg : s.get? r.key = some live) (hm : mayAdopt to rel ns live = false) :
    pfStep to rel ns s (some a, log) r = (none, log ++ [.get r.key]) := by
  simp [pfStep, hg, hm]

theorem pf_fold_none (to : Bool) (rel ns : String) (s : Store) (rs : List Obj) (log : List Ev) :
    ((rs.foldl (pfStep to rel ns s) (none, log)).1 = none) := by
  induction rs generalizing log with
  | nil => rfl
  | cons r rest ih => simp only [List.foldl_cons, pfStep_none]; exact ih log

theorem pf_fold_iff (to : Bool) (rel ns : String) (s : Store) (rs : List Obj) (a : List Obj) (log : List Ev) :
    ((rs.foldl (pfStep to rel ns s) (some a, log)).1 = none) ↔ ∃ r ∈ rs, conflict to rel ns s r := by
  induction rs generalizing a log with
  | nil => simp
  | cons r rest ih =>
    simp only [List.foldl_cons, List.mem_cons, exists_eq_or_imp]
    cases hg : s.get? r.key with
    | none =>
      rw [pfStep_absent _ _ _ _ _ _ _ hg, ih]
      constructor
      · exact Or.inr
      · rintro (⟨live, hl, _⟩ | h)
        · rw [hg] at hl; cases hl
        · exact h
    | some live =>
      cases hm : mayAdopt to rel ns live with
      | true =>
        rw [pfStep_adopt _ _ _ _ _ _ _ _ hg hm, ih]
        constructor
        · exact Or.inr
        · rintro (⟨live', hl, hc⟩ | h)
          · rw [hg] at hl; cases hl; rw [hm] at hc; cases hc
          · exact h
      | false =>
        rw [pfStep_refuse _ _ _ _ _ _ _ _ hg hm]
        constructor
        · intro _; exact Or.inl ⟨live, hg, hm⟩
        · intro _; exact pf_fold_none to rel ns s rest _

/-- the pre-flight refuses exactly when some resource it would create exists and is not this
release's (and take-ownership was not asked for) -/
theorem preflight_none_iff (to : Bool) (rel ns : String) (rs : List Obj) (s : Store) :
    (preflight to rel ns rs s).1 = none ↔ ∃ r ∈ rs, conflict to rel ns s r :=
  pf_fold_iff to rel ns s rs [] []

theorem pf_fold_reads (to : Bool) (rel ns : String) (s : Store) (rs : List Obj) (acc : Option (List Obj) × List Ev)
    (h : ∀ e ∈ acc.2, e.isWrite = false) : ∀ e ∈ (rs.foldl (pfStep to rel ns s) acc).2, e.isWrite = false := by
  induction rs generalizing acc with
  | nil => exact h
  | cons r rest ih =>
    simp only [List.foldl_cons]
    apply ih
    unfold pfStep
    split
    · exact h
    · split
      · intro e he
        rcases List.mem_append.mp he with h1 | h1
        · exact h e h1
        · simp at h1; subst h1; rfl
      · split <;>
        · intro e he
          rcases List.mem_append.mp he with h1 | h1
          · exact h e h1
          · simp at h1; subst h1; rfl

/-- the pre-flight only reads -/
theorem preflight_reads (to : Bool) (rel ns : String) (rs : List Obj) (s : Store) :
    ∀ e ∈ (preflight to rel ns rs s).2, e.isWrite = false :=
  pf_fold_reads to rel ns s rs (some [], []) (by simp)

theorem pf_fold_adopted (to : Bool) (rel ns : String) (s : Store) (rs : List Obj) (a : List Obj) (log : List Ev)
    (b : List Obj) (h : (rs.foldl (pfStep to rel ns s) (some a, log)).1 = some b) :
    b = a ++ rs.filter (fun r => (s.get? r.key).isSome) := by
  induction rs generalizing a log with
  | nil => simp at h; simp [h]
  | cons r rest ih =>
    simp only [List.foldl_cons] at h
    cases hg : s.get? r.key with
    | none =>
      rw [pfStep_absent _ _ _ _ _ _ _ hg] at h
      rw [ih _ _ h]
      simp [hg]
    | some live =>
      cases hm : mayAdopt to rel ns live with
      | true =>
        rw [pfStep_adopt _ _ _ _ _ _ _ _ hg hm] at h
        rw [ih _ _ h]
        simp [hg]
      | false =>
        rw [pfStep_refuse _ _ _ _ _ _ _ _ hg hm, pf_fold_none] at h
        cases h

/-- what the pre-flight hands on for adoption: the resources that exist already -/
theorem preflight_adopted (to : Bool) (rel ns : String) (rs : List Obj) (s : Store) (b : List Obj)
    (h : (preflight to rel ns rs s).1 = some b) : b = rs.filter (fun r => (s.get? r.key).isSome) := by
  have := pf_fold_adopted to rel ns s rs [] [] b h
  simpa using this

theorem filter_norej (l : List Obj) : l.filter (fun r => !([] : List String).contains r.key) = l := by
  simp

end Helm.Cluster
