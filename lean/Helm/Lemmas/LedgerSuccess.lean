/-
What a fault-free operation does to a well-formed history, for every history (lemmas for C01's
"after an operation reports success ..." clause).
-/
import Helm.Model.Ledger
import Helm.Lemmas.Ledger

namespace Helm.Ledger

theorem foldl_max_ge (l : Ledger) (m : Nat) : m ≤ l.foldl (fun m r => max m r.rev) m := by
  induction l generalizing m with
  | nil => exact Nat.le_refl _
  | cons a t ih => exact Nat.le_trans (Nat.le_max_left _ _) (ih _)

theorem rev_le_foldl_max (l : Ledger) (m : Nat) (x : Rec) (hx : x ∈ l) :
    x.rev ≤ l.foldl (fun m r => max m r.rev) m := by
  induction l generalizing m with
  | nil => cases hx
  | cons a t ih =>
    rcases List.mem_cons.mp hx with h | h
    · subst h; exact Nat.le_trans (Nat.le_max_right _ _) (foldl_max_ge t _)
    · exact ih _ h

theorem rev_le_maxRev (l : Ledger) (x : Rec) (hx : x ∈ l) : x.rev ≤ maxRev l := rev_le_foldl_max l 0 x hx

theorem get?_mem {l : Ledger} {rev : Nat} {r : Rec} (h : get? l rev = some r) : r ∈ l ∧ r.rev = rev := by
  unfold get? at h
  exact ⟨List.mem_of_find?_eq_some h, by simpa using List.find?_some h⟩

theorem last?_spec {l : Ledger} {r : Rec} (h : last? l = some r) : r ∈ l ∧ r.rev = maxRev l := by
  unfold last? at h
  split at h
  · cases h
  · exact get?_mem h

theorem get?_none_of_lt (l : Ledger) (n : Nat) (h : ∀ x ∈ l, x.rev < n) : get? l n = none := by
  unfold get?
  apply List.find?_eq_none.mpr
  intro x hx
  have := h x hx
  simp; omega

/-- in a history with unique revisions a record is determined by its revision -/
theorem eq_of_rev {l : Ledger} (hnd : (revs l).Nodup) {x y : Rec} (hx : x ∈ l) (hy : y ∈ l) (h : x.rev = y.rev) :
    x = y := by
  induction l with
  | nil => cases hx
  | cons a t ih =>
    simp only [revs, List.map_cons, List.nodup_cons] at hnd
    rcases List.mem_cons.mp hx with h1 | h1 <;> rcases List.mem_cons.mp hy with h2 | h2
    · rw [h1, h2]
    · subst h1; exact absurd (List.mem_map.mpr ⟨y, h2, h.symm⟩) hnd.1
    · subst h2; exact absurd (List.mem_map.mpr ⟨x, h1, h⟩) hnd.1
    · exact ih hnd.2 h1 h2

theorem currentOf_mem {l : Ledger} {cur : Rec} (h : currentOf l = some cur) : cur ∈ l := by
  unfold currentOf at h
  cases hl : last? l with
  | none => simp [hl] at h
  | some lastRec =>
    simp only [hl] at h
    split at h
    · cases h; exact (last?_spec hl).1
    · cases hd : deployed? l with
      | some d =>
        simp only [hd] at h
        cases h
        unfold deployed? at hd
        simp only at hd
        split at hd
        · cases hd
        · exact (List.mem_filter.mp (get?_mem hd).1).1
      | none =>
        simp only [hd] at h
        split at h
        · cases h; exact (last?_spec hl).1
        · cases h

/-- `stUpdate` with healthy storage on a record whose revision is stored -/
theorem stUpdate_ok (s : St) (r : Rec) (hd : s.decs = []) (hmem : r.rev ∈ revs s.ledger) :
    stUpdate s r = (.ok, { s with ledger := s.ledger.map (fun x => if x.rev = r.rev then r else x),
                                   writes := s.writes ++ [s!"update {r.rev} {repr r.status}"] }) := by
  have hsome : (get? s.ledger r.rev).isSome = true := (get?_isSome_iff _ _).mpr hmem
  simp [stUpdate, nextDec, hd, hsome]

/-- the final shape: everything as it was, the record upgraded from superseded, the new one deployed -/
theorem upgrade_success (fl : UpgradeFlags) (p : Nat) (l : Ledger) (lastRec cur : Rec)
    (hdry : fl.dryRun = false) (hmax : fl.maxHistory = 0) (hnd : (revs l).Nodup)
    (hlast : last? l = some lastRec) (hnp : lastRec.status.isPending = false)
    (hcur : currentOf l = some cur) :
    (upgrade fl {} {} p l).2 = .success ∧
    (upgrade fl {} {} p l).1.ledger =
      setStatus l cur.rev .superseded ++ [⟨lastRec.rev + 1, .deployed, p⟩] := by
  obtain ⟨hlm, hlr⟩ := last?_spec hlast
  have hcm := currentOf_mem hcur
  let n := lastRec.rev + 1
  let relP : Rec := ⟨n, .pendingUpgrade, p⟩
  let nh := if fl.disableHooks then 0 else fl.nHooks
  let s0 : St := { ledger := l, decs := [] }
  -- 1. the record is created
  have hfresh : get? l n = none := get?_none_of_lt l n (fun x hx => by have := rev_le_maxRev l x hx; omega)
  let s1 : St := (stCreate s0 relP).2
  have hfresh' : get? l relP.rev = none := hfresh
  have hs1 : stCreate s0 relP = (.ok, s1) := by simp [s1, stCreate, nextDec, s0, hfresh']
  have hs1l : s1.ledger = l ++ [relP] := by simp [s1, stCreate, nextDec, s0, hfresh']
  have hs1d : s1.decs = [] := by simp [s1, stCreate, nextDec, s0, hfresh']
  have huniq : ∀ (s : St), s.ledger = l ++ [relP] → ∀ x ∈ s.ledger, x.rev = relP.rev → x = relP := by
    intro s hs x hx hr
    rw [hs] at hx
    rcases List.mem_append.mp hx with h | h
    · have := rev_le_maxRev l x h; simp [relP, n] at hr; omega
    · simpa using h
  -- 2. pre-upgrade hooks, 3. post-upgrade hooks: nothing changes
  have hpre := hookPhase_same relP nh .ok s1 hs1d (by simp [hs1l]) (huniq s1 hs1l)
  let s2 : St := (hookPhase s1 relP nh .ok).2
  have hs2 : hookPhase s1 relP nh .ok = (.ok, s2) := by
    apply Prod.ext
    · simp only [hpre.1]; split <;> rfl
    · rfl
  have hs2l : s2.ledger = l ++ [relP] := by rw [← hs1l]; exact hpre.2.1
  have hs2d : s2.decs = [] := hpre.2.2
  have hpost := hookPhase_same relP nh .ok s2 hs2d (by simp [hs2l]) (huniq s2 hs2l)
  let s3 : St := (hookPhase s2 relP nh .ok).2
  have hs3 : hookPhase s2 relP nh .ok = (.ok, s3) := by
    apply Prod.ext
    · simp only [hpost.1]; split <;> rfl
    · rfl
  have hs3l : s3.ledger = l ++ [relP] := by rw [← hs2l]; exact hpost.2.1
  have hs3d : s3.decs = [] := hpost.2.2
  -- 4. the current revision is marked superseded, 5. the new one deployed
  have hc3 : cur.rev ∈ revs s3.ledger := by
    rw [hs3l]; simp only [revs, List.map_append, List.mem_append]
    exact Or.inl (List.mem_map.mpr ⟨cur, hcm, rfl⟩)
  have hu4 := stUpdate_ok s3 { cur with status := .superseded } hs3d hc3
  let s4 : St := (stUpdate s3 { cur with status := .superseded }).2
  have hs4l : s4.ledger = s3.ledger.map (fun x => if x.rev = cur.rev then { cur with status := .superseded } else x) := by
    simp [s4, hu4]
  have hs4d : s4.decs = [] := by simp [s4, hu4, hs3d]
  have hn4 : n ∈ revs s4.ledger := by
    rw [hs4l, hs3l]
    simp only [revs, List.map_map, List.map_append, List.mem_append]
    right
    have : relP.rev ≠ cur.rev := by
      have := rev_le_maxRev l cur hcm; simp [relP, n]; omega
    simp [Function.comp, this, relP]
  have hu5 := stUpdate_ok s4 { relP with status := .deployed } hs4d hn4
  -- assemble
  have hs1' : stCreate { ledger := l, decs := [] } ⟨lastRec.rev + 1, .pendingUpgrade, p⟩ = (.ok, s1) := hs1
  have hs2' : hookPhase s1 ⟨lastRec.rev + 1, .pendingUpgrade, p⟩ (if fl.disableHooks then 0 else fl.nHooks) .ok = (.ok, s2) := hs2
  have hs3' : hookPhase s2 ⟨lastRec.rev + 1, .pendingUpgrade, p⟩ (if fl.disableHooks then 0 else fl.nHooks) .ok = (.ok, s3) := hs3
  have hu4' : stUpdate s3 { cur with status := .superseded } = (.ok, s4) := by
    rw [hu4]; simp [s4, hu4]
  have hu5' : stUpdate s4 ⟨lastRec.rev + 1, .deployed, p⟩ =
      (.ok, (stUpdate s4 { relP with status := .deployed }).2) := by
    have : stUpdate s4 { relP with status := .deployed } = stUpdate s4 ⟨lastRec.rev + 1, .deployed, p⟩ := rfl
    rw [← this, hu5]
  have hres : upgrade fl {} {} p l = ((stUpdate s4 { relP with status := .deployed }).2, .success) := by
    unfold upgrade
    simp only [hlast, hnp, hcur, hdry, Bool.false_eq_true, if_false, storageCreate, hmax, Nat.lt_irrefl, hs1', hs2', hs3', hu4', hu5']
  rw [hres]
  refine ⟨rfl, ?_⟩
  have hl5 : (stUpdate s4 { relP with status := .deployed }).2.ledger =
      s4.ledger.map (fun x => if x.rev = n then { relP with status := .deployed } else x) := by
    rw [hu5]
  simp only [hl5, hs4l, hs3l, List.map_append, List.map_map, List.map_cons, List.map_nil]
  have hne : relP.rev ≠ cur.rev := by
    have := rev_le_maxRev l cur hcm; simp [relP, n]; omega
  congr 1
  · -- the old records: the current one becomes superseded, nothing else moves
    unfold setStatus
    apply List.map_congr_left
    intro x hx
    have hxn : x.rev ≠ n := by have := rev_le_maxRev l x hx; omega
    simp only [Function.comp]
    by_cases hxc : x.rev = cur.rev
    · have : x = cur := eq_of_rev hnd hx hcm hxc
      subst this
      simp [hxn]
    · simp [hxc, hxn]
  · simp [Function.comp, hne, relP, n]

/-! ### the result is well-formed -/

theorem two_le_countP {l : Ledger} {q : Rec → Bool} {x y : Rec} (hx : x ∈ l) (hy : y ∈ l) (hne : x ≠ y)
    (qx : q x = true) (qy : q y = true) : 2 ≤ l.countP q := by
  induction l with
  | nil => cases hx
  | cons a t ih =>
    rw [List.countP_cons]
    rcases List.mem_cons.mp hx with h1 | h1 <;> rcases List.mem_cons.mp hy with h2 | h2
    · exact absurd (h1.trans h2.symm) hne
    · subst h1
      have : 1 ≤ t.countP q := List.countP_pos_iff.mpr ⟨y, h2, qy⟩
      simp only [qx, if_true]; omega
    · subst h2
      have : 1 ≤ t.countP q := List.countP_pos_iff.mpr ⟨x, h1, qx⟩
      simp only [qy, if_true]; omega
    · have := ih h1 h2
      split <;> omega

theorem deployed_unique {l : Ledger} (hc : countDeployed l ≤ 1) {x y : Rec} (hx : x ∈ l) (hy : y ∈ l)
    (dx : x.status = .deployed) (dy : y.status = .deployed) : x = y := by
  by_cases h : x = y
  · exact h
  · have := two_le_countP (q := fun r => decide (r.status = .deployed)) hx hy h (by simp [dx]) (by simp [dy])
    unfold countDeployed at hc
    omega

theorem exists_foldl_max (l : Ledger) (m : Nat) :
    l.foldl (fun m r => max m r.rev) m = m ∨ ∃ x ∈ l, x.rev = l.foldl (fun m r => max m r.rev) m := by
  induction l generalizing m with
  | nil => exact Or.inl rfl
  | cons a t ih =>
    simp only [List.foldl_cons]
    rcases ih (max m a.rev) with h | ⟨x, hx, hxr⟩
    · rw [h]
      by_cases hm : a.rev ≤ m
      · left; omega
      · right; exact ⟨a, List.mem_cons_self, by omega⟩
    · exact Or.inr ⟨x, List.mem_cons_of_mem _ hx, hxr⟩

theorem get?_isSome_of_mem {l : Ledger} {x : Rec} (hx : x ∈ l) : (get? l x.rev).isSome = true :=
  (get?_isSome_iff l x.rev).mpr (List.mem_map.mpr ⟨x, hx, rfl⟩)

theorem maxRev_attained {l : Ledger} (hne : l ≠ []) : ∃ x ∈ l, x.rev = maxRev l := by
  rcases exists_foldl_max l 0 with h0 | h
  · cases l with
    | nil => exact absurd rfl hne
    | cons a t =>
      refine ⟨a, List.mem_cons_self, ?_⟩
      have := rev_le_maxRev (a :: t) a List.mem_cons_self
      unfold maxRev at this ⊢
      omega
  · exact h

theorem deployed?_none {l : Ledger} (h : deployed? l = none) : ∀ x ∈ l, x.status ≠ .deployed := by
  intro x hx hd
  unfold deployed? at h
  simp only at h
  have hmem : x ∈ l.filter (fun r => decide (r.status = .deployed)) := List.mem_filter.mpr ⟨hx, by simp [hd]⟩
  split at h
  · rename_i he
    have : l.filter (fun r => decide (r.status = .deployed)) = [] := by simpa using he
    rw [this] at hmem; cases hmem
  · obtain ⟨y, hy, hyr⟩ := maxRev_attained (l := l.filter (fun r => decide (r.status = .deployed)))
      (by intro he; rw [he] at hmem; cases hmem)
    have := get?_isSome_of_mem hy
    rw [hyr, h] at this
    cases this

theorem deployed?_some {l : Ledger} {d : Rec} (h : deployed? l = some d) : d ∈ l ∧ d.status = .deployed := by
  unfold deployed? at h
  simp only at h
  split at h
  · cases h
  · have := (get?_mem h).1
    have hm := List.mem_filter.mp this
    exact ⟨hm.1, by simpa using hm.2⟩

/-- in a history with at most one deployed record, the record an upgrade builds on is that one -/
theorem deployed_is_cur {l : Ledger} {cur : Rec} (hc : countDeployed l ≤ 1) (hcur : currentOf l = some cur) :
    ∀ x ∈ l, x.status = .deployed → x = cur := by
  intro x hx hd
  unfold currentOf at hcur
  cases hl : last? l with
  | none => simp [hl] at hcur
  | some lastRec =>
    simp only [hl] at hcur
    split at hcur
    · rename_i hld
      cases hcur
      exact deployed_unique hc hx (last?_spec hl).1 hd hld
    · cases hdp : deployed? l with
      | some d =>
        simp only [hdp] at hcur
        cases hcur
        obtain ⟨hdm, hdd⟩ := deployed?_some hdp
        exact deployed_unique hc hx hdm hd hdd
      | none => exact absurd hd (deployed?_none hdp x hx)

theorem countDeployed_setStatus_superseded {l : Ledger} {cur : Rec} (hnd : (revs l).Nodup) (hcm : cur ∈ l)
    (hall : ∀ x ∈ l, x.status = .deployed → x = cur) : countDeployed (setStatus l cur.rev .superseded) = 0 := by
  unfold countDeployed setStatus
  rw [List.countP_eq_zero]
  intro y hy
  obtain ⟨x, hx, hxy⟩ := List.mem_map.mp hy
  by_cases hxc : x.rev = cur.rev
  · simp [hxc] at hxy; subst hxy; simp
  · simp [hxc] at hxy; subst hxy
    intro hd
    have := hall x hx (by simpa using hd)
    exact hxc (by rw [this])

theorem get?_setStatus_self {l : Ledger} {cur : Rec} (hnd : (revs l).Nodup) (hcm : cur ∈ l) (st : Status) :
    get? (setStatus l cur.rev st) cur.rev = some { cur with status := st } := by
  unfold get? setStatus
  induction l with
  | nil => cases hcm
  | cons a t ih =>
    simp only [List.map_cons, List.find?_cons]
    by_cases ha : a.rev = cur.rev
    · have : a = cur := eq_of_rev hnd List.mem_cons_self hcm ha
      subst this
      simp
    · simp only [ha, if_false, decide_false]
      simp only [revs, List.map_cons, List.nodup_cons] at hnd
      rcases List.mem_cons.mp hcm with h | h
      · exact absurd (by rw [h]) ha
      · exact ih hnd.2 h

theorem maxRev_append_one (l : Ledger) (r : Rec) (h : ∀ x ∈ l, x.rev ≤ r.rev) : maxRev (l ++ [r]) = r.rev := by
  unfold maxRev
  rw [List.foldl_append]
  simp only [List.foldl_cons, List.foldl_nil]
  have : l.foldl (fun m r => max m r.rev) 0 ≤ r.rev := by
    rcases exists_foldl_max l 0 with h0 | ⟨x, hx, hxr⟩
    · omega
    · rw [← hxr]; exact h x hx
  omega

/-- After a fault-free upgrade of a well-formed history: the operation reports success; the
revision it created is one above the previous highest and is the highest; it is the only
revision marked deployed; the revision the upgrade built on is marked superseded; every other
record is as it was; revisions stay unique. -/
theorem upgrade_success_wellformed (fl : UpgradeFlags) (p : Nat) (l : Ledger) (lastRec cur : Rec)
    (hdry : fl.dryRun = false) (hmax : fl.maxHistory = 0) (hnd : (revs l).Nodup) (hc : countDeployed l ≤ 1)
    (hlast : last? l = some lastRec) (hnp : lastRec.status.isPending = false) (hcur : currentOf l = some cur) :
    let l' := (upgrade fl {} {} p l).1.ledger
    (upgrade fl {} {} p l).2 = .success ∧
    (revs l').Nodup ∧ maxRev l' = maxRev l + 1 ∧
    get? l' (maxRev l + 1) = some ⟨maxRev l + 1, .deployed, p⟩ ∧
    countDeployed l' = 1 ∧
    get? l' cur.rev = some { cur with status := .superseded } ∧
    ∀ x ∈ l, x.rev ≠ cur.rev → x ∈ l' := by
  obtain ⟨hs, hl'⟩ := upgrade_success fl p l lastRec cur hdry hmax hnd hlast hnp hcur
  obtain ⟨hlm, hlr⟩ := last?_spec hlast
  have hcm := currentOf_mem hcur
  intro l'
  have hl'' : l' = setStatus l cur.rev .superseded ++ [⟨lastRec.rev + 1, .deployed, p⟩] := hl'
  have hrevs : revs (setStatus l cur.rev .superseded) = revs l := by
    unfold revs setStatus; rw [List.map_map]; apply List.map_congr_left; intro x _; simp only [Function.comp]; split <;> rfl
  have hle : ∀ x ∈ setStatus l cur.rev .superseded, x.rev ≤ lastRec.rev + 1 := by
    intro x hx
    have : x.rev ∈ revs (setStatus l cur.rev .superseded) := List.mem_map.mpr ⟨x, hx, rfl⟩
    rw [hrevs] at this
    obtain ⟨y, hy, hyx⟩ := List.mem_map.mp this
    have := rev_le_maxRev l y hy
    omega
  refine ⟨hs, ?_, ?_, ?_, ?_, ?_, ?_⟩
  · rw [hl'']
    simp only [revs, List.map_append, List.map_cons, List.map_nil]
    have h1 : (revs (setStatus l cur.rev .superseded)).Nodup := by rw [hrevs]; exact hnd
    refine List.nodup_append.mpr ⟨h1, by simp, ?_⟩
    intro a ha b hb
    simp only [List.mem_singleton] at hb
    subst hb
    obtain ⟨x, hx, hxa⟩ := List.mem_map.mp ha
    have : x.rev ∈ revs l := by rw [← hrevs]; exact List.mem_map.mpr ⟨x, hx, rfl⟩
    obtain ⟨y, hy, hyx⟩ := List.mem_map.mp this
    have := rev_le_maxRev l y hy
    omega
  · rw [hl'', maxRev_append_one _ _ hle]; simp [hlr]
  · rw [hl'', ← hlr]
    unfold get?
    rw [List.find?_append]
    have : List.find? (fun x => decide (x.rev = lastRec.rev + 1)) (setStatus l cur.rev .superseded) = none := by
      apply List.find?_eq_none.mpr
      intro x hx
      have : x.rev ∈ revs l := by rw [← hrevs]; exact List.mem_map.mpr ⟨x, hx, rfl⟩
      obtain ⟨y, hy, hyx⟩ := List.mem_map.mp this
      have := rev_le_maxRev l y hy
      simp; omega
    rw [this]; simp
  · rw [hl'']
    unfold countDeployed
    rw [List.countP_append]
    have := countDeployed_setStatus_superseded hnd hcm (deployed_is_cur hc hcur)
    unfold countDeployed at this
    rw [this]; simp
  · rw [hl'']
    unfold get?
    rw [List.find?_append]
    have hfound : List.find? (fun x => decide (x.rev = cur.rev)) (setStatus l cur.rev .superseded) =
        some { cur with status := .superseded } := get?_setStatus_self hnd hcm .superseded
    rw [hfound]; rfl
  · intro x hx hxc
    rw [hl'']
    apply List.mem_append_left
    unfold setStatus
    exact List.mem_map.mpr ⟨x, hx, by simp [hxc]⟩

/-- A fault-free install on a name without history: success, and the history is exactly the new
revision 1, deployed -- whatever the flags (hooks, replace, atomic). -/
theorem install_success (fl : InstallFlags) (p : Nat) (hdry : fl.dryRun = false) :
    (install fl {} {} p []).2 = .success ∧ (install fl {} {} p []).1.ledger = [⟨1, .deployed, p⟩] := by
  let rel : Rec := ⟨1, .pendingInstall, p⟩
  let nh := if fl.disableHooks then 0 else fl.nHooks
  let s0 : St := { ledger := [], decs := [] }
  let s1 : St := (stCreate s0 rel).2
  have hs1 : stCreate s0 rel = (.ok, s1) := by simp [s1, stCreate, nextDec, s0, get?]
  have hs1l : s1.ledger = [rel] := by simp [s1, stCreate, nextDec, s0, get?]
  have hs1d : s1.decs = [] := by simp [s1, stCreate, nextDec, s0, get?]
  have hpre := hookPhase_same rel nh .ok s1 hs1d (by simp [hs1l]) (by intro x hx _; simpa [hs1l] using hx)
  let s2 : St := (hookPhase s1 rel nh .ok).2
  have hs2 : hookPhase s1 rel nh .ok = (.ok, s2) := by
    apply Prod.ext
    · simp only [hpre.1]; split <;> rfl
    · rfl
  have hs2l : s2.ledger = [rel] := by rw [← hs1l]; exact hpre.2.1
  have hs2d : s2.decs = [] := hpre.2.2
  have hpost := hookPhase_same rel nh .ok s2 hs2d (by simp [hs2l]) (by intro x hx _; simpa [hs2l] using hx)
  let s3 : St := (hookPhase s2 rel nh .ok).2
  have hs3 : hookPhase s2 rel nh .ok = (.ok, s3) := by
    apply Prod.ext
    · simp only [hpost.1]; split <;> rfl
    · rfl
  have hs3l : s3.ledger = [rel] := by rw [← hs2l]; exact hpost.2.1
  have hs3d : s3.decs = [] := hpost.2.2
  have hu := stUpdate_ok s3 { rel with status := .deployed } hs3d (by simp [hs3l, revs, rel])
  have hs1' : stCreate { ledger := [], decs := [] } ⟨1, .pendingInstall, p⟩ = (.ok, s1) := hs1
  have hs2' : hookPhase s1 ⟨1, .pendingInstall, p⟩ (if fl.disableHooks then 0 else fl.nHooks) .ok = (.ok, s2) := hs2
  have hs3' : hookPhase s2 ⟨1, .pendingInstall, p⟩ (if fl.disableHooks then 0 else fl.nHooks) .ok = (.ok, s3) := hs3
  have hu' : stUpdate s3 ⟨1, .deployed, p⟩ = (.ok, (stUpdate s3 { rel with status := .deployed }).2) := by
    have : stUpdate s3 { rel with status := .deployed } = stUpdate s3 ⟨1, .deployed, p⟩ := rfl
    rw [← this, hu]
  have hres : install fl {} {} p [] = ((stUpdate s3 { rel with status := .deployed }).2, .success) := by
    unfold install
    simp only [hdry, last?, List.isEmpty_nil, if_true, Bool.false_eq_true, if_false, Bool.not_true]
    cases fl.replace <;> simp only [Bool.false_eq_true, if_false, if_true, hs1', hs2', hs3', hu']
  rw [hres]
  refine ⟨rfl, ?_⟩
  rw [hu]
  simp [hs3l, rel]

end Helm.Ledger
