import Helm.Model.Barrier
namespace Helm.Barrier

/-- Invariant of `batchPerform`: every task spawned so far has finished or is running, and a
running task has the current kind. -/
def BInv (ks : List String) (s : BState) : Prop :=
  s.next ≤ ks.length ∧
  (∀ j, j < s.next → j ∈ s.finished ∨ (j ∈ s.running ∧ ks[j]? = some s.cur)) ∧
  (∀ j ∈ s.running, j < s.next)

theorem binv_step (ks : List String) (s s' : BState) (e : Ev)
    (hinv : BInv ks s) (hs : step ks s e = some s') : BInv ks s' := by
  obtain ⟨hlen, hall, hrun⟩ := hinv
  cases e with
  | spawn =>
    simp only [step] at hs
    cases hk : ks[s.next]? with
    | none => simp [hk] at hs
    | some k =>
      simp only [hk] at hs
      have hlt : s.next < ks.length := by
        rcases List.getElem?_eq_some_iff.mp hk with ⟨h, _⟩; exact h
      split at hs
      · rename_i hkc
        cases hs
        refine ⟨by simp; omega, ?_, ?_⟩
        · intro j hj
          simp only at hj ⊢
          by_cases hjn : j = s.next
          · subst hjn; right; exact ⟨by simp, by rw [hk, hkc]⟩
          · rcases hall j (by omega) with h | ⟨h1, h2⟩
            · left; exact h
            · right; exact ⟨List.mem_cons_of_mem _ h1, h2⟩
        · intro j hj
          simp only [List.mem_cons] at hj
          rcases hj with rfl | hj
          · simp
          · have := hrun j hj; simp; omega
      · split at hs
        · rename_i hkc hemp
          cases hs
          have hnil : s.running = [] := by simpa using hemp
          refine ⟨by simp; omega, ?_, ?_⟩
          · intro j hj
            simp only at hj ⊢
            by_cases hjn : j = s.next
            · subst hjn; right; exact ⟨by simp, hk⟩
            · rcases hall j (by omega) with h | ⟨h1, _⟩
              · left; exact h
              · rw [hnil] at h1; simp at h1
          · intro j hj
            simp only [List.mem_singleton] at hj
            subst hj; simp
        · simp at hs
  | finish j =>
    simp only [step] at hs
    split at hs
    · rename_i hj
      cases hs
      refine ⟨hlen, ?_, ?_⟩
      · intro i hi
        simp only
        by_cases hij : i = j
        · subst hij; left; simp
        · rcases hall i hi with h | ⟨h1, h2⟩
          · left; exact List.mem_cons_of_mem _ h
          · right; exact ⟨(List.mem_erase_of_ne hij).mpr h1, h2⟩
      · intro i hi
        exact hrun i (List.mem_of_mem_erase hi)
    · simp at hs

theorem spawn_safe (ks : List String) (s s' : BState) (hinv : BInv ks s)
    (hs : step ks s .spawn = some s') :
    ∀ j, j < s.next → ks[j]? ≠ ks[s.next]? → j ∈ s.finished := by
  obtain ⟨_, hall, _⟩ := hinv
  intro j hj hne
  simp only [step] at hs
  cases hk : ks[s.next]? with
  | none => simp [hk] at hs
  | some k =>
    simp only [hk] at hs
    rcases hall j hj with h | ⟨h1, h2⟩
    · exact h
    · exfalso
      split at hs
      · rename_i hkc
        apply hne; rw [h2, hk, hkc]
      · split at hs
        · rename_i hemp
          have hnil : s.running = [] := by simpa using hemp
          rw [hnil] at h1; simp at h1
        · simp at hs

end Helm.Barrier
