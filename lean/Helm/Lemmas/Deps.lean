import Helm.Model.Deps
import Helm.Lemmas.Values
namespace Helm.Values

/-! ### coalesceDeps: frame and isolation -/

theorem coalesceDeps_nil (m : Bool) (dest : Tbl) : coalesceDeps m .nil dest = .ok dest := by
  rw [coalesceDeps]

theorem ensureSection_other (dest : Tbl) (n k : String) (h : n ≠ k) :
    (ensureSection dest n).get? k = dest.get? k := by
  unfold ensureSection; split
  · exact Tbl.get?_set_other _ _ _ _ h
  · rfl

/-- List-like induction for chart lists. -/
theorem ChartList.ind {motive : ChartList → Prop} (nil : motive .nil)
    (cons : ∀ c r, motive r → motive (.cons c r)) : ∀ l, motive l
  | .nil => nil
  | .cons c r => cons c r (ChartList.ind nil cons r)

/-- Processing the dependencies only ever writes the keys named after them. -/
theorem coalesceDeps_frame (m : Bool) (deps : ChartList) : ∀ (dest res : Tbl) (k : String),
    k ∉ deps.names → coalesceDeps m deps dest = .ok res → res.get? k = dest.get? k := by
  induction deps using ChartList.ind with
  | nil => intro dest res k _ h; rw [coalesceDeps_nil] at h; cases h; rfl
  | cons sub rest ih =>
    intro dest res k hk h
    simp only [ChartList.names, List.mem_cons, not_or] at hk
    rw [coalesceDeps] at h
    have hne : sub.name ≠ k := fun e => hk.1 e.symm
    split at h
    · split at h
      · rw [ih _ res k hk.2 h, Tbl.get?_set_other _ _ _ _ hne, ensureSection_other _ _ _ hne]
      · cases h
    · cases h

theorem coalesceGlobals_congr (dv d d' : Tbl) (h : d.get? globalKey = d'.get? globalKey) :
    coalesceGlobals dv d = coalesceGlobals dv d' := by
  unfold coalesceGlobals; rw [h]

theorem ensureSection_same (dest : Tbl) (n : String) :
    (ensureSection dest n).get? n = some ((dest.get? n).getD (.tbl .nil)) := by
  unfold ensureSection
  cases h : dest.get? n with
  | none => simp [Tbl.get?_set_same]
  | some v => simp [h]

/-- Isolation: what a subchart ends up with depends only on the section destined for it and on
`global` -- not on the parent's other keys and not on what siblings (processed before or after)
have in their sections or defaults. -/
theorem coalesceDeps_isolation (m : Bool) (deps : ChartList) :
    ∀ (dest dest' res res' : Tbl) (k : String), k ∈ deps.names → deps.names.Nodup →
      globalKey ∉ deps.names → dest.get? k = dest'.get? k →
      dest.get? globalKey = dest'.get? globalKey →
      coalesceDeps m deps dest = .ok res → coalesceDeps m deps dest' = .ok res' →
      res.get? k = res'.get? k := by
  induction deps using ChartList.ind with
  | nil => intro _ _ _ _ k hk; simp [ChartList.names] at hk
  | cons sub rest ih =>
    intro dest dest' res res' k hk hnd hg hkk hgg h h'
    simp only [ChartList.names, List.nodup_cons, List.mem_cons, not_or] at hk hnd hg
    rw [coalesceDeps] at h h'
    have hsg : sub.name ≠ globalKey := fun e => hg.1 e.symm
    have hglob : (ensureSection dest sub.name).get? globalKey = (ensureSection dest' sub.name).get? globalKey := by
      rw [ensureSection_other _ _ _ hsg, ensureSection_other _ _ _ hsg, hgg]
    by_cases hks : k = sub.name
    · subst hks
      have hsame : (ensureSection dest sub.name).get? sub.name = (ensureSection dest' sub.name).get? sub.name := by
        rw [ensureSection_same, ensureSection_same, hkk]
      rw [← hsame] at h'
      split at h
      · rename_i dvmap hdv
        rw [hdv] at h'
        simp only at h'
        rw [← coalesceGlobals_congr dvmap _ _ hglob] at h'
        split at h
        · rename_i r hr
          rw [hr] at h'
          simp only at h'
          rw [coalesceDeps_frame m rest _ res sub.name hnd.1 h, coalesceDeps_frame m rest _ res' sub.name hnd.1 h',
            Tbl.get?_set_same, Tbl.get?_set_same]
        · cases h
      · cases h
    · have hk' : k ∈ rest.names := by
        rcases hk with e | e
        · exact absurd e hks
        · exact e
      have hne : sub.name ≠ k := fun e => hks e.symm
      split at h
      · split at h
        · split at h'
          · split at h'
            · refine ih _ _ res res' k hk' hnd.2 hg.2 ?_ ?_ h h'
              · rw [Tbl.get?_set_other _ _ _ _ hne, Tbl.get?_set_other _ _ _ _ hne,
                  ensureSection_other _ _ _ hne, ensureSection_other _ _ _ hne, hkk]
              · rw [Tbl.get?_set_other _ _ _ _ hsg, Tbl.get?_set_other _ _ _ _ hsg, hglob]
            · cases h'
          · cases h'
        · cases h
      · cases h

theorem mem_names_of_mem_toList (l : ChartList) (sub : Chart) (h : sub ∈ l.toList) :
    sub.name ∈ l.names := by
  induction l using ChartList.ind with
  | nil => simp [ChartList.toList] at h
  | cons c r ih =>
    simp only [ChartList.toList, List.mem_cons] at h
    simp only [ChartList.names, List.mem_cons]
    rcases h with rfl | h
    · left; rfl
    · right; exact ih h

/-- Every dependency ends up with: its own section (parent's values under its name, or empty),
with the parent's globals merged in, coalesced with its own chart -- nothing else. -/
theorem coalesceDeps_member (m : Bool) (deps : ChartList) :
    ∀ (dest res : Tbl) (sub : Chart), sub ∈ deps.toList → deps.names.Nodup →
      globalKey ∉ deps.names → coalesceDeps m deps dest = .ok res →
      ∃ dv r, (dest.get? sub.name).getD (.tbl .nil) = .tbl dv ∧
        coalesce m sub (coalesceGlobals dv dest) = .ok r ∧ res.get? sub.name = some (.tbl r) := by
  induction deps using ChartList.ind with
  | nil => intro _ _ sub h; simp [ChartList.toList] at h
  | cons hd rest ih =>
    intro dest res sub hmem hnd hg h
    simp only [ChartList.names, List.nodup_cons, List.mem_cons, not_or, ChartList.toList] at hmem hnd hg
    rw [coalesceDeps] at h
    have hsg : hd.name ≠ globalKey := fun e => hg.1 e.symm
    split at h
    · rename_i dvmap hdv
      split at h
      · rename_i r hr
        rcases hmem with rfl | hmem
        · refine ⟨dvmap, r, ?_, ?_, ?_⟩
          · rw [ensureSection_same] at hdv; simpa using hdv
          · rw [← coalesceGlobals_congr dvmap _ _ (ensureSection_other dest _ _ hsg)]; exact hr
          · rw [coalesceDeps_frame m rest _ res _ hnd.1 h, Tbl.get?_set_same]
        · have hname : sub.name ∈ rest.names := mem_names_of_mem_toList rest sub hmem
          have hne : hd.name ≠ sub.name := fun e => hnd.1 (e ▸ hname)
          obtain ⟨dv, r', h1, h2, h3⟩ := ih _ res sub hmem hnd.2 hg.2 h
          refine ⟨dv, r', ?_, ?_, h3⟩
          · rw [Tbl.get?_set_other _ _ _ _ hne, ensureSection_other _ _ _ hne] at h1; exact h1
          · rw [← h2]
            congr 1
            apply coalesceGlobals_congr
            rw [Tbl.get?_set_other _ _ _ _ hsg, ensureSection_other _ _ _ hsg]
      · cases h
    · cases h

/-! ### globals flow top-down -/

theorem get?_globalsLoop (dg sg : Tbl) (hs : sg.WF) (x : String) :
    (globalsLoop dg sg).get? x =
      match sg.get? x with
      | none => dg.get? x
      | some (.tbl vt) =>
        (match dg.get? x with
         | none => some (.tbl vt)
         | some (.tbl dm) => some (.tbl (coalesceTables true vt dm))
         | some o => some o)
      | some v =>
        (match dg.get? x with
         | some (.tbl t) => some (.tbl t)
         | _ => some v) := by
  induction sg using Tbl.ind generalizing dg with
  | nil => simp [globalsLoop]
  | cons k val rest ih =>
    simp only [Tbl.WF] at hs
    have hrest : rest.get? k = none := Tbl.get?_none_of_not_mem rest k hs.1
    rw [globalsLoop.eq_def]
    by_cases hkx : k = x
    · subst hkx
      simp only [Tbl.get?, if_true]
      cases val with
      | tbl vt =>
        simp only
        cases hd : dg.get? k with
        | none => simp only; rw [ih _ hs.2.2, hrest]; simp [Tbl.get?_set_same]
        | some dv =>
          cases dv with
          | tbl dm => simp only; rw [ih _ hs.2.2, hrest]; simp [Tbl.get?_set_same]
          | _ => simp only; rw [ih _ hs.2.2, hrest]; simp [hd]
      | _ =>
        simp only
        cases hd : dg.get? k with
        | none => simp only; rw [ih _ hs.2.2, hrest]; simp [Tbl.get?_set_same]
        | some dv =>
          cases dv with
          | tbl dm => simp only; rw [ih _ hs.2.2, hrest]; simp [hd]
          | _ => simp only; rw [ih _ hs.2.2, hrest]; simp [Tbl.get?_set_same]
    · simp only [Tbl.get?, hkx, if_false]
      cases val with
      | tbl vt =>
        simp only
        cases hd : dg.get? k with
        | none => simp only; rw [ih _ hs.2.2, Tbl.get?_set_other _ _ _ _ hkx]
        | some dv =>
          cases dv with
          | tbl dm => simp only; rw [ih _ hs.2.2, Tbl.get?_set_other _ _ _ _ hkx]
          | _ => simp only; rw [ih _ hs.2.2]
      | _ =>
        simp only
        cases hd : dg.get? k with
        | none => simp only; rw [ih _ hs.2.2, Tbl.get?_set_other _ _ _ _ hkx]
        | some dv =>
          cases dv with
          | tbl dm => simp only; rw [ih _ hs.2.2]
          | _ => simp only; rw [ih _ hs.2.2, Tbl.get?_set_other _ _ _ _ hkx]

end Helm.Values

namespace Helm.Deps
open Helm.Values

theorem condPass_eq_findSome (cvals : Tbl) (cpath : List String) (cs : List (List String)) :
    condPass cvals cpath cs = cs.findSome? fun c =>
      match pathValue cvals (cpath ++ c) with
      | some (.bool b) => some b
      | _ => none := by
  induction cs with
  | nil => rfl
  | cons c rest ih =>
    simp only [condPass, List.findSome?_cons]
    cases h : pathValue cvals (cpath ++ c) with
    | none => simpa using ih
    | some v => cases v <;> simp [ih]

theorem tagsPass_false_iff (vt : Tbl) (tags : List String) :
    tagsPass vt tags = false ↔
      (∃ k ∈ tags, vt.get? k = some (.bool false)) ∧ ¬ (∃ k ∈ tags, vt.get? k = some (.bool true)) := by
  unfold tagsPass
  have h1 : (tags.any fun k => match vt.get? k with | some (.bool true) => true | _ => false) = true ↔
      ∃ k ∈ tags, vt.get? k = some (.bool true) := by
    simp only [List.any_eq_true]
    constructor
    · rintro ⟨k, hk, h⟩; refine ⟨k, hk, ?_⟩; split at h <;> simp_all
    · rintro ⟨k, hk, h⟩; exact ⟨k, hk, by simp [h]⟩
  have h2 : (tags.any fun k => match vt.get? k with | some (.bool false) => true | _ => false) = true ↔
      ∃ k ∈ tags, vt.get? k = some (.bool false) := by
    simp only [List.any_eq_true]
    constructor
    · rintro ⟨k, hk, h⟩; refine ⟨k, hk, ?_⟩; split at h <;> simp_all
    · rintro ⟨k, hk, h⟩; exact ⟨k, hk, by simp [h]⟩
  cases ht : (tags.any fun k => match vt.get? k with | some (.bool true) => true | _ => false) <;>
  cases hf : (tags.any fun k => match vt.get? k with | some (.bool false) => true | _ => false) <;>
  simp_all

/-- `processEnabled` keeps the chart's own name. -/
theorem processEnabled_name (fuel : Nat) (c c' : DChart) (v : Tbl) (path : List String)
    (h : processEnabled fuel c v path = .ok c') : c'.name = c.name := by
  cases fuel with
  | zero => rw [processEnabled] at h; cases h; rfl
  | succ n =>
    obtain ⟨name, values, metaDeps, subs⟩ := c
    rw [processEnabled] at h
    split at h
    · cases h; rfl
    · dsimp only at h
      split at h
      · cases h
      · split at h
        · cases h
        · cases h; rfl

theorem processSubs_names (fuel : Nat) (l l' : List DChart) (v : Tbl) (path : List String)
    (h : processSubs fuel l v path = .ok l') : l'.map (·.name) = l.map (·.name) := by
  induction l generalizing l' with
  | nil => rw [processSubs] at h; cases h; rfl
  | cons t rest ih =>
    rw [processSubs] at h
    split at h
    · cases h
    · rename_i t' ht
      split at h
      · cases h
      · rename_i r hr
        cases h
        simp [ih r hr, processEnabled_name fuel t t' v _ ht]

end Helm.Deps
