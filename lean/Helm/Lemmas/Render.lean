import Helm.Model.Render
import Helm.Model.Manifest
namespace Helm.Render

/-- Sorting with a total, transitive, antisymmetric order does not depend on the input order. -/
theorem mergeSort_perm_invariant {α} (le : α → α → Bool)
    (htrans : ∀ a b c, le a b = true → le b c = true → le a c = true)
    (htotal : ∀ a b, (le a b || le b a) = true)
    (l₁ l₂ : List α) (hanti : ∀ a b, a ∈ l₁ → b ∈ l₁ → le a b = true → le b a = true → a = b)
    (hp : l₁.Perm l₂) : l₁.mergeSort le = l₂.mergeSort le := by
  have h1 := List.pairwise_mergeSort htrans htotal l₁
  have h2 := List.pairwise_mergeSort htrans htotal l₂
  have hperm : (l₁.mergeSort le).Perm (l₂.mergeSort le) :=
    (List.mergeSort_perm l₁ le).trans (hp.trans (List.mergeSort_perm l₂ le).symm)
  refine List.Perm.eq_of_pairwise ?_ h1 h2 hperm
  intro a b ha hb hab hba
  have ha' : a ∈ l₁ := (List.mergeSort_perm l₁ le).mem_iff.mp ha
  have hb' : b ∈ l₁ := hp.mem_iff.mpr ((List.mergeSort_perm l₂ le).mem_iff.mp hb)
  exact hanti a b ha' hb' hab hba

theorem geTpl_total (a b : String) : (geTpl a b || geTpl b a) = true := by
  simp only [geTpl, lessTpl, Bool.or_eq_true, Bool.not_eq_true']
  by_cases h : countSlash a = countSlash b
  · simp only [h, if_true, decide_eq_false_iff_not]
    rcases String.le_total a b with h1 | h1
    · right; exact String.not_lt.mpr h1
    · left; exact String.not_lt.mpr h1
  · have h' : ¬ countSlash b = countSlash a := fun e => h e.symm
    simp only [h, h', if_false, decide_eq_false_iff_not]
    omega

theorem geTpl_trans (a b c : String) : geTpl a b = true → geTpl b c = true → geTpl a c = true := by
  simp only [geTpl, lessTpl, Bool.not_eq_true']
  intro h1 h2
  by_cases hab : countSlash a = countSlash b <;> by_cases hbc : countSlash b = countSlash c
  · have hac : countSlash a = countSlash c := hab.trans hbc
    simp only [hab, hbc, hac, if_true, decide_eq_false_iff_not] at *
    exact String.not_lt.mpr (String.le_trans (String.not_lt.mp h2) (String.not_lt.mp h1))
  · have hac : ¬ countSlash a = countSlash c := by omega
    simp only [hab, hbc, hac, if_true, if_false, decide_eq_false_iff_not] at *
    omega
  · have hac : ¬ countSlash a = countSlash c := by omega
    simp only [hab, hbc, hac, if_true, if_false, decide_eq_false_iff_not] at *
    omega
  · simp only [hab, hbc, if_false, decide_eq_false_iff_not] at h1 h2
    by_cases hac : countSlash a = countSlash c
    · omega
    · simp only [hac, if_false, decide_eq_false_iff_not]; omega

theorem geTpl_antisymm (a b : String) : geTpl a b = true → geTpl b a = true → a = b := by
  simp only [geTpl, lessTpl, Bool.not_eq_true']
  intro h1 h2
  by_cases hab : countSlash a = countSlash b
  · simp only [hab, if_true, decide_eq_false_iff_not] at h1 h2
    exact String.le_antisymm (String.not_lt.mp h2) (String.not_lt.mp h1)
  · have hba : ¬ countSlash b = countSlash a := fun e => hab e.symm
    simp only [hab, hba, if_false, decide_eq_false_iff_not] at h1 h2
    omega

end Helm.Render

namespace Helm.Manifest
open Helm.Render

theorem eq_of_nodup_keys {β} (l : List (String × β)) (hn : (l.map (·.1)).Nodup) (a b : String × β)
    (ha : a ∈ l) (hb : b ∈ l) (h : a.1 = b.1) : a = b := by
  induction l with
  | nil => cases ha
  | cons x r ih =>
    simp only [List.map_cons, List.nodup_cons] at hn
    rcases List.mem_cons.mp ha with rfl | ha' <;> rcases List.mem_cons.mp hb with rfl | hb'
    · rfl
    · exfalso; exact hn.1 (h ▸ List.mem_map_of_mem hb')
    · exfalso; exact hn.1 (h ▸ List.mem_map_of_mem ha')
    · exact ih hn.2 ha' hb'

/-- The documents considered by `SortManifests` do not depend on the order in which the
rendered-file map is iterated. -/
theorem docsOf_perm_invariant (files files' : List (String × Str))
    (hn : (files.map (·.1)).Nodup) (hp : files.Perm files') : docsOf files = docsOf files' := by
  unfold docsOf
  have := mergeSort_perm_invariant (fun (a b : String × Str) => decide (a.1 ≤ b.1))
    (fun a b c h1 h2 => by simp only [decide_eq_true_eq] at *; exact String.le_trans h1 h2)
    (fun a b => by simp only [Bool.or_eq_true, decide_eq_true_eq]; exact String.le_total _ _)
    files files'
    (fun a b ha hb h1 h2 => by
      simp only [decide_eq_true_eq] at h1 h2
      exact eq_of_nodup_keys files hn a b ha hb (String.le_antisymm h1 h2))
    hp
  simp only [this]

/-- the notes text when sub-notes are off: the main notes file, if any -/
theorem extractNotes_main_only (main : String) (files : List (String × Str))
    (acc : Str × List (String × Str)) :
    (files.foldl (fun (acc : Str × List (String × Str)) (kv : String × Str) =>
      if hasSuffix kv.1.toList notesSuffix then
        if false || kv.1 = main then
          ((if acc.1.isEmpty then kv.2 else acc.1 ++ ['\n'] ++ kv.2), acc.2)
        else acc
      else (acc.1, acc.2 ++ [kv])) acc).1 =
    (files.filter (fun kv => hasSuffix kv.1.toList notesSuffix && decide (kv.1 = main))).foldl
      (fun a kv => if a.isEmpty then kv.2 else a ++ ['\n'] ++ kv.2) acc.1 := by
  induction files generalizing acc with
  | nil => rfl
  | cons kv rest ih =>
    simp only [List.foldl_cons, List.filter_cons]
    rw [ih]
    by_cases h1 : hasSuffix kv.1.toList notesSuffix = true
    · by_cases h2 : kv.1 = main
      · have h1' : hasSuffix main.toList notesSuffix = true := h2 ▸ h1
        simp [h1', h2]
      · simp [h1, h2]
    · simp [h1]

end Helm.Manifest
