import Helm.Model.Ledger
namespace Helm.Ledger

def revs (l : Ledger) : List Nat := l.map (·.rev)

def countDeployed (l : Ledger) : Nat := l.countP (·.status = .deployed)

/-! ### the storage primitives keep revisions unique, whatever the decisions -/

theorem get?_isSome_iff (l : Ledger) (rev : Nat) : (get? l rev).isSome ↔ rev ∈ revs l := by
  simp only [get?, revs, List.find?_isSome, List.mem_map, decide_eq_true_eq]

theorem stCreate_nodup (s : St) (r : Rec) (h : (revs s.ledger).Nodup) :
    (revs (stCreate s r).2.ledger).Nodup := by
  unfold stCreate nextDec
  cases hd : s.decs with
  | nil =>
    simp only
    by_cases hp : (get? s.ledger r.rev).isSome = true
    · simp [hp, h]
    · simp only [hp, Bool.false_eq_true, if_false]
      have : r.rev ∉ revs s.ledger := fun hm => hp ((get?_isSome_iff _ _).mpr hm)
      simp only [revs, List.map_append, List.map_cons, List.map_nil] at *
      exact List.nodup_append.mpr ⟨h, by simp, by
        intro a ha b hb; simp at hb; subst hb; intro e; subst e; exact this ha⟩
  | cons d rest =>
    cases d
    · simp only
      by_cases hp : (get? s.ledger r.rev).isSome = true
      · simp [hp, h]
      · simp only [hp, Bool.false_eq_true, if_false]
        have : r.rev ∉ revs s.ledger := fun hm => hp ((get?_isSome_iff _ _).mpr hm)
        simp only [revs, List.map_append, List.map_cons, List.map_nil] at *
        exact List.nodup_append.mpr ⟨h, by simp, by
          intro a ha b hb; simp at hb; subst hb; intro e; subst e; exact this ha⟩
    · simpa using h
    · simpa using h

theorem revs_update (l : Ledger) (r : Rec) :
    revs (l.map fun x => if x.rev = r.rev then r else x) = revs l := by
  simp only [revs, List.map_map]
  apply List.map_congr_left
  intro x _
  simp only [Function.comp]
  split <;> simp_all

theorem stUpdate_revs (s : St) (r : Rec) : revs (stUpdate s r).2.ledger = revs s.ledger := by
  unfold stUpdate nextDec
  cases hd : s.decs with
  | nil =>
    simp only
    split
    · exact revs_update _ _
    · rfl
  | cons d rest =>
    cases d
    · simp only
      split
      · exact revs_update _ _
      · rfl
    · rfl
    · rfl

theorem stDelete_nodup (s : St) (rev : Nat) (h : (revs s.ledger).Nodup) :
    (revs (stDelete s rev).2.ledger).Nodup := by
  have hf : (revs (s.ledger.filter (·.rev ≠ rev))).Nodup := by
    simp only [revs] at *
    exact (List.Nodup.sublist (List.Sublist.map _ (List.filter_sublist)) h)
  unfold stDelete nextDec
  cases hd : s.decs with
  | nil => simp only; split <;> simp_all
  | cons d rest => cases d <;> simp only <;> (try split) <;> simp_all

theorem mem_insertAsc (x y : Nat) (l : List Nat) : y ∈ insertAsc x l ↔ y = x ∨ y ∈ l := by
  induction l with
  | nil => simp [insertAsc]
  | cons z r ih =>
    simp only [insertAsc]
    split
    · simp
    · simp only [List.mem_cons, ih]
      constructor
      · rintro (h | h | h) <;> simp [h]
      · rintro (h | h | h) <;> simp [h]

theorem mem_sortAsc (y : Nat) (l : List Nat) : y ∈ sortAsc l ↔ y ∈ l := by
  induction l with
  | nil => simp [sortAsc]
  | cons x r ih => simp [sortAsc, mem_insertAsc, ih]

/-! ### pruning: what `removeLeastRecent` decides to delete -/

theorem toDelete_not_deployed (l : Ledger) (maximum : Nat) (d : Rec) (hd : deployed? l = some d) :
    d.rev ∉ toDelete l maximum := by
  unfold toDelete
  split
  · simp
  · intro hm
    have := List.mem_of_mem_take hm
    simp only [hd, Option.map_some, List.mem_filter, ne_eq, decide_not, Bool.not_eq_eq_eq_not,
      Bool.not_true, decide_eq_false_iff_not, not_true_eq_false, and_false] at this

theorem toDelete_length_le (l : Ledger) (maximum : Nat) :
    (toDelete l maximum).length ≤ l.length - maximum := by
  unfold toDelete
  split
  · simp
  · simp only [List.length_take]; omega

theorem toDelete_subset (l : Ledger) (maximum : Nat) : ∀ r ∈ toDelete l maximum, r ∈ revs l := by
  intro r hr
  unfold toDelete at hr
  split at hr
  · simp at hr
  · have h1 := List.mem_of_mem_take hr
    have h2 := (List.mem_filter.mp h1).1
    exact (mem_sortAsc _ _).mp h2

end Helm.Ledger

namespace Helm.Ledger

theorem map_update_same (l : Ledger) (r : Rec) (h : ∀ x ∈ l, x.rev = r.rev → x = r) :
    (l.map fun x => if x.rev = r.rev then r else x) = l := by
  induction l with
  | nil => rfl
  | cons a t ih =>
    simp only [List.map_cons]
    rw [ih (fun x hx => h x (List.mem_cons_of_mem _ hx))]
    by_cases ha : a.rev = r.rev
    · simp [ha, h a List.mem_cons_self ha]
    · simp [ha]

/-- re-recording a record that is stored unchanged, with healthy storage, changes nothing -/
theorem stUpdate_same (s : St) (r : Rec) (hd : s.decs = []) (hmem : r ∈ s.ledger)
    (hall : ∀ x ∈ s.ledger, x.rev = r.rev → x = r) :
    (stUpdate s r).1 = .ok ∧ (stUpdate s r).2.ledger = s.ledger ∧ (stUpdate s r).2.decs = [] := by
  have hsome : (get? s.ledger r.rev).isSome = true := by
    rw [get?_isSome_iff]; exact List.mem_map.mpr ⟨r, hmem, rfl⟩
  simp [stUpdate, nextDec, hd, hsome, map_update_same _ _ hall]

/-- hooks of one event, healthy storage: the ledger is untouched and the phase outcome is the
decision (when there is at least one hook) -/
theorem hookPhase_same (r : Rec) (n : Nat) (d : Dec) : ∀ (s : St), s.decs = [] → r ∈ s.ledger →
    (∀ x ∈ s.ledger, x.rev = r.rev → x = r) →
    (hookPhase s r n d).1 = (if n = 0 then .ok else d) ∧ (hookPhase s r n d).2.ledger = s.ledger ∧
    (hookPhase s r n d).2.decs = [] := by
  induction n with
  | zero => intro s hd _ _; simp [hookPhase, hd]
  | succ k ih =>
    intro s hd hmem hall
    obtain ⟨h1, h2, h3⟩ := stUpdate_same s r hd hmem hall
    rw [hookPhase]
    cases hres : stUpdate s r with
    | mk dec s' =>
      rw [hres] at h1 h2 h3
      simp only at h1 h2 h3
      subst h1
      simp only
      by_cases hk : k = 0
      · simp [hk, h2, h3]
      · simp only [hk, if_false]
        have := ih s' h3 (h2 ▸ hmem) (h2 ▸ hall)
        simp only [hk, if_false] at this
        simp [this.1, this.2.1, this.2.2, h2]

/-! ### takeWhile helpers (for the pruning bound) -/

theorem mem_takeWhile_holds (p : Nat → Bool) : ∀ (l : List Nat) (x : Nat), x ∈ l.takeWhile p → p x = true := by
  intro l
  induction l with
  | nil => intro x hx; simp at hx
  | cons a r ih =>
    intro x hx
    by_cases ha : p a = true
    · simp only [List.takeWhile_cons, ha, if_true, List.mem_cons] at hx
      rcases hx with h | h
      · subst h; exact ha
      · exact ih x h
    · simp [List.takeWhile_cons, ha] at hx

theorem takeWhile_all (p : Nat → Bool) : ∀ (l : List Nat), (∀ x ∈ l, p x = true) → l.takeWhile p = l := by
  intro l
  induction l with
  | nil => intro _; rfl
  | cons a r ih =>
    intro h
    have ha : p a = true := h a (by simp)
    simp only [List.takeWhile_cons, ha, if_true]
    rw [ih (fun x hx => h x (by simp [hx]))]

end Helm.Ledger
