/-
A rollback whose pre- or post-rollback hook fails, on any history with unique revisions: the
revision it created is recorded as failed and nothing else changes (lemmas for C03; the
behaviour since the repair of performRollback in /repo).
-/
import Helm.Lemmas.RollbackSuccess
namespace Helm.Ledger

theorem rollback_hook_failure (post : Bool) (fl : RollbackFlags) (l : Ledger) (cur prevRec : Rec)
    (hdry : fl.dryRun = false) (hmax : fl.maxHistory = 0)
    (hhooks : fl.disableHooks = false) (hn : 0 < fl.nHooks)
    (hlast : last? l = some cur)
    (hprev : get? l (if fl.version = 0 then cur.rev - 1 else fl.version) = some prevRec) :
    (rollback fl (if post then { postHook := .fail } else { preHook := .fail }) l).2 = .error ∧
    (rollback fl (if post then { postHook := .fail } else { preHook := .fail }) l).1.ledger =
      l ++ [⟨cur.rev + 1, .failed, prevRec.payload⟩] := by
  obtain ⟨hcm, hcr⟩ := last?_spec hlast
  let n := cur.rev + 1
  let tgt : Rec := ⟨n, .pendingRollback, prevRec.payload⟩
  let s0 : St := { ledger := l, decs := [] }
  have hnh : (if fl.disableHooks then 0 else fl.nHooks) = fl.nHooks := by simp [hhooks]
  have hn0 : ¬ fl.nHooks = 0 := by omega
  have hfresh : get? l tgt.rev = none :=
    get?_none_of_lt l n (fun x hx => by have := rev_le_maxRev l x hx; omega)
  let s1 : St := (stCreate s0 tgt).2
  have hs1 : stCreate s0 tgt = (.ok, s1) := by simp [s1, stCreate, nextDec, s0, hfresh]
  have hs1l : s1.ledger = l ++ [tgt] := by simp [s1, stCreate, nextDec, s0, hfresh]
  have hs1d : s1.decs = [] := by simp [s1, stCreate, nextDec, s0, hfresh]
  have huniq : ∀ (s : St), s.ledger = l ++ [tgt] → ∀ x ∈ s.ledger, x.rev = tgt.rev → x = tgt := by
    intro s hs x hx hr
    rw [hs] at hx
    rcases List.mem_append.mp hx with h | h
    · have := rev_le_maxRev l x h; simp [tgt, n] at hr; omega
    · simpa using h
  -- marking the new record failed on a state whose ledger is l ++ [tgt]
  have hfail : ∀ (s : St), s.ledger = l ++ [tgt] → s.decs = [] →
      stUpdate s { tgt with status := .failed } =
        (.ok, (stUpdate s { tgt with status := .failed }).2) ∧
      (stUpdate s { tgt with status := .failed }).2.ledger = l ++ [⟨n, .failed, prevRec.payload⟩] := by
    intro s hsl hsd
    have hm : ({ tgt with status := .failed } : Rec).rev ∈ revs s.ledger := by
      rw [hsl]; simp [revs, tgt]
    have hu := stUpdate_ok s { tgt with status := .failed } hsd hm
    refine ⟨by rw [hu], ?_⟩
    rw [hu]
    simp only [hsl, List.map_append, List.map_cons, List.map_nil]
    congr 1
    · conv => rhs; rw [← List.map_id l]
      apply List.map_congr_left
      intro x hx
      have : ¬ x.rev = n := by have := rev_le_maxRev l x hx; omega
      simp [tgt, this]
  have hs1' : stCreate { ledger := l, decs := [] } ⟨cur.rev + 1, .pendingRollback, prevRec.payload⟩ = (.ok, s1) := hs1
  cases post with
  | false =>
    have hpre := hookPhase_same tgt fl.nHooks .fail s1 hs1d (by simp [hs1l]) (huniq s1 hs1l)
    let s2 : St := (hookPhase s1 tgt fl.nHooks .fail).2
    have hs2 : hookPhase s1 tgt fl.nHooks .fail = (.fail, s2) := by
      apply Prod.ext
      · simp only [hpre.1, hn0, if_false]
      · rfl
    have hs2l : s2.ledger = l ++ [tgt] := by rw [← hs1l]; exact hpre.2.1
    have hs2' : hookPhase s1 ⟨cur.rev + 1, .pendingRollback, prevRec.payload⟩ fl.nHooks .fail = (.fail, s2) := hs2
    obtain ⟨hf1, hf2⟩ := hfail s2 hs2l hpre.2.2
    have hf1' : stUpdate s2 ⟨cur.rev + 1, .failed, prevRec.payload⟩ = (.ok, (stUpdate s2 { tgt with status := .failed }).2) := hf1
    have hres : rollback fl { preHook := .fail } l = ((stUpdate s2 { tgt with status := .failed }).2, .error) := by
      unfold rollback rollbackOn
      simp only [hlast, hprev, hdry, Bool.false_eq_true, if_false, storageCreate, hmax, Nat.lt_irrefl, hs1', hnh, hs2', hf1']
    simp only [Bool.false_eq_true, if_false]
    rw [hres]
    exact ⟨rfl, hf2⟩
  | true =>
    have hpre := hookPhase_same tgt fl.nHooks .ok s1 hs1d (by simp [hs1l]) (huniq s1 hs1l)
    let s2 : St := (hookPhase s1 tgt fl.nHooks .ok).2
    have hs2 : hookPhase s1 tgt fl.nHooks .ok = (.ok, s2) := by
      apply Prod.ext
      · simp only [hpre.1]; split <;> rfl
      · rfl
    have hs2l : s2.ledger = l ++ [tgt] := by rw [← hs1l]; exact hpre.2.1
    have hs2d : s2.decs = [] := hpre.2.2
    have hpost := hookPhase_same tgt fl.nHooks .fail s2 hs2d (by simp [hs2l]) (huniq s2 hs2l)
    let s3 : St := (hookPhase s2 tgt fl.nHooks .fail).2
    have hs3 : hookPhase s2 tgt fl.nHooks .fail = (.fail, s3) := by
      apply Prod.ext
      · simp only [hpost.1, hn0, if_false]
      · rfl
    have hs3l : s3.ledger = l ++ [tgt] := by rw [← hs2l]; exact hpost.2.1
    have hs2' : hookPhase s1 ⟨cur.rev + 1, .pendingRollback, prevRec.payload⟩ fl.nHooks .ok = (.ok, s2) := hs2
    have hs3' : hookPhase s2 ⟨cur.rev + 1, .pendingRollback, prevRec.payload⟩ fl.nHooks .fail = (.fail, s3) := hs3
    obtain ⟨hf1, hf2⟩ := hfail s3 hs3l hpost.2.2
    have hf1' : stUpdate s3 ⟨cur.rev + 1, .failed, prevRec.payload⟩ = (.ok, (stUpdate s3 { tgt with status := .failed }).2) := hf1
    have hres : rollback fl { postHook := .fail } l = ((stUpdate s3 { tgt with status := .failed }).2, .error) := by
      unfold rollback rollbackOn
      simp only [hlast, hprev, hdry, Bool.false_eq_true, if_false, storageCreate, hmax, Nat.lt_irrefl, hs1', hnh, hs2', hs3', hf1']
    simp only [if_true]
    rw [hres]
    exact ⟨rfl, hf2⟩

end Helm.Ledger
