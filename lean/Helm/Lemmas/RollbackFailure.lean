/-
A rollback whose pre- or post-rollback hook fails, on any history with unique revisions: the
revision it created is recorded as failed and nothing else changes (lemmas for C03; the
behaviour since the repair of performRollback in /repo).
-/
import Helm.Lemmas.RollbackSuccess
namespace Helm.Ledger

theorem rollback_hook_failure (post : Bool) (fl : RollbackFlags) (l : Ledger) (cur prevRec : Rec)
    (hdry : fl.dryRun = false) (hmax : fl.maxHistory = 0)
    (hhooks : fl.disableHooks = false) (hn : 0 < fl.nHooks)
    (hlast : last? l = some cur)
    (hprev : get? l (if fl.version = 0 then cur.rev - 1 else fl.version) = some prevRec) :
    (rollback fl (if post then { postHook := .fail } else { preHook := .fail }) l).2 = .error ∧
    (rollback fl (if post then { postHook := .fail } else { preHook := .fail }) l).1.ledger =
      l ++ [⟨cur.rev + 1, .failed, prevRec.payload⟩] := by
  obtain ⟨hcm, hcr⟩ := last?_spec hlast
  let n := cur.rev + 1
  let tgt : Rec := ⟨n, .pendingRollback, prevRec.payload⟩
  let s0 : St := { ledger := l, decs := [] }
  have hnh : (if fl.disableHooks then 0 else fl.nHooks) = fl.nHooks := by simp [hhooks]
  have hn0 : ¬ fl.nHooks = 0 := by omega
  have hfresh : get? l tgt.rev = none :=
    get?_none_of_lt l n (fun x hx => by have := rev_le_maxRev l x hx; omega)
  let s1 : St := (stCreate s0 tgt).2
  have hs1 : stCreate s0 tgt = (.ok, s1) := by simp [s1, stCreate, nextDec, s0, hfresh]
  have hs1l : s1.ledger = l ++ [tgt] := by simp [s1, stCreate, nextDec, s0, hfresh]
  have hs1d : s1.decs = [] := by simp [s1, stCreate, nextDec, s0, hfresh]
  have huniq : ∀ (s : St), s.ledger = l ++ [tgt] → ∀ x ∈ s.ledger, x.rev = tgt.rev → x = tgt := by
    intro s hs x hx hr
    rw [hs] at hx
    rcases List.mem_append.mp hx with h | h
    · have := rev_le_maxRev l x h; simp [tgt, n] at hr; omega
    · simpa using h
  -- marking the new record failed on a state whose ledger is l ++ [tgt]
  have hfail : ∀ (s : St), s.ledger = l ++ [tgt] → s.decs = [] →
      stUpdate s { tgt with status := .failed } =
        (.ok, (stUpdate s { tgt with status := .failed }).2) ∧
      (stUpdate s { tgt with status := .failed }).2.ledger = l ++ [⟨n, .failed, prevRec.payload⟩] := by
    intro s hsl hsd
    have hm : ({ tgt with status := .failed } : Rec).rev ∈ revs s.ledger := by
      rw [hsl]; simp [revs, tgt]
    have hu := stUpdate_ok s { tgt with status := .failed } hsd hm
    refine ⟨by rw [hu], ?_⟩
    rw [hu]
    simp only [hsl, List.map_append, List.map_cons, List.map_nil]
    congr 1
    · conv => rhs; rw [← List.map_id l]
      apply List.map_congr_left
      intro x hx
      have : ¬ x.rev = n := by have := rev_le_maxRev l x hx; omega
      simp [tgt, this]
  have hs1' : stCreate { ledger := l, decs := [] } ⟨cur.rev + 1, .pendingRollback, prevRec.payload⟩ = (.ok, s1) := hs1
  cases post with
  | false =>
    have hpre := hookPhase_same tgt fl.nHooks .fail s1 hs1d (by simp [hs1l]) (huniq s1 hs1l)
    let s2 : St := (hookPhase s1 tgt fl.nHooks .fail).2
    have hs2 : hookPhase s1 tgt fl.nHooks .fail = (.fail, s2) := by
      apply Prod.ext
      · simp only [hpre.1, hn0, if_false]
      · rfl
    have hs2l : s2.ledger = l ++ [tgt] := by rw [← hs1l]; exact hpre.2.1
    have hs2' : hookPhase s1 ⟨cur.rev + 1, .pendingRollback, prevRec.payload⟩ fl.nHooks .fail = (.fail, s2) := hs2
    obtain ⟨hf1, hf2⟩ := hfail s2 hs2l hpre.2.2
    have hf1' : stUpdate s2 ⟨cur.rev + 1, .failed, prevRec.payload⟩ = (.ok, (stUpdate s2 { tgt with status := .failed }).2) := hf1
    have hres : rollback fl { preHook := .fail } l = ((stUpdate s2 { tgt with status := .failed }).2, .error) := by
      unfold rollback rollbackOn
      simp only [hlast, hprev, hdry, Bool.false_eq_true, if_false, storageCreate, hmax, Nat.lt_irrefl, hs1', hnh, hs2', hf1']
    simp only [Bool.false_eq_true, if_false]
    rw [hres]
    exact ⟨rfl, hf2⟩
  | true =>
    have hpre := hookPhase_same tgt fl.nHooks .ok s1 hs1d (by simp [hs1l]) (huniq s1 hs1l)
    let s2 : St := (hookPhase s1 tgt fl.nHooks .ok).2
    have hs2 : hookPhase s1 tgt fl.nHooks .ok = (.ok, s2) := by
      apply Prod.ext
      · simp only [hpre.1]; split <;> rfl
      · rfl
    have hs2l : s2.ledger = l ++ [tgt] := by rw [← hs1l]; exact hpre.2.1
    have hs2d : s2.decs = [] := hpre.2.2
    have hpost := hookPhase_same tgt fl.nHooks .fail s2 hs2d (by simp [hs2l]) (huniq s2 hs2l)
    let s3 : St := (hookPhase s2 tgt fl.nHooks .fail).2
    have hs3 : hookPhase s2 tgt fl.nHooks .fail = (.fail, s3) := by
      apply Prod.ext
      · simp only [hpost.1, hn0, if_false]
      · rfl
    have hs3l : s3.ledger = l ++ [tgt] := by rw [← hs2l]; exact hpost.2.1
    have hs2' : hookPhase s1 ⟨cur.rev + 1, .pendingRollback, prevRec.payload⟩ fl.nHooks .ok = (.ok, s2) := hs2
    have hs3' : hookPhase s2 ⟨cur.rev + 1, .pendingRollback, prevRec.payload⟩ fl.nHooks .fail = (.fail, s3) := hs3
    obtain ⟨hf1, hf2⟩ := hfail s3 hs3l hpost.2.2
    have hf1' : stUpdate s3 ⟨cur.rev + 1, .failed, prevRec.payload⟩ = (.ok, (stUpdate s3 { tgt with status := .failed }).2) := hf1
    have hres : rollback fl { postHook := .fail } l = ((stUpdate s3 { tgt with status := .failed }).2, .error) := by
      unfold rollback rollbackOn
      simp only [hlast, hprev, hdry, Bool.false_eq_true, if_false, storageCreate, hmax, Nat.lt_irrefl, hs1', hnh, hs2', hs3', hf1']
    simp only [if_true]
    rw [hres]
    exact ⟨rfl, hf2⟩

/-- A rollback whose update is rejected, or whose readiness wait fails, on any history with
unique revisions (healthy storage, no cleanup fault): error; the new revision is recorded as
failed; on a rejected update the revision rolled back from is marked superseded (as the source
does), on a failed wait it keeps its status; nothing else changes. -/
theorem rollback_resource_failure (waitFails : Bool) (fl : RollbackFlags) (l : Ledger) (cur prevRec : Rec)
    (hdry : fl.dryRun = false) (hmax : fl.maxHistory = 0) (hnd : (revs l).Nodup)
    (hlast : last? l = some cur)
    (hprev : get? l (if fl.version = 0 then cur.rev - 1 else fl.version) = some prevRec) :
    (rollback fl (if waitFails then { wait := .fail } else { resources := .fail }) l).2 = .error ∧
    (rollback fl (if waitFails then { wait := .fail } else { resources := .fail }) l).1.ledger =
      (if waitFails then l else setStatus l cur.rev .superseded) ++ [⟨cur.rev + 1, .failed, prevRec.payload⟩] := by
  obtain ⟨hcm, hcr⟩ := last?_spec hlast
  let n := cur.rev + 1
  let tgt : Rec := ⟨n, .pendingRollback, prevRec.payload⟩
  let nh := if fl.disableHooks then 0 else fl.nHooks
  let s0 : St := { ledger := l, decs := [] }
  have hfresh : get? l tgt.rev = none :=
    get?_none_of_lt l n (fun x hx => by have := rev_le_maxRev l x hx; omega)
  let s1 : St := (stCreate s0 tgt).2
  have hs1 : stCreate s0 tgt = (.ok, s1) := by simp [s1, stCreate, nextDec, s0, hfresh]
  have hs1l : s1.ledger = l ++ [tgt] := by simp [s1, stCreate, nextDec, s0, hfresh]
  have hs1d : s1.decs = [] := by simp [s1, stCreate, nextDec, s0, hfresh]
  have huniq : ∀ (s : St), s.ledger = l ++ [tgt] → ∀ x ∈ s.ledger, x.rev = tgt.rev → x = tgt := by
    intro s hs x hx hr
    rw [hs] at hx
    rcases List.mem_append.mp hx with h | h
    · have := rev_le_maxRev l x h; simp [tgt, n] at hr; omega
    · simpa using h
  have hpre := hookPhase_same tgt nh .ok s1 hs1d (by simp [hs1l]) (huniq s1 hs1l)
  let s2 : St := (hookPhase s1 tgt nh .ok).2
  have hs2 : hookPhase s1 tgt nh .ok = (.ok, s2) := by
    apply Prod.ext
    · simp only [hpre.1]; split <;> rfl
    · rfl
  have hs2l : s2.ledger = l ++ [tgt] := by rw [← hs1l]; exact hpre.2.1
  have hs2d : s2.decs = [] := hpre.2.2
  have hs1' : stCreate { ledger := l, decs := [] } ⟨cur.rev + 1, .pendingRollback, prevRec.payload⟩ = (.ok, s1) := hs1
  have hs2' : hookPhase s1 ⟨cur.rev + 1, .pendingRollback, prevRec.payload⟩ (if fl.disableHooks then 0 else fl.nHooks) .ok = (.ok, s2) := hs2
  have hcne : ¬ tgt.rev = cur.rev := by simp [tgt, n]
  cases waitFails with
  | false =>
    -- current -> superseded, then target -> failed
    have hc2 : cur.rev ∈ revs s2.ledger := by
      rw [hs2l]; simp only [revs, List.map_append, List.mem_append]
      exact Or.inl (List.mem_map.mpr ⟨cur, hcm, rfl⟩)
    have hu3 := stUpdate_ok s2 { cur with status := .superseded } hs2d hc2
    let s3 : St := (stUpdate s2 { cur with status := .superseded }).2
    have hs3 : stUpdate s2 { cur with status := .superseded } = (.ok, s3) := Prod.ext (by rw [hu3]) rfl
    have hs3l : s3.ledger = setStatus l cur.rev .superseded ++ [tgt] := by
      simp only [s3, hu3, hs2l, List.map_append, List.map_cons, List.map_nil, hcne, if_false]
      congr 1
      unfold setStatus
      apply List.map_congr_left
      intro x hx
      by_cases hxc : x.rev = cur.rev
      · have : x = cur := eq_of_rev hnd hx hcm hxc
        subst this; simp
      · simp [hxc]
    have hs3d : s3.decs = [] := by simp [s3, hu3, hs2d]
    have hn3 : ({ tgt with status := .failed } : Rec).rev ∈ revs s3.ledger := by
      rw [hs3l]; simp [revs, tgt]
    have hu4 := stUpdate_ok s3 { tgt with status := .failed } hs3d hn3
    have hu4' : stUpdate s3 ⟨cur.rev + 1, .failed, prevRec.payload⟩ = (.ok, (stUpdate s3 { tgt with status := .failed }).2) := by
      have : stUpdate s3 { tgt with status := .failed } = stUpdate s3 ⟨cur.rev + 1, .failed, prevRec.payload⟩ := rfl
      rw [← this, hu4]
    have hres : rollback fl { resources := .fail } l = ((stUpdate s3 { tgt with status := .failed }).2, .error) := by
      unfold rollback rollbackOn
      simp only [hlast, hprev, hdry, Bool.false_eq_true, if_false, storageCreate, hmax, Nat.lt_irrefl, hs1', hs2', hs3, hu4']
      simp
    simp only [Bool.false_eq_true, if_false]
    rw [hres]
    refine ⟨rfl, ?_⟩
    rw [hu4]
    simp only [hs3l, List.map_append, List.map_cons, List.map_nil]
    congr 1
    · conv => rhs; rw [← List.map_id (setStatus l cur.rev .superseded)]
      apply List.map_congr_left
      intro x hx
      unfold setStatus at hx
      obtain ⟨y, hy, hyx⟩ := List.mem_map.mp hx
      have hyn : ¬ y.rev = n := by have := rev_le_maxRev l y hy; omega
      have : ¬ x.rev = n := by
        rw [← hyx]; split
        · exact hyn
        · exact hyn
      simp [tgt, this]
  | true =>
    -- current re-recorded as it is, then target -> failed
    have hcuniq : ∀ x ∈ s2.ledger, x.rev = cur.rev → x = cur := by
      intro x hx hr
      rw [hs2l] at hx
      rcases List.mem_append.mp hx with h | h
      · exact eq_of_rev hnd h hcm hr
      · simp only [List.mem_singleton] at h; subst h; exact absurd hr hcne
    obtain ⟨h1, h2, h3⟩ := stUpdate_same s2 cur hs2d (by rw [hs2l]; exact List.mem_append_left _ hcm) hcuniq
    let s3 : St := (stUpdate s2 cur).2
    have hs3 : stUpdate s2 cur = (.ok, s3) := Prod.ext h1 rfl
    have hs3l : s3.ledger = l ++ [tgt] := by rw [← hs2l]; exact h2
    have hn3 : ({ tgt with status := .failed } : Rec).rev ∈ revs s3.ledger := by
      rw [hs3l]; simp [revs, tgt]
    have hu4 := stUpdate_ok s3 { tgt with status := .failed } h3 hn3
    have hu4' : stUpdate s3 ⟨cur.rev + 1, .failed, prevRec.payload⟩ = (.ok, (stUpdate s3 { tgt with status := .failed }).2) := by
      have : stUpdate s3 { tgt with status := .failed } = stUpdate s3 ⟨cur.rev + 1, .failed, prevRec.payload⟩ := rfl
      rw [← this, hu4]
    have hres : rollback fl { wait := .fail } l = ((stUpdate s3 { tgt with status := .failed }).2, .error) := by
      unfold rollback rollbackOn
      simp only [hlast, hprev, hdry, Bool.false_eq_true, if_false, storageCreate, hmax, Nat.lt_irrefl, hs1', hs2', hs3, hu4']
    simp only [if_true]
    rw [hres]
    refine ⟨rfl, ?_⟩
    rw [hu4]
    simp only [hs3l, List.map_append, List.map_cons, List.map_nil]
    congr 1
    · conv => rhs; rw [← List.map_id l]
      apply List.map_congr_left
      intro x hx
      have : ¬ x.rev = n := by have := rev_le_maxRev l x hx; omega
      simp [tgt, this]

end Helm.Ledger
